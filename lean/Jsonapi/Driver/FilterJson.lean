/- Driver glue: the modelled JSON codec of the `filter` parameter (op `filterjson`). -/
import Jsonapi.Basic.Sx
import Jsonapi.Model.FilterJson
namespace Jsonapi.Driver
open Jsonapi

mutual
/-- the dynamic types under `Filter.Val`, which the canonical text does not show: `a` an
`any` value, `n` the nil `[]*Filter`, `[…]` a `[]*Filter` with `-` for a nil element -/
def shapeF : FilterVal → String
  | .mk _ _ _ v => shapeV v
def shapeV : FVal → String
  | .any _ => "a"
  | .filters none => "n"
  | .filters (some l) => "[" ++ shapeL l ++ "]"
def shapeL : List (Option FilterVal) → String
  | [] => ""
  | none :: r => "-" ++ shapeL r
  | some f :: r => shapeF f ++ shapeL r
end

/-- `(filterjson dec x<text>)`: `json.Unmarshal(text, &Filter{})` then `json.Marshal`:
`ok x<canonical text> <shape>` or `err`. dom: every number literal of the text is a canonical
integer numeral within ±2^53 (then `numCanon := id`); outside, and on bytes that are not
UTF-8, the answer is `skip`.
`(filterjson label x<label>)`: `x<json.Marshal(label) without the quotes>` (any bytes: Go's
U+FFFD replacement is modelled by `goLabelBody`) then what decoding that body between quotes
gives: `ok x<label>` or `none`.
`(filterjson labeldec x<v>)`: `json.Unmarshal("\"" + v + "\"", &label)`: `ok x<label>` or
`none`; `skip` when `v` is not UTF-8. -/
def stepFilterJson (args : List Sx) : String × String × Bool :=
  match args with
  | [.atom "dec", x] =>
    let t := x.bytes!
    if !utf8Valid t then ("skip", "-", false)
    else match Spec.parseJson t with
      | none => ("err", "-", true)
      | some j =>
        if !j.safeNums then ("skip", "-", false)
        else match filterOfJson id j with
          | .ok f => ("ok " ++ (Sx.ofBytes (renderFilter f)).toStr ++ " " ++ shapeF f, "-", true)
          | _ => ("err", "-", true)
  | [.atom "label", x] =>
    let l := x.bytes!
    let body := goLabelBody l
    let back := match labelDec body with
      | some s => "ok " ++ (Sx.ofBytes s).toStr
      | none => "none"
    -- on well-formed UTF-8 the two encoders agree (`goStrBody_valid`); checked here too
    if utf8Valid l && body != labelBody l then ("encoders-differ", "-", true)
    else ((Sx.ofBytes body).toStr ++ " " ++ back, "-", true)
  | [.atom "labeldec", x] =>
    let v := x.bytes!
    if !utf8Valid v then ("skip", "-", false)
    else match labelDec v with
      | some s => ("ok " ++ (Sx.ofBytes s).toStr, "-", true)
      | none => ("none", "-", true)
  | _ => ("bad-op", "-", false)

end Jsonapi.Driver
