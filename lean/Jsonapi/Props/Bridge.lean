/-
Bridge (work package W2) — from the two resource implementations to the abstract views.

The marshal (C03/C04), round-trip (C01/C02), equality (C17) and collection (C19) theorems
quantify over an abstract `r : ResView` satisfying decidable predicates (`ResView.ok`,
`ResView.keyedWf`, `ViewWF`, `ResDom`).  This file shows that the views the library actually
hands to those functions satisfy them:

* `Soft.view s` of a soft resource `s` in the state invariant `SoftGood` (keyed type without a
  field called "id", valid attribute kinds, every stored value of the Go type of its field).
  A freshly created soft resource satisfies it (`SoftGood_init`) and every
  Set / AddAttr / AddRel / RemoveField / SetType call in the domain preserves it
  (`SoftGood_step`, `SoftGood_run`);
* `Wrapped.view w` of a wrapped struct whose declaration `Check` accepts and whose value is
  well typed (`Wrapped.WT`, C20's invariant: established by `C20_zero_WT`, preserved by every
  Set / SetID / New / Copy of `C20_accept_safe`).

Part 2 instantiates the abstract theorems with those views (C01, C17, C19, C20).
-/
import Jsonapi.Props.C01
import Jsonapi.Props.C04
import Jsonapi.Props.C17
import Jsonapi.Props.C17S
import Jsonapi.Props.C19
import Jsonapi.Props.C20
namespace Jsonapi
open GoMap Spec

/-! ## 1. Soft resources -/

/-- Every attribute of the type has one of the fourteen kinds. -/
def Typ.kindsOk (t : Typ) : Prop := ∀ p ∈ t.attrs, (Kind.ofCode? p.2.ty).isSome = true

instance (t : Typ) : Decidable t.kindsOk := by unfold Typ.kindsOk; exact inferInstance

/-- `x` is a value of the Go type the type declares for the name `f`: for an attribute a value
of its kind and nullability with a payload of the kind's shape and range (or untyped nil when
nullable), for a relationship a string or a string list by cardinality. No condition for a
name that is no field, nor for an attribute whose kind code is not one of the fourteen. -/
def Soft.valOk (t : Typ) (f : GoString) (x : GoVal) : Bool :=
  match t.attrs.get? f with
  | some a => (match Kind.ofCode? a.ty with
    | some k => x.hasAttrType k a.nullable || (a.nullable && x = .nil)
    | none => true)
  | none => match t.rels.get? f with
    | some r => (match x with
      | .val .string (.s _) => r.toOne
      | .strs _ => !r.toOne
      | _ => false)
    | none => true

/-- The data map of the soft resource is well typed: what it stores under a name (what `get?`
finds: a Go map has one value per key) is a value of the Go type of that field. -/
def Soft.WT (s : Soft) : Prop :=
  ∀ f ∈ s.data.keys, (s.data.get? f).all (Soft.valOk s.typ f) = true

instance (s : Soft) : Decidable s.WT := by unfold Soft.WT; exact inferInstance

theorem Soft.WT_iff (s : Soft) :
    s.WT ↔ ∀ f x, s.data.get? f = some x → Soft.valOk s.typ f x = true := by
  constructor
  · intro h f x hx
    have := h f (mem_keys_of_get? hx)
    rw [hx] at this
    exact this
  · intro h f _
    cases hx : s.data.get? f with
    | none => rfl
    | some x => exact h f x hx

/-- The state invariant of a soft resource under which its view is in the domain of the
marshal / round-trip / equality / collection theorems. -/
structure SoftGood (s : Soft) : Prop where
  keyed : TypKeyed s.typ
  noId : isField s.typ idName = false
  kinds : s.typ.kindsOk
  wt : s.WT

instance (s : Soft) : Decidable (SoftGood s) :=
  decidable_of_iff (TypKeyed s.typ ∧ isField s.typ idName = false ∧ s.typ.kindsOk ∧ s.WT)
    ⟨fun ⟨a, b, c, d⟩ => ⟨a, b, c, d⟩, fun h => ⟨h.keyed, h.noId, h.kinds, h.wt⟩⟩

/-! ### values of a field's type -/

theorem zero_hasAttrType (k : Kind) (n : Bool) : (GoVal.zero k n).hasAttrType k n = true := by
  cases k <;> cases n <;> decide

theorem Soft.valOk_fieldZero (t : Typ) (f : GoString) : Soft.valOk t f (fieldZero t f) = true := by
  unfold Soft.valOk fieldZero
  cases ha : t.attrs.get? f with
  | some a =>
    simp only []
    cases hk : Kind.ofCode? a.ty with
    | none => rfl
    | some k => simp [Attr.zero, hk, zero_hasAttrType]
  | none =>
    simp only []
    cases hr : t.rels.get? f with
    | none => rfl
    | some r =>
      simp only [Rel.zero]
      by_cases ho : r.toOne = true <;> simp [ho]

theorem hasAttrType_of_attrType {v : GoVal} {ty : Nat} {n : Bool} {k : Kind}
    (h : v.attrType = (ty, n)) (hk : Kind.ofCode? ty = some k) (hw : v.wellFormed = true) :
    v.hasAttrType k n = true := by
  have hc := Kind.code_of_ofCode? hk
  cases v with
  | val k' p =>
    simp only [GoVal.attrType, Prod.mk.injEq] at h
    obtain ⟨h1, h2⟩ := h
    have : k' = k := UnmL.Kind.code_inj (h1.trans hc.symm)
    subst this; subst h2
    simpa [GoVal.hasAttrType, GoVal.wellFormed] using hw
  | ptr k' p =>
    simp only [GoVal.attrType, Prod.mk.injEq] at h
    obtain ⟨h1, h2⟩ := h
    have : k' = k := UnmL.Kind.code_inj (h1.trans hc.symm)
    subst this; subst h2
    cases p with
    | none => simp [GoVal.hasAttrType]
    | some p => simpa [GoVal.hasAttrType, GoVal.wellFormed] using hw
  | strs l =>
    simp only [GoVal.attrType, Prod.mk.injEq] at h
    rw [← h.1] at hk; cases hk
  | nil =>
    simp only [GoVal.attrType, Prod.mk.injEq] at h
    rw [← h.1] at hk; cases hk
  | other m =>
    simp only [GoVal.attrType, Prod.mk.injEq] at h
    rw [← h.1] at hk; cases hk

/-- What an accepted `Set` stores is a value of the field's Go type. -/
theorem Soft.valOk_stored {t : Typ} {k : GoString} {v : GoVal} (h : accepts t k v = true)
    (hw : v.wellFormed = true) : Soft.valOk t k (stored t k v) = true := by
  unfold accepts at h
  cases ha : t.attrs.get? k with
  | some a =>
    simp only [ha] at h
    cases hk : Kind.ofCode? a.ty with
    | none => unfold Soft.valOk; simp only [ha, hk]
    | some kind =>
      by_cases hty : v.attrType = (a.ty, a.nullable)
      · have hst : stored t k v = v := by unfold stored; simp [ha, hty]
        rw [hst]
        unfold Soft.valOk
        simp only [ha, hk, hasAttrType_of_attrType hty hk hw, Bool.true_or]
      · simp only [hty, decide_false, Bool.false_or, Bool.and_eq_true, decide_eq_true_eq] at h
        obtain ⟨h1, h2⟩ := h
        have hst : stored t k v = a.zero := by
          unfold stored
          simp only [ha]
          rw [if_pos]
          simp only [Bool.and_eq_true, decide_eq_true_eq, ne_eq]
          exact ⟨⟨h1, h2⟩, hty⟩
        rw [hst]
        unfold Soft.valOk
        simp only [ha, hk, Attr.zero, zero_hasAttrType, Bool.true_or]
  | none =>
    simp only [ha] at h
    have hst : stored t k v = v := by unfold stored; simp [ha]
    rw [hst]
    unfold Soft.valOk
    simp only [ha]
    cases hr : t.rels.get? k with
    | none => rfl
    | some r =>
      simp only [hr] at h ⊢
      cases v with
      | val k' p => cases k' <;> cases p <;> exact h
      | _ => exact h

theorem Soft.valOk_addAttr_ne (t : Typ) (a : Attr) (f : GoString) (x : GoVal) (h : f ≠ a.name) :
    Soft.valOk { t with attrs := t.attrs.set a.name a } f x = Soft.valOk t f x := by
  unfold Soft.valOk
  simp only [get?_set_ne _ _ _ _ h]

theorem Soft.valOk_addRel_ne (t : Typ) (r : Rel) (f : GoString) (x : GoVal) (h : f ≠ r.fromName) :
    Soft.valOk { t with rels := t.rels.set r.fromName r } f x = Soft.valOk t f x := by
  unfold Soft.valOk
  simp only [get?_set_ne _ _ _ _ h]

theorem Soft.valOk_without (t : Typ) (f0 f : GoString) (x : GoVal) :
    Soft.valOk (t.without f0) f x = (decide (f = f0) || Soft.valOk t f x) := by
  unfold Soft.valOk Typ.without
  simp only [get?_del]
  by_cases e : f = f0 <;> simp [e]

theorem Soft.valOk_nonfield {t : Typ} {f : GoString} (h : isField t f = false) (x : GoVal) :
    Soft.valOk t f x = true := by
  obtain ⟨h1, h2⟩ := isField_false_get? h
  unfold Soft.valOk
  simp only [h1, h2]

/-- `check` keeps the data well typed. -/
theorem Soft.WT_checkData {t : Typ} (ht : TypKeyed t) {d : GoMap GoVal}
    (h : ∀ f x, d.get? f = some x → Soft.valOk t f x = true) :
    ∀ f x, (Soft.checkData t d).get? f = some x → Soft.valOk t f x = true := by
  intro f x hx
  rw [Soft.checkData_get? ht d f] at hx
  split at hx
  · simp only [Option.some.injEq] at hx
    subst hx
    cases hd : d.get? f with
    | some y => exact h f y hd
    | none => exact Soft.valOk_fieldZero t f
  · cases hx

/-! ### the invariant: established by creation, preserved by every call -/

/-- A freshly created soft resource (`Type.New`, `SoftResource.New`, `&SoftResource{}` +
`SetType`: no stored value yet) of a keyed type without a field called "id" and with valid
kinds is in the invariant, whatever its ID. -/
theorem SoftGood_init (t : Typ) (hk : TypKeyed t) (hid : isField t idName = false)
    (hkinds : t.kindsOk) (id : GoString) : SoftGood { typ := t, id := id, data := [] } :=
  ⟨hk, hid, hkinds, by intro f hf; cases hf⟩

/-- The types of the other theorems (`TypWF` with `Spec.namesOk`: C14's invariant on every
type of a schema) are such types. -/
theorem SoftGood_init_wf (t : Typ) (ht : TypWF t) (hn : Spec.namesOk t = true) (id : GoString) :
    SoftGood { typ := t, id := id, data := [] } := by
  refine SoftGood_init t ht.keyed ?_ ?_ id
  · rw [isField_false_iff]
    have : idName ∉ t.fieldKeys := fun hm => (namesOk_mem hn hm).1 rfl
    unfold Typ.fieldKeys at this
    simpa [List.mem_append, not_or] using this
  · intro p hp
    obtain ⟨_, _, h1, h2⟩ := ht.attrs p hp
    obtain ⟨k, hk⟩ := validKind h1 h2
    rw [hk]; rfl

/-- The values handed to `Set` exist in Go (payload of the shape and range of the kind). -/
def SoftOp.valsWf : SoftOp → Bool
  | .set _ v => v.wellFormed
  | _ => true

/-- The kinds an edit brings in are among the fourteen. -/
def SoftOp.kindsOk : SoftOp → Prop
  | .addAttr a => (Kind.ofCode? a.ty).isSome = true
  | .setType t => t.kindsOk
  | _ => True

instance (op : SoftOp) : Decidable op.kindsOk := by
  cases op <;> unfold SoftOp.kindsOk <;> exact inferInstance

/-- One call in the domain (`SoftOp.ok`, the C17S domain: a field added is not called "id",
SetType to a keyed type without "id" that keeps the definitions of the names it keeps; any
`Set`, well typed or not, with any real Go value; any `RemoveField`) keeps the invariant. -/
theorem SoftGood_step (s : Soft) (h : SoftGood s) (op : SoftOp) (hop : op.ok s.typ)
    (hv : op.valsWf = true) (hkd : op.kindsOk) : SoftGood (s.apply op) := by
  obtain ⟨t, id, d⟩ := s
  obtain ⟨ht, hid, hkinds, hwt⟩ := h
  simp only [] at ht hid hkinds hop
  rw [Soft.WT_iff] at hwt
  simp only [] at hwt
  have hD := Soft.WT_checkData ht hwt
  have hC : Closed t (Soft.checkData t d) := closed_checkData ht d
  have fieldOf : ∀ f x, (Soft.checkData t d).get? f = some x → isField t f = true := by
    intro f x hx
    have := hC f
    rw [has_of_get? hx] at this
    exact this.symm
  cases op with
  | set k v =>
    simp only [SoftOp.valsWf] at hv
    show SoftGood (({ typ := t, id := id, data := d } : Soft).set k v)
    by_cases hk : k = idName
    · subst hk
      rw [Soft.set_id]
      exact ⟨ht, hid, hkinds, (Soft.WT_iff _).2 hD⟩
    · rw [Soft.set_eq t id d k v hk]
      refine ⟨ht, hid, hkinds, (Soft.WT_iff _).2 ?_⟩
      simp only []
      by_cases hacc : accepts t k v = true
      · rw [if_pos hacc]
        intro f x hx
        by_cases e : f = k
        · subst e
          rw [get?_set_self] at hx
          cases hx
          exact Soft.valOk_stored hacc hv
        · rw [get?_set_ne _ _ _ _ e] at hx
          exact hD f x hx
      · rw [if_neg hacc]; exact hD
  | addAttr a =>
    show SoftGood (({ typ := t, id := id, data := d } : Soft).addAttr a)
    rw [Soft.addAttr_eq ht]
    by_cases hf : isField t a.name = true
    · rw [if_pos hf]
      exact ⟨ht, hid, hkinds, (Soft.WT_iff _).2 hD⟩
    · rw [if_neg hf]
      have hf' : isField t a.name = false := by simpa using hf
      refine ⟨ht.setAttr hf', ?_, ?_, (Soft.WT_iff _).2 ?_⟩
      · show isField { t with attrs := t.attrs.set a.name a } idName = false
        rw [Spec.isField_addAttr, hid]
        have : idName ≠ a.name := fun e => hop e.symm
        simp [this]
      · intro p hp
        rcases mem_set hp with hp | hp
        · exact hkinds p hp
        · subst hp; exact hkd
      · intro f x hx
        have hfx := fieldOf f x hx
        have : f ≠ a.name := by
          intro e; rw [e, hf'] at hfx; cases hfx
        show Soft.valOk { t with attrs := t.attrs.set a.name a } f x = true
        rw [Soft.valOk_addAttr_ne _ _ _ _ this]
        exact hD f x hx
  | addRel r =>
    show SoftGood (({ typ := t, id := id, data := d } : Soft).addRel r)
    rw [Soft.addRel_eq ht]
    by_cases hf : isField t r.fromName = true
    · rw [if_pos hf]
      exact ⟨ht, hid, hkinds, (Soft.WT_iff _).2 hD⟩
    · rw [if_neg hf]
      have hf' : isField t r.fromName = false := by simpa using hf
      refine ⟨ht.setRel hf', ?_, hkinds, (Soft.WT_iff _).2 ?_⟩
      · show isField { t with rels := t.rels.set r.fromName r } idName = false
        rw [Spec.isField_addRel, hid]
        have : idName ≠ r.fromName := fun e => hop e.symm
        simp [this]
      · intro f x hx
        have hfx := fieldOf f x hx
        have : f ≠ r.fromName := by
          intro e; rw [e, hf'] at hfx; cases hfx
        show Soft.valOk { t with rels := t.rels.set r.fromName r } f x = true
        rw [Soft.valOk_addRel_ne _ _ _ _ this]
        exact hD f x hx
  | removeField f0 =>
    show SoftGood (({ typ := t, id := id, data := d } : Soft).removeField f0)
    rw [Soft.removeField_eq]
    refine ⟨ht.without f0, ?_, ?_, (Soft.WT_iff _).2 ?_⟩
    · show isField (t.without f0) idName = false
      rw [Spec.isField_without, hid]; simp
    · intro p hp
      exact hkinds p (mem_del hp)
    · intro f x hx
      show Soft.valOk (t.without f0) f x = true
      rw [Soft.valOk_without, hD f x hx]; simp
  | setType t' =>
    show SoftGood (({ typ := t, id := id, data := d } : Soft).setType t')
    rw [Soft.setType_eq]
    obtain ⟨hk', hid', hcompat⟩ := hop
    refine ⟨hk', hid', hkd, (Soft.WT_iff _).2 ?_⟩
    intro f x hx
    show Soft.valOk t' f x = true
    by_cases hf' : isField t' f = true
    · obtain ⟨e1, e2⟩ := hcompat.defs (fieldOf f x hx) hf'
      have := hD f x hx
      unfold Soft.valOk at this ⊢
      rw [e1, e2]; exact this
    · exact Soft.valOk_nonfield (by simpa using hf') x

/-- The domain of call lists, evaluated along the run of the model. -/
def SoftOpsOk (s : Soft) : List SoftOp → Prop
  | [] => True
  | op :: ops => (op.ok s.typ ∧ op.valsWf = true ∧ op.kindsOk) ∧ SoftOpsOk (s.apply op) ops

instance SoftOpsOk.dec : (s : Soft) → (ops : List SoftOp) → Decidable (SoftOpsOk s ops)
  | _, [] => isTrue trivial
  | s, op :: ops =>
    have := SoftOpsOk.dec (s.apply op) ops
    inferInstanceAs (Decidable ((op.ok s.typ ∧ op.valsWf = true ∧ op.kindsOk) ∧ SoftOpsOk (s.apply op) ops))

/-- Every list of calls in the domain keeps the invariant. -/
theorem SoftGood_run (ops : List SoftOp) : ∀ (s : Soft), SoftGood s → SoftOpsOk s ops →
    SoftGood (s.run ops) := by
  induction ops with
  | nil => intro s h _; exact h
  | cons op ops ih =>
    intro s h hok
    obtain ⟨⟨h1, h2, h3⟩, hrest⟩ := hok
    exact ih _ (SoftGood_step s h op h1 h2 h3) hrest

/-! ### the view of a soft resource in the invariant -/

/-- What the view holds for a field: the stored value, or the field's zero value. -/
theorem Soft.view_get_keyed {t : Typ} (ht : TypKeyed t) (id : GoString) (d : GoMap GoVal)
    {f : GoString} (hf : isField t f = true) (hid : f ≠ idName) :
    ({ typ := t, id := id, data := d } : Soft).view.get f = (d.get? f).getD (fieldZero t f) := by
  unfold Soft.view ResView.get
  simp only [Soft.check]
  rw [get?_map_mk, if_pos (List.mem_append.2 ((isField_iff t f).1 hf))]
  simp only [Option.getD_some]
  rw [Soft.get_eq ht, if_neg hid, if_pos hf, Soft.checkData_get?_field ht d hf]
  rfl

/-- In the invariant, the view's value for a field is a value of the field's Go type. -/
theorem Soft.view_valOk (s : Soft) (hk : TypKeyed s.typ) (hid : isField s.typ idName = false)
    (hwt : s.WT) {f : GoString} (hf : isField s.typ f = true) :
    Soft.valOk s.typ f (s.view.get f) = true := by
  obtain ⟨t, id, d⟩ := s
  simp only [] at hk hid hf ⊢
  have hne : f ≠ idName := by intro e; rw [e, hid] at hf; cases hf
  rw [Soft.view_get_keyed hk id d hf hne]
  cases hd : d.get? f with
  | some y => exact (Soft.WT_iff _).1 hwt f y hd
  | none => exact Soft.valOk_fieldZero t f

/-- `keyed` needs only the keyed type (map key = stored name, no name twice). -/
theorem Soft_view_keyed (s : Soft) (hk : TypKeyed s.typ) : s.view.keyed :=
  ⟨hk.attrs, hk.rels, hk.ndA, hk.ndR⟩

/-- `ResView.wf`: every attribute of the view holds a value of its declared Go type, every
relationship a string / string list by cardinality, attribute and relationship names
disjoint. Needs of the type: keyed (names unique, key = name, attributes and relationships
disjoint), no field called "id" (`Get("id")` is the ID), kinds among the fourteen. -/
theorem Soft_view_wf (s : Soft) (h : SoftGood s) : s.view.wf = true := by
  obtain ⟨hk, hid, hkinds, hwt⟩ := h
  have hval := fun {f} hf => Soft.view_valOk s hk hid hwt (f := f) hf
  unfold ResView.wf
  rw [Bool.and_eq_true, List.all_eq_true, List.all_eq_true]
  constructor
  · intro p hp
    have hp' : p ∈ s.typ.attrs := hp
    have hpk : p.1 ∈ s.typ.attrs.keys := List.mem_map.2 ⟨p, hp', rfl⟩
    obtain ⟨a, ha⟩ := exists_get?_of_mem_keys hpk
    have hnr : s.typ.rels.has p.1 = false := by
      rw [has_false_iff, get?_eq_none_iff]; exact hk.disj p.1 hpk
    have hka := hkinds _ (mem_of_get? ha)
    cases hkk : Kind.ofCode? a.ty with
    | none => rw [hkk] at hka; cases hka
    | some k =>
      have hv := hval (isField_of_attr ha)
      unfold Soft.valOk at hv
      simp only [ha, hkk] at hv
      show (!s.typ.rels.has p.1 && match s.typ.attrs.get? p.1 with
        | some a => (match Kind.ofCode? a.ty with
          | some k => (s.view.get p.1).hasAttrType k a.nullable || (a.nullable && s.view.get p.1 = .nil)
          | none => false)
        | none => false) = true
      simp only [hnr, ha, hkk, Bool.not_false, Bool.true_and]
      exact hv
  · intro p hp
    have hp' : p ∈ s.typ.rels := hp
    have hpk : p.1 ∈ s.typ.rels.keys := List.mem_map.2 ⟨p, hp', rfl⟩
    obtain ⟨r, hr⟩ := exists_get?_of_mem_keys hpk
    have hna : s.typ.attrs.get? p.1 = none := by
      rw [get?_eq_none_iff]; exact fun hm => hk.disj p.1 hm hpk
    have hv := hval (isField_of_rel hr)
    unfold Soft.valOk at hv
    simp only [hna, hr] at hv
    show (match s.typ.rels.get? p.1 with
      | some rel => (match s.view.get p.1 with
        | .val .string (.s _) => rel.toOne
        | .strs _ => !rel.toOne
        | _ => false)
      | none => false) = true
    simp only [hr]
    generalize s.view.get p.1 = x at hv ⊢
    cases x with
    | val k' q => cases k' <;> cases q <;> exact hv
    | _ => exact hv

/-- **Soft_view_ok** — the view of a soft resource in the invariant is in the domain of the
equality theorems (C17: `ResView.ok`). -/
theorem Soft_view_ok (s : Soft) (h : SoftGood s) : s.view.ok :=
  ⟨Soft_view_wf s h, Soft_view_keyed s h.keyed⟩

/-- … in the domain of the marshal and round-trip theorems (C04 / C01 / C02 / C03 / C11:
`ResView.keyedWf`). -/
theorem Soft_view_keyedWf (s : Soft) (h : SoftGood s) : s.view.keyedWf :=
  ⟨Soft_view_wf s h, h.keyed.attrs, h.keyed.rels, h.keyed.nodup_keys⟩

/-- … and may be handed to `SoftCollection.Add` (C19: `ViewWF`). Needs of the type: keyed,
no field called "id"; of the values: the relationships' (the kinds play no part). -/
theorem Soft_view_ViewWF (s : Soft) (hk : TypKeyed s.typ) (hid : isField s.typ idName = false)
    (hwt : s.WT) : ViewWF s.view := by
  have notId : ∀ f, isField s.typ f = true → f ≠ idName := by
    intro f hf e; rw [e, hid] at hf; cases hf
  constructor
  · intro p hp
    have hp' : p ∈ s.typ.attrs := hp
    rw [← hk.attrs p hp']
    exact notId _ ((isField_iff _ _).2 (.inl (List.mem_map.2 ⟨p, hp', rfl⟩)))
  · intro p hp
    have hp' : p ∈ s.typ.rels := hp
    have hpk : p.1 ∈ s.typ.rels.keys := List.mem_map.2 ⟨p, hp', rfl⟩
    have hf : isField s.typ p.1 = true := (isField_iff _ _).2 (.inr hpk)
    rw [← hk.rels p hp']
    refine ⟨notId _ hf, ?_⟩
    have hr : s.typ.rels.get? p.1 = some p.2 := get?_of_mem_nodup hk.ndR hp'
    have hna : s.typ.attrs.get? p.1 = none := by
      rw [get?_eq_none_iff]; exact fun hm => hk.disj p.1 hm hpk
    have hv := Soft.view_valOk s hk hid hwt hf
    unfold Soft.valOk at hv
    simp only [hna, hr] at hv
    unfold relValOk
    rw [← hk.rels p hp']
    generalize s.view.get p.1 = x at hv ⊢
    cases x with
    | val k' q => cases k' <;> cases q <;> exact hv
    | _ => exact hv

/-- The three together. -/
theorem Soft_view_all (s : Soft) (h : SoftGood s) : s.view.ok ∧ s.view.keyedWf ∧ ViewWF s.view :=
  ⟨Soft_view_ok s h, Soft_view_keyedWf s h, Soft_view_ViewWF s h.keyed h.noId h.wt⟩

/-! ## 2. Wrapped structs -/

theorem nodup_keys_set' {β : Type} (m : GoMap β) (k : GoString) (v : β) (h : (keys m).Nodup) :
    (keys (GoMap.set m k v)).Nodup := by
  induction m with
  | nil => simp [GoMap.set, keys]
  | cons p m ih =>
    obtain ⟨k', v'⟩ := p
    simp only [keys, List.map_cons, List.nodup_cons] at h
    unfold GoMap.set
    split
    · rename_i e
      subst e
      simpa [keys] using h
    · rename_i hne
      simp only [keys, List.map_cons, List.nodup_cons]
      refine ⟨?_, ih h.2⟩
      intro hm
      rcases keys_set_subset m k v k' hm with h' | h'
      · exact h.1 h'
      · exact hne h'

theorem foldSet_nodup {α β : Type} (p : α → Bool) (key : α → GoString) (val : α → β)
    (l : List α) (m : GoMap β) (h : (keys m).Nodup) : (keys (foldSet p key val l m)).Nodup := by
  induction l generalizing m with
  | nil => exact h
  | cons a l ih =>
    rw [foldSet_cons]
    apply ih
    split
    · exact nodup_keys_set' _ _ _ h
    · exact h

theorem structAttrs_nodup (d : StructDecl) : (structAttrs d).keys.Nodup := by
  rw [structAttrs_eq]; exact foldSet_nodup _ _ _ _ _ List.nodup_nil

theorem relsOf_nodup (d : StructDecl) : (relsOf d).keys.Nodup :=
  foldSet_nodup _ _ _ _ _ List.nodup_nil

/-- An attribute name of an accepted struct is no relationship name (Check's `names` map). -/
theorem CheckFacts.attrs_rels_disj {d : StructDecl} (c : CheckFacts d) (hs : SingleID d) :
    ∀ k ∈ (structAttrs d).keys, k ∉ (relsOf d).keys := by
  intro k hk hk'
  obtain ⟨x, hx, rfl⟩ := List.mem_map.1 hk
  obtain ⟨f, hf, ha, rfl⟩ := structAttrs_mem hx
  obtain ⟨y, hy, hxy⟩ := List.mem_map.1 hk'
  obtain ⟨g, hg, hr, rfl⟩ := relsOf_mem hy
  simp only [] at hxy
  obtain ⟨i, hi⟩ := List.mem_iff_getElem?.1 hf
  obtain ⟨j, hj⟩ := List.mem_iff_getElem?.1 hg
  have h1 := c.fieldIdx hi (c.field_not_ID hs hf (.inl ha)) (.inl ha)
  have h2 := c.fieldIdx hj (c.field_not_ID hs hg (.inr hr)) (.inr hr)
  rw [hxy, h1, Option.some.injEq] at h2
  subst h2
  rw [hi, Option.some.injEq] at hj
  subst hj
  rw [SField.not_attr_and_rel ha] at hr
  cases hr

/-- An accepted, well-typed field read through `Get` is a value of the attribute's type. -/
theorem read_hasAttrType {k : Kind} {n : Bool} {v : GoVal} (ha : (GoTy.attr k n).accepts v = true)
    (hw : v.wellFormed = true) :
    (v.read.hasAttrType k n || (n && decide (v.read = .nil))) = true := by
  cases n with
  | false =>
    cases v with
    | val k' p =>
      simp only [GoTy.accepts, decide_eq_true_eq] at ha
      subst ha
      simpa [GoVal.read, GoVal.hasAttrType, GoVal.wellFormed] using hw
    | _ => simp [GoTy.accepts] at ha
  | true =>
    cases v with
    | ptr k' o =>
      simp only [GoTy.accepts, decide_eq_true_eq] at ha
      subst ha
      cases o with
      | none => simp [GoVal.read]
      | some p => simpa [GoVal.read, GoVal.hasAttrType, GoVal.wellFormed] using hw
    | _ => simp [GoTy.accepts] at ha

/-- The view of a wrapper all of whose `Get`s return. -/
def Wrapped.viewOf (w : Wrapped) : ResView :=
  { typeName := w.typ, id := w.getID, attrs := w.attrs, rels := w.rels,
    vals := (w.attrs.keys ++ w.rels.keys).map
      (fun n => (n, match w.get n with | .ok v => v | _ => GoVal.nil)) }

theorem Wrapped.view_eq_viewOf (w : Wrapped)
    (hall : ∀ n ∈ w.attrs.keys ++ w.rels.keys, ∃ v, w.get n = .ok v) :
    w.view = some w.viewOf := by
  unfold Wrapped.view Wrapped.viewOf
  simp only []
  generalize hvals : List.filterMap _ (w.attrs.keys ++ w.rels.keys) = vs
  have e : vs = (w.attrs.keys ++ w.rels.keys).map
      (fun n => (n, match w.get n with | .ok v => v | _ => GoVal.nil)) := by
    rw [← hvals]; exact filterMap_get_eq _ _ hall
  subst e
  simp only [List.length_map, if_true]

/-- **Wrapped_view_ok** — for a struct declaration accepted by `Check` (with Go's single `ID`
field) and a well-typed wrapper value, the view exists (no `Get` panics), carries the
wrapper's type name, ID and field maps, and satisfies `ResView.ok`, `ResView.keyedWf` and
`ViewWF`. -/
theorem Wrapped_view_ok (d : StructDecl) (h : checkStruct d = true) (hs : SingleID d)
    (vals : List GoVal) (w : Wrapped) (hw : wrap d vals = .ok w) (hwt : w.WT) :
    ∃ v, w.view = some v ∧ v.typeName = w.typ ∧ v.id = w.getID ∧ v.attrs = w.attrs ∧
      v.rels = w.rels ∧ (∀ f ∈ w.attrs.keys ++ w.rels.keys, w.get f = .ok (v.get f)) ∧
      v.ok ∧ v.keyedWf ∧ ViewWF v := by
  have c := checkFacts h
  have e := eq_mkW_of_wrap h hw
  subst e
  have hall : ∀ n ∈ (mkW d vals).attrs.keys ++ (mkW d vals).rels.keys,
      ∃ v, (mkW d vals).get n = .ok v := fun n hn => safe_get c hs hwt hn
  refine ⟨_, Wrapped.view_eq_viewOf _ hall, rfl, rfl, rfl, rfl, ?_⟩
  generalize hV : (mkW d vals).viewOf = V
  have hVa : V.attrs = structAttrs d := by rw [← hV]; rfl
  have hVr : V.rels = relsOf d := by rw [← hV]; rfl
  have hget : ∀ f ∈ (structAttrs d).keys ++ (relsOf d).keys, ∀ x, (mkW d vals).get f = .ok x →
      V.get f = x := by
    intro f hf x hx
    rw [← hV]
    unfold ResView.get Wrapped.viewOf
    simp only [mkW_attrs, mkW_rels]
    rw [get?_map_mk, if_pos hf, hx]
    rfl
  have hgetAll : ∀ f ∈ (mkW d vals).attrs.keys ++ (mkW d vals).rels.keys,
      (mkW d vals).get f = .ok (V.get f) := by
    intro f hf
    obtain ⟨x, hx⟩ := hall f hf
    rw [hget f hf x hx]; exact hx
  -- keyed
  have kA : ∀ p ∈ V.attrs, p.1 = p.2.name := by
    intro p hp
    rw [hVa] at hp
    obtain ⟨f, _, _, rfl⟩ := structAttrs_mem hp
    exact (attrOf_name f).symm
  have kR : ∀ p ∈ V.rels, p.1 = p.2.fromName := by
    intro p hp
    rw [hVr] at hp
    obtain ⟨f, _, _, rfl⟩ := relsOf_mem hp
    rfl
  have ndA : V.attrs.keys.Nodup := by rw [hVa]; exact structAttrs_nodup d
  have ndR : V.rels.keys.Nodup := by rw [hVr]; exact relsOf_nodup d
  have disj := c.attrs_rels_disj hs
  have ndAll : (V.attrs.keys ++ V.rels.keys).Nodup := by
    rw [List.nodup_append]
    refine ⟨ndA, ndR, ?_⟩
    intro a ha b hb e
    rw [hVa] at ha; rw [hVr] at hb
    exact disj a ha (e ▸ hb)
  -- the value of an attribute / relationship
  have attrVal : ∀ p ∈ structAttrs d, ∃ k n, p.2 = { name := p.1, ty := k.code, nullable := n } ∧
      (structAttrs d).get? p.1 = some p.2 ∧
      ((V.get p.1).hasAttrType k n || (n && decide (V.get p.1 = .nil))) = true := by
    intro p hp
    obtain ⟨f, hf, ha, rfl⟩ := structAttrs_mem hp
    have hne := c.field_not_ID hs hf (.inl ha)
    obtain ⟨k, n, hty⟩ := c.attrs f hf ha
    obtain ⟨i, x, _, _, hax, hwx, hgx⟩ := field_get c hwt hf hne (.inl ha)
    have hk : f.json ∈ (structAttrs d).keys ++ (relsOf d).keys :=
      List.mem_append_left _ (List.mem_map.2 ⟨_, hp, rfl⟩)
    refine ⟨k, n, by simp [attrOf, hty], c.attrs_get? hf hne ha, ?_⟩
    rw [hget _ hk _ hgx]
    rw [hty] at hax
    exact read_hasAttrType hax hwx
  have relVal : ∀ p ∈ relsOf d, (relsOf d).get? p.1 = some p.2 ∧ p.1 ≠ idName ∧
      (if p.2.toOne = true then ∃ id, V.get p.1 = .val .string (.s id)
       else ∃ l, V.get p.1 = .strs l) := by
    intro p hp
    obtain ⟨f, hf, hr, rfl⟩ := relsOf_mem hp
    have hne := c.field_not_ID hs hf (.inr hr)
    have hg := c.rels_get? hf hne hr
    have hk : f.json ∈ (structAttrs d).keys ++ (relsOf d).keys :=
      List.mem_append_right _ (List.mem_map.2 ⟨_, hp, rfl⟩)
    obtain ⟨x, hx, hshape⟩ := safe_get_rel c hs hwt hg
    rw [hget _ hk _ hx]
    exact ⟨hg, (c.json_ok hf hne (.inr hr)).2, hshape⟩
  -- wf
  have hwf : V.wf = true := by
    unfold ResView.wf
    rw [Bool.and_eq_true, List.all_eq_true, List.all_eq_true]
    constructor
    · intro p hp
      rw [hVa] at hp
      obtain ⟨k, n, hpe, hg, hv⟩ := attrVal p hp
      have hnr : V.rels.has p.1 = false := by
        rw [hVr, has_false_iff, get?_eq_none_iff]
        exact disj p.1 (List.mem_map.2 ⟨p, hp, rfl⟩)
      rw [hVa, hg, hnr, hpe]
      simp only [UnmL.ofCode?_code, Bool.not_false, Bool.true_and]
      exact hv
    · intro p hp
      rw [hVr] at hp
      obtain ⟨hg, _, hshape⟩ := relVal p hp
      rw [hVr, hg]
      simp only []
      by_cases ho : p.2.toOne = true
      · rw [if_pos ho] at hshape
        obtain ⟨id, hid⟩ := hshape
        rw [hid]; exact ho
      · rw [if_neg ho] at hshape
        obtain ⟨l, hl⟩ := hshape
        rw [hl]; simpa using ho
  refine ⟨hgetAll, ⟨hwf, kA, kR, ndA, ndR⟩, ⟨hwf, kA, kR, ndAll⟩, ?_, ?_⟩
  · intro p hp
    rw [hVa] at hp
    obtain ⟨f, hf, ha, rfl⟩ := structAttrs_mem hp
    rw [attrOf_name]
    exact (c.json_ok hf (c.field_not_ID hs hf (.inl ha)) (.inl ha)).2
  · intro p hp
    have hp' := hp
    rw [hVr] at hp'
    obtain ⟨_, hne, hshape⟩ := relVal p hp'
    rw [← kR p hp]
    refine ⟨hne, ?_⟩
    unfold relValOk
    rw [← kR p hp]
    by_cases ho : p.2.toOne = true
    · rw [if_pos ho] at hshape
      obtain ⟨id, hid⟩ := hshape
      rw [hid]; exact ho
    · rw [if_neg ho] at hshape
      obtain ⟨l, hl⟩ := hshape
      rw [hl]; simpa using ho

/-! ## 3. The abstract theorems, instantiated -/

/-- The invariant's conditions on the type hold for every type of the other theorems
(`TypWF` + `Spec.namesOk`, e.g. every type of a well-formed schema): only the typing of the
stored values remains. -/
theorem SoftGood_of_wf (s : Soft) (ht : TypWF s.typ) (hn : Spec.namesOk s.typ = true)
    (hwt : s.WT) : SoftGood s :=
  let g := SoftGood_init_wf s.typ ht hn []
  ⟨g.keyed, g.noId, g.kinds, hwt⟩

/-- The view's value for a field is what `Get` returns. -/
theorem Soft.view_get_eq_get (s : Soft) (hk : TypKeyed s.typ) (hid : isField s.typ idName = false)
    {f : GoString} (hf : isField s.typ f = true) : s.view.get f = s.get f := by
  obtain ⟨t, id, d⟩ := s
  simp only [] at hk hid hf
  have hne : f ≠ idName := by intro e; rw [e, hid] at hf; cases hf
  rw [Soft.view_get_keyed hk id d hf hne, Soft.get_eq hk, if_neg hne, if_pos hf]

/-! ### C01 -/

/-- C01 for a soft resource: a soft resource of a type of the (well-formed) schema whose
stored values are well typed (`Soft.WT`: what creation establishes and every call preserves,
`SoftGood_init` / `SoftGood_step`) and whose times are in the decoder's domain is marshaled
successfully by the model's `MarshalResource` with all fields and all relationship data
selected, and unmarshaling what was written gives back type name, ID and, for every field,
the same value as `Get` returns on the source. -/
theorem C01_roundtrip_soft (c : Spec.Codecs) (σ : SSchema) (hσ : σ.WF) (st : SType) (hst : st ∈ σ)
    (s : Soft) (hty : s.typ = st.typ) (hwt : s.WT)
    (hdom : ∀ key ∈ s.typ.attrs.keys, Spec.codecDom c (s.get key)) (prepath : GoString) :
    ∃ t r', marshalResource s.view prepath (s.typ.attrs.keys ++ s.typ.rels.keys)
        [(s.typ.name, s.typ.rels.keys)] = .ok (t, r') ∧
      ∃ res v', unmarshalResource σ (Spec.skeletonOf c t) = .ok res ∧ res.view? = some v' ∧
        v'.typeName = s.typ.name ∧ v'.id = s.id ∧
        (∀ f ∈ s.typ.attrs.keys ++ s.typ.rels.keys, Spec.sameVal (v'.get f) (s.get f)) := by
  obtain ⟨_, ht, hn, _⟩ := hσ.2 st hst
  rw [← hty] at ht hn
  have g := SoftGood_of_wf s ht hn hwt
  have hget : ∀ f ∈ s.typ.attrs.keys ++ s.typ.rels.keys, s.view.get f = s.get f := fun f hf =>
    Soft.view_get_eq_get s g.keyed g.noId ((isField_iff _ _).2 (List.mem_append.1 hf))
  obtain ⟨t, r', hm, res, v', h1, h2, h3, h4, h5⟩ :=
    C01_roundtrip_model c σ hσ st hst s.view (Soft_view_keyedWf s g) (by rw [← hty]; rfl)
      (by intro key a; rw [← hty]; exact Iff.rfl) (by intro key; rw [← hty]; rfl)
      (by
        intro key hk
        have hk' : key ∈ s.typ.attrs.keys := hk
        rw [hget key (List.mem_append_left _ hk')]; exact hdom key hk')
      prepath
  refine ⟨t, r', hm, res, v', h1, h2, h3, h4, ?_⟩
  intro f hf
  rw [← hget f hf]
  exact h5 f hf

/-- C01 for a wrapped struct: a struct declaration `Check` accepts whose built type
(`BuildType`) is a type of the (well-formed) schema, and a well-typed value of it. -/
theorem C01_roundtrip_wrapped (c : Spec.Codecs) (σ : SSchema) (hσ : σ.WF) (st : SType) (hst : st ∈ σ)
    (d : StructDecl) (hd : checkStruct d = true) (hs : SingleID d) (hb : buildType d = .ok st.typ)
    (vals : List GoVal) (w : Wrapped) (hw : wrap d vals = .ok w) (hwt : w.WT)
    (hdom : ∀ key ∈ w.attrs.keys, ∀ x, w.get key = .ok x → Spec.codecDom c x) (prepath : GoString) :
    ∃ v, w.view = some v ∧
    ∃ t r', marshalResource v prepath (w.attrs.keys ++ w.rels.keys) [(w.typ, w.rels.keys)] = .ok (t, r') ∧
      ∃ res v', unmarshalResource σ (Spec.skeletonOf c t) = .ok res ∧ res.view? = some v' ∧
        v'.typeName = w.typ ∧ v'.id = w.getID ∧
        (∀ f ∈ w.attrs.keys ++ w.rels.keys, ∃ x, w.get f = .ok x ∧ Spec.sameVal (v'.get f) x) := by
  obtain ⟨v, hv, e1, e2, e3, e4, hget, _, hkw, _⟩ := Wrapped_view_ok d hd hs vals w hw hwt
  have ew := eq_mkW_of_wrap hd hw
  rw [buildType_ok hd, Res.ok.injEq] at hb
  have ht1 : w.typ = st.typ.name := by rw [ew, ← hb]; rfl
  have ht2 : w.attrs = st.typ.attrs := by rw [ew, ← hb]; rfl
  have ht3 : w.rels = st.typ.rels := by rw [ew, ← hb]; rfl
  obtain ⟨t, r', hm, res, v', h1, h2, h3, h4, h5⟩ :=
    C01_roundtrip_model c σ hσ st hst v hkw (by rw [e1, ht1])
      (by intro key a; rw [e3, ht2]) (by intro key; rw [e4, ht3])
      (by
        intro key hk
        rw [e3] at hk
        exact hdom key hk _ (hget key (List.mem_append_left _ hk)))
      prepath
  refine ⟨v, hv, t, r', ?_, res, v', h1, h2, by rw [h3, e1], by rw [h4, e2], ?_⟩
  · have : Spec.allFields v = w.attrs.keys ++ w.rels.keys := by unfold Spec.allFields; rw [e3, e4]
    rw [← this, ← e1, ← e4]; exact hm
  · intro f hf
    refine ⟨_, hget f hf, h5 f ?_⟩
    unfold Spec.allFields; rw [e3, e4]; exact hf

/-! ### C17: `Equal` is reflexive on the views of both implementations -/

/-- `Equal(r, r)` holds for a soft resource in the invariant (no `ok` hypothesis left). -/
theorem C17_equal_refl_soft (s : Soft) (h : SoftGood s) : equal s.view s.view = .ok true :=
  C17_equal_refl _ (Soft_view_ok s h)

/-- `Equal(r, r)` holds for a well-typed wrapped value of an accepted struct. -/
theorem C17_equal_refl_wrapped (d : StructDecl) (hd : checkStruct d = true) (hs : SingleID d)
    (vals : List GoVal) (w : Wrapped) (hw : wrap d vals = .ok w) (hwt : w.WT) :
    ∃ v, w.view = some v ∧ equal v v = .ok true := by
  obtain ⟨v, hv, _, _, _, _, _, hok, _, _⟩ := Wrapped_view_ok d hd hs vals w hw hwt
  exact ⟨v, hv, C17_equal_refl v hok⟩

/-! ### C19: `Add` of a soft or wrapped resource does not panic -/

/-- `SoftCollection.Add` of a soft resource in the invariant returns normally and the
collection stays the plain list with the snapshot appended. -/
theorem C19_add_soft (c : SColl) (σ : Spec.Store) (h : Abs c σ) (s : Soft) (hk : TypKeyed s.typ)
    (hid : isField s.typ idName = false) (hwt : s.WT) :
    ∃ c', c.add s.view = .ok c' ∧ Abs c' (σ.add s.view) :=
  C19_step c σ h (.add s.view) (Soft_view_ViewWF s hk hid hwt)

/-- `SoftCollection.Add` of a well-typed wrapped value of an accepted struct. -/
theorem C19_add_wrapped (c : SColl) (σ : Spec.Store) (h : Abs c σ) (d : StructDecl)
    (hd : checkStruct d = true) (hs : SingleID d) (vals : List GoVal) (w : Wrapped)
    (hw : wrap d vals = .ok w) (hwt : w.WT) :
    ∃ v, w.view = some v ∧ ∃ c', c.add v = .ok c' ∧ Abs c' (σ.add v) := by
  obtain ⟨v, hv, _, _, _, _, _, _, _, hvw⟩ := Wrapped_view_ok d hd hs vals w hw hwt
  exact ⟨v, hv, C19_step c σ h (.add v) hvw⟩

/-! ### C20: "marshaling it succeeds" -/

/-- If `Check` accepts the struct, marshaling a well-typed wrapped value of it - any path
prefix, any field selection, any relationship-data map, any meta - returns normally (no
panic, no error) and the object written is the one of the specification (C04). -/
theorem C20_accept_marshal (d : StructDecl) (hd : checkStruct d = true) (hs : SingleID d)
    (vals : List GoVal) (w : Wrapped) (hw : wrap d vals = .ok w) (hwt : w.WT) :
    ∃ v, w.view = some v ∧
      ∀ (pre : GoString) (fields : List GoString) (relData : GoMap (List GoString)) (rmeta : Meta),
        marshalResource v pre fields relData rmeta ≠ .panic ∧
        ∃ r', marshalResource v pre fields relData rmeta =
          .ok (Spec.resourceObject v pre fields relData rmeta, r') := by
  obtain ⟨v, hv, _, _, _, _, _, _, hkw, _⟩ := Wrapped_view_ok d hd hs vals w hw hwt
  refine ⟨v, hv, ?_⟩
  intro pre fields relData rmeta
  obtain ⟨r', hm, _⟩ := C04_resource v hkw pre fields relData rmeta
  exact ⟨(by rw [hm]; intro e; cases e), r', hm⟩

/-- The same for a soft resource in the invariant. -/
theorem Soft_marshal_ok (s : Soft) (h : SoftGood s) (pre : GoString) (fields : List GoString)
    (relData : GoMap (List GoString)) (rmeta : Meta) :
    ∃ r', marshalResource s.view pre fields relData rmeta =
      .ok (Spec.resourceObject s.view pre fields relData rmeta, r') := by
  obtain ⟨r', hm, _⟩ := C04_resource s.view (Soft_view_keyedWf s h) pre fields relData rmeta
  exact ⟨r', hm⟩

/-! ## 4. Non-vacuity -/

/-- The invariant along the C17S example: Sets (one ill-typed), SetType with a renamed field,
a Set, RemoveField and AddAttr of the removed name - in the domain, hence in the invariant at
the end, hence a view in all three domains. -/
def Bridge_exOps : List SoftOp :=
  C17S_exOps ++ [.set [99] (.val .string (.s [121])), .removeField [97],
    .addAttr { name := [97], ty := 2, nullable := false }]

example : SoftGood C17S_exS ∧ SoftOpsOk C17S_exS Bridge_exOps := by decide

example : (C17S_exS.run Bridge_exOps).view.ok ∧ (C17S_exS.run Bridge_exOps).view.keyedWf ∧
    ViewWF (C17S_exS.run Bridge_exOps).view :=
  Soft_view_all _ (SoftGood_run Bridge_exOps C17S_exS (by decide) (by decide))

/-- A resource of C01's example type with every kind of value (int8 -128, nil string pointer,
uint64 2^64-1, nil byte slice, bool pointer, to-one and unsorted to-many) is in the invariant.
An int8 attribute holding 1000 - not a Go value - is outside `Soft.WT` and its view is not
`wf`: the payload condition is what the bridge needs. -/
def Bridge_exS : Soft := { typ := C01_exT, id := [49], data := (C01_exR [116]).vals }

example : SoftGood Bridge_exS ∧
    ¬ ({ Bridge_exS with data := [([97], .val .int8 (.i 1000))] } : Soft).WT ∧
    ({ Bridge_exS with data := [([97], .val .int8 (.i 1000))] } : Soft).view.wf = false := by decide

/-- values without a time are in the domain of every decoder -/
theorem codecDom_of_noTime (c : Spec.Codecs) (v : GoVal)
    (h : (match v with | .val _ (.t _) => false | .ptr _ (some (.t _)) => false | _ => true) = true) :
    Spec.codecDom c v := by
  intro k t e
  rcases e with e | e <;> (rw [e] at h; cases h)

/-- `C01_roundtrip_soft` applies to it, with every decoder. -/
example (c : Spec.Codecs) :=
  C01_roundtrip_soft c C01_exσ C01_exσ_wf { typ := C01_exT, backed := false } (List.Mem.head _)
    Bridge_exS rfl (by decide)
    (fun key hk => codecDom_of_noTime c _ (by
      have : ∀ key ∈ Bridge_exS.typ.attrs.keys,
          (match Bridge_exS.get key with
            | .val _ (.t _) => false | .ptr _ (some (.t _)) => false | _ => true) = true := by decide
      exact this key hk)) [47]

/-- `C17_equal_refl_soft`, `C19_add_soft` and `Soft_marshal_ok` apply to it. -/
example : equal Bridge_exS.view Bridge_exS.view = .ok true ∧
    (∀ t0, TypWF t0 → ∃ c', ({ typ := t0, col := [] } : SColl).add Bridge_exS.view = .ok c') ∧
    (∀ pre fields relData, ∃ j r', marshalResource Bridge_exS.view pre fields relData = .ok (j, r')) := by
  have g : SoftGood Bridge_exS := by decide
  refine ⟨C17_equal_refl_soft _ g, ?_, ?_⟩
  · intro t0 h0
    obtain ⟨c', hc, _⟩ := C19_add_soft _ _ (C19_init t0 h0) Bridge_exS g.keyed g.noId g.wt
    exact ⟨c', hc⟩
  · intro pre fields relData
    obtain ⟨r', h⟩ := Soft_marshal_ok Bridge_exS g pre fields relData []
    exact ⟨_, r', h⟩

/-- The hypothesis "no field called id" is needed: with an int attribute called "id" the view
reads the resource's ID (a string) under that name and is not `wf`. -/
example :
    let s : Soft := { typ := { name := [116], attrs := [(idName, { name := idName, ty := 2, nullable := false })],
                               rels := [] }, id := [49], data := [] }
    TypKeyed s.typ ∧ s.typ.kindsOk ∧ s.WT ∧ isField s.typ idName = true ∧ s.view.wf = false := by
  decide

/-- The Article struct of C20 (`exampleDecl`), freshly created: `Wrapped_view_ok`,
`C17_equal_refl_wrapped`, `C20_accept_marshal` and `C19_add_wrapped` apply. -/
example : ∃ w, wrap exampleDecl (Wrapped.zeroVals exampleDecl) = .ok w ∧ w.WT ∧
    ∃ v, w.view = some v ∧ v.ok ∧ v.keyedWf ∧ ViewWF v ∧ equal v v = .ok true ∧
      (∀ pre fields relData, marshalResource v pre fields relData ≠ .panic) ∧
      ∀ t0, TypWF t0 → ∃ c', ({ typ := t0, col := [] } : SColl).add v = .ok c' := by
  obtain ⟨w, hw, hwt⟩ := C20_zero_WT exampleDecl (by decide)
  have hs : SingleID exampleDecl := by unfold SingleID; decide
  obtain ⟨v, hv, _, _, _, _, _, h1, h2, h3⟩ := Wrapped_view_ok exampleDecl (by decide) hs _ w hw hwt
  obtain ⟨v', hv', hm⟩ := C20_accept_marshal exampleDecl (by decide) hs _ w hw hwt
  rw [hv, Option.some.injEq] at hv'
  subst hv'
  refine ⟨w, hw, hwt, v, hv, h1, h2, h3, C17_equal_refl v h1, fun pre fields relData =>
    (hm pre fields relData []).1, ?_⟩
  intro t0 h0
  obtain ⟨c', hc, _⟩ := C19_step _ _ (C19_init t0 h0) (.add v) h3
  exact ⟨c', hc⟩

/-- The schema holding the type `BuildType` makes of the Article struct, struct-backed. -/
def Bridge_exArticle : Typ :=
  { name := gs "articles",
    attrs := [ (gs "title", { name := gs "title", ty := 1, nullable := false }),
               (gs "subtitle", { name := gs "subtitle", ty := 1, nullable := true }) ],
    rels := [ (gs "author", { fromType := gs "articles", fromName := gs "author", toOne := true,
                              toType := gs "people", toName := [], fromOne := false }),
              (gs "comments", { fromType := gs "articles", fromName := gs "comments",
                                toOne := false, toType := gs "comments",
                                toName := gs "article", fromOne := false }) ] }

def Bridge_exσ : SSchema := [{ typ := Bridge_exArticle, backed := true }]

theorem Bridge_exσ_wf : Bridge_exσ.WF := by
  refine ⟨by decide, ?_⟩
  intro st hst
  simp only [Bridge_exσ, List.mem_cons, List.not_mem_nil, or_false] at hst
  subst hst
  exact ⟨by decide, ⟨by decide, by decide, by decide, by decide, by decide⟩, by decide, by decide⟩

/-- `C01_roundtrip_wrapped` applies to the freshly created Article, with every decoder. -/
example (c : Spec.Codecs) : ∃ w, wrap exampleDecl (Wrapped.zeroVals exampleDecl) = .ok w ∧
    ∃ v, w.view = some v ∧ ∃ t r', marshalResource v [47] (w.attrs.keys ++ w.rels.keys)
        [(w.typ, w.rels.keys)] = .ok (t, r') ∧
      ∃ res v', unmarshalResource Bridge_exσ (Spec.skeletonOf c t) = .ok res ∧
        res.view? = some v' ∧ v'.typeName = w.typ := by
  obtain ⟨w, hw, hwt⟩ := C20_zero_WT exampleDecl (by decide)
  have hs : SingleID exampleDecl := by unfold SingleID; decide
  have ew := eq_mkW_of_wrap (by decide) hw
  obtain ⟨v, hv, t, r', hm, res, v', h1, h2, h3, _⟩ :=
    C01_roundtrip_wrapped c Bridge_exσ Bridge_exσ_wf { typ := Bridge_exArticle, backed := true }
      (List.Mem.head _) exampleDecl (by decide) hs (by decide) _ w hw hwt
      (by
        subst ew
        intro key hk x hx
        apply codecDom_of_noTime
        have : ∀ key ∈ (mkW exampleDecl (Wrapped.zeroVals exampleDecl)).attrs.keys,
            (match (mkW exampleDecl (Wrapped.zeroVals exampleDecl)).get key with
              | .ok (.val _ (.t _)) => false | .ok (.ptr _ (some (.t _))) => false | _ => true) = true := by
          decide
        have := this key hk
        rw [hx] at this
        revert this
        cases x with
        | val k p => cases p <;> simp
        | ptr k o => cases o with
          | none => simp
          | some p => cases p <;> simp
        | _ => simp) [47]
  exact ⟨w, hw, v, hv, t, r', hm, res, v', h1, h2, h3⟩

end Jsonapi

section Axioms
open Jsonapi
#print axioms SoftGood_init
#print axioms SoftGood_init_wf
#print axioms SoftGood_of_wf
#print axioms SoftGood_step
#print axioms SoftGood_run
#print axioms Soft_view_keyed
#print axioms Soft_view_wf
#print axioms Soft_view_ok
#print axioms Soft_view_keyedWf
#print axioms Soft_view_ViewWF
#print axioms Soft_view_all
#print axioms Soft.view_get_eq_get
#print axioms Wrapped_view_ok
#print axioms C01_roundtrip_soft
#print axioms C01_roundtrip_wrapped
#print axioms C17_equal_refl_soft
#print axioms C17_equal_refl_wrapped
#print axioms C19_add_soft
#print axioms C19_add_wrapped
#print axioms C20_accept_marshal
#print axioms Soft_marshal_ok
#print axioms Bridge_exσ_wf
end Axioms
