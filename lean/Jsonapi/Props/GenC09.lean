/-
T1b for C09 (work package T): `sortedResources.Less` (range.go) translated from the source on this
run - the loop over the sorting rules with its `-` prefixes, the `id` rule, the 25-case type switch
over the Go types of attribute values with the type assertions on the second value, the nil
ordering of pointers, the byte loop of `[]byte`, `continue` on ties - is the model's `less`
(Model/Range.lean) for every rule list and every pair of resources whose attribute values are
images of Go values. The resource access `s.col[i]` is the list read (out of range: panic), the
call `getAttrVal` is a parameter of the translated function, instantiated here with the model's.
The known finding C09-sort-uint64-family shows in the translation as in the model: `uint64`,
`*uint64` and `*[]byte` have no arm in the generated `match`, values of these types compare as ties
(`Gen_sortedResources_Less_uint64_tie`).
-/
import Jsonapi.Proofs.GenC09Lemmas
namespace Jsonapi
set_option linter.unusedSimpArgs false
set_option linter.unusedVariables false

/-- range.go `sortedResources.Less`, for every rule list, every two positions in range, every
answer `same'` to the comparisons of two non-nil pointers, and attribute values that are images
of Go values (`GoVal.WF`). -/
theorem Gen_sortedResources_Less_eq (same' : Nat → List Nat → Bool) (s : Gen.sortedResources) (i j : Nat) (a b : ResView)
    (hi : s.col[i]? = some a) (hj : s.col[j]? = some b)
    (hwa : ∀ name, (getAttrVal a name).WF) (hwb : ∀ name, (getAttrVal b name).WF) :
    Gen.sortedResources_Less s (i : Int) (j : Int) getAttrVal same' = less s.rules a b := by
  unfold Gen.sortedResources_Less
  rw [less_fold a b]
  · rw [less_eq_lessOpt]; cases lessOpt a b s.rules <;> rfl
  · intro v p; rfl
  · intro r n
    have hi' : (if (0 : Int) ≤ (i : Int) then s.col[Int.toNat (i : Int)]? else none) = some a := by
      simp [hi]
    have hj' : (if (0 : Int) ≤ (j : Int) then s.col[Int.toNat (j : Int)]? else none) = some b := by
      simp [hj]
    simp only [hi', hj', splitRule_eq, ruleOutcome]
    rcases splitRule r with ⟨inverse, name⟩
    simp only []
    by_cases hid : name = idName
    · subst hid
      simp only [idName, decide_true, if_true, decide_ne_bool]
    · have hid' : ¬ name = [105, 100] := hid
      simp only [hid, hid', decide_false, Bool.false_eq_true, if_false]
      have wv := hwa name
      have wv2 := hwb name
      generalize getAttrVal a name = v at wv ⊢
      generalize getAttrVal b name = v2 at wv2 ⊢
      cases v with
      | val k p =>
        cases k <;> cases p <;> simp [GoVal.WF, Kind.payOk, Kind.range?] at wv
        · -- string
          rw [lessVal_val_gen]; simp only [hasCase, if_true]
          split
          · simp only [if_true, lessPay, decide_ne_bool, Int.ofNat_eq_natCast, Int.natCast_inj, Int.ofNat_lt]; split <;> simp_all
          · less_other_type Kind.string
        · -- int
          rw [lessVal_val_gen]; simp only [hasCase, if_true]
          split
          · simp only [if_true, lessPay, decide_ne_bool, Int.ofNat_eq_natCast, Int.natCast_inj, Int.ofNat_lt]; split <;> simp_all
          · less_other_type Kind.int
        · -- int8
          rw [lessVal_val_gen]; simp only [hasCase, if_true]
          split
          · simp only [if_true, lessPay, decide_ne_bool, Int.ofNat_eq_natCast, Int.natCast_inj, Int.ofNat_lt]; split <;> simp_all
          · less_other_type Kind.int8
        · -- int16
          rw [lessVal_val_gen]; simp only [hasCase, if_true]
          split
          · simp only [if_true, lessPay, decide_ne_bool, Int.ofNat_eq_natCast, Int.natCast_inj, Int.ofNat_lt]; split <;> simp_all
          · less_other_type Kind.int16
        · -- int32
          rw [lessVal_val_gen]; simp only [hasCase, if_true]
          split
          · simp only [if_true, lessPay, decide_ne_bool, Int.ofNat_eq_natCast, Int.natCast_inj, Int.ofNat_lt]; split <;> simp_all
          · less_other_type Kind.int32
        · -- int64
          rw [lessVal_val_gen]; simp only [hasCase, if_true]
          split
          · simp only [if_true, lessPay, decide_ne_bool, Int.ofNat_eq_natCast, Int.natCast_inj, Int.ofNat_lt]; split <;> simp_all
          · less_other_type Kind.int64
        · -- uint
          rename_i w; obtain ⟨m, rfl⟩ := Int.eq_ofNat_of_zero_le wv.1
          rw [lessVal_val_gen]; simp only [hasCase, if_true]
          split
          · simp only [if_true, lessPay, decide_ne_bool, Int.ofNat_eq_natCast, Int.natCast_inj, Int.ofNat_lt]; split <;> simp_all
          · less_other_type Kind.uint
        · -- uint8
          rename_i w; obtain ⟨m, rfl⟩ := Int.eq_ofNat_of_zero_le wv.1
          rw [lessVal_val_gen]; simp only [hasCase, if_true]
          split
          · simp only [if_true, lessPay, decide_ne_bool, Int.ofNat_eq_natCast, Int.natCast_inj, Int.ofNat_lt]; split <;> simp_all
          · less_other_type Kind.uint8
        · -- uint16
          rename_i w; obtain ⟨m, rfl⟩ := Int.eq_ofNat_of_zero_le wv.1
          rw [lessVal_val_gen]; simp only [hasCase, if_true]
          split
          · simp only [if_true, lessPay, decide_ne_bool, Int.ofNat_eq_natCast, Int.natCast_inj, Int.ofNat_lt]; split <;> simp_all
          · less_other_type Kind.uint16
        · -- uint32
          rename_i w; obtain ⟨m, rfl⟩ := Int.eq_ofNat_of_zero_le wv.1
          rw [lessVal_val_gen]; simp only [hasCase, if_true]
          split
          · simp only [if_true, lessPay, decide_ne_bool, Int.ofNat_eq_natCast, Int.natCast_inj, Int.ofNat_lt]; split <;> simp_all
          · less_other_type Kind.uint32
        · -- uint64: no case in the switch
          rename_i w; obtain ⟨m, rfl⟩ := Int.eq_ofNat_of_zero_le wv.1
          rw [lessVal_val_gen]; simp [hasCase]
        · -- bool
          rw [lessVal_val_gen]; simp only [hasCase, if_true]
          split
          · simp only [if_true, lessPay, decide_ne_bool, Int.ofNat_eq_natCast, Int.natCast_inj, Int.ofNat_lt]; split <;> simp_all
          · less_other_type Kind.bool
        · -- time
          rw [lessVal_val_gen]; simp only [hasCase, if_true]
          split
          · simp only [if_true, lessPay, decide_ne_bool, Int.ofNat_eq_natCast, Int.natCast_inj, Int.ofNat_lt]; split <;> simp_all
          · less_other_type Kind.time
        · -- bytes
          rw [lessVal_val_gen]; simp only [hasCase, if_true]
          split
          · rename_i x0 c0 y0
            simp only [if_true, lessPay, decide_ne_bool, bytesOf_getD]
            generalize x0.getD [] = x
            generalize y0.getD [] = y
            rw [lexFirst_fold inverse x y _ (fun i => rfl) (fun v i => rfl)]
            cases hl : lexFirst inverse x y with
            | some r =>
              obtain ⟨h1, h2⟩ := lexFirst_some inverse x y r hl
              simp [h1, h2]
            | none =>
              obtain ⟨h1, h2⟩ := lexFirst_none inverse x y hl
              by_cases hxy : x = y
              · have := h1.1 hxy
                simp [hxy, this]
              · have h3 : ¬ x.length = y.length := fun e => hxy (h1.2 e)
                simp [hxy, h3, h2, Int.natCast_inj, Int.ofNat_lt]
          · less_other_type Kind.bytes
      | ptr k p =>
        cases p with
        | none =>
          cases k
          · less_ptr Kind.string
          · less_ptr Kind.int
          · less_ptr Kind.int8
          · less_ptr Kind.int16
          · less_ptr Kind.int32
          · less_ptr Kind.int64
          · less_ptr Kind.uint
          · less_ptr Kind.uint8
          · less_ptr Kind.uint16
          · less_ptr Kind.uint32
          · less_ptr Kind.uint64
          · less_ptr Kind.bool
          · less_ptr Kind.time
          · less_ptr Kind.bytes
        | some q =>
          cases k <;> cases q <;> simp [GoVal.WF, Kind.payOk, Kind.range?] at wv
          · less_ptr Kind.string
          · less_ptr Kind.int
          · less_ptr Kind.int8
          · less_ptr Kind.int16
          · less_ptr Kind.int32
          · less_ptr Kind.int64
          · rename_i w; obtain ⟨m, rfl⟩ := Int.eq_ofNat_of_zero_le wv.1
            less_ptr Kind.uint
          · rename_i w; obtain ⟨m, rfl⟩ := Int.eq_ofNat_of_zero_le wv.1
            less_ptr Kind.uint8
          · rename_i w; obtain ⟨m, rfl⟩ := Int.eq_ofNat_of_zero_le wv.1
            less_ptr Kind.uint16
          · rename_i w; obtain ⟨m, rfl⟩ := Int.eq_ofNat_of_zero_le wv.1
            less_ptr Kind.uint32
          · rename_i w; obtain ⟨m, rfl⟩ := Int.eq_ofNat_of_zero_le wv.1
            less_ptr Kind.uint64
          · less_ptr Kind.bool
          · less_ptr Kind.time
          · less_ptr Kind.bytes
      | strs l => rw [lessVal_strs]
      | nil => rw [lessVal_nil]
      | other t => rw [lessVal_other]


/-- Outside the collection the code indexes `s.col` and panics - but only when there is a rule:
with no rule it returns false without touching the slice. -/
theorem Gen_sortedResources_Less_no_rules (same' : Nat → List Nat → Bool) (col : List ResView) (i j : Int)
    (g : ResView → GoString → GoVal) :
    Gen.sortedResources_Less { rules := [], col := col } i j g same' = .ok false := by
  rfl

/-- The known finding C09-sort-uint64-family as the translated code shows it: two resources whose
`uint64` attribute holds 1 and 2 are not ordered either way (the type switch has no case for the
type, the loop goes on to the next rule and falls off its end). -/
theorem Gen_sortedResources_Less_uint64_tie (same' : Nat → List Nat → Bool) (a b : ResView) (name : GoString)
    (hn : splitRule name = (false, name)) (hid : name ≠ idName) :
    let g : ResView → GoString → GoVal := fun r _ => .val .uint64 (.i (Int.ofNat (r.id.length + 1)))
    Gen.sortedResources_Less { rules := [name], col := [{ a with id := [] }, { b with id := [0] }] } 0 1 g same' = .ok false ∧
    Gen.sortedResources_Less { rules := [name], col := [{ a with id := [] }, { b with id := [0] }] } 1 0 g same' = .ok false := by
  have hid' : ¬ name = [105, 100] := hid
  have hs := splitRule_eq name
  rw [hn] at hs
  constructor <;>
  · simp only [Gen.sortedResources_Less, List.zipIdx_cons, List.zipIdx_nil, List.foldl_cons, List.foldl_nil, hs]
    simp [hid']

end Jsonapi

section Axioms
open Jsonapi
#print axioms Gen_sortedResources_Less_eq
#print axioms Gen_sortedResources_Less_no_rules
#print axioms Gen_sortedResources_Less_uint64_tie
end Axioms
