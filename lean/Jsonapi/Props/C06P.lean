/-
C06P — the hypothesis `hplus` of C06 discharged from the parser.

`C06_int` (Props/C06.lean) and, through it, `C06_remarshal` / `C06B_remarshal` (Props/C06W.lean)
carry the hypothesis "the raw text of the attribute value does not start with '+'"
(`strconv.ParseInt` alone would take "+5"; no JSON value starts with '+'). Here it is proved of
the byte-level entry point:

* `CJson.numsWf`: every number token of a concrete syntax tree matches JSON's number grammar
  (`Spec.numOk`); decidable (a `Bool`);
* `C06P_parse_numsWf`: every tree `Spec.parseJsonC` returns satisfies it (the reader only cuts a
  number token when `numOk` accepts it);
* `C06P_raw_head_value`: the raw text (`CJson.raw`, what a `json.RawMessage` receives) of a tree
  with well-formed number tokens starts with one of `"` `-` digit `{` `[` `t` `f` `n`;
* `C06P_attr_is_value`: every entry `decodeRes D j` stores in the `attributes` map is
  `rawValOf D v` for a value `v` that is a member (with that decoded key) of an `attributes`
  object among the members of the payload's top-level object;
* `C06P_raw_head`: hence, for `j` read by `parseJsonC` from bytes, the first byte of every
  attribute's raw value is one of the eight above - never '+' (`C06P_raw_noplus`);
* `C06B_remarshal_noplus`: the statement of `C06B_remarshal` WITHOUT `hplus`;
* `C06B_int`, `C06B_uint`: the integer clauses of C06 for an attribute value cut out of payload
  bytes, without `hplus`.
-/
import Jsonapi.Props.C06W
namespace Jsonapi
open Spec GoMap

namespace C06P

/-! ### 1. Number tokens of a tree -/

mutual
/-- every number token of the tree matches `-?(0|[1-9][0-9]*)(\.[0-9]+)?([eE][+-]?[0-9]+)?` -/
def numsWf : CJson → Bool
  | .num lit => numOk lit
  | .arr _ items => numsWfItems items
  | .obj _ ms => numsWfMembers ms
  | _ => true
def numsWfItems : List CItem → Bool
  | [] => true
  | (_, v, _) :: rest => numsWf v && numsWfItems rest
def numsWfMembers : List CMember → Bool
  | [] => true
  | (_, _, _, v, _) :: rest => numsWf v && numsWfMembers rest
end

theorem numsWf_of_mem_members : ∀ (ms : List CMember), numsWfMembers ms = true →
    ∀ m ∈ ms, numsWf m.2.2.2.1 = true
  | [], _, m, hm => by cases hm
  | (a, k, b, v, c) :: rest, h, m, hm => by
    simp only [numsWfMembers, Bool.and_eq_true] at h
    rcases List.mem_cons.1 hm with e | hm'
    · subst e; exact h.1
    · exact numsWf_of_mem_members rest h.2 m hm'

theorem numsWf_of_mem_items : ∀ (l : List CItem), numsWfItems l = true →
    ∀ m ∈ l, numsWf m.2.1 = true
  | [], _, m, hm => by cases hm
  | (a, v, c) :: rest, h, m, hm => by
    simp only [numsWfItems, Bool.and_eq_true] at h
    rcases List.mem_cons.1 hm with e | hm'
    · subst e; exact h.1
    · exact numsWf_of_mem_items rest h.2 m hm'

/-- the first byte of a JSON value: `"` `-` digit `{` `[` `t` `f` `n` -/
def valueHead (c : UInt8) : Bool :=
  c = 34 || c = 45 || isDigit c || c = 123 || c = 91 || c = 116 || c = 102 || c = 110

theorem valueHead_ne_plus (c : UInt8) (h : valueHead c = true) : c ≠ 43 := by
  intro e; subst e; exact absurd h (by decide)

/-- a number token of JSON's grammar starts with '-' or a digit -/
theorem numOk_head (lit : GoString) (h : numOk lit = true) :
    ∃ c t, lit = c :: t ∧ (c = 45 ∨ isDigit c = true) := by
  cases lit with
  | nil => simp [numOk] at h
  | cons c t =>
    refine ⟨c, t, rfl, ?_⟩
    by_cases e : c = 45
    · exact .inl e
    · right
      simp only [numOk, if_neg e, intPartOk] at h
      by_cases e0 : c = 48
      · subst e0; decide
      · rw [if_neg e0] at h
        cases hd : isDigit c with
        | true => rfl
        | false => rw [hd] at h; simp at h

end C06P

/-- The raw text of a value whose number tokens are well formed starts with one of `"` `-`
digit `{` `[` `t` `f` `n`. -/
theorem C06P_raw_head_value (v : CJson) (h : C06P.numsWf v = true) :
    ∃ c t, v.raw = c :: t ∧ C06P.valueHead c = true := by
  cases v with
  | null => exact ⟨110, _, rfl, by decide⟩
  | bool b => cases b <;> exact ⟨_, _, rfl, by decide⟩
  | num lit =>
    simp only [C06P.numsWf] at h
    obtain ⟨c, t, rfl, hc⟩ := C06P.numOk_head lit h
    refine ⟨c, t, by simp [CJson.raw], ?_⟩
    rcases hc with e | e
    · subst e; decide
    · simp [C06P.valueHead, e]
  | str r => exact ⟨34, _, by rw [CJson.raw], by decide⟩
  | arr ws items => exact ⟨91, _, by rw [CJson.raw], by decide⟩
  | obj ws ms => exact ⟨123, _, by rw [CJson.raw], by decide⟩

namespace C06P

/-! ### 2. The reader only yields well-formed number tokens -/

mutual
theorem parseC_numsWf : ∀ (f d : Nat) (s : GoString) (v : CJson) (r : GoString),
    parseC f d s = some (v, r) → numsWf v = true
  | 0, _, _, _, _, h => by simp [parseC] at h
  | f + 1, d, s, v, r, h => by
    rw [parseC.eq_def] at h
    simp only at h
    split at h
    · cases h
    · rename_i c t
      split at h
      · split at h
        · rename_i hn
          simp only [Option.some.injEq, Prod.mk.injEq] at h
          rw [← h.1]; simpa [numsWf] using hn
        · cases h
      · split at h
        · simp only [Option.map_eq_some_iff, Prod.mk.injEq] at h
          obtain ⟨_, _, e, _⟩ := h; rw [← e]; rfl
        · split at h
          · simp only [Option.map_eq_some_iff, Prod.mk.injEq] at h
            obtain ⟨_, _, e, _⟩ := h; rw [← e]; rfl
          · split at h
            · simp only [Option.map_eq_some_iff, Prod.mk.injEq] at h
              obtain ⟨_, _, e, _⟩ := h; rw [← e]; rfl
            · split at h
              · simp only [Option.map_eq_some_iff, Prod.mk.injEq] at h
                obtain ⟨_, _, e, _⟩ := h; rw [← e]; rfl
              · split at h
                · split at h
                  · cases h
                  · split at h
                    · cases h
                    · split at h
                      · simp only [Option.some.injEq, Prod.mk.injEq] at h
                        rw [← h.1]; rfl
                      · simp only [Option.map_eq_some_iff, Prod.mk.injEq] at h
                        obtain ⟨p, hp, e, _⟩ := h
                        rw [← e]
                        simp only [numsWf]
                        exact parseElemsC_numsWf f _ _ _ p.1 p.2 hp
                · split at h
                  · split at h
                    · cases h
                    · split at h
                      · cases h
                      · split at h
                        · simp only [Option.some.injEq, Prod.mk.injEq] at h
                          rw [← h.1]; rfl
                        · simp only [Option.map_eq_some_iff, Prod.mk.injEq] at h
                          obtain ⟨p, hp, e, _⟩ := h
                          rw [← e]
                          simp only [numsWf]
                          exact parseMembersC_numsWf f _ _ _ p.1 p.2 hp
                  · cases h
theorem parseElemsC_numsWf : ∀ (f d : Nat) (pre s : GoString) (vs : List CItem) (r : GoString),
    parseElemsC f d pre s = some (vs, r) → numsWfItems vs = true
  | 0, _, _, _, _, _, h => by simp [parseElemsC] at h
  | f + 1, d, pre, s, vs, r, h => by
    rw [parseElemsC.eq_def] at h
    simp only at h
    split at h
    · cases h
    · rename_i v r1 hv
      have hw := parseC_numsWf f d s v r1 hv
      split at h
      · cases h
      · split at h
        · simp only [Option.some.injEq, Prod.mk.injEq] at h
          rw [← h.1]; simp [numsWfItems, hw]
        · split at h
          · split at h
            · cases h
            · rename_i vs' r'' hvs
              simp only [Option.some.injEq, Prod.mk.injEq] at h
              rw [← h.1]
              simp [numsWfItems, hw, parseElemsC_numsWf f d _ _ vs' r'' hvs]
          · cases h
theorem parseMembersC_numsWf : ∀ (f d : Nat) (pre s : GoString) (ms : List CMember) (r : GoString),
    parseMembersC f d pre s = some (ms, r) → numsWfMembers ms = true
  | 0, _, _, _, _, _, h => by simp [parseMembersC] at h
  | f + 1, d, pre, s, ms, r, h => by
    rw [parseMembersC.eq_def] at h
    simp only at h
    split at h
    · cases h
    · split at h
      · split at h
        · cases h
        · split at h
          · cases h
          · split at h
            · split at h
              · cases h
              · rename_i v r1 hv
                have hw := parseC_numsWf f d _ v r1 hv
                split at h
                · cases h
                · split at h
                  · simp only [Option.some.injEq, Prod.mk.injEq] at h
                    rw [← h.1]; simp [numsWfMembers, hw]
                  · split at h
                    · split at h
                      · cases h
                      · rename_i ms' r'' hms
                        simp only [Option.some.injEq, Prod.mk.injEq] at h
                        rw [← h.1]
                        simp [numsWfMembers, hw, parseMembersC_numsWf f d _ _ ms' r'' hms]
                    · cases h
            · cases h
      · cases h
end

end C06P

/-- Every tree the full-grammar reader returns has well-formed number tokens. -/
theorem C06P_parse_numsWf (bytes : GoString) (j : CJson) (h : parseJsonC bytes = some j) :
    C06P.numsWf j = true := by
  unfold parseJsonC at h
  split at h
  · rename_i v r hv
    split at h
    · simp only [Option.some.injEq] at h
      subst h
      exact C06P.parseC_numsWf _ _ _ _ _ hv
    · cases h
  · cases h

namespace C06P

/-! ### 3. Where the entries of the `attributes` map come from -/

/-- `v` is the value of a member named `key` (after decoding the key) of an object that is the
value of a member of the top-level members `ms0` matched to the field `attributes` -/
def IsAttrValueIn (ms0 : List CMember) (key : GoString) (v : CJson) : Prop :=
  ∃ mm ∈ ms0, fieldIdx resFields (unquote mm.2.1) = some 2 ∧
    ∃ ws' ams, mm.2.2.2.1 = .obj ws' ams ∧ ∃ am ∈ ams, unquote am.2.1 = key ∧ am.2.2.2.1 = v

/-- every entry of an attributes map is `rawValOf` of a member value of an `attributes` object -/
def AInv (D : Delegated) (ms0 : List CMember) (m : GoMap RawVal) : Prop :=
  ∀ key raw, m.get? key = some raw → ∃ v, IsAttrValueIn ms0 key v ∧ raw = rawValOf D v

theorem attrsInto_AInv (D : Delegated) (ms0 : List CMember) (mm : CMember) (hmm : mm ∈ ms0)
    (hfi : fieldIdx resFields (unquote mm.2.1) = some 2) (ws' : GoString) (ams : List CMember)
    (hobj : mm.2.2.2.1 = .obj ws' ams) :
    ∀ (l : List CMember) (cur : GoMap RawVal), (∀ am ∈ l, am ∈ ams) → AInv D ms0 cur →
      AInv D ms0 (attrsInto D cur l)
  | [], cur, _, hc => hc
  | (a, k, b, v, c) :: l, cur, hsub, hc => by
    unfold attrsInto
    refine attrsInto_AInv D ms0 mm hmm hfi ws' ams hobj l _
      (fun am ham => hsub am (List.mem_cons_of_mem _ ham)) ?_
    intro key raw hg
    by_cases e : key = unquote k
    · subst e
      rw [get?_set_self] at hg
      cases hg
      exact ⟨v, ⟨mm, hmm, hfi, ws', ams, hobj, (a, k, b, v, c), hsub _ (List.mem_cons_self ..),
        rfl, rfl⟩, rfl⟩
    · rw [get?_set_ne _ _ _ _ e] at hg
      exact hc key raw hg

theorem resMembers_AInv (D : Delegated) (ms0 : List CMember) :
    ∀ (ms : List CMember) (acc sk : ResSke), (∀ m ∈ ms, m ∈ ms0) → AInv D ms0 acc.attrs →
      resMembers D acc ms = some sk → AInv D ms0 sk.attrs
  | [], acc, sk, _, hc, h => by
    simp only [resMembers, Option.some.injEq] at h; subst h; exact hc
  | (a, k, b, v, c) :: ms, acc, sk, hsub, hc, h => by
    have hsub' : ∀ m ∈ ms, m ∈ ms0 := fun m hm => hsub m (List.mem_cons_of_mem _ hm)
    have hmm : (a, k, b, v, c) ∈ ms0 := hsub _ (List.mem_cons_self ..)
    unfold resMembers at h
    cases hfi : fieldIdx resFields (unquote k) with
    | none =>
      rw [hfi] at h
      exact resMembers_AInv D ms0 ms acc sk hsub' hc h
    | some n =>
      rw [hfi] at h
      match n, hfi, h with
      | 0, _, h =>
        simp only at h
        split at h
        · refine resMembers_AInv D ms0 ms _ sk hsub' ?_ h; exact hc
        · cases h
      | 1, _, h =>
        simp only at h
        split at h
        · refine resMembers_AInv D ms0 ms _ sk hsub' ?_ h; exact hc
        · cases h
      | 2, hfi, h =>
        simp only at h
        cases v with
        | null =>
          simp only at h
          refine resMembers_AInv D ms0 ms _ sk hsub' ?_ h
          intro key raw hg; simp [get?] at hg
        | obj ws' as =>
          simp only at h
          refine resMembers_AInv D ms0 ms _ sk hsub' ?_ h
          exact attrsInto_AInv D ms0 (a, k, b, .obj ws' as, c) hmm hfi ws' as rfl as _
            (fun am ham => ham) hc
        | bool _ => cases h
        | num _ => cases h
        | str _ => cases h
        | arr _ _ => cases h
      | 3, _, h =>
        simp only at h
        split at h
        · refine resMembers_AInv D ms0 ms _ sk hsub' ?_ h; exact hc
        · split at h
          · refine resMembers_AInv D ms0 ms _ sk hsub' ?_ h; exact hc
          · cases h
        · cases h
      | 4, _, h =>
        simp only at h
        split at h
        · refine resMembers_AInv D ms0 ms _ sk hsub' ?_ h; exact hc
        · cases h
      | n + 5, _, h =>
        simp only at h
        exact resMembers_AInv D ms0 ms acc sk hsub' hc h

/-- `v` is the value of a member named `key` of an `attributes` object of the payload `j` -/
def IsAttrValue (j : CJson) (key : GoString) (v : CJson) : Prop :=
  ∃ ws ms, j = .obj ws ms ∧ IsAttrValueIn ms key v

theorem isAttrValue_numsWf {j : CJson} {key : GoString} {v : CJson} (hj : numsWf j = true)
    (h : IsAttrValue j key v) : numsWf v = true := by
  obtain ⟨ws, ms, rfl, mm, hmm, _, ws', ams, hobj, am, ham, _, hv⟩ := h
  simp only [numsWf] at hj
  have h1 := numsWf_of_mem_members ms hj mm hmm
  rw [hobj] at h1
  simp only [numsWf] at h1
  rw [← hv]
  exact numsWf_of_mem_members ams h1 am ham

end C06P

/-- **Parser invariant, part 1.** Every entry `decodeRes D j` stores in the `attributes` map is
`rawValOf D v` - in particular its `bytes` are `v.raw`, the text of the value - for a value `v`
of a member with that (decoded) key of an `attributes` object of the payload. -/
theorem C06P_attr_is_value (D : Delegated) (j : CJson) (sk : ResSke) (h : decodeRes D j = some sk) :
    ∀ key raw, sk.attrs.get? key = some raw →
      ∃ v, C06P.IsAttrValue j key v ∧ raw = rawValOf D v ∧ raw.bytes = v.raw := by
  intro key raw hg
  cases j with
  | null =>
    simp only [decodeRes, Option.some.injEq] at h
    subst h
    simp [ResSke.zero, get?] at hg
  | obj ws ms =>
    simp only [decodeRes] at h
    obtain ⟨v, hv, e⟩ := C06P.resMembers_AInv D ms ms ResSke.zero sk (fun m hm => hm)
      (by intro key raw hg; simp [ResSke.zero, get?] at hg) h key raw hg
    exact ⟨v, ⟨ws, ms, rfl, hv⟩, e, by rw [e]; rfl⟩
  | bool b => cases h
  | num l => cases h
  | str r => cases h
  | arr ws items => cases h

/-- **Parser invariant (`hplus` discharged).** For `j` read from bytes by `parseJsonC`, every raw
value `decodeRes D j` stores for an attribute is the text of a JSON value: it is not empty and
its first byte is one of `"` `-` digit `{` `[` `t` `f` `n` (`C06P.valueHead`). -/
theorem C06P_raw_head (D : Delegated) (bytes : GoString) (j : CJson) (sk : ResSke)
    (hj : parseJsonC bytes = some j) (hsk : decodeRes D j = some sk) :
    ∀ key raw, sk.attrs.get? key = some raw →
      ∃ c t, raw.bytes = c :: t ∧ C06P.valueHead c = true := by
  intro key raw hg
  obtain ⟨v, hv, _, e⟩ := C06P_attr_is_value D j sk hsk key raw hg
  rw [e]
  exact C06P_raw_head_value v (C06P.isAttrValue_numsWf (C06P_parse_numsWf bytes j hj) hv)

/-- … in particular never '+': the hypothesis `hplus` of `C06_int`, `C06_remarshal`,
`C06B_remarshal` holds of every skeleton decoded from bytes. -/
theorem C06P_raw_noplus (D : Delegated) (bytes : GoString) (j : CJson) (sk : ResSke)
    (hj : parseJsonC bytes = some j) (hsk : decodeRes D j = some sk) :
    ∀ key raw, sk.attrs.get? key = some raw → raw.bytes.head? ≠ some 43 := by
  intro key raw hg
  obtain ⟨c, t, e, hc⟩ := C06P_raw_head D bytes j sk hj hsk key raw hg
  rw [e]
  simp only [List.head?_cons, ne_eq, Option.some.injEq]
  exact C06P.valueHead_ne_plus c hc

open C06W in
/-- **C06, last clause, from the payload bytes, with NO hypothesis left on the raw values**:
the statement of `C06B_remarshal` without `hplus`. -/
theorem C06B_remarshal_noplus (D : Delegated) (σ : SSchema) (hσ : σ.WF) (bytes : GoString)
    (res : AnyRes) (h : unmarshalResourceBytes D σ bytes = .ok res)
    (prepath : GoString) (rmeta : Meta) :
    ∃ j sk, Spec.parseJsonC bytes = some j ∧ decodeRes D j = some sk ∧
    ∃ st ∈ σ, σ.getType sk.typ = some st ∧ st.typ.name = sk.typ ∧
    ∃ v t v', res.view? = some v ∧
      marshalResource v prepath (st.typ.attrs.keys ++ st.typ.rels.keys)
        [(sk.typ, st.typ.rels.keys)] rmeta = .ok (t, v') ∧
      t.get? K.id = some (.str sk.id) ∧ t.get? K.type = some (.str sk.typ) ∧
      (∀ key raw, sk.attrs.get? key = some raw →
        ∃ a o x, st.typ.attrs.get? key = some a ∧ t.get? K.attributes = some o ∧
          o.get? key = some x ∧ Spec.denotedJson a raw = some x) ∧
      (∀ key a, st.typ.attrs.get? key = some a → sk.attrs.has key = false →
        ∃ o, t.get? K.attributes = some o ∧ o.get? key = some (encodeAttr a.zero)) ∧
      (∀ key rel, st.typ.rels.get? key = some rel →
        ∃ rs ro d, t.get? K.relationships = some rs ∧ rs.get? key = some ro ∧
          ro.get? K.data = some d ∧ linkageOf rel (sk.rels.get? key) d) :=
  C06B_remarshal D σ hσ bytes res h (fun j sk hj hsk => C06P_raw_noplus D bytes j sk hj hsk)
    prepath rmeta

/-- **C06, integer clause, from the payload bytes** (`C06_int` without `hplus`): `raw` is the
value the decoded skeleton of the payload `bytes` holds for the attribute `key`. For an
attribute of an integer kind and a value other than `null`: accepted exactly when the text is
an integer literal in the range of the kind (and, for an unsigned kind, has no minus sign: the
known exception `-0`, `C06_uint_negzero`), and the value stored is that integer. -/
theorem C06B_int (D : Delegated) (bytes : GoString) (j : CJson) (sk : ResSke)
    (hj : parseJsonC bytes = some j) (hsk : decodeRes D j = some sk)
    (key : GoString) (raw : RawVal) (hraw : sk.attrs.get? key = some raw)
    (a : Attr) (v : GoVal) (k : Kind) (hk : Kind.ofCode? a.ty = some k)
    (hint : k.isInt = true) (hnn : raw.bytes ≠ sNull) :
    unmarshalToType a raw = .ok v ↔
      ∃ n, Spec.intLit raw.bytes = some n ∧ (∃ lo hi, k.range? = some (lo, hi) ∧ lo ≤ n ∧ n ≤ hi) ∧
        (k.isUnsigned = true → raw.bytes.head? ≠ some 45) ∧ v = mkVal k a.nullable (.i n) :=
  C06_int a raw v k hk hint (C06P_raw_noplus D bytes j sk hj hsk key raw hraw) hnn

/-- The unsigned kinds, from the payload bytes, without `hplus`: accepted exactly when the text
is an integer literal in the range of the kind that has no minus sign. -/
theorem C06B_uint (D : Delegated) (bytes : GoString) (j : CJson) (sk : ResSke)
    (hj : parseJsonC bytes = some j) (hsk : decodeRes D j = some sk)
    (key : GoString) (raw : RawVal) (hraw : sk.attrs.get? key = some raw)
    (a : Attr) (v : GoVal) (k : Kind) (hk : Kind.ofCode? a.ty = some k)
    (hu : k.isUnsigned = true) (hnn : raw.bytes ≠ sNull) :
    unmarshalToType a raw = .ok v ↔
      ∃ n, Spec.intLit raw.bytes = some n ∧ (∃ lo hi, k.range? = some (lo, hi) ∧ lo ≤ n ∧ n ≤ hi) ∧
        raw.bytes.head? ≠ some 45 ∧ v = mkVal k a.nullable (.i n) := by
  have hint : k.isInt = true := by revert hu; cases k <;> decide
  rw [C06B_int D bytes j sk hj hsk key raw hraw a v k hk hint hnn]
  constructor
  · rintro ⟨n, h1, h2, h3, h4⟩; exact ⟨n, h1, h2, h3 hu, h4⟩
  · rintro ⟨n, h1, h2, h3, h4⟩; exact ⟨n, h1, h2, fun _ => h3, h4⟩

/-- The signed kinds, from the payload bytes, without `hplus` (`C06_int_signed`). -/
theorem C06B_int_signed (D : Delegated) (bytes : GoString) (j : CJson) (sk : ResSke)
    (hj : parseJsonC bytes = some j) (hsk : decodeRes D j = some sk)
    (key : GoString) (raw : RawVal) (hraw : sk.attrs.get? key = some raw)
    (a : Attr) (v : GoVal) (k : Kind) (hk : Kind.ofCode? a.ty = some k)
    (hs : k.isSigned = true) (hnn : raw.bytes ≠ sNull) :
    unmarshalToType a raw = .ok v ↔
      ∃ n, Spec.intLit raw.bytes = some n ∧ (∃ lo hi, k.range? = some (lo, hi) ∧ lo ≤ n ∧ n ≤ hi) ∧
        v = mkVal k a.nullable (.i n) :=
  C06_int_signed a raw v k hk hs (C06P_raw_noplus D bytes j sk hj hsk key raw hraw) hnn

/-! ### Non-vacuity: the reader on `{"attributes":{"n":-128,"p":+5}}` and without the `+` -/

/-- `{"type":"t","attributes":{"n":-128}}` -/
def C06P.exBytes : GoString := [123, 34, 116, 121, 112, 101, 34, 58, 34, 116, 34, 44,
  34, 97, 116, 116, 114, 105, 98, 117, 116, 101, 115, 34, 58, 123, 34, 110, 34, 58,
  45, 49, 50, 56, 125, 125]

def C06P.exD : Delegated := ⟨fun _ => none, fun _ => none⟩

/-- the payload is read and decoded, and the raw value of `n` is the text `-128` -/
theorem C06P_ex : ((parseJsonC C06P.exBytes).bind (decodeRes C06P.exD)).map
    (fun sk => (sk.attrs.get? [110]).map (·.bytes)) = some (some [45, 49, 50, 56]) := by decide

/-- a number token starting with '+' is not JSON: `{"attributes":{"n":+5}}` is rejected by the
reader (so `unmarshalResourceBytes` answers with an error before `strconv.ParseInt` sees "+5") -/
example : parseJsonC [123, 34, 97, 116, 116, 114, 105, 98, 117, 116, 101, 115, 34, 58, 123,
    34, 110, 34, 58, 43, 53, 125, 125] = none := by decide

end Jsonapi

section Axioms
open Jsonapi
#print axioms C06P_raw_head_value
#print axioms C06P_parse_numsWf
#print axioms C06P_attr_is_value
#print axioms C06P_raw_head
#print axioms C06P_raw_noplus
#print axioms C06B_remarshal_noplus
#print axioms C06B_int
#print axioms C06B_uint
#print axioms C06B_int_signed
#print axioms C06P_ex
#print axioms C06P.parseC_numsWf
#print axioms C06P.resMembers_AInv
#print axioms C06P.isAttrValue_numsWf
end Axioms
