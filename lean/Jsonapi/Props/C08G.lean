/-
C08G — the re-parse theorems of C08 without the hypothesis on the label's first byte.

`C08_reparse`, `C08F_reparse`, `C08F_reparse_real` and `C07B_reparse` carry the hypothesis
  hbrace : u.params.filterLabel ≠ [] → (labelBody u.params.filterLabel).head? ≠ some 123
(the JSON body of the filter label does not start with `{`), which the property text does
not have. It was an artefact of the model: url.go's `URL.String` rewrites a leading `{` of the
label body to the JSON escape backslash-u-0-0-7-b (so that `NewSimpleURL`, which takes a
`filter` value starting with `{` for a filter object, reads the value as a label again), and
the model of `String()` used to receive the body ALREADY rewritten (the harness did the
rewrite). Since work package W3 the rewrite is part of the model (`rewriteBrace` in
Model/Url.lean, applied inside `URL.string`; the harness hands over `json.Marshal(label)`
without its quotes, unrewritten, and the suites `url` / `urlraw` compare the real `String()`
with the model's on labels starting with `{` too), the label decoder is proved to read the
rewritten body like the body itself (`FjL.labelDec_rewriteBrace`: the string reader decodes
the escape to the byte `{`), and the four theorems are restated here WITHOUT `hbrace`:

* `C08G_reparse`        — `C08_reparse` (assumed codec: `CodecLawsG`, the four laws of
                          `CodecLaws` with `label_rt` stated for the body as it is emitted)
* `C08G_reparse_codec`  — `C08F_reparse` (modelled codec, any filter decode)
* `C08G_reparse_real`   — `C08F_reparse_real` (modelled codec applied to the URL's own values)
* `C07G_reparse`        — `C07B_reparse` (from raw string to raw string, full net/url model)

The old theorems are kept; they are instances (their `hbrace` makes the rewrite the identity).
What remains excluded is the known finding C08-type-without-fields (`NoEmptySelection`).
-/
import Jsonapi.Props.C07B
namespace Jsonapi
open FjL UrlL

/-! ### the codec laws, for the body as `String()` emits it -/

/-- What is assumed of the delegated JSON codec (compare `CodecLaws`): `labelBody l` is
`json.Marshal(l)` without the quotes, `labelDec v` is `json.Unmarshal("\"" + v + "\"")` into a
string; `label_rt` says that the decoder recovers the label from the body as `String()` writes
it, that is with a leading `{` rewritten to its escape (`rewriteBrace`). -/
structure CodecLawsG (labelDec filterDec : GoString → Option GoString)
    (labelBody : GoString → GoString) (Canon : GoString → Prop) : Prop where
  label_rt : ∀ l, labelDec (rewriteBrace (labelBody l)) = some l
  label_ne : ∀ l, l ≠ [] → labelBody l ≠ []
  filter_rt : ∀ f, Canon f → filterDec f = some f
  canon_head : ∀ f, Canon f → f.head? = some 123

/-- `CodecLaws` and "the decoder does not see the rewrite" give `CodecLawsG`. -/
theorem C08G_laws_of (labelDec filterDec : GoString → Option GoString)
    (labelBody : GoString → GoString) (Canon : GoString → Prop)
    (laws : CodecLaws labelDec filterDec labelBody Canon)
    (hb : ∀ v, labelDec (rewriteBrace v) = labelDec v) :
    CodecLawsG labelDec filterDec labelBody Canon :=
  ⟨fun l => by rw [hb]; exact laws.label_rt l, laws.label_ne, laws.filter_rt, laws.canon_head⟩

/-- The label decoder of the model (`json.Unmarshal` of the quoted value into a string) reads
a body whose leading `{` was rewritten exactly like the body itself, for EVERY value; hence
the label is recovered from what `String()` writes, whatever its first byte. -/
theorem C08G_label_rt (v l : GoString) :
    labelDec (rewriteBrace v) = labelDec v ∧ labelDec (rewriteBrace (labelBody l)) = some l ∧
    labelDec (labelBodyEmitted l) = some l ∧ (rewriteBrace v).head? ≠ some 123 :=
  ⟨labelDec_rewriteBrace v, by rw [labelDec_rewriteBrace]; exact C08F_label_rt l,
    labelDec_labelBodyEmitted l, rewriteBrace_head v⟩

/-- The same for Go's writer with its U+FFFD replacement, on well-formed UTF-8 labels (all a
parsed URL can hold). -/
theorem C08G_label_rt_valid (l : GoString) (h : utf8Valid l = true) :
    labelDec (rewriteBrace (goLabelBody l)) = some l := by
  rw [labelDec_rewriteBrace]; exact (C08F_label_rt_valid l h).2

/-- The modelled codecs satisfy `CodecLawsG`. -/
theorem C08G_real_codecs (nc : GoString → GoString) (hnc : NumCanonLaws nc) :
    CodecLawsG labelDec (filterDec nc) labelBody (fun f => ∃ x, filterDec nc x = some f) :=
  C08G_laws_of _ _ _ _ (C08F_real_codecs nc hnc) labelDec_rewriteBrace

/-! ### re-parsing -/

/-- The re-parse statement of C08 (`C08_reparse_statement`) without the hypothesis on the
label's first byte, under `CodecLawsG`. -/
def C08G_reparse_statement (excl : URL → Prop) : Prop :=
  ∀ (σ : Schema) (path : GoString) (values : GoMap (List GoString)) (fd : FilterDec) (u : URL)
    (labelDec filterDec : GoString → Option GoString) (labelBody : GoString → GoString)
    (Canon : GoString → Prop),
    Inv σ → NamesOK σ → CodecLawsG labelDec filterDec labelBody Canon →
    newURLFrom σ (some (path, values, fd)) = .ok u → values.keys.Nodup → excl u →
    (∀ f, u.params.filter = some f → Canon f) →
    ∃ u',
      Spec.parseRaw (u.string (c08_env labelBody u)) =
        some (Spec.emittedPath u, Spec.emittedValues u (c08_env labelBody u)) ∧
      newURLFrom σ (some (Spec.emittedPath u, Spec.emittedValues u (c08_env labelBody u),
        c08_reparseFd labelDec filterDec (Spec.emittedValues u (c08_env labelBody u)))) = .ok u' ∧
      u'.fragments = u.fragments ∧ u'.resType = u.resType ∧ u'.resID = u.resID ∧
      u'.rel = u.rel ∧ u'.isCol = u.isCol ∧
      (∀ t, (u'.params.fields.get? t).map Typ.sortStrings =
            (u.params.fields.get? t).map Typ.sortStrings) ∧
      u'.params.sortingRules = u.params.sortingRules ∧
      (u.isCol = true → ∀ k, u'.params.page.get? k = u.params.page.get? k) ∧
      u'.params.filterLabel = u.params.filterLabel ∧ u'.params.filter = u.params.filter ∧
      u'.string (c08_env labelBody u') = u.string (c08_env labelBody u)

/-- `C08_reparse` without `hbrace`. For a URL returned by `NewURLFromRaw` whose selections are
all non-empty, `String()` — which writes the label body with a leading `{` rewritten to its
JSON escape — parses to exactly the emitted parameters, `NewURLFromRaw` accepts them and
recovers fragments, resource type and ID, relationship, collection flag, the field selection
(as sets), the sorting rules, the page parameters of collection URLs, the filter label —
WHATEVER ITS FIRST BYTE — and the filter; and `String()` of the result is the same text.

Hypotheses beyond the informal statement: `NamesOK σ` (no comma in field names, no attribute
name starting with '-': the quantifier of the property, "names are JSON:API member names"),
unique parameter names in the original values map (a Go map), the codec laws, canonical
filter text, and the exclusion of the known finding (`NoEmptySelection`). -/
theorem C08G_reparse : C08G_reparse_statement NoEmptySelection := by
  intro σ path values fd u labelDec filterDec labelBody Canon hσ hn laws h hvnd hne hcanon
  obtain ⟨path', values', fd0, su, hpar, hsu, hu⟩ := newURLFrom_ok σ _ u h
  cases hpar
  obtain ⟨u0, p, hu0, hp, hue⟩ := newURL_ok' hu
  have hfld : u.params.fields.keys.Nodup := by
    have e : u.params = p := by rw [hue]
    have e' : u.resType = u0.resType := by rw [hue]
    rw [e]
    exact (params_fields hσ (e' ▸ restype_ok σ su u hu) hp).2
  have hpknd : u.isCol = true → u.params.page.keys.Nodup := by
    intro _
    obtain ⟨_, _, _, _, _, _, hpp, _⟩ := newParams_ok hp
    have : u.params = p := by rw [hue]
    rw [this, hpp]; exact (newSimpleURL_fields_nodup hsu).2
  have hparse := Esc.parse_string u (c08_env labelBody u) hne hfld hpknd
  have hfilter : ∀ f, u.params.filter = some f → f.head? = some 123 ∧
      (c08_reparseFd labelDec filterDec (Spec.emittedValues u (c08_env labelBody u))).filter = some f := by
    intro f hf
    have hv := c08_emitted_filter u (c08_env labelBody u) (.inl (by rw [hf]; simp))
    refine ⟨laws.canon_head f (hcanon f hf), ?_⟩
    have hval : firstVal (((Spec.emittedValues u (c08_env labelBody u)).get? sFilter).getD []) = f := by
      rw [hv]; simp [firstVal, Spec.emittedFilterValue, hf]
    show filterDec (firstVal _) = _
    rw [hval]
    exact laws.filter_rt f (hcanon f hf)
  have hlabel : u.params.filter = none → u.params.filterLabel ≠ [] →
      rewriteBrace (c08_env labelBody u).labelBody ≠ [] ∧
      (rewriteBrace (c08_env labelBody u).labelBody).head? ≠ some 123 ∧
      (c08_reparseFd labelDec filterDec (Spec.emittedValues u (c08_env labelBody u))).label =
        some u.params.filterLabel := by
    intro hf hl
    have hv := c08_emitted_filter u (c08_env labelBody u) (.inr hl)
    refine ⟨rewriteBrace_ne_nil _ (laws.label_ne _ hl), rewriteBrace_head _, ?_⟩
    have hval : firstVal (((Spec.emittedValues u (c08_env labelBody u)).get? sFilter).getD []) =
        rewriteBrace (labelBody u.params.filterLabel) := by
      rw [hv]; simp [firstVal, Spec.emittedFilterValue, hf, hl, c08_env]
    show labelDec (firstVal _) = _
    rw [hval]
    exact laws.label_rt _
  obtain ⟨u', h', r1, r2, r3, r4, r5, r6, r7, r8, r9, r10, r11, r12, _⟩ :=
    reparse_core hσ hn path values fd u h hvnd hne (c08_env labelBody u) _ hfilter hlabel
  refine ⟨u', hparse, h', r1, r2, r3, r4, r5, ?_, r8, r9, r11, r12, ?_⟩
  · intro t
    rw [r6 t]
    cases u.params.fields.get? t with
    | none => rfl
    | some fs => simp [DetL.sortStrings_idem]
  · have henv : c08_env labelBody u' = c08_env labelBody u := by unfold c08_env; rw [r11]
    rw [henv]
    apply Perm.string_canonical u' u _ r1 r5 r11 r12 r8
    · intro t
      rw [r6 t]
      cases u.params.fields.get? t with
      | none => rfl
      | some fs => simp [DetL.sortStrings_idem]
    · exact r7
    · exact hfld
    · intro hc; exact r9 (r5 ▸ hc)
    · intro _; exact r10
    · intro hc; exact hpknd (r5 ▸ hc)

/-- `C08F_reparse` without `hbrace`: the codec is the modelled one (nothing assumed of it), the
filter of the URL (if any) is the canonical text of some accepted text. -/
theorem C08G_reparse_codec (nc : GoString → GoString) (hnc : NumCanonLaws nc)
    (σ : Schema) (path : GoString) (values : GoMap (List GoString)) (fd : FilterDec) (u : URL)
    (hσ : Inv σ) (hn : NamesOK σ) (h : newURLFrom σ (some (path, values, fd)) = .ok u)
    (hv : values.keys.Nodup) (hne : NoEmptySelection u)
    (hcanon : ∀ f, u.params.filter = some f → ∃ x, filterDec nc x = some f) :
    ∃ u',
      Spec.parseRaw (u.string (c08_env labelBody u)) =
        some (Spec.emittedPath u, Spec.emittedValues u (c08_env labelBody u)) ∧
      newURLFrom σ (some (Spec.emittedPath u, Spec.emittedValues u (c08_env labelBody u),
        c08_reparseFd labelDec (filterDec nc) (Spec.emittedValues u (c08_env labelBody u)))) = .ok u' ∧
      u'.fragments = u.fragments ∧ u'.resType = u.resType ∧ u'.resID = u.resID ∧
      u'.rel = u.rel ∧ u'.isCol = u.isCol ∧
      (∀ t, (u'.params.fields.get? t).map Typ.sortStrings =
            (u.params.fields.get? t).map Typ.sortStrings) ∧
      u'.params.sortingRules = u.params.sortingRules ∧
      (u.isCol = true → ∀ k, u'.params.page.get? k = u.params.page.get? k) ∧
      u'.params.filterLabel = u.params.filterLabel ∧ u'.params.filter = u.params.filter ∧
      u'.string (c08_env labelBody u') = u.string (c08_env labelBody u) :=
  C08G_reparse σ path values fd u labelDec (filterDec nc) labelBody
    (fun f => ∃ x, filterDec nc x = some f) hσ hn (C08G_real_codecs nc hnc) h hv hne hcanon

/-- `C08F_reparse_real` without `hbrace`: for a URL parsed with the modelled decoders on its
own `filter` parameter (what simple_url.go computes from the values map) nothing is assumed
of the codec, of the filter or of the label. The hypotheses left are those on the schema
(`Inv`, `NamesOK`), the unique keys of the values map (a Go map) and the exclusion of the
known finding C08-type-without-fields. -/
theorem C08G_reparse_real (nc : GoString → GoString) (hnc : NumCanonLaws nc)
    (σ : Schema) (path : GoString) (values : GoMap (List GoString)) (u : URL)
    (hσ : Inv σ) (hn : NamesOK σ)
    (h : newURLFrom σ (some (path, values, c08_reparseFd labelDec (filterDec nc) values)) = .ok u)
    (hv : values.keys.Nodup) (hne : NoEmptySelection u) :
    ∃ u',
      Spec.parseRaw (u.string (c08_env labelBody u)) =
        some (Spec.emittedPath u, Spec.emittedValues u (c08_env labelBody u)) ∧
      newURLFrom σ (some (Spec.emittedPath u, Spec.emittedValues u (c08_env labelBody u),
        c08_reparseFd labelDec (filterDec nc) (Spec.emittedValues u (c08_env labelBody u)))) = .ok u' ∧
      u'.fragments = u.fragments ∧ u'.resType = u.resType ∧ u'.resID = u.resID ∧
      u'.rel = u.rel ∧ u'.isCol = u.isCol ∧
      (∀ t, (u'.params.fields.get? t).map Typ.sortStrings =
            (u.params.fields.get? t).map Typ.sortStrings) ∧
      u'.params.sortingRules = u.params.sortingRules ∧
      (u.isCol = true → ∀ k, u'.params.page.get? k = u.params.page.get? k) ∧
      u'.params.filterLabel = u.params.filterLabel ∧ u'.params.filter = u.params.filter ∧
      u'.string (c08_env labelBody u') = u.string (c08_env labelBody u) :=
  C08G_reparse_codec nc hnc σ path values _ u hσ hn h hv hne
    (fun f hf => ⟨_, C08F_parsed_filter σ path values _ u h f hf⟩)

/-- `C07B_reparse` without `hbrace`: through the full net/url model and the modelled JSON
codec, from raw string to raw string. If `NewURLFromRaw(raw)` returns `u`, then
`NewURLFromRaw(u.String())` returns a URL with the same fragments, resource type and ID,
relationship, field selection (as sets), sorting rules, page parameters (collection URLs),
filter label and filter, and the same `String()`. Hypotheses: schema invariant, member names,
no empty field selection (known finding C08-type-without-fields). -/
theorem C07G_reparse (nc : GoString → GoString) (hnc : NumCanonLaws nc) (σ : Schema)
    (raw : GoString) (u : URL) (hσ : Inv σ) (hn : NamesOK σ)
    (h : newURLFromRawReal nc σ raw = .ok u) (hne : NoEmptySelection u) :
    ∃ u', newURLFromRawReal nc σ (u.string (c08_env labelBody u)) = .ok u' ∧
      u'.fragments = u.fragments ∧ u'.resType = u.resType ∧ u'.resID = u.resID ∧
      u'.rel = u.rel ∧ u'.isCol = u.isCol ∧
      (∀ t, (u'.params.fields.get? t).map Typ.sortStrings =
            (u.params.fields.get? t).map Typ.sortStrings) ∧
      u'.params.sortingRules = u.params.sortingRules ∧
      (u.isCol = true → ∀ k, u'.params.page.get? k = u.params.page.get? k) ∧
      u'.params.filterLabel = u.params.filterLabel ∧ u'.params.filter = u.params.filter ∧
      u'.string (c08_env labelBody u') = u.string (c08_env labelBody u) := by
  obtain ⟨path, values, _, hnd, hu⟩ := C07B_parsed σ _ raw u h
  rw [C07B_rawFd_eq] at hu
  obtain ⟨u', hparse, hu', rest⟩ := C08G_reparse_real nc hnc σ path values u hσ hn hu hnd hne
  refine ⟨u', ?_, rest⟩
  have hfr := C07B_fragments_nonempty σ path values _ u hu
  unfold newURLFromRawReal newURLFromRaw
  rw [C07B_extends_parseRaw _ (C07B_string_plainRef u _ hfr), hparse]
  exact hu'

/-- The old theorem is an instance of the new one: under `hbrace` and `CodecLaws`, the
decoder law for the emitted body holds for the label at hand (the rewrite is the identity
there), which is all `C08G_reparse` uses; so `C08G_reparse` is not weaker than `C08_reparse`
on the labels the latter covers. (Stated for the law itself.) -/
theorem C08G_covers_old (labelDec filterDec : GoString → Option GoString)
    (labelBody : GoString → GoString) (Canon : GoString → Prop)
    (laws : CodecLaws labelDec filterDec labelBody Canon) (l : GoString)
    (hbrace : (labelBody l).head? ≠ some 123) :
    labelDec (rewriteBrace (labelBody l)) = some l := by
  rw [rewriteBrace_of_head _ hbrace]; exact laws.label_rt l

/-! ### non-vacuity: a label that starts with `{` -/

theorem c08g_σ_inv : Inv { types := [c08_tAs] } := by
  refine ⟨by decide, ?_⟩
  intro t ht
  have : t = c08_tAs := by simpa using ht
  subst this
  refine ⟨by decide, ⟨?_, (by intro p hp; cases hp), (by decide), (by decide), ?_⟩⟩
  · intro p hp
    have : p = ([120], { name := [120], ty := 1, nullable := false }) := by
      simpa [c08_tAs] using hp
    subst this
    decide
  · intro k _ hk; cases hk

theorem c08g_σ_names : NamesOK { types := [c08_tAs] } := by
  constructor
  · intro t ht a ha
    have : t = c08_tAs := by simpa using ht
    subst this
    have : a = { name := [120], ty := 1, nullable := false } := by
      simpa [c08_tAs, GoMap.vals] using ha
    subst this
    decide
  · intro t ht r hr
    have : t = c08_tAs := by simpa using ht
    subst this; cases hr

/-- the values map of `/as?filter=%5Cu007ba` (the filter value is backslash-u007ba) -/
def c08g_values : GoMap (List GoString) := [(sFilter, [[92, 117, 48, 48, 55, 98, 97]])]

/-- `NewURLFromRaw` on it: the label is `{a` -/
def c08g_u : URL :=
  { fragments := [[97, 115]], isCol := true, resType := [97, 115], resID := [], rel := default,
    params := { fields := [([97, 115], [[120]])], filterLabel := [123, 97], filter := none,
                sortingRules := [[120], idName], page := [], incl := [] } }

/-- the modelled decoders on the value: the label `{a`, no filter -/
theorem c08g_fd : c08_reparseFd labelDec (filterDec id) c08g_values =
    { label := some [123, 97], filter := none } := by
  unfold c08_reparseFd
  have h1 : labelDec (firstVal ((c08g_values.get? sFilter).getD [])) = some [123, 97] := by decide
  have h2 : filterDec id (firstVal ((c08g_values.get? sFilter).getD [])) = none := by decide
  rw [h1, h2]

theorem c08g_eval : newURLFrom { types := [c08_tAs] }
    (some ([47, 97, 115], c08g_values, c08_reparseFd labelDec (filterDec id) c08g_values)) =
    .ok c08g_u := by
  rw [c08g_fd]
  have h1 := eval_no_incl { types := [c08_tAs] } [47, 97, 115]
    [(sFilter, [[92, 117, 48, 48, 55, 98, 97]])] { label := some [123, 97], filter := none }
    { fragments := [[97, 115]], fields := [], filterLabel := [123, 97], filter := none,
      sortingRules := [], page := [], incl := [] }
    { fragments := [[97, 115]], isCol := true, resType := [97, 115], resID := [], rel := default,
      params := default }
    [([97, 115], [])] rfl rfl
    (by simp [urlHead, c08_tAs, Schema.getType]) (by decide) (by decide)
  rw [show c08g_values = [(sFilter, [[92, 117, 48, 48, 55, 98, 97]])] from rfl, h1]
  have hd : fillDefault { types := [c08_tAs] } [([97, 115], [])] = [([97, 115], [[120]])] := by
    decide
  have hr : pRules { types := [c08_tAs] }
      { fragments := [[97, 115]], fields := [], filterLabel := [123, 97], filter := none,
        sortingRules := [], page := [], incl := [] } [97, 115] = [[120], idName] := by decide
  simp only [hd, hr]
  rfl

theorem c08g_noEmpty : NoEmptySelection c08g_u := by
  intro t fs h
  have : (c08g_u.params.fields.get? t) = if [97, 115] = t then some [[120]] else none := by
    simp [c08g_u, GoMap.get?]
  rw [this] at h
  split at h
  · cases h; decide
  · cases h

/-- ALL hypotheses of `C08G_reparse_real` hold together for the URL of `/as?filter=%5Cu007ba`,
whose label `{a` starts with `{` and whose JSON body `{a` starts with `{` (the case the old
theorems excluded). -/
example :
    NumCanonLaws id ∧ Inv { types := [c08_tAs] } ∧ NamesOK { types := [c08_tAs] } ∧
    newURLFrom { types := [c08_tAs] }
      (some ([47, 97, 115], c08g_values, c08_reparseFd labelDec (filterDec id) c08g_values)) =
      .ok c08g_u ∧
    c08g_values.keys.Nodup ∧ NoEmptySelection c08g_u ∧
    c08g_u.params.filterLabel = [123, 97] ∧
    (labelBody c08g_u.params.filterLabel).head? = some 123 :=
  ⟨C08F_numCanon_id, c08g_σ_inv, c08g_σ_names, c08g_eval, by decide, c08g_noEmpty, rfl, by decide⟩

/-- … and the theorem applied to it: `String()` is `/as?fields%5Bas%5D=x&filter=%5Cu007ba&sort=x%2Cid`
and re-parsing it gives the label `{a` back. -/
theorem C08G_brace_label_roundtrip :
    c08g_u.string (c08_env labelBody c08g_u) =
      gs "/as?fields%5Bas%5D=x&filter=%5Cu007ba&sort=x%2Cid" ∧
    ∃ u', newURLFrom { types := [c08_tAs] }
        (some (Spec.emittedPath c08g_u, Spec.emittedValues c08g_u (c08_env labelBody c08g_u),
          c08_reparseFd labelDec (filterDec id)
            (Spec.emittedValues c08g_u (c08_env labelBody c08g_u)))) = .ok u' ∧
      u'.params.filterLabel = [123, 97] ∧
      u'.string (c08_env labelBody u') = gs "/as?fields%5Bas%5D=x&filter=%5Cu007ba&sort=x%2Cid" := by
  have hs : c08g_u.string (c08_env labelBody c08g_u) =
      gs "/as?fields%5Bas%5D=x&filter=%5Cu007ba&sort=x%2Cid" := by decide
  refine ⟨hs, ?_⟩
  obtain ⟨u', _, h', _, _, _, _, _, _, _, _, hl, _, hstr⟩ :=
    C08G_reparse_real id C08F_numCanon_id _ _ _ _ c08g_σ_inv c08g_σ_names c08g_eval (by decide)
      c08g_noEmpty
  exact ⟨u', h', hl, by rw [hstr, hs]⟩

/-- the hypotheses of `C07G_reparse` on the raw string `/as?filter=%5Cu007ba` -/
example : newURLFromRawReal id { types := [c08_tAs] } (gs "/as?filter=%5Cu007ba") = .ok c08g_u := by
  unfold newURLFromRawReal newURLFromRaw
  have hp : Spec.goUrlParse (gs "/as?filter=%5Cu007ba") = some ([47, 97, 115], c08g_values) := by
    decide
  rw [hp]
  exact c08g_eval

/-- the rewrite on the three kinds of body: leading brace, no leading brace, empty -/
example : rewriteBrace [123, 34, 97, 34, 58, 49] = [92, 117, 48, 48, 55, 98, 34, 97, 34, 58, 49] := by
  decide
example : rewriteBrace [120, 123] = [120, 123] := by decide
example : rewriteBrace [] = [] := by decide
/-- the decoder on a rewritten body, evaluated: the label `{` alone -/
example : labelDec (rewriteBrace (labelBody [123])) = some [123] := by decide

end Jsonapi

section Axioms
open Jsonapi
#print axioms C08G_laws_of
#print axioms C08G_label_rt
#print axioms C08G_label_rt_valid
#print axioms C08G_real_codecs
#print axioms C08G_reparse
#print axioms C08G_reparse_codec
#print axioms C08G_reparse_real
#print axioms C07G_reparse
#print axioms C08G_covers_old
#print axioms C08G_brace_label_roundtrip
end Axioms
