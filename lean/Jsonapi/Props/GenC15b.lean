/-
T1b for `Schema.Check` (C15), `Schema.buildRels` / `Schema.Rels` (C16) and `Type.Copy`: the
definitions translated from schema.go / type.go on this run (Generated/Funcs.lean) are the
hand-written model's of Model/Schema.lean - for every input. Through these theorems the C15
theorems about `Schema.check` / `checkRel` and the C16 theorems about `relSet` / `relsSorted`
are theorems about what the source says now.

Reading conventions of the translator that these statements rest on (its header, paragraph
"Slices of errors, maps with struct keys, sort.Slice, locals of type Type"):

* `[]error` is `List (Res Unit)`: one element per appended error, every `fmt.Errorf(…)` is
  `Res.err`, the texts are not modelled. `Gen.Schema_Check s` is therefore the list of the
  errors in the order `Check` appends them; the model's `Schema.check` groups them by
  relationship - (type name, relationship name, number of errors), entries with no error
  dropped - and `checkCount` is their number. `Gen_Schema_Check_eq` is the per-relationship
  statement: the result is, type by type and relationship by relationship in iteration order,
  `checkRel s t r` errors (0, 1 or 2: `checkTarget` + `checkInverse`).
* `map[Rel]struct{}` is a list of `(Rel × Unit)` entries with distinct keys, in an order that
  stands for the iteration order; `rels[k] = struct{}{}` is `Gen.mapSet` (= `GoMap.set` for
  structure keys). The model's `relSet` is a duplicate-free list built in another order
  (`dedup` keeps last occurrences, the map keeps first insertions), so `buildRels` and `relSet`
  are equal as SETS: same members, both duplicate-free, hence permutations of each other.
* `for _, rel := range typ.Rels { … rel.FromOne = one … }` (the repaired `buildRels`): the range
  value variable is a copy of the element and the store changes that copy only. The translator
  (wp_s.go, "range copy") reads the loop as `var rel Rel; for _, rel' := range … { rel = rel'; … }`,
  so the translated loop carries the pair `(rel_, rels_)`; `GenC15b.foldl_snd` drops the first
  component, which every step sets anew. `found, one := false, true` is the two declarations in
  sequence; the inner loop is `GenC15b.foldl_found_one`: `found` = some relationship of the target
  type points back, `one` = all that do are to-one - the model's `Schema.complete`.
* `sort.Slice(rels, func(i, j) bool { return relLess(rels[i], rels[j]) })` is rendered as the
  model's `List.mergeSort` by `fun a b => !relLess b a`. This is exact because `relLess` is a
  strict total order on distinct relationships (`Gen_relLess_eq`, `Rel.le_antisymm'`, `le_total'`,
  `le_trans'`) and the elements are distinct: the sorted arrangement is then unique, whichever
  algorithm (and whichever map iteration order) produced the input. `Gen_Schema_Rels_eq` uses
  exactly that uniqueness to bridge the two different insertion orders.
* `Type.Copy`: the field NewFunc is not part of the model's `Typ`; `ctyp.NewFunc = t.NewFunc`
  has no effect on the modelled fields. A nil and an empty map are both `[]`, so the translated
  `Copy` speaks about the effective maps (`TypeV.eff`); the nil-ness bits of `TypeV.copy`
  (never nil) are a fact of the Go source the translation does not carry.
-/
import Jsonapi.Generated.Funcs
import Jsonapi.Model.Misc
import Jsonapi.Props.GenC15
import Jsonapi.Props.GenC16
import Jsonapi.Proofs.GenC15bLemmas
namespace Jsonapi
open Schema GoMap

/-! ### `Schema.Check` -/

/-- schema.go `Check`, relationship by relationship: the returned slice is the concatenation,
over the types in slice order and over each type's relationships in map iteration order, of
`checkRel` errors - one when the target type does not exist, plus one when a relationship that
names an inverse is declared from another type or is not reciprocated. -/
theorem Gen_Schema_Check_eq (s : Schema) :
    Gen.Schema_Check s = s.types.flatMap (fun t => t.rels.flatMap (fun p =>
      List.replicate (s.checkRel t p.2) (Res.err : Res Unit))) := by
  unfold Gen.Schema_Check
  refine (GenC15b.foldl_append _ _ _ ?_ _).trans (List.nil_append _)
  intro acc t _
  refine GenC15b.foldl_append _ _ _ ?_ _
  intro acc p _
  simp only [Gen_Schema_GetType_eq]
  rw [GenC15b.foldl_flag (fun e : GoString × Rel =>
    decide (p.2.fromName = e.2.toName) && decide (p.2.toName = e.2.fromName) && decide (e.2.toType = t.name))]
  have hany : ((s.getType p.2.toType).rels.any (fun e : GoString × Rel =>
      decide (p.2.fromName = e.2.toName) && decide (p.2.toName = e.2.fromName) && decide (e.2.toType = t.name)))
      = ((s.getType p.2.toType).rels.any (fun e =>
        decide (p.2.fromName = e.2.toName ∧ p.2.toName = e.2.fromName ∧ e.2.toType = t.name))) := by
    congr 1; funext e; simp only [Bool.decide_and, Bool.and_assoc]
  rw [hany]
  unfold checkRel checkTarget checkInverse
  by_cases h0 : (s.getType p.2.toType).name = [] <;> by_cases h1 : p.2.toName = []
  all_goals try (by_cases h2 : p.2.fromType = t.name)
  all_goals try (cases h3 : (s.getType p.2.toType).rels.any (fun e =>
        decide (p.2.fromName = e.2.toName ∧ p.2.toName = e.2.fromName ∧ e.2.toType = t.name)))
  all_goals simp [h0, h1, h2, List.replicate]

/-- Every element of the returned slice is a non-nil error. -/
theorem Gen_Schema_Check_all_err (s : Schema) : ∀ e ∈ Gen.Schema_Check s, e = Res.err := by
  rw [Gen_Schema_Check_eq]
  intro e he
  obtain ⟨t, _, he⟩ := List.mem_flatMap.1 he
  obtain ⟨p, _, he⟩ := List.mem_flatMap.1 he
  exact (List.mem_replicate.1 he).2

/-- `len(s.Check())` is the model's `checkCount`. -/
theorem Gen_Schema_Check_length (s : Schema) : (Gen.Schema_Check s).length = s.checkCount := by
  rw [Gen_Schema_Check_eq]
  unfold checkCount check
  rw [GenC15b.foldl_add_eq_sum, Nat.zero_add]
  induction s.types with
  | nil => rfl
  | cons t ts ih =>
    rw [List.flatMap_cons, List.flatMap_cons, List.length_append, List.map_append, List.sum_append, ih,
      GenC15b.length_flatMap_replicate]
    congr 1
    exact (GenC15b.sum_filterMap_pos t.rels (fun p => s.checkRel t p.2) (fun p => (t.name, p.2.fromName))).symm

/-- `Check` returns no error exactly when the model's `check` reports none - the left side of
`C15_sound_complete`. -/
theorem Gen_Schema_Check_nil_iff (s : Schema) : Gen.Schema_Check s = [] ↔ s.check = [] := by
  rw [Gen_Schema_Check_eq]
  unfold check
  simp only [List.flatMap_eq_nil_iff, List.filterMap_eq_nil_iff, List.replicate_eq_nil_iff]
  constructor
  · intro h t ht p hp; simp [h t ht p hp]
  · intro h t ht p hp
    have := h t ht p hp
    by_cases h0 : s.checkRel t p.2 = 0
    · exact h0
    · simp [h0] at this

/-! ### `Schema.buildRels` and `Schema.Rels` -/

private theorem mapSet_unit {κ : Type} [DecidableEq κ] (m : List (κ × Unit)) (k : κ) :
    Gen.mapSet m k () = GenC15b.setAdd m k := by
  induction m with
  | nil => rfl
  | cons e m ih =>
    obtain ⟨k', v'⟩ := e
    unfold Gen.mapSet GenC15b.setAdd
    rw [ih]

/-- `buildRels` as one loop over the (type, relationship) pairs: each step adds the completed,
normalised relationship. The translated body carries the range variable `rel` as a local copy
(`foldl_snd`), its inner loop computes `found` / `one` (`foldl_found_one`), which are
"some relationship of the target type points back" and "all that do are to-one": the model's
`complete`. -/
private theorem buildRels_fold (s : Schema) :
    Gen.Schema_buildRels s =
      (s.types.flatMap (fun t => t.rels.map (fun p => (t, p.2)))).foldl
        (fun m e => GenC15b.setAdd m (s.complete e.1 e.2).normalize) [] := by
  unfold Gen.Schema_buildRels
  rw [List.foldl_flatMap]
  dsimp only
  congr 1; funext m t
  rw [List.foldl_map]
  show (Prod.snd (List.foldl _ _ _) : List (Rel × Unit)) = _
  refine GenC15b.foldl_snd _ _ ?_ _ _
  intro a b e
  dsimp only
  generalize hfo : List.foldl _ (false, true) _ = fo
  rw [GenC15b.foldl_found_one
    (fun e2 : GoString × Rel => decide (e2.2.fromName = e.2.toName) && decide (e2.2.toName = e.2.fromName) && decide (e2.2.toType = t.name))
    (fun e2 => e2.2.toOne) _ (by intro a b e2; dsimp only; first | done | rfl | (split <;> rfl))] at hfo
  subst hfo
  rw [mapSet_unit, Gen_Rel_Normalize_eq, Gen_Schema_GetType_eq]
  have hc : (fun inv : Rel => decide (inv.fromName = e.2.toName ∧ inv.toName = e.2.fromName ∧ inv.toType = t.name)) ∘ (fun p : GoString × Rel => p.2)
      = (fun e2 : GoString × Rel => decide (e2.2.fromName = e.2.toName) && decide (e2.2.toName = e.2.fromName) && decide (e2.2.toType = t.name)) := by
    funext p; simp only [Function.comp, Bool.decide_and, Bool.and_assoc]
  have hB : s.backRels t e.2 = ((s.getType e.2.toType).rels.filter (fun e2 : GoString × Rel => decide (e2.2.fromName = e.2.toName) && decide (e2.2.toName = e.2.fromName) && decide (e2.2.toType = t.name))).map (·.2) := by
    unfold backRels GoMap.vals; rw [List.filter_map, hc]
  have hA : (s.backRels t e.2).isEmpty = !((s.getType e.2.toType).rels.any (fun e2 : GoString × Rel => decide (e2.2.fromName = e.2.toName) && decide (e2.2.toName = e.2.fromName) && decide (e2.2.toType = t.name))) := by
    rw [hB]; generalize (s.getType e.2.toType).rels = l
    induction l with
    | nil => rfl
    | cons x l ih =>
      rw [List.filter_cons, List.any_cons]; split
      · rename_i h; rw [h]; rfl
      · rename_i h; rw [Bool.not_eq_true] at h; rw [h, Bool.false_or]; exact ih
  unfold complete
  rw [hA, hB, List.all_map]
  simp only [Function.comp_def]
  generalize (s.getType e.2.toType).rels.any _ = A
  generalize ((s.getType e.2.toType).rels.filter _).all _ = B
  by_cases h1 : e.2.toName = [] <;> cases A <;> simp [h1]

/-- The keys of the map `buildRels` returns are exactly the members of the model's `relSet`:
the completed, normalised relationships of the schema's types. -/
theorem Gen_Schema_buildRels_mem (s : Schema) (x : Rel) :
    x ∈ (Gen.Schema_buildRels s).map (·.1) ↔ x ∈ s.relSet := by
  rw [buildRels_fold, GenC15b.mem_foldl_setAdd, mem_relSet]
  simp only [List.map_nil, List.not_mem_nil, false_or, List.mem_flatMap, GoMap.vals, List.mem_map]
  constructor
  · rintro ⟨e, ⟨t, ht, p, hp, rfl⟩, h⟩; exact ⟨t, ht, p.2, ⟨p, hp, rfl⟩, h⟩
  · rintro ⟨t, ht, r, ⟨p, hp, rfl⟩, h⟩; exact ⟨(t, p.2), ⟨t, ht, p, hp, rfl⟩, h⟩

/-- A Go map holds each key once. -/
theorem Gen_Schema_buildRels_nodup (s : Schema) : ((Gen.Schema_buildRels s).map (·.1)).Nodup := by
  rw [buildRels_fold]
  exact GenC15b.nodup_foldl_setAdd _ _ _ List.nodup_nil

/-- `buildRels` and the model's `relSet` are the same set: duplicate-free lists with the same
members, i.e. permutations of each other (the list order stands for the iteration order of the
map, which Go leaves open). -/
theorem Gen_Schema_buildRels_perm (s : Schema) : ((Gen.Schema_buildRels s).map (·.1)).Perm s.relSet :=
  (List.perm_ext_iff_of_nodup (Gen_Schema_buildRels_nodup s) (nodup_dedup _)).2 (Gen_Schema_buildRels_mem s)

/-- The comparison `Rels` sorts by is the model's `Rel.le`. -/
theorem Gen_Schema_Rels_order : (fun a b : Rel => !Gen.relLess b a) = Rel.le := by
  funext a b; rw [Gen_relLess_eq]; rfl

/-- schema.go `Rels` is the model's `relsSorted`. -/
theorem Gen_Schema_Rels_eq (s : Schema) : Gen.Schema_Rels s = s.relsSorted := by
  unfold Gen.Schema_Rels relsSorted
  dsimp only
  rw [GenC15b.foldl_collect, List.nil_append, Gen_Schema_Rels_order]
  apply List.Perm.eq_of_pairwise (le := fun a b => Rel.le a b = true)
  · intro a b _ _ h1 h2; exact Rel.le_antisymm' a b h1 h2
  · exact List.pairwise_mergeSort Rel.le_trans' Rel.le_total' _
  · exact List.pairwise_mergeSort Rel.le_trans' Rel.le_total' _
  · exact (List.mergeSort_perm _ _).trans ((Gen_Schema_buildRels_perm s).trans (List.mergeSort_perm _ _).symm)

/-- The result does not depend on the order in which the map returned by `buildRels` is ranged
over: sorting ANY arrangement of its keys gives `relsSorted`. -/
theorem Gen_Schema_Rels_any_order (s : Schema) (l : List Rel)
    (h : l.Perm ((Gen.Schema_buildRels s).map (·.1))) :
    l.mergeSort (fun a b => !Gen.relLess b a) = s.relsSorted := by
  unfold relsSorted
  rw [Gen_Schema_Rels_order]
  apply List.Perm.eq_of_pairwise (le := fun a b => Rel.le a b = true)
  · intro a b _ _ h1 h2; exact Rel.le_antisymm' a b h1 h2
  · exact List.pairwise_mergeSort Rel.le_trans' Rel.le_total' _
  · exact List.pairwise_mergeSort Rel.le_trans' Rel.le_total' _
  · exact (List.mergeSort_perm _ _).trans (h.trans ((Gen_Schema_buildRels_perm s).trans (List.mergeSort_perm _ _).symm))

/-! ### `Type.Copy` -/

/-- type.go `Copy` on a type whose maps hold each key once (true of every Go map): the copy has
the source's name and the source's entries, in the order they were ranged over. -/
theorem Gen_Type_Copy_eq (t : Typ) (ha : t.attrs.keys.Nodup) (hr : t.rels.keys.Nodup) :
    Gen.Type_Copy t = t := by
  unfold Gen.Type_Copy
  have h1 : ∀ (l : GoMap Attr) (c : Typ),
      l.foldl (fun c e => { c with attrs := GoMap.set c.attrs e.1 e.2 }) c
        = { c with attrs := l.foldl (fun m e => GoMap.set m e.1 e.2) c.attrs } := by
    intro l; induction l with
    | nil => intro c; rfl
    | cons e l ih => intro c; rw [List.foldl_cons, ih]; rfl
  have h2 : ∀ (l : GoMap Rel) (c : Typ),
      l.foldl (fun c e => { c with rels := GoMap.set c.rels e.1 e.2 }) c
        = { c with rels := l.foldl (fun m e => GoMap.set m e.1 e.2) c.rels } := by
    intro l; induction l with
    | nil => intro c; rfl
    | cons e l ih => intro c; rw [List.foldl_cons, ih]; rfl
  simp only [h1, h2]
  rw [GenC15b.foldl_set_copy _ _ ha (by intro k _ h; cases h),
    GenC15b.foldl_set_copy _ _ hr (by intro k _ h; cases h)]
  cases t; rfl

/-- The same, against the model of `Type` values (Model/Misc.lean): what the translated `Copy`
makes of the effective maps of `t` is the `Typ` of the model's copy. -/
theorem Gen_Type_Copy_TypeV (t : TypeV) (h : t.WF) : Gen.Type_Copy t.eff = t.copy.typ := by
  have := Gen_Type_Copy_eq t.eff h.1 h.2
  rw [this]; rfl

/-- The hypothesis is about the representation (an association list may repeat a key, a Go map
cannot), not about the code: on a list with a repeated key the copy keeps the last value. -/
theorem Gen_Type_Copy_needs_unique_keys :
    let a : Attr := { name := [97], ty := 1, nullable := false }
    let b : Attr := { name := [97], ty := 2, nullable := false }
    let t : Typ := { name := [116], attrs := [([97], a), ([97], b)], rels := [] }
    Gen.Type_Copy t ≠ t := by decide

end Jsonapi

section Axioms
open Jsonapi
#print axioms Gen_Schema_Check_eq
#print axioms Gen_Schema_Check_all_err
#print axioms Gen_Schema_Check_length
#print axioms Gen_Schema_Check_nil_iff
#print axioms Gen_Schema_buildRels_mem
#print axioms Gen_Schema_buildRels_nodup
#print axioms Gen_Schema_buildRels_perm
#print axioms Gen_Schema_Rels_order
#print axioms Gen_Schema_Rels_eq
#print axioms Gen_Schema_Rels_any_order
#print axioms Gen_Type_Copy_eq
#print axioms Gen_Type_Copy_TypeV
#print axioms Gen_Type_Copy_needs_unique_keys
end Axioms
