/-
C07B — C07 from the RAW STRING: `url.Parse` + `Query()` inside the model.

C07 (Props/C07.lean) starts where simple_url.go starts: at `u.Path` and `u.Query()`, delegated
to net/url, so its theorems quantify over every decoded path and every values map. Here the
two are computed from the raw string by `Spec.goUrlParse` (Spec/UrlFull.lean: net/url of
go1.23.5 — control bytes, fragment, scheme, opaque URLs, first-segment colon, authority with
userinfo / host / port / IPv6 literal and zone, path unescaping, `Query()` with ';', '+',
dropped pairs), compared with the real `url.Parse` / `Query()` on the same raw strings by the
suite `urlraw`. `newURLFromRaw σ fdOf raw` (Model/UrlRaw.lean) is `NewURLFromRaw` from the raw
string; `fdOf` is the decode of the `filter` parameter from the values map (any function: the
theorems hold for every decode; `rawFd labelDec (filterDec nc)` is the modelled JSON codec).

* `C07B_total`: for EVERY raw string and every schema, no panic: an error or a URL.
* `C07B_parsed`, `C07B_consistent`: a returned URL comes from a string net/url accepts, whose
  values map has unique keys, and is consistent with the schema (all clauses of C07).
* `C07B_order_independent`: the order in which `Query()`'s map is ranged over is immaterial.
* `C07B_extends_parseRaw`: on `Spec.plainRef` strings — no control byte, no '#', no ':' before
  the first '/' or '?', no `//authority`, no ';' in the query; everything `URL.String()`
  writes — the full parser IS `Spec.parseRaw`, the parser C08 is proved with; for every
  string `parseRaw` accepts outside that set the two may differ (`C07B_parseRaw_differs`).
* `C07B_string_plainRef`, `C07B_parse_string`, `C07B_reparse`: everything `URL.String()` writes
  is a plain reference, so C08's `parse_string` and re-parse theorems hold with the full
  parser: `NewURLFromRaw(u.String())` gives `u` back, from raw string to raw string.
* `C07B_query_spec`, `C07B_values_nodup`, `C07B_order`, `C07B_order_url`, `C07B_raw_order`:
  `Query()` is the list of kept, decoded pairs grouped by key; permuting differently named
  pairs permutes the entries, and `NewURLFromRaw` of the permuted raw string succeeds or fails
  alike and returns a URL with the same `String()`.
-/
import Jsonapi.Props.C07
import Jsonapi.Props.C08F
import Jsonapi.Model.UrlRaw
import Jsonapi.Proofs.UrlFullLemmas
namespace Jsonapi
open UrlL UrlFullL FjL

/-! ### 1. totality -/

/-- For every raw string, every schema and every decode of the filter parameter,
`NewURLFromRaw` does not panic: by the `Res` type it returns an error or a URL. -/
theorem C07B_total (σ : Schema) (fdOf : GoMap (List GoString) → FilterDec) (raw : GoString) :
    newURLFromRaw σ fdOf raw ≠ .panic :=
  C07_total σ _

/-- … in particular with the modelled JSON codec of the filter parameter. -/
theorem C07B_total_real (nc : GoString → GoString) (σ : Schema) (raw : GoString) :
    newURLFromRawReal nc σ raw ≠ .panic :=
  C07B_total σ _ raw

/-- A raw string that `url.Parse` rejects gives an error. -/
theorem C07B_parse_error (σ : Schema) (fdOf : GoMap (List GoString) → FilterDec) (raw : GoString)
    (h : Spec.goUrlParse raw = none) : newURLFromRaw σ fdOf raw = .err := by
  unfold newURLFromRaw
  rw [h]
  rfl

/-! ### 2. consistency -/

/-- `Query()` never lists a key twice. -/
theorem C07B_values_nodup (raw path : GoString) (values : GoMap (List GoString))
    (h : Spec.goUrlParse raw = some (path, values)) : values.keys.Nodup := by
  unfold Spec.goUrlParse at h
  split at h
  · cases h
  · split at h
    · cases h
      exact goParseQuery_keys_nodup _
    · cases h

/-- A returned URL comes from a raw string `url.Parse` accepts; it is what Model/Url.lean's
`newURLFrom` returns on the decoded path and the values map, whose keys are unique. -/
theorem C07B_parsed (σ : Schema) (fdOf : GoMap (List GoString) → FilterDec) (raw : GoString)
    (u : URL) (h : newURLFromRaw σ fdOf raw = .ok u) :
    ∃ path values, Spec.goUrlParse raw = some (path, values) ∧ values.keys.Nodup ∧
      newURLFrom σ (some (path, values, fdOf values)) = .ok u := by
  unfold newURLFromRaw at h
  cases hp : Spec.goUrlParse raw with
  | none => rw [hp] at h; cases h
  | some pv =>
    obtain ⟨path, values⟩ := pv
    rw [hp] at h
    exact ⟨path, values, rfl, C07B_values_nodup raw path values hp, h⟩

/-- A URL returned for a raw string is consistent with the schema: its resource type exists;
every field-selection entry names a schema type and lists distinct names that are `id` or
fields of the type, one entry per type, all of the type's fields when the request names no
valid one; every inclusion path is a non-empty chain of schema relationships from the
resource type, and a requested path that resolves is kept unless a longer requested path
extends it; for a collection URL the sorting rules start with the caller's valid rules in
order, every rule is `id` or an attribute (after an optional '-'), and `id` is there. The
requests are read off `values`, the `Query()` of the raw string. -/
theorem C07B_consistent (σ : Schema) (hσ : Inv σ) (fdOf : GoMap (List GoString) → FilterDec)
    (raw : GoString) (u : URL) (h : newURLFromRaw σ fdOf raw = .ok u) :
    ∃ path values, Spec.goUrlParse raw = some (path, values) ∧
      -- resource type
      σ.hasType u.resType = true ∧
      -- field selections
      (∀ t fs, u.params.fields.get? t = some fs →
        σ.hasType t = true ∧ (∀ f ∈ fs, f = idName ∨ f ∈ (σ.getType t).fields) ∧ fs.Nodup) ∧
      u.params.fields.keys.Nodup ∧
      (∀ t fs, u.params.fields.get? t = some fs →
        (∀ vs, (Spec.fieldsName t, vs) ∈ values →
          ∀ f ∈ parseCommaList (firstVal vs), f ≠ idName ∧ f ∉ (σ.getType t).fields) →
        fs = (σ.getType t).fields) ∧
      -- inclusion paths
      (∀ p ∈ u.params.incl, p ≠ [] ∧ Spec.validChain σ u.resType p = true) ∧
      (∀ q ∈ Spec.requestedIncludes values, ∀ rels,
        resolvePath σ u.resType (splitOn 46 q) = some rels →
        rels ∈ u.params.incl ∨
          ∃ q' ∈ Spec.requestedIncludes values, hasPrefix q' (q ++ [46]) = true) ∧
      -- sorting rules of a collection URL
      (u.isCol = true →
        Spec.validRules σ u.resType (Spec.requestedRules values) <+: u.params.sortingRules ∧
        (∀ rule ∈ u.params.sortingRules,
          rule ∈ (σ.getType u.resType).attrs.vals.map (·.name) ∨ Spec.stripDash rule = idName ∨
          Spec.stripDash rule ∈ (σ.getType u.resType).attrs.vals.map (·.name)) ∧
        (∃ rule ∈ u.params.sortingRules, Spec.stripDash rule = idName)) := by
  obtain ⟨path, values, hp, _, hu⟩ := C07B_parsed σ fdOf raw u h
  have hf := C07_fields σ hσ _ u hu
  exact ⟨path, values, hp, C07_restype σ hσ _ u hu, hf.1, hf.2,
    fun t fs hget hreq => C07_fields_default σ path values _ u hu t fs hget hreq,
    C07_include_valid σ hσ _ u hu,
    fun q hq rels hr => C07_include_kept σ path values _ u hu q hq rels hr,
    fun hcol => C07_sort σ path values _ u hu hcol⟩

/-- `C07_sort_names` from the raw string: when no attribute name of the type starts with '-',
every sorting rule of a collection URL names (after an optional '-') `id` or an attribute. -/
theorem C07B_sort_names (σ : Schema) (fdOf : GoMap (List GoString) → FilterDec) (raw : GoString)
    (u : URL) (h : newURLFromRaw σ fdOf raw = .ok u) (hcol : u.isCol = true)
    (hdash : ∀ a ∈ (σ.getType u.resType).attrs.vals.map (·.name), a.head? ≠ some 45) :
    ∀ rule ∈ u.params.sortingRules, Spec.stripDash rule = idName ∨
      Spec.stripDash rule ∈ (σ.getType u.resType).attrs.vals.map (·.name) := by
  obtain ⟨path, values, _, _, hu⟩ := C07B_parsed σ fdOf raw u h
  exact C07_sort_names σ path values _ u hu hcol hdash

/-- The model lists `Query()`'s keys in order of first occurrence; the Go map is ranged over
in any order. It does not matter: for every reordering `values'` of the values map of a raw
string, `NewSimpleURL`/`NewURL` succeed or fail alike, and two URLs differ at most in the
association-list order of their field and page maps — `String()` is the same. -/
theorem C07B_order_independent (σ : Schema) (fd : FilterDec) (raw path : GoString)
    (values values' : GoMap (List GoString)) (hp : Spec.goUrlParse raw = some (path, values))
    (hperm : values.Perm values') :
    (newURLFrom σ (some (path, values, fd))).isOk = (newURLFrom σ (some (path, values', fd))).isOk ∧
    ∀ u₁ u₂, newURLFrom σ (some (path, values, fd)) = .ok u₁ →
      newURLFrom σ (some (path, values', fd)) = .ok u₂ →
      u₁.fragments = u₂.fragments ∧ u₁.isCol = u₂.isCol ∧ u₁.resType = u₂.resType ∧
      u₁.resID = u₂.resID ∧ u₁.rel = u₂.rel ∧
      u₁.params.sortingRules = u₂.params.sortingRules ∧
      u₁.params.filterLabel = u₂.params.filterLabel ∧ u₁.params.filter = u₂.params.filter ∧
      u₁.params.incl = u₂.params.incl ∧
      (∀ t, u₁.params.fields.get? t = u₂.params.fields.get? t) ∧
      (∀ k, u₁.params.page.get? k = u₂.params.page.get? k) ∧
      ∀ env, u₁.string env = u₂.string env := by
  have hnd := C07B_values_nodup raw path values hp
  refine ⟨C07_order_independent_isOk σ path values values' fd hperm hnd, ?_⟩
  intro u₁ u₂ h₁ h₂
  have := C07_order_independent σ path values values' fd hperm hnd u₁ u₂ h₁ h₂
  exact ⟨this.1, this.2.1, this.2.2.1, this.2.2.2.1, this.2.2.2.2.1, this.2.2.2.2.2.1,
    this.2.2.2.2.2.2.1, this.2.2.2.2.2.2.2.1, this.2.2.2.2.2.2.2.2.1, this.2.2.2.2.2.2.2.2.2.1,
    this.2.2.2.2.2.2.2.2.2.2.1, this.2.2.2.2.2.2.2.2.2.2.2.2.2.2.2⟩

/-! ### 3. the full parser extends the parser of `String()`'s grammar -/

/-- On a plain reference — no control byte, no '#', no ':' before the first '/' or '?', no
`//authority` (three slashes are a path), no ';' in the query — `url.Parse` + `Query()` are
`Spec.parseRaw`: the path is the text before the first '?', unescaped; the query is split on
'&' and '=' and unescaped. (`Spec.parseRaw` itself accepts every string whose path unescapes;
outside `plainRef` it is not net/url: `C07B_parseRaw_differs`.) -/
theorem C07B_extends_parseRaw (s : GoString) (h : Spec.plainRef s = true) :
    Spec.goUrlParse s = Spec.parseRaw s :=
  goUrlParse_plain s h

/-- Hence `NewURLFromRaw` on a plain reference is C08's re-parse: `newURLFrom` on what
`Spec.parseRaw` returns. -/
theorem C07B_raw_eq_reparse (σ : Schema) (fdOf : GoMap (List GoString) → FilterDec) (s : GoString)
    (h : Spec.plainRef s = true) :
    newURLFromRaw σ fdOf s = newURLFrom σ ((Spec.parseRaw s).map (fun p => (p.1, p.2, fdOf p.2))) := by
  unfold newURLFromRaw
  rw [C07B_extends_parseRaw s h]

/-- the filter decode of C08's re-parse theorems is `rawFd` -/
theorem C07B_rawFd_eq (labelDec filterDec : GoString → Option GoString)
    (values : GoMap (List GoString)) :
    rawFd labelDec filterDec values = c08_reparseFd labelDec filterDec values := rfl

/-- Each condition of `plainRef` is needed: `a:b` (opaque: empty path), `//h/p` (the host is
not part of the path), `/p?a=1;b=2` (the piece is dropped), `/p#f` (the fragment is cut off),
and a control byte (rejected) are read differently by `Spec.parseRaw`. -/
theorem C07B_parseRaw_differs :
    Spec.goUrlParse [97, 58, 98] = some ([], []) ∧ Spec.parseRaw [97, 58, 98] = some ([97, 58, 98], []) ∧
    Spec.goUrlParse [47, 47, 104, 47, 112] = some ([47, 112], []) ∧
    Spec.parseRaw [47, 47, 104, 47, 112] = some ([47, 47, 104, 47, 112], []) ∧
    Spec.goUrlParse [47, 112, 63, 97, 61, 49, 59, 98, 61, 50] = some ([47, 112], []) ∧
    Spec.parseRaw [47, 112, 63, 97, 61, 49, 59, 98, 61, 50] = some ([47, 112], [([97], [[49, 59, 98, 61, 50]])]) ∧
    Spec.goUrlParse [47, 112, 35, 102] = some ([47, 112], []) ∧
    Spec.parseRaw [47, 112, 35, 102] = some ([47, 112, 35, 102], []) ∧
    Spec.goUrlParse [47, 112, 1] = none ∧ Spec.parseRaw [47, 112, 1] = some ([47, 112, 1], []) :=
  ⟨by decide, by decide, by decide, by decide, by decide, by decide, by decide, by decide, by decide,
    by decide⟩

/-! ### 3b. `String()` is read by the full parser as C08 says -/

/-- the fragments of a parsed URL are not empty (`parseFragments` drops empty items) -/
theorem C07B_fragments_nonempty (σ : Schema) (path : GoString) (values : GoMap (List GoString))
    (fd : FilterDec) (u : URL) (h : newURLFrom σ (some (path, values, fd)) = .ok u) :
    [] ∉ u.fragments := by
  obtain ⟨path', values', fd', su, hpar, hsu, hu⟩ := newURLFrom_ok σ _ u h
  cases hpar
  obtain ⟨f0, rest, p, _, _, hfr, _⟩ := newURL_ok σ su u hu
  rw [hfr, newSimpleURL_fragments hsu]
  intro hm
  unfold parseFragments at hm
  have := (List.mem_filter.1 hm).2
  simp at this

/-- Everything `URL.String()` writes for a URL without an empty fragment is a plain
reference: no control byte, '#' or ';', one leading '/', no scheme, no authority. -/
theorem C07B_string_plainRef (u : URL) (env : StringEnv) (hfr : [] ∉ u.fragments) :
    Spec.plainRef (u.string env) = true :=
  string_plainRef u env hfr

/-- `C08_parse_string` for the full parser: `url.Parse` + `Query()` of `u.String()` are the
path `"/" + join(fragments, "/")` and exactly the emitted parameters, one value each. -/
theorem C07B_parse_string (u : URL) (env : StringEnv) (hne : NoEmptySelection u)
    (hfr : [] ∉ u.fragments) (hfk : u.params.fields.keys.Nodup)
    (hpk : u.isCol = true → u.params.page.keys.Nodup) :
    Spec.goUrlParse (u.string env) = some (Spec.emittedPath u, Spec.emittedValues u env) := by
  rw [C07B_extends_parseRaw _ (C07B_string_plainRef u env hfr)]
  exact Esc.parse_string u env hne hfk hpk

/-- C08's re-parse theorem through the full parser and the modelled JSON codec, from raw
string to raw string: if `NewURLFromRaw(raw)` returns `u`, then `NewURLFromRaw(u.String())`
returns a URL with the same fragments, resource type and ID, relationship, field selection
(as sets), sorting rules, page parameters (collection URLs), filter label and filter, and the
same `String()`. Hypotheses as in `C08F_reparse_real`: schema invariant, member names, no
empty field selection (known finding C08-type-without-fields), a label whose JSON body does
not start with '{' (`C07G_reparse` in Props/C08G.lean is this theorem without that last
hypothesis). -/
theorem C07B_reparse (nc : GoString → GoString) (hnc : NumCanonLaws nc) (σ : Schema)
    (raw : GoString) (u : URL) (hσ : Inv σ) (hn : NamesOK σ)
    (h : newURLFromRawReal nc σ raw = .ok u) (hne : NoEmptySelection u)
    (hbrace : u.params.filterLabel ≠ [] → (labelBody u.params.filterLabel).head? ≠ some 123) :
    ∃ u', newURLFromRawReal nc σ (u.string (c08_env labelBody u)) = .ok u' ∧
      u'.fragments = u.fragments ∧ u'.resType = u.resType ∧ u'.resID = u.resID ∧
      u'.rel = u.rel ∧ u'.isCol = u.isCol ∧
      (∀ t, (u'.params.fields.get? t).map Typ.sortStrings =
            (u.params.fields.get? t).map Typ.sortStrings) ∧
      u'.params.sortingRules = u.params.sortingRules ∧
      (u.isCol = true → ∀ k, u'.params.page.get? k = u.params.page.get? k) ∧
      u'.params.filterLabel = u.params.filterLabel ∧ u'.params.filter = u.params.filter ∧
      u'.string (c08_env labelBody u') = u.string (c08_env labelBody u) := by
  obtain ⟨path, values, _, hnd, hu⟩ := C07B_parsed σ _ raw u h
  rw [C07B_rawFd_eq] at hu
  obtain ⟨u', hparse, hu', rest⟩ := C08F_reparse_real nc hnc σ path values u hσ hn hu hnd hne hbrace
  refine ⟨u', ?_, rest⟩
  have hfr := C07B_fragments_nonempty σ path values _ u hu
  unfold newURLFromRawReal newURLFromRaw
  rw [C07B_extends_parseRaw _ (C07B_string_plainRef u _ hfr), hparse]
  exact hu'

/-! ### 4. `Query()` -/

/-- `Query()` of an accepted raw string is the list of its `&`-separated pieces that are kept
(non-empty, without ';', key and value unescape), decoded, grouped by key in order. -/
theorem C07B_query_spec (q : GoString) :
    Spec.goParseQuery q = Spec.groupPairs ((splitOn 38 q).filterMap Spec.pairEntry) :=
  goParseQuery_eq_group q

/-- Permuting the `&`-separated pieces of a query whose kept pieces have pairwise different
decoded names permutes the entries of the values map (each `name ↦ [value]`) and changes
nothing else. -/
theorem C07B_order (ps₁ ps₂ : List GoString) (hp : ps₁.Perm ps₂) (hne : ps₁ ≠ [])
    (hamp : ∀ p ∈ ps₁, (38 : UInt8) ∉ p)
    (hd : ((ps₁.filterMap Spec.pairEntry).map (·.1)).Nodup) :
    (Spec.goParseQuery (joinWith [38] ps₁)).Perm (Spec.goParseQuery (joinWith [38] ps₂)) :=
  goParseQuery_perm ps₁ ps₂ hp hne hamp hd

/-- The same at the level of the raw string `pre?p₁&…&pₙ` (no '#'): permuting differently
named pieces changes neither whether `url.Parse` accepts the string nor the path, and permutes
the values map. -/
theorem C07B_order_url (pre : GoString) (ps₁ ps₂ : List GoString) (hperm : ps₁.Perm ps₂)
    (hne : ps₁ ≠ []) (hamp : ∀ p ∈ ps₁, (38 : UInt8) ∉ p) (hhash : ∀ p ∈ ps₁, (35 : UInt8) ∉ p)
    (hd : ((ps₁.filterMap Spec.pairEntry).map (·.1)).Nodup)
    (h63 : (63 : UInt8) ∉ pre) (h35 : (35 : UInt8) ∉ pre) :
    (Spec.goUrlParse (pre ++ 63 :: joinWith [38] ps₁) = none ∧
      Spec.goUrlParse (pre ++ 63 :: joinWith [38] ps₂) = none) ∨
    ∃ path v₁ v₂, Spec.goUrlParse (pre ++ 63 :: joinWith [38] ps₁) = some (path, v₁) ∧
      Spec.goUrlParse (pre ++ 63 :: joinWith [38] ps₂) = some (path, v₂) ∧ v₁.Perm v₂ :=
  goUrlParse_perm pre ps₁ ps₂ hperm hne hamp hhash hd h63 h35

/-- the decode of the filter parameter reads the values map by lookup only -/
theorem C07B_rawFd_perm (labelDec filterDec : GoString → Option GoString)
    (v v' : GoMap (List GoString)) (hp : v.Perm v') (hnd : v.keys.Nodup) :
    rawFd labelDec filterDec v = rawFd labelDec filterDec v' := by
  unfold rawFd
  rw [DetL.get?_eq_of_perm hp hnd sFilter]

/-- End to end, from raw string to raw string: `NewURLFromRaw` on `pre?p₁&…&pₙ` and on the
same string with its differently named pieces permuted succeed or fail alike, and two
returned URLs have the same `String()` (for every decode of the filter parameter that reads
the values map by lookup, e.g. `rawFd`). -/
theorem C07B_raw_order (σ : Schema) (fdOf : GoMap (List GoString) → FilterDec)
    (hfd : ∀ v v' : GoMap (List GoString), v.Perm v' → v.keys.Nodup → fdOf v = fdOf v')
    (pre : GoString) (ps₁ ps₂ : List GoString) (hperm : ps₁.Perm ps₂)
    (hne : ps₁ ≠ []) (hamp : ∀ p ∈ ps₁, (38 : UInt8) ∉ p) (hhash : ∀ p ∈ ps₁, (35 : UInt8) ∉ p)
    (hd : ((ps₁.filterMap Spec.pairEntry).map (·.1)).Nodup)
    (h63 : (63 : UInt8) ∉ pre) (h35 : (35 : UInt8) ∉ pre) :
    (newURLFromRaw σ fdOf (pre ++ 63 :: joinWith [38] ps₁)).isOk =
      (newURLFromRaw σ fdOf (pre ++ 63 :: joinWith [38] ps₂)).isOk ∧
    ∀ u₁ u₂, newURLFromRaw σ fdOf (pre ++ 63 :: joinWith [38] ps₁) = .ok u₁ →
      newURLFromRaw σ fdOf (pre ++ 63 :: joinWith [38] ps₂) = .ok u₂ →
      u₁.fragments = u₂.fragments ∧ u₁.isCol = u₂.isCol ∧ u₁.resType = u₂.resType ∧
      u₁.resID = u₂.resID ∧ u₁.rel = u₂.rel ∧
      u₁.params.sortingRules = u₂.params.sortingRules ∧ u₁.params.incl = u₂.params.incl ∧
      ∀ env, u₁.string env = u₂.string env := by
  rcases C07B_order_url pre ps₁ ps₂ hperm hne hamp hhash hd h63 h35 with ⟨h1, h2⟩ | ⟨path, v₁, v₂, h1, h2, hp⟩
  · unfold newURLFromRaw
    rw [h1, h2]
    exact ⟨rfl, fun u₁ u₂ h => by cases h⟩
  · have hnd := C07B_values_nodup _ path v₁ h1
    unfold newURLFromRaw
    rw [h1, h2]
    simp only [Option.map_some]
    rw [← hfd v₁ v₂ hp hnd]
    refine ⟨C07_order_independent_isOk σ path v₁ v₂ _ hp hnd, ?_⟩
    intro u₁ u₂ e₁ e₂
    have := C07_order_independent σ path v₁ v₂ _ hp hnd u₁ u₂ e₁ e₂
    exact ⟨this.1, this.2.1, this.2.2.1, this.2.2.2.1, this.2.2.2.2.1, this.2.2.2.2.2.1,
      this.2.2.2.2.2.2.2.2.1, this.2.2.2.2.2.2.2.2.2.2.2.2.2.2.2⟩

/-! ### non-vacuity: concrete raw strings -/

/-- a plain collection URL with escapes in the path and in the query -/
example : Spec.goUrlParse (gs "/as/a%2Fb?sort=-name%2Cid&fields%5Bas%5D=x+y") =
    some (gs "/as/a/b", [(sSort, [gs "-name,id"]), (Spec.fieldsName (gs "as"), [gs "x y"])]) := by
  decide

/-- scheme, userinfo, host and port are validated and dropped; the fragment is cut off -/
example : Spec.goUrlParse (gs "HTTP://u:p@example.com:80/as/1?include=many&include=r#top") =
    some (gs "/as/1", [(sInclude, [gs "many", gs "r"])]) := by decide

/-- an IPv6 literal with a zone; an opaque URL keeps its query and has no path -/
example : Spec.goUrlParse (gs "x://[fe80::1%25en0]:8080/p") = some (gs "/p", []) := by decide
example : Spec.goUrlParse (gs "mailto:as?sort=id") = some ([], [(sSort, [gs "id"])]) := by decide

/-- an invalid escape: in the path (or the host, the userinfo, the fragment) `url.Parse`
fails; in the query only the piece is dropped -/
example : Spec.goUrlParse (gs "/as%zz") = none := by decide
example : Spec.goUrlParse (gs "/as#%zz") = none := by decide
example : Spec.goUrlParse (gs "//h%41/as") = none := by decide
example : Spec.goUrlParse (gs "/as?a=%zz&b=1&%zz=2") = some (gs "/as", [(gs "b", [gs "1"])]) := by
  decide

/-- a piece with a ';' is dropped whole (Go ≥ 1.17), the others are kept -/
example : Spec.goUrlParse (gs "/as?a=1;b=2&c=3") = some (gs "/as", [(gs "c", [gs "3"])]) := by
  decide

/-- a colon in the first segment of a relative reference, a port that is not a number, a
missing ']' and a leading ':' are errors; a control byte is one except in the fragment -/
example : Spec.goUrlParse (gs "1a:b") = none := by decide
example : Spec.goUrlParse (gs "//h:80x/as") = none := by decide
example : Spec.goUrlParse (gs "//[::1/as") = none := by decide
example : Spec.goUrlParse (gs ":as") = none := by decide
example : Spec.goUrlParse [47, 97, 115, 9] = none := by decide
example : Spec.goUrlParse [47, 97, 115, 35, 9] = some (gs "/as", []) := by decide

/-- `parse`'s special case `"*"` is the general path -/
example : Spec.goUrlParse (gs "*") = some (gs "*", []) := by decide

/-- the whole `NewURLFromRaw` on raw strings, against the schema of Props/C07.lean (one type
"t" with the attribute "-x"): with scheme and host; rejected by net/url; rejected by the
library (unknown parameter) -/
example : (newURLFromRaw c07_σ (rawFd labelDec (filterDec id)) (gs "https://example.com/t?sort=id#f")).isOk
    = true := by decide
example : (newURLFromRaw c07_σ (rawFd labelDec (filterDec id)) (gs "/t%zz")).isOk = false := by decide
example : (newURLFromRaw c07_σ (rawFd labelDec (filterDec id)) (gs "/t?bogus=1")).isOk = false := by
  decide
/-- … and the dropped piece is not seen by the library: `bogus=1;x` does not make it fail -/
example : (newURLFromRaw c07_σ (rawFd labelDec (filterDec id)) (gs "/t?bogus=1;x")).isOk = true := by
  decide

/-- `plainRef` holds of what `String()` writes and fails with a scheme -/
example : Spec.plainRef (gs "/as?fields%5Bas%5D=x&sort=x%2Cid") = true := by decide
example : Spec.plainRef (gs "http://h/as") = false := by decide

/-- `C07B_order` applies: `b=2&a=1&c` and a permutation of it -/
example : (Spec.goParseQuery (gs "b=2&a=1&c")).Perm (Spec.goParseQuery (gs "c&b=2&a=1")) :=
  C07B_order [gs "b=2", gs "a=1", gs "c"] [gs "c", gs "b=2", gs "a=1"]
    (by decide) (by decide) (by decide) (by decide)

end Jsonapi

section Axioms
open Jsonapi
#print axioms C07B_total
#print axioms C07B_total_real
#print axioms C07B_parse_error
#print axioms C07B_values_nodup
#print axioms C07B_parsed
#print axioms C07B_consistent
#print axioms C07B_sort_names
#print axioms C07B_order_independent
#print axioms C07B_extends_parseRaw
#print axioms C07B_raw_eq_reparse
#print axioms C07B_rawFd_eq
#print axioms C07B_parseRaw_differs
#print axioms C07B_fragments_nonempty
#print axioms C07B_string_plainRef
#print axioms C07B_parse_string
#print axioms C07B_reparse
#print axioms C07B_query_spec
#print axioms C07B_order
#print axioms C07B_order_url
#print axioms C07B_rawFd_perm
#print axioms C07B_raw_order
end Axioms
