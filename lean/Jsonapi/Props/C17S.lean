/-
C17S — a SoftResource whose type is edited while it holds values behaves as a plain map
from the current type's field names to values.

Under ANY sequence of `Set(k, v)`, `AddAttr(a)`, `AddRel(r)`, `RemoveField(f)`, `SetType(t')`
the model `Soft` (soft_resource.go: lazy `check()` that zero-fills the fields without a value
and prunes the values of names that are no field only when there are more values than fields;
type edits that leave stale values behind until the next `check()`) refines the plain map
`Spec.SoftSt` of Spec/SoftEdit.lean, whose step is written without `check`: a field gets its
zero value when it (re)appears; a `Set` of an acceptable value replaces, any other `Set` is
ignored; `AddAttr`/`AddRel` of a taken name is a no-op; `RemoveField` drops name and value;
`SetType t'` keeps the value of every name that is a field of both the old and the new type
and gives every other field of `t'` its zero value. The Go-side oracle of the same statement
is the `expect` map of harness/suite_resource.go ("a soft resource whose type is edited while
it holds values").

Definitions (Spec/SoftEdit.lean): `SoftOp`, `Soft.apply`, `Soft.run`, `Spec.SoftSt` with
`step` / `run` / `get` / `ofSoft`, the domain `SoftOp.ok` / `SoftHistOk` (decidable), the
abstraction relation `SoftAbs` (the invariant of every reachable state) and `SoftTyped`.
Helper lemmas: Proofs/SoftEditLemmas.lean. Property theorems only here.

Domain (`SoftOp.ok`, evaluated for the type current when the operation is issued):
* the start type is well-formed (`TypWF`) and none of its fields is called "id" or ""
  (`Spec.namesOk`, as in C17);
* `AddAttr a` / `AddRel r`: the name is not "id";
* `SetType t'`: `t'` is keyed (`TypKeyed`: map key = stored name, attribute and relationship
  names disjoint - the part of `TypWF` that `check()`'s counting argument needs; see the
  report of what the real code does outside), none of its fields is called "id", and a field
  name kept by SetType keeps its definition (`Compat`, the C19 domain decision);
* `Set` with any key and any value (ill-typed ones are ignored) and `RemoveField` of any name
  (a name that is no field included) are unrestricted.
Outside the domain the real code is no plain map (run on the real SoftResource): after
SetType to a type whose map key "x" holds an attribute named "y", `Set("x", v)` is lost at the
next `check()` and both names read nil; after SetType to a type where "a" is an attribute and a
relationship, `fields()` counts "a" twice, the stale value of a dropped field "b" survives the
pruning test and a later `AddAttr(b int)` reads the old string; an attribute called "id" can
never be read (`Get("id")` is the ID) and `Set("id", 5)` resets the ID to "".
What is NOT assumed: that the start resource's stored values are keyed by fields of its type
(`check()` prunes the others before anything can see them: `C17S_refines` holds without it);
`Compat` is not needed for the refinement of reads either (a kept name keeps its stored value
whatever its new definition) - it is what makes every value read well-typed for the current
definition of its field (`C17S_typed`).
-/
import Jsonapi.Proofs.SoftEditLemmas
namespace Jsonapi
open Spec GoMap

/-! ### 1. Refinement -/

/-- One operation in the domain, from related states: related again. -/
theorem C17S_step (s : Soft) (σ : Spec.SoftSt) (h : SoftAbs s σ) (op : SoftOp) (hop : op.ok σ.typ) :
    SoftAbs (s.apply op) (σ.step op) :=
  h.step hop

/-- What the relation says about reads: the resource and the plain map agree on every name;
every field of the current type reads exactly the map's value for it; every other name
but "id" reads nil and is no key of the map; "id" reads the ID; the type (name, attribute
and relationship definitions, hence the field list) is the map's, also as seen through the
Resource interface. -/
theorem C17S_reads (s : Soft) (σ : Spec.SoftSt) (h : SoftAbs s σ) :
    (∀ f, s.get f = σ.get f) ∧
    (∀ f, isField σ.typ f = true → σ.vals.get? f = some (s.get f)) ∧
    (∀ f, f ≠ idName → isField σ.typ f = false → s.get f = .nil ∧ σ.vals.get? f = none) ∧
    s.get idName = .val .string (.s σ.id) ∧
    s.typ = σ.typ ∧ s.view.typeName = σ.typ.name ∧ s.view.attrs = σ.typ.attrs ∧
    s.view.rels = σ.typ.rels ∧ s.view.vals.keys = σ.typ.attrs.keys ++ σ.typ.rels.keys := by
  refine ⟨h.get, ?_, ?_, ?_, h.typ, ?_, ?_, ?_, ?_⟩
  · intro f hf
    have hid : f ≠ idName := fun e => by rw [e, h.noId] at hf; cases hf
    rw [h.get f]
    unfold Spec.SoftSt.get
    rw [if_neg hid, h.vals f, if_pos hf]
    rfl
  · intro f hid hf
    have hv : σ.vals.get? f = none := by rw [h.vals f, hf]; rfl
    refine ⟨?_, hv⟩
    rw [h.get f]
    unfold Spec.SoftSt.get
    rw [if_neg hid, hv]
    rfl
  · rw [Soft.get_id, h.id]
  · show s.typ.name = σ.typ.name
    rw [h.typ]
  · show s.typ.attrs = σ.typ.attrs
    rw [h.typ]
  · show s.typ.rels = σ.typ.rels
    rw [h.typ]
  · rw [← h.typ]
    simp [Soft.view, GoMap.keys, List.map_map, Function.comp_def]

/-- Any operation list in the domain, from related states: the final states are related
(so everything `C17S_reads` says holds in every reachable state). -/
theorem C17S_refines_from (s : Soft) (σ : Spec.SoftSt) (h : SoftAbs s σ) (ops : List SoftOp)
    (hok : SoftHistOk σ ops) :
    SoftAbs (s.run ops) (σ.run ops) :=
  h.run hok

/-- A resource as it is found, of a keyed type without a field called "id", against the
plain map that gives every field its stored value, else its zero value. No condition on the
names the resource stores values under. -/
theorem C17S_init (s : Soft) (hk : TypKeyed s.typ) (hid : isField s.typ idName = false) :
    SoftAbs s (Spec.SoftSt.ofSoft s) :=
  SoftAbs.ofSoft s hk hid

/-- The refinement theorem. For every start resource of a well-formed type whose field
names are ok (C17's hypotheses; whatever values it stores) and every operation list in the
domain: after the run, `Get` of every field of the current type is the plain map's value,
every other name but "id" reads nil, the type name and the field list are the plain map's,
and the invariant `SoftAbs` holds again - so the statement covers every reachable state. -/
theorem C17S_refines (s0 : Soft) (ht : TypWF s0.typ) (hn : Spec.namesOk s0.typ = true)
    (ops : List SoftOp) (hok : SoftHistOk (Spec.SoftSt.ofSoft s0) ops) :
    (∀ f, isField ((Spec.SoftSt.ofSoft s0).run ops).typ f = true →
      ((Spec.SoftSt.ofSoft s0).run ops).vals.get? f = some ((s0.run ops).get f)) ∧
    (∀ f, f ≠ idName → isField ((Spec.SoftSt.ofSoft s0).run ops).typ f = false →
      (s0.run ops).get f = .nil ∧ ((Spec.SoftSt.ofSoft s0).run ops).vals.get? f = none) ∧
    (s0.run ops).get idName = .val .string (.s ((Spec.SoftSt.ofSoft s0).run ops).id) ∧
    (s0.run ops).typ = ((Spec.SoftSt.ofSoft s0).run ops).typ ∧
    (s0.run ops).view.typeName = ((Spec.SoftSt.ofSoft s0).run ops).typ.name ∧
    (s0.run ops).view.vals.keys =
      ((Spec.SoftSt.ofSoft s0).run ops).typ.attrs.keys ++ ((Spec.SoftSt.ofSoft s0).run ops).typ.rels.keys ∧
    SoftAbs (s0.run ops) ((Spec.SoftSt.ofSoft s0).run ops) := by
  have hid : isField s0.typ idName = false := by
    rw [isField_false_iff]
    have hno : idName ∉ s0.typ.fieldKeys := fun hm => (namesOk_mem hn hm).1 rfl
    exact ⟨fun hm => hno (List.mem_append_left _ hm), fun hm => hno (List.mem_append_right _ hm)⟩
  have h := C17S_refines_from s0 _ (C17S_init s0 ht.keyed hid) ops hok
  obtain ⟨_, r2, r3, r4, r5, r6, _, _, r9⟩ := C17S_reads _ _ h
  exact ⟨r2, r3, r4, r5, r6, r9, h⟩

/-- Every value of the plain map (hence every value read from a field, `C17S_reads`) is
acceptable for the current definition of its field, or is that definition's zero value, in
every reachable state: this is what `Compat` ("a name kept by SetType keeps its definition")
buys. The start state of a resource that stores nothing satisfies it (`SoftTyped.ofSoft_empty`). -/
theorem C17S_typed (s : Soft) (σ : Spec.SoftSt) (h : SoftAbs s σ) (hty : SoftTyped σ)
    (ops : List SoftOp) (hok : SoftHistOk σ ops) :
    ∀ f, isField (σ.run ops).typ f = true →
      accepts (σ.run ops).typ f ((s.run ops).get f) = true ∨
      (s.run ops).get f = fieldZero (σ.run ops).typ f := by
  intro f hf
  have h' := h.run hok
  have hv := (C17S_reads _ _ h').2.1 f hf
  exact SoftTyped.run h hty hok f _ hv

/-! ### 2. Corollaries, on the model alone

They hold for every resource whose type is keyed - by `C17S_refines_from` every reachable
state - and need no operation history. -/

/-- Reading after a type edit that leaves the status of the name alone. -/
theorem Soft.get_retyped_same {t t' : Typ} (ht : TypKeyed t) (ht' : TypKeyed t') (id : GoString)
    (d : GoMap GoVal) (f : GoString) (h : isField t' f = isField t f) :
    ({ typ := t', id := id, data := Soft.checkData t d } : Soft).get f =
      ({ typ := t, id := id, data := d } : Soft).get f := by
  rw [Soft.get_retyped ht ht', Soft.get_eq ht, h]
  by_cases h0 : f = idName
  · simp [h0]
  · by_cases hf : isField t f = true <;> simp [h0, hf]

/-- `AddAttr` of a free name: the new attribute reads its zero value, every other name
reads what it read before (and is a field iff it was). -/
theorem C17S_addAttr_zero (s : Soft) (hk : TypKeyed s.typ) (a : Attr) (hid : a.name ≠ idName)
    (hfresh : isField s.typ a.name = false) :
    isField (s.addAttr a).typ a.name = true ∧ (s.addAttr a).get a.name = a.zero ∧
    ∀ f, f ≠ a.name → isField (s.addAttr a).typ f = isField s.typ f ∧ (s.addAttr a).get f = s.get f := by
  obtain ⟨t, id, d⟩ := s
  simp only [] at hk hfresh
  rw [Soft.addAttr_eq hk]
  simp only [hfresh, Bool.false_eq_true, if_false]
  have hk' := hk.setAttr hfresh
  refine ⟨isField_setAttr a, ?_, ?_⟩
  · rw [Soft.get_retyped hk hk', if_neg hid, if_pos (isField_setAttr a), hfresh]
    simp only [Bool.false_eq_true, if_false]
    exact fieldZero_setAttr a
  · intro f hf
    have e : isField { t with attrs := t.attrs.set a.name a } f = isField t f := by
      rw [isField_addAttr]; simp [hf]
    exact ⟨e, Soft.get_retyped_same hk hk' id d f e⟩

/-- `AddAttr` of a taken name (attribute or relationship): nothing happens. -/
theorem C17S_addAttr_taken (s : Soft) (hk : TypKeyed s.typ) (a : Attr)
    (htaken : isField s.typ a.name = true) :
    (s.addAttr a).typ = s.typ ∧ ∀ f, (s.addAttr a).get f = s.get f := by
  obtain ⟨t, id, d⟩ := s
  simp only [] at hk htaken
  rw [Soft.addAttr_eq hk, if_pos htaken]
  exact ⟨rfl, fun f => Soft.get_retyped_same hk hk id d f rfl⟩

/-- `AddRel` of a free name: the new relationship reads its zero value ("" / empty list). -/
theorem C17S_addRel_zero (s : Soft) (hk : TypKeyed s.typ) (r : Rel) (hid : r.fromName ≠ idName)
    (hfresh : isField s.typ r.fromName = false) :
    isField (s.addRel r).typ r.fromName = true ∧ (s.addRel r).get r.fromName = r.zero ∧
    ∀ f, f ≠ r.fromName → isField (s.addRel r).typ f = isField s.typ f ∧ (s.addRel r).get f = s.get f := by
  obtain ⟨t, id, d⟩ := s
  simp only [] at hk hfresh
  rw [Soft.addRel_eq hk]
  simp only [hfresh, Bool.false_eq_true, if_false]
  have hk' := hk.setRel hfresh
  refine ⟨isField_setRel r, ?_, ?_⟩
  · rw [Soft.get_retyped hk hk', if_neg hid, if_pos (isField_setRel r), hfresh]
    simp only [Bool.false_eq_true, if_false]
    exact fieldZero_setRel r hfresh
  · intro f hf
    have e : isField { t with rels := t.rels.set r.fromName r } f = isField t f := by
      rw [isField_addRel]; simp [hf]
    exact ⟨e, Soft.get_retyped_same hk hk' id d f e⟩

/-- `RemoveField`: the name is no field any more and reads nil; every other name reads what
it read before (and is a field iff it was). Also for a name that was no field. -/
theorem C17S_removeField (s : Soft) (hk : TypKeyed s.typ) (f0 : GoString) :
    isField (s.removeField f0).typ f0 = false ∧
    (f0 ≠ idName → (s.removeField f0).get f0 = .nil) ∧
    ∀ f, f ≠ f0 → isField (s.removeField f0).typ f = isField s.typ f ∧
      (s.removeField f0).get f = s.get f := by
  obtain ⟨t, id, d⟩ := s
  simp only [] at hk
  rw [Soft.removeField_eq]
  have hk' := hk.without f0
  have h0 : isField (t.without f0) f0 = false := by rw [isField_without]; simp
  refine ⟨h0, ?_, ?_⟩
  · intro hid
    rw [Soft.get_retyped hk hk', if_neg hid, h0]
    rfl
  · intro f hf
    have e : isField (t.without f0) f = isField t f := by rw [isField_without]; simp [hf]
    exact ⟨e, Soft.get_retyped_same hk hk' id d f e⟩

/-- `SetType`: a name that is a field of the old and of the new type keeps its value -
also across two `SetType` calls in a row with nothing reading the resource in between (the
second call's `check()` runs against the first call's type). -/
theorem C17S_setType_kept (s : Soft) (hk : TypKeyed s.typ) (t1 : Typ) (h1 : TypKeyed t1)
    (f : GoString) (hf : isField s.typ f = true) (hf1 : isField t1 f = true) :
    (s.setType t1).get f = s.get f ∧
    ∀ t2, TypKeyed t2 → isField t2 f = true → ((s.setType t1).setType t2).get f = s.get f := by
  obtain ⟨t, id, d⟩ := s
  simp only [] at hk hf
  have e1 : ({ typ := t, id := id, data := d } : Soft).setType t1 =
      { typ := t1, id := id, data := Soft.checkData t d } := rfl
  have k1 : ({ typ := t1, id := id, data := Soft.checkData t d } : Soft).get f =
      ({ typ := t, id := id, data := d } : Soft).get f :=
    Soft.get_retyped_same hk h1 id d f (by rw [hf, hf1])
  rw [e1]
  refine ⟨k1, ?_⟩
  intro t2 h2 hf2
  rw [Soft.setType_eq, ← k1]
  exact Soft.get_retyped_same h1 h2 id _ f (by rw [hf1, hf2])

/-- `SetType`: a field of the new type that was no field reads its zero value; and across
two `SetType` calls in a row, a field of the second type that is no field of the first reads
its zero value (whether or not the resource had a field of that name before the first). -/
theorem C17S_setType_fresh (s : Soft) (hk : TypKeyed s.typ) (t1 : Typ) (h1 : TypKeyed t1)
    (f : GoString) (hid : f ≠ idName) :
    (isField s.typ f = false → isField t1 f = true → (s.setType t1).get f = fieldZero t1 f) ∧
    (∀ t2, TypKeyed t2 → isField t1 f = false → isField t2 f = true →
      ((s.setType t1).setType t2).get f = fieldZero t2 f) := by
  obtain ⟨t, id, d⟩ := s
  simp only [] at hk
  constructor
  · intro hf hf1
    simp only [] at hf
    rw [Soft.setType_eq, Soft.get_retyped hk h1, if_neg hid, if_pos hf1, hf]
    rfl
  · intro t2 h2 hf1 hf2
    rw [Soft.setType_eq, Soft.setType_eq, Soft.get_retyped h1 h2, if_neg hid, if_pos hf2, hf1]
    rfl

/-- `Set` on any keyed resource - in particular right after any type edit: an acceptable
value for a field is read back (`Spec.stored`: the value itself; the typed nil for an untyped
nil given to a nullable attribute) and every other name reads what it read before; a value
that is not acceptable changes no read. -/
theorem C17S_set_get (s : Soft) (hk : TypKeyed s.typ) (k : GoString) (v : GoVal) (hid : k ≠ idName) :
    (accepts s.typ k v = true →
      (s.set k v).get k = stored s.typ k v ∧ ∀ f, f ≠ k → (s.set k v).get f = s.get f) ∧
    (accepts s.typ k v = false → ∀ f, (s.set k v).get f = s.get f) ∧
    (s.set k v).typ = s.typ := by
  obtain ⟨t, id, d⟩ := s
  simp only [] at hk
  rw [Soft.set_eq t id d k v hid]
  refine ⟨?_, ?_, rfl⟩
  · intro hacc
    simp only [hacc, if_true]
    have hkf := accepts_isField hacc
    constructor
    · rw [Soft.get_eq hk, if_neg hid, if_pos hkf, get?_set_self]; rfl
    · intro f hf
      rw [Soft.get_eq hk, Soft.get_eq hk, get?_set_ne _ _ _ _ hf]
      by_cases h0 : f = idName
      · simp [h0]
      · by_cases hff : isField t f = true
        · simp only [h0, if_false, hff, if_true]
          rw [Soft.checkData_get? hk d f, if_pos hff]; rfl
        · simp [h0, hff]
  · intro hacc f
    simp only [hacc, Bool.false_eq_true, if_false]
    exact Soft.get_retyped_same hk hk id d f rfl

/-- `Set` after any operation of the domain, from any reachable state: the value is read
back iff the field's *current* definition accepts it. -/
theorem C17S_set_after_edit (s : Soft) (σ : Spec.SoftSt) (h : SoftAbs s σ) (op : SoftOp)
    (hop : op.ok σ.typ) (k : GoString) (v : GoVal) (hid : k ≠ idName) :
    (accepts (σ.step op).typ k v = true →
      ((s.apply op).set k v).get k = stored (σ.step op).typ k v ∧
      ∀ f, f ≠ k → ((s.apply op).set k v).get f = (s.apply op).get f) ∧
    (accepts (σ.step op).typ k v = false → ∀ f, ((s.apply op).set k v).get f = (s.apply op).get f) := by
  have h1 := h.step hop
  have hk : TypKeyed (s.apply op).typ := by rw [h1.typ]; exact h1.keyed
  obtain ⟨r1, r2, _⟩ := C17S_set_get (s.apply op) hk k v hid
  rw [h1.typ] at r1 r2
  exact ⟨r1, r2⟩

/-- The instance the oracle exercises most: a freshly added attribute, then a `Set` of a
value of its declared Go type: the value is read back, all other names are untouched. -/
theorem C17S_set_after_addAttr (s : Soft) (hk : TypKeyed s.typ) (a : Attr) (hid : a.name ≠ idName)
    (hfresh : isField s.typ a.name = false) (v : GoVal) (hv : v.attrType = (a.ty, a.nullable)) :
    ((s.addAttr a).set a.name v).get a.name = v ∧
    ∀ f, f ≠ a.name → ((s.addAttr a).set a.name v).get f = s.get f := by
  obtain ⟨_, _, hrest⟩ := C17S_addAttr_zero s hk a hid hfresh
  have hty : (s.addAttr a).typ = { s.typ with attrs := s.typ.attrs.set a.name a } := by
    obtain ⟨t, id, d⟩ := s
    simp only [] at hk hfresh
    rw [Soft.addAttr_eq hk]
    simp only [hfresh, Bool.false_eq_true, if_false]
  have hk' : TypKeyed (s.addAttr a).typ := by rw [hty]; exact hk.setAttr hfresh
  have hacc : accepts (s.addAttr a).typ a.name v = true := by
    rw [hty]; unfold accepts; simp only [get?_set_self, hv, decide_true, Bool.true_or]
  have hst : stored (s.addAttr a).typ a.name v = v := by
    rw [hty]; unfold stored; simp only [get?_set_self, hv, ne_eq, not_true_eq_false, decide_false,
      Bool.and_false, Bool.false_eq_true, if_false]
  obtain ⟨r1, _, _⟩ := C17S_set_get (s.addAttr a) hk' a.name v hid
  obtain ⟨g1, g2⟩ := r1 hacc
  exact ⟨g1.trans hst, fun f hf => (g2 f hf).trans (hrest f hf).2⟩

/-! ### 3. Non-vacuity: a concrete resource and operation list inside the domain -/

/-- Type "t" with an int attribute "a" and a string attribute "b". -/
def C17S_exT : Typ :=
  { name := [116],
    attrs := [([97], { name := [97], ty := 2, nullable := false }),
              ([98], { name := [98], ty := 1, nullable := false })],
    rels := [] }

/-- The new type: "a" kept with the same definition, "b" renamed to "c". -/
def C17S_exT' : Typ :=
  { name := [116],
    attrs := [([97], { name := [97], ty := 2, nullable := false }),
              ([99], { name := [99], ty := 1, nullable := false })],
    rels := [] }

def C17S_exS : Soft := { typ := C17S_exT, id := [], data := [] }

/-- a := 7, b := "x", an ill-typed Set (a := "x", ignored), SetType to the new type. (The
example below goes on with c := "y", RemoveField a and AddAttr a again: a reads zero, not 7.)
The real SoftResource gives the same reads on this list. -/
def C17S_exOps : List SoftOp :=
  [.set [97] (.val .int (.i 7)), .set [98] (.val .string (.s [120])), .set [97] (.val .string (.s [120])),
   .setType C17S_exT']

example :
    SoftHistOk (Spec.SoftSt.ofSoft C17S_exS) C17S_exOps ∧ Spec.namesOk C17S_exS.typ = true ∧
    -- after the run: the kept name reads its value, the renamed one its zero value, the old name nil
    (C17S_exS.run C17S_exOps).get [97] = .val .int (.i 7) ∧
    (C17S_exS.run C17S_exOps).get [99] = .val .string (.s []) ∧
    (C17S_exS.run C17S_exOps).get [98] = .nil ∧
    ((Spec.SoftSt.ofSoft C17S_exS).run C17S_exOps).vals =
      [([97], .val .int (.i 7)), ([99], .val .string (.s []))] ∧
    -- the stale value of "b" is still in the model's data at this point (no check() ran since)
    (C17S_exS.run C17S_exOps).data.get? [98] = some (.val .string (.s [120])) ∧
    -- going on: c := "y"; RemoveField a; AddAttr a (same definition): a reads zero, not 7
    SoftHistOk (Spec.SoftSt.ofSoft C17S_exS)
      (C17S_exOps ++ [.set [99] (.val .string (.s [121])), .removeField [97],
        .addAttr { name := [97], ty := 2, nullable := false }]) ∧
    ((C17S_exS.run (C17S_exOps ++ [.set [99] (.val .string (.s [121])), .removeField [97],
        .addAttr { name := [97], ty := 2, nullable := false }])).get [97] = .val .int (.i 0)) ∧
    ((C17S_exS.run (C17S_exOps ++ [.set [99] (.val .string (.s [121])), .removeField [97],
        .addAttr { name := [97], ty := 2, nullable := false }])).get [99] = .val .string (.s [121])) := by
  decide

theorem C17S_exT_wf : TypWF C17S_exT :=
  ⟨by decide, by decide, by decide, by decide, by decide⟩

/-- The refinement theorem applies to the example. -/
example := C17S_refines C17S_exS C17S_exT_wf (by decide) C17S_exOps (by decide)
example := C17S_typed C17S_exS _ (C17S_init C17S_exS C17S_exT_wf.keyed (by decide))
  (SoftTyped.ofSoft_empty _ _) C17S_exOps (by decide)

end Jsonapi

section Axioms
open Jsonapi
#print axioms C17S_step
#print axioms C17S_reads
#print axioms C17S_refines_from
#print axioms C17S_init
#print axioms C17S_refines
#print axioms C17S_typed
#print axioms C17S_addAttr_zero
#print axioms C17S_addAttr_taken
#print axioms C17S_addRel_zero
#print axioms C17S_removeField
#print axioms C17S_setType_kept
#print axioms C17S_setType_fresh
#print axioms C17S_set_get
#print axioms C17S_set_after_edit
#print axioms C17S_set_after_addAttr
#print axioms C17S_exT_wf
end Axioms
