/-
C02 — Marshaling a document and unmarshaling it again yields the same document.

"For every document whose primary data is null, a resource, a collection, an identifier or a
list of identifiers, marshaling it and unmarshaling the bytes against the same schema yields a
document with the same kind of primary data - the same resources in the same order with the
same types, IDs and selected field values - the same included resources and JSON-equal
top-level meta. A document carrying errors comes back with the same error objects in the same
order and without data."

How the pieces fit (as for C01):
* the marshaling side is the JSON tree `Spec.documentTree` (C04_document: the model's
  `marshalDocument` returns exactly that tree when every resource is `keyedWf`);
* `Spec.docSkeletonOf c t` is the payload skeleton `encoding/json` decodes from the tree `t`
  (`data` absent / null / object / array; error objects through `Spec.errorOfJson`; for every
  included value whether it decodes into an Identifier, and its resource skeleton; the meta
  members), with the delegated decoders `c : Spec.Codecs` of C01;
* the unmarshaling side is the model's `unmarshalDocument` on that skeleton.

What comes back for one resource is the round trip of C01 for an arbitrary selection
(`C01_roundtrip_selection`): `RtL.ResBack` (unfolded in `C02_ResBack_def`) — same type name and
ID; the attributes selected by the URL's `fields` entry of the resource's type and the selected
relationships whose data the document requests come back with the same value (`Spec.sameVal`);
every other field reads its zero value. An identifier comes back as a resource of its type
with that ID and all fields zero (`RtL.IdentBack`): the library has no other representation
for it on the unmarshaling side.

Domain (`RtL.DocDom`, unfolded in `C02_DocDom_def`): every resource of the document, primary or
included, is a resource of some type of the schema in the domain of C01; the types named by
identifiers exist in the schema. Error objects: the `links` map is represented with its keys
in ascending order (`Spec.linksSorted`; a Go map has no order, reading back produces this one).
-/
import Jsonapi.Proofs.RoundTripLemmas6
import Jsonapi.Props.C01
namespace Jsonapi
open GoMap UnmL MarshalL RtL

/-! ### Definitions used in the statements -/

theorem C02_ResBack_def (σ : SSchema) (fields relData : GoMap (List GoString)) (r : ResView)
    (x : AnyRes) :
    ResBack σ fields relData r x ↔
      ∃ st ∈ σ, st.typ.name = r.typeName ∧ ∃ v', x.view? = some v' ∧
        v'.typeName = r.typeName ∧ v'.id = r.id ∧
        (∀ f ∈ r.attrs.keys, f ∈ Spec.selection fields r.typeName → Spec.sameVal (v'.get f) (r.get f)) ∧
        (∀ f ∈ r.rels.keys, f ∈ Spec.selection fields r.typeName →
          f ∈ (relData.get? r.typeName).getD [] → Spec.sameVal (v'.get f) (r.get f)) ∧
        (∀ f ∈ r.attrs.keys ++ r.rels.keys,
          (f ∉ Spec.selection fields r.typeName ∨
            (f ∈ r.rels.keys ∧ f ∉ (relData.get? r.typeName).getD [])) →
          Spec.canon (v'.get f) = Spec.zeroOf st.typ f) :=
  Iff.rfl

theorem C02_IdentBack_def (σ : SSchema) (id typ : GoString) (x : AnyRes) :
    IdentBack σ id typ x ↔
      ∃ st ∈ σ, st.typ.name = typ ∧ ∃ v, x.view? = some v ∧ v.typeName = typ ∧ v.id = id ∧
        ∀ f ∈ st.typ.attrs.keys ++ st.typ.rels.keys, Spec.canon (v.get f) = Spec.zeroOf st.typ f :=
  Iff.rfl

theorem C02_DocDom_def (c : Spec.Codecs) (σ : SSchema) (doc : Document) :
    DocDom c σ doc ↔
      (∀ r ∈ docResources doc, ∃ st ∈ σ, ResDom c st r) ∧
      (∀ id typ, doc.data = .ident id typ → ∃ st ∈ σ, st.typ.name = typ) ∧
      (∀ b l, doc.data = .idents b l → ∀ p ∈ l, ∃ st ∈ σ, st.typ.name = p.2) :=
  ⟨fun h => ⟨h.res, h.ident, h.idents⟩, fun ⟨h1, h2, h3⟩ => ⟨h1, h2, h3⟩⟩

/-- the resources of a document: primary data (one resource or the members of a collection)
and the included resources -/
theorem C02_docResources_def (doc : Document) :
    docResources doc =
      (match doc.data with | .res r => [r] | .col _ ms => ms | _ => []) ++ doc.included := by
  unfold docResources docPrimary
  cases doc.data <;> rfl

theorem C02_forall2_length {α β : Type} {R : α → β → Prop} {l₁ : List α} {l₂ : List β}
    (h : Forall2 R l₁ l₂) : l₁.length = l₂.length := by
  induction h with
  | nil => rfl
  | cons _ _ ih => simp [ih]

/-! ### 1. Error documents -/

/-- `Spec.errorOfJson` inverts `Error.MarshalJSON` (every member, empty members omitted and
read back as empty; the links map in ascending key order). -/
theorem C02_error_object (e : ErrorObj) (hs : Spec.linksSorted e) :
    Spec.errorOfJson e.toJson = e :=
  errorOfJson_toJson e hs

/-- A document carrying errors comes back with the same error objects in the same order,
without data (and without included resources); its meta comes back too. No hypothesis on the
schema or on the document's data / included resources (they are not marshaled). -/
theorem C02_errors (c : Spec.Codecs) (σ : SSchema) (doc : Document) (fields : GoMap (List GoString))
    (selfHref : GoString) (t : Json) (ht : Spec.documentTree doc fields selfHref = some t)
    (he : doc.errors ≠ []) (hs : ∀ e ∈ doc.errors, Spec.linksSorted e) :
    unmarshalDocument σ (some (Spec.docSkeletonOf c t)) =
      .ok { data := .none, included := [], errors := doc.errors, dmeta := doc.dmeta } :=
  errors_roundtrip c σ ht he hs

/-! ### 2. Top-level meta -/

/-- Whatever else the document holds: if the marshaled document is accepted, its top-level
meta members are the document's, unchanged and in the same order. -/
theorem C02_meta (c : Spec.Codecs) (σ : SSchema) (doc : Document) (fields : GoMap (List GoString))
    (selfHref : GoString) (t : Json) (ht : Spec.documentTree doc fields selfHref = some t)
    (d : UDoc) (h : unmarshalDocument σ (some (Spec.docSkeletonOf c t)) = .ok d) :
    d.dmeta = doc.dmeta := by
  rw [(unmarshalDocument_ok h).2.1]
  exact docSke_dmeta c ht

/-! ### 3. Data documents -/

/-- The whole round trip of a document without errors: it is accepted; the primary data comes
back with the same kind (`RtL.DataBack`, spelled out in `C02_data_kind`); the included
resources come back as the round trips of `sortById doc.included`, in that order; no errors;
the same meta. -/
theorem C02_roundtrip (c : Spec.Codecs) (σ : SSchema) (hσ : σ.WF) (doc : Document)
    (hdom : DocDom c σ doc) (he : doc.errors = []) (fields : GoMap (List GoString))
    (selfHref : GoString) (t : Json) (ht : Spec.documentTree doc fields selfHref = some t) :
    ∃ d, unmarshalDocument σ (some (Spec.docSkeletonOf c t)) = .ok d ∧
      DataBack σ fields doc.relData doc.data d.data ∧
      Forall2 (ResBack σ fields doc.relData) (sortById doc.included) d.included ∧
      d.errors = [] ∧ d.dmeta = doc.dmeta :=
  document_roundtrip c σ hσ doc hdom he fields selfHref t ht

/-- The same kind of primary data: null ↦ no data; a resource ↦ that resource; a collection ↦
a collection of the same length whose members are the round trips of the members, in order;
an identifier ↦ an empty resource with that type and ID; identifiers ↦ a collection of such. -/
theorem C02_data_kind (c : Spec.Codecs) (σ : SSchema) (hσ : σ.WF) (doc : Document)
    (hdom : DocDom c σ doc) (he : doc.errors = []) (fields : GoMap (List GoString))
    (selfHref : GoString) (t : Json) (ht : Spec.documentTree doc fields selfHref = some t) :
    ∃ d, unmarshalDocument σ (some (Spec.docSkeletonOf c t)) = .ok d ∧ d.errors = [] ∧
      (doc.data = .none → d.data = .none) ∧
      (∀ r, doc.data = .res r → ∃ x, d.data = .res x ∧ ResBack σ fields doc.relData r x) ∧
      (∀ tn ms, doc.data = .col tn ms → ∃ xs, d.data = .col xs ∧ xs.length = ms.length ∧
        Forall2 (ResBack σ fields doc.relData) ms xs) ∧
      (∀ id typ, doc.data = .ident id typ → ∃ x, d.data = .res x ∧ IdentBack σ id typ x) ∧
      (∀ b l, doc.data = .idents b l → ∃ xs, d.data = .col xs ∧ xs.length = l.length ∧
        Forall2 (fun p x => IdentBack σ p.1 p.2 x) l xs) := by
  obtain ⟨d, h1, h2, -, h4, -⟩ := C02_roundtrip c σ hσ doc hdom he fields selfHref t ht
  refine ⟨d, h1, h4, ?_, ?_, ?_, ?_, ?_⟩
  · intro e
    rw [e] at h2
    cases hd : d.data <;> rw [hd] at h2 <;> first | rfl | exact absurd h2 (fun h => h)
  · intro r e
    rw [e] at h2
    cases hd : d.data <;> rw [hd] at h2 <;> first | exact ⟨_, rfl, h2⟩ | exact absurd h2 (fun h => h)
  · intro tn ms e
    rw [e] at h2
    cases hd : d.data <;> rw [hd] at h2 <;>
      first | exact ⟨_, rfl, (C02_forall2_length h2).symm, h2⟩ | exact absurd h2 (fun h => h)
  · intro id typ e
    rw [e] at h2
    cases hd : d.data <;> rw [hd] at h2 <;> first | exact ⟨_, rfl, h2⟩ | exact absurd h2 (fun h => h)
  · intro b l e
    rw [e] at h2
    cases hd : d.data <;> rw [hd] at h2 <;>
      first | exact ⟨_, rfl, (C02_forall2_length h2).symm, h2⟩ | exact absurd h2 (fun h => h)

/-- The included resources come back as the element-wise round trips of the included
resources in the order they are written (`sortById`: by ID), as many as were included. -/
theorem C02_included (c : Spec.Codecs) (σ : SSchema) (hσ : σ.WF) (doc : Document)
    (hdom : DocDom c σ doc) (he : doc.errors = []) (fields : GoMap (List GoString))
    (selfHref : GoString) (t : Json) (ht : Spec.documentTree doc fields selfHref = some t) :
    ∃ d, unmarshalDocument σ (some (Spec.docSkeletonOf c t)) = .ok d ∧
      d.included.length = doc.included.length ∧
      Forall2 (ResBack σ fields doc.relData) (sortById doc.included) d.included := by
  obtain ⟨d, h1, -, h3, -, -⟩ := C02_roundtrip c σ hσ doc hdom he fields selfHref t ht
  exact ⟨d, h1, by rw [← C02_forall2_length h3, (sortById_perm _).length_eq], h3⟩

/-- Through the model's `MarshalDocument` (C04_document): on the domain it succeeds, and
unmarshaling what it wrote gives the document back. -/
theorem C02_roundtrip_model (c : Spec.Codecs) (σ : SSchema) (hσ : σ.WF) (doc : Document)
    (hdom : DocDom c σ doc) (he : doc.errors = []) (hdata : doc.data ≠ .other)
    (fields : GoMap (List GoString)) (selfHref : GoString) :
    ∃ t doc', marshalDocument doc fields selfHref = .ok (t, doc') ∧
      ∃ d, unmarshalDocument σ (some (Spec.docSkeletonOf c t)) = .ok d ∧
        DataBack σ fields doc.relData doc.data d.data ∧
        Forall2 (ResBack σ fields doc.relData) (sortById doc.included) d.included ∧
        d.errors = [] ∧ d.dmeta = doc.dmeta := by
  have hkw : ∀ r ∈ docResources doc, r.keyedWf := by
    intro r hr
    obtain ⟨st, -, hd⟩ := hdom.res r hr
    exact hd.keyed
  cases ht : Spec.documentTree doc fields selfHref with
  | none =>
    exfalso
    unfold Spec.documentTree at ht
    split at ht
    · rename_i hm
      cases hd : doc.data <;> rw [hd] at hm <;> first | exact hdata hd | cases hm
    · cases ht
  | some t =>
    obtain ⟨doc', hm⟩ := (C04_document doc hkw fields selfHref).2 t ht
    exact ⟨t, doc', hm, C02_roundtrip c σ hσ doc hdom he fields selfHref t ht⟩

/-- and for error documents -/
theorem C02_errors_model (c : Spec.Codecs) (σ : SSchema) (doc : Document)
    (hkw : ∀ r ∈ docResources doc, r.keyedWf) (hdata : doc.data ≠ .other)
    (fields : GoMap (List GoString)) (selfHref : GoString)
    (he : doc.errors ≠ []) (hs : ∀ e ∈ doc.errors, Spec.linksSorted e) :
    ∃ t doc', marshalDocument doc fields selfHref = .ok (t, doc') ∧
      unmarshalDocument σ (some (Spec.docSkeletonOf c t)) =
        .ok { data := .none, included := [], errors := doc.errors, dmeta := doc.dmeta } := by
  cases ht : Spec.documentTree doc fields selfHref with
  | none =>
    exfalso
    unfold Spec.documentTree at ht
    split at ht
    · rename_i hm
      cases hd : doc.data <;> rw [hd] at hm <;> first | exact hdata hd | cases hm
    · cases ht
  | some t =>
    obtain ⟨doc', hm⟩ := (C04_document doc hkw fields selfHref).2 t ht
    exact ⟨t, doc', hm, C02_errors c σ doc fields selfHref t ht he hs⟩

/-! ### Non-vacuity -/

/-- an error object with every member, links keys "a" < "b" -/
def C02_exErr : ErrorObj :=
  { id := [49], code := [50], status := [52, 48, 52], title := [116], detail := [100],
    links := [([97], [120]), ([98], [121])], source := [([112], .str [47])],
    emeta := [([109], .num [49])] }

example : Spec.linksSorted C02_exErr ∧ Spec.errorOfJson C02_exErr.toJson = C02_exErr :=
  ⟨by unfold Spec.linksSorted C02_exErr; decide, C02_error_object _ (by unfold Spec.linksSorted C02_exErr; decide)⟩

/-- an error document (with data and meta set as well: the data is not written) -/
example (c : Spec.Codecs) :
    let doc : Document := { data := .ident [49] [116], errors := [C02_exErr, {}],
                            dmeta := [([109], .num [49])] }
    ∃ t, Spec.documentTree doc [] [47] = some t ∧
      unmarshalDocument C01_exσ (some (Spec.docSkeletonOf c t)) =
        .ok { data := .none, included := [], errors := [C02_exErr, {}], dmeta := [([109], .num [49])] } := by
  intro doc
  have hs : ∀ e ∈ doc.errors, Spec.linksSorted e := by
    intro e he
    have : e = C02_exErr ∨ e = {} := by simpa [doc] using he
    rcases this with rfl | rfl
    · unfold Spec.linksSorted C02_exErr; decide
    · exact List.Pairwise.nil
  cases ht : Spec.documentTree doc [] [47] with
  | none => simp [Spec.documentTree, doc] at ht
  | some t => exact ⟨t, rfl, C02_errors c C01_exσ doc [] [47] t ht (by simp [doc]) hs⟩

/-- A data document in the domain: a collection of a soft and a struct-backed resource, one
included resource, meta; `fields` selects "a" and "m" for type "t" only, relationship data
requested for "m". It is accepted, both members come back in order, the included resource and
the meta come back. -/
example (c : Spec.Codecs) :
    let doc : Document :=
      { data := .col [] [C01_exR [116], C01_exR [119]], included := [C01_exR [116]],
        relData := [([116], [[109]])], dmeta := [([109], .num [49])] }
    let fields : GoMap (List GoString) := [([116], [[97], [109]])]
    ∃ t d xs, Spec.documentTree doc fields [47] = some t ∧
      unmarshalDocument C01_exσ (some (Spec.docSkeletonOf c t)) = .ok d ∧
      d.data = .col xs ∧ xs.length = 2 ∧ d.included.length = 1 ∧ d.dmeta = [([109], .num [49])] := by
  intro doc fields
  have hdom : DocDom c C01_exσ doc := by
    refine ⟨?_, ?_, ?_⟩
    · intro r hr
      have : r = C01_exR [116] ∨ r = C01_exR [119] := by
        simp only [docResources, docPrimary, doc, List.mem_append, List.mem_cons,
          List.not_mem_nil, or_false] at hr
        rcases hr with (h | h) | h
        · exact .inl h
        · exact .inr h
        · exact .inl h
      rcases this with rfl | rfl
      · exact ⟨⟨C01_exT, false⟩, by simp [C01_exσ], C01_exR_dom c ⟨C01_exT, false⟩ (.inl rfl)⟩
      · exact ⟨⟨C01_exW, true⟩, by simp [C01_exσ], C01_exR_dom c ⟨C01_exW, true⟩ (.inr rfl)⟩
    · intro id typ e; simp [doc] at e
    · intro b l e; simp [doc] at e
  cases ht : Spec.documentTree doc fields [47] with
  | none => simp [Spec.documentTree, doc] at ht
  | some t =>
    obtain ⟨d, h1, -, -, -, h3, -, -⟩ :=
      C02_data_kind c C01_exσ C01_exσ_wf doc hdom rfl fields [47] t ht
    obtain ⟨xs, hx, hl, -⟩ := h3 [] _ rfl
    obtain ⟨d', h1', hi, -⟩ := C02_included c C01_exσ C01_exσ_wf doc hdom rfl fields [47] t ht
    rw [h1] at h1'; cases h1'
    exact ⟨t, d, xs, rfl, h1, hx, hl, hi, C02_meta c C01_exσ doc fields [47] t ht d h1⟩

end Jsonapi

section Axioms
open Jsonapi
#print axioms C02_ResBack_def
#print axioms C02_IdentBack_def
#print axioms C02_DocDom_def
#print axioms C02_docResources_def
#print axioms C02_error_object
#print axioms C02_errors
#print axioms C02_meta
#print axioms C02_roundtrip
#print axioms C02_data_kind
#print axioms C02_included
#print axioms C02_roundtrip_model
#print axioms C02_errors_model
end Axioms
