/-
T1b for the schema lookups (C12's read-only queries, C14's "lookups agree with the list of
types", C15's `GetType` as the missing-type signal): `Schema.HasType` and `Schema.GetType`,
translated from schema.go on this run, are the model's.
-/
import Jsonapi.Generated.Funcs
import Jsonapi.Model.Schema
namespace Jsonapi

theorem Gen_Schema_HasType_eq (s : Schema) (n : GoString) : Gen.Schema_HasType s n = s.hasType n := by
  unfold Gen.Schema_HasType Schema.hasType
  cases h : s.types.any (fun t => decide (t.name = n)) <;> simp [h]

theorem Gen_Schema_GetType_eq (s : Schema) (n : GoString) : Gen.Schema_GetType s n = s.getType n := rfl

end Jsonapi

section Axioms
open Jsonapi
#print axioms Gen_Schema_HasType_eq
#print axioms Gen_Schema_GetType_eq
end Axioms
