/-
T1b for C03's Include clause and the small collection / identifier / meta helpers: the definitions
translated on this run from document.go (`Document.Include`), collection.go (`Resources`),
wrapper_collection.go (`WrapperCollection`), identifiers.go (`NewIdentifiers`, `Identifiers.IDs`) and meta.go
(`Meta.Has`, `Meta.GetInt`) are the hand-written model's - for every input. Through
`Gen_Document_Include_eq` the Include theorems of Props/C03.lean (no (type, id) pair twice across
primary data and included, over every history of Include calls) are restated below as theorems
about the TRANSLATED function: C03's Include clause is a theorem about what document.go says now.

Reading conventions of the translator that these statements rest on (its header, paragraph
"Documents, collections, type assertions, threaded receivers, checked reads"):

* `Document` is the model's `Document`: the field `Data any` is the sum `DocData` (a resource
  view | a collection view: the name of its type and its members | anything else), `Included`
  is `included`; no other field is in the subset. `d.Data.(Resource)` / `d.Data.(Collection)`
  succeed on the constructors `res` / `col` only; a collection is read through
  `GetType().Name`, `Len()` (the number of members) and `At(i)` for `i < Len()` (member i).
  `r.Get("id").(string)` is the id of the resource view (every implementation of the library
  returns a string there).
* The receiver `*Document` / `*Resources` / `*WrapperCollection` is a value threaded through the
  body; the method returns it (`return` and the end of the body).
* `Resources.At`, `WrapperCollection.At`: the result `Resource` may be nil, so it is an
  `Option ResView`; the read `xs[i]` at the parameter i is CHECKED in the translation (the
  function returns `Res`, `.panic` out of range), so whether the code's own tests keep the read
  in range is proved here (`Resources.At` never panics) or refuted (`WrapperCollection.At`
  panics below zero, as the model says).
* `r.(*Wrapper)` on a resource: whether the dynamic type is `*Wrapper` is the parameter
  `isWrapper'`; a `*Wrapper` is read through its resource view.
* `Meta` is `map[string]any`, read as `GoMap PageVal` (an int or a string: the translator's `any`).
-/
import Jsonapi.Proofs.GenC03bLemmas
import Jsonapi.Props.C03
import Jsonapi.Model.Misc
namespace Jsonapi
open MarshalL GenC03bL

/-! ### `Document.Include` -/

private theorem incl_init (d : Document) :
    (if (decide (((d.included).length : Int) = (0 : Int))) then
        { d with included := ([] : List ResView) } else d) = d := by
  cases h : d.included with
  | nil => cases d; simp_all
  | cons a l =>
    have : ¬ ((l.length : Int) + 1 = 0) := by omega
    simp [this]

private theorem incl_tail (d : Document) (r : ResView) :
    (if (d.included.any (fun elem_ =>
          decide (r.id ++ [32] ++ r.typeName = elem_.id ++ [32] ++ elem_.typeName))) = true then d
      else { d with included := d.included ++ [r] }) =
    (if d.included.any (fun x => decide (resKey x = resKey r)) = true then d
      else { d with included := d.included ++ [r] }) := by
  have : (fun (elem_ : ResView) =>
        decide (r.id ++ [32] ++ r.typeName = elem_.id ++ [32] ++ elem_.typeName)) =
      (fun x => decide (resKey x = resKey r)) := by
    funext x
    simp only [resKey]
    exact decide_eq_decide.2 ⟨Eq.symm, Eq.symm⟩
  rw [this]

/-- document.go `Include`: the translated method is the model's, for every document (whatever its
primary data) and every resource. -/
theorem Gen_Document_Include_eq (d : Document) (r : ResView) :
    Gen.Document_Include d r = d.include r := by
  unfold Gen.Document_Include
  simp only [incl_init, incl_tail]
  rw [include_eq]
  unfold inPrimaryB
  cases hd : d.data with
  | res p =>
    simp only [Option.isSome_some, Option.getD_some, if_true, resKey]
    rfl
  | col tn ms =>
    simp only [Option.isSome_some, Option.getD_some, if_true, Option.isSome_none,
      Bool.false_eq_true, if_false]
    rw [foldl_range_ret_any _
      (fun m => decide (m.id ++ [32] ++ m.typeName = r.id ++ [32] ++ r.typeName))
      d ms default (fun _ _ => rfl) (fun _ => rfl)]
    have hk : (fun (m : ResView) =>
          decide (m.id ++ [32] ++ m.typeName = r.id ++ [32] ++ r.typeName)) =
        (fun x => decide (resKey x = resKey r)) := rfl
    rw [hk]
    rcases Bool.eq_false_or_eq_true (decide (tn = []) || decide (tn = r.typeName)) with h1 | h1 <;>
      rcases Bool.eq_false_or_eq_true (ms.any fun x => decide (resKey x = resKey r)) with h2 | h2 <;>
      simp only [h1, h2, if_true, Bool.and_self, Bool.and_false, Bool.false_and,
        Bool.false_eq_true, if_false]
  | none => simp
  | ident a b => simp
  | idents a b => simp
  | other => simp

/-- the same as an equality of functions (for folds over histories of calls) -/
theorem Gen_Document_Include_fun : Gen.Document_Include = Document.include := by
  funext d r
  exact Gen_Document_Include_eq d r

/-- The translated Include writes the field Included only. -/
theorem Gen_Document_Include_data (d : Document) (r : ResView) :
    (Gen.Document_Include d r).data = d.data := by
  rw [Gen_Document_Include_eq]
  exact include_data d r

/-- C03, Include, the invariant step on (type, id) pairs, about the translated method: if no pair
is repeated across primary data and included before the call (and a typed collection holds
resources of its type), none is after it, for whatever resource is handed over; the primary data
is untouched and the collection stays typed. -/
theorem Gen_Document_Include_step_pairs (d : Document) (r : ResView) (ht : TypedCol d)
    (hnd : ((docPrimary d ++ d.included).map resPair).Nodup) :
    ((docPrimary (Gen.Document_Include d r) ++
        (Gen.Document_Include d r).included).map resPair).Nodup ∧
    (Gen.Document_Include d r).data = d.data ∧ TypedCol (Gen.Document_Include d r) := by
  rw [Gen_Document_Include_eq]
  refine ⟨include_step resPair (fun _ _ => resKey_of_resPair) d r ht ?_ hnd, include_data d r,
    ht.congr (include_data d r)⟩
  intro m _ h
  simp only [resPair, Prod.mk.injEq] at h
  exact h.1

/-- The invariant step on the keys `id ++ " " ++ type` that Include compares, about the translated
method (the key must determine the type against the primary data: true when type names hold no
space, `C03_keyFaithful_of_noSpace`). -/
theorem Gen_Document_Include_step_keys (d : Document) (r : ResView) (ht : TypedCol d)
    (hkey : ∀ m ∈ docPrimary d, resKey m = resKey r → m.typeName = r.typeName)
    (hnd : (Spec.primaryKeys d ++ d.included.map resKey).Nodup) :
    (Spec.primaryKeys (Gen.Document_Include d r) ++
        (Gen.Document_Include d r).included.map resKey).Nodup ∧
    Spec.primaryKeys (Gen.Document_Include d r) = Spec.primaryKeys d := by
  rw [primaryKeys_eq, ← List.map_append] at hnd
  have h := include_step resKey (fun _ _ h => h) d r ht hkey hnd
  rw [Gen_Document_Include_eq, primaryKeys_eq, primaryKeys_eq, ← List.map_append,
    docPrimary_congr (include_data d r)]
  rw [docPrimary_congr (include_data d r)] at h
  exact ⟨h, rfl⟩

/-- C03, Include, over every history of calls of the translated method, on (type, id) pairs:
`C03_include_unique_pairs` about what document.go says now. -/
theorem Gen_Document_Include_unique_pairs (ops : List ResView) (d0 : Document) (ht : TypedCol d0)
    (hnd : ((docPrimary d0 ++ d0.included).map resPair).Nodup) :
    ((docPrimary (ops.foldl Gen.Document_Include d0) ++
        (ops.foldl Gen.Document_Include d0).included).map resPair).Nodup ∧
    (ops.foldl Gen.Document_Include d0).data = d0.data := by
  rw [Gen_Document_Include_fun]
  exact C03_include_unique_pairs ops d0 ht hnd

/-- `C03_include_unique_gen` about the translated method. -/
theorem Gen_Document_Include_unique_gen (ops : List ResView) (d0 : Document) (ht : TypedCol d0)
    (hkey : KeyFaithful ops d0)
    (hnd : (Spec.primaryKeys d0 ++ d0.included.map resKey).Nodup) :
    (Spec.primaryKeys (ops.foldl Gen.Document_Include d0) ++
        (ops.foldl Gen.Document_Include d0).included.map resKey).Nodup ∧
    Spec.primaryKeys (ops.foldl Gen.Document_Include d0) = Spec.primaryKeys d0 := by
  rw [Gen_Document_Include_fun]
  exact C03_include_unique_gen ops d0 ht hkey hnd

/-- `C03_include_unique` (the headline statement: from a document without included resources)
about the translated method. -/
theorem Gen_Document_Include_unique (ops : List ResView) (d0 : Document) (hinc : d0.included = [])
    (hok : DocOk d0) (hkey : KeyFaithful ops d0) :
    (Spec.primaryKeys (ops.foldl Gen.Document_Include d0) ++
        (ops.foldl Gen.Document_Include d0).included.map resKey).Nodup ∧
    Spec.primaryKeys (ops.foldl Gen.Document_Include d0) = Spec.primaryKeys d0 := by
  rw [Gen_Document_Include_fun]
  exact C03_include_unique ops d0 hinc hok hkey

/-- the translated method runs: the sample history of Props/C03.lean (a member of the typed
collection, a new resource twice, a resource of another type) -/
example : (([c04_res [49] [99], c04_res [51] [100], c04_res [51] [100], c04_res [49] [100]].foldl
    Gen.Document_Include c04_doc).included).map resKey = [[51, 32, 100], [49, 32, 100]] := by decide

/-! ### `Resources` (collection.go)

The model's `RColl α` keeps, for every element, whether its dynamic type is `*Wrapper`
(`RArg`); `Resources` itself never looks at it. The translated methods work on the list of
resource views: the view of a model collection forgets the tags. Every list of views is the view
of a model collection (`rcViews_other`). -/

/-- the resource behind an `Add` argument -/
def RArg.val {α : Type} : RArg α → α
  | .wrapper w => w
  | .other x => x

/-- the resource views a model `Resources` holds -/
def RColl.views (c : RColl ResView) : List ResView := c.col.map RArg.val

theorem rcViews_other (l : List ResView) : RColl.views { col := l.map RArg.other } = l := by
  simp [RColl.views, RArg.val, Function.comp_def]

/-- `Resources.GetType`: the zero Type -/
theorem Gen_Resources_GetType_eq (c : RColl ResView) :
    Gen.Resources_GetType c.views = c.getType.eff := rfl

/-- `Resources.Len` -/
theorem Gen_Resources_Len_eq (c : RColl ResView) : Gen.Resources_Len c.views = (c.len : Int) := by
  simp [Gen.Resources_Len, RColl.views, RColl.len]

/-- `Resources.At`: never a panic (the test `i >= 0 && i < r.Len()` keeps the read in range), nil
outside the range, the element inside. -/
theorem Gen_Resources_At_eq (c : RColl ResView) (i : Int) :
    Gen.Resources_At c.views i = .ok ((c.at? i).map RArg.val) := by
  unfold Gen.Resources_At Gen.Resources_Len RColl.at? RColl.views
  by_cases h : 0 ≤ i ∧ i < (c.col.length : Int)
  · obtain ⟨h1, h2⟩ := h
    have h3 : i.toNat < c.col.length := by omega
    simp [h1, h2, h3, List.getD_eq_getElem?_getD]
  · have : ¬ (0 ≤ i ∧ i < ((c.col.map RArg.val).length : Int)) := by simpa using h
    simp only [List.length_map] at this
    simp [h]

/-- `Resources.Add`: append, whatever the value -/
theorem Gen_Resources_Add_eq (c : RColl ResView) (a : RArg ResView) :
    Gen.Resources_Add c.views a.val = (c.add a).views := by
  simp [Gen.Resources_Add, RColl.views, RColl.add]

/-- the algebra of the translated methods on plain lists -/
theorem Gen_Resources_Len_Add (l : List ResView) (r : ResView) :
    Gen.Resources_Len (Gen.Resources_Add l r) = Gen.Resources_Len l + 1 := by
  simp [Gen.Resources_Len, Gen.Resources_Add]

theorem Gen_Resources_At_Add_last (l : List ResView) (r : ResView) :
    Gen.Resources_At (Gen.Resources_Add l r) (Gen.Resources_Len l) = .ok (some r) := by
  have h := Gen_Resources_At_eq { col := (l ++ [r]).map RArg.other } (l.length : Int)
  rw [rcViews_other] at h
  simp only [Gen.Resources_Add, Gen.Resources_Len]
  rw [h]
  have hlt : (l.length : Int) < (l.length : Int) + 1 := by omega
  simp [RColl.at?, RArg.val, hlt]

theorem Gen_Resources_At_Add_old (l : List ResView) (r : ResView) (i : Int)
    (h : i < Gen.Resources_Len l) :
    Gen.Resources_At (Gen.Resources_Add l r) i = Gen.Resources_At l i := by
  have h1 := Gen_Resources_At_eq { col := (l ++ [r]).map RArg.other } i
  have h2 := Gen_Resources_At_eq { col := l.map RArg.other } i
  rw [rcViews_other] at h1 h2
  simp only [Gen.Resources_Add]
  rw [h1, h2]
  simp only [Gen.Resources_Len] at h
  unfold RColl.at?
  by_cases h0 : 0 ≤ i
  · have h3 : i.toNat < l.length := by omega
    simp [h0, h, h3, List.getElem?_append_left]
    omega
  · simp [h0]

/-! ### `WrapperCollection` (wrapper_collection.go) -/

/-- the translated structure of a model `WrapperCollection` (`sample` is read by no method) -/
def WColl.gen (c : WColl ResView) (sample : ResView) : Gen.WrapperCollection :=
  { typ := c.typ.eff, col := c.col, sample := sample }

/-- `WrapperCollection.GetType` -/
theorem Gen_WrapperCollection_GetType_eq (c : WColl ResView) (s : ResView) :
    Gen.WrapperCollection_GetType (c.gen s) = c.getType.eff := rfl

/-- `WrapperCollection.Len` -/
theorem Gen_WrapperCollection_Len_eq (c : WColl ResView) (s : ResView) :
    Gen.WrapperCollection_Len (c.gen s) = (c.len : Int) := rfl

/-- `WrapperCollection.At`: the only test is `len(wc.col) > i`, so a negative index reaches the
read and panics - exactly the model's `at?`. -/
theorem Gen_WrapperCollection_At_eq (c : WColl ResView) (s : ResView) (i : Int) :
    Gen.WrapperCollection_At (c.gen s) i = c.at? i := by
  unfold Gen.WrapperCollection_At WColl.at? WColl.gen
  by_cases h2 : i < (c.col.length : Int)
  · by_cases h1 : 0 ≤ i
    · have h3 : i.toNat < c.col.length := by omega
      have h4 : ¬ i < 0 := by omega
      simp [h1, h2, h3, h4, List.getD_eq_getElem?_getD]
    · have h4 : i < 0 := by omega
      simp [h1, h2, h4]
  · simp [h2]

/-- the panic is real: `At(-1)` on any collection -/
theorem Gen_WrapperCollection_At_negative (wc : Gen.WrapperCollection) :
    Gen.WrapperCollection_At wc (-1) = .panic := by
  unfold Gen.WrapperCollection_At
  have : (-1 : Int) < (wc.col.length : Int) := by omega
  simp [this]

/-- `WrapperCollection.Add`: only a resource whose dynamic type is `*Wrapper` is appended
(`isW` is the translated function's parameter for that test). -/
theorem Gen_WrapperCollection_Add_eq (c : WColl ResView) (s : ResView) (a : RArg ResView)
    (isW : ResView → Bool)
    (h : isW a.val = (match a with | .wrapper _ => true | .other _ => false)) :
    Gen.WrapperCollection_Add (c.gen s) a.val isW = (c.add a).gen s := by
  unfold Gen.WrapperCollection_Add WColl.add WColl.gen
  cases a with
  | wrapper w => simp only [RArg.val] at h ⊢; simp [h]
  | other x => simp only [RArg.val] at h ⊢; simp [h]

theorem Gen_WrapperCollection_Len_Add (wc : Gen.WrapperCollection) (r : ResView)
    (isW : ResView → Bool) :
    Gen.WrapperCollection_Len (Gen.WrapperCollection_Add wc r isW) =
      Gen.WrapperCollection_Len wc + (if isW r then 1 else 0) := by
  unfold Gen.WrapperCollection_Len Gen.WrapperCollection_Add
  cases isW r <;> simp

theorem Gen_WrapperCollection_At_Add_last (wc : Gen.WrapperCollection) (r : ResView)
    (isW : ResView → Bool) (h : isW r = true) :
    Gen.WrapperCollection_At (Gen.WrapperCollection_Add wc r isW) (Gen.WrapperCollection_Len wc) =
      .ok (some r) := by
  unfold Gen.WrapperCollection_Len Gen.WrapperCollection_Add Gen.WrapperCollection_At
  have hlt : (wc.col.length : Int) < (wc.col.length : Int) + 1 := by omega
  simp [h, hlt, List.getD_eq_getElem?_getD]

/-! ### identifiers.go -/

/-- the model's identifier of a translated one -/
def Ident.ofGen (g : Gen.Identifier) : Ident := { id := g.iD, typ := g.type_ }

theorem Gen_NewIdentifiers_map (t : GoString) (ids : List GoString) :
    Gen.NewIdentifiers t ids = ids.map (fun id => ({ iD := id, type_ := t } : Gen.Identifier)) := by
  unfold Gen.NewIdentifiers
  suffices h : ∀ (acc : List Gen.Identifier),
      ids.foldl (fun acc e => acc ++ [({ iD := e, type_ := t } : Gen.Identifier)]) acc =
        acc ++ ids.map (fun id => ({ iD := id, type_ := t } : Gen.Identifier)) by
    simpa using h []
  induction ids with
  | nil => intro acc; simp
  | cons a l ih => intro acc; simp [ih]

/-- `NewIdentifiers`: one identifier of type t per id, in order (a nil and an empty slice of ids
are both `[]` in the translation; the result is never nil) -/
theorem Gen_NewIdentifiers_eq (t : GoString) (ids : List GoString) :
    some ((Gen.NewIdentifiers t ids).map Ident.ofGen) = newIdentifiers t (some ids) := by
  rw [Gen_NewIdentifiers_map]
  simp [newIdentifiers, Ident.ofGen, Function.comp_def]

/-- `Identifiers.IDs`: the ID of every identifier, in order (`ids := make([]string, len(i))`,
then `ids[n] = i[n].ID` for every index: a fold of `List.set` over the indices) -/
theorem Gen_Identifiers_IDs_map (l : List Gen.Identifier) :
    Gen.Identifiers_IDs l = l.map (·.iD) := by
  unfold Gen.Identifiers_IDs
  exact foldl_set_range (fun (g : Gen.Identifier) => g.iD) l [] _

/-- `Identifiers.IDs` is the model's (a nil and an empty slice are both `[]` in the translation; the
result is never nil) -/
theorem Gen_Identifiers_IDs_eq (l : List Gen.Identifier) :
    some (Gen.Identifiers_IDs l) = identIDs (some (l.map Ident.ofGen)) := by
  rw [Gen_Identifiers_IDs_map]
  simp [identIDs, Ident.ofGen, Function.comp_def]

/-- `IDs(NewIdentifiers(t, ids)) = ids`, both translated -/
theorem Gen_NewIdentifiers_IDs (t : GoString) (ids : List GoString) :
    Gen.Identifiers_IDs (Gen.NewIdentifiers t ids) = ids := by
  rw [Gen_Identifiers_IDs_map, Gen_NewIdentifiers_map]
  simp [Function.comp_def]

/-! ### meta.go: `Has`, `GetInt` on maps whose values are ints and strings -/

/-- the model's meta value of the translator's `any` (an int or a string) -/
def MetaVal.ofPage : PageVal → MetaVal
  | .int n => .int n
  | .str s => .str s

def MetaMap.ofPage (m : GoMap PageVal) : MetaMap := m.map (fun p => (p.1, MetaVal.ofPage p.2))

theorem MetaMap.get?_ofPage (m : GoMap PageVal) (k : GoString) :
    GoMap.get? (MetaMap.ofPage m) k = (GoMap.get? m k).map MetaVal.ofPage := by
  induction m with
  | nil => rfl
  | cons p m ih =>
    obtain ⟨k', v⟩ := p
    simp only [MetaMap.ofPage, List.map_cons, GoMap.get?]
    by_cases h : k' = k
    · simp [h]
    · simp only [h, if_false]
      exact ih

/-- meta.go `Has` -/
theorem Gen_Meta_Has_eq (m : GoMap PageVal) (k : GoString) :
    Gen.Meta_Has m k = MetaMap.has (MetaMap.ofPage m) k := by
  unfold Gen.Meta_Has MetaMap.has GoMap.has
  rw [MetaMap.get?_ofPage]
  cases GoMap.get? m k <;> rfl

/-- meta.go `GetInt` -/
theorem Gen_Meta_GetInt_eq (m : GoMap PageVal) (k : GoString) :
    Gen.Meta_GetInt m k = MetaMap.getInt (MetaMap.ofPage m) k := by
  unfold Gen.Meta_GetInt MetaMap.getInt MetaMap.index
  rw [MetaMap.get?_ofPage]
  cases h : GoMap.get? m k with
  | none => rfl
  | some v => cases v <;> rfl

end Jsonapi

section Axioms
open Jsonapi
#print axioms Gen_Document_Include_eq
#print axioms Gen_Document_Include_fun
#print axioms Gen_Document_Include_data
#print axioms Gen_Document_Include_step_pairs
#print axioms Gen_Document_Include_step_keys
#print axioms Gen_Document_Include_unique_pairs
#print axioms Gen_Document_Include_unique_gen
#print axioms Gen_Document_Include_unique
#print axioms Gen_Resources_GetType_eq
#print axioms Gen_Resources_Len_eq
#print axioms Gen_Resources_At_eq
#print axioms Gen_Resources_Add_eq
#print axioms Gen_Resources_Len_Add
#print axioms Gen_Resources_At_Add_last
#print axioms Gen_Resources_At_Add_old
#print axioms Gen_WrapperCollection_GetType_eq
#print axioms Gen_WrapperCollection_Len_eq
#print axioms Gen_WrapperCollection_At_eq
#print axioms Gen_WrapperCollection_At_negative
#print axioms Gen_WrapperCollection_Add_eq
#print axioms Gen_WrapperCollection_Len_Add
#print axioms Gen_WrapperCollection_At_Add_last
#print axioms Gen_NewIdentifiers_map
#print axioms Gen_NewIdentifiers_eq
#print axioms Gen_Identifiers_IDs_map
#print axioms Gen_Identifiers_IDs_eq
#print axioms Gen_NewIdentifiers_IDs
#print axioms Gen_Meta_Has_eq
#print axioms Gen_Meta_GetInt_eq
end Axioms
