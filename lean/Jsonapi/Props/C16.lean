/-
C16 — two-way relationships have one canonical representative.
Property theorems only; helper lemmas are in Proofs/SchemaLemmas.lean.
-/
import Jsonapi.Proofs.SchemaLemmas
namespace Jsonapi
open Schema

/-- A relationship that names an inverse and has a name itself. -/
def Rel.twoWay (r : Rel) : Prop := r.toName ≠ [] ∧ r.fromName ≠ []
/-- Same type and same name on both ends (outside the domain of `normalize_invert`). -/
def Rel.selfInverse (r : Rel) : Prop := r.fromType = r.toType ∧ r.fromName = r.toName

theorem C16_invert_invert (r : Rel) : r.invert.invert = r := by
  cases r; rfl

theorem C16_normalize_mem (r : Rel) : r.normalize = r ∨ r.normalize = r.invert := by
  unfold Rel.normalize; split
  · exact .inl rfl
  · split
    · exact .inl rfl
    · split
      · exact .inl rfl
      · exact .inr rfl

theorem C16_normalize_oneway (r : Rel) (h : r.toName = []) : r.normalize = r := by
  simp [Rel.normalize, h]

theorem C16_normalize_idem (r : Rel) : r.normalize.normalize = r.normalize :=
  Rel.normalize_idem r

theorem C16_normalize_invert (r : Rel) (h2 : r.twoWay) (hs : ¬ r.selfInverse) :
    r.invert.normalize = r.normalize :=
  Rel.normalize_invert r h2.1 h2.2 hs

theorem C16_string_invert (r : Rel) (h2 : r.twoWay) (hs : ¬ r.selfInverse) :
    r.invert.string = r.string := by
  unfold Rel.string
  rw [C16_normalize_invert r h2 hs]

/-- Every relationship of every type is represented in `Rels()` by its normal form,
every listed relationship is such a normal form, and nothing is listed twice. -/
theorem C16_rels (σ : Schema) :
    (∀ t ∈ σ.types, ∀ r ∈ t.rels.vals, r.normalize ∈ σ.relsSorted) ∧
    (∀ x ∈ σ.relsSorted, ∃ t ∈ σ.types, ∃ r ∈ t.rels.vals, x = r.normalize) ∧
    σ.relsSorted.Nodup :=
  ⟨fun t ht r hr => (mem_relsSorted σ _).2 ⟨t, ht, r, hr, rfl⟩,
   fun x hx => by
     obtain ⟨t, ht, r, hr, h⟩ := (mem_relsSorted σ x).1 hx
     exact ⟨t, ht, r, hr, h.symm⟩,
   nodup_relsSorted σ⟩

/-- "Each one-way relationship once, each two-way pair once": a two-way relationship
and its inverse (which a coherent schema holds on the other side) are the same
entry, and that entry occurs exactly once. -/
theorem C16_rels_pair_once (σ : Schema) (t : Typ) (ht : t ∈ σ.types) (r : Rel)
    (hr : r ∈ t.rels.vals) (h2 : r.twoWay) (hs : ¬ r.selfInverse) :
    r.invert.normalize = r.normalize ∧ σ.relsSorted.count r.normalize = 1 :=
  ⟨C16_normalize_invert r h2 hs,
   List.count_eq_one_of_mem (nodup_relsSorted σ) ((C16_rels σ).1 t ht r hr)⟩

theorem C16_rels_oneway_once (σ : Schema) (t : Typ) (ht : t ∈ σ.types) (r : Rel)
    (hr : r ∈ t.rels.vals) (h1 : r.toName = []) :
    σ.relsSorted.count r = 1 := by
  have := (C16_rels σ).1 t ht r hr
  rw [C16_normalize_oneway r h1] at this
  exact List.count_eq_one_of_mem (nodup_relsSorted σ) this

/-- The list does not depend on how the schema was built: two schemas holding the
same relationships (types added in any order, maps iterated in any order) give the
same `Rels()`. -/
theorem C16_rels_order (σ₁ σ₂ : Schema)
    (h : ∀ x, (∃ t ∈ σ₁.types, ∃ r ∈ t.rels.vals, r.normalize = x) ↔
              (∃ t ∈ σ₂.types, ∃ r ∈ t.rels.vals, r.normalize = x)) :
    σ₁.relsSorted = σ₂.relsSorted :=
  relsSorted_ext σ₁ σ₂ h

/-- In particular for permuted type lists with permuted maps. -/
theorem C16_rels_perm (σ₁ σ₂ : Schema)
    (h : Forall2 (fun t₁ t₂ : Typ => t₁.rels.Perm t₂.rels) σ₁.types σ₂.types) :
    σ₁.relsSorted = σ₂.relsSorted :=
  relsSorted_forall₂ σ₁ σ₂ h

theorem C16_rels_types_perm (σ₁ σ₂ : Schema) (h : σ₁.types.Perm σ₂.types) :
    σ₁.relsSorted = σ₂.relsSorted :=
  relsSorted_types_perm σ₁ σ₂ h

/-! Non-vacuity: the adversarial names of the property text. -/
example :
    let r : Rel := { fromType := gs "ab", fromName := gs "c", toOne := true,
                     toType := gs "a", toName := gs "bc", fromOne := false }
    r.invert.normalize = r.normalize ∧ r.invert.string = r.string ∧ r.normalize = r.invert := by
  decide

#print axioms C16_invert_invert
#print axioms C16_normalize_mem
#print axioms C16_normalize_oneway
#print axioms C16_normalize_idem
#print axioms C16_normalize_invert
#print axioms C16_string_invert
#print axioms C16_rels
#print axioms C16_rels_pair_once
#print axioms C16_rels_oneway_once
#print axioms C16_rels_order
#print axioms C16_rels_perm
#print axioms C16_rels_types_perm

end Jsonapi
