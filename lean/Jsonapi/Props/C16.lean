/-
C16 — two-way relationships have one canonical representative.
Property theorems only; helper lemmas are in Proofs/SchemaLemmas.lean.
-/
import Jsonapi.Proofs.SchemaLemmas
import Jsonapi.Proofs.C16Lemmas
namespace Jsonapi
open Schema

/-- A relationship that names an inverse and has a name itself. -/
def Rel.twoWay (r : Rel) : Prop := r.toName ≠ [] ∧ r.fromName ≠ []
/-- Same type and same name on both ends (outside the domain of `normalize_invert`). -/
def Rel.selfInverse (r : Rel) : Prop := r.fromType = r.toType ∧ r.fromName = r.toName

theorem C16_invert_invert (r : Rel) : r.invert.invert = r := by
  cases r; rfl

theorem C16_normalize_mem (r : Rel) : r.normalize = r ∨ r.normalize = r.invert := by
  unfold Rel.normalize; split
  · exact .inl rfl
  · split
    · exact .inl rfl
    · split
      · exact .inl rfl
      · exact .inr rfl

theorem C16_normalize_oneway (r : Rel) (h : r.toName = []) : r.normalize = r := by
  simp [Rel.normalize, h]

theorem C16_normalize_idem (r : Rel) : r.normalize.normalize = r.normalize :=
  Rel.normalize_idem r

theorem C16_normalize_invert (r : Rel) (h2 : r.twoWay) (hs : ¬ r.selfInverse) :
    r.invert.normalize = r.normalize :=
  Rel.normalize_invert r h2.1 h2.2 hs

theorem C16_string_invert (r : Rel) (h2 : r.twoWay) (hs : ¬ r.selfInverse) :
    r.invert.string = r.string := by
  unfold Rel.string
  rw [C16_normalize_invert r h2 hs]

/-- Every relationship of every type is represented in `Rels()` by the normal form of its
completion (`Schema.complete`: a two-way relationship takes the cardinality of its other
side from the relationships that point back at it), every listed relationship is such a
normal form, and nothing is listed twice. -/
theorem C16_rels (σ : Schema) :
    (∀ t ∈ σ.types, ∀ r ∈ t.rels.vals, (σ.complete t r).normalize ∈ σ.relsSorted) ∧
    (∀ x ∈ σ.relsSorted, ∃ t ∈ σ.types, ∃ r ∈ t.rels.vals, x = (σ.complete t r).normalize) ∧
    σ.relsSorted.Nodup :=
  ⟨fun t ht r hr => (mem_relsSorted σ _).2 ⟨t, ht, r, hr, rfl⟩,
   fun x hx => by
     obtain ⟨t, ht, r, hr, h⟩ := (mem_relsSorted σ x).1 hx
     exact ⟨t, ht, r, hr, h.symm⟩,
   nodup_relsSorted σ⟩

/-- The completion changes `FromOne` only, and only of a two-way relationship. -/
theorem C16_complete_fields (σ : Schema) (t : Typ) (r : Rel) :
    σ.complete t r = { r with fromOne := (σ.complete t r).fromOne } ∧
    (r.toName = [] → σ.complete t r = r) := by
  unfold complete
  by_cases h1 : r.toName = []
  · rw [if_pos h1]; exact ⟨by cases r; rfl, fun _ => rfl⟩
  · by_cases h2 : (σ.backRels t r).isEmpty <;> simp [h1, h2]

/-- A two-way relationship and its inverse are the same entry, and the entry of a
relationship occurs exactly once. (That the relationship a coherent schema holds on the
other side IS the inverse of the completed one is `C16_rels_coherent`.) -/
theorem C16_rels_pair_once (σ : Schema) (t : Typ) (ht : t ∈ σ.types) (r : Rel)
    (hr : r ∈ t.rels.vals) (h2 : r.twoWay) (hs : ¬ r.selfInverse) :
    (σ.complete t r).invert.normalize = (σ.complete t r).normalize ∧
    σ.relsSorted.count (σ.complete t r).normalize = 1 := by
  refine ⟨?_, List.count_eq_one_of_mem (nodup_relsSorted σ) ((C16_rels σ).1 t ht r hr)⟩
  have hf := (C16_complete_fields σ t r).1
  apply C16_normalize_invert
  · rw [hf]; exact h2
  · rw [hf]; exact hs

theorem C16_rels_oneway_once (σ : Schema) (t : Typ) (ht : t ∈ σ.types) (r : Rel)
    (hr : r ∈ t.rels.vals) (h1 : r.toName = []) :
    σ.relsSorted.count r = 1 := by
  have := (C16_rels σ).1 t ht r hr
  rw [(C16_complete_fields σ t r).2 h1, C16_normalize_oneway r h1] at this
  exact List.count_eq_one_of_mem (nodup_relsSorted σ) this

/-- The list does not depend on how the schema was built: two schemas holding the
same (completed) relationships give the same `Rels()`. -/
theorem C16_rels_order (σ₁ σ₂ : Schema)
    (h : ∀ x, (∃ t ∈ σ₁.types, ∃ r ∈ t.rels.vals, (σ₁.complete t r).normalize = x) ↔
              (∃ t ∈ σ₂.types, ∃ r ∈ t.rels.vals, (σ₂.complete t r).normalize = x)) :
    σ₁.relsSorted = σ₂.relsSorted :=
  relsSorted_ext σ₁ σ₂ h

/-- In particular for the same types with their maps iterated in any order. (The completion
reads the NAME of the owning type, so the names are part of the hypothesis now.) -/
theorem C16_rels_perm (σ₁ σ₂ : Schema)
    (h : Forall2 (fun t₁ t₂ : Typ => t₁.name = t₂.name ∧ t₁.rels.Perm t₂.rels) σ₁.types σ₂.types) :
    σ₁.relsSorted = σ₂.relsSorted :=
  relsSorted_forall₂ σ₁ σ₂ h

/-- ... and for types added in any order, their names being distinct (C14's invariant; the
completion looks the target type up by name, and of two types with one name `GetType`
returns the first: see `C16_rels_types_perm_needs_distinct_names`). -/
theorem C16_rels_types_perm (σ₁ σ₂ : Schema) (h : σ₁.types.Perm σ₂.types)
    (nd : (σ₁.types.map (·.name)).Nodup) :
    σ₁.relsSorted = σ₂.relsSorted :=
  relsSorted_types_perm σ₁ σ₂ h nd

/-- The hypothesis of `C16_rels_types_perm` is needed: with two types of one name (a schema the
API never builds) the completion reads the first, and the listing depends on the order. -/
theorem C16_rels_types_perm_needs_distinct_names :
    ∃ σ₁ σ₂ : Schema, σ₁.types.Perm σ₂.types ∧ σ₁.relsSorted ≠ σ₂.relsSorted := by
  let ra : Rel := { fromType := gs "a", fromName := gs "x", toOne := true,
                    toType := gs "b", toName := gs "y", fromOne := false }
  let rb : Rel := { fromType := gs "b", fromName := gs "y", toOne := true,
                    toType := gs "a", toName := gs "x", fromOne := false }
  let a1 : Typ := { name := gs "a", attrs := [], rels := [(gs "x", ra)] }
  let a2 : Typ := { name := gs "a", attrs := [], rels := [] }
  let b : Typ := { name := gs "b", attrs := [], rels := [(gs "y", rb)] }
  refine ⟨⟨[a1, a2, b]⟩, ⟨[a2, a1, b]⟩, List.Perm.swap _ _ _, ?_⟩
  intro h
  have h1 : rb.invert ∈ (Schema.mk [a2, a1, b]).relsSorted := by
    rw [relsSorted, (List.mergeSort_perm _ _).mem_iff]; decide
  rw [← h, relsSorted, (List.mergeSort_perm _ _).mem_iff] at h1
  revert h1; decide

/-! ### The coherent schema (the last clause of the property)

`Schema.Check` never compares the cardinality flags of the two sides of a two-way pair, and a
type built from a struct always has `FromOne = false`: before the repair of `buildRels` the two
sides of an ordinary struct-built pair normalised to two different values and `Rels()` listed
the pair twice (`C16_unrepaired_counterexample`). `buildRels` now completes each relationship
from the other side (`Schema.complete`) before normalising it, and the clause holds. -/

/-- A coherent schema - C14's invariant (`Inv`: distinct type names, relationship names unique
within a type and equal to their map keys), `Check` reports nothing, every relationship's
`FromType` is its owning type - lists each one-way relationship once and each two-way pair once:

(i) every one-way relationship occurs exactly once, as itself;
(ii) for every two-way relationship `r` of a type `t`, the relationship `r'` that `Check` looks
for in the target type exists; the two are completed with each other's `ToOne`, the completed
values are inverses of each other and normalise to ONE value, which occurs exactly once; `Normalize`
keeps at least one of `r`, `r'`, and both only when `r` is its own inverse - in which case `r'`
is `r` itself (same type, same relationship): a self-inverse relationship is its own pair;
(iii) every entry is one of those;
(iv) the entries are, up to order, the completions of the ends `Normalize` keeps (a duplicate-free
list), so their number is the number of one-way relationships plus the number of two-way pairs,
a pair being counted at the one end that `Normalize` keeps (by (ii) there is exactly one). -/
theorem C16_rels_coherent (σ : Schema) (hI : Inv σ) (hc : σ.check = [])
    (ho : ∀ t ∈ σ.types, ∀ r ∈ t.rels.vals, r.fromType = t.name) :
    (∀ t ∈ σ.types, ∀ r ∈ t.rels.vals, r.toName = [] → σ.relsSorted.count r = 1) ∧
    (∀ t ∈ σ.types, ∀ r ∈ t.rels.vals, r.toName ≠ [] →
      ∃ r', σ.getType r.toType ∈ σ.types ∧ r' ∈ (σ.getType r.toType).rels.vals ∧
        r'.fromName = r.toName ∧ r'.toName = r.fromName ∧ r'.toType = t.name ∧
        σ.complete t r = { r with fromOne := r'.toOne } ∧
        σ.complete (σ.getType r.toType) r' = { r' with fromOne := r.toOne } ∧
        σ.complete (σ.getType r.toType) r' = (σ.complete t r).invert ∧
        (σ.complete t r).normalize = (σ.complete (σ.getType r.toType) r').normalize ∧
        σ.relsSorted.count (σ.complete t r).normalize = 1 ∧
        (r.normalize = r ∨ r'.normalize = r') ∧
        (r.normalize = r → r'.normalize = r' → r.selfInverse) ∧
        (r.selfInverse → σ.getType r.toType = t ∧ r' = r)) ∧
    (∀ x ∈ σ.relsSorted, ∃ t ∈ σ.types, ∃ r ∈ t.rels.vals,
      (r.toName = [] ∧ x = r) ∨ (r.toName ≠ [] ∧ x = (σ.complete t r).normalize)) ∧
    σ.relsSorted.Perm ((σ.ends.filter (fun e => decide (e.2.normalize = e.2))).map
      (fun e => σ.complete e.1 e.2)) ∧
    ((σ.ends.filter (fun e => decide (e.2.normalize = e.2))).map (fun e => σ.complete e.1 e.2)).Nodup ∧
    σ.relsSorted.length =
      σ.ends.countP (fun e => decide (e.2.toName = [])) +
      σ.ends.countP (fun e => decide (e.2.toName ≠ []) && decide (e.2.normalize = e.2)) := by
  have h : Coherent σ := ⟨hI, hc, ho⟩
  refine ⟨?_, ?_, ?_, (relsSorted_perm_canon h).1, (relsSorted_perm_canon h).2, ?_⟩
  · intro t ht r hr h1
    exact C16_rels_oneway_once σ t ht r hr h1
  · intro t ht r hr h2
    obtain ⟨r', ht', hr', ha, hb, hcc, h2', c1, cinv, hnorm, hself⟩ := coherent_pair h ht hr h2
    have hn' : (σ.getType r.toType).name = r.toType := (target_mem hc ht hr).2
    have hfn : r.fromName ≠ [] := fromName_ne_nil (hI.2 t ht).2 hr
    have c2 : σ.complete (σ.getType r.toType) r' = { r' with fromOne := r.toOne } := by
      rw [cinv, c1]
      obtain ⟨a1, a2, a3, a4, a5, a6⟩ := r
      obtain ⟨b1, b2, b3, b4, b5, b6⟩ := r'
      have e1 := ho _ ht' _ hr'
      have e2 := ho _ ht _ hr
      simp only at ha hb hcc e1 e2 hn'
      simp only [Rel.invert, Rel.mk.injEq]
      exact ⟨by rw [e1, hn'], ha.symm, trivial, by rw [hcc, e2], hb.symm, trivial⟩
    have hcp := Rel.canon_pair (r := r) (r' := r') (by rw [ho _ ht' _ hr', hn']) ha
      (by rw [hcc, ho _ ht _ hr]) hb h2 hfn
    exact ⟨r', ht', hr', ha, hb, hcc, c1, c2, cinv, hnorm.symm,
      List.count_eq_one_of_mem (nodup_relsSorted σ) ((C16_rels σ).1 t ht r hr),
      hcp.1, hcp.2, hself⟩
  · intro x hx
    obtain ⟨t, ht, r, hr, e⟩ := (C16_rels σ).2.1 x hx
    refine ⟨t, ht, r, hr, ?_⟩
    by_cases h1 : r.toName = []
    · left; refine ⟨h1, ?_⟩
      rw [e, (C16_complete_fields σ t r).2 h1, C16_normalize_oneway r h1]
    · exact .inr ⟨h1, e⟩
  · rw [(relsSorted_perm_canon h).1.length_eq, List.length_map, ← List.countP_eq_length_filter]
    simp only [ne_eq, decide_not]
    refine countP_split _ _ ?_ _
    intro e he
    have : e.2.toName = [] := of_decide_eq_true he
    exact decide_eq_true (C16_normalize_oneway e.2 this)

/-- The struct-built pair users.posts (`[]string`, api:"rel,posts,author") / posts.author
(`string`, api:"rel,users,posts"): `BuildType` leaves `FromOne` false on both sides. -/
def C16_usersPosts : Schema :=
  { types := [
      { name := gs "users", attrs := [],
        rels := [(gs "posts", { fromType := gs "users", fromName := gs "posts", toOne := false,
                                toType := gs "posts", toName := gs "author", fromOne := false })] },
      { name := gs "posts", attrs := [],
        rels := [(gs "author", { fromType := gs "posts", fromName := gs "author", toOne := true,
                                 toType := gs "users", toName := gs "posts", fromOne := false })] }] }

/-- The listing before the repair: the set of the plain normal forms. -/
def Schema.relSetUnrepaired (s : Schema) : List Rel :=
  dedup (s.types.flatMap (fun t => t.rels.vals.map Rel.normalize))

theorem C16_usersPosts_inv : Inv C16_usersPosts := by
  refine ⟨by decide, ?_⟩
  intro t ht
  simp only [C16_usersPosts, List.mem_cons, List.not_mem_nil, or_false] at ht
  rcases ht with rfl | rfl
  · exact ⟨by decide, ⟨by decide, by decide, by decide, by decide, by decide⟩⟩
  · exact ⟨by decide, ⟨by decide, by decide, by decide, by decide, by decide⟩⟩

/-! Non-vacuity of `C16_rels_coherent`: the struct-built schema satisfies its hypotheses, and
its pair is listed once, with the cardinalities of both sides. -/
example :
    Inv C16_usersPosts ∧ C16_usersPosts.check = [] ∧
    (∀ t ∈ C16_usersPosts.types, ∀ r ∈ t.rels.vals, r.fromType = t.name) ∧
    C16_usersPosts.relSet = [{ fromType := gs "posts", fromName := gs "author", toOne := true,
                               toType := gs "users", toName := gs "posts", fromOne := false }] ∧
    C16_usersPosts.relsSorted.length = 1 :=
  ⟨C16_usersPosts_inv, by decide, by decide, by decide,
   by rw [relsSorted, (List.mergeSort_perm _ _).length_eq]; decide⟩

/-- Without the completion the same schema - on which `Check` reports nothing - is listed with
TWO entries for its one pair: the defect the repair of `buildRels` removes. -/
theorem C16_unrepaired_counterexample :
    C16_usersPosts.check = [] ∧
    C16_usersPosts.relSetUnrepaired.length = 2 ∧
    (C16_usersPosts.relSetUnrepaired.mergeSort Rel.le).length = 2 ∧
    C16_usersPosts.relsSorted.length = 1 := by
  refine ⟨by decide, by decide, ?_, ?_⟩
  · rw [(List.mergeSort_perm _ _).length_eq]; decide
  · rw [relsSorted, (List.mergeSort_perm _ _).length_eq]; decide

/-! Non-vacuity: the adversarial names of the property text. -/
example :
    let r : Rel := { fromType := gs "ab", fromName := gs "c", toOne := true,
                     toType := gs "a", toName := gs "bc", fromOne := false }
    r.invert.normalize = r.normalize ∧ r.invert.string = r.string ∧ r.normalize = r.invert := by
  decide

#print axioms C16_invert_invert
#print axioms C16_normalize_mem
#print axioms C16_normalize_oneway
#print axioms C16_normalize_idem
#print axioms C16_normalize_invert
#print axioms C16_string_invert
#print axioms C16_rels
#print axioms C16_complete_fields
#print axioms C16_rels_pair_once
#print axioms C16_rels_oneway_once
#print axioms C16_rels_order
#print axioms C16_rels_perm
#print axioms C16_rels_types_perm
#print axioms C16_rels_types_perm_needs_distinct_names
#print axioms C16_rels_coherent
#print axioms C16_unrepaired_counterexample

end Jsonapi
