/-
C05, the clause on requests: "… and building a request from an HTTP request carrying that
body – returns without panicking, with either an error and no result or a result and no
error", composed from C07_total (the URL part) and C05_total / C05_document (the body part).
-/
import Jsonapi.Model.Request
import Jsonapi.Props.C05
import Jsonapi.Props.C07
namespace Jsonapi
open UnmL

/-- `NewRequest` never panics: whatever the method, path, query values, filter decoding and
body skeleton, for every well-formed schema. -/
theorem C05_request_total (σ : SSchema) (hσ : σ.WF) (method : GoString) (bodyRead : Bool)
    (path : GoString) (values : GoMap (List GoString)) (fd : FilterDec) (sk : Option DocSke) :
    newRequest σ method bodyRead path values fd sk ≠ .panic := by
  have hu := C07_total σ.toSchema (some (path, values, fd))
  have hd := (C05_total σ hσ).2.2.2.1 sk
  unfold newRequest
  cases bodyRead with
  | false => simp
  | true =>
    simp only [Bool.not_true, Bool.false_eq_true, if_false]
    cases hU : newURLFrom σ.toSchema (some (path, values, fd)) with
    | panic => exact absurd hU hu
    | err => simp
    | ok u =>
      simp only
      by_cases hm : method = mPOST ∨ method = mPATCH
      · rw [if_pos hm]
        cases hD : unmarshalDocument σ sk with
        | panic => exact absurd hD hd
        | err => simp
        | ok d => simp
      · rw [if_neg hm]; simp

/-- A returned request carries the method, a URL the URL parser returned for the request's
URL, and a document exactly for POST and PATCH – the one UnmarshalDocument returned for the
body, whose resources conform to the schema (C05_document). -/
theorem C05_request_ok (σ : SSchema) (hσ : σ.WF) (method : GoString) (bodyRead : Bool)
    (path : GoString) (values : GoMap (List GoString)) (fd : FilterDec) (sk : Option DocSke)
    (req : Request) (h : newRequest σ method bodyRead path values fd sk = .ok req) :
    req.method = method ∧
    newURLFrom σ.toSchema (some (path, values, fd)) = .ok req.url ∧
    ((method = mPOST ∨ method = mPATCH) → ∃ d, req.doc = some d ∧ unmarshalDocument σ sk = .ok d ∧
        (∀ r, d.data = .res r → Conforms σ r) ∧ (∀ rs, d.data = .col rs → ∀ r ∈ rs, Conforms σ r) ∧
        (∀ r ∈ d.included, Conforms σ r)) ∧
    (¬ (method = mPOST ∨ method = mPATCH) → req.doc = none) := by
  unfold newRequest at h
  split at h
  · cases h
  · split at h
    · rename_i u hu
      split at h
      · rename_i hm
        split at h
        · rename_i d hd
          cases h
          refine ⟨rfl, hu, fun _ => ⟨d, rfl, hd, C05_document σ hσ sk d hd⟩, fun hn => absurd hm hn⟩
        · cases h
        · cases h
      · rename_i hm
        cases h
        exact ⟨rfl, hu, fun hm' => absurd hm' hm, fun _ => rfl⟩
    · cases h
    · cases h

/-- An unreadable body, an unparsable URL or (for POST/PATCH) a rejected body gives an error
and no request. -/
theorem C05_request_err (σ : SSchema) (method : GoString) (path : GoString)
    (values : GoMap (List GoString)) (fd : FilterDec) (sk : Option DocSke) :
    newRequest σ method false path values fd sk = .err ∧
    (newURLFrom σ.toSchema (some (path, values, fd)) = .err →
      ∀ b, newRequest σ method b path values fd sk = .err) := by
  refine ⟨by simp [newRequest], ?_⟩
  intro hu b
  unfold newRequest
  cases b <;> simp [hu]

end Jsonapi

section Axioms
open Jsonapi
#print axioms C05_request_total
#print axioms C05_request_ok
#print axioms C05_request_err
end Axioms
