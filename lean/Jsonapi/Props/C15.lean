/-
C15 — Schema.Check finds every dangling or unreciprocated relationship.
-/
import Jsonapi.Proofs.SchemaLemmas
import Jsonapi.Proofs.C15Lemmas
import Jsonapi.Generated.Facts
namespace Jsonapi
open Schema

/-- The property's reading of "offending", written without looking at `Check`. -/
def offending (σ : Schema) (t : Typ) (r : Rel) : Prop :=
  ¬ σ.hasType r.toType ∨
  (r.toName ≠ [] ∧
    (r.fromType ≠ t.name ∨
     ¬ ∃ ι ∈ (σ.getType r.toType).rels.vals,
        ι.fromName = r.toName ∧ ι.toName = r.fromName ∧ ι.toType = t.name))

/-- Type names are non-empty (part of C14's invariant). -/
def NamesNonEmpty (σ : Schema) : Prop := ∀ t ∈ σ.types, t.name ≠ []

theorem getType_name_empty_iff (σ : Schema) (h : NamesNonEmpty σ) (n : GoString) :
    (σ.getType n).name = [] ↔ ¬ σ.hasType n := by
  unfold Schema.getType Schema.hasType
  cases hf : σ.types.find? (fun t => decide (t.name = n)) with
  | none =>
    simp only [Typ.empty, true_iff]
    rw [List.find?_eq_none] at hf
    simpa using hf
  | some t =>
    have hm := List.mem_of_find?_eq_some hf
    have hp := List.find?_some hf
    simp only [decide_eq_true_eq] at hp
    constructor
    · intro e; exact absurd e (h t hm)
    · intro hall
      exact absurd (List.any_eq_true.2 ⟨t, hm, by simpa using hp⟩) hall

theorem checkRel_pos_iff (σ : Schema) (h : NamesNonEmpty σ) (t : Typ) (r : Rel) :
    0 < checkRel σ t r ↔ offending σ t r := by
  have hg := getType_name_empty_iff σ h r.toType
  have h1 : 0 < checkTarget σ r ↔ ¬ σ.hasType r.toType := by
    unfold checkTarget; rw [← hg]; split <;> simp_all
  have h2 : 0 < checkInverse σ t r ↔ (r.toName ≠ [] ∧ (r.fromType ≠ t.name ∨
      ¬ ∃ ι ∈ (σ.getType r.toType).rels.vals,
        ι.fromName = r.toName ∧ ι.toName = r.fromName ∧ ι.toType = t.name)) := by
    unfold checkInverse
    by_cases a : r.toName = []
    · simp [a]
    · by_cases b : r.fromType = t.name
      · simp only [a, if_false, b, ne_eq, not_true_eq_false, not_false_eq_true, true_and, false_or]
        simp only [List.any_eq_true, decide_eq_true_eq, GoMap.vals, List.mem_map]
        constructor
        · intro hp
          split at hp
          · omega
          · rename_i hn
            rintro ⟨ι, ⟨p, hp1, hp2⟩, ha, hb, hc⟩
            exact hn ⟨p, hp1, by rw [hp2]; exact ⟨hb.symm, ha.symm, hc⟩⟩
        · intro hn
          split
          · rename_i hp
            obtain ⟨p, hp1, ha, hb, hc⟩ := hp
            exact absurd ⟨p.2, ⟨p, hp1, rfl⟩, hb.symm, ha.symm, hc⟩ hn
          · omega
      · simp [a, b]
  unfold checkRel offending
  rw [← h1, ← h2]; omega

/-- `Check` returns no error exactly when no relationship is offending. -/
theorem C15_sound_complete (σ : Schema) (h : NamesNonEmpty σ) :
    σ.check = [] ↔ ∀ t ∈ σ.types, ∀ r ∈ t.rels.vals, ¬ offending σ t r := by
  unfold Schema.check
  simp only [List.flatMap_eq_nil_iff, List.filterMap_eq_nil_iff, GoMap.vals, List.mem_map]
  constructor
  · intro hc t ht r ⟨p, hp, hr⟩ hoff
    have := hc t ht p hp
    rw [hr] at this
    have hpos := (checkRel_pos_iff σ h t r).2 hoff
    split at this
    · omega
    · exact absurd this (by simp)
  · intro hc t ht p hp
    have hn := hc t ht p.2 ⟨p, hp, rfl⟩
    have : ¬ 0 < checkRel σ t p.2 := fun hpos => hn ((checkRel_pos_iff σ h t p.2).1 hpos)
    have h0 : checkRel σ t p.2 = 0 := by omega
    simp [h0]

/-- At least one error is reported for each offending relationship. -/
theorem C15_each (σ : Schema) (h : NamesNonEmpty σ) (t : Typ) (ht : t ∈ σ.types)
    (r : Rel) (hr : r ∈ t.rels.vals) (hoff : offending σ t r) :
    ∃ e ∈ σ.check, e.1 = t.name ∧ e.2.1 = r.fromName ∧ 1 ≤ e.2.2 := by
  have hpos := (checkRel_pos_iff σ h t r).2 hoff
  obtain ⟨p, hp, hpr⟩ := List.mem_map.1 hr
  refine ⟨(t.name, r.fromName, checkRel σ t r), ?_, rfl, rfl, hpos⟩
  unfold Schema.check
  rw [List.mem_flatMap]
  refine ⟨t, ht, ?_⟩
  rw [List.mem_filterMap]
  refine ⟨p, hp, ?_⟩
  rw [hpr]
  have : checkRel σ t r ≠ 0 := by omega
  simp [this]

/-- `Check` is a function of the schema only (it returns no new schema: the model of
`Check` cannot modify it), and on the Go side the extractor reports that neither
`Check` nor the lookup it calls assigns through the receiver. -/
theorem C15_pure_fact :
    Facts.writesThrough.lookup "Schema.Check" = some false ∧
    Facts.writesThrough.lookup "Schema.GetType" = some false := by decide

/-- No step of `check` is partial: it is a total function (there is no `Res.panic`
outcome to exclude). Stated as: it always returns a list. -/
theorem C15_total (σ : Schema) : ∃ l, σ.check = l := ⟨_, rfl⟩

/-! Non-vacuity: a mis-typed inverse is offending and reported. -/
example :
    let a : Typ := { name := gs "a", attrs := [], rels := [(gs "x", { fromType := gs "a", fromName := gs "x", toOne := true, toType := gs "b", toName := gs "y", fromOne := true })] }
    let b : Typ := { name := gs "b", attrs := [], rels := [(gs "y", { fromType := gs "b", fromName := gs "y", toOne := true, toType := gs "b", toName := gs "x", fromOne := true })] }
    let σ : Schema := { types := [a, b] }
    σ.checkCount = 2 := by decide

/-! ### Independence of map iteration order

`Check` ranges over each type's `Rels` map, and `GetType(...).Rels` is ranged over
again for the inverse test. Go randomises map iteration order; the model's
association lists fix one order. Two schemas are "the same up to map order" when
they have the same types in the same slice order, each with the same name and the
same attribute / relationship maps listed in possibly different orders. -/

def SameUpToMapOrder (σ σ' : Schema) : Prop :=
  Forall2 (fun t t' => t.name = t'.name ∧ t.attrs.Perm t'.attrs ∧ t.rels.Perm t'.rels)
    σ.types σ'.types

/-- The outcome of `Check` does not depend on map iteration order: the reported
errors are the same multiset, their count is the same, and "no error" is the same. -/
theorem C15_order_independent (σ σ' : Schema) (h : SameUpToMapOrder σ σ') :
    (check σ).Perm (check σ') ∧ checkCount σ = checkCount σ' ∧
      (check σ = [] ↔ check σ' = []) := by
  have hp : (check σ).Perm (check σ') := C15L.check_perm h
  refine ⟨hp, C15L.sum_foldl_perm hp, ?_⟩
  constructor
  · intro e; rw [e] at hp; exact hp.symm.eq_nil
  · intro e; rw [e] at hp; exact hp.eq_nil

/-! Non-vacuity: a two-type schema whose `Rels` maps are listed in two different
orders; the hypothesis holds, the two `check` lists differ as lists (so the `Perm`
is not an equality in disguise), and both report the same three errors. -/
example :
    let r1 : Rel := { fromType := gs "a", fromName := gs "x", toOne := true, toType := gs "b", toName := gs "y", fromOne := true }
    let r2 : Rel := { fromType := gs "a", fromName := gs "z", toOne := false, toType := gs "c", toName := [], fromOne := false }
    let r3 : Rel := { fromType := gs "b", fromName := gs "y", toOne := true, toType := gs "b", toName := gs "x", fromOne := true }
    let r4 : Rel := { fromType := gs "b", fromName := gs "w", toOne := true, toType := gs "a", toName := [], fromOne := false }
    let a  : Typ := { name := gs "a", attrs := [], rels := [(gs "x", r1), (gs "z", r2)] }
    let a' : Typ := { name := gs "a", attrs := [], rels := [(gs "z", r2), (gs "x", r1)] }
    let b  : Typ := { name := gs "b", attrs := [], rels := [(gs "y", r3), (gs "w", r4)] }
    let b' : Typ := { name := gs "b", attrs := [], rels := [(gs "w", r4), (gs "y", r3)] }
    let σ  : Schema := { types := [a, b] }
    let σ' : Schema := { types := [a', b'] }
    SameUpToMapOrder σ σ' ∧ σ.check ≠ σ'.check ∧ σ.check ≠ [] ∧
      σ.checkCount = 3 ∧ σ'.checkCount = 3 := by
  intro r1 r2 r3 r4 a a' b b' σ σ'
  refine ⟨?_, by decide, by decide, by decide, by decide⟩
  exact Forall2.cons ⟨rfl, List.Perm.refl _, List.Perm.swap _ _ _⟩
    (Forall2.cons ⟨rfl, List.Perm.refl _, List.Perm.swap _ _ _⟩ Forall2.nil)

#print axioms C15_sound_complete
#print axioms C15_each
#print axioms C15_pure_fact
#print axioms C15_total
#print axioms C15_order_independent
end Jsonapi
