/-
C04 — sparse fieldsets and relationship data in marshaled documents.

"For every resource object in a marshaled document, the attribute names present are
exactly the attributes of its type that the URL's field selection lists for that type,
the relationship names present are exactly the selected relationships, and a
relationship carries a data member iff the document asks for that relationship's data.
A data member lists exactly the resource's related IDs, each with the relationship's
target type (null for an empty to-one); a type without a selection entry exposes no
attributes or relationships."

Domain: `ResView.keyedWf` (Jsonapi/Proofs/MarshalLemmas.lean): well-typed resources whose
attribute / relationship maps are keyed by name, names all distinct. The theorems hold for
EVERY fields list (empty, unknown names, "id", duplicates) and every relData map.
-/
import Jsonapi.Proofs.MarshalLemmas3
namespace Jsonapi
open MarshalL

/-- 1. On the domain the model's `MarshalResource` succeeds and returns exactly the object of
the specification; the resource is unchanged except for the order of to-many ID lists. -/
theorem C04_resource (r : ResView) (hr : r.keyedWf) (prepath : GoString) (fields : List GoString)
    (relData : GoMap (List GoString)) (rmeta : Meta) :
    ∃ r', marshalResource r prepath fields relData rmeta =
        .ok (Spec.resourceObject r prepath fields relData rmeta, r') ∧
      r'.typeName = r.typeName ∧ r'.id = r.id ∧ r'.attrs = r.attrs ∧ r'.rels = r.rels ∧
      (∀ k, r'.get k = r.get k ∨
        ∃ l, r.get k = .strs l ∧ r'.get k = .strs (Typ.sortStrings l)) := by
  obtain ⟨r', h, hs⟩ := marshalResource_eq r hr prepath fields relData rmeta
  exact ⟨r', h, hs⟩

/-- 2a. A name is a member of the "attributes" object iff it is the name of an attribute of
the resource and the selection lists it. (When nothing is selected there is no
"attributes" member at all, so the left side is false.) No hypothesis on the resource. -/
theorem C04_attr_present_iff (r : ResView) (prepath : GoString) (fields : List GoString)
    (relData : GoMap (List GoString)) (rmeta : Meta) (n : GoString) :
    (∃ a, (Spec.resourceObject r prepath fields relData rmeta).get? K.attributes = some a ∧
        a.has n = true) ↔
    ((∃ a ∈ r.attrs.vals, a.name = n) ∧ n ∈ fields) := by
  rw [resObj_attr_has, mem_keys_attrMembers]

/-- on the domain "is the name of an attribute" is "is a key of the attribute map" -/
theorem C04_attr_present_iff_keyed (r : ResView) (hr : r.keyedWf) (prepath : GoString)
    (fields : List GoString) (relData : GoMap (List GoString)) (rmeta : Meta) (n : GoString) :
    (∃ a, (Spec.resourceObject r prepath fields relData rmeta).get? K.attributes = some a ∧
        a.has n = true) ↔
    (n ∈ r.attrs.keys ∧ n ∈ fields) := by
  rw [C04_attr_present_iff]
  have : (∃ a ∈ r.attrs.vals, a.name = n) ↔ n ∈ r.attrs.keys := by
    simp only [GoMap.vals, GoMap.keys, List.mem_map]
    constructor
    · rintro ⟨a, ⟨p, hp, rfl⟩, rfl⟩; exact ⟨p, hp, hr.2.1 p hp⟩
    · rintro ⟨p, hp, rfl⟩; exact ⟨p.2, ⟨p, hp, rfl⟩, (hr.2.1 p hp).symm⟩
  rw [this]

/-- the value of a selected attribute is the encoding of the resource's value -/
theorem C04_attr_value (r : ResView) (hr : r.keyedWf) (prepath : GoString)
    (fields : List GoString) (relData : GoMap (List GoString)) (rmeta : Meta)
    (a : Attr) (ha : a ∈ r.attrs.vals) (hf : a.name ∈ fields) :
    ∃ o, (Spec.resourceObject r prepath fields relData rmeta).get? K.attributes = some o ∧
      o.get? a.name = some (encodeAttr (r.get a.name)) :=
  resObj_attr_value hr prepath fields relData rmeta ha hf

/-- 2b. A name is a member of the "relationships" object iff it is the name of a
relationship of the resource and the selection lists it. -/
theorem C04_rel_present_iff (r : ResView) (prepath : GoString) (fields : List GoString)
    (relData : GoMap (List GoString)) (rmeta : Meta) (n : GoString) :
    (∃ a, (Spec.resourceObject r prepath fields relData rmeta).get? K.relationships = some a ∧
        a.has n = true) ↔
    ((∃ rel ∈ r.rels.vals, rel.fromName = n) ∧ n ∈ fields) := by
  rw [resObj_rel_has, mem_keys_relMembers]

theorem C04_rel_present_iff_keyed (r : ResView) (hr : r.keyedWf) (prepath : GoString)
    (fields : List GoString) (relData : GoMap (List GoString)) (rmeta : Meta) (n : GoString) :
    (∃ a, (Spec.resourceObject r prepath fields relData rmeta).get? K.relationships = some a ∧
        a.has n = true) ↔
    (n ∈ r.rels.keys ∧ n ∈ fields) := by
  rw [C04_rel_present_iff]
  have : (∃ a ∈ r.rels.vals, a.fromName = n) ↔ n ∈ r.rels.keys := by
    simp only [GoMap.vals, GoMap.keys, List.mem_map]
    constructor
    · rintro ⟨a, ⟨p, hp, rfl⟩, rfl⟩; exact ⟨p, hp, hr.2.2.1 p hp⟩
    · rintro ⟨p, hp, rfl⟩; exact ⟨p.2, ⟨p, hp, rfl⟩, (hr.2.2.1 p hp).symm⟩
  rw [this]

/-- 2c. The relationship object of a selected relationship has a "data" member iff the
document's relData lists the relationship for the resource's type. -/
theorem C04_data_present_iff (r : ResView) (hr : r.keyedWf) (prepath : GoString)
    (fields : List GoString) (relData : GoMap (List GoString)) (rmeta : Meta)
    (rel : Rel) (hrel : rel ∈ r.rels.vals) (hf : rel.fromName ∈ fields) :
    ∃ rs ro, (Spec.resourceObject r prepath fields relData rmeta).get? K.relationships = some rs ∧
      rs.get? rel.fromName = some ro ∧
      (ro.has K.data = true ↔ rel.fromName ∈ (relData.get? r.typeName).getD []) := by
  obtain ⟨rs, h1, h2⟩ := resObj_rel_value hr prepath fields relData rmeta hrel hf
  refine ⟨rs, _, h1, h2, ?_⟩
  rw [relObject_has_data]
  simp [wantOf]

/-- 3. The data member of a selected and requested relationship is `Spec.relDataJson`:
to-one: null iff the ID is empty, else the identifier with the target type;
to-many: the identifiers, with the target type, of a permutation (the sorted list) of the
resource's IDs. -/
theorem C04_data_exact (r : ResView) (hr : r.keyedWf) (prepath : GoString)
    (fields : List GoString) (relData : GoMap (List GoString)) (rmeta : Meta)
    (rel : Rel) (hrel : rel ∈ r.rels.vals) (hf : rel.fromName ∈ fields)
    (hw : rel.fromName ∈ (relData.get? r.typeName).getD []) :
    (∃ rs ro, (Spec.resourceObject r prepath fields relData rmeta).get? K.relationships = some rs ∧
      rs.get? rel.fromName = some ro ∧ ro.get? K.data = some (Spec.relDataJson r rel)) ∧
    (rel.toOne = true → ∃ id, r.get rel.fromName = .val .string (.s id) ∧
      Spec.relDataJson r rel = if id = [] then .null else identifierJson id rel.toType) ∧
    (rel.toOne = false → ∃ (ids sorted : List GoString), r.get rel.fromName = .strs ids ∧ sorted.Perm ids ∧
      Spec.relDataJson r rel = .arr (sorted.map (fun id => identifierJson id rel.toType))) := by
  refine ⟨?_, ?_, ?_⟩
  · obtain ⟨rs, h1, h2⟩ := resObj_rel_value hr prepath fields relData rmeta hrel hf
    refine ⟨rs, _, h1, h2, ?_⟩
    have : (wantOf r relData).contains rel.fromName = true := by simpa [wantOf] using hw
    rw [this, relObject_get_data]
  · intro hone; exact relDataJson_toOne hr hrel hone
  · intro hmany
    obtain ⟨ids, h1, h2, h3⟩ := relDataJson_toMany hr hrel hmany
    exact ⟨ids, _, h1, h2, h3⟩

/-- 4. On the domain the model's `MarshalDocument` fails exactly when the specification has
no tree (data of an unknown Go type) and otherwise returns exactly the tree of the
specification, in which every resource object (primary, collection member, included) is
`Spec.resourceObject` with the selection `Spec.selection fields typeName`. -/
theorem C04_document (doc : Document) (hdom : ∀ r ∈ docResources doc, r.keyedWf)
    (fields : GoMap (List GoString)) (selfHref : GoString) :
    (Spec.documentTree doc fields selfHref = none → marshalDocument doc fields selfHref = .err) ∧
    (∀ t, Spec.documentTree doc fields selfHref = some t →
      ∃ doc', marshalDocument doc fields selfHref = .ok (t, doc')) :=
  marshalDocument_eq doc hdom fields selfHref

/-- the same for a collection on its own -/
theorem C04_collection (c : List ResView) (hc : ∀ r ∈ c, r.keyedWf) (prepath : GoString)
    (fields : GoMap (List GoString)) (relData : GoMap (List GoString)) :
    ∃ c', marshalCollection c prepath fields relData =
      .ok (.arr (c.map (fun r =>
        Spec.resourceObject r prepath (Spec.selection fields r.typeName) relData)), c') :=
  marshalCollection_eq c hc prepath fields relData

/-- A type without a selection entry exposes no attributes and no relationships. -/
theorem C04_no_entry (r : ResView) (prepath : GoString) (fields : GoMap (List GoString))
    (relData : GoMap (List GoString)) (rmeta : Meta) (h : fields.get? r.typeName = none) :
    (Spec.resourceObject r prepath (Spec.selection fields r.typeName) relData rmeta).has
        K.attributes = false ∧
    (Spec.resourceObject r prepath (Spec.selection fields r.typeName) relData rmeta).has
        K.relationships = false := by
  have hs : Spec.selection fields r.typeName = [] := by simp [Spec.selection, h]
  rw [hs]
  unfold Json.has
  rw [resObj_get_attributes, resObj_get_relationships]
  simp [attrMembers, relMembers]

/-- More generally: nothing outside the selection is ever exposed. -/
theorem C04_not_selected (r : ResView) (prepath : GoString) (fields : List GoString)
    (relData : GoMap (List GoString)) (rmeta : Meta) (n : GoString) (h : n ∉ fields) :
    (¬ ∃ a, (Spec.resourceObject r prepath fields relData rmeta).get? K.attributes = some a ∧
        a.has n = true) ∧
    (¬ ∃ a, (Spec.resourceObject r prepath fields relData rmeta).get? K.relationships = some a ∧
        a.has n = true) := by
  rw [C04_attr_present_iff, C04_rel_present_iff]
  exact ⟨fun h' => h h'.2, fun h' => h h'.2⟩

#print axioms C04_resource
#print axioms C04_attr_present_iff
#print axioms C04_attr_present_iff_keyed
#print axioms C04_attr_value
#print axioms C04_rel_present_iff
#print axioms C04_rel_present_iff_keyed
#print axioms C04_data_present_iff
#print axioms C04_data_exact
#print axioms C04_document
#print axioms C04_collection
#print axioms C04_no_entry
#print axioms C04_not_selected

/-! ### non-vacuity: a resource of the domain with an attribute, an empty to-one and an
unsorted to-many relationship -/

def c04_sample : ResView :=
  { typeName := [97], id := [49],
    attrs := [([116], { name := [116], ty := 1, nullable := false })],
    rels := [([111], { fromType := [97], fromName := [111], toOne := true, toType := [98],
                       toName := [], fromOne := false }),
             ([109], { fromType := [97], fromName := [109], toOne := false, toType := [98],
                       toName := [], fromOne := false })],
    vals := [([116], .val .string (.s [120])), ([111], .val .string (.s [])),
             ([109], .strs [[50], [49]])] }

example : c04_sample.keyedWf := by decide

example : (∃ a ∈ c04_sample.attrs.vals, a.name = [116]) ∧ [116] ∈ [[116], [105, 100], [122], [116]] ∧
    (∃ rel ∈ c04_sample.rels.vals, rel.fromName = [109] ∧ rel.toOne = false) := by decide

/-- the present-iff theorem at work on the sample, with a fields list containing an unknown
name, "id" and a duplicate -/
example : ∃ a, (Spec.resourceObject c04_sample [47] [[116], [105, 100], [122], [116]] []).get?
    K.attributes = some a ∧ a.has [116] = true :=
  (C04_attr_present_iff _ _ _ _ _ _).2 (by decide)

end Jsonapi
