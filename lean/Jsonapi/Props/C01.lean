/-
C01 — Marshaling a resource and unmarshaling it again yields the same resource.

"For every schema type, whether its resources are wrapped structs or soft resources, and every
resource of that type, marshaling the resource with all of its fields and all relationship
data selected and unmarshaling the bytes against the same schema yields a resource with the
same type name, the same ID and, for every attribute and relationship, the same value. Same
value means: integers exactly, strings code point for code point, times as the same instant,
byte strings byte for byte, null-ness preserved, to-one IDs equal and to-many relationships
the same set of IDs."

How the pieces fit:
* the marshaling side is the JSON tree of `Spec.resourceObject` (C04_resource: the model's
  `marshalResource` returns exactly that tree on the domain `ResView.keyedWf`);
* between the two sides stands `encoding/json`: `Spec.skeletonOf c t` is the resource skeleton
  it decodes from the tree `t` (strings verbatim; numbers / booleans / null by their literal;
  time.Time and []byte through the delegated decoders `c : Spec.Codecs`, about which only the
  two codec laws `time_law` and `b64_law` are assumed — structure fields, no axioms);
* integers are printed by `strconv.Itoa`-style code and parsed by `strconv.ParseInt/ParseUint`,
  both modelled: `C01_int_roundtrip` is their codec law, proved here;
* `Spec.sameVal` is "same value" (`C01_sameVal_*` spell it out).

Domain (the hypotheses of `C01_roundtrip`): a well-formed schema (`SSchema.WF`, as in C05/C06),
a type `st` of the schema (soft: `st.backed = false`, wrapped struct: `st.backed = true`), a
resource view `r` that is `keyedWf` (C04's domain: well-typed, maps keyed by name), has the
type's name, the type's attribute definitions, the type's relationship definitions up to the
fields the library reads (`Spec.relCore`: name, cardinality, target type), and whose attribute
values are in the domain of the delegated codecs (`Spec.codecDom`: a time satisfies
`c.TimeOk`).
-/
import Jsonapi.Proofs.RoundTripLemmas3
import Jsonapi.Proofs.RoundTripCodecs
namespace Jsonapi
open GoMap UnmL MarshalL RtL

/-! ### 1. The codec laws of strconv -/

/-- Decimal printing: a non-empty string of ASCII digits whose value is the number. -/
theorem C01_printNat (n : Nat) :
    printNat n ≠ [] ∧ (printNat n).all isDigit = true ∧ digitsVal (printNat n) = n :=
  ⟨printNat_ne_nil n, printNat_all_digit n, digitsVal_printNat n⟩

/-- For every integer kind and every integer in the kind's range, parsing the printed integer
with the width of the kind gives the integer back: `ParseInt` for the five signed kinds,
`ParseUint` for the five unsigned kinds (all widths, uint64 above 2^63 included). -/
theorem C01_int_roundtrip (k : Kind) (lo hi n : Int) (hr : k.range? = some (lo, hi))
    (hlo : lo ≤ n) (hhi : n ≤ hi) :
    (k.isSigned = true → parseInt k.bits (printInt n) = some n) ∧
    (k.isUnsigned = true → parseUint k.bits (printInt n) = some n.toNat ∧ (n.toNat : Int) = n) := by
  constructor
  · intro hs
    rw [Kind.signed_range k hs] at hr
    cases hr
    exact parseInt_printInt k.bits n hlo (by omega)
  · intro hu
    rw [Kind.unsigned_range k hu] at hr
    cases hr
    exact ⟨parseUint_printInt k.bits n hlo (by omega), by omega⟩

/-- every integer kind is signed or unsigned, so `C01_int_roundtrip` covers all ten -/
theorem C01_int_kinds (k : Kind) : k.isInt = true ↔ (k.isSigned = true ∨ k.isUnsigned = true) := by
  cases k <;> decide

/-- the widths themselves: any `bits`, any integer of the width -/
theorem C01_parse_print (bits : Nat) (i : Int) :
    (-((2 ^ (bits - 1) : Nat) : Int) ≤ i → i < ((2 ^ (bits - 1) : Nat) : Int) →
      parseInt bits (printInt i) = some i) ∧
    (0 ≤ i → i < ((2 ^ bits : Nat) : Int) → parseUint bits (printInt i) = some i.toNat) :=
  ⟨parseInt_printInt bits i, parseUint_printInt bits i⟩

/-! ### 2. One attribute value -/

/-- What the model writes for a value of the attribute's type (`encodeAttr`), decoded by
`encoding/json` (`Spec.rawOf`), is accepted by `Attr.UnmarshalToType` and is the same value. -/
theorem C01_value_roundtrip (c : Spec.Codecs) (a : Attr) (k : Kind) (hk : Kind.ofCode? a.ty = some k)
    (v : GoVal) (hv : v.hasAttrType k a.nullable = true ∨ (a.nullable = true ∧ v = .nil))
    (hdom : Spec.codecDom c v) :
    ∃ v', unmarshalToType a (Spec.rawOf c (encodeAttr v)) = .ok v' ∧ Spec.sameVal v' v :=
  value_roundtrip c a k hk v hv hdom

/-- "Same value", spelled out: to-many relationships are compared as the same IDs up to
order; everything else through the canonical reading (`Spec.canon`: typed and untyped nil
alike, nil and empty byte strings alike), times as instants. -/
theorem C01_sameVal_strs (a b : List GoString) : Spec.sameVal (.strs a) (.strs b) ↔ a.Perm b := by
  rw [sameVal_strs]

theorem C01_sameVal_of_canon_eq (a b : GoVal) (h : Spec.canon a = Spec.canon b) : Spec.sameVal a b :=
  sameVal_of_canon_eq h

/-- For values that are neither times nor to-many lists "same value" is equality of the
canonical readings: integers, strings, booleans and byte strings are compared exactly. -/
theorem C01_sameVal_exact (a b : GoVal) (h : Spec.sameVal a b)
    (hl : ∀ l, a ≠ .strs l) (ht : ∀ k t, Spec.canon a ≠ .val k (.t t) ∧ Spec.canon a ≠ .ptr k (some (.t t))) :
    Spec.canon a = Spec.canon b := by
  rw [sameVal_nonstrs b hl] at h
  unfold sameCanon at h
  split at h
  · rename_i k t _ _ e _; exact absurd e (ht k t).1
  · rename_i k t _ _ e _; exact absurd e (ht k t).2
  · exact h

/-- Integers: exactly. -/
theorem C01_sameVal_int (a : GoVal) (k : Kind) (n : Int) (h : Spec.sameVal a (.val k (.i n))) :
    a = .val k (.i n) := by
  have hl : ∀ l, a ≠ .strs l := by
    rintro l rfl
    simp [Spec.sameVal, Spec.canon] at h
  rw [sameVal_nonstrs _ hl, canon_val] at h
  have hc : canonPay k (.i n) = .i n := by cases k <;> rfl
  rw [hc] at h
  unfold sameCanon at h
  split at h
  · rename_i e; cases e
  · rename_i e; cases e
  · cases a with
    | val k' p =>
      rw [canon_val] at h
      simp only [GoVal.val.injEq] at h
      obtain ⟨rfl, h⟩ := h
      have : p = .i n := by
        cases p with
        | bs o => cases k' <;> cases o <;> simp [canonPay] at h
        | _ => cases k' <;> simp_all [canonPay]
      rw [this]
    | ptr k' o =>
      cases o with
      | none => cases h
      | some p => rw [canon_ptr_some] at h; cases h
    | strs l => exact absurd rfl (hl l)
    | nil => cases h
    | other t => cases h
/-- Times: the same instant (seconds and nanoseconds; the zone offset is not compared). -/
theorem C01_sameVal_time (k k' : Kind) (x y : Time) :
    (Spec.sameVal (.val k (.t x)) (.val k' (.t y)) ↔ k = k' ∧ x.sec = y.sec ∧ x.nsec = y.nsec) ∧
    (Spec.sameVal (.ptr k (some (.t x))) (.ptr k' (some (.t y))) ↔
      k = k' ∧ x.sec = y.sec ∧ x.nsec = y.nsec) := by
  constructor
  · rw [sameVal_nonstrs _ (by intro l e; cases e), canon_val, canon_val]
    cases k <;> cases k' <;> simp [sameCanon, canonPay]
  · rw [sameVal_nonstrs _ (by intro l e; cases e), canon_ptr_some, canon_ptr_some]
    cases k <;> cases k' <;> simp [sameCanon, canonPay]

/-- A non-nil pointer to a nil byte slice is written as `""` (never `null`) and comes back as
a non-nil pointer to the empty slice: null-ness is preserved, the bytes are the same up to
`Spec.canon` (nil and empty byte strings alike). Before the repair of `MarshalResource`
(known_findings.json, C01) it was written as `null` and came back as a nil pointer. -/
theorem C01_ptr_nil_bytes (c : Spec.Codecs) :
    let a : Attr := { name := [98], ty := 14, nullable := true }
    let v : GoVal := .ptr .bytes (some (.bs none))
    Kind.ofCode? a.ty = some .bytes ∧ v.hasAttrType .bytes a.nullable = true ∧
    unmarshalToType a (Spec.rawOf c (encodeAttr v)) = .ok (.ptr .bytes (some (.bs (some [])))) ∧
    Spec.sameVal (.ptr .bytes (some (.bs (some [])))) v := by
  intro a v
  have hb : c.b64dec [] = some [] := c.b64_law []
  refine ⟨by decide, by decide, ?_, sameVal_of_canon_eq rfl⟩
  rw [toType_bytes a _ (by simp [Spec.rawOf, encodeAttr, v]; decide) (by decide)]
  simp [Spec.rawOf, encodeAttr, hb, mkVal, a, v]

/-- A nil byte slice held by value is written as `""` and comes back as the empty, non-nil
byte slice: the same value only up to `Spec.canon` (this is why "byte for byte" is stated
through the canonical reading). -/
theorem C01_nil_bytes (c : Spec.Codecs) :
    let a : Attr := { name := [98], ty := 14, nullable := false }
    unmarshalToType a (Spec.rawOf c (encodeAttr (.val .bytes (.bs none)))) =
      .ok (.val .bytes (.bs (some []))) := by
  intro a
  have hb : c.b64dec [] = some [] := c.b64_law []
  rw [toType_bytes a _ (by simp [Spec.rawOf, encodeAttr]; decide) (by decide)]
  simp [Spec.rawOf, encodeAttr, hb, mkVal, a]

/-! ### 3. The resource -/

/-- The bundled domain `RtL.ResDom` is exactly the list of hypotheses of `C01_roundtrip`. -/
theorem C01_ResDom_def (c : Spec.Codecs) (st : SType) (r : ResView) :
    ResDom c st r ↔
      r.keyedWf ∧ r.typeName = st.typ.name ∧
      (∀ key a, r.attrs.get? key = some a ↔ st.typ.attrs.get? key = some a) ∧
      (∀ key, (r.rels.get? key).map Spec.relCore = (st.typ.rels.get? key).map Spec.relCore) ∧
      (∀ key ∈ r.attrs.keys, Spec.codecDom c (r.get key)) :=
  ⟨fun h => ⟨h.keyed, h.tname, h.attrs, h.rels, h.dom⟩,
   fun ⟨h1, h2, h3, h4, h5⟩ => ⟨h1, h2, h3, h4, h5⟩⟩

/-- The general form, for an arbitrary field selection `fields` and an arbitrary `relData`
map (used for documents, C02): the skeleton of the marshaled object is accepted; type name
and ID come back; every selected attribute and every selected relationship whose data is
requested comes back with the same value; every other field of the type reads its zero
value (`Spec.zeroOf`). -/
theorem C01_roundtrip_selection (c : Spec.Codecs) (σ : SSchema) (hσ : σ.WF) (st : SType)
    (hst : st ∈ σ) (r : ResView) (hd : ResDom c st r) (prepath : GoString)
    (fields : List GoString) (relData : GoMap (List GoString)) :
    ∃ res v', unmarshalResource σ (Spec.skeletonOf c (Spec.resourceObject r prepath fields relData))
        = .ok res ∧ res.view? = some v' ∧ v'.typeName = r.typeName ∧ v'.id = r.id ∧
      (∀ f ∈ r.attrs.keys, f ∈ fields → Spec.sameVal (v'.get f) (r.get f)) ∧
      (∀ f ∈ r.rels.keys, f ∈ fields → f ∈ (relData.get? r.typeName).getD [] →
        Spec.sameVal (v'.get f) (r.get f)) ∧
      (∀ f ∈ r.attrs.keys ++ r.rels.keys,
        (f ∉ fields ∨ (f ∈ r.rels.keys ∧ f ∉ (relData.get? r.typeName).getD [])) →
        Spec.canon (v'.get f) = Spec.zeroOf st.typ f) := by
  obtain ⟨res, h, v', h1, h2, h3, h4, h5, h6⟩ :=
    resource_roundtrip c σ hσ st hst r hd prepath fields relData
  exact ⟨res, v', h, h1, h2, h3, h4, h5, h6⟩

/-- C01: all fields and all relationship data selected. -/
theorem C01_roundtrip (c : Spec.Codecs) (σ : SSchema) (hσ : σ.WF) (st : SType) (hst : st ∈ σ)
    (r : ResView) (hr : r.keyedWf) (htn : r.typeName = st.typ.name)
    (hattrs : ∀ key a, r.attrs.get? key = some a ↔ st.typ.attrs.get? key = some a)
    (hrels : ∀ key, (r.rels.get? key).map Spec.relCore = (st.typ.rels.get? key).map Spec.relCore)
    (hdom : ∀ key ∈ r.attrs.keys, Spec.codecDom c (r.get key))
    (prepath : GoString) :
    let t := Spec.resourceObject r prepath (Spec.allFields r) [(r.typeName, r.rels.keys)]
    ∃ res v', unmarshalResource σ (Spec.skeletonOf c t) = .ok res ∧ res.view? = some v' ∧
      v'.typeName = r.typeName ∧ v'.id = r.id ∧
      (∀ f ∈ Spec.allFields r, Spec.sameVal (v'.get f) (r.get f)) := by
  intro t
  obtain ⟨res, v', h, h1, h2, h3, h4, h5, -⟩ :=
    C01_roundtrip_selection c σ hσ st hst r ⟨hr, htn, hattrs, hrels, hdom⟩ prepath
      (Spec.allFields r) [(r.typeName, r.rels.keys)]
  refine ⟨res, v', h, h1, h2, h3, ?_⟩
  have hw : (GoMap.get? [(r.typeName, r.rels.keys)] r.typeName).getD [] = r.rels.keys := by
    simp [GoMap.get?]
  rw [hw] at h5
  intro f hf
  rcases List.mem_append.1 hf with ha | hrl
  · exact h4 f ha hf
  · exact h5 f hrl hf hrl

/-- The same through the model's `MarshalResource` (C04_resource): it succeeds on the
resource, and unmarshaling what it wrote gives the resource back. -/
theorem C01_roundtrip_model (c : Spec.Codecs) (σ : SSchema) (hσ : σ.WF) (st : SType) (hst : st ∈ σ)
    (r : ResView) (hr : r.keyedWf) (htn : r.typeName = st.typ.name)
    (hattrs : ∀ key a, r.attrs.get? key = some a ↔ st.typ.attrs.get? key = some a)
    (hrels : ∀ key, (r.rels.get? key).map Spec.relCore = (st.typ.rels.get? key).map Spec.relCore)
    (hdom : ∀ key ∈ r.attrs.keys, Spec.codecDom c (r.get key))
    (prepath : GoString) :
    ∃ t r', marshalResource r prepath (Spec.allFields r) [(r.typeName, r.rels.keys)] = .ok (t, r') ∧
      ∃ res v', unmarshalResource σ (Spec.skeletonOf c t) = .ok res ∧ res.view? = some v' ∧
        v'.typeName = r.typeName ∧ v'.id = r.id ∧
        (∀ f ∈ Spec.allFields r, Spec.sameVal (v'.get f) (r.get f)) := by
  obtain ⟨r', hm, -⟩ := C04_resource r hr prepath (Spec.allFields r) [(r.typeName, r.rels.keys)] []
  exact ⟨_, r', hm, C01_roundtrip c σ hσ st hst r hr htn hattrs hrels hdom prepath⟩

/-! ### Non-vacuity -/

/-- int8 -128, uint64 2^64-1 (above 2^63), uint8 0: printed and parsed back. -/
example :
    parseInt 8 (printInt (-128)) = some (-128) ∧
    parseUint 64 (printInt 18446744073709551615) = some 18446744073709551615 ∧
    parseUint 8 (printInt 0) = some 0 ∧
    printInt (-128) = [45, 49, 50, 56] :=
  ⟨(C01_parse_print 8 (-128)).1 (by decide) (by decide),
   (C01_parse_print 64 18446744073709551615).2 (by decide) (by decide),
   (C01_parse_print 8 0).2 (by decide) (by decide), by simp [printInt, printNat, digitChar]⟩

/-- The codec laws are satisfiable (`RtL.codecsFor`: a real base64 decoder for the model's
encoder, a time decoder that knows one instant): the theorems are not vacuous in `c`. -/
example : Nonempty Spec.Codecs := ⟨codecsFor default⟩

/-- The codec laws are satisfied by real decoders (`RtL.realCodecs`): the RFC 3339 decoder
`Spec.parseRFC3339` (it inverts `formatTime` on `Spec.TimeDom`: local civil year 0..9999,
nanoseconds below a second, whole-minute zone strictly within a day) and the base64 decoder
`Spec.b64decode`. Every theorem stated for an arbitrary `c : Spec.Codecs` holds for them. -/
theorem C01_real_codecs :
    ∃ c : Spec.Codecs, c.parseTime = Spec.parseRFC3339 ∧ c.b64dec = Spec.b64decode ∧
      (∀ t, c.TimeOk t ↔ Spec.TimeDom t) :=
  ⟨realCodecs, rfl, rfl, fun _ => Iff.rfl⟩

/-- the decoder on literal text: "2018-02-02T18:35:06.5-09:30"; a wrong separator, a
trailing byte, an empty fraction and a ten-digit fraction are rejected -/
example :
    Spec.parseRFC3339 [50,48,49,56,45,48,50,45,48,50,84,49,56,58,51,53,58,48,54,46,53,45,48,57,58,51,48]
      = some ⟨1517630706, 500000000, -34200⟩ ∧
    Spec.parseRFC3339 [50,48,49,56,45,48,50,45,48,50,32,49,56,58,51,53,58,48,54,90] = none ∧
    Spec.parseRFC3339 [50,48,49,56,45,48,50,45,48,50,84,49,56,58,51,53,58,48,54,90,90] = none ∧
    Spec.parseRFC3339 [50,48,49,56,45,48,50,45,48,50,84,49,56,58,51,53,58,48,54,46,90] = none ∧
    Spec.parseRFC3339 [50,48,49,56,45,48,50,45,48,50,84,49,56,58,51,53,58,48,54,46,
      49,50,51,52,53,54,55,56,57,48,90] = none := by decide

/-- the round trip on an instant with a fraction and a negative half-hour zone, on the first
second of year 1 and the last nanosecond of year 9999 (UTC), and on the two ends of
`Spec.TimeDom` (local 0000-01-01T00:00:00+23:59, local 9999-12-31T23:59:59.999999999-23:59) -/
example :
    Spec.parseRFC3339 (formatTime ⟨1517630706, 500000000, -34200⟩) = some ⟨1517630706, 500000000, -34200⟩ ∧
    Spec.parseRFC3339 (formatTime ⟨-62135596800, 0, 0⟩) = some ⟨-62135596800, 0, 0⟩ ∧
    Spec.parseRFC3339 (formatTime ⟨253402300799, 999999999, 0⟩) = some ⟨253402300799, 999999999, 0⟩ ∧
    Spec.parseRFC3339 (formatTime ⟨-62167305540, 1, 86340⟩) = some ⟨-62167305540, 1, 86340⟩ ∧
    Spec.parseRFC3339 (formatTime ⟨253402387139, 999999999, -86340⟩) = some ⟨253402387139, 999999999, -86340⟩ :=
  ⟨parseRFC3339_formatTime _ (by decide), parseRFC3339_formatTime _ (by decide),
   parseRFC3339_formatTime _ (by decide), parseRFC3339_formatTime _ (by decide),
   parseRFC3339_formatTime _ (by decide)⟩

/-- `Spec.TimeDom` is decidable, and what it excludes: one second before local year 0 (the
year would be negative), one second after local year 9999 (five digits), a zone offset with
seconds (`zoneText` drops them), a zone offset of a whole day, a nanosecond count of a second -/
example : ¬ Spec.TimeDom ⟨-62167219201, 0, 0⟩ ∧ ¬ Spec.TimeDom ⟨253402300800, 0, 0⟩ ∧
    ¬ Spec.TimeDom ⟨0, 0, 30⟩ ∧ ¬ Spec.TimeDom ⟨0, 0, 86400⟩ ∧ ¬ Spec.TimeDom ⟨0, 1000000000, 0⟩ := by
  decide

/-- a time through `C01_value_roundtrip` with the real decoders -/
example :
    let t0 : Time := { sec := 1700000000, nsec := 500, off := 3600 }
    ∃ v', unmarshalToType { name := [116], ty := 13, nullable := true }
        (Spec.rawOf realCodecs (encodeAttr (.ptr .time (some (.t t0))))) = .ok v' ∧
      Spec.sameVal v' (.ptr .time (some (.t t0))) := by
  intro t0
  apply C01_value_roundtrip _ _ .time (by decide) _ (.inl (by decide))
  intro k t e
  rcases e with e | e
  · cases e
  · cases e; show Spec.TimeDom _; decide

/-- a time and a byte string through `C01_value_roundtrip` with that inhabitant -/
example :
    let t0 : Time := { sec := 1700000000, nsec := 500, off := 3600 }
    (∃ v', unmarshalToType { name := [116], ty := 13, nullable := true }
        (Spec.rawOf (codecsFor t0) (encodeAttr (.ptr .time (some (.t t0))))) = .ok v' ∧
      Spec.sameVal v' (.ptr .time (some (.t t0)))) ∧
    (∃ v', unmarshalToType { name := [98], ty := 14, nullable := false }
        (Spec.rawOf (codecsFor t0) (encodeAttr (.val .bytes (.bs (some [1, 2, 255, 0]))))) = .ok v' ∧
      Spec.sameVal v' (.val .bytes (.bs (some [1, 2, 255, 0])))) := by
  intro t0
  constructor
  · apply C01_value_roundtrip _ _ .time (by decide) _ (.inl (by decide))
    intro k t e
    rcases e with e | e
    · cases e
    · cases e; rfl
  · apply C01_value_roundtrip _ _ .bytes (by decide) _ (.inl (by decide))
    intro k t e; rcases e with e | e <;> cases e

/-- Type "t": attributes "a" (int8), "s" (nullable string), "u" (uint64), "b" (bytes),
"f" (nullable bool); to-one relationship "o" and to-many relationship "m" to type "x". -/
def C01_exT : Typ :=
  { name := [116],
    attrs := [([97], { name := [97], ty := 3, nullable := false }),
              ([115], { name := [115], ty := 1, nullable := true }),
              ([117], { name := [117], ty := 11, nullable := false }),
              ([98], { name := [98], ty := 14, nullable := false }),
              ([102], { name := [102], ty := 12, nullable := true })],
    rels := [([111], { fromType := [116], fromName := [111], toOne := true, toType := [120], toName := [], fromOne := false }),
             ([109], { fromType := [116], fromName := [109], toOne := false, toType := [120], toName := [], fromOne := false })] }

/-- the same type under the name "w", struct-backed -/
def C01_exW : Typ := { C01_exT with name := [119] }

def C01_exσ : SSchema := [{ typ := C01_exT, backed := false }, { typ := C01_exW, backed := true }]

theorem C01_exσ_wf : C01_exσ.WF := by
  refine ⟨by decide, ?_⟩
  intro st hst
  simp only [C01_exσ, List.mem_cons, List.not_mem_nil, or_false] at hst
  rcases hst with rfl | rfl
  · exact ⟨by decide, ⟨by decide, by decide, by decide, by decide, by decide⟩, by decide, by decide⟩
  · exact ⟨by decide, ⟨by decide, by decide, by decide, by decide, by decide⟩, by decide, by decide⟩

/-- a resource of the type: a = -128, s = nil, u = 2^64-1, b = nil byte slice, f = &true,
o = "k", m = ["2", "1"] (unsorted) -/
def C01_exR (tn : GoString) : ResView :=
  { typeName := tn, id := [49], attrs := C01_exT.attrs, rels := C01_exT.rels,
    vals := [([97], .val .int8 (.i (-128))), ([115], .ptr .string none),
             ([117], .val .uint64 (.i 18446744073709551615)), ([98], .val .bytes (.bs none)),
             ([102], .ptr .bool (some (.b true))),
             ([111], .val .string (.s [107])), ([109], .strs [[50], [49]])] }

theorem C01_exR_dom (c : Spec.Codecs) (st : SType) (h : st.typ = C01_exT ∨ st.typ = C01_exW) :
    ResDom c st (C01_exR st.typ.name) := by
  have ha : st.typ.attrs = C01_exT.attrs := by rcases h with h | h <;> rw [h] <;> rfl
  have hr : st.typ.rels = C01_exT.rels := by rcases h with h | h <;> rw [h] <;> rfl
  refine ⟨?_, rfl, ?_, ?_, ?_⟩
  · rcases h with h | h <;> rw [h] <;> decide
  · intro key a; rw [ha]; exact Iff.rfl
  · intro key; rw [hr]; rfl
  · intro key hk
    have hk' : key ∈ [[97], [115], [117], [98], [102]] := hk
    simp only [List.mem_cons, List.not_mem_nil, or_false] at hk'
    rcases hk' with rfl | rfl | rfl | rfl | rfl <;>
      simp [Spec.codecDom, C01_exR, ResView.get, GoMap.get?]

/-- The hypotheses of `C01_roundtrip` are satisfiable, for the soft type and for the
struct-backed type, with every decoder `c` satisfying the codec laws; the conclusion gives
the resource back. -/
example (c : Spec.Codecs) (st : SType) (hst : st ∈ C01_exσ) :
    ∃ res v', unmarshalResource C01_exσ (Spec.skeletonOf c
        (Spec.resourceObject (C01_exR st.typ.name) [47] (Spec.allFields (C01_exR st.typ.name))
          [(st.typ.name, C01_exT.rels.keys)])) = .ok res ∧
      res.view? = some v' ∧ v'.typeName = st.typ.name ∧ v'.id = [49] ∧
      v'.get [97] = .val .int8 (.i (-128)) ∧
      Spec.sameVal (v'.get [109]) (.strs [[50], [49]]) := by
  have hd : ResDom c st (C01_exR st.typ.name) := by
    apply C01_exR_dom
    simp only [C01_exσ, List.mem_cons, List.not_mem_nil, or_false] at hst
    rcases hst with rfl | rfl
    · exact .inl rfl
    · exact .inr rfl
  obtain ⟨res, v', h1, h2, h3, h4, h5⟩ := C01_roundtrip c C01_exσ C01_exσ_wf st hst
    (C01_exR st.typ.name) hd.keyed hd.tname hd.attrs hd.rels hd.dom [47]
  refine ⟨res, v', h1, h2, h3, h4, ?_, ?_⟩
  · exact C01_sameVal_int _ _ _ (h5 [97] (by simp [Spec.allFields, C01_exR, C01_exT, GoMap.keys]))
  · exact h5 [109] (by simp [Spec.allFields, C01_exR, C01_exT, GoMap.keys])

end Jsonapi

section Axioms
open Jsonapi
#print axioms C01_printNat
#print axioms C01_int_roundtrip
#print axioms C01_int_kinds
#print axioms C01_parse_print
#print axioms C01_value_roundtrip
#print axioms C01_sameVal_strs
#print axioms C01_sameVal_of_canon_eq
#print axioms C01_sameVal_exact
#print axioms C01_sameVal_int
#print axioms C01_sameVal_time
#print axioms C01_ptr_nil_bytes
#print axioms C01_nil_bytes
#print axioms C01_ResDom_def
#print axioms C01_roundtrip_selection
#print axioms C01_roundtrip
#print axioms C01_roundtrip_model
#print axioms C01_exσ_wf
#print axioms C01_exR_dom
#print axioms C01_real_codecs
#print axioms RtL.realCodecs
#print axioms RtL.parseRFC3339_formatTime
#print axioms RtL.daysFromCivil_civilFromDays
#print axioms RtL.b64decode_b64enc
end Axioms
