/-
C08 — String() parses back.

"For every successfully parsed URL, String() returns a URL that parses against the same
schema, and parsing it recovers the same path fragments, resource type and ID,
relationship, field selection, sorting rules, page parameters (of collection URLs) and
filter label or filter tree, so that its String() is the same text again. Two raw URLs
that differ only in the order of differently named query parameters, the order of names
inside fields and include lists, or in empty list items yield the same String()."

`url.Parse` + `Query()` on the emitted text are `Spec.parseRaw` (net/url on the grammar
`String()` emits). The JSON codec of the filter parameter is delegated: `CodecLaws` states
what is assumed of it.

Known, unrepaired defect (pinned by the Go tests): for a type without any field `String()`
emits `fields%5B<t>%`, which does not parse back; `NoEmptySelection` excludes it and
`C08_statement_false` shows the exclusion is needed.
-/
import Jsonapi.Proofs.UrlReparseLemmas
import Jsonapi.Proofs.UrlStringLemmas
import Jsonapi.Proofs.UrlPermLemmas4
namespace Jsonapi
open UrlL

/-! ### 8. escaping -/

/-- `url.QueryUnescape ∘ url.QueryEscape` and `url.PathUnescape ∘ url.PathEscape` are the
identity on all byte strings, and the escaped texts contain none of the bytes that
structure a URL: no `& = ? #` in a query component, no `/ ? #` in a path segment. -/
theorem C08_unescape_escape (s : GoString) :
    Spec.unescape true (queryEscape s) = some s ∧ Spec.unescape false (pathEscape s) = some s ∧
    (∀ c ∈ queryEscape s, c ≠ 38 ∧ c ≠ 61 ∧ c ≠ 63 ∧ c ≠ 35) ∧
    (∀ c ∈ pathEscape s, c ≠ 47 ∧ c ≠ 63 ∧ c ≠ 35) :=
  ⟨Esc.unescape_queryEscape s, Esc.unescape_pathEscape s, Esc.queryEscape_no_struct s,
    Esc.pathEscape_no_struct s⟩

/-! ### 9. what `url.Parse` reads from `String()` -/

/-- Parsing `u.String()` gives the path `"/" + join(fragments, "/")` and exactly the emitted
parameters, one value each (`Spec.emittedValues`). `_hfr` (what `parseFragments` guarantees)
is not used by the modelled `url.Parse`; it is kept because the model of `url.Parse` was
validated only on such paths. -/
theorem C08_parse_string (u : URL) (env : StringEnv) (hne : NoEmptySelection u)
    (_hfr : u.fragments ≠ [] ∧ ∀ f ∈ u.fragments, f ≠ [])
    (hfk : u.params.fields.keys.Nodup) (hpk : u.isCol = true → u.params.page.keys.Nodup) :
    Spec.parseRaw (u.string env) = some (Spec.emittedPath u, Spec.emittedValues u env) :=
  Esc.parse_string u env hne hfk hpk

/-! ### 10. re-parsing -/

/-- What is assumed of the delegated JSON codec: `labelBody l` is `json.Marshal(l)` without
the quotes, `labelDec v` is `json.Unmarshal("\"" + v + "\"")` into a string, `filterDec v`
is `json.Unmarshal(v)` into a `Filter` re-marshaled to its canonical text; `Canon f`: `f` is
the canonical text of a filter. -/
structure CodecLaws (labelDec filterDec : GoString → Option GoString)
    (labelBody : GoString → GoString) (Canon : GoString → Prop) : Prop where
  label_rt : ∀ l, labelDec (labelBody l) = some l
  label_ne : ∀ l, l ≠ [] → labelBody l ≠ []
  filter_rt : ∀ f, Canon f → filterDec f = some f
  canon_head : ∀ f, Canon f → f.head? = some 123

/-- the decode results for the `filter` parameter of a values map -/
def c08_reparseFd (labelDec filterDec : GoString → Option GoString)
    (values : GoMap (List GoString)) : FilterDec :=
  { label := labelDec (firstVal ((values.get? sFilter).getD [])),
    filter := filterDec (firstVal ((values.get? sFilter).getD [])) }

/-- the environment of `String()`: the JSON body of the URL's own filter label -/
def c08_env (labelBody : GoString → GoString) (u : URL) : StringEnv :=
  { labelBody := labelBody u.params.filterLabel }

theorem c08_get?_append_left {β : Type} (a b : GoMap β) (k : GoString) (h : k ∉ a.keys) :
    (a ++ b).get? k = b.get? k := by
  induction a with
  | nil => rfl
  | cons p a ih =>
    obtain ⟨k', v⟩ := p
    simp only [GoMap.keys, List.map_cons, List.mem_cons, not_or] at h
    have : ¬ k' = k := fun e => h.1 e.symm
    simp only [List.cons_append, GoMap.get?, this, if_false]
    exact ih h.2

theorem c08_emitted_filter (u : URL) (env : StringEnv)
    (h : u.params.filter ≠ none ∨ u.params.filterLabel ≠ []) :
    (Spec.emittedValues u env).get? sFilter = some [Spec.emittedFilterValue u env] := by
  rw [emittedValues_segs, List.append_assoc, List.append_assoc, c08_get?_append_left]
  · unfold segB Spec.emittedFilterValue
    cases hf : u.params.filter with
    | some f => simp [GoMap.get?]
    | none =>
      have hl : u.params.filterLabel ≠ [] := by
        rcases h with h | h
        · exact absurd hf h
        · exact h
      simp [GoMap.get?, hl]
  · unfold segA GoMap.keys
    rw [List.map_map]
    intro hm
    obtain ⟨t, _, e⟩ := List.mem_map.1 hm
    have := congrArg Esc.fam e
    simp only [Function.comp] at this
    rw [Esc.fam_fields, Esc.fam_filter] at this
    cases this

/-- The re-parse statement, parametrised by the exclusion imposed on the URL. -/
def C08_reparse_statement (excl : URL → Prop) : Prop :=
  ∀ (σ : Schema) (path : GoString) (values : GoMap (List GoString)) (fd : FilterDec) (u : URL)
    (labelDec filterDec : GoString → Option GoString) (labelBody : GoString → GoString)
    (Canon : GoString → Prop),
    Inv σ → NamesOK σ → CodecLaws labelDec filterDec labelBody Canon →
    newURLFrom σ (some (path, values, fd)) = .ok u → values.keys.Nodup → excl u →
    (∀ f, u.params.filter = some f → Canon f) →
    (u.params.filterLabel ≠ [] → (labelBody u.params.filterLabel).head? ≠ some 123) →
    ∃ u',
      Spec.parseRaw (u.string (c08_env labelBody u)) =
        some (Spec.emittedPath u, Spec.emittedValues u (c08_env labelBody u)) ∧
      newURLFrom σ (some (Spec.emittedPath u, Spec.emittedValues u (c08_env labelBody u),
        c08_reparseFd labelDec filterDec (Spec.emittedValues u (c08_env labelBody u)))) = .ok u' ∧
      u'.fragments = u.fragments ∧ u'.resType = u.resType ∧ u'.resID = u.resID ∧
      u'.rel = u.rel ∧ u'.isCol = u.isCol ∧
      (∀ t, (u'.params.fields.get? t).map Typ.sortStrings =
            (u.params.fields.get? t).map Typ.sortStrings) ∧
      u'.params.sortingRules = u.params.sortingRules ∧
      (u.isCol = true → ∀ k, u'.params.page.get? k = u.params.page.get? k) ∧
      u'.params.filterLabel = u.params.filterLabel ∧ u'.params.filter = u.params.filter ∧
      u'.string (c08_env labelBody u') = u.string (c08_env labelBody u)

/-- 10 (and the fixed point). For a URL returned by `NewURLFromRaw` whose selections are all
non-empty, `String()` parses to exactly the emitted parameters, `NewURLFromRaw` accepts them
and recovers fragments, resource type and ID, relationship, collection flag, the field
selection (as sets: `String()` sorts each list), the sorting rules, the page parameters of
collection URLs, the filter label and the filter; and `String()` of the result is the same
text.

Hypotheses beyond the informal statement, each forced by the proof (see the report):
`NamesOK σ` (no comma in field names, no attribute name starting with '-'), unique
parameter names in the original values map (a Go map), the codec laws, canonical filter
text, and a label whose JSON body does not start with '{' (this last hypothesis is removed in
Props/C08G.lean, `C08G_reparse`: `String()` rewrites such a body's first byte to its JSON
escape, `rewriteBrace`, which the label decoder reads back). -/
theorem C08_reparse : C08_reparse_statement NoEmptySelection := by
  intro σ path values fd u labelDec filterDec labelBody Canon hσ hn laws h hvnd hne hcanon hbrace
  obtain ⟨path', values', fd0, su, hpar, hsu, hu⟩ := newURLFrom_ok σ _ u h
  cases hpar
  obtain ⟨u0, p, hu0, hp, hue⟩ := newURL_ok' hu
  have hfld : u.params.fields.keys.Nodup := by
    have e : u.params = p := by rw [hue]
    have e' : u.resType = u0.resType := by rw [hue]
    rw [e]
    exact (params_fields hσ (e' ▸ restype_ok σ su u hu) hp).2
  have hpknd : u.isCol = true → u.params.page.keys.Nodup := by
    intro _
    obtain ⟨_, _, _, _, _, _, hpp, _⟩ := newParams_ok hp
    have : u.params = p := by rw [hue]
    rw [this, hpp]; exact (newSimpleURL_fields_nodup hsu).2
  have hparse := Esc.parse_string u (c08_env labelBody u) hne hfld hpknd
  have hfilter : ∀ f, u.params.filter = some f → f.head? = some 123 ∧
      (c08_reparseFd labelDec filterDec (Spec.emittedValues u (c08_env labelBody u))).filter = some f := by
    intro f hf
    have hv := c08_emitted_filter u (c08_env labelBody u) (.inl (by rw [hf]; simp))
    refine ⟨laws.canon_head f (hcanon f hf), ?_⟩
    have hval : firstVal (((Spec.emittedValues u (c08_env labelBody u)).get? sFilter).getD []) = f := by
      rw [hv]; simp [firstVal, Spec.emittedFilterValue, hf]
    show filterDec (firstVal _) = _
    rw [hval]
    exact laws.filter_rt f (hcanon f hf)
  have hlabel : u.params.filter = none → u.params.filterLabel ≠ [] →
      rewriteBrace (c08_env labelBody u).labelBody ≠ [] ∧
      (rewriteBrace (c08_env labelBody u).labelBody).head? ≠ some 123 ∧
      (c08_reparseFd labelDec filterDec (Spec.emittedValues u (c08_env labelBody u))).label =
        some u.params.filterLabel := by
    intro hf hl
    have hv := c08_emitted_filter u (c08_env labelBody u) (.inr hl)
    -- under `hbrace` the rewrite of url.go leaves the body alone
    have hrb : rewriteBrace (c08_env labelBody u).labelBody = labelBody u.params.filterLabel :=
      rewriteBrace_of_head _ (hbrace hl)
    refine ⟨by rw [hrb]; exact laws.label_ne _ hl, by rw [hrb]; exact hbrace hl, ?_⟩
    have hval : firstVal (((Spec.emittedValues u (c08_env labelBody u)).get? sFilter).getD []) =
        labelBody u.params.filterLabel := by
      rw [hv]; simp [firstVal, Spec.emittedFilterValue, hf, hl, hrb]
    show labelDec (firstVal _) = _
    rw [hval]
    exact laws.label_rt _
  obtain ⟨u', h', r1, r2, r3, r4, r5, r6, r7, r8, r9, r10, r11, r12, _⟩ :=
    reparse_core hσ hn path values fd u h hvnd hne (c08_env labelBody u) _ hfilter hlabel
  refine ⟨u', hparse, h', r1, r2, r3, r4, r5, ?_, r8, r9, r11, r12, ?_⟩
  · intro t
    rw [r6 t]
    cases u.params.fields.get? t with
    | none => rfl
    | some fs => simp [DetL.sortStrings_idem]
  · have henv : c08_env labelBody u' = c08_env labelBody u := by unfold c08_env; rw [r11]
    rw [henv]
    apply Perm.string_canonical u' u _ r1 r5 r11 r12 r8
    · intro t
      rw [r6 t]
      cases u.params.fields.get? t with
      | none => rfl
      | some fs => simp [DetL.sortStrings_idem]
    · exact r7
    · exact hfld
    · intro hc; exact r9 (r5 ▸ hc)
    · intro _; exact r10
    · intro hc; exact hpknd (r5 ▸ hc)


/-! ### the known defect: a type without any field -/

/-- C08 as worded, without the exclusion of empty selections. -/
def C08_statement : Prop := C08_reparse_statement (fun _ => True)

def c08_tBs : Typ := { name := [98, 115], attrs := [], rels := [] }          -- "bs"
def c08_σ : Schema := { types := [c08_tBs] }
def c08_fd : FilterDec := { label := none, filter := none }
def c08_path : GoString := [47, 98, 115]                                      -- "/bs"
/-- `NewURLFromRaw(schema, "/bs")` -/
def c08_u : URL :=
  { fragments := [[98, 115]], isCol := true, resType := [98, 115], resID := [], rel := default,
    params := { fields := [([98, 115], [])], filterLabel := [], filter := none,
                sortingRules := [idName], page := [], incl := [] } }

theorem c08_σ_inv : Inv c08_σ := by
  refine ⟨by decide, ?_⟩
  intro t ht
  have : t = c08_tBs := by simpa [c08_σ] using ht
  subst this
  exact ⟨by decide, ⟨(by intro p hp; cases hp), (by intro p hp; cases hp), (by decide), (by decide),
    (by intro k hk; cases hk)⟩⟩

theorem c08_σ_names : NamesOK c08_σ := by
  constructor
  · intro t ht a ha
    have : t = c08_tBs := by simpa [c08_σ] using ht
    subst this; cases ha
  · intro t ht r hr
    have : t = c08_tBs := by simpa [c08_σ] using ht
    subst this; cases hr

/-- the model's `NewURLFromRaw` on "/bs" -/
theorem c08_witness_eval : newURLFrom c08_σ (some (c08_path, [], c08_fd)) = .ok c08_u := by
  unfold newURLFrom
  have hs : newSimpleURL c08_path [] c08_fd =
      .ok { fragments := [[98, 115]], fields := [], filterLabel := [], filter := none,
            sortingRules := [], page := [], incl := [] } := rfl
  simp only [hs]
  rw [newURL_eq]
  have hh : urlHead c08_σ [[98, 115]] =
      .ok { fragments := [[98, 115]], isCol := true, resType := [98, 115], resID := [],
            rel := default, params := default } := by
    simp [urlHead, c08_σ, c08_tBs, Schema.getType]
  simp only [hh]
  rw [newParams_eq]
  have hf : pFieldsRes c08_σ
      { fragments := [[98, 115]], fields := [], filterLabel := [], filter := none,
        sortingRules := [], page := [], incl := [] } [98, 115] = .ok [([98, 115], [])] := by
    unfold pFieldsRes
    rw [pFields1_no_incl _ _ _ rfl (by decide)]
    rfl
  simp only [hf]
  rw [pIncl_no_incl _ _ _ rfl]
  have hr : pRules c08_σ
      { fragments := [[98, 115]], fields := [], filterLabel := [], filter := none,
        sortingRules := [], page := [], incl := [] } [98, 115] = [idName] := by decide
  have hd : fillDefault c08_σ [([98, 115], [])] = [([98, 115], [])] := by decide
  rw [hr, hd]
  rfl

/-- `String()` of that URL is `/bs?fields%5Bbs%&sort=id` … -/
theorem C08_known_nofields_string (env : StringEnv) :
    c08_u.string env = gs "/bs?fields%5Bbs%&sort=id" := by
  have : ∀ b, c08_u.string { labelBody := b } = c08_u.string { labelBody := [] } := fun _ => rfl
  rw [show env = { labelBody := env.labelBody } from rfl, this]
  decide

/-- … which `url.Parse` + `Query()` read without the `fields[bs]` parameter (the pair
`fields%5Bbs%` has an invalid escape and is dropped). -/
theorem C08_known_nofields_counterexample (env : StringEnv) :
    Spec.parseRaw (c08_u.string env) = some (gs "/bs", [(sSort, [idName])]) ∧
    (Spec.emittedValues c08_u env).get? (Spec.fieldsName [98, 115]) = some [[]] := by
  rw [C08_known_nofields_string]
  constructor
  · decide
  · have : ∀ b, Spec.emittedValues c08_u { labelBody := b } =
        Spec.emittedValues c08_u { labelBody := [] } := fun _ => rfl
    rw [show env = { labelBody := env.labelBody } from rfl, this]
    decide

/-- Without `NoEmptySelection` the statement is false. -/
theorem C08_statement_false : ¬ C08_statement := by
  intro H
  have laws : CodecLaws (fun v => some v) (fun v => some v) (fun l => l)
      (fun f => f.head? = some 123) :=
    ⟨fun _ => rfl, fun _ h => h, fun _ _ => rfl, fun _ h => h⟩
  obtain ⟨u', hparse, _⟩ := H c08_σ c08_path [] c08_fd c08_u _ _ _ _ c08_σ_inv c08_σ_names laws
    c08_witness_eval (by decide) trivial (by intro f hf; cases hf) (by intro h; exact absurd rfl h)
  rw [(C08_known_nofields_counterexample _).1] at hparse
  have h2 := (C08_known_nofields_counterexample (c08_env (fun l => l) c08_u)).2
  have h3 : (Spec.emittedValues c08_u (c08_env (fun l => l) c08_u)) = [(sSort, [idName])] := by
    have := Option.some.inj hparse
    exact (Prod.mk.inj this).2.symm
  rw [h3] at h2
  revert h2; decide

/-- a type with one attribute: the hypotheses of `C08_reparse` are satisfiable and the
exclusion holds -/
def c08_tAs : Typ :=
  { name := [97, 115], attrs := [([120], { name := [120], ty := 1, nullable := false })], rels := [] }

/-- The defect is not only a malformed parameter: with the types "as" (attribute "x") and
"bs" (no field), the URL for `/as?fields[bs]=` has the String()
`/as?fields%5Bas%5D=x&fields%5Bbs%&sort=x%2Cid`; parsing that text gives a URL without the
entry for "bs", whose String() is a different text. -/
theorem C08_known_nofields_not_fixpoint :
    ∃ u u' pv, newURLFrom { types := [c08_tAs, c08_tBs] }
        (some ([47, 97, 115], [(Spec.fieldsName [98, 115], [[]])], c08_fd)) = .ok u ∧
      u.string { labelBody := [] } = gs "/as?fields%5Bas%5D=x&fields%5Bbs%&sort=x%2Cid" ∧
      u.params.fields.get? [98, 115] = some [] ∧
      Spec.parseRaw (u.string { labelBody := [] }) = some pv ∧
      newURLFrom { types := [c08_tAs, c08_tBs] } (some (pv.1, pv.2, c08_fd)) = .ok u' ∧
      u'.params.fields.get? [98, 115] = none ∧
      u'.string { labelBody := [] } = gs "/as?fields%5Bas%5D=x&sort=x%2Cid" := by
  have h1 := eval_no_incl { types := [c08_tAs, c08_tBs] } [47, 97, 115]
    [(Spec.fieldsName [98, 115], [[]])] c08_fd
    { fragments := [[97, 115]], fields := [([98, 115], [])], filterLabel := [], filter := none,
      sortingRules := [], page := [], incl := [] }
    { fragments := [[97, 115]], isCol := true, resType := [97, 115], resID := [], rel := default,
      params := default }
    [([97, 115], []), ([98, 115], [])] rfl rfl
    (by simp [urlHead, c08_tAs, c08_tBs, Schema.getType]) (by decide) (by decide)
  have h2 := eval_no_incl { types := [c08_tAs, c08_tBs] } (gs "/as")
    [(Spec.fieldsName [97, 115], [[120]]), (sSort, [[120, 44, 105, 100]])] c08_fd
    { fragments := [[97, 115]], fields := [([97, 115], [[120]])], filterLabel := [], filter := none,
      sortingRules := [[120], [105, 100]], page := [], incl := [] }
    { fragments := [[97, 115]], isCol := true, resType := [97, 115], resID := [], rel := default,
      params := default }
    [([97, 115], [[120]])] rfl rfl
    (by simp [urlHead, c08_tAs, c08_tBs, Schema.getType]) (by decide) (by decide)
  refine ⟨_, _, (gs "/as", [(Spec.fieldsName [97, 115], [[120]]), (sSort, [[120, 44, 105, 100]])]),
    h1, by decide, by decide, by decide, h2, by decide, by decide⟩

/-! ### why the extra hypotheses of `C08_reparse` are needed -/

/-- `NamesOK` (no comma): with the attributes "a,b" and "c", `/t` has the String()
`/t?fields%5Bt%5D=a%2Cb%2Cc&sort=a%2Cb%2Cc%2Cid`, which parses to the selection `c` and the
rules `c, id, "a,b"`: another URL with another String(). -/
def c08_tComma : Typ :=
  { name := [116],
    attrs := [([97, 44, 98], { name := [97, 44, 98], ty := 1, nullable := false }),
              ([99], { name := [99], ty := 1, nullable := false })], rels := [] }

theorem C08_comma_counterexample :
    ∃ u u' pv, newURLFrom { types := [c08_tComma] } (some ([47, 116], [], c08_fd)) = .ok u ∧
      u.string { labelBody := [] } = gs "/t?fields%5Bt%5D=a%2Cb%2Cc&sort=a%2Cb%2Cc%2Cid" ∧
      Spec.parseRaw (u.string { labelBody := [] }) = some pv ∧
      newURLFrom { types := [c08_tComma] } (some (pv.1, pv.2, c08_fd)) = .ok u' ∧
      u'.params.sortingRules ≠ u.params.sortingRules ∧
      u'.string { labelBody := [] } = gs "/t?fields%5Bt%5D=c&sort=c%2Cid%2Ca%2Cb" := by
  have h1 := eval_no_incl { types := [c08_tComma] } [47, 116] [] c08_fd
    { fragments := [[116]], fields := [], filterLabel := [], filter := none,
      sortingRules := [], page := [], incl := [] }
    { fragments := [[116]], isCol := true, resType := [116], resID := [], rel := default,
      params := default }
    [([116], [])] rfl rfl
    (by simp [urlHead, c08_tComma, Schema.getType]) (by decide) (by decide)
  have h2 := eval_no_incl { types := [c08_tComma] } (gs "/t")
    [(Spec.fieldsName [116], [[97, 44, 98, 44, 99]]), (sSort, [[97, 44, 98, 44, 99, 44, 105, 100]])]
    c08_fd
    { fragments := [[116]], fields := [([116], [[97], [98], [99]])], filterLabel := [],
      filter := none, sortingRules := [[97], [98], [99], [105, 100]], page := [], incl := [] }
    { fragments := [[116]], isCol := true, resType := [116], resID := [], rel := default,
      params := default }
    [([116], [[99]])] rfl rfl
    (by simp [urlHead, c08_tComma, Schema.getType]) (by decide) (by decide)
  refine ⟨_, _, (gs "/t", [(Spec.fieldsName [116], [[97, 44, 98, 44, 99]]),
    (sSort, [[97, 44, 98, 44, 99, 44, 105, 100]])]), h1, by decide, by decide, h2, by decide,
    by decide⟩

/-- `NamesOK` (no leading '-'): with the single attribute "-x", `/t` has the sorting rules
`-x, id`; re-parsing `sort=-x%2Cid` reads "-x" as "descending by x", drops it as invalid and
appends the attribute again: `id, -x`. -/
def c08_tDash : Typ :=
  { name := [116], attrs := [([45, 120], { name := [45, 120], ty := 1, nullable := false })],
    rels := [] }

theorem C08_dash_counterexample :
    ∃ u u' pv, newURLFrom { types := [c08_tDash] } (some ([47, 116], [], c08_fd)) = .ok u ∧
      u.params.sortingRules = [[45, 120], idName] ∧
      Spec.parseRaw (u.string { labelBody := [] }) = some pv ∧
      newURLFrom { types := [c08_tDash] } (some (pv.1, pv.2, c08_fd)) = .ok u' ∧
      u'.params.sortingRules = [idName, [45, 120]] := by
  have h1 := eval_no_incl { types := [c08_tDash] } [47, 116] [] c08_fd
    { fragments := [[116]], fields := [], filterLabel := [], filter := none,
      sortingRules := [], page := [], incl := [] }
    { fragments := [[116]], isCol := true, resType := [116], resID := [], rel := default,
      params := default }
    [([116], [])] rfl rfl
    (by simp [urlHead, c08_tDash, Schema.getType]) (by decide) (by decide)
  have h2 := eval_no_incl { types := [c08_tDash] } (gs "/t")
    [(Spec.fieldsName [116], [[45, 120]]), (sSort, [[45, 120, 44, 105, 100]])] c08_fd
    { fragments := [[116]], fields := [([116], [[45, 120]])], filterLabel := [],
      filter := none, sortingRules := [[45, 120], [105, 100]], page := [], incl := [] }
    { fragments := [[116]], isCol := true, resType := [116], resID := [], rel := default,
      params := default }
    [([116], [[45, 120]])] rfl rfl
    (by simp [urlHead, c08_tDash, Schema.getType]) (by decide) (by decide)
  refine ⟨_, _, (gs "/t", [(Spec.fieldsName [116], [[45, 120]]),
    (sSort, [[45, 120, 44, 105, 100]])]), h1, by decide, by decide, h2, by decide⟩

/-- Why `String()` rewrites a leading `{` of the label body (url.go; `rewriteBrace` in the
model). The filter value backslash-u007ba is read as the label `{a` (`json.Unmarshal` of the
quoted value), whose JSON body is `{a`; `String()` emits `filter=%5Cu007ba`. Had it emitted
the body as it is (`filter=%7Ba`), the value would start with '{' on re-parsing, be taken for
a filter object and be rejected (`filterDec` fails on `{a`), whatever the label decoder says.
(Until work package W3 the model of `String()` took the already rewritten body as its
parameter and this theorem was stated with the unrewritten one, as the reason for the
hypothesis `hbrace` of `C08_reparse`; the re-parse theorems without that hypothesis are in
Props/C08G.lean.) -/
theorem C08_label_brace_counterexample :
    ∃ u, newURLFrom { types := [c08_tAs] }
        (some ([47, 97, 115], [(sFilter, [[92, 117, 48, 48, 55, 98, 97]])],
          { label := some [123, 97], filter := none })) = .ok u ∧
      u.params.filterLabel = [123, 97] ∧
      u.string { labelBody := [123, 97] } =
        gs "/as?fields%5Bas%5D=x&filter=%5Cu007ba&sort=x%2Cid" ∧
      Spec.parseRaw (gs "/as?fields%5Bas%5D=x&filter=%7Ba&sort=x%2Cid") =
        some (gs "/as", [(Spec.fieldsName [97, 115], [[120]]), (sFilter, [[123, 97]]),
          (sSort, [[120, 44, 105, 100]])]) ∧
      ∀ l, newURLFrom { types := [c08_tAs] }
        (some (gs "/as", [(Spec.fieldsName [97, 115], [[120]]), (sFilter, [[123, 97]]),
          (sSort, [[120, 44, 105, 100]])], { label := l, filter := none })) = .err := by
  have h1 := eval_no_incl { types := [c08_tAs] } [47, 97, 115]
    [(sFilter, [[92, 117, 48, 48, 55, 98, 97]])] { label := some [123, 97], filter := none }
    { fragments := [[97, 115]], fields := [], filterLabel := [123, 97], filter := none,
      sortingRules := [], page := [], incl := [] }
    { fragments := [[97, 115]], isCol := true, resType := [97, 115], resID := [], rel := default,
      params := default }
    [([97, 115], [])] rfl rfl
    (by simp [urlHead, c08_tAs, Schema.getType]) (by decide) (by decide)
  refine ⟨_, h1, rfl, by decide, by decide, ?_⟩
  intro l
  have : newSimpleURL (gs "/as") [(Spec.fieldsName [97, 115], [[120]]), (sFilter, [[123, 97]]),
      (sSort, [[120, 44, 105, 100]])] { label := l, filter := none } = .err := rfl
  unfold newURLFrom
  simp only [this]

/-! ### 11. `String()` is canonical -/

/-- `String()` reads the field and page maps only through lookups on their sorted keys,
and each field list only through its sorted copy. -/
theorem C08_canonical (u₁ u₂ : URL) (env : StringEnv)
    (hfr : u₁.fragments = u₂.fragments) (hcol : u₁.isCol = u₂.isCol)
    (hfl : u₁.params.filterLabel = u₂.params.filterLabel) (hf : u₁.params.filter = u₂.params.filter)
    (hs : u₁.params.sortingRules = u₂.params.sortingRules)
    (hfields : ∀ t, (u₁.params.fields.get? t).map Typ.sortStrings =
      (u₂.params.fields.get? t).map Typ.sortStrings)
    (hk₁ : u₁.params.fields.keys.Nodup) (hk₂ : u₂.params.fields.keys.Nodup)
    (hpage : u₁.isCol = true → ∀ k, u₁.params.page.get? k = u₂.params.page.get? k)
    (hpk₁ : u₁.isCol = true → u₁.params.page.keys.Nodup)
    (hpk₂ : u₁.isCol = true → u₂.params.page.keys.Nodup) :
    u₁.string env = u₂.string env :=
  Perm.string_canonical u₁ u₂ env hfr hcol hfl hf hs hfields hk₁ hk₂ hpage hpk₁ hpk₂

/-- Empty list items vanish: a comma-separated list parses to the items of its two halves. -/
theorem C08_empty_items (a b : GoString) :
    parseCommaList (a ++ [44] ++ b) = parseCommaList a ++ parseCommaList b :=
  Num.parseCommaList_append a b

/-- Reordering the names of a `fields[t]` value permutes the selection (and does not change
whether it is rejected for duplicates). -/
theorem C08_fields_perm (typ : Typ) (l l' : List GoString) (h : l.Perm l') :
    (Perm.sel typ l).Perm (Perm.sel typ l') ∧
    (((Perm.sel typ l).eraseDups.length ≠ (Perm.sel typ l).length) ↔
      ((Perm.sel typ l').eraseDups.length ≠ (Perm.sel typ l').length)) :=
  Perm.sel_perm typ h

/-- Reordering the requested inclusions does not change the pruned (sorted first) list. -/
theorem C08_include_perm (l l' : List GoString) (h : l.Perm l') :
    pruneIncludes (Typ.sortStrings l) = pruneIncludes (Typ.sortStrings l') :=
  Perm.prune_sort_perm l l' h

/-- The second sentence: two values maps that differ in the order of the (uniquely named)
parameters, in the order of the names inside a `fields[..]` value or inside the `include`
values, or in empty list items (`Perm.E` compares the parsed item lists up to permutation)
are both accepted or both rejected, and give the same `String()`. -/
theorem C08_order_value_independent (σ : Schema) (p : GoString)
    (values₁ values' values₂ : GoMap (List GoString)) (fd : FilterDec)
    (hp : values₁.Perm values') (hE : Forall2 Perm.E values' values₂) (hnd : values₁.keys.Nodup) :
    (newURLFrom σ (some (p, values₁, fd))).isOk = (newURLFrom σ (some (p, values₂, fd))).isOk ∧
    ∀ u₁ u₂, newURLFrom σ (some (p, values₁, fd)) = .ok u₁ →
      newURLFrom σ (some (p, values₂, fd)) = .ok u₂ → ∀ env, u₁.string env = u₂.string env := by
  refine ⟨Perm.order_value_independent_isOk σ p values₁ values' values₂ fd hp hE hnd, ?_⟩
  intro u₁ u₂ h₁ h₂
  exact (Perm.order_value_independent σ p values₁ values' values₂ fd hp hE hnd u₁ u₂ h₁ h₂).2.2.2.2.2.2.2.2.2.2.2.2.2.2.2

/-! ### non-vacuity -/

example : (newURLFrom { types := [c08_tAs] } (some ([47, 97, 115], [], c08_fd))).isOk = true := by
  decide

example : Spec.parseRaw (gs "/as?fields%5Bas%5D=x&sort=x%2Cid") =
    some (gs "/as", [(Spec.fieldsName [97, 115], [[120]]), (sSort, [[120, 44, 105, 100]])]) := by
  decide

#print axioms C08_unescape_escape
#print axioms C08_parse_string
#print axioms C08_reparse
#print axioms C08_known_nofields_counterexample
#print axioms C08_known_nofields_string
#print axioms C08_statement_false
#print axioms C08_known_nofields_not_fixpoint
#print axioms C08_comma_counterexample
#print axioms C08_dash_counterexample
#print axioms C08_label_brace_counterexample
#print axioms C08_canonical
#print axioms C08_empty_items
#print axioms C08_fields_perm
#print axioms C08_include_perm
#print axioms C08_order_value_independent

end Jsonapi
