/-
T1b for the schema editing API (C14's state machine): the receiver-mutating methods
`Type.AddAttr/RemoveAttr/AddRel/RemoveRel` and `Schema.AddType/RemoveType/AddAttr/RemoveAttr/
AddRel/RemoveRel/AddTwoWayRel`, translated from type.go / schema.go on this run with the
receiver threaded through as a value (harness/cmd/translate, "state threading"), are the
hand-written model's functions of Model/Schema.lean - for every input.

Correspondence: a `*Type` / `*Schema` receiver is the model's `Typ` / `Schema` value before the
call, the first component of the result is its value after the call, the second the returned
error (`Res.ok ()` for nil). An `Attr` of the code with `Type = k >= 0` is the model's `Attr`
with `ty = k` (the translation reads the kind as `Int.ofNat a.ty`; `Gen_GetAttrTypeString_nonEmpty`
of GenC14 relates the validity test on that integer to the model's `1 <= ty <= 14`).

All equalities but the last hold with no hypothesis on the state (in particular not the
key = name invariant `TypWF`: the code and the model both look names up in the VALUES of the
maps). `AddTwoWayRel` remembers the index of the LAST type of each name where the model updates
the types of that name; the two agree on schemas whose type names are unique - the first
component of C14's invariant `Inv`, stated as the hypothesis `hnd` - and differ otherwise
(`Gen_Schema_AddTwoWayRel_differs_without_unique_names`).
-/
import Jsonapi.Generated.Funcs
import Jsonapi.Props.GenC14
import Jsonapi.Props.GenC16
import Jsonapi.Proofs.GenC14bLemmas
namespace Jsonapi
open Schema GoMap

theorem Gen_Type_AddAttr_eq (t : Typ) (a : Attr) : Gen.Type_AddAttr t a = t.addAttr a := by
  unfold Gen.Type_AddAttr Typ.addAttr Typ.attrNameUsed Typ.relNameUsed
  rw [Gen_GetAttrTypeString_nonEmpty]
  simp only [Int.ofNat_eq_natCast]
  by_cases h1 : a.name = []
  · simp only [h1, decide_true, if_true]
  · by_cases h2 : Gen.GetAttrTypeString (↑a.ty) a.nullable = []
    · simp [h1, h2]
    · by_cases h3 : (t.attrs.any fun p => decide (p.2.name = a.name)) = true
      · simp [h1, h2, h3]
      · by_cases h4 : (t.rels.any fun p => decide (p.2.fromName = a.name)) = true
        · simp [h1, h2, h3, h4]
        · simp [h1, h2, h3, h4]

theorem Gen_Type_AddRel_eq (t : Typ) (r : Rel) : Gen.Type_AddRel t r = t.addRel r := by
  unfold Gen.Type_AddRel Typ.addRel Typ.attrNameUsed Typ.relNameUsed
  by_cases h1 : r.fromName = []
  · simp only [h1, decide_true, if_true]
  · by_cases h2 : r.toType = []
    · simp [h1, h2]
    · by_cases h3 : (t.rels.any fun p => decide (p.2.fromName = r.fromName)) = true
      · simp [h1, h2, h3]
      · by_cases h4 : (t.attrs.any fun p => decide (p.2.name = r.fromName)) = true
        · simp [h1, h2, h3, h4]
        · simp [h1, h2, h3, h4]

theorem Gen_Type_RemoveAttr_eq (t : Typ) (n : GoString) : Gen.Type_RemoveAttr t n = t.removeAttr n := by
  unfold Gen.Type_RemoveAttr Typ.removeAttr Typ.attrNameUsed
  exact GenC14b.delLoop (fun t : Typ => t.attrs) (fun t m => { t with attrs := m }) (fun _ _ => rfl) (fun _ _ _ => rfl)
    (fun a => decide (a.name = n)) n t.attrs t (fun e he => GenC14b.has_of_mem he)

theorem Gen_Type_RemoveRel_eq (t : Typ) (n : GoString) : Gen.Type_RemoveRel t n = t.removeRel n := by
  unfold Gen.Type_RemoveRel Typ.removeRel Typ.relNameUsed
  exact GenC14b.delLoop (fun t : Typ => t.rels) (fun t m => { t with rels := m }) (fun _ _ => rfl) (fun _ _ _ => rfl)
    (fun a => decide (a.fromName = n)) n t.rels t (fun e he => GenC14b.has_of_mem he)

theorem Gen_Schema_AddType_eq (s : Schema) (t : Typ) : Gen.Schema_AddType s t = s.addType t := by
  unfold Gen.Schema_AddType Schema.addType Schema.hasType
  by_cases h1 : t.name = []
  · simp [h1]
  · by_cases h2 : (s.types.any fun u => decide (u.name = t.name)) = true
    · simp [h1, h2]
    · simp [h1, h2]

theorem Gen_Schema_RemoveType_eq (s : Schema) (n : GoString) : Gen.Schema_RemoveType s n = s.removeType n := by
  unfold Gen.Schema_RemoveType Schema.removeType
  have := GenC14b.findRange (fun t : Typ => decide (t.name = n)) Typ.empty s.types
  revert this
  generalize (List.range s.types.length).find? (fun i => decide ((s.types.getD i Typ.empty).name = n)) = o
  cases o with
  | none => intro h; simp only; rw [GenC14b.eraseFirst_none _ _ h]
  | some i =>
    rintro ⟨l1, a, l2, e, ei, ha, hl1⟩
    simp only
    rw [e, ei, GenC14b.eraseFirst_decomp _ _ _ _ hl1 ha, GenC14b.take_decomp, GenC14b.drop_decomp]

theorem Gen_Schema_AddAttr_eq (s : Schema) (n : GoString) (a : Attr) : Gen.Schema_AddAttr s n a = s.addAttr n a := by
  unfold Gen.Schema_AddAttr Schema.addAttr
  have := GenC14b.findRange (fun t : Typ => decide (t.name = n)) Typ.empty s.types
  revert this
  generalize (List.range s.types.length).find? (fun i => decide ((s.types.getD i Typ.empty).name = n)) = o
  cases o with
  | none => intro h; simp only; rw [GenC14b.updFirst_none' _ _ _ h]
  | some i =>
    rintro ⟨l1, b, l2, e, ei, hb, hl1⟩
    simp only
    rw [e, ei, GenC14b.updFirst_decomp _ _ _ _ _ hl1 hb, GenC14b.getD_decomp, GenC14b.set_decomp, Gen_Type_AddAttr_eq]

theorem Gen_Schema_AddRel_eq (s : Schema) (n : GoString) (r : Rel) : Gen.Schema_AddRel s n r = s.addRel n r := by
  unfold Gen.Schema_AddRel Schema.addRel
  have := GenC14b.findRange (fun t : Typ => decide (t.name = n)) Typ.empty s.types
  revert this
  generalize (List.range s.types.length).find? (fun i => decide ((s.types.getD i Typ.empty).name = n)) = o
  cases o with
  | none => intro h; simp only; rw [GenC14b.updFirst_none' _ _ _ h]
  | some i =>
    rintro ⟨l1, b, l2, e, ei, hb, hl1⟩
    simp only
    rw [e, ei, GenC14b.updFirst_decomp _ _ _ _ _ hl1 hb, GenC14b.getD_decomp, GenC14b.set_decomp, Gen_Type_AddRel_eq]

theorem Gen_Schema_RemoveAttr_eq (s : Schema) (n a : GoString) : Gen.Schema_RemoveAttr s n a = s.removeAttr n a := by
  unfold Gen.Schema_RemoveAttr Schema.removeAttr Schema.updAll
  have := GenC14b.foldRange (fun t : Typ => decide (t.name = n)) (fun t => Gen.Type_RemoveAttr t a) s
  simp only [Gen_Type_RemoveAttr_eq] at this ⊢
  simpa using this

theorem Gen_Schema_RemoveRel_eq (s : Schema) (n a : GoString) : Gen.Schema_RemoveRel s n a = s.removeRel n a := by
  unfold Gen.Schema_RemoveRel Schema.removeRel Schema.updAll
  have := GenC14b.foldRange (fun t : Typ => decide (t.name = n)) (fun t => Gen.Type_RemoveRel t a) s
  simp only [Gen_Type_RemoveRel_eq] at this ⊢
  simpa using this

/-- `Schema.AddTwoWayRel`. `hnd`: the type names of the schema are pairwise distinct (the first
component of C14's invariant `Inv`; every schema built through the API has it, `AddType` refuses
a second type of the same name). -/
theorem Gen_Schema_AddTwoWayRel_eq (s : Schema) (hnd : (s.types.map (·.name)).Nodup) (r : Rel) :
    Gen.Schema_AddTwoWayRel s r = s.addTwoWayRel r := by
  unfold Gen.Schema_AddTwoWayRel Schema.addTwoWayRel
  simp only [Gen_Rel_Normalize_eq, Gen_Rel_Invert_eq, Gen_Type_AddRel_eq, Gen_Type_RemoveRel_eq]
  generalize r.normalize = x
  rw [GenC14b.pairIdx s.types x.fromType x.invert.fromType _ ?hF]
  case hF =>
    intro a b i
    generalize (s.types.getD i Typ.empty).name = nm
    generalize x.fromType = A
    generalize x.invert.fromType = B
    by_cases h1 : nm = A
    · subst h1
      by_cases h2 : nm = B
      · subst h2; simp
      · simp [h2]
    · by_cases h2 : nm = B
      · subst h2; simp [h1]
      · simp [h1, h2]
  simp only []
  have z1 : ∀ j : Nat, decide ((0 : Int) ≤ Int.ofNat j) = true := fun j => by simp
  have z2 : ∀ j : Nat, (Int.ofNat j).toNat = j := fun _ => rfl
  have z3 : decide ((0 : Int) ≤ -1) = false := by decide
  have hasAdd : ∀ (t : Schema) (y : Rel) (n : GoString), (twAdd t y).hasType n = t.hasType n := hasType_twAdd
  have hasUndo : ∀ (t : Schema) (y : Rel) (n : GoString), (twUndo t y).hasType n = t.hasType n := hasType_twUndo
  by_cases p1 : x.fromType ∈ s.types.map (·.name)
  · obtain ⟨j1, e1, hat1⟩ := GenC14b.idx_present _ _ hnd p1
    have h1 : s.hasType x.fromType = true := (hasType_iff s _).2 p1
    have r1 := GenC14b.at_twRes s j1 x hnd hat1
    have a1 := GenC14b.at_twAdd' s j1 x hnd hat1
    have hnd1 : ((twAdd s x).types.map (·.name)).Nodup := by rw [GenC14b.names_twAdd]; exact hnd
    by_cases p2 : x.invert.fromType ∈ s.types.map (·.name)
    · obtain ⟨j2, e2, hat2⟩ := GenC14b.idx_present _ _ hnd p2
      have h2 : s.hasType x.invert.fromType = true := (hasType_iff s _).2 p2
      have hat2' : ((twAdd s x).types.map (·.name))[j2]? = some x.invert.fromType := by
        rw [GenC14b.names_twAdd]; exact hat2
      have r2 := GenC14b.at_twRes (twAdd s x) j2 x.invert hnd1 hat2'
      have a2 := GenC14b.at_twAdd' (twAdd s x) j2 x.invert hnd1 hat2'
      have hnd2 : ((twAdd (twAdd s x) x.invert).types.map (·.name)).Nodup := by rw [GenC14b.names_twAdd]; exact hnd1
      have hat1'' : ((twAdd (twAdd s x) x.invert).types.map (·.name))[j1]? = some x.fromType := by
        rw [GenC14b.names_twAdd, GenC14b.names_twAdd]; exact hat1
      have u1 := GenC14b.at_twUndo' (twAdd (twAdd s x) x.invert) j1 x hnd2 hat1''
      rw [e1, e2]
      simp only [z1, z2, if_true, Bool.and_self, r1, a1, r2, a2, u1, h1, h2]
      by_cases c1 : twRes s x = .ok ()
      · by_cases c2 : twRes (twAdd s x) x.invert = .ok ()
        · simp [c1, c2]
        · have q := GenC14b.twAdd_err _ _ hnd1 c2
          simp [c1, c2, q]
      · have q := GenC14b.twAdd_err _ _ hnd c1
        simp [c1, q]
    · have e2 := GenC14b.idx_absent _ _ p2
      have h2 : ¬ s.hasType x.invert.fromType = true := fun h => p2 ((hasType_iff s _).1 h)
      have h2' : ¬ (twAdd s x).hasType x.invert.fromType = true := by rw [hasAdd]; exact h2
      have hat1' : ((twAdd s x).types.map (·.name))[j1]? = some x.fromType := by
        rw [GenC14b.names_twAdd]; exact hat1
      have u1 := GenC14b.at_twUndo' (twAdd s x) j1 x hnd1 hat1'
      rw [e1, e2]
      simp only [z1, z2, z3, if_true, if_false, Bool.false_eq_true, Bool.and_false, r1, a1, u1]
      have q2 : twRes (twAdd s x) x.invert = .ok () := by unfold twRes; rw [if_neg h2']
      have q3 : twAdd (twAdd s x) x.invert = twAdd s x := twAdd_absent _ _ h2'
      have q4 : twUndo (twUndo (twAdd s x) x) x.invert = twUndo (twAdd s x) x :=
        twUndo_absent _ _ (by rw [hasUndo, hasAdd]; exact h2)
      by_cases c1 : twRes s x = .ok ()
      · simp [c1, q2, q3, q4, h2]
      · have q := GenC14b.twAdd_err _ _ hnd c1
        simp [c1, q]
  · have e1 := GenC14b.idx_absent _ _ p1
    have h1 : ¬ s.hasType x.fromType = true := fun h => p1 ((hasType_iff s _).1 h)
    have q1 : twRes s x = .ok () := by unfold twRes; rw [if_neg h1]
    have q1' : twAdd s x = s := twAdd_absent _ _ h1
    by_cases p2 : x.invert.fromType ∈ s.types.map (·.name)
    · obtain ⟨j2, e2, hat2⟩ := GenC14b.idx_present _ _ hnd p2
      have r2 := GenC14b.at_twRes s j2 x.invert hnd hat2
      have a2 := GenC14b.at_twAdd' s j2 x.invert hnd hat2
      have hnd2 : ((twAdd s x.invert).types.map (·.name)).Nodup := by rw [GenC14b.names_twAdd]; exact hnd
      have hat2' : ((twAdd s x.invert).types.map (·.name))[j2]? = some x.invert.fromType := by
        rw [GenC14b.names_twAdd]; exact hat2
      have u2 := GenC14b.at_twUndo' (twAdd s x.invert) j2 x.invert hnd2 hat2'
      rw [e1, e2]
      simp only [z1, z2, z3, if_true, if_false, Bool.false_eq_true, Bool.false_and, r2, a2, u2]
      have q5 : twUndo s x = s := twUndo_absent _ _ h1
      have q6 : twUndo (twAdd s x.invert) x = twAdd s x.invert := twUndo_absent _ _ (by rw [hasAdd]; exact h1)
      by_cases c2 : twRes s x.invert = .ok ()
      · simp [q1, q1', c2, q6, h1]
      · have q := GenC14b.twAdd_err _ _ hnd c2
        simp [q1, q1', c2, q5, q]
    · have e2 := GenC14b.idx_absent _ _ p2
      have h2 : ¬ s.hasType x.invert.fromType = true := fun h => p2 ((hasType_iff s _).1 h)
      have q2 : twRes s x.invert = .ok () := by unfold twRes; rw [if_neg h2]
      have q3 : twAdd s x.invert = s := twAdd_absent _ _ h2
      have q5 : twUndo s x = s := twUndo_absent _ _ h1
      have q6 : twUndo s x.invert = s := twUndo_absent _ _ h2
      rw [e1, e2]
      simp [q1, q1', q2, q3, q5, q6, h1]

/-- Without unique type names the code and the model part: with two types named "a" the code
adds the relationship to the LAST one only (the index it remembered), the model to both. Such a
schema cannot be built through the API; the translation is the ground truth for it. -/
theorem Gen_Schema_AddTwoWayRel_differs_without_unique_names :
    let a : Typ := { name := [97], attrs := [], rels := [] }
    let b : Typ := { name := [98], attrs := [], rels := [] }
    let s : Schema := { types := [a, a, b] }
    let r : Rel := { fromType := [97], fromName := [120], toOne := true, toType := [98], toName := [121], fromOne := true }
    Gen.Schema_AddTwoWayRel s r ≠ s.addTwoWayRel r ∧
    (Gen.Schema_AddTwoWayRel s r).2 = .ok () ∧ (s.addTwoWayRel r).2 = .ok () ∧
    ((Gen.Schema_AddTwoWayRel s r).1.types.map (fun t => t.rels.length)) = [0, 1, 1] ∧
    ((s.addTwoWayRel r).1.types.map (fun t => t.rels.length)) = [1, 1, 1] := by
  decide

end Jsonapi

section Axioms
open Jsonapi
#print axioms Gen_Type_AddAttr_eq
#print axioms Gen_Type_RemoveAttr_eq
#print axioms Gen_Type_AddRel_eq
#print axioms Gen_Type_RemoveRel_eq
#print axioms Gen_Schema_AddType_eq
#print axioms Gen_Schema_RemoveType_eq
#print axioms Gen_Schema_AddAttr_eq
#print axioms Gen_Schema_RemoveAttr_eq
#print axioms Gen_Schema_AddRel_eq
#print axioms Gen_Schema_RemoveRel_eq
#print axioms Gen_Schema_AddTwoWayRel_eq
#print axioms Gen_Schema_AddTwoWayRel_differs_without_unique_names
end Axioms
