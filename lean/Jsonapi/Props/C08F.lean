/-
C08F — the JSON codec of the `filter` parameter, modelled and proved (C08 assumed it).

Props/C08.lean states what it needs of `json.Marshal` / `json.Unmarshal` on a filter label
and on a `Filter` as the structure `CodecLaws`, a hypothesis of `C08_reparse`. Here the two
decoders and the two encoders are the model of the real code (Model/FilterJson.lean:
`Filter.UnmarshalJSON` with encoding/json's struct and `any` decoding rules on the tree of
the text, `json.Marshal` of a `Filter`, the string codec of Model/JsonText.lean and
Spec/JsonParse.lean) and `CodecLaws` is a theorem about them (`C08F_real_codecs`), so
`C08_reparse` holds with no assumption on the codec (`C08F_reparse`).

What stays a parameter: `numCanon`, the text Go prints for the float64 a number literal
denotes (`NumCanonLaws`: printing is idempotent and prints a JSON number; `id` satisfies both,
and is what Go does on integer numerals within ±2^53, the domain on which the `filterjson`
suite compares the model with the real code).

Validity of UTF-8. The model's string codec copies every byte; Go replaces each byte that is
not part of a well-formed UTF-8 sequence by U+FFFD, when reading and when writing. Go's writer
is modelled too (`goLabelBody`, compared with `json.Marshal` on every generated label): it is
the model's writer on well-formed UTF-8 (`C08F_label_rt_valid`, `utf8Valid` decidable) and
loses the label otherwise (`C08F_label_rt_invalid_counterexample`), so `CodecLaws.label_rt`,
which quantifies over all byte strings, is a law of the copying model and not of the real
writer; `C08F_go_codecs` is the variant restricted to `utf8Valid` labels. This does not weaken
`C08F_reparse` for the real code: the label of a parsed URL is what `json.Unmarshal`
returned, which is always well-formed UTF-8, where the two writers agree. The reader
(`Spec.parseJson`) is the real one on well-formed UTF-8 without whitespace between tokens and
without surrogate escapes (the domain of the `filterjson` suite; `String()` writes neither).
-/
import Jsonapi.Props.C08
import Jsonapi.Proofs.FilterJsonLemmas
namespace Jsonapi
open FjL UrlL

/-- What is assumed of Go's float64 printing of a number literal. -/
structure NumCanonLaws (numCanon : GoString → GoString) : Prop where
  /-- printing the printed text again changes nothing -/
  idem : ∀ x, numCanon (numCanon x) = numCanon x
  /-- a JSON number is printed as a JSON number -/
  ok : ∀ x, Spec.numOk x = true → Spec.numOk (numCanon x) = true

theorem C08F_numCanon_id : NumCanonLaws id := ⟨fun _ => rfl, fun _ h => h⟩

/-! ### labels -/

/-- `json.Unmarshal("\"" + body + "\"", &label)` on the body `json.Marshal(l)` wrote gives
`l` back, for every byte string (no hypothesis is needed for the model, which copies bytes
that are not UTF-8; it is the real codec on `utf8Valid` labels, see the header). -/
theorem C08F_label_rt (l : GoString) : labelDec (labelBody l) = some l := by
  have h := JsonL.parseJson_render (.str l) (by simp only [Json.numsOk])
  simp only [Json.render, renderStr] at h
  unfold labelDec labelBody
  rw [h]

/-- The same for Go's encoder with its U+FFFD replacement (`goLabelBody`, compared with
`json.Marshal` on every generated label, well formed or not): on a label that is well-formed
UTF-8 (`utf8Valid`, decidable) it writes what the model's encoder writes, so the label is
recovered. -/
theorem C08F_label_rt_valid (l : GoString) (h : utf8Valid l = true) :
    goLabelBody l = labelBody l ∧ labelDec (goLabelBody l) = some l := by
  have e : goLabelBody l = labelBody l := goStrBody_valid l h
  exact ⟨e, by rw [e]; exact C08F_label_rt l⟩

/-- The hypothesis is needed: for the byte FF `json.Marshal` writes backslash-u-f-f-f-d, which
decodes to U+FFFD (EF BF BD), not to the label. So `CodecLaws.label_rt`, stated for all byte
strings, is not a law of the real encoder; it is one on `utf8Valid` labels (`C08F_go_codecs`). -/
theorem C08F_label_rt_invalid_counterexample :
    utf8Valid [0xFF] = false ∧ goLabelBody [0xFF] = [92, 117, 102, 102, 102, 100] ∧
    labelDec (goLabelBody [0xFF]) = some [0xEF, 0xBF, 0xBD] := by decide

/-- a non-empty label has a non-empty body -/
theorem C08F_label_ne (l : GoString) (hl : l ≠ []) : labelBody l ≠ [] := by
  intro hb
  have h := C08F_label_rt l
  rw [hb] at h
  have h0 : labelDec [] = some [] := by decide
  rw [h0] at h
  exact hl (Option.some.inj h).symm

/-! ### filters -/

/-- The canonical text comes from a tree: the text read by the strict JSON reader,
`Filter.UnmarshalJSON` on it, and `json.Marshal`; and that filter is recovered — the tree, not
only the text — from the canonical text: it parses to the JSON of the filter, on which
`Filter.UnmarshalJSON` returns the filter. -/
theorem C08F_filter_tree (nc : GoString → GoString) (hnc : NumCanonLaws nc) (x f : GoString)
    (h : filterDec nc x = some f) :
    ∃ j t, Spec.parseJson x = some j ∧ filterOfJson nc j = .ok t ∧ f = renderFilter t ∧
      Spec.parseJson f = some (filterToJson t) ∧ filterOfJson nc (filterToJson t) = .ok t := by
  unfold filterDec at h
  cases hp : Spec.parseJson x with
  | none => rw [hp] at h; cases h
  | some j =>
    rw [hp] at h
    simp only at h
    cases hf : filterOfJson nc j with
    | ok t =>
      rw [hf] at h
      simp only [Option.some.injEq] at h
      have hwf : WF nc t := filterOfJson_wf nc hnc.idem hnc.ok j (parseJson_numsOk x j hp) t hf
      refine ⟨j, t, rfl, hf, h.symm, ?_, filterOfJson_filterToJson nc t hwf⟩
      rw [← h]
      exact JsonL.parseJson_render (filterToJson t) (filterToJson_numsOk nc t hwf)
    | err => rw [hf] at h; cases h
    | panic => rw [hf] at h; cases h

/-- The canonical text is a fixed point: decoding it and marshaling the result gives the same
text. This is `CodecLaws.filter_rt` with `Canon f := ∃ x, filterDec nc x = some f`. -/
theorem C08F_filter_idem (nc : GoString → GoString) (hnc : NumCanonLaws nc) (x f : GoString)
    (h : filterDec nc x = some f) : filterDec nc f = some f := by
  obtain ⟨j, t, _, _, hf, hparse, hback⟩ := C08F_filter_tree nc hnc x f h
  unfold filterDec
  rw [hparse]
  simp only [hback, hf]

/-- the canonical text is an object: it starts with `{` (what `NewSimpleURL` tests) -/
theorem C08F_canon_head (nc : GoString → GoString) (x f : GoString)
    (h : filterDec nc x = some f) : f.head? = some 123 := by
  unfold filterDec at h
  cases hp : Spec.parseJson x with
  | none => rw [hp] at h; cases h
  | some j =>
    rw [hp] at h
    simp only at h
    cases hf : filterOfJson nc j with
    | ok t =>
      rw [hf] at h
      simp only [Option.some.injEq] at h
      rw [← h]
      cases t with
      | mk field op col val =>
        simp only [renderFilter, filterToJson_eq, Json.render, List.head?_cons]
    | err => rw [hf] at h; cases h
    | panic => rw [hf] at h; cases h

/-- What `Filter.UnmarshalJSON` returns on the tree of any accepted text is well formed: a
filter list exactly under `and` / `or` (with the field cleared), a normalised value
elsewhere. -/
theorem C08F_filter_wf (nc : GoString → GoString) (hnc : NumCanonLaws nc) (x : GoString)
    (j : Json) (t : FilterVal) (hp : Spec.parseJson x = some j) (hf : filterOfJson nc j = .ok t) :
    WF nc t :=
  filterOfJson_wf nc hnc.idem hnc.ok j (parseJson_numsOk x j hp) t hf

/-! ### `CodecLaws` of the modelled codecs -/

/-- All four laws C08 assumes, for the model of the real codecs. No side condition beyond
the two laws of the number printer: `label_rt` and `label_ne` hold for every byte string
because the model copies bytes that are not UTF-8 (header: the real codec has `label_rt` on
`utf8Valid` labels, which is all a parsed URL can hold). -/
theorem C08F_real_codecs (nc : GoString → GoString) (hnc : NumCanonLaws nc) :
    CodecLaws labelDec (filterDec nc) labelBody (fun f => ∃ x, filterDec nc x = some f) where
  label_rt := C08F_label_rt
  label_ne := C08F_label_ne
  filter_rt := fun f ⟨x, hx⟩ => C08F_filter_idem nc hnc x f hx
  canon_head := fun f ⟨x, hx⟩ => C08F_canon_head nc x f hx

/-- `CodecLaws` with the two label laws restricted to labels satisfying `P`. -/
structure CodecLawsOn (P : GoString → Prop) (labelDec filterDec : GoString → Option GoString)
    (labelBody : GoString → GoString) (Canon : GoString → Prop) : Prop where
  label_rt : ∀ l, P l → labelDec (labelBody l) = some l
  label_ne : ∀ l, P l → l ≠ [] → labelBody l ≠ []
  filter_rt : ∀ f, Canon f → filterDec f = some f
  canon_head : ∀ f, Canon f → f.head? = some 123

/-- The laws with Go's encoder (U+FFFD replacement included) hold on well-formed UTF-8 labels,
and `CodecLaws` itself — all byte strings — does not hold of it. `C08_reparse` is stated with
`CodecLaws`, so it is instantiated with the model's encoder (`C08F_reparse`), which is Go's on
every label a parsed URL can hold (`json.Unmarshal` only returns well-formed UTF-8). -/
theorem C08F_go_codecs (nc : GoString → GoString) (hnc : NumCanonLaws nc) :
    CodecLawsOn (fun l => utf8Valid l = true) labelDec (filterDec nc) goLabelBody
      (fun f => ∃ x, filterDec nc x = some f) ∧
    ¬ CodecLaws labelDec (filterDec nc) goLabelBody (fun f => ∃ x, filterDec nc x = some f) := by
  refine ⟨⟨fun l h => (C08F_label_rt_valid l h).2, fun l h hl => ?_,
    fun f ⟨x, hx⟩ => C08F_filter_idem nc hnc x f hx,
    fun f ⟨x, hx⟩ => C08F_canon_head nc x f hx⟩, fun laws => ?_⟩
  · rw [(C08F_label_rt_valid l h).1]; exact C08F_label_ne l hl
  · have h1 := laws.label_rt [0xFF]
    rw [C08F_label_rt_invalid_counterexample.2.2] at h1
    exact absurd h1 (by decide)

/-- with `numCanon := id` (integer numerals within ±2^53): no hypothesis left -/
theorem C08F_real_codecs_id :
    CodecLaws labelDec (filterDec id) labelBody (fun f => ∃ x, filterDec id x = some f) :=
  C08F_real_codecs id C08F_numCanon_id

/-- `C08_reparse` with the modelled codecs in place of the assumed ones: for a URL returned by
`NewURLFromRaw` whose filter (if any) is the canonical text of some accepted text, `String()`
parses back — with the filter parameter decoded by the modelled `json.Unmarshal` — to the
same URL. -/
theorem C08F_reparse (nc : GoString → GoString) (hnc : NumCanonLaws nc)
    (σ : Schema) (path : GoString) (values : GoMap (List GoString)) (fd : FilterDec) (u : URL)
    (hσ : Inv σ) (hn : NamesOK σ) (h : newURLFrom σ (some (path, values, fd)) = .ok u)
    (hv : values.keys.Nodup) (hne : NoEmptySelection u)
    (hcanon : ∀ f, u.params.filter = some f → ∃ x, filterDec nc x = some f)
    (hbrace : u.params.filterLabel ≠ [] → (labelBody u.params.filterLabel).head? ≠ some 123) :
    ∃ u',
      Spec.parseRaw (u.string (c08_env labelBody u)) =
        some (Spec.emittedPath u, Spec.emittedValues u (c08_env labelBody u)) ∧
      newURLFrom σ (some (Spec.emittedPath u, Spec.emittedValues u (c08_env labelBody u),
        c08_reparseFd labelDec (filterDec nc) (Spec.emittedValues u (c08_env labelBody u)))) = .ok u' ∧
      u'.fragments = u.fragments ∧ u'.resType = u.resType ∧ u'.resID = u.resID ∧
      u'.rel = u.rel ∧ u'.isCol = u.isCol ∧
      (∀ t, (u'.params.fields.get? t).map Typ.sortStrings =
            (u.params.fields.get? t).map Typ.sortStrings) ∧
      u'.params.sortingRules = u.params.sortingRules ∧
      (u.isCol = true → ∀ k, u'.params.page.get? k = u.params.page.get? k) ∧
      u'.params.filterLabel = u.params.filterLabel ∧ u'.params.filter = u.params.filter ∧
      u'.string (c08_env labelBody u') = u.string (c08_env labelBody u) :=
  C08_reparse σ path values fd u labelDec (filterDec nc) labelBody
    (fun f => ∃ x, filterDec nc x = some f) hσ hn (C08F_real_codecs nc hnc) h hv hne hcanon hbrace

/-! ### the filter of a parsed URL is canonical -/

theorem c08f_simpleStep_filter {fd : FilterDec} {su su' : SimpleURL} {name : GoString}
    {vs : List GoString} (h : simpleStep fd su name vs = .ok su')
    (hsu : su.filter = none ∨ su.filter = fd.filter) :
    su'.filter = none ∨ su'.filter = fd.filter := by
  rw [simpleStep_eq] at h
  cases hc : classify name <;> simp only [hc] at h
  · cases h; exact hsu
  · cases h; split <;> exact hsu
  · rcases (filterStep_ok h).2.2.2.2.2.2 with h1 | h1
    · rw [h1.2.2]; exact hsu
    · exact .inr h1.2.1.symm
  · cases h; exact hsu
  · cases h; exact hsu
  · cases h

/-- `NewSimpleURL` only stores a filter that the decoder of the `filter` parameter returned -/
theorem c08f_newSimpleURL_filter {path : GoString} {values : GoMap (List GoString)}
    {fd : FilterDec} {su : SimpleURL} (h : newSimpleURL path values fd = .ok su) :
    su.filter = none ∨ su.filter = fd.filter := by
  rw [newSimpleURL_eq] at h
  exact rfold_inv _ (fun su => su.filter = none ∨ su.filter = fd.filter)
    (fun a b a' ha hs => c08f_simpleStep_filter hs ha) _ _ _ (.inl rfl) h

/-- The filter of a URL that `NewURLFromRaw` returned is what the decoder returned. -/
theorem C08F_parsed_filter (σ : Schema) (path : GoString) (values : GoMap (List GoString))
    (fd : FilterDec) (u : URL) (h : newURLFrom σ (some (path, values, fd)) = .ok u)
    (f : GoString) (hf : u.params.filter = some f) : fd.filter = some f := by
  obtain ⟨path', values', fd', su, hpar, hsu, hu⟩ := newURLFrom_ok σ _ u h
  cases hpar
  obtain ⟨u0, p, _, hp, hue⟩ := newURL_ok' hu
  have e : u.params.filter = su.filter := by
    obtain ⟨fm, _, _, _, hfil, _⟩ := newParams_ok hp
    rw [hue]
    exact hfil
  rw [e] at hf
  rcases c08f_newSimpleURL_filter hsu with h1 | h1
  · rw [h1] at hf; cases hf
  · rw [← h1]; exact hf

/-- `C08_reparse` for a URL parsed with the modelled decoders on its own `filter` parameter
(`c08_reparseFd labelDec (filterDec nc) values`: what simple_url.go computes from the values
map): nothing is assumed of the codec, and nothing of the filter. What remains besides the
hypotheses of C08 on the schema and the values map is `hbrace` (a label whose JSON body
starts with `{`; without the rewrite `String()` does on it, it would be re-read as a filter
object: `C08_label_brace_counterexample`). `C08G_reparse_real` (Props/C08G.lean) is this
theorem without `hbrace`. -/
theorem C08F_reparse_real (nc : GoString → GoString) (hnc : NumCanonLaws nc)
    (σ : Schema) (path : GoString) (values : GoMap (List GoString)) (u : URL)
    (hσ : Inv σ) (hn : NamesOK σ)
    (h : newURLFrom σ (some (path, values, c08_reparseFd labelDec (filterDec nc) values)) = .ok u)
    (hv : values.keys.Nodup) (hne : NoEmptySelection u)
    (hbrace : u.params.filterLabel ≠ [] → (labelBody u.params.filterLabel).head? ≠ some 123) :
    ∃ u',
      Spec.parseRaw (u.string (c08_env labelBody u)) =
        some (Spec.emittedPath u, Spec.emittedValues u (c08_env labelBody u)) ∧
      newURLFrom σ (some (Spec.emittedPath u, Spec.emittedValues u (c08_env labelBody u),
        c08_reparseFd labelDec (filterDec nc) (Spec.emittedValues u (c08_env labelBody u)))) = .ok u' ∧
      u'.fragments = u.fragments ∧ u'.resType = u.resType ∧ u'.resID = u.resID ∧
      u'.rel = u.rel ∧ u'.isCol = u.isCol ∧
      (∀ t, (u'.params.fields.get? t).map Typ.sortStrings =
            (u.params.fields.get? t).map Typ.sortStrings) ∧
      u'.params.sortingRules = u.params.sortingRules ∧
      (u.isCol = true → ∀ k, u'.params.page.get? k = u.params.page.get? k) ∧
      u'.params.filterLabel = u.params.filterLabel ∧ u'.params.filter = u.params.filter ∧
      u'.string (c08_env labelBody u') = u.string (c08_env labelBody u) :=
  C08F_reparse nc hnc σ path values _ u hσ hn h hv hne
    (fun f hf => ⟨_, C08F_parsed_filter σ path values _ u h f hf⟩) hbrace

/-! ### non-vacuity -/

/-- `{"O":"or","f":"dropped","v":[null,{"f":"a<","o":"=","v":{"b":1,"a":[true,null,"x"],"b":-2},"c":"n"},{"o":"and","v":null}],"zz":0}`:
upper-case key, a field cleared by `or`, a nil element, a map with a repeated key and
unsorted keys, `<` in a string, a nil filter list, an unknown member. -/
def c08f_text : GoString :=
  [123, 34, 79, 34, 58, 34, 111, 114, 34, 44, 34, 102, 34, 58, 34, 100, 114, 111, 112, 112, 101,
   100, 34, 44, 34, 118, 34, 58, 91, 110, 117, 108, 108, 44, 123, 34, 102, 34, 58, 34, 97, 60, 34,
   44, 34, 111, 34, 58, 34, 61, 34, 44, 34, 118, 34, 58, 123, 34, 98, 34, 58, 49, 44, 34, 97, 34,
   58, 91, 116, 114, 117, 101, 44, 110, 117, 108, 108, 44, 34, 120, 34, 93, 44, 34, 98, 34, 58,
   45, 50, 125, 44, 34, 99, 34, 58, 34, 110, 34, 125, 44, 123, 34, 111, 34, 58, 34, 97, 110, 100,
   34, 44, 34, 118, 34, 58, 110, 117, 108, 108, 125, 93, 44, 34, 122, 122, 34, 58, 48, 125]

/-- `{"f":"","o":"or","v":[null,{"f":"a<","o":"=","v":{"a":[true,null,"x"],"b":-2},"c":"n"},{"f":"","o":"and","v":null,"c":""}],"c":""}` -/
def c08f_canon : GoString :=
  [123, 34, 102, 34, 58, 34, 34, 44, 34, 111, 34, 58, 34, 111, 114, 34, 44, 34, 118, 34, 58, 91,
   110, 117, 108, 108, 44, 123, 34, 102, 34, 58, 34, 97, 92, 117, 48, 48, 51, 99, 34, 44, 34, 111,
   34, 58, 34, 61, 34, 44, 34, 118, 34, 58, 123, 34, 97, 34, 58, 91, 116, 114, 117, 101, 44, 110,
   117, 108, 108, 44, 34, 120, 34, 93, 44, 34, 98, 34, 58, 45, 50, 125, 44, 34, 99, 34, 58, 34,
   110, 34, 125, 44, 123, 34, 102, 34, 58, 34, 34, 44, 34, 111, 34, 58, 34, 97, 110, 100, 34, 44,
   34, 118, 34, 58, 110, 117, 108, 108, 44, 34, 99, 34, 58, 34, 34, 125, 93, 44, 34, 99, 34, 58,
   34, 34, 125]

set_option maxRecDepth 100000 in
example : filterDec id c08f_text = some c08f_canon := by decide

set_option maxRecDepth 100000 in
/-- the fixed point, evaluated -/
example : filterDec id c08f_canon = some c08f_canon := by decide

set_option maxRecDepth 100000 in
/-- the fixed point, from the theorem -/
example : filterDec id c08f_canon = some c08f_canon :=
  C08F_filter_idem id C08F_numCanon_id c08f_text c08f_canon (by decide)

set_option maxRecDepth 100000 in
/-- the decoded tree -/
example : (Spec.parseJson c08f_text).map (fun j => (filterOfJson id j).isOk) = some true := by
  decide

/-- `{"o":"and"}`: no `v` under `and` is rejected; `null` is accepted as the zero filter; an
array is not -/
example : filterDec id [123, 34, 111, 34, 58, 34, 97, 110, 100, 34, 125] = none := by decide
example : (filterDec id [110, 117, 108, 108]).isSome = true := by decide
example : filterDec id [91, 93] = none := by decide

/-- the label `a"bé` has the body `a\"bé`, and the escaped spelling `a\"bé` decodes to it -/
example : labelBody [97, 34, 98, 195, 169] = [97, 92, 34, 98, 195, 169] := by decide
example : labelDec [97, 92, 34, 98, 92, 117, 48, 48, 101, 57] = some [97, 34, 98, 195, 169] := by
  decide
example : labelDec [97, 34, 98] = none := by decide

/-- a number printer that is not the identity: every literal becomes `7` -/
example : NumCanonLaws (fun _ => [55]) := ⟨fun _ => rfl, fun _ _ => by decide⟩

end Jsonapi

section Axioms
open Jsonapi
#print axioms C08F_numCanon_id
#print axioms C08F_label_rt
#print axioms C08F_label_rt_valid
#print axioms C08F_label_rt_invalid_counterexample
#print axioms C08F_go_codecs
#print axioms C08F_label_ne
#print axioms C08F_filter_tree
#print axioms C08F_filter_idem
#print axioms C08F_canon_head
#print axioms C08F_filter_wf
#print axioms C08F_real_codecs
#print axioms C08F_real_codecs_id
#print axioms C08F_reparse
#print axioms C08F_parsed_filter
#print axioms C08F_reparse_real
end Axioms
