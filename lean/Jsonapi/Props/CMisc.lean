/-
CMisc — the library's remaining small pieces (Model/Misc.lean), tied to the real code by
the `misc` correspondence suite.

  1. `Resources` and `WrapperCollection` refine a plain list (style of C19): after any
     sequence of `Add`, `Len`/`At` agree with the list of accepted elements.
  2. `NewIdentifiers` / `Identifiers.IDs`.
  3. `Type.Equal` (an equivalence, blind to map order and to NewFunc, NOT blind to nil
     vs empty maps), `Type.Copy`, `Type.Fields`.
  4. The 28 `NewErr…` constructors, `Error.Error()`, the members of an error's JSON.
  5. The `Meta` getters.

Domain: `TypeV.WF` (unique map keys, true of every Go map) where a statement needs it.
-/
import Jsonapi.Proofs.MiscLemmas
namespace Jsonapi
open GoMap MiscL

/-! ### 1. Resources -/

/-- `Add` appends, whatever the value. -/
theorem CM_resources_run {α : Type} (c : RColl α) (rs : List (RArg α)) :
    (c.run rs).col = c.col ++ rs :=
  rcoll_run_col rs c

/-- After any sequence of `Add` on an empty `Resources`: `Len` is the number of `Add`s,
`At(i)` is the i-th added value for `0 ≤ i < Len`, and nil (none) exactly outside that
range (negative indexes included); `GetType` is the zero `Type`. -/
theorem CM_resources_refines {α : Type} (rs : List (RArg α)) :
    let c := (RColl.run ({} : RColl α) rs)
    c.len = rs.length ∧
    (∀ i : Int, 0 ≤ i → i < rs.length → c.at? i = rs[i.toNat]? ∧ c.at? i ≠ none) ∧
    (∀ i : Int, (i < 0 ∨ (rs.length : Int) ≤ i) → c.at? i = none) ∧
    c.getType = TypeV.zero := by
  have hcol : (RColl.run ({} : RColl α) rs).col = rs := by
    rw [rcoll_run_col]; rfl
  refine ⟨?_, ?_, ?_, rfl⟩
  · simp only [RColl.len, hcol]
  · intro i h0 h1
    simp only [RColl.at?, hcol]
    rw [if_pos ⟨h0, h1⟩]
    refine ⟨rfl, ?_⟩
    have hlt : i.toNat < rs.length := by omega
    rw [List.getElem?_eq_getElem hlt]
    exact fun h => by cases h
  · intro i h
    simp only [RColl.at?, hcol]
    rw [if_neg (by omega)]

/-! ### 1. WrapperCollection -/

/-- `WrapCollection(r)`: an empty collection of the sample's type; a nil sample panics. -/
theorem CM_wrapCollection {α : Type} (t : TypeV) :
    (∃ c : WColl α, WColl.wrap (some t) = .ok c ∧ c.getType = t ∧ c.len = 0) ∧
    (WColl.wrap none : Res (WColl α)) = .panic :=
  ⟨⟨{ typ := t, col := [] }, rfl, rfl, rfl⟩, rfl⟩

/-- `Add` of anything that is not a `*Wrapper` changes nothing. -/
theorem CM_wrapper_add_other_noop {α : Type} (c : WColl α) (x : α) : c.add (.other x) = c := rfl

/-- A sequence of `Add` appends the accepted (`*Wrapper`) arguments, in order, and never
changes the collection's type. -/
theorem CM_wrapper_run {α : Type} (c : WColl α) (rs : List (RArg α)) :
    (c.run rs).col = c.col ++ RArg.accepted rs ∧ (c.run rs).getType = c.getType :=
  wcoll_run rs c

/-- `At` never panics on a non-negative index … -/
theorem CM_wrapper_at_no_panic {α : Type} (c : WColl α) (i : Int) (h : 0 ≤ i) :
    c.at? i ≠ .panic ∧ c.at? i ≠ .err := by
  unfold WColl.at?
  by_cases h1 : i < (c.col.length : Int)
  · rw [if_pos h1, if_neg (by omega)]; exact ⟨(by intro h; cases h), (by intro h; cases h)⟩
  · rw [if_neg h1]; exact ⟨(by intro h; cases h), (by intro h; cases h)⟩

/-- … and always panics on a negative one (the only test is `len(wc.col) > i`). -/
theorem CM_wrapper_at_negative_panics {α : Type} (c : WColl α) (i : Int) (h : i < 0) :
    c.at? i = .panic := by
  unfold WColl.at?
  rw [if_pos (by omega), if_pos h]

/-- After any sequence of `Add` on a fresh `WrapCollection`: `Len` is the number of
accepted arguments, `At(i)` is the i-th accepted one for `0 ≤ i < Len`, nil for
`i ≥ Len`; `GetType` is still the sample's type. -/
theorem CM_wrapper_refines {α : Type} (t : TypeV) (rs : List (RArg α)) :
    let c := (WColl.run ({ typ := t, col := [] } : WColl α) rs)
    c.len = (RArg.accepted rs).length ∧
    (∀ i : Int, 0 ≤ i → i < (RArg.accepted rs).length →
      c.at? i = .ok ((RArg.accepted rs)[i.toNat]?) ∧ c.at? i ≠ .ok none) ∧
    (∀ i : Int, ((RArg.accepted rs).length : Int) ≤ i → c.at? i = .ok none) ∧
    c.getType = t := by
  have hrun := wcoll_run rs ({ typ := t, col := [] } : WColl α)
  have hcol : (WColl.run ({ typ := t, col := [] } : WColl α) rs).col = RArg.accepted rs := by
    rw [hrun.1]; rfl
  refine ⟨?_, ?_, ?_, hrun.2⟩
  · simp only [WColl.len, hcol]
  · intro i h0 h1
    simp only [WColl.at?, hcol]
    rw [if_pos h1, if_neg (by omega)]
    refine ⟨rfl, ?_⟩
    have hlt : i.toNat < (RArg.accepted rs).length := by omega
    rw [List.getElem?_eq_getElem hlt]
    exact fun h => by cases h
  · intro i h
    simp only [WColl.at?, hcol]
    rw [if_neg (by omega)]

/-! ### 2. Identifiers -/

/-- `IDs(NewIdentifiers(t, ids))` is `ids` (a nil `ids` comes back as an empty slice). -/
theorem CM_identifiers_ids (t : GoString) (ids : Option (List GoString)) :
    identIDs (newIdentifiers t ids) = some (ids.getD []) := by
  simp [identIDs, newIdentifiers, List.map_map, Function.comp_def]

/-- Every identifier has type `t`, and there are as many as IDs, in the same order. -/
theorem CM_identifiers_types (t : GoString) (ids : Option (List GoString)) :
    ∃ l, newIdentifiers t ids = some l ∧ l.length = (ids.getD []).length ∧
      (∀ x ∈ l, x.typ = t) ∧ ∀ i : Nat, (l[i]?).map (fun x : Ident => x.id) = (ids.getD [])[i]? := by
  refine ⟨_, rfl, by simp, ?_, ?_⟩
  · intro x hx
    obtain ⟨id, _, rfl⟩ := List.mem_map.1 hx
    rfl
  · intro i
    simp only [List.getElem?_map, Option.map_map, Function.comp_def]
    cases (ids.getD [])[i]? <;> rfl

/-- A nil or empty input gives an empty, non-nil list; neither function ever returns a
nil slice. -/
theorem CM_identifiers_nonnil (t : GoString) :
    newIdentifiers t none = some [] ∧ newIdentifiers t (some []) = some [] ∧
    (∀ ids, newIdentifiers t ids ≠ none) ∧ (∀ l, identIDs l ≠ none) ∧ identIDs none = some [] :=
  ⟨rfl, rfl, (by intro _ h; cases h), (by intro _ h; cases h), rfl⟩

/-! ### 3. Type.Equal / Copy / Fields -/

/-- What `Equal` decides (unique keys): same name, same nil-ness of each map, same
lookups in each map. -/
theorem CM_equal_iff (t u : TypeV) (ht : t.WF) (hu : u.WF) :
    t.equal u = true ↔
      t.name = u.name ∧ t.attrsNil = u.attrsNil ∧ t.relsNil = u.relsNil ∧
      (∀ k, get? t.attrs k = get? u.attrs k) ∧ (∀ k, get? t.rels k = get? u.rels k) :=
  equal_iff t u ht hu

theorem CM_equal_refl (t : TypeV) (ht : t.WF) : t.equal t = true :=
  (equal_iff t t ht ht).2 ⟨rfl, rfl, rfl, fun _ => rfl, fun _ => rfl⟩

theorem CM_equal_symm (t u : TypeV) (ht : t.WF) (hu : u.WF) : t.equal u = u.equal t := by
  rw [Bool.eq_iff_iff, equal_iff t u ht hu, equal_iff u t hu ht]
  constructor
  · rintro ⟨a, b, c, d, e⟩; exact ⟨a.symm, b.symm, c.symm, fun k => (d k).symm, fun k => (e k).symm⟩
  · rintro ⟨a, b, c, d, e⟩; exact ⟨a.symm, b.symm, c.symm, fun k => (d k).symm, fun k => (e k).symm⟩

theorem CM_equal_trans (t u v : TypeV) (ht : t.WF) (hu : u.WF) (hv : v.WF)
    (h₁ : t.equal u = true) (h₂ : u.equal v = true) : t.equal v = true := by
  rw [equal_iff _ _ ht hu] at h₁
  rw [equal_iff _ _ hu hv] at h₂
  rw [equal_iff _ _ ht hv]
  obtain ⟨a, b, c, d, e⟩ := h₁
  obtain ⟨a', b', c', d', e'⟩ := h₂
  exact ⟨a.trans a', b.trans b', c.trans c', fun k => (d k).trans (d' k), fun k => (e k).trans (e' k)⟩

/-- `Equal` does not see the iteration order of the maps: two values with the same name
and nil-ness whose maps are permutations of each other are equal, and compare alike with
every third type, on either side. -/
theorem CM_equal_perm (t t' u : TypeV) (ht : t.WF) (hu : u.WF)
    (hn : t.name = t'.name) (hna : t.attrsNil = t'.attrsNil) (hnr : t.relsNil = t'.relsNil)
    (hpa : t.attrs.Perm t'.attrs) (hpr : t.rels.Perm t'.rels) :
    t'.WF ∧ t.equal t' = true ∧ t.equal u = t'.equal u ∧ u.equal t = u.equal t' := by
  have ht' : t'.WF :=
    ⟨(List.Perm.map (fun p : GoString × Attr => p.1) hpa).nodup_iff.1 ht.1,
     (List.Perm.map (fun p : GoString × Rel => p.1) hpr).nodup_iff.1 ht.2⟩
  have ga : ∀ k, get? t.attrs k = get? t'.attrs k := fun k => get?_perm hpa ht.1 k
  have gr : ∀ k, get? t.rels k = get? t'.rels k := fun k => get?_perm hpr ht.2 k
  refine ⟨ht', (equal_iff t t' ht ht').2 ⟨hn, hna, hnr, ga, gr⟩, ?_, ?_⟩
  · rw [Bool.eq_iff_iff, equal_iff t u ht hu, equal_iff t' u ht' hu]
    simp only [hn, hna, hnr, ga, gr]
  · rw [Bool.eq_iff_iff, equal_iff u t hu ht, equal_iff u t' hu ht']
    simp only [hn, hna, hnr, ga, gr]

/-- NewFunc is ignored. -/
theorem CM_equal_ignores_newfunc (t u : TypeV) (b : Bool) :
    ({ t with hasNew := b } : TypeV).equal u = t.equal u ∧
    u.equal ({ t with hasNew := b } : TypeV) = u.equal t :=
  ⟨rfl, rfl⟩

/-- A nil map and an empty map are different to `Equal`. -/
theorem CM_equal_nil_vs_empty (n : GoString) :
    TypeV.equal { typ := { name := n, attrs := [], rels := [] }, attrsNil := true, relsNil := true }
      { typ := { name := n, attrs := [], rels := [] }, attrsNil := false, relsNil := false } = false ∧
    TypeV.equal { typ := { name := n, attrs := [], rels := [] }, attrsNil := true }
      { typ := { name := n, attrs := [], rels := [] }, attrsNil := false } = false := by
  simp [TypeV.equal, TypeV.mapDeepEqual]

/-- `Copy` always has non-nil maps, the same entries, the same name and NewFunc. -/
theorem CM_copy_shape (t : TypeV) :
    t.copy.attrsNil = false ∧ t.copy.relsNil = false ∧ t.copy.hasNew = t.hasNew ∧
    t.copy.name = t.name ∧ t.copy.attrs = t.attrs ∧ t.copy.rels = t.rels ∧
    (t.WF → t.copy.WF) :=
  ⟨rfl, rfl, rfl, rfl, rfl, rfl, fun h => h⟩

/-- `t.Equal(t.Copy())` holds exactly when `t` has no nil map. -/
theorem CM_equal_copy (t : TypeV) (ht : t.WF) :
    t.equal t.copy = (!t.attrsNil && !t.relsNil) ∧ t.copy.equal t = (!t.attrsNil && !t.relsNil) := by
  have key : t.equal t.copy = (!t.attrsNil && !t.relsNil) := by
    rw [Bool.eq_iff_iff, equal_iff t t.copy ht ht]
    cases ha : t.attrsNil <;> cases hr : t.relsNil <;>
      simp [TypeV.copy, TypeV.name, TypeV.attrs, TypeV.rels, TypeV.eff, ha, hr]
  exact ⟨key, (CM_equal_symm t.copy t ht ht).trans key⟩

/-- In particular a type with a nil map is not equal to its own copy, while the copy
is equal to its copy. -/
theorem CM_equal_copy_nil (t : TypeV) (ht : t.WF) :
    ((t.attrsNil = true ∨ t.relsNil = true) → t.equal t.copy = false) ∧
    t.copy.equal t.copy.copy = true := by
  refine ⟨?_, ?_⟩
  · intro h
    rw [(CM_equal_copy t ht).1]
    rcases h with h | h <;> simp [h]
  · rw [(CM_equal_copy t.copy ht).1]; rfl

theorem CM_copy_idem (t : TypeV) : t.copy.copy = t.copy := by
  simp [TypeV.copy, TypeV.eff, TypeV.attrs, TypeV.rels]

theorem CM_fields_copy (t : TypeV) : t.copy.fields = t.fields := by
  simp [TypeV.fields, TypeV.copy, TypeV.eff, TypeV.attrs, TypeV.rels]

/-- `Fields` is sorted and is a permutation of the attribute names followed by the
relationship names (one entry per map entry). -/
theorem CM_fields_sorted_perm (t : TypeV) :
    t.fields.Pairwise (· ≤ ·) ∧
    t.fields.Perm (t.attrs.vals.map (·.name) ++ t.rels.vals.map (·.fromName)) ∧
    t.fields.length = t.attrs.length + t.rels.length := by
  refine ⟨DetL.sortStrings_sorted _, DetL.sortStrings_perm _, ?_⟩
  have := (DetL.sortStrings_perm (t.attrs.vals.map (·.name) ++ t.rels.vals.map (·.fromName))).length_eq
  simp only [List.length_append, List.length_map, GoMap.vals] at this
  exact this

/-- `Fields` does not depend on the iteration order of the two maps. -/
theorem CM_fields_perm (t t' : TypeV) (hpa : t.attrs.Perm t'.attrs) (hpr : t.rels.Perm t'.rels) :
    t.fields = t'.fields := by
  apply DetL.sortStrings_eq_of_perm
  exact List.Perm.append ((hpa.map (·.2)).map (·.name)) ((hpr.map (·.2)).map (·.fromName))

/-! ### 4. error.go -/

/-- The table has the 28 constructors of error.go (`NewError` aside), under distinct names;
every one writes distinct keys into Source and into Meta. -/
theorem CM_err_table :
    ErrCtor.table.length = 28 ∧ (ErrCtor.table.map (·.name)).Nodup ∧
    ∀ c ∈ ErrCtor.table, (c.source.map (·.1)).Nodup ∧ (c.emeta.map (·.1)).Nodup := by
  refine ⟨by decide, by decide, by decide⟩

/-- Every constructor's status is a 4xx/5xx code that `http.StatusText` knows; the Status
string is its three decimal digits, which `Error()`'s `Atoi` reads back. -/
theorem CM_err_status (c : ErrCtor) (hc : c ∈ ErrCtor.table) (q : GoString → GoString)
    (args : List GoString) :
    400 ≤ c.status ∧ c.status ≤ 599 ∧ httpStatusText c.status ≠ [] ∧
    (c.build q args).status = printNat c.status ∧ (c.build q args).status.length = 3 ∧
    (c.build q args).status ≠ [] ∧ goAtoi (c.build q args).status = c.status := by
  have hr : ∀ c ∈ ErrCtor.table, 400 ≤ c.status ∧ c.status ≤ 599 := by decide
  have ht : ∀ c ∈ ErrCtor.table, httpStatusText c.status ≠ [] := by decide
  obtain ⟨h1, h2⟩ := hr c hc
  have hl := printNat_length_three c.status (by omega) (by omega)
  refine ⟨h1, h2, ht c hc, rfl, hl, ?_, ?_⟩
  · show printNat c.status ≠ []
    intro h; rw [h] at hl; cases hl
  · show goAtoi (printNat c.status) = c.status
    exact goAtoi_printNat c.status (by omega)

/-- The title is never empty, except that `NewErrBadRequest` passes its caller's title on. -/
theorem CM_err_title (c : ErrCtor) (hc : c ∈ ErrCtor.table) (q : GoString → GoString)
    (args : List GoString) :
    (c.name = "NewErrBadRequest" ∧ (c.build q args).title = args.getD 0 [] ∧
      (c.build q args).detail = args.getD 1 []) ∨
    (c.name ≠ "NewErrBadRequest" ∧ (c.build q args).title ≠ []) := by
  have h : ∀ c ∈ ErrCtor.table,
      (c.name = "NewErrBadRequest" ∧ c.title = [.arg 0] ∧ c.detail = [.arg 1]) ∨
      (c.name ≠ "NewErrBadRequest" ∧ headLit c.title = true) := by decide
  rcases h c hc with ⟨h1, h2, h3⟩ | ⟨h1, h2⟩
  · left
    refine ⟨h1, ?_, ?_⟩
    · show ErrCtor.inst q args c.title = _
      rw [h2]; simp [ErrCtor.inst]
    · show ErrCtor.inst q args c.detail = _
      rw [h3]; simp [ErrCtor.inst]
  · right
    refine ⟨h1, ?_⟩
    show ErrCtor.inst q args c.title ≠ []
    cases hti : c.title with
    | nil => rw [hti] at h2; cases h2
    | cons p ps =>
      rw [hti] at h2
      cases p with
      | lit s =>
        cases s with
        | nil => cases h2
        | cons b s => simp [ErrCtor.inst]
      | arg i => cases h2
      | quoted i => cases h2

/-- `Error.MarshalJSON`: the object has exactly the members whose fields are non-empty. -/
theorem CM_error_json_members (e : ErrorObj) (k : GoString) :
    e.toJson.has k = true ↔
      (k = K.id ∧ e.id ≠ []) ∨ (k = K.code ∧ e.code ≠ []) ∨ (k = K.status ∧ e.status ≠ []) ∨
      (k = K.title ∧ e.title ≠ []) ∨ (k = K.detail ∧ e.detail ≠ []) ∨
      (k = K.links ∧ e.links ≠ []) ∨ (k = K.source ∧ e.source ≠ []) ∨
      (k = K.kmeta ∧ e.emeta ≠ []) := by
  unfold ErrorObj.toJson Json.has Json.get? sortMembers
  simp only [Option.isSome_map, List.find?_isSome, (List.mergeSort_perm _ _).mem_iff,
    List.mem_append, mem_ite_singleton, mem_ite_nil_singleton, decide_eq_true_eq,
    List.isEmpty_iff]
  constructor
  · rintro ⟨x, h, rfl⟩
    rcases h with ((((((⟨h, rfl⟩ | ⟨h, rfl⟩) | ⟨h, rfl⟩) | ⟨h, rfl⟩) | ⟨h, rfl⟩) | ⟨h, rfl⟩) | ⟨h, rfl⟩) | ⟨h, rfl⟩
    · exact Or.inl ⟨rfl, h⟩
    · exact Or.inr (Or.inl ⟨rfl, h⟩)
    · exact Or.inr (Or.inr (Or.inl ⟨rfl, h⟩))
    · exact Or.inr (Or.inr (Or.inr (Or.inl ⟨rfl, h⟩)))
    · exact Or.inr (Or.inr (Or.inr (Or.inr (Or.inl ⟨rfl, h⟩))))
    · exact Or.inr (Or.inr (Or.inr (Or.inr (Or.inr (Or.inl ⟨rfl, h⟩)))))
    · exact Or.inr (Or.inr (Or.inr (Or.inr (Or.inr (Or.inr (Or.inl ⟨rfl, h⟩))))))
    · exact Or.inr (Or.inr (Or.inr (Or.inr (Or.inr (Or.inr (Or.inr ⟨rfl, h⟩))))))
  · rintro (⟨rfl, h⟩ | ⟨rfl, h⟩ | ⟨rfl, h⟩ | ⟨rfl, h⟩ | ⟨rfl, h⟩ | ⟨rfl, h⟩ | ⟨rfl, h⟩ | ⟨rfl, h⟩)
    · exact ⟨_, Or.inl (Or.inl (Or.inl (Or.inl (Or.inl (Or.inl (Or.inl ⟨h, rfl⟩)))))), rfl⟩
    · exact ⟨_, Or.inl (Or.inl (Or.inl (Or.inl (Or.inl (Or.inl (Or.inr ⟨h, rfl⟩)))))), rfl⟩
    · exact ⟨_, Or.inl (Or.inl (Or.inl (Or.inl (Or.inl (Or.inr ⟨h, rfl⟩))))), rfl⟩
    · exact ⟨_, Or.inl (Or.inl (Or.inl (Or.inl (Or.inr ⟨h, rfl⟩)))), rfl⟩
    · exact ⟨_, Or.inl (Or.inl (Or.inl (Or.inr ⟨h, rfl⟩))), rfl⟩
    · exact ⟨_, Or.inl (Or.inl (Or.inr ⟨h, rfl⟩)), rfl⟩
    · exact ⟨_, Or.inl (Or.inr ⟨h, rfl⟩), rfl⟩
    · exact ⟨_, Or.inr ⟨h, rfl⟩, rfl⟩

/-- The JSON of a constructor's result: `status` always, `title` whenever the title is
non-empty (always, but for `NewErrBadRequest("", …)`), `detail` / `source` / `meta` exactly
when non-empty, never `id`, `code` or `links`. -/
theorem CM_err_json (c : ErrCtor) (hc : c ∈ ErrCtor.table) (q : GoString → GoString)
    (args : List GoString) :
    let e := c.build q args
    e.toJson.has K.status = true ∧
    (e.toJson.has K.title = true ↔ e.title ≠ []) ∧
    (e.toJson.has K.detail = true ↔ e.detail ≠ []) ∧
    (e.toJson.has K.source = true ↔ e.source ≠ []) ∧
    (e.toJson.has K.kmeta = true ↔ e.emeta ≠ []) ∧
    e.toJson.has K.id = false ∧ e.toJson.has K.code = false ∧ e.toJson.has K.links = false ∧
    (∀ k, e.toJson.has k = true →
      k = K.status ∨ k = K.title ∨ k = K.detail ∨ k = K.source ∨ k = K.kmeta) := by
  intro e
  have hs : e.status ≠ [] := (CM_err_status c hc q args).2.2.2.2.2.1
  have hid : e.id = [] := rfl
  have hcode : e.code = [] := rfl
  have hlinks : e.links = [] := rfl
  have hk : K.status ≠ K.id ∧ K.status ≠ K.code ∧ K.status ≠ K.title ∧ K.status ≠ K.detail ∧
      K.status ≠ K.links ∧ K.status ≠ K.source ∧ K.status ≠ K.kmeta ∧
      K.title ≠ K.id ∧ K.title ≠ K.code ∧ K.title ≠ K.detail ∧ K.title ≠ K.links ∧
      K.title ≠ K.source ∧ K.title ≠ K.kmeta ∧ K.detail ≠ K.id ∧ K.detail ≠ K.code ∧
      K.detail ≠ K.links ∧ K.detail ≠ K.source ∧ K.detail ≠ K.kmeta ∧
      K.source ≠ K.id ∧ K.source ≠ K.code ∧ K.source ≠ K.links ∧ K.source ≠ K.kmeta ∧
      K.kmeta ≠ K.id ∧ K.kmeta ≠ K.code ∧ K.kmeta ≠ K.links ∧
      K.id ≠ K.code ∧ K.id ≠ K.links ∧ K.code ≠ K.links := by decide
  obtain ⟨k1, k2, k3, k4, k5, k6, k7, k8, k9, k10, k11, k12, k13, k14, k15, k16, k17, k18, k19,
    k20, k21, k22, k23, k24, k25, k26, k27, k28⟩ := hk
  refine ⟨?_, ?_, ?_, ?_, ?_, ?_, ?_, ?_, ?_⟩
  · rw [CM_error_json_members]; exact Or.inr (Or.inr (Or.inl ⟨rfl, hs⟩))
  · rw [CM_error_json_members]
    simp [k8, k9, k3.symm, k10, k11, k12, k13]
  · rw [CM_error_json_members]
    simp [k14, k15, k4.symm, k10.symm, k16, k17, k18]
  · rw [CM_error_json_members]
    simp [k19, k20, k6.symm, k12.symm, k17.symm, k21, k22]
  · rw [CM_error_json_members]
    simp [k23, k24, k7.symm, k13.symm, k18.symm, k25, k22.symm]
  · rw [Bool.eq_false_iff]; intro h
    rw [CM_error_json_members] at h
    simp [hid, k26, k1.symm, k8.symm, k14.symm, k27, k19.symm, k23.symm] at h
  · rw [Bool.eq_false_iff]; intro h
    rw [CM_error_json_members] at h
    simp [hcode, k26.symm, k2.symm, k9.symm, k15.symm, k28, k20.symm, k24.symm] at h
  · rw [Bool.eq_false_iff]; intro h
    rw [CM_error_json_members] at h
    simp [hlinks, k27.symm, k28.symm, k5.symm, k11.symm, k16.symm, k21.symm, k25.symm] at h
  · intro k h
    rw [CM_error_json_members] at h
    rcases h with ⟨_, h⟩ | ⟨_, h⟩ | ⟨h, _⟩ | ⟨h, _⟩ | ⟨h, _⟩ | ⟨_, h⟩ | ⟨h, _⟩ | ⟨h, _⟩
    · exact absurd hid h
    · exact absurd hcode h
    · exact Or.inl h
    · exact Or.inr (Or.inl h)
    · exact Or.inr (Or.inr (Or.inl h))
    · exact absurd hlinks h
    · exact Or.inr (Or.inr (Or.inr (Or.inl h)))
    · exact Or.inr (Or.inr (Or.inr (Or.inr h)))

/-- Source and Meta are non-empty (and so are members of the JSON, `CM_err_json`) exactly
for the constructors that write into them. -/
theorem CM_err_source_meta (c : ErrCtor) (q : GoString → GoString) (args : List GoString) :
    ((c.build q args).source = [] ↔ c.source = []) ∧
    ((c.build q args).emeta = [] ↔ c.emeta = []) := by
  have hs : ∀ l : List (GoString × Json), sortMembers l = [] ↔ l = [] := by
    intro l
    have hp := (List.mergeSort_perm l (fun a b => !(decide (b.1 < a.1)))).length_eq
    unfold sortMembers
    constructor
    · intro h; rw [h] at hp; exact List.eq_nil_of_length_eq_zero hp.symm
    · intro h; rw [h] at hp ⊢; exact List.eq_nil_of_length_eq_zero hp
  exact ⟨(hs _).trans (instMap_eq_nil q args c.source), (hs _).trans (instMap_eq_nil q args c.emeta)⟩

/-- `Error()`: the switch, for every status-text function. -/
theorem CM_error_string (st : Int → GoString) (e : ErrorObj) :
    (st (goAtoi e.status) ≠ [] → e.status ≠ [] → e.detail ≠ [] →
      e.errorString st = e.status ++ K.sp ++ st (goAtoi e.status) ++ K.colonSp ++ e.detail) ∧
    (st (goAtoi e.status) ≠ [] → e.status ≠ [] → e.detail = [] → e.title ≠ [] →
      e.errorString st = e.status ++ K.sp ++ st (goAtoi e.status) ++ K.colonSp ++ e.title) ∧
    (st (goAtoi e.status) ≠ [] → e.status ≠ [] → e.detail = [] → e.title = [] →
      e.errorString st = e.status ++ K.sp ++ st (goAtoi e.status)) ∧
    ((st (goAtoi e.status) = [] ∨ e.status = []) → e.detail ≠ [] → e.errorString st = e.detail) ∧
    ((st (goAtoi e.status) = [] ∨ e.status = []) → e.detail = [] → e.errorString st = e.title) := by
  unfold ErrorObj.errorString
  refine ⟨?_, ?_, ?_, ?_, ?_⟩
  · intro h1 h2 h3; rw [if_pos (And.intro h1 h2), if_pos h3]
  · intro h1 h2 h3 h4; rw [if_pos (And.intro h1 h2), if_neg (by simp [h3]), if_pos h4]
  · intro h1 h2 h3 h4; rw [if_pos (And.intro h1 h2), if_neg (by simp [h3]), if_neg (by simp [h4])]
  · intro h h3
    have : ¬ (st (goAtoi e.status) ≠ [] ∧ e.status ≠ []) := by
      rcases h with h | h <;> simp [h]
    rw [if_neg this, if_pos h3]
  · intro h h3
    have : ¬ (st (goAtoi e.status) ≠ [] ∧ e.status ≠ []) := by
      rcases h with h | h <;> simp [h]
    rw [if_neg this, if_neg (by simp [h3])]

/-- `Error()` of a constructor's result, for every status-text function that knows the
code (the real one does, `CM_err_status`): `"<status> <text>: <detail>"`, the title
standing in for an empty detail, and `"<status> <text>"` when both are empty. -/
theorem CM_err_error_string (c : ErrCtor) (hc : c ∈ ErrCtor.table) (st : Int → GoString)
    (hst : st c.status ≠ []) (q : GoString → GoString) (args : List GoString) :
    let e := c.build q args
    (e.detail ≠ [] → e.errorString st =
      printNat c.status ++ K.sp ++ st c.status ++ K.colonSp ++ e.detail) ∧
    (e.detail = [] → e.title ≠ [] → e.errorString st =
      printNat c.status ++ K.sp ++ st c.status ++ K.colonSp ++ e.title) ∧
    (e.detail = [] → e.title = [] → e.errorString st = printNat c.status ++ K.sp ++ st c.status) := by
  intro e
  obtain ⟨_, _, _, h4, _, h6, h7⟩ := CM_err_status c hc q args
  have hst' : st (goAtoi e.status) ≠ [] := by rw [h7]; exact hst
  obtain ⟨a, b, d, _, _⟩ := CM_error_string st e
  rw [h7] at a b d
  exact ⟨fun h => a hst h6 h, fun h h' => b hst h6 h h', fun h h' => d hst h6 h h'⟩

/-! ### 5. meta.go getters -/

/-- `Has` is true exactly when the key is in the map. -/
theorem CM_meta_has (m : MetaMap) (k : GoString) : m.has k = true ↔ k ∈ GoMap.keys m := by
  unfold MetaMap.has GoMap.has
  cases h : GoMap.get? m k with
  | none => simp [(get?_eq_none_iff m k).1 h]
  | some v => simp [mem_keys_of_get? m k v h]

/-- `GetInt` is 0 unless the value is an `int`, and then it is that int. -/
theorem CM_meta_getInt (m : MetaMap) (k : GoString) :
    (∀ i, m.index k = .int i → m.getInt k = i) ∧
    ((∀ i, m.index k ≠ .int i) → m.getInt k = 0) ∧
    (m.getInt k ≠ 0 → m.index k = .int (m.getInt k)) := by
  unfold MetaMap.getInt
  cases h : m.index k <;> simp

/-- `GetBool` is true only for the bool `true`. -/
theorem CM_meta_getBool (m : MetaMap) (k : GoString) :
    m.getBool k = true ↔ m.index k = .bool true := by
  unfold MetaMap.getBool
  cases h : m.index k <;> simp

/-- A missing key reads as the nil interface: `"<nil>"`, 0, false, the zero time. -/
theorem CM_meta_absent (m : MetaMap) (k : GoString) (h : m.has k = false)
    (parse : GoString → Option Time) :
    m.index k = .nil ∧ m.getString k = some MetaMap.sNil ∧ m.getInt k = 0 ∧
    m.getBool k = false ∧ m.getTime parse k = MetaMap.zeroTime := by
  have hi : m.index k = .nil := by
    unfold MetaMap.has GoMap.has at h
    unfold MetaMap.index
    cases hg : GoMap.get? m k with
    | none => rfl
    | some v => rw [hg] at h; cases h
  simp [MetaMap.getString, MetaMap.getInt, MetaMap.getBool, MetaMap.getTime, hi]

/-- `GetTime` is the zero time unless the value is a string that parses, and then it is
what `time.Parse` returned. -/
theorem CM_meta_getTime (m : MetaMap) (k : GoString) (parse : GoString → Option Time) :
    (∀ s t, m.index k = .str s → parse s = some t → m.getTime parse k = t) ∧
    (∀ s, m.index k = .str s → parse s = none → m.getTime parse k = MetaMap.zeroTime) ∧
    ((∀ s, m.index k ≠ .str s) → m.getTime parse k = MetaMap.zeroTime) := by
  unfold MetaMap.getTime
  cases h : m.index k <;> simp
  exact ⟨fun s t hs hp => by rw [hs, hp]; rfl, fun hp => by rw [hp]; rfl⟩

/-- `GetString` on the modelled kinds. -/
theorem CM_meta_getString (m : MetaMap) (k : GoString) :
    (∀ s, m.index k = .str s → m.getString k = some s) ∧
    (m.index k = .bool true → m.getString k = some sTrue) ∧
    (m.index k = .bool false → m.getString k = some sFalse) ∧
    (∀ i, m.index k = .int i → m.getString k = some (printInt i)) ∧
    (m.index k = .nil → m.getString k = some MetaMap.sNil) := by
  unfold MetaMap.getString
  cases h : m.index k <;> simp
  rename_i b; cases b <;> simp

section Axioms
#print axioms CM_resources_run
#print axioms CM_resources_refines
#print axioms CM_wrapCollection
#print axioms CM_wrapper_add_other_noop
#print axioms CM_wrapper_run
#print axioms CM_wrapper_at_no_panic
#print axioms CM_wrapper_at_negative_panics
#print axioms CM_wrapper_refines
#print axioms CM_identifiers_ids
#print axioms CM_identifiers_types
#print axioms CM_identifiers_nonnil
#print axioms CM_equal_iff
#print axioms CM_equal_refl
#print axioms CM_equal_symm
#print axioms CM_equal_trans
#print axioms CM_equal_perm
#print axioms CM_equal_ignores_newfunc
#print axioms CM_equal_nil_vs_empty
#print axioms CM_copy_shape
#print axioms CM_equal_copy
#print axioms CM_equal_copy_nil
#print axioms CM_copy_idem
#print axioms CM_fields_copy
#print axioms CM_fields_sorted_perm
#print axioms CM_fields_perm
#print axioms CM_err_table
#print axioms CM_err_status
#print axioms CM_err_title
#print axioms CM_error_json_members
#print axioms CM_err_json
#print axioms CM_err_source_meta
#print axioms CM_error_string
#print axioms CM_err_error_string
#print axioms CM_meta_has
#print axioms CM_meta_getInt
#print axioms CM_meta_getBool
#print axioms CM_meta_absent
#print axioms CM_meta_getTime
#print axioms CM_meta_getString
end Axioms

end Jsonapi
