/-
C11 at the level of the model: the spec-side invariance theorems of Props/C11.lean
composed with C04_resource / C04_document (the model's marshal returns the spec tree).
-/
import Jsonapi.Props.C04
import Jsonapi.Props.C11
namespace Jsonapi
open DetL

theorem keyedWf_keyed {r : ResView} (h : r.keyedWf) : keyed r := ⟨h.2.1, h.2.2.1, h.2.2.2⟩

/-- The tree `marshalResource` returns (`none` on error/panic). -/
def marshalTree (r : ResView) (p : GoString) (f : List GoString) (rd : GoMap (List GoString)) (m : Meta) : Option Json :=
  match marshalResource r p f rd m with
  | .ok (j, _) => some j
  | _ => none

theorem C11_model_tree (r : ResView) (hr : r.keyedWf) (p : GoString) (f : List GoString)
    (rd : GoMap (List GoString)) (m : Meta) :
    marshalTree r p f rd m = some (Spec.resourceObject r p f rd m) := by
  obtain ⟨r', h, _⟩ := C04_resource r hr p f rd m
  simp [marshalTree, h]

/-- Reordering (or repeating) the names of the field selection and of the
relationship-data list does not change the marshaled resource. -/
theorem C11_model_perm_fields (r : ResView) (hr : r.keyedWf) (p : GoString) (f₁ f₂ : List GoString)
    (rd₁ rd₂ : GoMap (List GoString)) (m : Meta)
    (hf : ∀ x, x ∈ f₁ ↔ x ∈ f₂)
    (hw : ∀ x, x ∈ (rd₁.get? r.typeName).getD [] ↔ x ∈ (rd₂.get? r.typeName).getD []) :
    marshalTree r p f₁ rd₁ m = marshalTree r p f₂ rd₂ m := by
  rw [C11_model_tree r hr, C11_model_tree r hr, C11_perm_fields r p f₁ f₂ rd₁ rd₂ m hf hw]

/-- Every iteration order of the attribute and relationship maps gives the same tree. -/
theorem C11_model_perm_maps (r₁ r₂ : ResView) (h₁ : r₁.keyedWf) (h₂ : r₂.keyedWf) (p : GoString)
    (f : List GoString) (rd : GoMap (List GoString)) (m : Meta)
    (ht : r₁.typeName = r₂.typeName) (hi : r₁.id = r₂.id)
    (hpa : r₁.attrs.Perm r₂.attrs) (hpr : r₁.rels.Perm r₂.rels) (hg : ∀ k, r₁.get k = r₂.get k) :
    marshalTree r₁ p f rd m = marshalTree r₂ p f rd m := by
  rw [C11_model_tree r₁ h₁, C11_model_tree r₂ h₂,
      C11_perm_maps r₁ r₂ p f rd m ht hi hpa hpr hg (keyedWf_keyed h₁)]

/-- Reordering the IDs of to-many relationships does not change the tree. -/
theorem C11_model_perm_tomany (r₁ r₂ : ResView) (h₁ : r₁.keyedWf) (h₂ : r₂.keyedWf)
    (h : sameUpToToMany r₁ r₂) (p : GoString) (f : List GoString) (rd : GoMap (List GoString)) (m : Meta) :
    marshalTree r₁ p f rd m = marshalTree r₂ p f rd m := by
  rw [C11_model_tree r₁ h₁, C11_model_tree r₂ h₂, C11_perm_tomany_general r₁ r₂ h p f rd m]

/-- Marshaling is a function of its arguments and, on a well-formed resource, leaves it
readable exactly as before except for the order of to-many IDs (C04_resource's frame). -/
theorem C11_model_frame (r : ResView) (hr : r.keyedWf) (p : GoString) (f : List GoString)
    (rd : GoMap (List GoString)) (m : Meta) :
    ∃ t r', marshalResource r p f rd m = .ok (t, r') ∧ r'.typeName = r.typeName ∧ r'.id = r.id ∧
      r'.attrs = r.attrs ∧ r'.rels = r.rels ∧
      (∀ k, r'.get k = r.get k ∨ ∃ l, r.get k = .strs l ∧ r'.get k = .strs (Typ.sortStrings l) ∧
        (Typ.sortStrings l).Perm l) := by
  obtain ⟨r', h, a, b, c, d, e⟩ := C04_resource r hr p f rd m
  refine ⟨_, r', h, a, b, c, d, fun k => ?_⟩
  rcases e k with e' | ⟨l, e1, e2⟩
  · exact .inl e'
  · exact .inr ⟨l, e1, e2, (C11_frame r).2.2.2.2.2 l⟩

/-- Marshaling the document: the model returns the spec tree (C04_document), which is
invariant under permuting included resources with distinct IDs (C11_perm_included) and
the document-level maps (C11_perm_document_maps). -/
theorem C11_model_document_included (d : Document) (inc₂ : List ResView)
    (hdom : ∀ r ∈ MarshalL.docResources d, r.keyedWf)
    (hdom₂ : ∀ r ∈ MarshalL.docResources { d with included := inc₂ }, r.keyedWf)
    (hp : d.included.Perm inc₂) (hn : (d.included.map (·.id)).Nodup)
    (f : GoMap (List GoString)) (s : GoString) (t : Json)
    (ht : Spec.documentTree d f s = some t) :
    (∃ d', marshalDocument d f s = .ok (t, d')) ∧
    (∃ d', marshalDocument { d with included := inc₂ } f s = .ok (t, d')) := by
  refine ⟨(C04_document d hdom f s).2 t ht, ?_⟩
  have := C11_perm_included d inc₂ f s hp hn
  rw [this] at ht
  exact (C04_document _ hdom₂ f s).2 t ht

#print axioms C11_model_tree
#print axioms C11_model_perm_fields
#print axioms C11_model_perm_maps
#print axioms C11_model_perm_tomany
#print axioms C11_model_frame
#print axioms C11_model_document_included
end Jsonapi
