/-
C09P (work package W2) — "consecutive pages therefore partition the matching resources",
stated for the model's `range` itself.

`C09_partition` / `C09_partition_all` (Props/C09.lean) are facts about the page function on an
arbitrary list. Here they are composed with `C09_range`: for a fixed collection, ID list,
filter, rules and page size there is ONE ordering `π` of the matching resources that respects
the rules such that

* page `n` returned by `Range` is the slice `[n*size, (n+1)*size)` of `π` (every `n` with
  `n*size < 2^63`),
* pages `0 … k-1` laid end to end are the first `k*size` elements of `π` - all of `π` as soon
  as `k*size` reaches its length,
* every page is a contiguous piece of `π` (`π = before ++ page ++ after`), two different pages
  have no resource (no ID) in common, and a page that starts at or beyond the end is empty.

Hypotheses: those of `C09_range` (well-formed resources, unique IDs, no ID listed twice, rules
over the collection's attributes, the known-finding exclusion `RulesHaveCases`, a filter on
which `IsAllowed` is the specification's `eval` - discharged by C10 for well-typed filters in
`C09_pages_partition_filtered`), `size < 2^64` and `k*size < 2^63` (Go's `uint`/`int`).
`size > 0` is NOT needed for these clauses (with `size = 0` every page is empty and the prefix
has length 0); it is what makes the pages cover `π` (`k = π.length` pages then suffice).

`C09_input_unchanged` ("the input collection keeps its members and order") is NOT expressible
on this model and is therefore not stated: `range` is a pure function from the list of views of
the input collection to the page; it has no output component standing for the input collection
(the Go code only calls `Len`/`At` on it and builds a private slice), so a theorem
"`c` is unchanged" would be `c = c`. The clause is checked on the real code by the harness
(suite `range`: members and order of the input collection before and after every call).
-/
import Jsonapi.Props.C09
import Jsonapi.Props.Bridge
namespace Jsonapi
open Spec

/-! ### pages of a list -/

/-- A page is a contiguous piece of the list. -/
theorem page_split (π : List ResView) (size n : Nat) :
    π = π.take (n * size) ++ Spec.page π size n ++ π.drop ((n + 1) * size) := by
  unfold Spec.page
  have h2 : (n + 1) * size = n * size + size := by rw [Nat.add_mul, Nat.one_mul]
  rw [h2, ← List.drop_drop, List.append_assoc, List.take_append_drop,
    List.take_append_drop]

/-- A page starting at or beyond the end is empty. -/
theorem page_beyond (π : List ResView) (size n : Nat) (h : π.length ≤ n * size) :
    Spec.page π size n = [] := by
  unfold Spec.page
  rw [List.drop_eq_nil_of_le h, List.take_nil]

theorem page_length (π : List ResView) (size n : Nat) :
    (Spec.page π size n).length = min size (π.length - n * size) := by
  unfold Spec.page
  rw [List.length_take, List.length_drop]

/-- Two different pages of a list without repeated IDs share no ID. -/
theorem page_disjoint (π : List ResView) (hnd : (π.map (·.id)).Nodup) (size m n : Nat) (hmn : m < n) :
    ∀ a ∈ Spec.page π size m, ∀ b ∈ Spec.page π size n, a.id ≠ b.id := by
  intro a ha b hb e
  -- a is in the first (m+1)*size elements, b after the first n*size ≥ (m+1)*size
  have hle : (m + 1) * size ≤ n * size := Nat.mul_le_mul_right size hmn
  have ha' : a ∈ π.take ((m + 1) * size) := by
    have h2 : (m + 1) * size = m * size + size := by rw [Nat.add_mul, Nat.one_mul]
    rw [h2, List.take_add]
    exact List.mem_append_right _ ha
  have hb' : b ∈ π.drop ((m + 1) * size) := by
    have : π.drop (n * size) = (π.drop ((m + 1) * size)).drop (n * size - (m + 1) * size) := by
      rw [List.drop_drop]; congr 1; omega
    unfold Spec.page at hb
    rw [this] at hb
    exact List.mem_of_mem_drop (List.mem_of_mem_take hb)
  have hsplit : π = π.take ((m + 1) * size) ++ π.drop ((m + 1) * size) := (List.take_append_drop _ _).symm
  rw [hsplit, List.map_append, List.nodup_append] at hnd
  exact hnd.2.2 _ (List.mem_map.2 ⟨a, ha', rfl⟩) _ (List.mem_map.2 ⟨b, hb', rfl⟩) e

/-! ### the pages `Range` returns -/

/-- **C09_pages_partition.** -/
theorem C09_pages_partition (S : Sorter) (hS : S.Local) (c : List ResView) (ids : List GoString)
    (f : Option Filter) (rules : List GoString) (size : Nat) (hsize : size < 2 ^ 64)
    (hwf : AllWf c) (hu : UniqueIds c) (hids : ids.Nodup)
    (hover : RulesOver c (effRules rules)) (hcases : RulesHaveCases c (effRules rules))
    (hf : ∀ flt, f = some flt → ∀ r ∈ c, isAllowed r flt = .ok (Spec.eval r flt)) :
    ∃ (π : List ResView) (pages : Nat → List ResView),
      -- one ordering of the matching resources that respects the rules
      π.Perm (Spec.matching c ids f) ∧
      π.Pairwise (fun a b => Spec.le (effRules rules) a b = true) ∧
      -- `pages n` is what Range returns for page number n
      (∀ n, n * size < 2 ^ 63 → range S c ids f rules size n = .ok (pages n)) ∧
      -- pages 0..k-1 end to end are the first k*size elements of the ordering …
      (∀ k, (List.range k).flatMap pages = π.take (k * size)) ∧
      -- … all of it once k*size reaches its length
      (∀ k, π.length ≤ k * size → (List.range k).flatMap pages = π) ∧
      -- every page is a contiguous piece of the ordering (a sublist), of at most `size` elements
      (∀ n, π = π.take (n * size) ++ pages n ++ π.drop ((n + 1) * size)) ∧
      (∀ n, (pages n).Sublist π ∧ (pages n).length = min size (π.length - n * size)) ∧
      -- no overlap: different pages share no resource ID
      (∀ m n, m ≠ n → ∀ a ∈ pages m, ∀ b ∈ pages n, a.id ≠ b.id) ∧
      -- pages beyond the end are empty
      (∀ n, (Spec.matching c ids f).length ≤ n * size → pages n = []) := by
  obtain ⟨π, hp, hs, hr⟩ := C09_range S hS c ids f rules hwf hu hids hover hcases hf
  have hndm : ((Spec.matching c ids f).map (·.id)).Nodup :=
    List.Nodup.sublist (List.Sublist.map _ List.filter_sublist) hu
  have hnd : (π.map (·.id)).Nodup := (hp.map _).nodup_iff.2 hndm
  refine ⟨π, fun n => Spec.page π size n, hp, hs, fun n hn => hr size n hsize hn,
    fun k => C09_partition π size k, fun k hk => C09_partition_all π size k hk,
    fun n => page_split π size n, ?_, ?_, ?_⟩
  · intro n
    refine ⟨?_, page_length π size n⟩
    unfold Spec.page
    exact (List.take_sublist _ _).trans (List.drop_sublist _ _)
  · intro m n hmn a ha b hb
    rcases Nat.lt_or_gt_of_ne hmn with h | h
    · exact page_disjoint π hnd size m n h a ha b hb
    · exact fun e => page_disjoint π hnd size n m h b hb a ha e.symm
  · intro n hn
    exact page_beyond π size n (by rw [hp.length_eq]; exact hn)

/-- With `size > 0` the pages cover the ordering: every matching resource is on exactly one
page (exactly one: by the no-overlap clause above). -/
theorem C09_pages_cover (π : List ResView) (size : Nat) (hpos : 0 < size) :
    ∀ r ∈ π, ∃ n, n * size < π.length ∧ r ∈ Spec.page π size n := by
  intro r hr
  have hall := C09_partition_all π size π.length (Nat.le_mul_of_pos_right _ hpos)
  rw [← hall] at hr
  obtain ⟨n, _, hn⟩ := List.mem_flatMap.1 hr
  refine ⟨n, ?_, hn⟩
  rcases Nat.lt_or_ge (n * size) π.length with h | h
  · exact h
  · rw [page_beyond π size n h] at hn; cases hn

/-- `C09_pages_partition` with the filter hypothesis discharged by C10 (well-typed filter
tree), the first five clauses. -/
theorem C09_pages_partition_filtered (S : Sorter) (hS : S.Local) (c : List ResView)
    (ids : List GoString) (f : Option Filter) (rules : List GoString) (size : Nat)
    (hsize : size < 2 ^ 64) (hwf : AllWf c) (hu : UniqueIds c) (hids : ids.Nodup)
    (hover : RulesOver c (effRules rules)) (hcases : RulesHaveCases c (effRules rules))
    (hft : ∀ flt, f = some flt → ∀ r ∈ c, wellTyped r flt = true) :
    ∃ (π : List ResView) (pages : Nat → List ResView),
      π.Perm (Spec.matching c ids f) ∧
      π.Pairwise (fun a b => Spec.le (effRules rules) a b = true) ∧
      (∀ n, n * size < 2 ^ 63 → range S c ids f rules size n = .ok (pages n)) ∧
      (∀ k, (List.range k).flatMap pages = π.take (k * size)) ∧
      (∀ k, π.length ≤ k * size → (List.range k).flatMap pages = π) ∧
      (∀ m n, m ≠ n → ∀ a ∈ pages m, ∀ b ∈ pages n, a.id ≠ b.id) := by
  obtain ⟨π, pages, h1, h2, h3, h4, h5, _, _, h8, _⟩ :=
    C09_pages_partition S hS c ids f rules size hsize hwf hu hids hover hcases
      (fun flt hflt r hr => C10_eval r (hwf r hr) flt (hft flt hflt r hr))
  exact ⟨π, pages, h1, h2, h3, h4, h5, h8⟩

/-- The collections `Range` is given hold soft resources or wrapped structs: the views of soft
resources in the invariant (Props/Bridge.lean) are well formed, so `AllWf` holds of them. -/
theorem C09_allWf_soft (ss : List Soft) (h : ∀ s ∈ ss, SoftGood s) : AllWf (ss.map Soft.view) := by
  intro r hr
  obtain ⟨s, hs, rfl⟩ := List.mem_map.1 hr
  exact Soft_view_wf s (h s hs)

/-! ### Non-vacuity: the collection of `C09_nonvacuous`, pages of size 2 -/

example :
    ∃ (π : List ResView) (pages : Nat → List ResView),
      π.Perm [exA, exB, exC] ∧
      range mergeSorter [exA, exB, exC] [] none exRules 2 0 = .ok (pages 0) ∧
      range mergeSorter [exA, exB, exC] [] none exRules 2 1 = .ok (pages 1) ∧
      range mergeSorter [exA, exB, exC] [] none exRules 2 2 = .ok [] ∧
      pages 0 ++ pages 1 = π ∧ (pages 0).length = 2 ∧ (pages 1).length = 1 := by
  obtain ⟨h1, h2, h3, h4, h5, _⟩ := C09_nonvacuous
  obtain ⟨π, pages, p1, _, p3, p4, p5, _, p7, _, p9⟩ :=
    C09_pages_partition mergeSorter C09_mergeSorter_local [exA, exB, exC] [] none exRules 2
      (by decide) h1 h2 h3 h4 h5 (fun flt e => by cases e)
  have hm : Spec.matching [exA, exB, exC] [] none = [exA, exB, exC] := by decide
  rw [hm] at p1 p9
  have hlen : π.length = 3 := p1.length_eq
  have e2 := p9 2 (by decide)
  refine ⟨π, pages, p1, p3 0 (by decide), p3 1 (by decide), by rw [p3 2 (by decide), e2], ?_, ?_, ?_⟩
  · have := p5 2 (by omega)
    simpa [List.range_succ] using this
  · rw [(p7 0).2, hlen]; decide
  · rw [(p7 1).2, hlen]; decide

end Jsonapi

section Axioms
open Jsonapi
#print axioms C09_pages_partition
#print axioms C09_pages_cover
#print axioms C09_pages_partition_filtered
#print axioms C09_allWf_soft
end Axioms
