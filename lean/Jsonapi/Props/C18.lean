/-
C18 — Copying a resource (soft or wrapped) or a type yields an object with the same type
name, fields, ID and field values as the source, and afterwards no operation on either one
(setting fields, adding or removing fields of its type, marshaling, filtering, or modifying
a slice obtained from it) changes anything read from the other. A resource's New likewise
returns a zero-valued resource of the same type that shares no mutable state with its source.

Property theorems only; the machinery is in `Jsonapi/Proofs/HeapLemmas.lean`
(namespace `Jsonapi.HeapL`). Model: `Jsonapi/Model/Heap.lean`.

Definitions used in the statements (all in `HeapL`, repeated here for the reader):
* `ValidVal h v`: a `.bytes (some a)` / `.ptrBytes (some (some a))` value has
  `h.read a = some (.bytes _)`, a `.strs (some a)` value has `h.read a = some (.strs _)`;
  nothing is asked of scalars and nil slices / nil pointers.
* `Valid h r := (∃ t, h.read r.typ = some (.typ t)) ∧ ∀ p ∈ r.data, ValidVal h p.2`
  (a structure with fields `typ`, `data`). Every reached address is therefore allocated.
  No `r.reach.Nodup` is asked: a resource may alias itself, no theorem below needs otherwise.
* `Sep a b := ∀ x ∈ a.reach, x ∉ b.reach`.
* `FreshModes mode := mode "[]uint8" = .fresh ∧ mode "[]string" = .fresh ∧ mode "*[]uint8" = .fresh`.
* `content h v : Content`: the address-free reading of a value (`.scalar x`, `.bytes (some l)`,
  `.ptrBytes (some (some l))`, `.strs (some l)`, the nil forms, or `.dangling` when the address
  is unallocated or holds the wrong kind of cell — excluded by `Valid`).
* `contents h r := (h.read r.typ, r.id, r.data.map (fun p => (p.1, content h p.2)))`:
  type cell, ID and, per field in order, the key and the contents of its value.
-/
import Jsonapi.Proofs.HeapLemmas
namespace Jsonapi
open HeapL

/-! ### 1. The obligation on the extracted facts -/

/-- What `copyData` and `Wrapper.Copy` store for `[]byte`, `[]string`, `*[]byte` is a fresh
slice. This is the statement that breaks when the Go code stops doing so. -/
theorem C18_facts : FreshModes softStoreMode ∧ FreshModes wrappedStoreMode := by decide

/-! ### 2. The copy reads like the source -/

theorem C18_copy_same (mode : String → StoreMode) (hm : FreshModes mode) (h : Heap) (r : HRes)
    (hv : Valid h r) :
    let (h', c) := r.copy mode h
    c.id = r.id ∧
    h'.read c.typ = h.read r.typ ∧
    c.data.keys = r.data.keys ∧
    contents h' c = contents h r ∧
    r.observe h' = r.observe h ∧
    Valid h' c ∧ Valid h' r := by
  obtain ⟨e, hid, hty, hk, hc, hvc, _⟩ := copy_spec hm hv
  exact ⟨hid, hty, hk, hc, observe_ext e hv, hvc, hv.ext e⟩

/-- Under `Valid`, equal `contents` never hides a dangling address. -/
theorem C18_contents_no_dangling (h : Heap) (r : HRes) (hv : Valid h r) :
    ∀ p ∈ r.data, content h p.2 ≠ .dangling :=
  fun p hp => content_ne_dangling (hv.data p hp)

/-! ### 3. The copy reaches no cell of the source -/

theorem C18_sep (mode : String → StoreMode) (hm : FreshModes mode) (h : Heap) (r : HRes)
    (hv : Valid h r) :
    let (_, c) := r.copy mode h
    Sep c r ∧ Sep r c := by
  obtain ⟨_, _, _, _, _, _, hfresh⟩ := copy_spec hm hv
  have s := sep_of_fresh hv hfresh
  exact ⟨s, s.symm⟩

/-! ### 4. Independence under every operation history -/

theorem C18_independent (h : Heap) (a b : HRes) (ha : Valid h a) (hb : Valid h b)
    (hs : Sep a b) (ops : List HOp) :
    let (h', a') := a.applyAll h ops
    b.observe h' = b.observe h ∧ Valid h' a' ∧ Valid h' b ∧ Sep a' b ∧ Sep b a' := by
  obtain ⟨o, va, vb, s⟩ := applyAll_indep b ops h a ha hb hs
  exact ⟨o, va, vb, s, s.symm⟩

/-- After `Copy`: any history on the copy leaves the source's observation unchanged, and any
history on the source leaves the copy's observation unchanged. -/
theorem C18_copy_independent (mode : String → StoreMode) (hm : FreshModes mode) (h : Heap)
    (r : HRes) (hv : Valid h r) (ops : List HOp) :
    let (h', c) := r.copy mode h
    r.observe (c.applyAll h' ops).1 = r.observe h' ∧
    c.observe (r.applyAll h' ops).1 = c.observe h' := by
  obtain ⟨e, _, _, _, _, hvc, hfresh⟩ := copy_spec hm hv
  have s := sep_of_fresh hv hfresh
  have hvr := hv.ext e
  exact ⟨(applyAll_indep r ops _ _ hvc hvr s).1, (applyAll_indep _ ops _ _ hvr hvc s.symm).1⟩

/-- Interleaved histories: first `ops1` on the copy, then `ops2` on the source (as left by
the copy's history — unchanged), and the copy still reads what its own history made it. -/
theorem C18_copy_independent_interleaved (mode : String → StoreMode) (hm : FreshModes mode)
    (h : Heap) (r : HRes) (hv : Valid h r) (ops1 ops2 : List HOp) :
    let (h', c) := r.copy mode h
    let (h1, c1) := c.applyAll h' ops1
    let (h2, _) := r.applyAll h1 ops2
    r.observe h1 = r.observe h' ∧ c1.observe h2 = c1.observe h1 := by
  obtain ⟨e, _, _, _, _, hvc, hfresh⟩ := copy_spec hm hv
  have s := sep_of_fresh hv hfresh
  have hvr := hv.ext e
  obtain ⟨o1, vc1, vr1, s1⟩ := applyAll_indep r ops1 _ _ hvc hvr s
  exact ⟨o1, (applyAll_indep _ ops2 _ _ vr1 vc1 s1.symm).1⟩

/-! ### 5. New -/

theorem C18_new (h : Heap) (r : HRes) (hv : Valid h r) :
    let (h', n) := r.new h
    n.id = [] ∧ n.data = [] ∧ h'.read n.typ = h.read r.typ ∧
    Sep n r ∧ Sep r n ∧ Valid h' n ∧ Valid h' r ∧ r.observe h' = r.observe h := by
  obtain ⟨e, hid, hd, hty, hvn, hfresh⟩ := new_spec hv
  have s := sep_of_fresh hv hfresh
  exact ⟨hid, hd, hty, s, s.symm, hvn, hv.ext e, observe_ext e hv⟩

theorem C18_new_independent (h : Heap) (r : HRes) (hv : Valid h r) (ops : List HOp) :
    let (h', n) := r.new h
    r.observe (n.applyAll h' ops).1 = r.observe h' ∧
    n.observe (r.applyAll h' ops).1 = n.observe h' := by
  obtain ⟨e, _, _, _, hvn, hfresh⟩ := new_spec hv
  have s := sep_of_fresh hv hfresh
  have hvr := hv.ext e
  exact ⟨(applyAll_indep r ops _ _ hvn hvr s).1, (applyAll_indep _ ops _ _ hvr hvn s.symm).1⟩

/-! ### 6. The converse: a shared slice is detected -/

/-- If the copy stored the source's own `[]byte` slice, writing a byte through the copy
would change what is read from the source: the facts obligation `C18_facts` matters. -/
theorem C18_shared_is_detected (mode : String → StoreMode) (hm : mode "[]uint8" = .shared) :
    Valid exHeapShared exResShared ∧
    (let (h1, c) := exResShared.copy mode exHeapShared
     let (h2, _) := c.apply h1 (.writeBytes [98] 0 9)
     exResShared.observe h2 ≠ exResShared.observe h1) := by
  refine ⟨exResShared_valid, ?_⟩
  have hc : exResShared.copy mode exHeapShared =
      ({ cells := [.typ Typ.empty, .bytes [1, 2], .typ Typ.empty] },
       { typ := 2, id := [49], data := [([98], .bytes (some 1))] }) := by
    simp [HRes.copy, exResShared, exHeapShared, Heap.read, Heap.alloc, copyData, copyHVal, hm]
  rw [hc]
  decide

/-! ### Non-vacuity: a concrete copy, mutated, leaves the source's observation alone -/

example :
    exRes.observe exAfter.1 = exRes.observe exHeap ∧
    exAfter.2.observe exAfter.1 ≠ exCopy.2.observe exCopy.1 ∧
    exCopy.2.reach = [4, 5, 6, 7] ∧
    exAfter.1.read 5 = some (.bytes [9, 2]) ∧ exAfter.1.read 6 = some (.bytes [7]) ∧
    exAfter.1.read 7 = some (.strs [[97], [98]]) := by
  refine ⟨?_, ?_, ?_, ?_, ?_, ?_⟩ <;> decide

#print axioms C18_facts
#print axioms C18_copy_same
#print axioms C18_contents_no_dangling
#print axioms C18_sep
#print axioms C18_independent
#print axioms C18_copy_independent
#print axioms C18_copy_independent_interleaved
#print axioms C18_new
#print axioms C18_new_independent
#print axioms C18_shared_is_detected

end Jsonapi
