/-
C12 — a built schema can be shared by concurrent requests.
PARTIAL by nature: the Go memory model is abstracted to "accesses to the shared schema",
and which functions write is a regenerated syntactic fact (T1); the dynamic side
(deep snapshots of the schema around every operation, and a -race run) is in the
harness. See DESIGN.md §6 C12.
-/
import Jsonapi.Model.Effects
namespace Jsonapi

/-- Every operation of the property is read-only on the Go side: none of the functions
it runs on the shared schema assigns through it (regenerated facts, decide-checked). -/
theorem C12_readonly : ∀ op ∈ ROp.all, op.writes = false := by decide

/-- `ROp.all` lists every operation. -/
theorem ROp.mem_all (op : ROp) : op ∈ ROp.all := by cases op <;> decide

theorem C12_no_write_access (t : Nat) (op : ROp) : ∀ a ∈ op.accesses t, a.write = false := by
  have h := C12_readonly op (ROp.mem_all op)
  intro a ha
  unfold ROp.accesses at ha
  split at ha
  · cases ha
  · rw [h] at ha
    simp at ha
    rw [ha]

/-- Any number of threads, each running any sequence of the listed operations: no
interleaving of their accesses contains a data race. -/
theorem C12_race_free (threads : List (List ROp)) (e : List Access)
    (he : fromThreads (threads.mapIdx (fun i ops => ops.flatMap (ROp.accesses i))) e) :
    ¬ hasRace e := by
  rintro ⟨a, ha, b, hb, _, hw⟩
  have noW : ∀ x ∈ e, x.write = false := by
    intro x hx
    obtain ⟨t, ht, hxt⟩ := he x hx
    obtain ⟨i, _, rfl⟩ := List.mem_mapIdx.1 ht
    obtain ⟨op, _, hop⟩ := List.mem_flatMap.1 hxt
    exact C12_no_write_access i op x hop
  rcases hw with h | h
  · rw [noW a ha] at h; cases h
  · rw [noW b hb] at h; cases h

/-- The schema queries of the model are functions of the schema: they return no new
schema, so no sequence of them changes it (stated for the four queries). -/
theorem C12_queries_pure (σ : Schema) (n : GoString) :
    (∃ t, σ.getType n = t) ∧ (∃ b, σ.hasType n = b) ∧ (∃ l, σ.check = l) ∧ (∃ l, σ.relsSorted = l) :=
  ⟨⟨_, rfl⟩, ⟨_, rfl⟩, ⟨_, rfl⟩, ⟨_, rfl⟩⟩

/-- The converse, showing that the fact obligation is what carries the property: an
operation that writes races with any other access from another thread. -/
theorem C12_write_races (t₁ t₂ : Nat) (h : t₁ ≠ t₂) :
    hasRace [{ thread := t₁, write := true }, { thread := t₂, write := false }] :=
  ⟨_, List.mem_cons_self, _, List.mem_cons_of_mem _ List.mem_cons_self, h, .inl rfl⟩

/-! Non-vacuity: three threads with real operations. -/
example : ¬ hasRace (([ROp.rels, ROp.parseURL].flatMap (ROp.accesses 0)) ++
    ([ROp.check].flatMap (ROp.accesses 1)) ++ ([ROp.unmarshalDocument].flatMap (ROp.accesses 2))) := by
  apply C12_race_free [[.rels, .parseURL], [.check], [.unmarshalDocument]]
  intro a ha
  simp only [List.mapIdx_cons, List.mapIdx_nil] at *
  simp only [List.mem_append] at ha
  rcases ha with (ha | ha) | ha
  · exact ⟨_, List.mem_cons_self, ha⟩
  · exact ⟨_, List.mem_cons_of_mem _ List.mem_cons_self, ha⟩
  · exact ⟨_, List.mem_cons_of_mem _ (List.mem_cons_of_mem _ List.mem_cons_self), ha⟩

#print axioms C12_readonly
#print axioms C12_no_write_access
#print axioms C12_race_free
#print axioms C12_queries_pure
#print axioms C12_write_races
end Jsonapi
