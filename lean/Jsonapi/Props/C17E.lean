/-
C17, the equality helpers (work package W1): `EqualStrict` is reflexive and symmetric like
`Equal`, and soundness of `Equal` BY FIELD NAME.

`C17_equal_sound` pairs the attributes of the two resources by sorted POSITION only (that is what
the Go code does: attribute names are never compared - the known finding
`C17_equal_names_counterexample`). Under the one extra hypothesis that the two resources have the
same sorted list of attribute names, position and name coincide, and `Equal` holding means: the
same field names on both sides and, for EVERY field name n, agreeing values of n
(`C17_equal_sound_by_name`). The converse holds too on well-formed views
(`C17_equal_complete_by_name`), hence an exact characterisation (`C17_equal_iff_by_name`,
`C17_equalStrict_iff_by_name`). The sorted relationship-name lists need not be assumed equal for
soundness: `Equal` compares them (clause 3 of `C17_equal_sound`).

"Agreeing" is phrased as `C17_equal_sound` phrases it: for an attribute `reflect.DeepEqual`, or
both nil values, or both empty byte strings (`C17E.attrAgree`); for a relationship `=`.
-/
import Jsonapi.Props.C17
namespace Jsonapi
open GoMap

namespace C17E

/-- the sorted attribute names of a resource -/
def attrNames (r : ResView) : List GoString :=
  (sortOn (fun a : Attr => a.name) r.attrs.vals).map (·.name)

/-- the sorted relationship names of a resource -/
def relNames (r : ResView) : List GoString :=
  (sortOn (fun r : Rel => r.fromName) r.rels.vals).map (·.fromName)

/-- two attribute values `Equal` does not tell apart -/
def attrAgree (x y : GoVal) : Prop :=
  deepEqual x y = true ∨ (x.isNilValue = true ∧ y.isNilValue = true) ∨
    (x.isEmptyBytes = true ∧ y.isEmptyBytes = true)

instance (x y : GoVal) : Decidable (attrAgree x y) := by unfold attrAgree; exact inferInstance

theorem getElem?_of_map_eq {α β γ} (f : α → γ) (g : β → γ) {l1 : List α} {l2 : List β}
    (h : l1.map f = l2.map g) {i : Nat} {x : α} (hx : l1[i]? = some x) :
    ∃ y, l2[i]? = some y ∧ g y = f x := by
  have h1 : (l1.map f)[i]? = some (f x) := by rw [List.getElem?_map, hx]; rfl
  rw [h, List.getElem?_map] at h1
  cases hy : l2[i]? with
  | none => rw [hy] at h1; cases h1
  | some y => rw [hy] at h1; exact ⟨y, rfl, by simpa using h1⟩

theorem zip_of_map_eq {α β γ} (f : α → γ) (g : β → γ) :
    ∀ {l1 : List α} {l2 : List β}, l1.map f = l2.map g → ∀ p ∈ l1.zip l2, f p.1 = g p.2
  | [], _, _, p, hp => by simp at hp
  | _ :: _, [], h, _, _ => by simp at h
  | a :: l1, b :: l2, h, p, hp => by
    simp only [List.map_cons, List.cons.injEq] at h
    simp only [List.zip_cons_cons, List.mem_cons] at hp
    rcases hp with e | hp
    · subst e; exact h.1
    · exact zip_of_map_eq f g h.2 p hp

theorem keys_eq_names_attr {r : ResView} (hr : r.keyed) : r.attrs.keys = r.attrs.vals.map (·.name) := by
  unfold GoMap.keys GoMap.vals
  rw [List.map_map]
  exact List.map_congr_left (fun p hp => hr.1 p hp)

theorem keys_eq_names_rel {r : ResView} (hr : r.keyed) : r.rels.keys = r.rels.vals.map (·.fromName) := by
  unfold GoMap.keys GoMap.vals
  rw [List.map_map]
  exact List.map_congr_left (fun p hp => hr.2.1 p hp)

theorem mem_attrNames {r : ResView} (hr : r.keyed) (n : GoString) : n ∈ attrNames r ↔ n ∈ r.attrs.keys := by
  unfold attrNames
  rw [keys_eq_names_attr hr]
  exact ((sortOn_perm _ _).map _).mem_iff

theorem mem_relNames {r : ResView} (hr : r.keyed) (n : GoString) : n ∈ relNames r ↔ n ∈ r.rels.keys := by
  unfold relNames
  rw [keys_eq_names_rel hr]
  exact ((sortOn_perm _ _).map _).mem_iff

end C17E
open C17E

/-- `EqualStrict` is reflexive on well-formed views. -/
theorem C17_equalStrict_refl (a : ResView) (ha : a.ok) : equalStrict a a = .ok true := by
  unfold equalStrict
  simp only [ne_eq, not_true_eq_false, if_false]
  exact C17_equal_refl a ha

/-- `EqualStrict` is symmetric, with no hypothesis at all (also for ill-typed views and panics). -/
theorem C17_equalStrict_symm (a b : ResView) : equalStrict a b = equalStrict b a := by
  unfold equalStrict
  rw [C17_equal_symm a b]
  by_cases h : a.id = b.id
  · simp [h]
  · have h' : ¬ b.id = a.id := fun e => h e.symm
    simp [h, h']

/-- Soundness BY NAME. If `Equal` holds and the two resources have the same sorted attribute-name
list, then they have the same type name, the same attribute names, the same relationship names
and, for every field name `n`, agreeing values: for an attribute DeepEqual / both nil / both empty
bytes (`attrAgree`, as `C17_equal_sound` phrases it), for a relationship the same cardinality and
`a.get n = b.get n`. -/
theorem C17_equal_sound_by_name (a b : ResView) (ha : a.keyed) (hb : b.keyed)
    (h : equal a b = .ok true) (hnames : attrNames a = attrNames b) :
    a.typeName = b.typeName ∧
    (∀ n, n ∈ a.attrs.keys ↔ n ∈ b.attrs.keys) ∧
    relNames a = relNames b ∧ (∀ n, n ∈ a.rels.keys ↔ n ∈ b.rels.keys) ∧
    (∀ n ∈ a.attrs.keys, attrAgree (a.get n) (b.get n)) ∧
    (∀ n ∈ a.rels.keys, a.get n = b.get n) ∧
    (∀ n ra rb, a.rels.get? n = some ra → b.rels.get? n = some rb → ra.toOne = rb.toOne) := by
  obtain ⟨h1, _, h3, h4, h5⟩ := C17_equal_sound a b ha hb h
  have hrn : relNames a = relNames b := h3
  refine ⟨h1, ?_, hrn, ?_, ?_, ?_, ?_⟩
  · intro n; rw [← mem_attrNames ha, ← mem_attrNames hb, hnames]
  · intro n; rw [← mem_relNames ha, ← mem_relNames hb, hrn]
  · intro n hn
    obtain ⟨p, hp, e⟩ := List.mem_map.1 hn
    have hpn : p.2.name = n := ((ha.1 p hp).symm).trans e
    have hmem : p.2 ∈ sortOn (fun a : Attr => a.name) a.attrs.vals :=
      (mem_sortOn _ _ _).2 (List.mem_map.2 ⟨p, hp, rfl⟩)
    obtain ⟨i, hi⟩ := List.getElem?_of_mem hmem
    obtain ⟨y, hy, hyn⟩ := getElem?_of_map_eq (fun a : Attr => a.name) (fun a : Attr => a.name) hnames hi
    have := h4 i p.2 y hi hy
    rw [hyn, hpn] at this
    exact this
  · intro n hn
    obtain ⟨ra, rb, _, _, _, hv, _⟩ := h5 n hn
    exact hv
  · intro n ra rb hra hrb
    obtain ⟨ra', rb', h1', h2', h3', _⟩ := h5 n (mem_keys_of_get? hra)
    rw [hra] at h1'
    rw [hrb] at h2'
    cases h1'
    cases h2'
    exact h3'

/-- The converse, on well-formed views: same type name, same sorted attribute names, same sorted
relationship names with the same cardinalities, and agreeing values of every field name make
`Equal` hold (in particular it does not panic). -/
theorem C17_equal_complete_by_name (a b : ResView) (ha : a.ok) (hb : b.ok)
    (ht : a.typeName = b.typeName) (hnames : attrNames a = attrNames b) (hrn : relNames a = relNames b)
    (hav : ∀ n ∈ a.attrs.keys, attrAgree (a.get n) (b.get n))
    (hrv : ∀ n ∈ a.rels.keys, a.get n = b.get n)
    (hone : ∀ n ra rb, a.rels.get? n = some ra → b.rels.get? n = some rb → ra.toOne = rb.toOne) :
    equal a b = .ok true := by
  rw [equal_unfold]
  have hla : (sortOn (fun a : Attr => a.name) a.attrs.vals).length =
      (sortOn (fun a : Attr => a.name) b.attrs.vals).length := by
    have := congrArg List.length hnames
    simpa [attrNames] using this
  have hlr : (sortOn (fun r : Rel => r.fromName) a.rels.vals).length =
      (sortOn (fun r : Rel => r.fromName) b.rels.vals).length := by
    have := congrArg List.length hrn
    simpa [relNames] using this
  rw [if_neg (by simpa using ht), if_neg (by simpa using hla)]
  have hany : ((sortOn (fun a : Attr => a.name) a.attrs.vals).zip
      (sortOn (fun a : Attr => a.name) b.attrs.vals)).any (attrTest a b) = false := by
    rw [List.any_eq_false]
    intro p hp
    have hn : p.1.name = p.2.name :=
      zip_of_map_eq (fun a : Attr => a.name) (fun a : Attr => a.name) hnames p hp
    have hm : p.1 ∈ a.attrs.vals := (mem_sortOn _ _ _).1 (List.of_mem_zip hp).1
    have hk : p.1.name ∈ a.attrs.keys := by
      rw [keys_eq_names_attr ha.2]; exact List.mem_map.2 ⟨p.1, hm, rfl⟩
    have hag := hav _ hk
    unfold attrTest
    rw [← hn]
    rcases hag with hd | ⟨h1, h2⟩ | ⟨h1, h2⟩
    · simp [hd]
    · simp [h1, h2]
    · simp [h1, h2]
  rw [hany]
  simp only [Bool.false_eq_true, if_false]
  rw [if_neg (by simpa using hlr), relFold_ok_iff]
  intro p hp
  have hn : p.1.fromName = p.2.fromName :=
    zip_of_map_eq (fun r : Rel => r.fromName) (fun r : Rel => r.fromName) hrn p hp
  have hm1 : p.1 ∈ a.rels.vals := (mem_sortOn _ _ _).1 (List.of_mem_zip hp).1
  have hm2 : p.2 ∈ b.rels.vals := (mem_sortOn _ _ _).1 (List.of_mem_zip hp).2
  have hg1 : a.rels.get? p.1.fromName = some p.1 := by
    obtain ⟨q, hq, e⟩ := List.mem_map.1 hm1
    have := get?_of_mem_nodup ha.2.2.2.2 hq
    rw [ha.2.2.1 q hq, e] at this
    exact this
  have hg2 : b.rels.get? p.1.fromName = some p.2 := by
    obtain ⟨q, hq, e⟩ := List.mem_map.1 hm2
    have := get?_of_mem_nodup hb.2.2.2.2 hq
    rw [hb.2.2.1 q hq, e, ← hn] at this
    exact this
  have ho : p.1.toOne = p.2.toOne := hone _ _ _ hg1 hg2
  have hv : a.get p.1.fromName = b.get p.2.fromName := by
    rw [← hn]; exact hrv _ (mem_keys_of_get? hg1)
  have hs1 := ResView.rel_shape ha hm1
  unfold relStep
  rw [if_neg (by simp [hn, ho])]
  by_cases hto : p.1.toOne = true
  · rw [if_pos hto] at hs1 ⊢
    obtain ⟨id, e⟩ := hs1
    rw [← hv, e]
    simp
  · rw [if_neg hto] at hs1 ⊢
    obtain ⟨l, e⟩ := hs1
    rw [← hv, e]
    simp

/-- `Equal` characterised by field name, for two well-formed views with the same sorted
attribute names. -/
theorem C17_equal_iff_by_name (a b : ResView) (ha : a.ok) (hb : b.ok)
    (hnames : attrNames a = attrNames b) :
    equal a b = .ok true ↔
      (a.typeName = b.typeName ∧ relNames a = relNames b ∧
       (∀ n ∈ a.attrs.keys, attrAgree (a.get n) (b.get n)) ∧
       (∀ n ∈ a.rels.keys, a.get n = b.get n) ∧
       (∀ n ra rb, a.rels.get? n = some ra → b.rels.get? n = some rb → ra.toOne = rb.toOne)) := by
  constructor
  · intro h
    obtain ⟨h1, _, h3, _, h5, h6, h7⟩ := C17_equal_sound_by_name a b ha.2 hb.2 h hnames
    exact ⟨h1, h3, h5, h6, h7⟩
  · rintro ⟨h1, h3, h5, h6, h7⟩
    exact C17_equal_complete_by_name a b ha hb h1 hnames h3 h5 h6 h7

/-- the strict form: additionally the same ID -/
theorem C17_equalStrict_iff_by_name (a b : ResView) (ha : a.ok) (hb : b.ok)
    (hnames : attrNames a = attrNames b) :
    equalStrict a b = .ok true ↔
      (a.id = b.id ∧ a.typeName = b.typeName ∧ relNames a = relNames b ∧
       (∀ n ∈ a.attrs.keys, attrAgree (a.get n) (b.get n)) ∧
       (∀ n ∈ a.rels.keys, a.get n = b.get n) ∧
       (∀ n ra rb, a.rels.get? n = some ra → b.rels.get? n = some rb → ra.toOne = rb.toOne)) := by
  constructor
  · intro h
    obtain ⟨hid, he⟩ := C17_equalStrict_id a b h
    exact ⟨hid, (C17_equal_iff_by_name a b ha hb hnames).1 he⟩
  · rintro ⟨hid, hrest⟩
    unfold equalStrict
    rw [if_neg (by simpa using hid)]
    exact (C17_equal_iff_by_name a b ha hb hnames).2 hrest

/-- Without the hypothesis on the names the by-name reading FAILS (the known finding, by name):
`Equal` holds between `C17_cexA` (attribute "x") and `C17_cexB` (attribute "xq"), and "x" is a
field of the first only. -/
theorem C17_equal_by_name_needs_names_counterexample :
    C17_cexA.ok ∧ C17_cexB.ok ∧ equal C17_cexA C17_cexB = .ok true ∧
    attrNames C17_cexA ≠ attrNames C17_cexB ∧
    ([120] ∈ C17_cexA.attrs.keys ∧ [120] ∉ C17_cexB.attrs.keys) ∧
    ¬ attrAgree (C17_cexA.get [120]) (C17_cexB.get [120]) := by decide

/-! ### non-vacuity: two distinct well-formed views with the same names, values that agree
without being identical (a nil pointer against an untyped nil), unsorted maps -/

def c17e_A : ResView :=
  { typeName := [116], id := [49],
    attrs := [([121], { name := [121], ty := 2, nullable := true }), ([120], { name := [120], ty := 2, nullable := false })],
    rels := [([109], { fromType := [116], fromName := [109], toOne := false, toType := [117], toName := [], fromOne := false }),
             ([111], { fromType := [116], fromName := [111], toOne := true, toType := [117], toName := [], fromOne := false })],
    vals := [([120], .val .int (.i 1)), ([121], .ptr .int none), ([111], .val .string (.s [50])), ([109], .strs [[51], [52]])] }

def c17e_B : ResView :=
  { typeName := [116], id := [49],
    attrs := [([120], { name := [120], ty := 2, nullable := false }), ([121], { name := [121], ty := 2, nullable := true })],
    rels := [([111], { fromType := [116], fromName := [111], toOne := true, toType := [117], toName := [], fromOne := false }),
             ([109], { fromType := [116], fromName := [109], toOne := false, toType := [117], toName := [], fromOne := false })],
    vals := [([120], .val .int (.i 1)), ([121], .nil), ([111], .val .string (.s [50])), ([109], .strs [[51], [52]])] }

example : c17e_A.ok ∧ c17e_B.ok ∧ c17e_A.attrs ≠ c17e_B.attrs ∧ c17e_A.vals ≠ c17e_B.vals ∧ attrNames c17e_A = attrNames c17e_B ∧
    relNames c17e_A = relNames c17e_B ∧ equal c17e_A c17e_B = .ok true ∧
    equalStrict c17e_A c17e_B = .ok true := by decide

example : c17e_A.typeName = c17e_B.typeName ∧
    (∀ n ∈ c17e_A.attrs.keys, attrAgree (c17e_A.get n) (c17e_B.get n)) ∧
    (∀ n ∈ c17e_A.rels.keys, c17e_A.get n = c17e_B.get n) ∧
    c17e_A.get [121] ≠ c17e_B.get [121] := by decide

end Jsonapi

section Axioms
open Jsonapi
#print axioms C17_equalStrict_refl
#print axioms C17_equalStrict_symm
#print axioms C17_equal_sound_by_name
#print axioms C17_equal_complete_by_name
#print axioms C17_equal_iff_by_name
#print axioms C17_equalStrict_iff_by_name
#print axioms C17_equal_by_name_needs_names_counterexample
end Axioms
