/-
C14 — schema editing keeps the schema well-formed and is all-or-nothing.
Histories start from the empty schema; a `Type` value passed to `AddType` is itself
well-formed (built with AddAttr/AddRel/BuildType), its name is arbitrary.
-/
import Jsonapi.Proofs.C14Lemmas
namespace Jsonapi
open Schema

inductive Op where
  | addType (t : Typ)
  | removeType (n : GoString)
  | addAttr (n : GoString) (a : Attr)
  | removeAttr (n a : GoString)
  | addRel (n : GoString) (r : Rel)
  | removeRel (n a : GoString)
  | addTwoWayRel (r : Rel)

/-- One call of the editing API on the model. -/
def step (s : Schema) : Op → Schema × Res Unit
  | .addType t => s.addType t
  | .removeType n => (s.removeType n, .ok ())
  | .addAttr n a => s.addAttr n a
  | .removeAttr n a => (s.removeAttr n a, .ok ())
  | .addRel n r => s.addRel n r
  | .removeRel n a => (s.removeRel n a, .ok ())
  | .addTwoWayRel r => s.addTwoWayRel r

/-- The domain restriction on histories: types handed to `AddType` are well-formed. -/
def Op.ok : Op → Prop
  | .addType t => TypWF t
  | _ => True

def run (ops : List Op) : Schema := ops.foldl (fun s op => (step s op).1) Schema.empty

/-! ### One step -/

theorem eraseFirst_sublist {α} (p : α → Bool) (l : List α) : (eraseFirst p l).Sublist l := by
  induction l with
  | nil => exact List.Sublist.refl _
  | cons x xs ih =>
    unfold eraseFirst; split
    · exact List.sublist_cons_self _ _
    · exact ih.cons_cons _

theorem step_inv (s : Schema) (h : Inv s) (op : Op) (hop : op.ok) : Inv (step s op).1 := by
  obtain ⟨hnd, hwf⟩ := h
  cases op with
  | addType t =>
    simp only [step, Schema.addType]
    split; exact ⟨hnd, hwf⟩
    split; exact ⟨hnd, hwf⟩
    rename_i hne hnh
    refine ⟨?_, ?_⟩
    · simp only [List.map_append, List.map_cons, List.map_nil]
      rw [List.nodup_append]
      refine ⟨hnd, by simp, ?_⟩
      intro a ha b hb; simp at hb; subst hb; intro e; subst e
      exact hnh ((hasType_iff s _).2 ha)
    · intro u hu
      rcases List.mem_append.1 hu with hu | hu
      · exact hwf u hu
      · simp at hu; subst hu; exact ⟨hne, hop⟩
  | removeType n =>
    simp only [step, Schema.removeType]
    have hs := eraseFirst_sublist (fun t : Typ => decide (t.name = n)) s.types
    exact ⟨(hs.map _).nodup hnd, fun t ht => hwf t (hs.subset ht)⟩
  | addAttr n a =>
    simp only [step, Schema.addAttr]
    split; exact ⟨hnd, hwf⟩
    rename_i ts r hu
    obtain ⟨hn, t, ht, _, _, hmem, _⟩ := updFirst_some (fun t => Typ.addAttr_name t a) hu
    refine ⟨by simpa [hn] using hnd, ?_⟩
    intro t' ht'
    rcases hmem t' ht' with e | e
    · exact hwf t' e
    · subst e; exact ⟨by rw [Typ.addAttr_name]; exact (hwf t ht).1, Typ.addAttr_wf (hwf t ht).2 a⟩
  | removeAttr n a =>
    simp only [step, Schema.removeAttr, updAll]
    refine ⟨?_, ?_⟩
    · have := mapNamed_names n (fun t => t.removeAttr a) (fun t => Typ.removeAttr_name t a) s.types
      unfold mapNamed at this; rw [this]; exact hnd
    · intro t' ht'
      obtain ⟨t, ht, e⟩ := List.mem_map.1 ht'
      split at e
      · subst e; exact ⟨by rw [Typ.removeAttr_name]; exact (hwf t ht).1, Typ.removeAttr_wf (hwf t ht).2 a⟩
      · subst e; exact hwf t ht
  | addRel n r =>
    simp only [step, Schema.addRel]
    split; exact ⟨hnd, hwf⟩
    rename_i ts r' hu
    obtain ⟨hn, t, ht, _, _, hmem, _⟩ := updFirst_some (fun t => Typ.addRel_name t r) hu
    refine ⟨by simpa [hn] using hnd, ?_⟩
    intro t' ht'
    rcases hmem t' ht' with e | e
    · exact hwf t' e
    · subst e; exact ⟨by rw [Typ.addRel_name]; exact (hwf t ht).1, Typ.addRel_wf (hwf t ht).2 r⟩
  | removeRel n a =>
    simp only [step, Schema.removeRel, updAll]
    refine ⟨?_, ?_⟩
    · have := mapNamed_names n (fun t => t.removeRel a) (fun t => Typ.removeRel_name t a) s.types
      unfold mapNamed at this; rw [this]; exact hnd
    · intro t' ht'
      obtain ⟨t, ht, e⟩ := List.mem_map.1 ht'
      split at e
      · subst e; exact ⟨by rw [Typ.removeRel_name]; exact (hwf t ht).1, Typ.removeRel_wf (hwf t ht).2 a⟩
      · subst e; exact hwf t ht
  | addTwoWayRel r =>
    have h0 : Inv s := ⟨hnd, hwf⟩
    simp only [step, Schema.addTwoWayRel]
    split
    · exact h0
    · split
      · exact inv_twUndo (inv_twAdd h0 _) _
      · split
        · exact inv_twAdd (inv_twAdd h0 _) _
        · exact inv_twUndo (inv_twUndo (inv_twAdd (inv_twAdd h0 _) _) _) _

theorem step_no_panic (s : Schema) (op : Op) : (step s op).2 ≠ .panic := by
  cases op with
  | addType t => simp only [step, Schema.addType]; (repeat' split) <;> simp
  | removeType n => simp [step]
  | addAttr n a =>
    simp only [step, Schema.addAttr]
    split; simp
    rename_i ts r hu
    obtain ⟨_, t, _, _, hr, _, _⟩ := updFirst_some (fun t => Typ.addAttr_name t a) hu
    rw [hr]; exact Typ.addAttr_no_panic t a
  | removeAttr n a => simp [step]
  | addRel n r =>
    simp only [step, Schema.addRel]
    split; simp
    rename_i ts r' hu
    obtain ⟨_, t, _, _, hr, _, _⟩ := updFirst_some (fun t => Typ.addRel_name t r) hu
    rw [hr]; exact Typ.addRel_no_panic t r
  | removeRel n a => simp [step]
  | addTwoWayRel r =>
    simp only [step, Schema.addTwoWayRel]
    split
    · exact twRes_no_panic _ _
    · split
      · exact twRes_no_panic _ _
      · split <;> simp

/-! ### Property theorems -/

theorem inv_empty : Inv Schema.empty := ⟨by simp [Schema.empty], by simp [Schema.empty]⟩

/-- After any sequence of edits no call has panicked and the schema is well-formed. -/
theorem C14_inv (ops : List Op) (hops : ∀ op ∈ ops, op.ok) :
    Inv (run ops) ∧
    ∀ (pre : List Op) (op : Op) (post : List Op), ops = pre ++ op :: post →
      (step (run pre) op).2 ≠ .panic := by
  refine ⟨?_, fun pre op _ _ => step_no_panic _ op⟩
  unfold run
  suffices h : ∀ (s : Schema), Inv s → Inv (ops.foldl (fun s op => (step s op).1) s) from h _ inv_empty
  induction ops with
  | nil => intro s hs; exact hs
  | cons op ops ih =>
    intro s hs
    exact ih (fun o ho => hops o (List.mem_cons_of_mem _ ho)) _
      (step_inv s hs op (hops op List.mem_cons_self))

/-- Lookups agree with the list of types. -/
theorem C14_lookup (s : Schema) (h : Inv s) (n : GoString) :
    (s.hasType n = true ↔ n ∈ s.types.map (·.name)) ∧
    (∀ t ∈ s.types, s.getType t.name = t) ∧
    (n ∉ s.types.map (·.name) → s.getType n = Typ.empty) :=
  ⟨hasType_iff s n, fun _ ht => eq_getType_of_mem h.1 ht,
   fun hn => getType_absent (fun hh => hn ((hasType_iff s n).1 hh))⟩

/-- An edit that returns an error leaves the schema exactly as it was. -/
theorem C14_atomic (s : Schema) (h : Inv s) (op : Op) (herr : (step s op).2 ≠ .ok ()) :
    (step s op).1 = s := by
  obtain ⟨hnd, hwf⟩ := h
  cases op with
  | addType t =>
    simp only [step, Schema.addType] at *
    (repeat' split at herr) <;> first | rfl | simp_all
  | removeType n => simp [step] at herr
  | addAttr n a =>
    simp only [step, Schema.addAttr] at *
    split at herr
    · rfl
    · rename_i ts r hu
      obtain ⟨_, t, _, _, hr, _, hsame⟩ := updFirst_some (fun t => Typ.addAttr_name t a) hu
      rw [hsame (Typ.addAttr_err t a (by rw [← hr]; exact herr))]
  | removeAttr n a => simp [step] at herr
  | addRel n r =>
    simp only [step, Schema.addRel] at *
    split at herr
    · rfl
    · rename_i ts r' hu
      obtain ⟨_, t, _, _, hr, _, hsame⟩ := updFirst_some (fun t => Typ.addRel_name t r) hu
      rw [hsame (Typ.addRel_err t r (by rw [← hr]; exact herr))]
  | removeRel n a => simp [step] at herr
  | addTwoWayRel r =>
    have h0 : Inv s := ⟨hnd, hwf⟩
    simp only [step, Schema.addTwoWayRel] at *
    by_cases h1 : twRes s r.normalize ≠ .ok ()
    · rw [if_pos h1]
    · have ok1 : twRes s r.normalize = .ok () := by simpa using h1
      rw [if_neg h1] at herr ⊢
      by_cases h2 : twRes (twAdd s r.normalize) r.normalize.invert ≠ .ok ()
      · rw [if_pos h2]
        exact twUndo_twAdd h0 _ ok1
      · have ok2 : twRes (twAdd s r.normalize) r.normalize.invert = .ok () := by simpa using h2
        rw [if_neg h2] at herr ⊢
        by_cases hh : (s.hasType r.normalize.fromType && s.hasType r.normalize.invert.fromType) = true
        · rw [if_pos hh] at herr; simp at herr
        · rw [if_neg hh]
          by_cases a1 : s.hasType r.normalize.fromType = true
          · have a2 : ¬ s.hasType r.normalize.invert.fromType = true := by
              intro a2; simp [a1, a2] at hh
            have a2' : ¬ (twAdd s r.normalize).hasType r.normalize.invert.fromType = true := by
              rw [hasType_twAdd]; exact a2
            show twUndo (twUndo (twAdd (twAdd s r.normalize) r.normalize.invert) r.normalize) r.normalize.invert = s
            rw [twAdd_absent _ _ a2', twUndo_twAdd h0 _ ok1, twUndo_absent _ _ a2]
          · show twUndo (twUndo (twAdd (twAdd s r.normalize) r.normalize.invert) r.normalize) r.normalize.invert = s
            rw [twAdd_absent s _ a1] at ok2 ⊢
            have a1' : ¬ (twAdd s r.normalize.invert).hasType r.normalize.fromType = true := by
              rw [hasType_twAdd]; exact a1
            rw [twUndo_absent _ _ a1', twUndo_twAdd h0 _ ok2]

/-- Removing something absent is a no-op. -/
theorem C14_remove_absent (s : Schema) (h : Inv s) :
    (∀ n, n ∉ s.types.map (·.name) → s.removeType n = s) ∧
    (∀ n a, (∀ t ∈ s.types, t.name = n → a ∉ t.attrs.keys) → s.removeAttr n a = s) ∧
    (∀ n a, (∀ t ∈ s.types, t.name = n → a ∉ t.rels.keys) → s.removeRel n a = s) := by
  refine ⟨?_, ?_, ?_⟩
  · intro n hn
    have : ∀ ts : List Typ, n ∉ ts.map (·.name) → eraseFirst (fun t : Typ => decide (t.name = n)) ts = ts := by
      intro ts
      induction ts with
      | nil => intro _; rfl
      | cons t ts ih =>
        intro hn
        simp only [List.map_cons, List.mem_cons, not_or] at hn
        have : ¬ t.name = n := fun e => hn.1 e.symm
        simp only [eraseFirst, this, decide_false, Bool.false_eq_true, if_false]
        rw [ih hn.2]
    simp only [Schema.removeType]; rw [this _ hn]
  · intro n a hna
    simp only [Schema.removeAttr, updAll]
    have := mapNamed_id_of_fix n (fun t => t.removeAttr a) s.types
      (fun t ht hn => Typ.removeAttr_absent (h.2 t ht).2 a (hna t ht hn))
    unfold mapNamed at this; rw [this]
  · intro n a hna
    simp only [Schema.removeRel, updAll]
    have := mapNamed_id_of_fix n (fun t => t.removeRel a) s.types
      (fun t ht hn => Typ.removeRel_absent (h.2 t ht).2 a (hna t ht hn))
    unfold mapNamed at this; rw [this]

end Jsonapi

namespace Jsonapi
open Schema GoMap

/-- Adding a two-way relationship whose types exist and whose names are free succeeds,
whichever direction it is given in and also within a single type, and leaves each side
holding the relationship and its inverse. -/
theorem C14_twoway (s : Schema) (h : Inv s) (r : Rel)
    (hft : s.hasType r.fromType = true) (htt : s.hasType r.toType = true)
    (hfn : r.fromName ≠ []) (htn : r.toName ≠ [])
    (hfreeF : r.fromName ∉ (s.getType r.fromType).attrs.keys ∧ r.fromName ∉ (s.getType r.fromType).rels.keys)
    (hfreeT : r.toName ∉ (s.getType r.toType).attrs.keys ∧ r.toName ∉ (s.getType r.toType).rels.keys)
    (hns : ¬ (r.fromType = r.toType ∧ r.fromName = r.toName)) :
    (s.addTwoWayRel r).2 = .ok () ∧
    (((s.addTwoWayRel r).1.getType r.fromType).rels.get? r.fromName = some r) ∧
    (((s.addTwoWayRel r).1.getType r.toType).rels.get? r.toName = some r.invert) := by
  have main : ∀ x : Rel, (x = r ∨ x = r.invert) → r.normalize = x →
      (s.addTwoWayRel r).2 = .ok () ∧
      ((s.addTwoWayRel r).1.getType x.fromType).rels.get? x.fromName = some x ∧
      ((s.addTwoWayRel r).1.getType x.toType).rels.get? x.toName = some x.invert := by
    intro x hx hnorm
    have core : twRes s x = .ok () ∧ twRes (twAdd s x) x.invert = .ok () ∧
        ((twAdd (twAdd s x) x.invert).getType x.fromType).rels.get? x.fromName = some x ∧
        ((twAdd (twAdd s x) x.invert).getType x.toType).rels.get? x.toName = some x.invert := by
      rcases hx with e | e
      · subst e; exact twoway_core s h x hft htt hfn htn hfreeF hfreeT hns
      · subst e
        exact twoway_core s h r.invert htt hft htn hfn hfreeT hfreeF
          (fun ⟨e1, e2⟩ => hns ⟨e1.symm, e2.symm⟩)
    obtain ⟨c1, c2, c3, c4⟩ := core
    have hb : (s.hasType x.fromType && s.hasType x.invert.fromType) = true := by
      rcases hx with e | e
      · subst e; simp [hft]; exact htt
      · subst e; simp [Rel.invert, hft, htt]
    simp only [Schema.addTwoWayRel, hnorm]
    rw [if_neg (by simp [c1]), if_neg (by simp [c2]), if_pos hb]
    exact ⟨rfl, c3, c4⟩
  rcases C16_normalize_mem' r with e | e
  · obtain ⟨m1, m2, m3⟩ := main r (.inl rfl) e
    exact ⟨m1, m2, m3⟩
  · obtain ⟨m1, m2, m3⟩ := main r.invert (.inr rfl) e
    refine ⟨m1, ?_, ?_⟩
    · have := m3; rw [Rel.invert_invert] at this; exact this
    · exact m2

/-! Non-vacuity: a reachable state, and a two-way relationship given in non-normalised
direction within one type. -/
example :
    let ops := [Op.addType { name := gs "b", attrs := [], rels := [] },
                Op.addType { name := gs "a", attrs := [], rels := [] },
                Op.removeType (gs "b"),
                Op.addTwoWayRel { fromType := gs "a", fromName := gs "y", toOne := true,
                                  toType := gs "a", toName := gs "x", fromOne := false }]
    (run ops).types.length = 1 ∧
    ((run ops).getType (gs "a")).rels.keys = [gs "x", gs "y"] := by decide

#print axioms C14_inv
#print axioms C14_lookup
#print axioms C14_atomic
#print axioms C14_remove_absent
#print axioms C14_twoway
end Jsonapi
