/-
C06W — the last clause of C06 as ONE theorem about a whole resource (audit finding 5):

"… and re-marshaling the result reproduces the payload's id, type, attributes and
relationship linkage as the same JSON values."

`C06_remarshal`: for every well-formed schema (soft and struct-backed types), every resource
skeleton that `unmarshalResource` accepts with result `res`, every path prefix, every field
selection that lists all fields of the type, every relationship-data map that asks for all
relationships of the type and every meta, `marshalResource` of the view of `res` succeeds,
and in the tree it writes

* `id` and `type` are the payload's;
* for every attribute PRESENT in the payload the member of `attributes` is the canonical JSON
  of what the payload's literal denotes, `Spec.denotedJson` (Props/C06R.lean): the same number
  for an integer literal, the same boolean, the same string, the same instant in RFC 3339, the
  same byte string in canonical base64, null for null;
* for every attribute ABSENT from the payload the member is the encoding of the zero value;
* for every relationship whose payload object carries `data` the `data` member is the
  payload's linkage - to-one: null for `null`, the identifier for an identifier WITH A
  NON-EMPTY ID; to-many: the payload's identifiers SORTED BY ID (ascending, bytewise; repeats
  kept: `Typ.sortStrings`, the insertion sort standing for `sort.Strings`) - each with the
  relationship's target type, which is the type the payload's identifier carries;
* for the other relationships the empty linkage (`null` / `[]`).

EXCEPTION (known finding C06-toone-empty-id, pinned by TestUnmarshalPartialResource): a to-one
identifier whose id is empty (or missing) is accepted and re-marshals as `null`, not as the
payload's identifier. It is part of the statement (clause `id = [] → d = .null`, and the
hypothesis `id ≠ []` on the identifier clause); `C06W_known_toOne_empty_id` is the
whole-resource counterexample next to `C06_known_toOne_empty_id`.

Hypotheses on the skeleton, all true of what `encoding/json` hands over and discharged for the
byte-level entry point in `C06B_remarshal`: distinct keys in `attributes` / `relationships`
(Go maps); no raw value starts with '+' (no JSON value does; `strconv.ParseInt` alone would
take "+5": as in `C06_int`); the identifier decoded from `null` is the zero Identifier.
-/
import Jsonapi.Props.C06R
import Jsonapi.Props.C04M
import Jsonapi.Props.C05B
import Jsonapi.Proofs.DetLemmas
import Jsonapi.Props.C13P
namespace Jsonapi
open GoMap UnmL MarshalL

namespace C06W

/-! ### 1. The field maps of an unmarshaled resource -/

/-- the field maps a wrapped struct carries (a soft resource reads them from its type) -/
def mapsOf : AnyRes → Option (GoMap Attr × GoMap Rel)
  | .soft _ => none
  | .wrapped w => some (w.attrs, w.rels)

theorem mapsOf_set {r r' : AnyRes} {k : GoString} {v : GoVal} (h : r.set k v = .ok r') :
    mapsOf r' = mapsOf r := by
  cases r with
  | soft s => simp only [AnyRes.set, Res.ok.injEq] at h; subst h; rfl
  | wrapped w =>
    simp only [AnyRes.set] at h
    cases hw : w.set k v with
    | ok w' =>
      rw [hw] at h
      simp only [Res.ok.injEq] at h
      subst h
      obtain ⟨e1, e2⟩ := Wrapped.set_maps hw
      simp only [mapsOf, e1, e2]
    | err => rw [hw] at h; cases h
    | panic => rw [hw] at h; cases h

theorem mapsOf_attrStep {t : Typ} {acc : Res AnyRes} {p : GoString × RawVal} {r' : AnyRes}
    (h : attrStep t acc p = .ok r') : ∃ r, acc = .ok r ∧ mapsOf r' = mapsOf r := by
  cases acc with
  | err => cases h
  | panic => cases h
  | ok r =>
    refine ⟨r, rfl, ?_⟩
    simp only [attrStep] at h
    cases ha : t.attrs.get? p.1 with
    | none => rw [ha] at h; cases h
    | some a =>
      rw [ha] at h
      simp only at h
      cases hv : unmarshalToType a p.2 with
      | ok v => rw [hv] at h; exact mapsOf_set h
      | err => rw [hv] at h; cases h
      | panic => rw [hv] at h; cases h

theorem mapsOf_relStep {t : Typ} {acc : Res AnyRes} {p : GoString × RelRaw} {r' : AnyRes}
    (h : relStep t acc p = .ok r') : ∃ r, acc = .ok r ∧ mapsOf r' = mapsOf r := by
  cases acc with
  | err => cases h
  | panic => cases h
  | ok r =>
    refine ⟨r, rfl, ?_⟩
    simp only [relStep] at h
    cases ha : t.rels.get? p.1 with
    | none => rw [ha] at h; cases h
    | some rel =>
      rw [ha] at h
      simp only at h
      cases hx : (relValue rel p.2).1 with
      | none =>
        rw [hx] at h
        simp only at h
        split at h
        · cases h
        · cases h; rfl
      | some x =>
        rw [hx] at h
        simp only at h
        cases hs : r.set rel.fromName x with
        | ok r1 =>
          rw [hs] at h
          simp only at h
          split at h
          · cases h
          · cases h; exact mapsOf_set hs
        | err => rw [hs] at h; cases h
        | panic => rw [hs] at h; cases h

theorem mapsOf_foldl {β : Type} (f : Res AnyRes → β → Res AnyRes)
    (hf : ∀ acc p r', f acc p = .ok r' → ∃ r, acc = .ok r ∧ mapsOf r' = mapsOf r) :
    ∀ (l : List β) (acc : Res AnyRes) (r' : AnyRes), l.foldl f acc = .ok r' →
      ∃ r, acc = .ok r ∧ mapsOf r' = mapsOf r
  | [], acc, r', h => ⟨r', h, rfl⟩
  | p :: l, acc, r', h => by
    obtain ⟨r1, h1, e1⟩ := mapsOf_foldl f hf l (f acc p) r' h
    obtain ⟨r, h2, e2⟩ := hf acc p r1 h1
    exact ⟨r, h2, e1.trans e2⟩

theorem mapsOf_resBody {st : SType} {sk : ResSke} {r : AnyRes} (h : resBody st sk = .ok r) :
    ∃ r0, st.new = .ok r0 ∧ mapsOf r = mapsOf r0 := by
  unfold resBody at h
  cases h0 : st.new with
  | err => rw [h0] at h; cases h
  | panic => rw [h0] at h; cases h
  | ok r0 =>
    rw [h0] at h
    simp only at h
    cases h1 : r0.set idName (.val .string (.s sk.id)) with
    | err => rw [h1] at h; cases h
    | panic => rw [h1] at h; cases h
    | ok r1 =>
      rw [h1] at h
      simp only at h
      obtain ⟨ra, ha, ea⟩ := mapsOf_foldl (relStep st.typ) (fun _ _ _ => mapsOf_relStep) _ _ _ h
      obtain ⟨rb, hb, eb⟩ := mapsOf_foldl (attrStep st.typ) (fun _ _ _ => mapsOf_attrStep) _ _ _ ha
      cases hb
      exact ⟨r0, rfl, ea.trans (eb.trans (mapsOf_set h1))⟩

/-- What the attribute and relationship maps of the view of an unmarshaled resource have to do
with the schema type `t`: for a soft resource they ARE the type's maps; for a wrapped struct
they are the maps `Wrap` reads off the struct declaration - the type's entries sorted by name,
each relationship with `FromType` = the type's name and `FromOne` = false. -/
structure ViewMaps (t : Typ) (v : ResView) : Prop where
  keyA : ∀ p ∈ v.attrs, p.1 = p.2.name
  keyR : ∀ p ∈ v.rels, p.1 = p.2.fromName
  nodup : (v.attrs.keys ++ v.rels.keys).Nodup
  attrs : ∀ key, v.attrs.get? key = t.attrs.get? key
  rels : ∀ key, v.rels.get? key = (t.rels.get? key).map (normRel t.name) ∨
                v.rels.get? key = t.rels.get? key

theorem normRel_core (n : GoString) (r : Rel) :
    (normRel n r).fromName = r.fromName ∧ (normRel n r).toOne = r.toOne ∧
    (normRel n r).toType = r.toType := ⟨rfl, rfl, rfl⟩

theorem viewMaps_soft {t : Typ} (ht : TypWF t) (s : Soft) (hs : s.typ = t) : ViewMaps t s.view := by
  have ea : s.view.attrs = t.attrs := by rw [← hs]; rfl
  have er : s.view.rels = t.rels := by rw [← hs]; rfl
  refine ⟨?_, ?_, ?_, ?_, ?_⟩
  · rw [ea]; exact fun p hp => (ht.attrs p hp).1
  · rw [er]; exact fun p hp => (ht.rels p hp).1
  · rw [ea, er]; exact fieldKeys_nodup ht
  · intro key; rw [ea]
  · intro key; rw [er]; exact .inr rfl

theorem viewMaps_wrapped {t : Typ} (ht : TypWF t) (v : ResView)
    (ha : v.attrs = Typ.sortByKey t.attrs)
    (hr : v.rels = (Typ.sortByKey t.rels).map (fun p => (p.1, normRel t.name p.2))) :
    ViewMaps t v := by
  have pa := sortByKey_perm t.attrs
  have pr := sortByKey_perm t.rels
  have ka : (Typ.sortByKey t.attrs).keys.Perm t.attrs.keys := sortByKey_keys_perm _
  have kr0 : (Typ.sortByKey t.rels).keys.Perm t.rels.keys := sortByKey_keys_perm _
  have kr : v.rels.keys = (Typ.sortByKey t.rels).keys := by
    rw [hr]; simp [keys]
  refine ⟨?_, ?_, ?_, ?_, ?_⟩
  · rw [ha]; exact fun p hp => (ht.attrs p (pa.mem_iff.1 hp)).1
  · rw [hr]
    intro p hp
    obtain ⟨q, hq, rfl⟩ := List.mem_map.1 hp
    exact (ht.rels q (pr.mem_iff.1 hq)).1
  · rw [kr, ha]
    exact ((ka.append kr0).nodup_iff).2 (fieldKeys_nodup ht)
  · intro key
    rw [ha]
    exact DetL.get?_eq_of_perm pa (ka.nodup_iff.2 ht.ndA) key
  · intro key
    left
    rw [hr, DetL.get?_map_val, DetL.get?_eq_of_perm pr (kr0.nodup_iff.2 ht.ndR) key]

/-- The view of an accepted resource carries the schema type's field maps (`ViewMaps`). -/
theorem viewMaps_of_unmarshal {σ : SSchema} (hσ : σ.WF) {sk : ResSke} {r : AnyRes}
    (h : unmarshalResource σ sk = .ok r) {st : SType} (hg : σ.getType sk.typ = some st)
    {v : ResView} (hv : r.view? = some v) : ViewMaps st.typ v := by
  obtain ⟨st', hg', _, _, hbody, inv⟩ := ((resource_spec hσ sk).2 r).1 h
  rw [hg] at hg'; cases hg'
  obtain ⟨hm, _⟩ := getType_some hg
  obtain ⟨_, ht, hn, hst⟩ := hσ.2 st hm
  cases r with
  | soft s =>
    obtain ⟨i1, _⟩ := inv
    simp only [AnyRes.view?, Option.some.injEq] at hv
    subst hv
    exact viewMaps_soft ht s i1.typ
  | wrapped w =>
    obtain ⟨i1, i2, i3⟩ := inv
    obtain ⟨v', hv', _, _, ea, er, _⟩ := i1.view ht hn i2 i3
    simp only [AnyRes.view?] at hv
    rw [hv] at hv'; cases hv'
    obtain ⟨r0, h0, e0⟩ := mapsOf_resBody hbody
    cases hb : st.backed with
    | false =>
      simp only [SType.new, hb, Bool.false_eq_true, if_false, Res.ok.injEq] at h0
      subst h0
      cases e0
    | true =>
      have hs' := hst hb
      obtain ⟨w0, hw, _, _, _, hat, hre⟩ :=
        wrap_declOfTyp ht hn hs' (Wrapped.zeroVals (declOfTyp st.typ))
      simp only [SType.new, hb, if_true, hw, Res.ok.injEq] at h0
      subst h0
      simp only [mapsOf, Option.some.injEq, Prod.mk.injEq] at e0
      rw [structRels_declOfTyp_eq ht hs', Res.ok.injEq] at hre
      refine viewMaps_wrapped ht v ?_ ?_
      · rw [ea, e0.1, hat, structAttrs_declOfTyp ht hs']
      · rw [er, e0.2, ← hre]

/-! ### 2. The view is in the domain of the marshal theorems -/

theorem keyedWf_of {t : Typ} {v : ResView} (m : ViewMaps t v)
    (hA : ∀ key a, t.attrs.get? key = some a → ∃ k, Kind.ofCode? a.ty = some k ∧
      ((v.get key).hasAttrType k a.nullable = true ∨ (a.nullable = true ∧ v.get key = .nil)))
    (hR : ∀ key rel, t.rels.get? key = some rel →
      if rel.toOne then ∃ id, v.get key = .val .string (.s id) else ∃ l, v.get key = .strs l) :
    v.keyedWf := by
  obtain ⟨ndA, ndR, disj⟩ := List.nodup_append.1 m.nodup
  refine ⟨?_, m.keyA, m.keyR, m.nodup⟩
  unfold ResView.wf
  rw [Bool.and_eq_true, List.all_eq_true, List.all_eq_true]
  constructor
  · intro p hp
    have hget : v.attrs.get? p.1 = some p.2 := get?_of_mem ndA (by cases p; exact hp)
    have hk : p.1 ∈ v.attrs.keys := List.mem_map.2 ⟨p, hp, rfl⟩
    have hnr : v.rels.has p.1 = false := by
      cases hh : v.rels.has p.1 with
      | false => rfl
      | true => exact absurd rfl (disj p.1 hk p.1 (has_iff_mem_keys.1 hh))
    have hta : t.attrs.get? p.1 = some p.2 := by rw [← m.attrs]; exact hget
    obtain ⟨k, hk, hv⟩ := hA p.1 p.2 hta
    rw [hnr, hget]
    simp only [hk, Bool.not_false, Bool.true_and]
    rcases hv with hv | ⟨h1, h2⟩
    · rw [hv]; rfl
    · rw [h1, h2]; simp
  · intro p hp
    have hget : v.rels.get? p.1 = some p.2 := get?_of_mem ndR (by cases p; exact hp)
    have hcore : ∃ rel, t.rels.get? p.1 = some rel ∧ p.2.toOne = rel.toOne := by
      rcases m.rels p.1 with e | e
      · rw [hget] at e
        cases ht : t.rels.get? p.1 with
        | none => rw [ht] at e; cases e
        | some rel =>
          rw [ht] at e
          simp only [Option.map_some, Option.some.injEq] at e
          exact ⟨rel, rfl, by rw [e]; rfl⟩
      · rw [hget] at e; exact ⟨p.2, e.symm, rfl⟩
    obtain ⟨rel, hrel, hone⟩ := hcore
    have hs := hR p.1 rel hrel
    rw [hget]
    simp only
    by_cases ho : rel.toOne = true
    · rw [if_pos ho] at hs
      obtain ⟨id, hid⟩ := hs
      rw [hid, hone]; exact ho
    · rw [if_neg ho] at hs
      obtain ⟨l, hl⟩ := hs
      rw [hl, hone]; simpa using ho

/-! ### 3. Small facts used by the composition -/

/-- the JSON written for a value does not depend on the two identifications `Spec.canon`
makes (typed / untyped nil; nil / empty byte slice) -/
theorem encodeAttr_canon (x : GoVal) : encodeAttr (Spec.canon x) = encodeAttr x := by
  cases x with
  | val k p =>
    cases p with
    | bs o => cases o <;> cases k <;> rfl
    | _ => cases k <;> rfl
  | ptr k o =>
    cases o with
    | none => rfl
    | some p =>
      cases p with
      | bs o => cases o <;> cases k <;> rfl
      | _ => cases k <;> rfl
  | strs l => rfl
  | nil => rfl
  | other n => rfl

theorem encodeAttr_of_canon_eq {x y : GoVal} (h : Spec.canon x = Spec.canon y) :
    encodeAttr x = encodeAttr y := by
  rw [← encodeAttr_canon x, h, encodeAttr_canon]

/-- the linkage written depends on the relationship's name, cardinality and target type only -/
theorem relDataJson_core (v : ResView) {rel rel' : Rel} (h1 : rel'.fromName = rel.fromName)
    (h2 : rel'.toOne = rel.toOne) (h3 : rel'.toType = rel.toType) :
    Spec.relDataJson v rel' = Spec.relDataJson v rel := by
  unfold Spec.relDataJson
  rw [h1, h2, h3]

/-- `C06_stored` for the schema type `st` the payload names (same proof, `st` fixed), together
with the conformance clauses of `C05_conforms` for the same view. -/
theorem stored {σ : SSchema} (hσ : σ.WF) {sk : ResSke} {r : AnyRes}
    (hA : sk.attrs.keys.Nodup) (hR : sk.rels.keys.Nodup)
    (h : unmarshalResource σ sk = .ok r) {st : SType} (hg : σ.getType sk.typ = some st) :
    ∃ v, r.view? = some v ∧ v.typeName = st.typ.name ∧ v.id = sk.id ∧
      (∀ key raw, sk.attrs.get? key = some raw → ∃ a x, st.typ.attrs.get? key = some a ∧
        unmarshalToType a raw = .ok x ∧ Spec.canon (v.get key) = Spec.canon x) ∧
      (∀ key rv, sk.rels.get? key = some rv → ∃ rel, st.typ.rels.get? key = some rel ∧
        (relValue rel rv).2 = false ∧
        (rv.present = true → (relValue rel rv).1 = some (v.get key))) ∧
      (∀ f ∈ st.typ.attrs.keys ++ st.typ.rels.keys, sk.attrs.has f = false →
        (∀ rv, sk.rels.get? f = some rv → rv.present = false) →
        Spec.canon (v.get f) = Spec.zeroOf st.typ f) ∧
      (∀ key a, st.typ.attrs.get? key = some a → ∃ k, Kind.ofCode? a.ty = some k ∧
        ((v.get key).hasAttrType k a.nullable = true ∨ (a.nullable = true ∧ v.get key = .nil))) ∧
      (∀ key rel, st.typ.rels.get? key = some rel →
        if rel.toOne then ∃ id, v.get key = .val .string (.s id) else ∃ l, v.get key = .strs l) := by
  obtain ⟨st', hg', okA, okR, _, inv⟩ := ((resource_spec hσ sk).2 r).1 h
  rw [hg] at hg'; cases hg'
  obtain ⟨hm, hname⟩ := getType_some hg
  obtain ⟨_, h2, h3, _⟩ := hσ.2 st hm
  obtain ⟨v, hv, e1, e2, e3, e4, e5⟩ := inv.conforms h2 h3 (fullHist_ok h2 h3 sk)
  obtain ⟨r1, r2, r3⟩ := fullHist_reads h2 h3 sk hA hR okA okR
  refine ⟨v, hv, e1, by rw [e2, specId_fullHist h2 h3], ?_, ?_, ?_, e4, e5⟩
  · intro key raw hkr
    obtain ⟨a, x, ha, hx, hs⟩ := r1 key raw hkr
    have hf : key ∈ st.typ.fieldKeys := List.mem_append_left _ (mem_keys_of_get? ha)
    exact ⟨a, x, ha, hx, (e3 key hf).trans hs⟩
  · intro key rv hkr
    obtain ⟨rel, hr, hbad, hpres⟩ := r2 key rv hkr
    refine ⟨rel, hr, hbad, fun hp => ?_⟩
    obtain ⟨x, hx, hs⟩ := hpres hp
    have hf : key ∈ st.typ.fieldKeys := List.mem_append_right _ (mem_keys_of_get? hr)
    have hc := (e3 key hf).trans hs
    rw [hx]
    congr 1
    have ht := relValue_typed rel rv x hx
    split at ht
    · obtain ⟨id, rfl⟩ := ht; exact (canon_eq_string hc).symm
    · obtain ⟨l, rfl⟩ := ht; exact (canon_eq_strs hc).symm
  · intro f hf hna hnr
    rw [e3 f hf]
    exact r3 f hna hnr (namesOk_mem h3 hf).1

end C06W

/-! ### 4. The statement -/

/-- The empty linkage of a relationship: `null` (to-one), `[]` (to-many). -/
def C06W.emptyLinkage (rel : Rel) : Json := if rel.toOne then .null else .arr []

/-- `d` is the linkage the payload gives for the relationship `rel`, whose payload object (if
the payload has one) is `rv`:

* no object, or an object without `data` member: the empty linkage;
* to-one with `data`: `null` for the literal `null`; otherwise the data decoded into an
  identifier `(id, ty)`, `ty` is the relationship's target type and - EXCEPT when `id` is
  empty, the known finding C06-toone-empty-id - `d` is that identifier `{"id": id, "type": ty}`;
  when `id` is empty `d` is `null`;
* to-many with `data`: the data decoded into identifiers `l`, every one carrying the target
  type, and `d` is the array of the identifiers `{"id": id, "type": target}` for `id` ranging
  over `Typ.sortStrings (l.map (·.1))`: the payload's ids in ascending bytewise order, repeats
  kept (what `sort.Strings` leaves in the resource before `MarshalResource` ranges over it). -/
def C06W.linkageOf (rel : Rel) (rv : Option RelRaw) (d : Json) : Prop :=
  match rv with
  | none => d = C06W.emptyLinkage rel
  | some rv =>
    if rv.present = true then
      if rel.toOne = true then
        (rv.isNull = true → d = .null) ∧
        (rv.isNull = false → ∃ id ty, rv.decIdent = some (id, ty) ∧ ty = rel.toType ∧
          (id ≠ [] → d = identifierJson id ty) ∧ (id = [] → d = .null))
      else
        ∃ l, rv.decIdents = some l ∧ (∀ p ∈ l, p.2 = rel.toType) ∧
          d = .arr ((Typ.sortStrings (l.map (·.1))).map (fun id => identifierJson id rel.toType))
    else d = C06W.emptyLinkage rel

/-- What `encoding/json` guarantees of a relationship object whose `data` is the literal
`null`: decoding it into an `Identifier` is a no-op, the identifier read is the zero value. -/
def C06W.NullDecoded (sk : ResSke) : Prop :=
  ∀ key rv, sk.rels.get? key = some rv → rv.isNull = true → rv.decIdent = some ([], [])

open C06W in
/-- **C06, last clause, whole resource.** `st` is the schema's type of the payload's type name
(it exists whenever the payload is accepted: `C05_accept_iff`). -/
theorem C06_remarshal (σ : SSchema) (hσ : σ.WF) (sk : ResSke) (res : AnyRes)
    (hA : sk.attrs.keys.Nodup) (hR : sk.rels.keys.Nodup)
    (hplus : ∀ key raw, sk.attrs.get? key = some raw → raw.bytes.head? ≠ some 43)
    (hnull : NullDecoded sk)
    (h : unmarshalResource σ sk = .ok res)
    (st : SType) (hg : σ.getType sk.typ = some st)
    (prepath : GoString) (fields : List GoString) (relData : GoMap (List GoString)) (rmeta : Meta)
    (hfields : ∀ f ∈ st.typ.attrs.keys ++ st.typ.rels.keys, f ∈ fields)
    (hwant : ∀ f ∈ st.typ.rels.keys, f ∈ (relData.get? sk.typ).getD []) :
    st ∈ σ ∧ st.typ.name = sk.typ ∧
    ∃ v j v', res.view? = some v ∧ marshalResource v prepath fields relData rmeta = .ok (j, v') ∧
      -- id and type are the payload's
      j.get? K.id = some (.str sk.id) ∧ j.get? K.type = some (.str sk.typ) ∧
      -- attributes present in the payload: the canonical JSON of what the literal denotes
      (∀ key raw, sk.attrs.get? key = some raw →
        ∃ a o x, st.typ.attrs.get? key = some a ∧ j.get? K.attributes = some o ∧
          o.get? key = some x ∧ Spec.denotedJson a raw = some x) ∧
      -- attributes absent from the payload: the encoding of the zero value
      (∀ key a, st.typ.attrs.get? key = some a → sk.attrs.has key = false →
        ∃ o, j.get? K.attributes = some o ∧ o.get? key = some (encodeAttr a.zero)) ∧
      -- relationships: the payload's linkage, the empty linkage for the others
      (∀ key rel, st.typ.rels.get? key = some rel →
        ∃ rs ro d, j.get? K.relationships = some rs ∧ rs.get? key = some ro ∧
          ro.get? K.data = some d ∧ linkageOf rel (sk.rels.get? key) d) := by
  obtain ⟨hm, hname⟩ := getType_some hg
  obtain ⟨_, ht, hn, _⟩ := hσ.2 st hm
  obtain ⟨v, hv, e1, e2, sA, sR, sZ, cA, cR⟩ := stored hσ hA hR h hg
  have vm := viewMaps_of_unmarshal hσ h hg hv
  have hkw : v.keyedWf := keyedWf_of vm cA cR
  obtain ⟨v', hmar, _⟩ := C04_resource v hkw prepath fields relData rmeta
  have htn : v.typeName = sk.typ := e1.trans hname
  refine ⟨hm, hname, v, _, v', hv, hmar, ?_, ?_, ?_, ?_, ?_⟩
  · rw [resObj_get_id, e2]
  · rw [resObj_get_type, htn]
  · -- present attributes
    intro key raw hkr
    obtain ⟨a, x, ha, hx, hc⟩ := sA key raw hkr
    have hkey : key = a.name := (ht.attrs (key, a) (mem_of_get? ha)).1
    have hav : a ∈ v.attrs.vals :=
      List.mem_map.2 ⟨(key, a), mem_of_get? (by rw [vm.attrs]; exact ha), rfl⟩
    have hf : a.name ∈ fields := by
      rw [← hkey]; exact hfields key (List.mem_append_left _ (mem_keys_of_get? ha))
    obtain ⟨o, ho1, ho2⟩ := C04_attr_value v hkw prepath fields relData rmeta a hav hf
    refine ⟨a, o, encodeAttr x, ha, ho1, ?_, (C06R_remarshal_attr a raw x (hplus key raw hkr) hx).1⟩
    rw [hkey, ho2, ← hkey, encodeAttr_of_canon_eq hc]
  · -- absent attributes
    intro key a ha hna
    have hkey : key = a.name := (ht.attrs (key, a) (mem_of_get? ha)).1
    have hka : key ∈ st.typ.attrs.keys := mem_keys_of_get? ha
    have hav : a ∈ v.attrs.vals :=
      List.mem_map.2 ⟨(key, a), mem_of_get? (by rw [vm.attrs]; exact ha), rfl⟩
    have hf : a.name ∈ fields := by
      rw [← hkey]; exact hfields key (List.mem_append_left _ hka)
    obtain ⟨o, ho1, ho2⟩ := C04_attr_value v hkw prepath fields relData rmeta a hav hf
    have hz : Spec.canon (v.get key) = Spec.canon a.zero := by
      rw [sZ key (List.mem_append_left _ hka) hna]
      · simp only [Spec.zeroOf, ha]
      · intro rv hrv
        obtain ⟨rel, hrel, _⟩ := sR key rv hrv
        exact absurd (mem_keys_of_get? hrel) (ht.disj key hka)
    refine ⟨o, ho1, ?_⟩
    rw [hkey, ho2, ← hkey, encodeAttr_of_canon_eq hz]
  · -- relationships
    intro key rel hrel
    have hkey : key = rel.fromName := (ht.rels (key, rel) (mem_of_get? hrel)).1
    have hkr : key ∈ st.typ.rels.keys := mem_keys_of_get? hrel
    have hnotA : st.typ.attrs.get? key = none := by
      cases hh : st.typ.attrs.get? key with
      | none => rfl
      | some a => exact absurd hkr (ht.disj key (mem_keys_of_get? hh))
    -- the relationship as the view lists it
    obtain ⟨rel', hrel', c1, c2, c3⟩ : ∃ rel', v.rels.get? key = some rel' ∧
        rel'.fromName = rel.fromName ∧ rel'.toOne = rel.toOne ∧ rel'.toType = rel.toType := by
      rcases vm.rels key with e | e
      · rw [hrel] at e; exact ⟨_, e, rfl, rfl, rfl⟩
      · rw [hrel] at e; exact ⟨_, e, rfl, rfl, rfl⟩
    have hrv : rel' ∈ v.rels.vals := List.mem_map.2 ⟨(key, rel'), mem_of_get? hrel', rfl⟩
    have hf : rel'.fromName ∈ fields := by
      rw [c1, ← hkey]; exact hfields key (List.mem_append_right _ hkr)
    have hw : rel'.fromName ∈ (relData.get? v.typeName).getD [] := by
      rw [c1, ← hkey, htn]; exact hwant key hkr
    obtain ⟨⟨rs, ro, hrs, hro, hd⟩, _⟩ :=
      C04_data_exact v hkw prepath fields relData rmeta rel' hrv hf hw
    rw [c1, ← hkey] at hro
    rw [relDataJson_core v c1 c2 c3] at hd
    refine ⟨rs, ro, _, hrs, hro, hd, ?_⟩
    -- the value the resource holds
    have hshape := cR key rel hrel
    have hsk_attr : sk.attrs.has key = false := by
      cases hh : sk.attrs.get? key with
      | none => simp [GoMap.has, hh]
      | some raw =>
        obtain ⟨a, _, ha, _⟩ := sA key raw hh
        rw [hnotA] at ha; cases ha
    have hzero : (∀ rv, sk.rels.get? key = some rv → rv.present = false) →
        Spec.relDataJson v rel = emptyLinkage rel := by
      intro hnp
      have hz := sZ key (List.mem_append_right _ hkr) hsk_attr hnp
      simp only [Spec.zeroOf, hnotA, hrel, Rel.zero] at hz
      unfold Spec.relDataJson emptyLinkage
      rw [← hkey]
      by_cases ho : rel.toOne = true
      · rw [if_pos ho] at hz
        simp only [ho, if_true]
        rw [canon_eq_string hz]; rfl
      · rw [if_neg ho] at hz
        simp only [ho, if_false, Bool.false_eq_true]
        rw [canon_eq_strs hz]; rfl
    unfold linkageOf
    cases hsk : sk.rels.get? key with
    | none =>
      simp only
      exact hzero (fun rv hh => by rw [hsk] at hh; cases hh)
    | some rv =>
      simp only
      by_cases hp : rv.present = true
      · rw [if_pos hp]
        obtain ⟨rel2, hrel2, hbad, hval⟩ := sR key rv hsk
        rw [hrel] at hrel2; cases hrel2
        have hval := hval hp
        unfold relValue at hbad hval
        simp only [hp, Bool.not_true, Bool.false_eq_true, if_false] at hbad hval
        by_cases ho : rel.toOne = true
        · rw [if_pos ho]
          simp only [ho, if_true] at hbad hval
          cases hd : rv.decIdent with
          | none => rw [hd] at hbad; simp at hbad
          | some p =>
            obtain ⟨id, ty⟩ := p
            rw [hd] at hbad hval
            simp only [Option.some.injEq] at hval
            have hj : Spec.relDataJson v rel =
                if id = [] then .null else identifierJson id rel.toType := by
              unfold Spec.relDataJson
              rw [← hkey, ← hval]
              simp only [ho, if_true]
            constructor
            · intro hnl
              have := hnull key rv hsk hnl
              rw [hd] at this
              simp only [Option.some.injEq, Prod.mk.injEq] at this
              rw [hj, if_pos this.1]
            · intro hnl
              have hty : ty = rel.toType := by
                simp only [hnl, Bool.not_false, Bool.true_and] at hbad
                simpa using hbad
              refine ⟨id, ty, rfl, hty, ?_, ?_⟩
              · intro hne; rw [hj, if_neg hne, hty]
              · intro he; rw [hj, if_pos he]
        · rw [if_neg ho]
          simp only [ho, if_false, Bool.false_eq_true] at hbad hval
          cases hd : rv.decIdents with
          | none => rw [hd] at hbad; simp at hbad
          | some l =>
            rw [hd] at hbad hval
            simp only [Option.some.injEq] at hval
            refine ⟨l, rfl, ?_, ?_⟩
            · intro p hpl
              simp only at hbad
              rw [Bool.eq_false_iff] at hbad
              simp only [ne_eq, List.any_eq_true, decide_eq_true_eq, not_exists, not_and,
                Decidable.not_not] at hbad
              exact hbad p hpl
            · unfold Spec.relDataJson
              rw [← hkey, ← hval]
              simp only [ho, if_false, Bool.false_eq_true]
      · rw [if_neg hp]
        have hp' : rv.present = false := by simpa using hp
        exact hzero (fun rv' hh => by rw [hsk] at hh; cases hh; exact hp')

/-- The order of a re-marshaled to-many linkage: `Typ.sortStrings` returns the payload's ids
(a permutation: nothing dropped, repeats kept) in ascending bytewise order. -/
theorem C06W_toMany_order (ids : List GoString) :
    (Typ.sortStrings ids).Perm ids ∧ (Typ.sortStrings ids).Pairwise (· ≤ ·) :=
  ⟨DetL.sortStrings_perm ids, DetL.sortStrings_sorted ids⟩

open C06W in
/-- The form of the property text: ALL fields of the type selected (`st.typ.attrs.keys ++
st.typ.rels.keys`) and the data of ALL its relationships asked for (`[(type, st.typ.rels.keys)]`);
the type `st` is the one the schema has for the payload's type name. -/
theorem C06_remarshal_allFields (σ : SSchema) (hσ : σ.WF) (sk : ResSke) (res : AnyRes)
    (hA : sk.attrs.keys.Nodup) (hR : sk.rels.keys.Nodup)
    (hplus : ∀ key raw, sk.attrs.get? key = some raw → raw.bytes.head? ≠ some 43)
    (hnull : NullDecoded sk)
    (h : unmarshalResource σ sk = .ok res) (prepath : GoString) (rmeta : Meta) :
    ∃ st ∈ σ, σ.getType sk.typ = some st ∧ st.typ.name = sk.typ ∧
    ∃ v j v', res.view? = some v ∧
      marshalResource v prepath (st.typ.attrs.keys ++ st.typ.rels.keys)
        [(sk.typ, st.typ.rels.keys)] rmeta = .ok (j, v') ∧
      j.get? K.id = some (.str sk.id) ∧ j.get? K.type = some (.str sk.typ) ∧
      (∀ key raw, sk.attrs.get? key = some raw →
        ∃ a o x, st.typ.attrs.get? key = some a ∧ j.get? K.attributes = some o ∧
          o.get? key = some x ∧ Spec.denotedJson a raw = some x) ∧
      (∀ key a, st.typ.attrs.get? key = some a → sk.attrs.has key = false →
        ∃ o, j.get? K.attributes = some o ∧ o.get? key = some (encodeAttr a.zero)) ∧
      (∀ key rel, st.typ.rels.get? key = some rel →
        ∃ rs ro d, j.get? K.relationships = some rs ∧ rs.get? key = some ro ∧
          ro.get? K.data = some d ∧ linkageOf rel (sk.rels.get? key) d) := by
  obtain ⟨st, hg, _⟩ := ((resource_spec hσ sk).2 res).1 h
  obtain ⟨hm, hn, rest⟩ := C06_remarshal σ hσ sk res hA hR hplus hnull h st hg prepath
    (st.typ.attrs.keys ++ st.typ.rels.keys) [(sk.typ, st.typ.rels.keys)] rmeta
    (fun f hf => hf) (fun f hf => by simpa [GoMap.get?] using hf)
  exact ⟨st, hm, hg, hn, rest⟩

namespace C06W

/-! ### 5. Non-vacuity and the known finding on a whole resource -/

def exAttr (n : UInt8) (ty : Nat) (nl : Bool) : Attr := { name := [n], ty := ty, nullable := nl }
def exRel (n : UInt8) (one : Bool) : Rel :=
  { fromType := [116], fromName := [n], toOne := one, toType := [117], toName := [], fromOne := false }

/-- Type "t": attributes n (int8), s (string), w (nullable time), c (time), y (bytes),
b (bool), z (uint16); relationships o, p (to-one) and m, q (to-many), all to type "u". -/
def exT : Typ :=
  { name := [116],
    attrs := [([110], exAttr 110 3 false), ([115], exAttr 115 1 false), ([119], exAttr 119 13 true),
              ([99], exAttr 99 13 false), ([121], exAttr 121 14 false), ([98], exAttr 98 12 false),
              ([122], exAttr 122 9 false)],
    rels := [([111], exRel 111 true), ([109], exRel 109 false), ([112], exRel 112 true),
             ([113], exRel 113 false)] }

def exσ : SSchema := [{ typ := exT, backed := false }]

theorem exσ_wf : exσ.WF := by
  refine ⟨by decide, ?_⟩
  intro st hst
  simp only [exσ, List.mem_singleton] at hst
  subst hst
  exact ⟨by decide, ⟨by decide, by decide, by decide, by decide, by decide⟩, by decide, by decide⟩

/-- 2020-01-02T03:04:05Z -/
def exTime : Time := { sec := 1577934245, nsec := 0, off := 0 }

def exRawN : RawVal := { bytes := [45, 49, 50, 56], decStr := none, decTime := none, decBytes := none }
def exRawS : RawVal := { bytes := [34, 120, 34], decStr := some [120], decTime := none, decBytes := none }
def exRawW : RawVal := { bytes := sNull, decStr := some [], decTime := none, decBytes := some none }
def exRawC : RawVal :=
  { bytes := [34, 50, 48, 50, 48, 45, 48, 49, 45, 48, 50, 84, 48, 51, 58, 48, 52, 58, 48, 53, 90, 34],
    decStr := none, decTime := some exTime, decBytes := none }
def exRawY : RawVal :=
  { bytes := [34, 65, 81, 73, 61, 34], decStr := some [65, 81, 73, 61], decTime := none,
    decBytes := some (some [1, 2]) }
def exRawB : RawVal := { bytes := sTrue, decStr := none, decTime := none, decBytes := none }

/-- `{"id":"1","type":"t","attributes":{"n":-128,"s":"x","w":null,"c":"2020-01-02T03:04:05Z",
"y":"AQI=","b":true},"relationships":{"o":{"data":{"id":"k","type":"u"}},
"m":{"data":[{"id":"b","type":"u"},{"id":"a","type":"u"},{"id":"b","type":"u"}]},"q":{}}}`
as `encoding/json` decodes it: z and p are absent, q has no data member. -/
def exSk : ResSke :=
  { id := [49], typ := [116],
    attrs := [([110], exRawN), ([115], exRawS), ([119], exRawW), ([99], exRawC), ([121], exRawY),
              ([98], exRawB)],
    rels := [([111], { present := true, isNull := false, decIdent := some ([107], [117]), decIdents := none }),
             ([109], { present := true, isNull := false, decIdent := none,
                       decIdents := some [([98], [117]), ([97], [117]), ([98], [117])] }),
             ([113], { present := false, isNull := false, decIdent := none, decIdents := none })],
    smeta := default }

theorem exSk_accepted : ∃ res, unmarshalResource exσ exSk = .ok res := by
  have h : (unmarshalResource exσ exSk).isOk = true := by decide
  cases hr : unmarshalResource exσ exSk with
  | ok r => exact ⟨r, rfl⟩
  | err => rw [hr] at h; cases h
  | panic => rw [hr] at h; cases h

/-- reading one attribute member off the conclusion of `C06_remarshal` -/
theorem ex_attr {j o : Json} {T : Typ} {sk : ResSke}
    (hP : ∀ key raw, sk.attrs.get? key = some raw →
      ∃ a o x, T.attrs.get? key = some a ∧ j.get? K.attributes = some o ∧
        o.get? key = some x ∧ Spec.denotedJson a raw = some x)
    (ho : j.get? K.attributes = some o) (key : GoString) (raw : RawVal) (a : Attr) (x : Json)
    (h1 : sk.attrs.get? key = some raw) (h2 : T.attrs.get? key = some a)
    (h3 : Spec.denotedJson a raw = some x) : o.get? key = some x := by
  obtain ⟨a', o', x', ha', ho', hx', hd'⟩ := hP key raw h1
  rw [h2] at ha'; cases ha'
  rw [ho] at ho'; cases ho'
  rw [h3] at hd'; cases hd'
  exact hx'

/-- reading one relationship's data member off the conclusion of `C06_remarshal` -/
theorem ex_rel {j rs : Json} {T : Typ} {sk : ResSke}
    (hP : ∀ key rel, T.rels.get? key = some rel →
      ∃ rs ro d, j.get? K.relationships = some rs ∧ rs.get? key = some ro ∧
        ro.get? K.data = some d ∧ linkageOf rel (sk.rels.get? key) d)
    (hrs : j.get? K.relationships = some rs) (key : GoString) (rel : Rel)
    (h2 : T.rels.get? key = some rel) :
    ∃ ro d, rs.get? key = some ro ∧ ro.get? K.data = some d ∧ linkageOf rel (sk.rels.get? key) d := by
  obtain ⟨rs', ro, d, h1, h3, h4, h5⟩ := hP key rel h2
  rw [hrs] at h1; cases h1
  exact ⟨ro, d, h3, h4, h5⟩

end C06W

open C06W in
/-- **Example.** The payload `C06W.exSk` (an int8, a string, a null and a non-null time, a byte
string, a boolean; a to-one identifier and a to-many list given out of order with a repeat) is
accepted, its view is marshaled with all fields and all relationship data, and the tree has
the payload's id and type, every attribute of the payload as the same JSON value (`-128`,
`"x"`, `null`, the RFC 3339 text of the decoded instant, the canonical base64 `"AQI="`, `true`),
the absent `z` as `0`, `o` as the payload's identifier, `m` as the payload's identifiers sorted
by id (`a`, `b`, `b`), the absent `p` as `null` and `q` (no data member) as `[]`. -/
example : ∃ res v j v' o rs, unmarshalResource exσ exSk = .ok res ∧ res.view? = some v ∧
    marshalResource v [47] (exT.attrs.keys ++ exT.rels.keys) [([116], exT.rels.keys)] [] = .ok (j, v') ∧
    j.get? K.id = some (.str [49]) ∧ j.get? K.type = some (.str [116]) ∧
    j.get? K.attributes = some o ∧ j.get? K.relationships = some rs ∧
    o.get? [110] = some (.num [45, 49, 50, 56]) ∧ o.get? [115] = some (.str [120]) ∧
    o.get? [119] = some .null ∧ o.get? [99] = some (.str (formatTime exTime)) ∧
    o.get? [121] = some (.str [65, 81, 73, 61]) ∧ o.get? [98] = some (.bool true) ∧
    o.get? [122] = some (.num [48]) ∧
    (∃ ro, rs.get? [111] = some ro ∧ ro.get? K.data = some (identifierJson [107] [117])) ∧
    (∃ ro, rs.get? [109] = some ro ∧ ro.get? K.data = some (.arr
      [identifierJson [97] [117], identifierJson [98] [117], identifierJson [98] [117]])) ∧
    (∃ ro, rs.get? [112] = some ro ∧ ro.get? K.data = some .null) ∧
    (∃ ro, rs.get? [113] = some ro ∧ ro.get? K.data = some (.arr [])) := by
  obtain ⟨res, hres⟩ := exSk_accepted
  obtain ⟨_, _, v, j, v', hv, hm, hid, hty, hP, hZ, hL⟩ :=
    C06_remarshal exσ exσ_wf exSk res (by decide) (by decide)
      (by
        intro key raw hk
        have hmem := mem_of_get? hk
        simp only [exSk, List.mem_cons, List.not_mem_nil, or_false, Prod.mk.injEq] at hmem
        rcases hmem with ⟨_, rfl⟩ | ⟨_, rfl⟩ | ⟨_, rfl⟩ | ⟨_, rfl⟩ | ⟨_, rfl⟩ | ⟨_, rfl⟩ <;> decide)
      (by
        intro key rv hk hn
        have hmem := mem_of_get? hk
        simp only [exSk, List.mem_cons, List.not_mem_nil, or_false, Prod.mk.injEq] at hmem
        rcases hmem with ⟨_, rfl⟩ | ⟨_, rfl⟩ | ⟨_, rfl⟩ <;> cases hn)
      hres { typ := exT, backed := false } rfl [47] (exT.attrs.keys ++ exT.rels.keys)
      [([116], exT.rels.keys)] [] (fun f hf => hf) (fun f hf => by simpa [GoMap.get?, exSk] using hf)
  obtain ⟨o, ho, hz⟩ := hZ [122] (exAttr 122 9 false) (by decide) (by decide)
  obtain ⟨rs0, ro0, d0, hrs, _⟩ := hL [111] (exRel 111 true) (by decide)
  have hn : o.get? [110] = some (.num [45, 49, 50, 56]) := by
    have := ex_attr hP ho [110] exRawN (exAttr 110 3 false) _ rfl (by decide)
      (C06R_remarshal_attr _ _ (.val .int8 (.i (-128))) (by decide) (by decide)).1
    rw [this]
    show some (Json.num (printInt (-128))) = _
    rw [C06R_ex_print]
  have hzz : o.get? [122] = some (.num [48]) := by
    rw [hz]
    show some (Json.num (printInt 0)) = _
    have : printInt 0 = [48] := by simp [printInt, printNat, digitChar]
    rw [this]
  have hy : Spec.denotedJson (exAttr 121 14 false) exRawY = some (.str [65, 81, 73, 61]) := by
    have e : b64enc [1, 2] = [65, 81, 73, 61] := by decide
    rw [← e]; rfl
  refine ⟨res, v, j, v', o, rs0, hres, hv, hm, hid, hty, ho, hrs, hn,
    ex_attr hP ho [115] exRawS (exAttr 115 1 false) _ rfl (by decide) rfl,
    ex_attr hP ho [119] exRawW (exAttr 119 13 true) _ rfl (by decide) rfl,
    ex_attr hP ho [99] exRawC (exAttr 99 13 false) _ rfl (by decide) rfl,
    ex_attr hP ho [121] exRawY (exAttr 121 14 false) _ rfl (by decide) hy,
    ex_attr hP ho [98] exRawB (exAttr 98 12 false) _ rfl (by decide) rfl,
    hzz, ?_, ?_, ?_, ?_⟩
  · obtain ⟨ro, d, h1, h2, h3⟩ := ex_rel hL hrs [111] (exRel 111 true) (by decide)
    refine ⟨ro, h1, ?_⟩
    obtain ⟨id, ty, e, rfl, h4, _⟩ := h3.2 rfl
    cases e
    rw [h2, h4 (by decide)]
    rfl
  · obtain ⟨ro, d, h1, h2, h3⟩ := ex_rel hL hrs [109] (exRel 109 false) (by decide)
    refine ⟨ro, h1, ?_⟩
    obtain ⟨l, e, _, h4⟩ := h3
    cases e
    rw [h2, h4]
    rfl
  · obtain ⟨ro, d, h1, h2, h3⟩ := ex_rel hL hrs [112] (exRel 112 true) (by decide)
    exact ⟨ro, h1, by rw [h2, h3]; rfl⟩
  · obtain ⟨ro, d, h1, h2, h3⟩ := ex_rel hL hrs [113] (exRel 113 false) (by decide)
    exact ⟨ro, h1, by rw [h2, h3]; rfl⟩

/-- `{"id":"1","type":"t","relationships":{"o":{"data":{"id":"","type":"u"}}}}` -/
def C06W.exSkEmpty : ResSke :=
  { id := [49], typ := [116], attrs := [],
    rels := [([111], { present := true, isNull := false, decIdent := some ([], [117]), decIdents := none })],
    smeta := default }

open C06W in
/-- **Known finding C06-toone-empty-id on a whole resource** (the reason for the hypothesis
`id ≠ []` in `C06W.linkageOf`; the relationship-level form is `C06_known_toOne_empty_id`): the
payload above, whose to-one linkage is the identifier `{"id":"","type":"u"}` - not `null` -, is
accepted, and re-marshaling the result with all fields and all relationship data writes
`"data": null` for `o`, which is not the payload's identifier. The statement of C06's last
clause without the exception is therefore false of the model (and of the code: the behaviour is
pinned by TestUnmarshalPartialResource). -/
theorem C06W_known_toOne_empty_id :
    ∃ res v j v' rs ro, unmarshalResource exσ exSkEmpty = .ok res ∧ res.view? = some v ∧
      marshalResource v [47] (exT.attrs.keys ++ exT.rels.keys) [([116], exT.rels.keys)] [] = .ok (j, v') ∧
      j.get? K.relationships = some rs ∧ rs.get? [111] = some ro ∧
      ro.get? K.data = some .null ∧ Json.null ≠ identifierJson [] [117] := by
  have hacc : ∃ res, unmarshalResource exσ exSkEmpty = .ok res := by
    have h : (unmarshalResource exσ exSkEmpty).isOk = true := by decide
    cases hr : unmarshalResource exσ exSkEmpty with
    | ok r => exact ⟨r, rfl⟩
    | err => rw [hr] at h; cases h
    | panic => rw [hr] at h; cases h
  obtain ⟨res, hres⟩ := hacc
  obtain ⟨_, _, v, j, v', hv, hm, _, _, _, _, hL⟩ :=
    C06_remarshal exσ exσ_wf exSkEmpty res (by decide) (by decide)
      (by intro key raw hk; cases hk)
      (by
        intro key rv hk hn
        have hmem := mem_of_get? hk
        simp only [exSkEmpty, List.mem_singleton, Prod.mk.injEq] at hmem
        obtain ⟨_, rfl⟩ := hmem
        cases hn)
      hres { typ := exT, backed := false } rfl [47] (exT.attrs.keys ++ exT.rels.keys)
      [([116], exT.rels.keys)] [] (fun f hf => hf) (fun f hf => by simpa [GoMap.get?, exSkEmpty] using hf)
  obtain ⟨rs, ro, d, h1, h2, h3, h4⟩ := hL [111] (exRel 111 true) (by decide)
  obtain ⟨id, ty, e, _, _, h5⟩ := h4.2 rfl
  cases e
  refine ⟨res, v, j, v', rs, ro, hres, hv, hm, h1, h2, by rw [h3, h5 rfl], ?_⟩
  intro h
  cases h

/-! ### 6. From the payload bytes -/

/-- The skeleton `Model/Decode.lean` builds from bytes satisfies `C06W.NullDecoded`: a `data`
member that is the literal `null` decodes into the zero Identifier. -/
theorem C06W.decodeRes_nullDecoded (D : Delegated) (j : Spec.CJson) (sk : ResSke)
    (h : decodeRes D j = some sk) : C06W.NullDecoded sk := by
  intro key rv hg hn
  obtain ⟨v, _, hd, _⟩ := C13P.decodeRes_rels D j sk h key rv hg
  have hrel : ∀ o, (relRawOf o).isNull = true → (relRawOf o).decIdent = some ([], []) := by
    intro o ho
    cases o with
    | none => cases ho
    | some x => cases x <;> first | rfl | cases ho
  cases v with
  | null => simp only [decodeRel, Option.some.injEq] at hd; subst hd; exact hrel _ hn
  | obj ws ms =>
    simp only [decodeRel] at hd
    cases ho : relMembers none ms with
    | none => rw [ho] at hd; cases hd
    | some o =>
      rw [ho] at hd
      simp only [Option.map_some, Option.some.injEq] at hd
      subst hd; exact hrel _ hn
  | bool b => cases hd
  | num l => cases hd
  | str r => cases hd
  | arr ws items => cases hd

open C06W in
/-- `C06_remarshal_allFields` for the byte-level entry point `unmarshalResourceBytes`
(Model/Decode.lean): the hypotheses "distinct keys" and "null decodes to the zero Identifier"
are facts about the modelled decoder (`DecL.decodeRes_nodup`, `C06W.decodeRes_nullDecoded`).
Left as a hypothesis: no raw attribute value of the decoded skeleton starts with '+' (true of
every JSON value; the lemma "the reader `Spec.parseJsonC` only yields number tokens of JSON's
grammar" is not proved here). -/
theorem C06B_remarshal (D : Delegated) (σ : SSchema) (hσ : σ.WF) (bytes : GoString) (res : AnyRes)
    (h : unmarshalResourceBytes D σ bytes = .ok res)
    (hplus : ∀ j sk, Spec.parseJsonC bytes = some j → decodeRes D j = some sk →
      ∀ key raw, sk.attrs.get? key = some raw → raw.bytes.head? ≠ some 43)
    (prepath : GoString) (rmeta : Meta) :
    ∃ j sk, Spec.parseJsonC bytes = some j ∧ decodeRes D j = some sk ∧
    ∃ st ∈ σ, σ.getType sk.typ = some st ∧ st.typ.name = sk.typ ∧
    ∃ v t v', res.view? = some v ∧
      marshalResource v prepath (st.typ.attrs.keys ++ st.typ.rels.keys)
        [(sk.typ, st.typ.rels.keys)] rmeta = .ok (t, v') ∧
      t.get? K.id = some (.str sk.id) ∧ t.get? K.type = some (.str sk.typ) ∧
      (∀ key raw, sk.attrs.get? key = some raw →
        ∃ a o x, st.typ.attrs.get? key = some a ∧ t.get? K.attributes = some o ∧
          o.get? key = some x ∧ Spec.denotedJson a raw = some x) ∧
      (∀ key a, st.typ.attrs.get? key = some a → sk.attrs.has key = false →
        ∃ o, t.get? K.attributes = some o ∧ o.get? key = some (encodeAttr a.zero)) ∧
      (∀ key rel, st.typ.rels.get? key = some rel →
        ∃ rs ro d, t.get? K.relationships = some rs ∧ rs.get? key = some ro ∧
          ro.get? K.data = some d ∧ linkageOf rel (sk.rels.get? key) d) := by
  unfold unmarshalResourceBytes at h
  split at h
  · cases h
  · rename_i j hj
    split at h
    · cases h
    · rename_i sk hsk
      have hk := DecL.decodeRes_nodup D j sk hsk
      exact ⟨j, sk, hj, hsk, C06_remarshal_allFields σ hσ sk res hk.1 hk.2 (hplus j sk hj hsk)
        (decodeRes_nullDecoded D j sk hsk) h prepath rmeta⟩

end Jsonapi

section Axioms
open Jsonapi
#print axioms C06_remarshal
#print axioms C06_remarshal_allFields
#print axioms C06B_remarshal
#print axioms C06W_toMany_order
#print axioms C06W_known_toOne_empty_id
#print axioms C06W.viewMaps_of_unmarshal
#print axioms C06W.keyedWf_of
#print axioms C06W.stored
#print axioms C06W.decodeRes_nullDecoded
#print axioms C06W.exσ_wf
#print axioms C06W.exSk_accepted
end Axioms
