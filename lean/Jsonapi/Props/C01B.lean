/-
C01B — C01 through the BYTES (audit finding 2 of DESIGN §14).

`Props/C01.lean` proves the round trip from the marshaled TREE: `unmarshalResource σ
(Spec.skeletonOf c t)`, where `Spec.skeletonOf` is a definition standing for "what encoding/json
decodes from the bytes of `t`". Here both byte-level halves of the model are connected:

  `Json.render`               the bytes `encoding/json` writes for the tree (Model/JsonText.lean)
  `Spec.parseJsonC`           the full-grammar reader of `encoding/json` (Spec/JsonFull.lean)
  `decodeRes D`               `json.Unmarshal(bytes, &resourceSkeleton{})` (Model/Decode.lean)
  `unmarshalResourceBytes`    `UnmarshalResource(bytes, schema)` from BYTES

1. strings: `unquote (renderStrBody s) = s` for every valid UTF-8 `s` - every escape
   `appendString` writes (the two-character escapes, backslash-u-00XX for control bytes and for
   `<` `>` `&`, U+2028 / U+2029) and every well-formed multi-byte sequence
   (`C01B_unquote_render`); hence `parseJsonFull (render t) = some t` for every tree whose strings
   are valid UTF-8 (`C01B_parse_render`: the FULL form of `C05B_render_roundtrip_partial`).
2. `decode_render_skeleton`: for every tree of the shape `marshalResource` produces
   (`ResTreeShape`, decidable; proved of every output: `C01B_shape`), decoding the rendered bytes
   gives - through the explicit conversion `ResSke.abstr`, which the library cannot observe
   (`C01B_abstr_invisible`) - exactly `Spec.skeletonOf (codecsOf D …) t`, field by field.
3. `C01B_roundtrip_bytes` (+ `_soft`, `_wrapped`): the statement of `C01_roundtrip` with
   `unmarshalResourceBytes D σ (marshalResource …).render`.

Parameters. `D : Delegated` as in Props/C05B, constrained by `DelegatedOk D TimeOk`:
`D.decTime` (json.Unmarshal of the raw text of a value into a time.Time) inverts
time.Time.MarshalJSON on `TimeOk` - C01's codec law, now on the rendered literal - and rejects
every text that is neither a string literal nor `null` (time.Time.UnmarshalJSON: "input is not
a JSON string"). `D.numCanon` is unconstrained (a resource object written by `marshalResource`
has no `meta`). base64 is no longer a parameter: `goB64`, the decoder of Model/Decode.lean,
inverts the model's encoder (`RtbL.goB64_b64enc`). `C01B_realD` instantiates `D.decTime` with the
RFC 3339 reader of Spec/Codec.lean on `Spec.TimeDom`.

Domain: C01's, plus the decidable `ResView.utf8Ok r prepath` (ID, type name, path prefix,
attribute / relationship names, target types, string values and relationship IDs are valid
UTF-8 - "every ID string (valid UTF-8)", "strings code point for code point" of the property
text; Go writes U+FFFD for anything else, and the resource would not come back).
Not covered: resource-level `meta` (`rmeta ≠ []`; `UnmarshalResource` does not read it) and
documents (C02 stays on the tree).
-/
import Jsonapi.Props.C01
import Jsonapi.Props.Bridge
import Jsonapi.Props.C05B
import Jsonapi.Proofs.RoundTripBytesLemmas
namespace Jsonapi
open GoMap Spec FullL RtbL

/-! ### 1. What the reader makes of what the renderer wrote -/

/-- Go's `unquote` inverts Go's `appendString` (HTML escaping on) on every valid UTF-8 string. -/
theorem C01B_unquote_render (s : GoString) (h : utf8Valid s = true) :
    unquote (renderStrBody s) = s :=
  unquote_render s h

/-- The full reader parses what the renderer writes, for EVERY tree whose strings (keys
included) are valid UTF-8, whose numbers match the JSON grammar and that is nested at most
10000 deep: the tree itself comes back, and the concrete syntax is `FullL.toC t`. -/
theorem C01B_parse_render (t : Json) (hn : t.numsOk = true) (hd : depth t ≤ maxDepth)
    (hu : strsAll utf8Valid t = true) :
    parseJsonFull t.render = some t ∧ parseJsonC t.render = some (toC t) ∧
      parseJsonFull t.render = Spec.parseJson t.render := by
  obtain ⟨h1, h2⟩ := C05B_render_roundtrip t hn hd
  rw [mapStr_unquote_id t hu] at h2
  exact ⟨h2, parseJsonC_render t hn hd, h2.trans h1.symm⟩

/-! ### 2. The decoded skeleton is the one `Spec.skeletonOf` reads off the tree -/

/-- The conversion `RawVal.abstr` / `ResSke.abstr` (the `bytes` of a string value: literal as
written ↦ quote-content-quote; the never-consulted time decode of `null`) cannot be observed by
the library: `Attr.UnmarshalToType` and `UnmarshalResource` return the same on both, for EVERY
raw value and skeleton. -/
theorem C01B_abstr_invisible (σ : SSchema) (a : Attr) (r : RawVal) (sk : ResSke) :
    unmarshalToType a r.abstr = unmarshalToType a r ∧
    unmarshalResource σ sk.abstr = unmarshalResource σ sk ∧
    sk.abstr.id = sk.id ∧ sk.abstr.typ = sk.typ ∧ sk.abstr.rels = sk.rels ∧
    sk.abstr.smeta = sk.smeta ∧ sk.abstr.attrs.keys = sk.attrs.keys ∧
    r.abstr.decStr = r.decStr ∧ r.abstr.decBytes = r.decBytes ∧
    (r.bytes ≠ sNull → r.abstr.decTime = r.decTime) ∧ r.abstr.bytes.head? = r.bytes.head? := by
  refine ⟨toType_abstr a r, unmarshalResource_abstr σ sk, rfl, rfl, rfl, rfl, ?_, ?_, ?_, ?_, ?_⟩
  · simp [ResSke.abstr, keys, List.map_map]
  · unfold RawVal.abstr; split
    · rfl
    · split <;> rfl
  · unfold RawVal.abstr; split
    · rfl
    · split <;> rfl
  · intro h; unfold RawVal.abstr; rw [if_neg h]; split <;> rfl
  · unfold RawVal.abstr; split
    · rfl
    · split
      · rename_i hh _; rw [hh]; rfl
      · rfl

/-- **decode ∘ parse ∘ render = skeletonOf.** For every tree of the shape of a marshaled
resource object whose numbers are JSON numbers and whose strings are valid UTF-8, reading the
rendered bytes with `encoding/json`'s grammar and decoding them into `resourceSkeleton` gives
the skeleton the tree-level theorems start from: id, type, every value of `attributes` (the
three decodes `decStr` / `decTime` / `decBytes` and the first byte), every relationship
(`present`, `isNull`, the Identifier / Identifiers decodes of `data`; `links` and `meta` are
checked and dropped), and no meta. -/
theorem decode_render_skeleton (D : Delegated) (TimeOk : Time → Prop) (hD : DelegatedOk D TimeOk)
    (t : Json) (hs : ResTreeShape t = true) (hn : t.numsOk = true)
    (hu : strsAll utf8Valid t = true) (hd : depth t ≤ maxDepth) :
    ((parseJsonC t.render).bind (decodeRes D)).map ResSke.abstr =
      some (Spec.skeletonOf (codecsOf D TimeOk hD) t) := by
  obtain ⟨sk, h1, h2⟩ := decodeRes_toC D TimeOk hD t hs hn hu
  rw [parseJsonC_render t hn hd, Option.bind_some, h1, Option.map_some, h2]

/-- Every resource object `marshalResource` writes (resource-level meta empty) has the shape,
JSON numbers, depth at most 10000, and - when the resource's strings are valid UTF-8 - only
valid UTF-8 strings. -/
theorem C01B_shape (r : ResView) (hr : r.keyedWf) (prepath : GoString) (fields : List GoString)
    (relData : GoMap (List GoString)) (t : Json) (r' : ResView)
    (hm : marshalResource r prepath fields relData = .ok (t, r')) :
    t = Spec.resourceObject r prepath fields relData ∧
    ResTreeShape t = true ∧ t.numsOk = true ∧ depth t ≤ maxDepth ∧
    (r.utf8Ok prepath = true → strsAll utf8Valid t = true) := by
  obtain ⟨r'', h, -⟩ := C04_resource r hr prepath fields relData []
  rw [h] at hm
  cases hm
  exact ⟨rfl, resourceObject_shape hr prepath fields relData,
    MJsonL.resourceObject_numsOk r prepath fields relData [] rfl,
    resourceObject_depth r prepath fields relData,
    resourceObject_strs r prepath fields relData⟩

/-- `UnmarshalResource` from the rendered BYTES of a marshaled resource is `UnmarshalResource`
from `Spec.skeletonOf` of the tree. -/
theorem C01B_bytes_eq_tree (D : Delegated) (TimeOk : Time → Prop) (hD : DelegatedOk D TimeOk)
    (σ : SSchema) (r : ResView) (hr : r.keyedWf) (prepath : GoString) (fields : List GoString)
    (relData : GoMap (List GoString)) (hu : r.utf8Ok prepath = true) (t : Json) (r' : ResView)
    (hm : marshalResource r prepath fields relData = .ok (t, r')) :
    unmarshalResourceBytes D σ t.render =
      unmarshalResource σ (Spec.skeletonOf (codecsOf D TimeOk hD) t) := by
  obtain ⟨-, hs, hn, hd, hv⟩ := C01B_shape r hr prepath fields relData t r' hm
  obtain ⟨sk, h1, h2⟩ := decodeRes_toC D TimeOk hD t hs hn (hv hu)
  unfold unmarshalResourceBytes
  rw [parseJsonC_render t hn hd]
  simp only [h1]
  rw [← h2, unmarshalResource_abstr]

/-! ### 3. C01 from the bytes -/

/-- **C01 through the bytes.** The statement of `C01_roundtrip` / `C01_roundtrip_model` with
the bytes in the middle: the model's `MarshalResource` succeeds on the resource with all fields
and all relationship data selected, and `UnmarshalResource` of the BYTES `encoding/json` writes
for its result gives a resource with the same type name, ID and, field by field, the same
value. -/
theorem C01B_roundtrip_bytes (D : Delegated) (TimeOk : Time → Prop) (hD : DelegatedOk D TimeOk)
    (σ : SSchema) (hσ : σ.WF) (st : SType) (hst : st ∈ σ)
    (r : ResView) (hr : r.keyedWf) (htn : r.typeName = st.typ.name)
    (hattrs : ∀ key a, r.attrs.get? key = some a ↔ st.typ.attrs.get? key = some a)
    (hrels : ∀ key, (r.rels.get? key).map Spec.relCore = (st.typ.rels.get? key).map Spec.relCore)
    (hdom : ∀ key ∈ r.attrs.keys, Spec.codecDom (codecsOf D TimeOk hD) (r.get key))
    (prepath : GoString) (hu : r.utf8Ok prepath = true) :
    ∃ t r', marshalResource r prepath (Spec.allFields r) [(r.typeName, r.rels.keys)] = .ok (t, r') ∧
      ∃ res v', unmarshalResourceBytes D σ t.render = .ok res ∧ res.view? = some v' ∧
        v'.typeName = r.typeName ∧ v'.id = r.id ∧
        (∀ f ∈ Spec.allFields r, Spec.sameVal (v'.get f) (r.get f)) := by
  obtain ⟨t, r', hm, res, v', h⟩ :=
    C01_roundtrip_model (codecsOf D TimeOk hD) σ hσ st hst r hr htn hattrs hrels hdom prepath
  refine ⟨t, r', hm, res, v', ?_⟩
  rw [C01B_bytes_eq_tree D TimeOk hD σ r hr prepath _ _ hu t r' hm]
  exact h

/-- … for a soft resource built by the library (`Bridge.C01_roundtrip_soft`). -/
theorem C01B_roundtrip_bytes_soft (D : Delegated) (TimeOk : Time → Prop) (hD : DelegatedOk D TimeOk)
    (σ : SSchema) (hσ : σ.WF) (st : SType) (hst : st ∈ σ)
    (s : Soft) (hty : s.typ = st.typ) (hwt : s.WT)
    (hdom : ∀ key ∈ s.typ.attrs.keys, Spec.codecDom (codecsOf D TimeOk hD) (s.get key))
    (prepath : GoString) (hu : s.view.utf8Ok prepath = true) :
    ∃ t r', marshalResource s.view prepath (s.typ.attrs.keys ++ s.typ.rels.keys)
        [(s.typ.name, s.typ.rels.keys)] = .ok (t, r') ∧
      ∃ res v', unmarshalResourceBytes D σ t.render = .ok res ∧ res.view? = some v' ∧
        v'.typeName = s.typ.name ∧ v'.id = s.id ∧
        (∀ f ∈ s.typ.attrs.keys ++ s.typ.rels.keys, Spec.sameVal (v'.get f) (s.get f)) := by
  obtain ⟨_, ht, hn, _⟩ := hσ.2 st hst
  rw [← hty] at ht hn
  have hk := Soft_view_keyedWf s (SoftGood_of_wf s ht hn hwt)
  obtain ⟨t, r', hm, res, v', h⟩ :=
    C01_roundtrip_soft (codecsOf D TimeOk hD) σ hσ st hst s hty hwt hdom prepath
  refine ⟨t, r', hm, res, v', ?_⟩
  rw [C01B_bytes_eq_tree D TimeOk hD σ s.view hk prepath _ _ hu t r' hm]
  exact h

/-- … for a wrapped struct (`Bridge.C01_roundtrip_wrapped`). -/
theorem C01B_roundtrip_bytes_wrapped (D : Delegated) (TimeOk : Time → Prop)
    (hD : DelegatedOk D TimeOk) (σ : SSchema) (hσ : σ.WF) (st : SType) (hst : st ∈ σ)
    (d : StructDecl) (hd : checkStruct d = true) (hs : SingleID d) (hb : buildType d = .ok st.typ)
    (vals : List GoVal) (w : Wrapped) (hw : wrap d vals = .ok w) (hwt : w.WT)
    (hdom : ∀ key ∈ w.attrs.keys, ∀ x, w.get key = .ok x → Spec.codecDom (codecsOf D TimeOk hD) x)
    (prepath : GoString) (hu : ∀ v, w.view = some v → v.utf8Ok prepath = true) :
    ∃ v, w.view = some v ∧
    ∃ t r', marshalResource v prepath (w.attrs.keys ++ w.rels.keys) [(w.typ, w.rels.keys)] = .ok (t, r') ∧
      ∃ res v', unmarshalResourceBytes D σ t.render = .ok res ∧ res.view? = some v' ∧
        v'.typeName = w.typ ∧ v'.id = w.getID ∧
        (∀ f ∈ w.attrs.keys ++ w.rels.keys, ∃ x, w.get f = .ok x ∧ Spec.sameVal (v'.get f) x) := by
  obtain ⟨v0, hv0, -, -, -, -, -, -, hkw, -⟩ := Wrapped_view_ok d hd hs vals w hw hwt
  obtain ⟨v, hv, t, r', hm, res, v', h⟩ :=
    C01_roundtrip_wrapped (codecsOf D TimeOk hD) σ hσ st hst d hd hs hb vals w hw hwt hdom prepath
  have e : v = v0 := by rw [hv] at hv0; cases hv0; rfl
  subst e
  refine ⟨v, hv, t, r', hm, res, v', ?_⟩
  rw [C01B_bytes_eq_tree D TimeOk hD σ v hkw prepath _ _ (hu v hv) t r' hm]
  exact h

/-! ### Non-vacuity -/

/-- "é", a quote, the control byte 01, `<`, U+2028, U+1F600, a backslash, a line feed -/
def C01B_exStr : GoString :=
  [0xC3, 0xA9, 34, 1, 60, 0xE2, 0x80, 0xA8, 0xF0, 0x9F, 0x98, 0x80, 92, 10]

set_option maxRecDepth 20000 in
/-- the string is valid UTF-8; it is written as `é\"\u0001< 😀\\\n`; Go's `unquote`
gives it back; a lone continuation byte is not valid UTF-8 and does NOT come back (Go reads
U+FFFD): the hypothesis of `C01B_unquote_render` is needed -/
example :
    utf8Valid C01B_exStr = true ∧
    renderStrBody C01B_exStr =
      [0xC3, 0xA9, 92, 34, 92, 117, 48, 48, 48, 49, 92, 117, 48, 48, 51, 99,
       92, 117, 50, 48, 50, 56, 0xF0, 0x9F, 0x98, 0x80, 92, 92, 92, 110] ∧
    unquote (renderStrBody C01B_exStr) = C01B_exStr ∧
    utf8Valid [0x80] = false ∧ unquote (renderStrBody [0x80]) = [0xEF, 0xBF, 0xBD] := by decide

example := C01B_unquote_render C01B_exStr (by decide)

/-- a tree with that string as a key and as a value, a number and a nested array -/
def C01B_exTree : Json :=
  .obj [(C01B_exStr, .arr [.str C01B_exStr, .num [45, 49], .null]), ([97], .bool true)]

example : parseJsonFull C01B_exTree.render = some C01B_exTree :=
  (C01B_parse_render C01B_exTree (by decide) (by decide) (by decide)).1

/-- A delegated decoder satisfying `DelegatedOk`: it knows the literal of one instant `t0`
(as `RtL.codecsFor`); `TimeOk` is "is `t0`". The constraint is satisfiable. -/
def C01B_exD (t0 : Time) : Delegated :=
  { decTime := fun raw => if raw = renderStr (formatTime t0) then some t0 else none
    numCanon := fun l => some l }

theorem C01B_exD_ok (t0 : Time) : DelegatedOk (C01B_exD t0) (fun t => t = t0) := by
  constructor
  · intro t h; subst h; simp [C01B_exD]
  · intro raw h _
    have : raw ≠ renderStr (formatTime t0) := by
      intro e; rw [e] at h; exact h rfl
    simp [C01B_exD, this]

/-- `DelegatedOk` with the RFC 3339 reader of Spec/Codec.lean on the text between the quotes,
`TimeOk` = `Spec.TimeDom` (C01's `realCodecs`): what time.Time.UnmarshalJSON does on the
literals time.Time.MarshalJSON writes. -/
def C01B_realD : Delegated :=
  { decTime := fun raw =>
      match raw with
      | 34 :: rest => if rest.getLast? = some 34 then Spec.parseRFC3339 rest.dropLast else none
      | _ => none
    numCanon := fun l => some l }

theorem C01B_plain_of_ascii_time (t : Time) : (formatTime t).all FullL.plainByte = true := by
  rw [List.all_eq_true]
  intro c hc
  have hd : ∀ w n, ∀ c ∈ pad w n, FullL.plainByte c = true := by
    intro w n c hc
    simp only [pad, List.mem_append, List.mem_replicate] at hc
    rcases hc with ⟨_, rfl⟩ | hc
    · decide
    · have h := List.all_eq_true.1 (RtL.printNat_all_digit n) c hc
      simp only [isDigit, Bool.and_eq_true, decide_eq_true_eq] at h
      have h1 := UInt8.le_iff_toNat_le.mp h.1
      have h2 := UInt8.le_iff_toNat_le.mp h.2
      have e1 : (48 : UInt8).toNat = 48 := rfl
      have e2 : (57 : UInt8).toNat = 57 := rfl
      have : c.toNat ∈ [48, 49, 50, 51, 52, 53, 54, 55, 56, 57] := by
        simp only [List.mem_cons, List.not_mem_nil, or_false]; omega
      have hc' : c = UInt8.ofNat c.toNat := by simp
      simp only [List.mem_cons, List.not_mem_nil, or_false] at this
      rcases this with e | e | e | e | e | e | e | e | e | e <;> (rw [hc', e]; decide)
  have hf : ∀ c ∈ fracText t.nsec, FullL.plainByte c = true := by
    intro c hc
    unfold fracText at hc
    split at hc
    · cases hc
    · simp only [List.mem_cons, List.mem_reverse] at hc
      rcases hc with rfl | hc
      · decide
      · exact hd 9 _ c (List.mem_reverse.1 ((List.dropWhile_sublist _).subset hc))
  have hz : ∀ c ∈ zoneText t.off, FullL.plainByte c = true := by
    intro c hc
    unfold zoneText at hc
    split at hc
    · simp only [List.mem_singleton] at hc; subst hc; decide
    · simp only [List.mem_cons, List.mem_append, List.not_mem_nil, or_false] at hc
      rcases hc with rfl | (hc | rfl) | hc
      · split <;> decide
      · exact hd _ _ c hc
      · decide
      · exact hd _ _ c hc
  simp only [formatTime, List.mem_append, List.mem_singleton] at hc
  rcases hc with (((((((((((((hc | rfl) | hc) | rfl) | hc) | rfl) | hc) | rfl) | hc) | rfl) | hc) | hc) | hc)) <;>
    first
    | exact hd _ _ c hc
    | exact hf c hc
    | exact hz c hc
    | decide

theorem C01B_realD_ok : DelegatedOk C01B_realD Spec.TimeDom := by
  constructor
  · intro t h
    have e : renderStr (formatTime t) = 34 :: (formatTime t ++ [34]) := by
      rw [renderStr, FullL.renderStrBody_plain _ (C01B_plain_of_ascii_time t)]
    rw [e]
    simp only [C01B_realD, List.getLast?_append, List.getLast?_singleton, List.dropLast_concat]
    exact RtL.parseRFC3339_formatTime t h
  · intro raw h _
    cases raw with
    | nil => rfl
    | cons c r =>
      have : c ≠ 34 := by intro e; subst e; exact h rfl
      simp only [C01B_realD]
      split
      · rename_i e; cases e; exact absurd rfl this
      · rfl

/-- a resource of `C01_exT` whose nullable string attribute "s" holds `C01B_exStr` and whose
ID is "é" -/
def C01B_exR (tn : GoString) : ResView :=
  { C01_exR tn with
    id := [0xC3, 0xA9]
    vals := [([97], .val .int8 (.i (-128))), ([115], .ptr .string (some (.s C01B_exStr))),
             ([117], .val .uint64 (.i 18446744073709551615)), ([98], .val .bytes (.bs none)),
             ([102], .ptr .bool (some (.b true))),
             ([111], .val .string (.s [107])), ([109], .strs [[50], [0xC3, 0xA9]])] }

theorem C01B_exR_dom (c : Spec.Codecs) (st : SType) (h : st.typ = C01_exT ∨ st.typ = C01_exW) :
    RtL.ResDom c st (C01B_exR st.typ.name) := by
  have ha : st.typ.attrs = C01_exT.attrs := by rcases h with h | h <;> rw [h] <;> rfl
  have hr : st.typ.rels = C01_exT.rels := by rcases h with h | h <;> rw [h] <;> rfl
  refine ⟨?_, rfl, ?_, ?_, ?_⟩
  · rcases h with h | h <;> rw [h] <;> decide
  · intro key a; rw [ha]; exact Iff.rfl
  · intro key; rw [hr]; rfl
  · intro key hk
    have hk' : key ∈ [[97], [115], [117], [98], [102]] := hk
    simp only [List.mem_cons, List.not_mem_nil, or_false] at hk'
    rcases hk' with rfl | rfl | rfl | rfl | rfl <;>
      simp [Spec.codecDom, C01B_exR, C01_exR, ResView.get, GoMap.get?]

/-- The hypotheses of `C01B_roundtrip_bytes` are satisfiable, for the soft and for the
struct-backed type and for every delegated decoder meeting `DelegatedOk`: the string with the
quote, the control byte, `<`, U+2028 and the multi-byte characters comes back from the BYTES. -/
example (D : Delegated) (TimeOk : Time → Prop) (hD : DelegatedOk D TimeOk) (st : SType)
    (hst : st ∈ C01_exσ) :
    ∃ t r', marshalResource (C01B_exR st.typ.name) [47] (Spec.allFields (C01B_exR st.typ.name))
        [(st.typ.name, C01_exT.rels.keys)] = .ok (t, r') ∧
      ∃ res v', unmarshalResourceBytes D C01_exσ t.render = .ok res ∧ res.view? = some v' ∧
        v'.id = [0xC3, 0xA9] ∧
        Spec.sameVal (v'.get [115]) (.ptr .string (some (.s C01B_exStr))) := by
  have hd : RtL.ResDom (codecsOf D TimeOk hD) st (C01B_exR st.typ.name) := by
    apply C01B_exR_dom
    simp only [C01_exσ, List.mem_cons, List.not_mem_nil, or_false] at hst
    rcases hst with rfl | rfl
    · exact .inl rfl
    · exact .inr rfl
  have hu : (C01B_exR st.typ.name).utf8Ok [47] = true := by
    simp only [C01_exσ, List.mem_cons, List.not_mem_nil, or_false] at hst
    rcases hst with rfl | rfl <;> decide
  obtain ⟨t, r', hm, res, v', h1, h2, -, h4, h5⟩ := C01B_roundtrip_bytes D TimeOk hD C01_exσ
    C01_exσ_wf st hst (C01B_exR st.typ.name) hd.keyed hd.tname hd.attrs hd.rels hd.dom [47] hu
  exact ⟨t, r', hm, res, v', h1, h2, h4,
    h5 [115] (by simp [Spec.allFields, C01B_exR, C01_exR, C01_exT, GoMap.keys])⟩

/-- a resource object of type "t" as `marshalResource` writes it (members sorted), with the
string in `attributes.s`, the ID "é" and the to-one relationship "o" -> ("k", "x") -/
def C01B_exObj : Json :=
  .obj [(K.attributes, .obj [([97], .num [45, 49, 50, 56]), ([115], .str C01B_exStr)]),
        (K.id, .str [0xC3, 0xA9]),
        (K.links, .obj [(K.self, .str [47, 116, 47, 0xC3, 0xA9])]),
        (K.relationships, .obj [([111], .obj [(K.data, identifierJson [107] [120]),
          (K.links, .obj [])])]),
        (K.type, .str [116])]

set_option maxRecDepth 40000 in
/-- Computed: the object has the shape; `UnmarshalResource` of its rendered BYTES returns the
string, the ID and the relationship unchanged; the skeleton decoded from the bytes carries the
string's literal as written (escapes included) and, through `ResSke.abstr`, the
quote-content-quote form of `Spec.rawOf`. -/
example :
    ResTreeShape C01B_exObj = true ∧ strsAll utf8Valid C01B_exObj = true ∧
    (match unmarshalResourceBytes C05B_exD C01_exσ C01B_exObj.render with
      | .ok (.soft s) =>
        s.get [115] == .ptr .string (some (.s C01B_exStr)) && s.id == [0xC3, 0xA9] &&
        s.get [111] == .val .string (.s [107]) && s.get [97] == .val .int8 (.i (-128))
      | _ => false) = true ∧
    ((parseJsonC C01B_exObj.render).bind (decodeRes C05B_exD)).map
        (fun sk => (sk.attrs.map (fun p => p.2.bytes), sk.abstr.attrs.map (fun p => p.2.bytes))) =
      some ([[45, 49, 50, 56], 34 :: (renderStrBody C01B_exStr ++ [34])],
            [[45, 49, 50, 56], 34 :: (C01B_exStr ++ [34])]) := by decide

/-- `decode_render_skeleton` applies to the object (shape, numbers, UTF-8 and depth by
evaluation), with a decoder meeting `DelegatedOk`. -/
example := decode_render_skeleton (C01B_exD default) _ (C01B_exD_ok default) C01B_exObj
  (by decide) (by decide) (by decide) (by decide)

/-- `C01B_shape` and `C01B_bytes_eq_tree` apply to what the model's `marshalResource` writes for
the resource with the escape-worthy string. -/
example (D : Delegated) (TimeOk : Time → Prop) (hD : DelegatedOk D TimeOk) :
    ∃ t r', marshalResource (C01B_exR [116]) [47] (Spec.allFields (C01B_exR [116]))
        [([116], C01_exT.rels.keys)] = .ok (t, r') ∧
      ResTreeShape t = true ∧ t.numsOk = true ∧ strsAll utf8Valid t = true ∧
      unmarshalResourceBytes D C01_exσ t.render =
        unmarshalResource C01_exσ (Spec.skeletonOf (codecsOf D TimeOk hD) t) := by
  have hk : (C01B_exR [116]).keyedWf := by decide
  have hu : (C01B_exR [116]).utf8Ok [47] = true := by decide
  obtain ⟨r', hm, -⟩ := C04_resource (C01B_exR [116]) hk [47] (Spec.allFields (C01B_exR [116]))
    [([116], C01_exT.rels.keys)] []
  obtain ⟨-, h1, h2, -, h4⟩ := C01B_shape _ hk _ _ _ _ _ hm
  exact ⟨_, r', hm, h1, h2, h4 hu, C01B_bytes_eq_tree D TimeOk hD C01_exσ _ hk _ _ _ hu _ _ hm⟩

/-- a soft resource of `C01_exT` holding the values of `C01B_exR`, ID "é" -/
def C01B_exS : Soft := { typ := C01_exT, id := [0xC3, 0xA9], data := (C01B_exR [116]).vals }

/-- `C01B_roundtrip_bytes_soft` applies to it, with every delegated decoder meeting
`DelegatedOk`. -/
example (D : Delegated) (TimeOk : Time → Prop) (hD : DelegatedOk D TimeOk) :=
  C01B_roundtrip_bytes_soft D TimeOk hD C01_exσ C01_exσ_wf { typ := C01_exT, backed := false }
    (List.Mem.head _) C01B_exS rfl (by decide)
    (fun key hk => codecDom_of_noTime _ _ (by
      have : ∀ key ∈ C01B_exS.typ.attrs.keys,
          (match C01B_exS.get key with
            | .val _ (.t _) => false | .ptr _ (some (.t _)) => false | _ => true) = true := by decide
      exact this key hk)) [47] (by decide)

/-- `C01B_roundtrip_bytes_wrapped` applies to the freshly created Article of Props/Bridge.lean. -/
example (D : Delegated) (TimeOk : Time → Prop) (hD : DelegatedOk D TimeOk) :
    ∃ w, wrap exampleDecl (Wrapped.zeroVals exampleDecl) = .ok w ∧
    ∃ v, w.view = some v ∧ ∃ t r', marshalResource v [47] (w.attrs.keys ++ w.rels.keys)
        [(w.typ, w.rels.keys)] = .ok (t, r') ∧
      ∃ res v', unmarshalResourceBytes D Bridge_exσ t.render = .ok res ∧
        res.view? = some v' ∧ v'.typeName = w.typ := by
  obtain ⟨w, hw, hwt⟩ := C20_zero_WT exampleDecl (by decide)
  have hs : SingleID exampleDecl := by unfold SingleID; decide
  have ew := eq_mkW_of_wrap (by decide) hw
  obtain ⟨v, hv, t, r', hm, res, v', h1, h2, h3, _⟩ :=
    C01B_roundtrip_bytes_wrapped D TimeOk hD Bridge_exσ Bridge_exσ_wf
      { typ := Bridge_exArticle, backed := true }
      (List.Mem.head _) exampleDecl (by decide) hs (by decide) _ w hw hwt
      (by
        subst ew
        intro key hk x hx
        apply codecDom_of_noTime
        have : ∀ key ∈ (mkW exampleDecl (Wrapped.zeroVals exampleDecl)).attrs.keys,
            (match (mkW exampleDecl (Wrapped.zeroVals exampleDecl)).get key with
              | .ok (.val _ (.t _)) => false | .ok (.ptr _ (some (.t _))) => false | _ => true) = true := by
          decide
        have := this key hk
        rw [hx] at this
        revert this
        cases x with
        | val k p => cases p <;> simp
        | ptr k o =>
          cases o with
          | none => simp
          | some p => cases p <;> simp
        | _ => simp)
      [47]
      (by
        subst ew
        intro v hv
        have : (match (mkW exampleDecl (Wrapped.zeroVals exampleDecl)).view with
          | some v => v.asciiOk [47]
          | none => true) = true := by decide
        rw [hv] at this
        exact utf8Ok_of_ascii v [47] this)
  exact ⟨w, hw, v, hv, t, r', hm, res, v', h1, h2, h3⟩

end Jsonapi

section Axioms
open Jsonapi
#print axioms C01B_unquote_render
#print axioms C01B_parse_render
#print axioms C01B_abstr_invisible
#print axioms decode_render_skeleton
#print axioms C01B_shape
#print axioms C01B_bytes_eq_tree
#print axioms C01B_roundtrip_bytes
#print axioms C01B_roundtrip_bytes_soft
#print axioms C01B_roundtrip_bytes_wrapped
#print axioms C01B_exD_ok
#print axioms C01B_realD_ok
#print axioms C01B_exR_dom
#print axioms RtbL.unquote_render
#print axioms RtbL.goB64_b64enc
#print axioms RtbL.decodeRes_toC
end Axioms
