/-
C02B — C02 through the BYTES (audit finding 2 of DESIGN §14, for DOCUMENTS).

`Props/C02.lean` proves the document round trip from the marshaled TREE: `unmarshalDocument σ
(some (Spec.docSkeletonOf c t))`, where `Spec.docSkeletonOf` is a definition standing for "what
encoding/json decodes from the bytes of `t` into `payloadSkeleton`". Here the byte-level halves
are connected, as `Props/C01B.lean` does for one resource object:

  `Json.render`               the bytes `encoding/json` writes for the tree
  `Spec.parseJsonC`           the full-grammar reader of `encoding/json`
  `decodeDoc D`               `json.Unmarshal(bytes, &payloadSkeleton{})` and the decodes
                              `UnmarshalDocument` makes of `data` / `included` (Model/Decode.lean)
  `unmarshalDocumentBytes`    `UnmarshalDocument(bytes, schema)` from BYTES

1. `docDecode_render_skeleton`: for every tree of the shape `marshalDocument` produces
   (`DocTreeShape D.numCanon`, decidable; proved of every output: `C02B_shape`), decoding the
   rendered bytes gives - through the explicit conversion `DocSke.abstr` (= `ResSke.abstr` on
   every resource skeleton inside `data` and `included`), which `UnmarshalDocument` cannot observe
   (`C02B_abstr_invisible`) - exactly `Spec.docSkeletonOf (codecsOf D …) t`: the kind of `data`
   and its resource skeletons, the `included` entries, the error objects (every member; the
   `[]Error` slice with its backing array and `reflect`'s growth), the top-level meta.
2. `C02B_bytes_eq_tree`, `C02B_roundtrip_bytes`, `C02B_data_kind_bytes`, `C02B_included_bytes`,
   `C02B_errors_bytes`, `C02B_meta_bytes`: the statements of `C02_roundtrip_model` /
   `C02_data_kind` / `C02_included` / `C02_errors_model` / `C02_meta` with
   `unmarshalDocumentBytes D σ (marshalDocument …).render`.

Parameters: `D : Delegated`; `D.decTime` constrained by `DelegatedOk D TimeOk` as in C01B;
`D.numCanon` (the text Go prints for the float64 of a number literal inside `meta` / an error's
`source`) enters through `Document.metaCanon D.numCanon doc`, below.
Domain: C02's, plus (all decidable)
* `Document.utf8Ok doc selfHref`: every resource, the identifiers of an identifier document, the
  strings of the `links` member, of the top-level meta and of the error objects are valid UTF-8;
* `doc.numsOk`: number literals inside the caller's meta values are JSON numbers (C03's);
* `Document.depthOk doc selfHref`: `links`, `meta` and the error objects are nested less than
  10000 deep (encoding/json's limit);
* `Document.metaCanon D.numCanon doc`: the top-level meta and every error's `source` / `meta` are
  CANONICAL: object keys strictly ascending at every level (the model lists a Go map; this is
  the order `json.Marshal` writes and the decoder's map is listed in) and every number literal
  is a fixed point of `D.numCanon` (`1` is, `1.0` and `1e2` are not: they come back as `1`,
  `100` - "JSON-equal" in the property text, not the same text; C02's tree-level `d.dmeta =
  doc.dmeta` does not see this because `Spec.docSkeletonOf` copies the members);
* `Document.errLinksOk doc`: an error's `links` map has distinct keys (it is a Go map).
Top-level `links` of the document: written, parsed and skipped by the decoder (`payloadSkeleton`
has no `links` field); any link objects are allowed on the marshaling side.
-/
import Jsonapi.Props.C02
import Jsonapi.Props.C01B
import Jsonapi.Proofs.DocBytesLemmas
namespace Jsonapi
open GoMap Spec FullL RtbL DocbL MarshalL RtL

/-! ### 1. The decoded payload skeleton is the one `Spec.docSkeletonOf` reads off the tree -/

/-- The conversion `DocSke.abstr` cannot be observed by `UnmarshalDocument`, for EVERY payload
skeleton; it changes nothing but the resource skeletons (through `ResSke.abstr`). -/
theorem C02B_abstr_invisible (σ : SSchema) (d : DocSke) :
    unmarshalDocument σ (some d.abstr) = unmarshalDocument σ (some d) ∧
    d.abstr.errors = d.errors ∧ d.abstr.dmeta = d.dmeta ∧
    d.abstr.included.map (·.1) = d.included.map (·.1) := by
  refine ⟨unmarshalDocument_abstr σ d, rfl, rfl, ?_⟩
  simp [DocSke.abstr, List.map_map, Function.comp_def]

/-- **decode ∘ parse ∘ render = docSkeletonOf.** For every tree of the shape of a marshaled
document whose numbers are JSON numbers and whose strings are valid UTF-8, reading the rendered
bytes with `encoding/json`'s grammar and decoding them into `payloadSkeleton` gives the
skeleton the tree-level theorems of C02 start from: the kind of `data` (absent / null / one
object / an array) with the skeleton of every resource object, for every member of `included`
whether it decodes into an Identifier and its resource skeleton, the error objects and the
top-level meta. -/
theorem docDecode_render_skeleton (D : Delegated) (TimeOk : Time → Prop)
    (hD : DelegatedOk D TimeOk) (t : Json) (hs : DocTreeShape D.numCanon t = true) (hn : t.numsOk = true)
    (hu : strsAll utf8Valid t = true) (hd : depth t ≤ maxDepth) :
    ((parseJsonC t.render).bind (decodeDoc D)).map DocSke.abstr =
      some (Spec.docSkeletonOf (codecsOf D TimeOk hD) t) := by
  obtain ⟨d, h1, h2⟩ := decodeDoc_toC D TimeOk hD t hs hn hu
  rw [parseJsonC_render t hn hd, Option.bind_some, h1, Option.map_some, h2]

/-- `UnmarshalDocument` from the rendered BYTES of a tree of the shape is `UnmarshalDocument`
from `Spec.docSkeletonOf` of the tree. -/
theorem C02B_bytes_eq_tree_shape (D : Delegated) (TimeOk : Time → Prop)
    (hD : DelegatedOk D TimeOk) (σ : SSchema) (t : Json) (hs : DocTreeShape D.numCanon t = true)
    (hn : t.numsOk = true) (hu : strsAll utf8Valid t = true) (hd : depth t ≤ maxDepth) :
    unmarshalDocumentBytes D σ t.render =
      unmarshalDocument σ (some (Spec.docSkeletonOf (codecsOf D TimeOk hD) t)) := by
  obtain ⟨d, h1, h2⟩ := decodeDoc_toC D TimeOk hD t hs hn hu
  unfold unmarshalDocumentBytes
  rw [parseJsonC_render t hn hd]
  simp only [h1]
  rw [← h2, unmarshalDocument_abstr]

/-- Every document tree `marshalDocument` writes (resources in C04's domain, canonical meta,
distinct error link keys) is `Spec.documentTree`, has the shape, JSON numbers when the caller's
values have, depth at most 10000 when `links`, `meta` and the error objects are nested less deep
than that, and - when the document's strings are valid UTF-8 - only valid UTF-8 strings. -/
theorem C02B_shape (nc : GoString → Option GoString) (doc : Document)
    (hkw : ∀ r ∈ docResources doc, r.keyedWf)
    (hmc : doc.metaCanon nc = true) (hln : doc.errLinksOk = true) (fields : GoMap (List GoString))
    (selfHref : GoString) (t : Json) (doc' : Document)
    (hm : marshalDocument doc fields selfHref = .ok (t, doc')) :
    Spec.documentTree doc fields selfHref = some t ∧
    DocTreeShape nc t = true ∧ (doc.numsOk → t.numsOk = true) ∧
    (doc.depthOk selfHref = true → depth t ≤ maxDepth) ∧
    (doc.utf8Ok selfHref = true → strsAll utf8Valid t = true) := by
  have ht : Spec.documentTree doc fields selfHref = some t := by
    cases h : Spec.documentTree doc fields selfHref with
    | none =>
      rw [(C04_document doc hkw fields selfHref).1 h] at hm
      cases hm
    | some t' =>
      obtain ⟨d'', h2⟩ := (C04_document doc hkw fields selfHref).2 t' h
      rw [h2] at hm
      cases hm
      rfl
  obtain ⟨h1, h2, h3⟩ := documentTree_shape nc doc hkw hmc hln fields selfHref t ht
  exact ⟨ht, h1, fun hn => MJsonL.documentTree_numsOk hn ht, h2, h3⟩

/-- `UnmarshalDocument` from the rendered BYTES of a marshaled document is `UnmarshalDocument`
from `Spec.docSkeletonOf` of the tree. -/
theorem C02B_bytes_eq_tree (D : Delegated) (TimeOk : Time → Prop) (hD : DelegatedOk D TimeOk)
    (σ : SSchema) (doc : Document) (hkw : ∀ r ∈ docResources doc, r.keyedWf)
    (hmc : doc.metaCanon D.numCanon = true) (hln : doc.errLinksOk = true) (hn : doc.numsOk)
    (fields : GoMap (List GoString)) (selfHref : GoString)
    (hl : doc.depthOk selfHref = true) (hu : doc.utf8Ok selfHref = true)
    (t : Json) (doc' : Document) (hm : marshalDocument doc fields selfHref = .ok (t, doc')) :
    unmarshalDocumentBytes D σ t.render =
      unmarshalDocument σ (some (Spec.docSkeletonOf (codecsOf D TimeOk hD) t)) := by
  obtain ⟨-, hs, h1, h2, h3⟩ := C02B_shape D.numCanon doc hkw hmc hln fields selfHref t doc' hm
  exact C02B_bytes_eq_tree_shape D TimeOk hD σ t hs (h1 hn) (h3 hu) (h2 hl)

/-! ### 2. C02 from the bytes -/

/-- **C02 through the bytes** (data documents): the statement of `C02_roundtrip_model` with the
bytes in the middle. -/
theorem C02B_roundtrip_bytes (D : Delegated) (TimeOk : Time → Prop) (hD : DelegatedOk D TimeOk)
    (σ : SSchema) (hσ : σ.WF) (doc : Document)
    (hdom : DocDom (codecsOf D TimeOk hD) σ doc) (hr : doc.errors = []) (hdata : doc.data ≠ .other)
    (hmc : doc.metaCanon D.numCanon = true)
    (hn : doc.numsOk) (fields : GoMap (List GoString)) (selfHref : GoString)
    (hl : doc.depthOk selfHref = true) (hu : doc.utf8Ok selfHref = true) :
    ∃ t doc', marshalDocument doc fields selfHref = .ok (t, doc') ∧
      ∃ d, unmarshalDocumentBytes D σ t.render = .ok d ∧
        DataBack σ fields doc.relData doc.data d.data ∧
        Forall2 (ResBack σ fields doc.relData) (sortById doc.included) d.included ∧
        d.errors = [] ∧ d.dmeta = doc.dmeta := by
  have hkw : ∀ r ∈ docResources doc, r.keyedWf := by
    intro r hr'
    obtain ⟨st, -, hd⟩ := hdom.res r hr'
    exact hd.keyed
  obtain ⟨t, doc', hm, d, h⟩ :=
    C02_roundtrip_model (codecsOf D TimeOk hD) σ hσ doc hdom hr hdata fields selfHref
  refine ⟨t, doc', hm, d, ?_⟩
  rw [C02B_bytes_eq_tree D TimeOk hD σ doc hkw hmc (by simp [Document.errLinksOk, hr]) hn fields
    selfHref hl hu t doc' hm]
  exact h

/-- `C02_data_kind` from the bytes: the same kind of primary data. -/
theorem C02B_data_kind_bytes (D : Delegated) (TimeOk : Time → Prop) (hD : DelegatedOk D TimeOk)
    (σ : SSchema) (hσ : σ.WF) (doc : Document)
    (hdom : DocDom (codecsOf D TimeOk hD) σ doc) (hr : doc.errors = []) (hdata : doc.data ≠ .other)
    (hmc : doc.metaCanon D.numCanon = true)
    (hn : doc.numsOk) (fields : GoMap (List GoString)) (selfHref : GoString)
    (hl : doc.depthOk selfHref = true) (hu : doc.utf8Ok selfHref = true) :
    ∃ t doc', marshalDocument doc fields selfHref = .ok (t, doc') ∧
    ∃ d, unmarshalDocumentBytes D σ t.render = .ok d ∧ d.errors = [] ∧
      (doc.data = .none → d.data = .none) ∧
      (∀ r, doc.data = .res r → ∃ x, d.data = .res x ∧ ResBack σ fields doc.relData r x) ∧
      (∀ tn ms, doc.data = .col tn ms → ∃ xs, d.data = .col xs ∧ xs.length = ms.length ∧
        Forall2 (ResBack σ fields doc.relData) ms xs) ∧
      (∀ id typ, doc.data = .ident id typ → ∃ x, d.data = .res x ∧ IdentBack σ id typ x) ∧
      (∀ b l, doc.data = .idents b l → ∃ xs, d.data = .col xs ∧ xs.length = l.length ∧
        Forall2 (fun p x => IdentBack σ p.1 p.2 x) l xs) := by
  have hkw : ∀ r ∈ docResources doc, r.keyedWf := by
    intro r hr'
    obtain ⟨st, -, hd⟩ := hdom.res r hr'
    exact hd.keyed
  obtain ⟨t, doc', hm, -⟩ :=
    C02_roundtrip_model (codecsOf D TimeOk hD) σ hσ doc hdom hr hdata fields selfHref
  have hln : doc.errLinksOk = true := by simp [Document.errLinksOk, hr]
  obtain ⟨ht, -⟩ := C02B_shape D.numCanon doc hkw hmc hln fields selfHref t doc' hm
  obtain ⟨d, h⟩ := C02_data_kind (codecsOf D TimeOk hD) σ hσ doc hdom hr fields selfHref t ht
  refine ⟨t, doc', hm, d, ?_⟩
  rw [C02B_bytes_eq_tree D TimeOk hD σ doc hkw hmc (by simp [Document.errLinksOk, hr]) hn fields
    selfHref hl hu t doc' hm]
  exact h

/-- `C02_included` from the bytes: the included resources come back, in the order written. -/
theorem C02B_included_bytes (D : Delegated) (TimeOk : Time → Prop) (hD : DelegatedOk D TimeOk)
    (σ : SSchema) (hσ : σ.WF) (doc : Document)
    (hdom : DocDom (codecsOf D TimeOk hD) σ doc) (hr : doc.errors = []) (hdata : doc.data ≠ .other)
    (hmc : doc.metaCanon D.numCanon = true)
    (hn : doc.numsOk) (fields : GoMap (List GoString)) (selfHref : GoString)
    (hl : doc.depthOk selfHref = true) (hu : doc.utf8Ok selfHref = true) :
    ∃ t doc', marshalDocument doc fields selfHref = .ok (t, doc') ∧
    ∃ d, unmarshalDocumentBytes D σ t.render = .ok d ∧
      d.included.length = doc.included.length ∧
      Forall2 (ResBack σ fields doc.relData) (sortById doc.included) d.included := by
  obtain ⟨t, doc', hm, d, h1, -, h3, -, -⟩ :=
    C02B_roundtrip_bytes D TimeOk hD σ hσ doc hdom hr hdata hmc hn fields selfHref hl hu
  exact ⟨t, doc', hm, d, h1, by rw [← C02_forall2_length h3, (sortById_perm _).length_eq], h3⟩

/-- `C02_errors_model` from the bytes: a document carrying errors comes back from the BYTES with
the same error objects in the same order, without data and included resources, and with its meta. -/
theorem C02B_errors_bytes (D : Delegated) (TimeOk : Time → Prop) (hD : DelegatedOk D TimeOk)
    (σ : SSchema) (doc : Document) (hkw : ∀ r ∈ docResources doc, r.keyedWf)
    (hdata : doc.data ≠ .other) (he : doc.errors ≠ [])
    (hs : ∀ e ∈ doc.errors, Spec.linksSorted e) (hln : doc.errLinksOk = true)
    (hmc : doc.metaCanon D.numCanon = true)
    (hn : doc.numsOk) (fields : GoMap (List GoString)) (selfHref : GoString)
    (hl : doc.depthOk selfHref = true) (hu : doc.utf8Ok selfHref = true) :
    ∃ t doc', marshalDocument doc fields selfHref = .ok (t, doc') ∧
      unmarshalDocumentBytes D σ t.render =
        .ok { data := .none, included := [], errors := doc.errors, dmeta := doc.dmeta } := by
  obtain ⟨t, doc', hm, h⟩ :=
    C02_errors_model (codecsOf D TimeOk hD) σ doc hkw hdata fields selfHref he hs
  refine ⟨t, doc', hm, ?_⟩
  rw [C02B_bytes_eq_tree D TimeOk hD σ doc hkw hmc hln hn fields selfHref hl hu t doc' hm]
  exact h

/-- `C02_meta` from the bytes: whatever else the document holds, if the bytes of the marshaled
document are accepted, the top-level meta members are the document's. -/
theorem C02B_meta_bytes (D : Delegated) (TimeOk : Time → Prop) (hD : DelegatedOk D TimeOk)
    (σ : SSchema) (doc : Document) (hkw : ∀ r ∈ docResources doc, r.keyedWf)
    (hln : doc.errLinksOk = true) (hmc : doc.metaCanon D.numCanon = true)
    (hn : doc.numsOk) (fields : GoMap (List GoString)) (selfHref : GoString)
    (hl : doc.depthOk selfHref = true) (hu : doc.utf8Ok selfHref = true)
    (t : Json) (doc' : Document) (hm : marshalDocument doc fields selfHref = .ok (t, doc'))
    (d : UDoc) (h : unmarshalDocumentBytes D σ t.render = .ok d) :
    d.dmeta = doc.dmeta := by
  obtain ⟨ht, -⟩ := C02B_shape D.numCanon doc hkw hmc hln fields selfHref t doc' hm
  rw [C02B_bytes_eq_tree D TimeOk hD σ doc hkw hmc hln hn fields selfHref hl hu t doc' hm] at h
  exact C02_meta (codecsOf D TimeOk hD) σ doc fields selfHref t ht d h

/-- Why `Document.metaCanon` asks for ascending keys: the decoder lists the meta map by key, so a
model `Meta` list in another order does not come back as the same LIST (it is the same map). -/
theorem C02B_meta_order_needed :
    (mergeMeta (fun l => some l) [] (toC (.obj [([98], .null), ([97], .null)]))).map
      (fun l => l.map (·.1)) = some [[97], [98]] := by decide

/-! ### Non-vacuity -/

/-- a collection of two resources - the soft one with the ID "é" and the string with a quote, a
control byte, `<`, U+2028 and U+1F600 (`C01B_exR`), and a struct-backed one -, the first one
included as well, a link object with meta, and top-level meta (a non-ASCII string, a nested
object with ascending keys, no number: canonical for every `D.numCanon`) -/
def C02B_exDoc : Document :=
  { data := .col [] [C01B_exR [116], C01_exR [119]], included := [C01B_exR [116]],
    relData := [([116], [[109]])],
    links := [([110], { href := [47, 0xC3, 0xA9], lmeta := [([107], .num [49])] })],
    dmeta := [([97], .str [0xC3, 0xA9]), ([98], .obj [([120], .null), ([121], .arr [.bool true])])] }

/-- `C02B_roundtrip_bytes` and `C02B_data_kind_bytes` apply to it, with every delegated decoder
meeting `DelegatedOk`: both members and the included resource come back from the BYTES. -/
example (D : Delegated) (TimeOk : Time → Prop) (hD : DelegatedOk D TimeOk) :
    let fields : GoMap (List GoString) := [([116], [[97], [115], [109]])]
    ∃ t doc' d xs, marshalDocument C02B_exDoc fields [47] = .ok (t, doc') ∧
      unmarshalDocumentBytes D C01_exσ t.render = .ok d ∧
      d.data = .col xs ∧ xs.length = 2 ∧ d.included.length = 1 ∧ d.errors = [] ∧
      d.dmeta = C02B_exDoc.dmeta := by
  intro fields
  have hdom : DocDom (codecsOf D TimeOk hD) C01_exσ C02B_exDoc := by
    refine ⟨?_, ?_, ?_⟩
    · intro r hr
      have : r = C01B_exR [116] ∨ r = C01_exR [119] := by
        simp only [docResources, docPrimary, C02B_exDoc, List.mem_append, List.mem_cons,
          List.not_mem_nil, or_false] at hr
        rcases hr with (h | h) | h
        · exact .inl h
        · exact .inr h
        · exact .inl h
      rcases this with rfl | rfl
      · exact ⟨⟨C01_exT, false⟩, by simp [C01_exσ], C01B_exR_dom _ ⟨C01_exT, false⟩ (.inl rfl)⟩
      · exact ⟨⟨C01_exW, true⟩, by simp [C01_exσ], C01_exR_dom _ ⟨C01_exW, true⟩ (.inr rfl)⟩
    · intro id typ e; simp [C02B_exDoc] at e
    · intro b l e; simp [C02B_exDoc] at e
  have hn : C02B_exDoc.numsOk := by decide
  have hl : C02B_exDoc.depthOk [47] = true := by decide
  have hmc : C02B_exDoc.metaCanon D.numCanon = true := by
    simp [Document.metaCanon, C02B_exDoc, metaCanon, metaCanonMembers, metaCanonList, keysAsc]
    decide
  have hu : C02B_exDoc.utf8Ok [47] = true := by decide
  obtain ⟨t, doc', hm, d, h1, h2, -, -, h3, -, -⟩ :=
    C02B_data_kind_bytes D TimeOk hD C01_exσ C01_exσ_wf C02B_exDoc hdom rfl
      (by simp [C02B_exDoc]) hmc hn fields [47] hl hu
  obtain ⟨xs, hx, hlen, -⟩ := h3 [] _ rfl
  obtain ⟨t', doc'', hm', d', h1', hi, -⟩ :=
    C02B_included_bytes D TimeOk hD C01_exσ C01_exσ_wf C02B_exDoc hdom rfl
      (by simp [C02B_exDoc]) hmc hn fields [47] hl hu
  rw [hm] at hm'; cases hm'
  rw [h1] at h1'; cases h1'
  obtain ⟨t2, doc2, hm2, d2, h12, -, -, -, hmeta⟩ :=
    C02B_roundtrip_bytes D TimeOk hD C01_exσ C01_exσ_wf C02B_exDoc hdom rfl
      (by simp [C02B_exDoc]) hmc hn fields [47] hl hu
  rw [hm] at hm2; cases hm2
  rw [h1] at h12; cases h12
  exact ⟨t, doc', d, xs, hm, h1, hx, hlen, hi, h2, hmeta⟩

/-- an error object with every member (a non-ASCII title; links keys "a" < "b"; a number in its
meta) and an empty one -/
def C02B_exErr : ErrorObj := { C02_exErr with title := [0xC3, 0xA9] }

/-- an error document (data and meta set as well: the data is not written; the meta holds a
number) -/
def C02B_exErrDoc : Document :=
  { data := .ident [49] [116], errors := [C02B_exErr, {}], dmeta := [([109], .num [49])] }

/-- `C02B_errors_bytes` applies to it, for every delegated decoder meeting `DelegatedOk` that
prints the float64 of the literal `1` as `1`: both error objects and the meta come back from the
BYTES. -/
example (D : Delegated) (TimeOk : Time → Prop) (hD : DelegatedOk D TimeOk)
    (hnc : D.numCanon [49] = some [49]) :
    ∃ t doc', marshalDocument C02B_exErrDoc [] [47] = .ok (t, doc') ∧
      unmarshalDocumentBytes D C01_exσ t.render =
        .ok { data := .none, included := [], errors := [C02B_exErr, {}],
              dmeta := [([109], .num [49])] } := by
  have hs : ∀ e ∈ C02B_exErrDoc.errors, Spec.linksSorted e := by
    intro e he
    have : e = C02B_exErr ∨ e = {} := by simpa [C02B_exErrDoc] using he
    rcases this with rfl | rfl
    · unfold Spec.linksSorted C02B_exErr C02_exErr; decide
    · exact List.Pairwise.nil
  have hmc : C02B_exErrDoc.metaCanon D.numCanon = true := by
    simp [Document.metaCanon, C02B_exErrDoc, C02B_exErr, C02_exErr, metaCanon, metaCanonMembers,
      keysAsc, hnc]
  exact C02B_errors_bytes D TimeOk hD C01_exσ C02B_exErrDoc
    (by intro r hr; simp [docResources, docPrimary, C02B_exErrDoc] at hr)
    (by simp [C02B_exErrDoc]) (by simp [C02B_exErrDoc]) hs (by decide) hmc (by decide) [] [47]
    (by decide) (by decide)

/-- an error document as `marshalDocument` writes it (members sorted), with the non-ASCII title -/
def C02B_exErrTree : Json :=
  .obj [(K.errors, .arr [.obj [(K.kmeta, .obj [([109], .num [49])]), (K.title, .str [0xC3, 0xA9])],
          .obj []]),
        (K.jsonapi, .obj [(K.version, .str K.v10)]),
        (K.links, .obj [(K.self, .str [47])]),
        (K.kmeta, .obj [([109], .num [49])])]

set_option maxRecDepth 40000 in
/-- Computed with a concrete decoder (`C05B_exD`: numbers printed as written): the tree has the
shape, and its rendered BYTES are parsed and decoded into the two error objects and the meta. -/
example :
    DocTreeShape C05B_exD.numCanon C02B_exErrTree = true ∧
    (match unmarshalDocumentBytes C05B_exD C01_exσ C02B_exErrTree.render with
      | .ok d => d.errors.length == 2 && (d.errors.map (·.title) == [[0xC3, 0xA9], []]) &&
          (d.errors.map (fun e => e.emeta.map (·.1)) == [[[109]], []]) &&
          (d.dmeta.map (·.1) == [[109]])
      | _ => false) = true := by decide

/-- `docDecode_render_skeleton` and `C02B_bytes_eq_tree_shape` apply to the error-document tree
(shape, numbers, UTF-8 and depth by evaluation), with a decoder meeting `DelegatedOk`. -/
example := docDecode_render_skeleton (C01B_exD default) _ (C01B_exD_ok default) C02B_exErrTree
  (by decide) (by decide) (by decide) (by decide)

example := C02B_bytes_eq_tree_shape (C01B_exD default) _ (C01B_exD_ok default) C01_exσ
  C02B_exErrTree (by decide) (by decide) (by decide) (by decide)

/-- `C02B_shape`, `C02B_bytes_eq_tree` and `C02B_meta_bytes` apply to what the model's
`marshalDocument` writes for the collection document with the escape-worthy string. -/
example (D : Delegated) (TimeOk : Time → Prop) (hD : DelegatedOk D TimeOk) :
    let fields : GoMap (List GoString) := [([116], [[97], [115], [109]])]
    ∃ t doc', marshalDocument C02B_exDoc fields [47] = .ok (t, doc') ∧
      DocTreeShape D.numCanon t = true ∧ t.numsOk = true ∧ strsAll utf8Valid t = true ∧
      unmarshalDocumentBytes D C01_exσ t.render =
        unmarshalDocument C01_exσ (some (Spec.docSkeletonOf (codecsOf D TimeOk hD) t)) ∧
      ∀ d, unmarshalDocumentBytes D C01_exσ t.render = .ok d → d.dmeta = C02B_exDoc.dmeta := by
  intro fields
  have hkw : ∀ r ∈ docResources C02B_exDoc, r.keyedWf := by
    intro r hr
    simp only [docResources, docPrimary, C02B_exDoc, List.mem_append, List.mem_cons,
      List.not_mem_nil, or_false] at hr
    rcases hr with (rfl | rfl) | rfl <;> decide
  have hn : C02B_exDoc.numsOk := by decide
  have hl : C02B_exDoc.depthOk [47] = true := by decide
  have hu : C02B_exDoc.utf8Ok [47] = true := by decide
  have hmc : C02B_exDoc.metaCanon D.numCanon = true := by
    simp [Document.metaCanon, C02B_exDoc, metaCanon, metaCanonMembers, metaCanonList, keysAsc]
    decide
  cases ht : Spec.documentTree C02B_exDoc fields [47] with
  | none => simp [Spec.documentTree, C02B_exDoc] at ht
  | some t =>
    obtain ⟨doc', hm⟩ := (C04_document C02B_exDoc hkw fields [47]).2 t ht
    obtain ⟨-, h1, h2, -, h4⟩ := C02B_shape D.numCanon C02B_exDoc hkw hmc (by decide) fields [47] t doc' hm
    exact ⟨t, doc', hm, h1, h2 hn, h4 hu,
      C02B_bytes_eq_tree D TimeOk hD C01_exσ C02B_exDoc hkw hmc (by decide) hn fields [47] hl hu t doc' hm,
      fun d hd => C02B_meta_bytes D TimeOk hD C01_exσ C02B_exDoc hkw (by decide) hmc hn fields [47]
        hl hu t doc' hm d hd⟩

end Jsonapi

section Axioms
open Jsonapi
#print axioms C02B_abstr_invisible
#print axioms docDecode_render_skeleton
#print axioms C02B_bytes_eq_tree_shape
#print axioms C02B_shape
#print axioms C02B_bytes_eq_tree
#print axioms C02B_roundtrip_bytes
#print axioms C02B_data_kind_bytes
#print axioms C02B_included_bytes
#print axioms C02B_errors_bytes
#print axioms C02B_meta_bytes
#print axioms C02B_meta_order_needed
#print axioms DocbL.decodeErr_toC
#print axioms DocbL.decodeErrors_toC
#print axioms DocbL.mergeMeta_toC
#print axioms DocbL.decodeDoc_toC
#print axioms DocbL.documentTree_shape
end Axioms
