/-
C11 — the marshaled tree is a function of what the document holds, not of the order in
which Go happens to walk maps or in which the caller listed IDs, names or included
resources; and marshaling again after a first marshal (which leaves to-many ID lists and
the included list sorted) gives the same tree.

All statements are about the specification functions `Spec.resourceObject` and
`Spec.documentTree` (C04 shows the model's `marshalResource` / `marshalDocument` return
exactly these trees), so they compose with C04 to statements about the model.

Go maps are association lists in "iteration order"; "for every iteration order" is
"for every permutation".
-/
import Jsonapi.Proofs.DetLemmas
namespace Jsonapi
open DetL

/-! ### 1. map iteration order inside a resource -/

/-- The same resource read through attribute / relationship maps iterated in another
order marshals to the same object. Needs only that no two attributes share a name and
no two relationships share a name (`distinctNames`). -/
theorem C11_perm_maps_weak (r₁ r₂ : ResView) (p : GoString) (f : List GoString)
    (rd : GoMap (List GoString)) (m : Meta)
    (ht : r₁.typeName = r₂.typeName) (hi : r₁.id = r₂.id)
    (hpa : r₁.attrs.Perm r₂.attrs) (hpr : r₁.rels.Perm r₂.rels)
    (hg : ∀ k, r₁.get k = r₂.get k) (hd : distinctNames r₁) :
    Spec.resourceObject r₁ p f rd m = Spec.resourceObject r₂ p f rd m :=
  resourceObject_perm_maps p f rd m ht hi hpa hpr hg hd

/-- As above, under the invariant `keyed` that `Type.AddAttr` / `AddRel` maintain. -/
theorem C11_perm_maps (r₁ r₂ : ResView) (p : GoString) (f : List GoString)
    (rd : GoMap (List GoString)) (m : Meta)
    (ht : r₁.typeName = r₂.typeName) (hi : r₁.id = r₂.id)
    (hpa : r₁.attrs.Perm r₂.attrs) (hpr : r₁.rels.Perm r₂.rels)
    (hg : ∀ k, r₁.get k = r₂.get k) (hk : keyed r₁) :
    Spec.resourceObject r₁ p f rd m = Spec.resourceObject r₂ p f rd m :=
  resourceObject_perm_maps p f rd m ht hi hpa hpr hg (keyed_distinctNames hk)

/-! ### 2. order (and repetition) of the names in a field selection / relationship-data list -/

/-- Only membership in the selection and in the resource type's relationship-data list
is read: order and duplicates are irrelevant. No hypothesis on the resource. -/
theorem C11_perm_fields (r : ResView) (p : GoString) (f₁ f₂ : List GoString)
    (rd₁ rd₂ : GoMap (List GoString)) (m : Meta)
    (hf : ∀ x, x ∈ f₁ ↔ x ∈ f₂)
    (hw : ∀ x, x ∈ (rd₁.get? r.typeName).getD [] ↔ x ∈ (rd₂.get? r.typeName).getD []) :
    Spec.resourceObject r p f₁ rd₁ m = Spec.resourceObject r p f₂ rd₂ m :=
  resourceObject_fields r p m hf hw

/-- The permutation instance of `C11_perm_fields`. -/
theorem C11_perm_fields_perm (r : ResView) (p : GoString) (f₁ f₂ : List GoString)
    (rd : GoMap (List GoString)) (m : Meta) (hf : f₁.Perm f₂) :
    Spec.resourceObject r p f₁ rd m = Spec.resourceObject r p f₂ rd m :=
  resourceObject_fields r p m (fun _ => hf.mem_iff) (fun _ => Iff.rfl)

/-- The permutation instance for the relationship-data list of the resource's type. -/
theorem C11_perm_relData_perm (r : ResView) (p : GoString) (f : List GoString)
    (rd₁ rd₂ : GoMap (List GoString)) (m : Meta) (w₁ w₂ : List GoString)
    (h₁ : rd₁.get? r.typeName = some w₁) (h₂ : rd₂.get? r.typeName = some w₂) (hw : w₁.Perm w₂) :
    Spec.resourceObject r p f rd₁ m = Spec.resourceObject r p f rd₂ m :=
  resourceObject_fields r p m (fun _ => Iff.rfl) (fun _ => by rw [h₁, h₂]; exact hw.mem_iff)

/-! ### 3. order of the IDs of a to-many relationship -/

/-- General form: `r₂` is `r₁` except that any number of `[]string` values, none of them
read as an attribute, have their IDs permuted. -/
theorem C11_perm_tomany_general (r₁ r₂ : ResView) (h : sameUpToToMany r₁ r₂)
    (p : GoString) (f : List GoString) (rd : GoMap (List GoString)) (m : Meta) :
    Spec.resourceObject r₁ p f rd m = Spec.resourceObject r₂ p f rd m :=
  resourceObject_sameUpToToMany h p f rd m

/-- One value `k₀ ↦ .strs l` replaced by `.strs l'` with `l'` a permutation of `l`.
ADDED HYPOTHESIS `hna`: `k₀` is not the name of an attribute (an attribute holding a
`[]string` is encoded in the order given, so the statement is false without it). -/
theorem C11_perm_tomany (r₁ r₂ : ResView) (k₀ : GoString) (l l' : List GoString)
    (p : GoString) (f : List GoString) (rd : GoMap (List GoString)) (m : Meta)
    (ht : r₁.typeName = r₂.typeName) (hi : r₁.id = r₂.id)
    (hattrs : r₁.attrs = r₂.attrs) (hrels : r₁.rels = r₂.rels)
    (h₁ : r₁.get k₀ = .strs l) (h₂ : r₂.get k₀ = .strs l') (hp : l.Perm l')
    (hother : ∀ k, k ≠ k₀ → r₁.get k = r₂.get k)
    (hna : ∀ a ∈ r₁.attrs.vals, a.name ≠ k₀) :
    Spec.resourceObject r₁ p f rd m = Spec.resourceObject r₂ p f rd m := by
  apply resourceObject_sameUpToToMany
  refine ⟨ht, hi, hattrs, hrels, fun k => ?_⟩
  by_cases hk : k = k₀
  · subst hk
    exact Or.inr ⟨hna, l, l', h₁, h₂, hp⟩
  · exact Or.inl (hother k hk)

/-- The same under `keyed`, for `k₀` the name of a relationship of the resource. -/
theorem C11_perm_tomany_keyed (r₁ r₂ : ResView) (k₀ : GoString) (l l' : List GoString)
    (p : GoString) (f : List GoString) (rd : GoMap (List GoString)) (m : Meta)
    (ht : r₁.typeName = r₂.typeName) (hi : r₁.id = r₂.id)
    (hattrs : r₁.attrs = r₂.attrs) (hrels : r₁.rels = r₂.rels)
    (h₁ : r₁.get k₀ = .strs l) (h₂ : r₂.get k₀ = .strs l') (hp : l.Perm l')
    (hother : ∀ k, k ≠ k₀ → r₁.get k = r₂.get k)
    (hk : keyed r₁) (hrel : k₀ ∈ r₁.rels.keys) :
    Spec.resourceObject r₁ p f rd m = Spec.resourceObject r₂ p f rd m :=
  C11_perm_tomany r₁ r₂ k₀ l l' p f rd m ht hi hattrs hrels h₁ h₂ hp hother
    (keyed_rel_not_attr hk hrel)

/-- The added hypothesis cannot be dropped: the resource `cexRes ids` (type "t", ID "1",
one attribute "a" holding the `[]string` `ids`, selection ["a"]) marshals ["b","a"] and
["a","b"] to different objects, although every other hypothesis of `C11_perm_tomany` holds. -/
theorem C11_perm_tomany_needs_not_attr :
    (cexRes [[98], [97]]).get [97] = .strs [[98], [97]] ∧
    (cexRes [[97], [98]]).get [97] = .strs [[97], [98]] ∧
    [[98], [97]].Perm [[97], [98]] ∧
    (∀ k, k ≠ [97] → (cexRes [[98], [97]]).get k = (cexRes [[97], [98]]).get k) ∧
    Spec.resourceObject (cexRes [[98], [97]]) [] [[97]] [] ≠
    Spec.resourceObject (cexRes [[97], [98]]) [] [[97]] [] := by
  refine ⟨rfl, rfl, by decide, ?_, cex_ne⟩
  intro k hk
  simp [cexRes, ResView.get, GoMap.get?, Ne.symm hk]

/-! ### 4. order of the included resources -/

/-- Included resources with distinct IDs may be listed in any order. -/
theorem C11_perm_included (d : Document) (inc₂ : List ResView)
    (f : GoMap (List GoString)) (s : GoString)
    (hp : d.included.Perm inc₂) (hnd : (d.included.map (·.id)).Nodup) :
    Spec.documentTree d f s = Spec.documentTree { d with included := inc₂ } f s :=
  documentTree_perm_included d inc₂ f s hp hnd

/-! ### 5. iteration order of the document-level maps -/

/-- General form: the `fields` and `relData` maps are only looked up, the links list is
sorted by key. -/
theorem C11_document_maps_lookup (d : Document) (rd₂ : GoMap (List GoString))
    (links₂ : List (GoString × LinkObj)) (f₁ f₂ : GoMap (List GoString)) (s : GoString)
    (hf : ∀ k, f₁.get? k = f₂.get? k) (hrd : ∀ k, d.relData.get? k = rd₂.get? k)
    (hl : d.links.Perm links₂) (hnd : (d.links.map (·.1)).Nodup) :
    Spec.documentTree d f₁ s =
    Spec.documentTree { d with relData := rd₂, links := links₂ } f₂ s :=
  documentTree_maps d rd₂ links₂ f₁ f₂ s hf hrd hl hnd

/-- `url.Params.Fields`, `doc.RelData` and `doc.Links` as Go maps (distinct keys) walked
in any order. -/
theorem C11_perm_document_maps (d : Document) (rd₂ : GoMap (List GoString))
    (links₂ : List (GoString × LinkObj)) (f₁ f₂ : GoMap (List GoString)) (s : GoString)
    (hf : f₁.Perm f₂) (hfk : f₁.keys.Nodup)
    (hrd : d.relData.Perm rd₂) (hrdk : d.relData.keys.Nodup)
    (hl : d.links.Perm links₂) (hlk : (d.links.map (·.1)).Nodup) :
    Spec.documentTree d f₁ s =
    Spec.documentTree { d with relData := rd₂, links := links₂ } f₂ s :=
  documentTree_maps d rd₂ links₂ f₁ f₂ s (get?_eq_of_perm hf hfk) (get?_eq_of_perm hrd hrdk) hl hlk

/-! ### 6. marshaling again -/

/-- The spec trees are functions of their arguments: equal inputs, equal trees. -/
theorem C11_deterministic (d₁ d₂ : Document) (f₁ f₂ : GoMap (List GoString)) (s₁ s₂ : GoString)
    (hd : d₁ = d₂) (hf : f₁ = f₂) (hs : s₁ = s₂) :
    Spec.documentTree d₁ f₁ s₁ = Spec.documentTree d₂ f₂ s₂ := by
  subst hd hf hs; rfl

/-- (a) A resource whose `[]string` values have been sorted (what a first marshal leaves
behind, at most) marshals to the same object.
ADDED HYPOTHESIS `attrsScalar r`: no attribute of `r` holds a `[]string`. -/
theorem C11_repeat_resource (r : ResView) (hs : attrsScalar r)
    (p : GoString) (f : List GoString) (rd : GoMap (List GoString)) (m : Meta) :
    Spec.resourceObject (sortedToMany r) p f rd m = Spec.resourceObject r p f rd m :=
  resourceObject_sameUpToToMany (sortedToMany_same hs) p f rd m

/-- (b) The document with its included list sorted by ID and its primary resources'
to-many lists sorted marshals to the same tree. -/
theorem C11_repeat_document (d : Document) (f : GoMap (List GoString)) (s : GoString)
    (hs : ∀ r ∈ dataResources d.data, attrsScalar r) :
    Spec.documentTree
      { d with included := sortById d.included, data := mapRes sortedToMany d.data } f s =
    Spec.documentTree d f s := by
  have h := documentTree_after sortedToMany id d f s (fun _ => rfl) (fun _ => rfl) (fun _ => rfl)
    (fun r hr p fl rd => C11_repeat_resource r (hs r hr) p fl rd [])
    (fun _ _ _ _ _ => rfl)
  rw [List.map_id] at h
  exact h

/-- (b') The same when the included resources' to-many lists have been sorted too (a
first marshal sorts those of every resource it renders). -/
theorem C11_repeat_document_full (d : Document) (f : GoMap (List GoString)) (s : GoString)
    (hs : ∀ r ∈ dataResources d.data, attrsScalar r) (hi : ∀ r ∈ d.included, attrsScalar r) :
    Spec.documentTree
      { d with included := (sortById d.included).map sortedToMany,
               data := mapRes sortedToMany d.data } f s =
    Spec.documentTree d f s :=
  documentTree_after sortedToMany sortedToMany d f s (fun _ => rfl) (fun _ => rfl) (fun _ => rfl)
    (fun r hr p fl rd => C11_repeat_resource r (hs r hr) p fl rd [])
    (fun r hr p fl rd => C11_repeat_resource r (hi r hr) p fl rd [])

/-- Sorting is idempotent: a third marshal sees what the second saw. -/
theorem C11_repeat_idem (r : ResView) (l : List ResView) (ids : List GoString) :
    sortedToMany (sortedToMany r) = sortedToMany r ∧
    sortById (sortById l) = sortById l ∧
    Typ.sortStrings (Typ.sortStrings ids) = Typ.sortStrings ids :=
  ⟨sortedToMany_idem r, sortById_idem l, sortStrings_idem ids⟩

/-! ### 7. frame: what the sorted resource / document differ in -/

/-- Nothing of a resource changes but the order of the IDs in its `[]string` values. -/
theorem C11_frame (r : ResView) :
    (sortedToMany r).typeName = r.typeName ∧ (sortedToMany r).id = r.id ∧
    (sortedToMany r).attrs = r.attrs ∧ (sortedToMany r).rels = r.rels ∧
    (∀ k, (sortedToMany r).get k = r.get k ∨
      ∃ l, r.get k = .strs l ∧ (sortedToMany r).get k = .strs (Typ.sortStrings l)) ∧
    (∀ l, (Typ.sortStrings l).Perm l) := by
  refine ⟨rfl, rfl, rfl, rfl, fun k => ?_, sortStrings_perm⟩
  rw [sortedToMany_get]
  exact sortVal_cases (r.get k)

/-- Nothing of a document changes but the order of the included list (and, inside the
resources, what `C11_frame` says). -/
theorem C11_frame_document (d : Document) :
    let d' : Document :=
      { d with included := (sortById d.included).map sortedToMany,
               data := mapRes sortedToMany d.data }
    d'.links = d.links ∧ d'.relData = d.relData ∧ d'.dmeta = d.dmeta ∧ d'.errors = d.errors ∧
    d'.prePath = d.prePath ∧ (sortById d.included).Perm d.included ∧
    dataResources d'.data = (dataResources d.data).map sortedToMany := by
  refine ⟨rfl, rfl, rfl, rfl, rfl, sortById_perm _, ?_⟩
  show dataResources (mapRes sortedToMany d.data) = _
  cases d.data <;> rfl

/-! ### non-vacuity -/

/-- Two views of one resource with the attribute map walked in opposite orders: the
hypotheses of `C11_perm_maps` hold although the maps differ as lists. -/
example :
    let a : Attr := { name := [97], ty := 1, nullable := false }
    let b : Attr := { name := [98], ty := 2, nullable := false }
    let rel : Rel := { fromType := [116], fromName := [114], toOne := false, toType := [116],
                       toName := [], fromOne := false }
    let attrs₁ : GoMap Attr := [([97], a), ([98], b)]
    let attrs₂ : GoMap Attr := [([98], b), ([97], a)]
    let rels : GoMap Rel := [([114], rel)]
    attrs₁ ≠ attrs₂ ∧ attrs₁.Perm attrs₂ ∧
    (∀ p ∈ attrs₁, p.1 = p.2.name) ∧ (∀ p ∈ rels, p.1 = p.2.fromName) ∧
    (attrs₁.keys ++ rels.keys).Nodup ∧
    Typ.sortStrings [[50], [49], [51]] = [[49], [50], [51]] := by decide

#print axioms C11_perm_maps_weak
#print axioms C11_perm_maps
#print axioms C11_perm_fields
#print axioms C11_perm_fields_perm
#print axioms C11_perm_relData_perm
#print axioms C11_perm_tomany_general
#print axioms C11_perm_tomany
#print axioms C11_perm_tomany_keyed
#print axioms C11_perm_tomany_needs_not_attr
#print axioms C11_perm_included
#print axioms C11_document_maps_lookup
#print axioms C11_perm_document_maps
#print axioms C11_deterministic
#print axioms C11_repeat_resource
#print axioms C11_repeat_document
#print axioms C11_repeat_document_full
#print axioms C11_repeat_idem
#print axioms C11_frame
#print axioms C11_frame_document

end Jsonapi
