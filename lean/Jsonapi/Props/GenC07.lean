/-
T1b for C07: `deduceRoute` (simple_url.go), translated from the source on this run, has no
hand-written counterpart: the theorems below are about the translated definition itself.
It is total by construction (`NewSimpleURL` calls it on every path), looks at the first five
fragments only, and gives the documented route patterns on the four URL shapes of JSON:API.
(The translation reads `path[k]` as `getD`: every such read in the source is inside the
matching `len(path) >= k+1` test, so no read is out of range.)
-/
import Jsonapi.Generated.Funcs
namespace Jsonapi

theorem Gen_deduceRoute_nil : Gen.deduceRoute [] = [] := by decide

/-- only the first five fragments matter -/
theorem Gen_deduceRoute_take5 (p : List GoString) : Gen.deduceRoute p = Gen.deduceRoute (p.take 5) := by
  rcases p with _ | ⟨a, _ | ⟨b, _ | ⟨c, _ | ⟨d, _ | ⟨e, rest⟩⟩⟩⟩⟩
  · rfl
  · rfl
  · rfl
  · rfl
  · rfl
  · have l1 : ∀ k : Int, k ≤ 5 → decide (k ≤ ((a :: b :: c :: d :: e :: rest).length : Int)) = true := by
      intro k hk; simp only [List.length_cons, decide_eq_true_eq]; omega
    have l2 : ∀ k : Int, k ≤ 5 → decide (k ≤ (([a, b, c, d, e] : List GoString).length : Int)) = true := by
      intro k hk; simp only [List.length_cons, List.length_nil, decide_eq_true_eq]; omega
    show Gen.deduceRoute (a :: b :: c :: d :: e :: rest) = Gen.deduceRoute [a, b, c, d, e]
    unfold Gen.deduceRoute
    simp only [l1 1 (by omega), l1 2 (by omega), l1 3 (by omega), l1 4 (by omega), l1 5 (by omega),
      l2 1 (by omega), l2 2 (by omega), l2 3 (by omega), l2 4 (by omega), l2 5 (by omega),
      List.getD_cons_zero, List.getD_cons_succ, if_true]

/-- `/type` -/
theorem Gen_deduceRoute_col (t : GoString) : Gen.deduceRoute [t] = [47] ++ t := by
  simp [Gen.deduceRoute]

/-- `/type/id` -/
theorem Gen_deduceRoute_res (t id : GoString) (h : id ≠ gs "meta") :
    Gen.deduceRoute [t, id] = [47] ++ t ++ gs "/:id" := by
  have h' : id ≠ [109, 101, 116, 97] := h
  simp [Gen.deduceRoute, h']
  decide

/-- `/type/id/rel` -/
theorem Gen_deduceRoute_related (t id rel : GoString) (h : id ≠ gs "meta")
    (h1 : rel ≠ gs "relationships") (h2 : rel ≠ gs "meta") :
    Gen.deduceRoute [t, id, rel] = [47] ++ t ++ gs "/:id" ++ [47] ++ rel := by
  have h' : id ≠ [109, 101, 116, 97] := h
  have h1' : rel ≠ [114, 101, 108, 97, 116, 105, 111, 110, 115, 104, 105, 112, 115] := h1
  have h2' : rel ≠ [109, 101, 116, 97] := h2
  have e : gs "/:id" = [47, 58, 105, 100] := by decide
  simp [Gen.deduceRoute, h', h1', h2', e]

/-- `/type/id/relationships/rel` -/
theorem Gen_deduceRoute_self (t id rel : GoString) (h : id ≠ gs "meta") (h2 : rel ≠ gs "meta") :
    Gen.deduceRoute [t, id, gs "relationships", rel] = [47] ++ t ++ gs "/:id/relationships/" ++ rel := by
  have h' : id ≠ [109, 101, 116, 97] := h
  have h2' : rel ≠ [109, 101, 116, 97] := h2
  have e : gs "relationships" = [114, 101, 108, 97, 116, 105, 111, 110, 115, 104, 105, 112, 115] := by decide
  have e2 : gs "/:id/relationships/" = [47, 58, 105, 100, 47, 114, 101, 108, 97, 116, 105, 111, 110, 115, 104, 105, 112, 115, 47] := by decide
  rw [e, e2]
  simp [Gen.deduceRoute, h', h2']

end Jsonapi

section Axioms
open Jsonapi
#print axioms Gen_deduceRoute_nil
#print axioms Gen_deduceRoute_take5
#print axioms Gen_deduceRoute_col
#print axioms Gen_deduceRoute_res
#print axioms Gen_deduceRoute_related
#print axioms Gen_deduceRoute_self
end Axioms
