/-
C06 — What an accepted resource payload stores.

"Whenever a resource payload is accepted, each attribute present in it is stored with exactly
the value the JSON denotes: an integer literal is accepted only if it lies within the
declared width and signedness and is stored unchanged, null is accepted only for nullable
attributes, and strings, booleans, RFC 3339 times and base64 byte strings decode to the same
value. Each relationship holds exactly the IDs listed, fields absent from the payload hold
their zero value."

* `Spec.intLit` (in `Jsonapi/Proofs/UnmarshalLemmas.lean`) is the denotation of a JSON integer
  literal, defined without reference to strconv: optional '-', then a non-empty string of
  ASCII digits, read in base 10.
* Decoding of strings, times, byte strings and identifiers is delegated to the standard
  library: the skeleton carries what `json.Unmarshal` returned and the theorems say that
  exactly that is stored.

FINDING recorded by `C06_int` / `C06_uint_negzero`: for the unsigned kinds the accepted
literals are the in-range integer literals *without a minus sign*; the JSON number `-0`
(which denotes 0) is rejected by `strconv.ParseUint`. The informal property only claims
"accepted only if in range", which holds for all ten kinds (`C06_int_sound`).
-/
import Jsonapi.Proofs.UnmarshalLemmas6
namespace Jsonapi
open GoMap UnmL

/-! ### 4. Integer literals -/

/-- All ten integer kinds: a non-null raw value (not starting with '+', which no JSON number
does) is accepted exactly when it is an integer literal within the range of the kind — and,
for the unsigned kinds, carries no minus sign — and the value stored is the integer denoted. -/
theorem C06_int (a : Attr) (raw : RawVal) (v : GoVal) (k : Kind) (hk : Kind.ofCode? a.ty = some k)
    (hint : k.isInt = true) (hplus : raw.bytes.head? ≠ some 43) (hnn : raw.bytes ≠ sNull) :
    unmarshalToType a raw = .ok v ↔
      ∃ n, Spec.intLit raw.bytes = some n ∧ (∃ lo hi, k.range? = some (lo, hi) ∧ lo ≤ n ∧ n ≤ hi) ∧
        (k.isUnsigned = true → raw.bytes.head? ≠ some 45) ∧ v = mkVal k a.nullable (.i n) := by
  rcases Kind.int_cases k hint with ⟨hs, hu⟩ | ⟨_, hu⟩
  · rw [toType_signed a raw k hnn hk hs]
    cases hp : parseInt k.bits raw.bytes with
    | some n =>
      obtain ⟨h1, h2⟩ := (signed_accept k hs raw.bytes hplus n).1 hp
      simp only [Res.ok.injEq]
      constructor
      · intro e; exact ⟨n, h1, h2, by simp [hu], e.symm⟩
      · rintro ⟨n', h1', _, _, e⟩
        rw [h1] at h1'; cases h1'; exact e.symm
    | none =>
      simp only [false_iff, reduceCtorEq]
      rintro ⟨n, h1, h2, _, _⟩
      rw [(signed_accept k hs raw.bytes hplus n).2 ⟨h1, h2⟩] at hp
      cases hp
  · rw [toType_unsigned a raw k hnn hk hu]
    cases hp : parseUint k.bits raw.bytes with
    | some m =>
      obtain ⟨h1, h2, h3⟩ := (unsigned_accept k hu raw.bytes m).1 ⟨m, hp, rfl⟩
      simp only [Res.ok.injEq]
      constructor
      · intro e; exact ⟨m, h1, h2, fun _ => h3, e.symm⟩
      · rintro ⟨n', h1', _, _, e⟩
        rw [h1] at h1'; cases h1'; exact e.symm
    | none =>
      simp only [false_iff, reduceCtorEq]
      rintro ⟨n, h1, h2, h3, _⟩
      obtain ⟨m, hm, _⟩ := (unsigned_accept k hu raw.bytes n).2 ⟨h1, h2, h3 hu⟩
      rw [hm] at hp; cases hp

/-- The direction the property text claims, for all ten integer kinds with no side
condition on the sign: accepted only if an integer literal in range, stored unchanged. -/
theorem C06_int_sound (a : Attr) (raw : RawVal) (v : GoVal) (k : Kind)
    (hk : Kind.ofCode? a.ty = some k) (hint : k.isInt = true) (hplus : raw.bytes.head? ≠ some 43)
    (hnn : raw.bytes ≠ sNull) (h : unmarshalToType a raw = .ok v) :
    ∃ n, Spec.intLit raw.bytes = some n ∧ (∃ lo hi, k.range? = some (lo, hi) ∧ lo ≤ n ∧ n ≤ hi) ∧
      v = mkVal k a.nullable (.i n) := by
  obtain ⟨n, h1, h2, _, h3⟩ := (C06_int a raw v k hk hint hplus hnn).1 h
  exact ⟨n, h1, h2, h3⟩

/-- Signed kinds: exactly the integer literals in range. -/
theorem C06_int_signed (a : Attr) (raw : RawVal) (v : GoVal) (k : Kind)
    (hk : Kind.ofCode? a.ty = some k) (hs : k.isSigned = true) (hplus : raw.bytes.head? ≠ some 43)
    (hnn : raw.bytes ≠ sNull) :
    unmarshalToType a raw = .ok v ↔
      ∃ n, Spec.intLit raw.bytes = some n ∧ (∃ lo hi, k.range? = some (lo, hi) ∧ lo ≤ n ∧ n ≤ hi) ∧
        v = mkVal k a.nullable (.i n) := by
  have hint : k.isInt = true := by revert hs; cases k <;> decide
  have hu : k.isUnsigned = false := by revert hs; cases k <;> decide
  rw [C06_int a raw v k hk hint hplus hnn]
  constructor
  · rintro ⟨n, h1, h2, _, h3⟩; exact ⟨n, h1, h2, h3⟩
  · rintro ⟨n, h1, h2, h3⟩; exact ⟨n, h1, h2, by simp [hu], h3⟩

/-- The side condition of `C06_int` cannot be dropped: the JSON number `-0` denotes 0, which
is in the range of uint8, and is rejected. -/
theorem C06_uint_negzero :
    let a : Attr := { name := [97], ty := 8, nullable := false }
    let raw : RawVal := { bytes := [45, 48], decStr := none, decTime := none, decBytes := none }
    Kind.ofCode? a.ty = some .uint8 ∧ Spec.intLit raw.bytes = some 0 ∧
    Kind.uint8.range? = some (0, 255) ∧ unmarshalToType a raw = .err := by decide

/-! ### 5. null -/

theorem C06_null (a : Attr) (raw : RawVal) (v : GoVal) (h : raw.bytes = sNull) :
    (unmarshalToType a raw = .ok v ↔ a.nullable = true ∧ v = a.zero) ∧
    (∀ k, Kind.ofCode? a.ty = some k → a.nullable = true → a.zero = .ptr k none) := by
  constructor
  · rw [toType_null a raw h]
    by_cases hn : a.nullable = true
    · simp only [hn, if_true, Res.ok.injEq, true_and]
      exact ⟨fun e => e.symm, fun e => e.symm⟩
    · simp [hn]
  · intro k hk hn
    simp [Attr.zero, hk, GoVal.zero, hn]

/-! ### 6. Delegated decodes and booleans -/

theorem C06_string (a : Attr) (raw : RawVal) (v : GoVal) (hk : Kind.ofCode? a.ty = some .string)
    (hnn : raw.bytes ≠ sNull) :
    unmarshalToType a raw = .ok v ↔
      ∃ s, raw.decStr = some s ∧ v = mkVal .string a.nullable (.s s) := by
  rw [toType_string a raw hnn hk]
  cases raw.decStr with
  | none => simp
  | some s => simp only [Res.ok.injEq, Option.some.injEq, exists_eq_left']; exact eq_comm

theorem C06_time (a : Attr) (raw : RawVal) (v : GoVal) (hk : Kind.ofCode? a.ty = some .time)
    (hnn : raw.bytes ≠ sNull) :
    unmarshalToType a raw = .ok v ↔
      ∃ t, raw.decTime = some t ∧ v = mkVal .time a.nullable (.t t) := by
  rw [toType_time a raw hnn hk]
  cases raw.decTime with
  | none => simp
  | some s => simp only [Res.ok.injEq, Option.some.injEq, exists_eq_left']; exact eq_comm

/-- Byte strings: the raw value must be a JSON string (first byte '"') that the standard
library decodes (base64) into a byte slice; that slice is stored. -/
theorem C06_bytes (a : Attr) (raw : RawVal) (v : GoVal) (hk : Kind.ofCode? a.ty = some .bytes)
    (hnn : raw.bytes ≠ sNull) :
    unmarshalToType a raw = .ok v ↔
      raw.bytes.head? = some 34 ∧ ∃ b, raw.decBytes = some b ∧ v = mkVal .bytes a.nullable (.bs b) := by
  rw [toType_bytes a raw hnn hk]
  by_cases hq : raw.bytes.head? = some 34
  · simp only [hq, ne_eq, not_true_eq_false, if_false, true_and]
    cases raw.decBytes with
    | none => simp
    | some s => simp only [Res.ok.injEq, Option.some.injEq, exists_eq_left']; exact eq_comm
  · simp [hq]

theorem C06_bool (a : Attr) (raw : RawVal) (v : GoVal) (hk : Kind.ofCode? a.ty = some .bool)
    (hnn : raw.bytes ≠ sNull) :
    unmarshalToType a raw = .ok v ↔
      (raw.bytes = sTrue ∧ v = mkVal .bool a.nullable (.b true)) ∨
      (raw.bytes = sFalse ∧ v = mkVal .bool a.nullable (.b false)) := by
  rw [toType_bool a raw hnn hk]
  by_cases h1 : raw.bytes = sTrue
  · have h2 : raw.bytes ≠ sFalse := by rw [h1]; decide
    simp only [h1, if_true, Res.ok.injEq, true_and]
    constructor
    · intro e; exact .inl e.symm
    · rintro (e | ⟨e, _⟩)
      · exact e.symm
      · exact absurd e (by decide)
  · by_cases h2 : raw.bytes = sFalse
    · have h3 : ¬ sFalse = sTrue := by decide
      rw [h2]
      simp only [h3, if_false, if_true, Res.ok.injEq, false_and, false_or, true_and]
      exact eq_comm
    · simp [h1, h2]

/-- Distinct decoded payloads are stored as distinct values ("decode to the same value"). -/
theorem C06_mkVal_inj (k : Kind) (n : Bool) (p q : Pay) (h : mkVal k n p = mkVal k n q) : p = q :=
  mkVal_inj h

/-! ### 7. Relationships -/

/-- A relationship object without data member sets nothing and is accepted. -/
theorem C06_rel_absent (rel : Rel) (v : RelRaw) (h : v.present = false) :
    relValue rel v = (none, false) := relValue_absent rel v h

/-- To-one, data present: accepted exactly when the data decodes into an identifier whose
type is the relationship's target type (not checked for `null`); the ID set is the decoded ID. -/
theorem C06_rel_toOne (rel : Rel) (v : RelRaw) (hp : v.present = true) (ho : rel.toOne = true) :
    ((relValue rel v).2 = false ↔
      ∃ id ty, v.decIdent = some (id, ty) ∧ (v.isNull = true ∨ ty = rel.toType)) ∧
    (∀ id ty, v.decIdent = some (id, ty) → (relValue rel v).1 = some (.val .string (.s id))) := by
  unfold relValue
  simp only [hp, Bool.not_true, Bool.false_eq_true, if_false, ho, if_true]
  cases hd : v.decIdent with
  | none => simp
  | some p =>
    obtain ⟨id, ty⟩ := p
    simp only [Option.some.injEq, Prod.mk.injEq]
    constructor
    · cases v.isNull <;> simp
    · rintro id' ty' ⟨rfl, rfl⟩; rfl

/-- To-many, data present: accepted exactly when the data decodes into identifiers that all
have the target type; the IDs set are exactly the decoded IDs, in order, repeats kept. -/
theorem C06_rel_toMany (rel : Rel) (v : RelRaw) (hp : v.present = true) (ho : rel.toOne = false) :
    ((relValue rel v).2 = false ↔ ∃ l, v.decIdents = some l ∧ ∀ p ∈ l, p.2 = rel.toType) ∧
    (∀ l, v.decIdents = some l → (relValue rel v).1 = some (.strs (l.map (·.1)))) := by
  unfold relValue
  simp only [hp, Bool.not_true, Bool.false_eq_true, if_false, ho]
  cases hd : v.decIdents with
  | none => simp
  | some l =>
    simp only [Option.some.injEq, exists_eq_left']
    constructor
    · rw [Bool.eq_false_iff]
      simp [List.any_eq_true]
    · rintro l' rfl; rfl

/-! ### 8. The accepted resource: present fields hold the decoded values, absent fields
their zero value, the ID is the payload's -/

theorem C06_stored (σ : SSchema) (hσ : σ.WF) (sk : ResSke) (r : AnyRes)
    (hA : sk.attrs.keys.Nodup) (hR : sk.rels.keys.Nodup)
    (h : unmarshalResource σ sk = .ok r) :
    ∃ st ∈ σ, st.typ.name = sk.typ ∧ ∃ v, r.view? = some v ∧ v.typeName = st.typ.name ∧ v.id = sk.id ∧
      -- attributes present in the payload: the value `unmarshalToType` gave
      (∀ key raw, sk.attrs.get? key = some raw → ∃ a x, st.typ.attrs.get? key = some a ∧
        unmarshalToType a raw = .ok x ∧ Spec.canon (v.get key) = Spec.canon x) ∧
      -- relationships present in the payload: accepted, and with a data member exactly its value
      (∀ key rv, sk.rels.get? key = some rv → ∃ rel, st.typ.rels.get? key = some rel ∧
        (relValue rel rv).2 = false ∧
        (rv.present = true → (relValue rel rv).1 = some (v.get key))) ∧
      -- every other field of the type: its zero value
      (∀ f ∈ st.typ.attrs.keys ++ st.typ.rels.keys, sk.attrs.has f = false →
        (∀ rv, sk.rels.get? f = some rv → rv.present = false) →
        Spec.canon (v.get f) = Spec.zeroOf st.typ f) := by
  obtain ⟨st, hg, okA, okR, _, inv⟩ := ((resource_spec hσ sk).2 r).1 h
  obtain ⟨hm, hname⟩ := getType_some hg
  obtain ⟨_, h2, h3, _⟩ := hσ.2 st hm
  obtain ⟨v, hv, e1, e2, e3, _, e5⟩ := inv.conforms h2 h3 (fullHist_ok h2 h3 sk)
  obtain ⟨r1, r2, r3⟩ := fullHist_reads h2 h3 sk hA hR okA okR
  refine ⟨st, hm, hname, v, hv, e1, by rw [e2, specId_fullHist h2 h3], ?_, ?_, ?_⟩
  · intro key raw hkr
    obtain ⟨a, x, ha, hx, hs⟩ := r1 key raw hkr
    have hf : key ∈ st.typ.fieldKeys := List.mem_append_left _ (mem_keys_of_get? ha)
    exact ⟨a, x, ha, hx, (e3 key hf).trans hs⟩
  · intro key rv hkr
    obtain ⟨rel, hr, hbad, hpres⟩ := r2 key rv hkr
    refine ⟨rel, hr, hbad, fun hp => ?_⟩
    obtain ⟨x, hx, hs⟩ := hpres hp
    have hf : key ∈ st.typ.fieldKeys := List.mem_append_right _ (mem_keys_of_get? hr)
    have hc := (e3 key hf).trans hs
    rw [hx]
    congr 1
    have ht := relValue_typed rel rv x hx
    split at ht
    · obtain ⟨id, rfl⟩ := ht; exact (canon_eq_string hc).symm
    · obtain ⟨l, rfl⟩ := ht; exact (canon_eq_strs hc).symm
  · intro f hf hna hnr
    rw [e3 f hf]
    exact r3 f hna hnr (namesOk_mem h3 hf).1

/-! ### The per-kind parse calls of `Attr.unmarshalToType`, read from the source (T1) -/

/-- the name of the kind's constant in type.go -/
def Kind.constName : Kind → String
  | .string => "AttrTypeString" | .int => "AttrTypeInt" | .int8 => "AttrTypeInt8" | .int16 => "AttrTypeInt16"
  | .int32 => "AttrTypeInt32" | .int64 => "AttrTypeInt64" | .uint => "AttrTypeUint" | .uint8 => "AttrTypeUint8"
  | .uint16 => "AttrTypeUint16" | .uint32 => "AttrTypeUint32" | .uint64 => "AttrTypeUint64" | .bool => "AttrTypeBool"
  | .time => "AttrTypeTime" | .bytes => "AttrTypeBytes"

/-- What the model of `unmarshalToType` assumes the clause of a kind does: which parser it
calls, with which bit size, and which narrowing conversion it applies - in terms of the
model's own `Kind.isSigned`, `Kind.isUnsigned` and `Kind.bits` (`strconv.Atoi` is
`ParseInt(s, 10, 0)`: the 64 bits of `int`). -/
def C06_expectedParse (k : Kind) : String × Nat × List String :=
  if k.isSigned then
    (if k.bits = 64 then ("strconv.Atoi", 0, if k = .int then [] else [k.goName])
     else ("strconv.ParseInt", k.bits, [k.goName]))
  else if k.isUnsigned then ("strconv.ParseUint", k.bits, if k = .uint64 then [] else [k.goName])
  else if k = .bool then ("", 0, [])
  else ("json.Unmarshal", 0, [])

/-- The clause of every kind in the CURRENT source of `Attr.unmarshalToType` (regenerated
`Facts.unmarshalParse`) calls the parser, with the bit size, and applies the conversion the
model assumes - for all fourteen kinds, so `parseInt k.bits` / `parseUint k.bits` in the
model are the source's `ParseInt(…, 10, bits)` / `ParseUint(…, 10, bits)`. -/
theorem C06_parse_facts (k : Kind) :
    Facts.unmarshalParse.lookup k.constName = some (C06_expectedParse k) := by
  cases k <;> decide

/-- and the switch has a clause for each of the fourteen kinds (plus `default`) -/
theorem C06_parse_cases :
    Facts.unmarshalToTypeCases = Kind.all.map Kind.constName ∧
    Facts.unmarshalParse.map (·.1) = Kind.all.map Kind.constName ++ ["default"] := by decide

/-! ### Re-marshaling the linkage, and the known finding C06-toone-empty-id -/

/-- An accepted, present, non-null to-one linkage whose id is not empty re-marshals (data
requested) as exactly the payload's identifier: the relationship's target type and that id. -/
theorem C06_remarshal_toOne (rel : Rel) (rv : RelRaw) (id : GoString) (r : ResView) (prepath : GoString)
    (h1 : rel.toOne = true) (hp : rv.present = true) (hn : rv.isNull = false)
    (hv : relValue rel rv = (some (.val .string (.s id)), false)) (hid : id ≠ [])
    (hget : r.get rel.fromName = .val .string (.s id)) :
    rv.decIdent = some (id, rel.toType) ∧
    marshalRel r prepath rel true =
      .ok (.obj [(K.data, identifierJson id rel.toType), (K.links, buildRelationshipLinks r prepath rel.fromName)], none) := by
  constructor
  · unfold relValue at hv
    simp only [hp, h1, hn] at hv
    cases hd : rv.decIdent with
    | none => simp [hd] at hv
    | some p =>
      obtain ⟨i, t⟩ := p
      simp [hd] at hv
      obtain ⟨rfl, ht⟩ := hv
      simp [ht]
  · simp [marshalRel, h1, hget, hid]

/-- An accepted to-many linkage re-marshals (data requested) as the listed IDs, sorted, each
with the relationship's target type. -/
theorem C06_remarshal_toMany (rel : Rel) (ids : List GoString) (r : ResView) (prepath : GoString)
    (h1 : rel.toOne = false) (hget : r.get rel.fromName = .strs ids) :
    marshalRel r prepath rel true =
      .ok (.obj [(K.data, .arr ((Typ.sortStrings ids).map (fun id => identifierJson id rel.toType))),
                 (K.links, buildRelationshipLinks r prepath rel.fromName)], some (Typ.sortStrings ids)) := by
  simp [marshalRel, h1, hget]

/-- Known finding (pinned by TestUnmarshalPartialResource): a to-one linkage identifier
without id, or with the empty id, carrying the target type is accepted - the relationship is
set to the empty string and no error is returned - and an empty to-one re-marshals as `null`,
not as the payload's identifier. -/
theorem C06_known_toOne_empty_id (rel : Rel) (r : ResView) (prepath : GoString) (h1 : rel.toOne = true)
    (hget : r.get rel.fromName = .val .string (.s [])) :
    relValue rel { present := true, isNull := false, decIdent := some ([], rel.toType), decIdents := none }
      = (some (.val .string (.s [])), false) ∧
    marshalRel r prepath rel true =
      .ok (.obj [(K.data, .null), (K.links, buildRelationshipLinks r prepath rel.fromName)], none) := by
  constructor
  · simp [relValue, h1]
  · simp [marshalRel, h1, hget]

/-! ### Non-vacuity -/

/-- int8: "-128" accepted and stored as -128; "128", "1e2", "+1" rejected; null rejected for
the non-nullable attribute, stored as typed nil for the nullable one. -/
example :
    let a : Attr := { name := [97], ty := 3, nullable := false }
    let an : Attr := { name := [97], ty := 3, nullable := true }
    let raw (b : GoString) : RawVal := { bytes := b, decStr := none, decTime := none, decBytes := none }
    Spec.intLit [45, 49, 50, 56] = some (-128) ∧
    unmarshalToType a (raw [45, 49, 50, 56]) = .ok (.val .int8 (.i (-128))) ∧
    unmarshalToType an (raw [45, 49, 50, 56]) = .ok (.ptr .int8 (some (.i (-128)))) ∧
    unmarshalToType a (raw [49, 50, 56]) = .err ∧
    unmarshalToType a (raw [49, 101, 50]) = .err ∧
    unmarshalToType a (raw sNull) = .err ∧
    unmarshalToType an (raw sNull) = .ok (.ptr .int8 none) := by decide

/-- The hypotheses of `C06_int` are satisfiable (int8, "-128"). -/
example := (C06_int { name := [97], ty := 3, nullable := false }
  { bytes := [45, 49, 50, 56], decStr := none, decTime := none, decBytes := none }
  (.val .int8 (.i (-128))) .int8 (by decide) (by decide) (by decide) (by decide)).2
  ⟨-128, by decide, ⟨-128, 127, by decide, by decide, by decide⟩, by decide, by decide⟩

end Jsonapi

section Axioms
open Jsonapi
#print axioms C06_int
#print axioms C06_int_sound
#print axioms C06_int_signed
#print axioms C06_uint_negzero
#print axioms C06_null
#print axioms C06_string
#print axioms C06_time
#print axioms C06_bytes
#print axioms C06_bool
#print axioms C06_mkVal_inj
#print axioms C06_rel_absent
#print axioms C06_rel_toOne
#print axioms C06_rel_toMany
#print axioms C06_stored
#print axioms C06_parse_facts
#print axioms C06_parse_cases
#print axioms C06_remarshal_toOne
#print axioms C06_remarshal_toMany
#print axioms C06_known_toOne_empty_id
end Axioms
