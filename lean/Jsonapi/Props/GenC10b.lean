/-
T1b for C10 (work package T): the type-switch core of filter.go translated from the source on
this run - `checkVal` (29 cases over the Go types of attribute values and their pointer forms,
with the nil handling and the type assertions on the filter's value), `checkBytes` and
`checkSlice` - is the hand-written model of Model/Filter.lean on every operator string and every
pair of values that are images of Go values. A failed type assertion is `Res.panic` on both
sides. One difference between code and model was found on ill-typed pairs (outside C10's
domain): see `Gen_checkVal_differs_nil_ptr_other_type`.
-/
import Jsonapi.Proofs.GenC10bLemmas
namespace Jsonapi
set_option linter.unusedSimpArgs false
set_option linter.unusedVariables false

/-- filter.go `checkVal`, for every operator, every pair of values that are images of Go values
(`GoVal.WF`: the payload has the shape and the range of its kind) and every answer `same'` to the
comparisons of two non-nil pointers (which the model of values does not determine). The
hypothesis `CheckValDomain` is forced by the code: see the next theorem. -/
theorem Gen_checkVal_eq (same' : Nat → List Nat → Bool) (op : GoString) (rval cval : GoVal)
    (hr : rval.WF) (hc : cval.WF) (hd : CheckValDomain op rval cval) :
    Gen.checkVal op rval cval same' = checkVal op rval cval := by
  cases rval with
  | val k p =>
    cases k <;> cases p <;> simp [GoVal.WF, Kind.payOk, Kind.range?] at hr <;>
      first
      | exact Gen_checkVal_val_string same' op _ cval hc | exact Gen_checkVal_val_int same' op _ cval hc | exact Gen_checkVal_val_int8 same' op _ cval hc | exact Gen_checkVal_val_int16 same' op _ cval hc | exact Gen_checkVal_val_int32 same' op _ cval hc | exact Gen_checkVal_val_int64 same' op _ cval hc | exact Gen_checkVal_val_bool same' op _ cval hc | exact Gen_checkVal_val_time same' op _ cval hc | exact Gen_checkVal_val_bytes same' op _ cval hc
      | (rename_i w; obtain ⟨n, rfl⟩ := Int.eq_ofNat_of_zero_le hr.1
         first | exact Gen_checkVal_val_uint same' op _ cval hc | exact Gen_checkVal_val_uint8 same' op _ cval hc | exact Gen_checkVal_val_uint16 same' op _ cval hc | exact Gen_checkVal_val_uint32 same' op _ cval hc | exact Gen_checkVal_val_uint64 same' op _ cval hc)
  | ptr k p =>
    cases p with
    | none => cases k <;> first | exact Gen_checkVal_ptr_string_none same' op cval hc hd | exact Gen_checkVal_ptr_int_none same' op cval hc hd | exact Gen_checkVal_ptr_int8_none same' op cval hc hd | exact Gen_checkVal_ptr_int16_none same' op cval hc hd | exact Gen_checkVal_ptr_int32_none same' op cval hc hd | exact Gen_checkVal_ptr_int64_none same' op cval hc hd | exact Gen_checkVal_ptr_uint_none same' op cval hc hd | exact Gen_checkVal_ptr_uint8_none same' op cval hc hd | exact Gen_checkVal_ptr_uint16_none same' op cval hc hd | exact Gen_checkVal_ptr_uint32_none same' op cval hc hd | exact Gen_checkVal_ptr_uint64_none same' op cval hc hd | exact Gen_checkVal_ptr_bool_none same' op cval hc hd | exact Gen_checkVal_ptr_time_none same' op cval hc hd | exact Gen_checkVal_ptr_bytes_none same' op cval hc hd
    | some p =>
      cases k <;> cases p <;> simp [GoVal.WF, Kind.payOk, Kind.range?] at hr <;>
        first
        | exact Gen_checkVal_ptr_string_some same' op _ cval hc | exact Gen_checkVal_ptr_int_some same' op _ cval hc | exact Gen_checkVal_ptr_int8_some same' op _ cval hc | exact Gen_checkVal_ptr_int16_some same' op _ cval hc | exact Gen_checkVal_ptr_int32_some same' op _ cval hc | exact Gen_checkVal_ptr_int64_some same' op _ cval hc | exact Gen_checkVal_ptr_bool_some same' op _ cval hc | exact Gen_checkVal_ptr_time_some same' op _ cval hc | exact Gen_checkVal_ptr_bytes_some same' op _ cval hc
        | (rename_i w; obtain ⟨n, rfl⟩ := Int.eq_ofNat_of_zero_le hr.1
           first | exact Gen_checkVal_ptr_uint_some same' op _ cval hc | exact Gen_checkVal_ptr_uint8_some same' op _ cval hc | exact Gen_checkVal_ptr_uint16_some same' op _ cval hc | exact Gen_checkVal_ptr_uint32_some same' op _ cval hc | exact Gen_checkVal_ptr_uint64_some same' op _ cval hc)
  | strs a =>
    simp only [Gen.checkVal]
    rw [checkVal_strs_gen]
    split
    · simp only [Gen_checkSlice_eq]
    · rename_i h
      cases cval with
      | strs b => exact absurd rfl (h b)
      | _ => rfl
  | nil => simp only [Gen.checkVal]; rw [checkVal_nil]
  | other t => simp only [Gen.checkVal]; rw [checkVal_other]

/-- Code and model differ on an ill-typed pair: a nil `*string` attribute against a filter
value of another Go type under an ordering operator. The code returns false without asserting the
type of the filter's value (the assertion sits behind `rval == nil ||` and inside `case "=", "!="`),
the hand-written model panics as for every other ill-typed pair. Such filters are outside C10's
domain (`WellTyped`). -/
theorem Gen_checkVal_differs_nil_ptr_other_type (same' : Nat → List Nat → Bool) :
    Gen.checkVal [60] (.ptr .string none) (.val .int (.i 5)) same' = .ok false ∧
    checkVal [60] (.ptr .string none) (.val .int (.i 5)) = .panic := by
  constructor
  · simp [Gen.checkVal]
  · rw [checkVal_ptr_gen]

/-- With a filter value of the attribute's own Go type (the well-typed case) no hypothesis about
the operator is needed. -/
theorem Gen_checkVal_eq_same_type (same' : Nat → List Nat → Bool) (op : GoString) (rval cval : GoVal)
    (hr : rval.WF) (hc : cval.WF) (ht : rval.goType = cval.goType) :
    Gen.checkVal op rval cval same' = checkVal op rval cval := by
  apply Gen_checkVal_eq same' op rval cval hr hc
  intro k hk
  subst hk
  left
  cases cval with
  | ptr k' p' =>
    have : k = k' := by
      cases k <;> cases k' <;> first | rfl | (exfalso; revert ht; simp only [GoVal.goType, Kind.goName]; decide)
    subst this
    exact ⟨p', rfl⟩
  | val k' p' => exfalso; revert ht; cases k <;> cases k' <;> simp only [GoVal.goType, Kind.goName] <;> decide
  | strs l => exfalso; revert ht; cases k <;> simp only [GoVal.goType, Kind.goName] <;> decide
  | nil => exfalso; revert ht; cases k <;> simp only [GoVal.goType, Kind.goName] <;> decide
  | other t => exfalso; revert ht; cases k <;> simp only [GoVal.goType, Kind.goName] <;> decide

end Jsonapi

section Axioms
open Jsonapi
#print axioms Gen_checkBytes_eq
#print axioms Gen_checkSlice_eq
#print axioms Gen_checkVal_eq
#print axioms Gen_checkVal_differs_nil_ptr_other_type
#print axioms Gen_checkVal_eq_same_type
end Axioms
