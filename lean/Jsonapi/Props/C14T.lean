/-
C14T — "no call has panicked" about the TRANSLATED editing API.

`C14_inv` (Props/C14.lean) proves "no call has panicked" of the hand-written model's `step`.
Props/GenC14b.lean proves that the functions translated from schema.go / type.go on this run
(`Gen.Schema_AddType`, … - the receiver threaded through as a value, the returned error a
`Res Unit`) ARE the model's functions. Here the two are composed, so that the clause is a
statement about the translated code:

* one corollary per method that returns an error, `C14T_no_panic_<Method>`: the translated
  function never returns `.panic` - for EVERY receiver and argument (for `AddTwoWayRel`, whose
  equality with the model needs unique type names, the general statement is proved on the
  translated function directly, `C14T_no_panic_AddTwoWayRel`; the corollary of the equality is
  `C14T_no_panic_AddTwoWayRel_of_eq`);
* `RemoveType`, `RemoveAttr`, `RemoveRel` (schema and type level) return no error: their
  translations are total functions into `Schema` / `Typ` with no `Res` at all - there is no
  panic outcome to exclude; `C14T.genStep` pairs them with `.ok ()` as C14's `step` does;
* `C14T_genStep_no_panic`: every op of C14's `Op`, every schema;
* `C14T_genStep_eq`, `C14T_genRun_eq`: on a schema with C14's invariant one translated call is
  the model's `step`, hence a whole history replayed on the translated functions from the empty
  schema reaches the model's state;
* `C14T_history`: C14_inv for the translated API - after any history (types handed to AddType
  well-formed) the schema the TRANSLATED functions have built satisfies `Inv`, and no call of
  the history has panicked.
-/
import Jsonapi.Props.C14
import Jsonapi.Props.GenC14b
namespace Jsonapi
open Schema GoMap

/-! ### One corollary per method -/

theorem C14T_no_panic_Type_AddAttr (t : Typ) (a : Attr) : (Gen.Type_AddAttr t a).2 ≠ .panic := by
  rw [Gen_Type_AddAttr_eq]; exact Typ.addAttr_no_panic t a

theorem C14T_no_panic_Type_AddRel (t : Typ) (r : Rel) : (Gen.Type_AddRel t r).2 ≠ .panic := by
  rw [Gen_Type_AddRel_eq]; exact Typ.addRel_no_panic t r

theorem C14T_no_panic_AddType (s : Schema) (t : Typ) : (Gen.Schema_AddType s t).2 ≠ .panic := by
  rw [Gen_Schema_AddType_eq]; exact step_no_panic s (.addType t)

theorem C14T_no_panic_AddAttr (s : Schema) (n : GoString) (a : Attr) :
    (Gen.Schema_AddAttr s n a).2 ≠ .panic := by
  rw [Gen_Schema_AddAttr_eq]; exact step_no_panic s (.addAttr n a)

theorem C14T_no_panic_AddRel (s : Schema) (n : GoString) (r : Rel) :
    (Gen.Schema_AddRel s n r).2 ≠ .panic := by
  rw [Gen_Schema_AddRel_eq]; exact step_no_panic s (.addRel n r)

/-- `AddTwoWayRel` on a schema with unique type names: the corollary of the equality. -/
theorem C14T_no_panic_AddTwoWayRel_of_eq (s : Schema) (hnd : (s.types.map (·.name)).Nodup)
    (r : Rel) : (Gen.Schema_AddTwoWayRel s r).2 ≠ .panic := by
  rw [Gen_Schema_AddTwoWayRel_eq s hnd]; exact step_no_panic s (.addTwoWayRel r)

/-- `AddTwoWayRel` on EVERY schema (also those with repeated type names, on which the translated
function and the model differ): the error returned is the one a `Type.AddRel` call returned,
`nil`, or an ordinary error. -/
theorem C14T_no_panic_AddTwoWayRel (s : Schema) (r : Rel) :
    (Gen.Schema_AddTwoWayRel s r).2 ≠ .panic := by
  unfold Gen.Schema_AddTwoWayRel
  simp only [Gen_Type_AddRel_eq]
  generalize List.foldl _ (-1, -1) (List.range s.types.length) = p
  obtain ⟨i1, i2⟩ := p
  simp only
  repeat' split
  all_goals first
    | exact Typ.addRel_no_panic _ _
    | simp

/-- The removals return no error; their translations are the model's total functions. -/
theorem C14T_removals_total (s : Schema) (n a : GoString) (t : Typ) :
    Gen.Schema_RemoveType s n = s.removeType n ∧ Gen.Schema_RemoveAttr s n a = s.removeAttr n a ∧
    Gen.Schema_RemoveRel s n a = s.removeRel n a ∧ Gen.Type_RemoveAttr t a = t.removeAttr a ∧
    Gen.Type_RemoveRel t a = t.removeRel a :=
  ⟨Gen_Schema_RemoveType_eq s n, Gen_Schema_RemoveAttr_eq s n a, Gen_Schema_RemoveRel_eq s n a,
   Gen_Type_RemoveAttr_eq t a, Gen_Type_RemoveRel_eq t a⟩

/-! ### A whole history on the translated functions -/

namespace C14T

/-- One call of the editing API on the TRANSLATED functions (`step` of Props/C14.lean with
every model function replaced by its translation). -/
def genStep (s : Schema) : Op → Schema × Res Unit
  | .addType t => Gen.Schema_AddType s t
  | .removeType n => (Gen.Schema_RemoveType s n, .ok ())
  | .addAttr n a => Gen.Schema_AddAttr s n a
  | .removeAttr n a => (Gen.Schema_RemoveAttr s n a, .ok ())
  | .addRel n r => Gen.Schema_AddRel s n r
  | .removeRel n a => (Gen.Schema_RemoveRel s n a, .ok ())
  | .addTwoWayRel r => Gen.Schema_AddTwoWayRel s r

/-- a history replayed on the translated functions, from the empty schema -/
def genRun (ops : List Op) : Schema := ops.foldl (fun s op => (genStep s op).1) Schema.empty

end C14T

open C14T

/-- Every op, every schema: the translated call does not panic. -/
theorem C14T_genStep_no_panic (s : Schema) (op : Op) : (genStep s op).2 ≠ .panic := by
  cases op with
  | addType t => exact C14T_no_panic_AddType s t
  | removeType n => simp [genStep]
  | addAttr n a => exact C14T_no_panic_AddAttr s n a
  | removeAttr n a => simp [genStep]
  | addRel n r => exact C14T_no_panic_AddRel s n r
  | removeRel n a => simp [genStep]
  | addTwoWayRel r => exact C14T_no_panic_AddTwoWayRel s r

/-- On a schema with unique type names (in particular under C14's invariant) one translated
call is the model's `step`: same schema after the call, same result class. -/
theorem C14T_genStep_eq (s : Schema) (hnd : (s.types.map (·.name)).Nodup) (op : Op) :
    genStep s op = step s op := by
  cases op with
  | addType t => exact Gen_Schema_AddType_eq s t
  | removeType n => simp only [genStep, step, Gen_Schema_RemoveType_eq]
  | addAttr n a => exact Gen_Schema_AddAttr_eq s n a
  | removeAttr n a => simp only [genStep, step, Gen_Schema_RemoveAttr_eq]
  | addRel n r => exact Gen_Schema_AddRel_eq s n r
  | removeRel n a => simp only [genStep, step, Gen_Schema_RemoveRel_eq]
  | addTwoWayRel r => exact Gen_Schema_AddTwoWayRel_eq s hnd r

theorem C14T.foldl_eq (ops : List Op) (hops : ∀ op ∈ ops, op.ok) (s : Schema) (hs : Inv s) :
    ops.foldl (fun s op => (genStep s op).1) s = ops.foldl (fun s op => (step s op).1) s := by
  induction ops generalizing s with
  | nil => rfl
  | cons op ops ih =>
    simp only [List.foldl_cons]
    rw [C14T_genStep_eq s hs.1 op]
    exact ih (fun o ho => hops o (List.mem_cons_of_mem _ ho)) _
      (step_inv s hs op (hops op List.mem_cons_self))

/-- A history replayed on the translated functions reaches the model's state. -/
theorem C14T_genRun_eq (ops : List Op) (hops : ∀ op ∈ ops, op.ok) : genRun ops = run ops :=
  C14T.foldl_eq ops hops _ inv_empty

/-- **C14's first clause for the translated API.** After any history of the seven editing calls
(types handed to `AddType` well-formed) replayed on the TRANSLATED functions from the empty
schema: the schema they have built satisfies C14's invariant, it is the model's, and no call of
the history has panicked - each call being, moreover, the model's `step` on the model's state. -/
theorem C14T_history (ops : List Op) (hops : ∀ op ∈ ops, op.ok) :
    Inv (genRun ops) ∧ genRun ops = run ops ∧
    ∀ (pre : List Op) (op : Op) (post : List Op), ops = pre ++ op :: post →
      (genStep (genRun pre) op).2 ≠ .panic ∧ genStep (genRun pre) op = step (run pre) op := by
  refine ⟨?_, C14T_genRun_eq ops hops, ?_⟩
  · rw [C14T_genRun_eq ops hops]; exact (C14_inv ops hops).1
  · intro pre op post e
    refine ⟨C14T_genStep_no_panic _ op, ?_⟩
    have hpre : ∀ o ∈ pre, o.ok := fun o ho => hops o (by rw [e]; exact List.mem_append_left _ ho)
    rw [C14T_genRun_eq pre hpre]
    exact C14T_genStep_eq _ (C14_inv pre hpre).1.1 op

/-- Non-vacuity: AddType users, AddType posts, AddTwoWayRel users.posts <-> posts.author, then a
second AddType users (refused) on the translated functions: result classes ok, ok, ok, err and
two types with one relationship each. -/
example :
    let u : Typ := { name := gs "users", attrs := [], rels := [] }
    let p : Typ := { name := gs "posts", attrs := [], rels := [] }
    let r : Rel := { fromType := gs "users", fromName := gs "posts", toOne := false,
                     toType := gs "posts", toName := gs "author", fromOne := true }
    let ops : List Op := [.addType u, .addType p, .addTwoWayRel r]
    (genStep (genRun []) (.addType u)).2 = .ok () ∧
    (genStep (genRun [.addType u, .addType p]) (.addTwoWayRel r)).2 = .ok () ∧
    (genStep (genRun ops) (.addType u)).2 = .err ∧
    (genRun ops).types.map (fun t => t.rels.length) = [1, 1] := by
  decide

end Jsonapi

section Axioms
open Jsonapi
#print axioms C14T_no_panic_Type_AddAttr
#print axioms C14T_no_panic_Type_AddRel
#print axioms C14T_no_panic_AddType
#print axioms C14T_no_panic_AddAttr
#print axioms C14T_no_panic_AddRel
#print axioms C14T_no_panic_AddTwoWayRel_of_eq
#print axioms C14T_no_panic_AddTwoWayRel
#print axioms C14T_removals_total
#print axioms C14T_genStep_no_panic
#print axioms C14T_genStep_eq
#print axioms C14T_genRun_eq
#print axioms C14T_history
end Axioms
