/-
C13P — Partial unmarshaling, audit follow-up (additive to Props/C13.lean, Props/C05B.lean).

(i)   `C13_partial_conforms`: the resource partial unmarshaling returns satisfies C05's
      conformance clauses with respect to ITS OWN (partial) type, whose definitions are the
      schema's: every attribute holds a value of exactly the declared Go type (or nil for a
      nullable one), a to-one relationship a string, a to-many one a string list - both through
      `Get` (`s.get`) and through the view the library reads (`s.view`).
(ii)  `C13_no_others`: a name that is neither a member of the payload's `attributes` nor a
      relationship of the payload carrying `data` reads as nil and is in neither `Attrs()` nor
      `Rels()`; `id` reads the payload's id.
(iii) `C13B_present_iff_data`: from the payload BYTES - `present` of `C13_fields` / `C13_values`
      is no free Boolean: a relationship is in the partial resource iff the relationship object
      the decoder kept for that name has a `data` member (`null` included; matched as
      `encoding/json` matches struct fields: exact name, else case-folded).
(iv)  `C13_fields` / `C13_values` / (i) / (ii) instantiated on a struct-backed type.
-/
import Jsonapi.Props.C05B
namespace Jsonapi
open GoMap UnmL Spec

namespace C13P

/-! ### 1. The stored values of the partial resource are typed -/

theorem Soft.set_typ (s : Soft) (k : GoString) (v : GoVal) : (s.set k v).typ = s.typ := by
  unfold Soft.set Soft.check
  simp only []
  repeat' split
  all_goals rfl

/-- typing of the stored values survives the growth of the (partial) type -/
theorem SoftTyped.extend {t1 t2 : Typ} (wf2 : TypWF t2) (sub : Sub t1 t2) {d : GoMap GoVal}
    (hk : ∀ x ∈ keys d, x ∈ t1.fieldKeys) (h : SoftTyped t1 d) : SoftTyped t2 d := by
  intro f a x ha hx
  have hf : f ∈ t1.fieldKeys := hk f (mem_keys_of_get? hx)
  rcases List.mem_append.1 hf with hfa | hfr
  · have hs : (t1.attrs.get? f).isSome = true := has_iff_mem_keys.2 hfa
    cases h1 : t1.attrs.get? f with
    | none => rw [h1] at hs; cases hs
    | some a1 =>
      have := sub.1 f a1 h1
      rw [ha] at this; cases this
      exact h f a x h1 hx
  · have hs : (t1.rels.get? f).isSome = true := has_iff_mem_keys.2 hfr
    cases h1 : t1.rels.get? f with
    | none => rw [h1] at hs; cases hs
    | some r1 =>
      have := sub.2 f r1 h1
      exact absurd (mem_keys_of_get? this) (wf2.disj f (mem_keys_of_get? ha))

/-- `PInv` with the typing of the stored values -/
def PInvT (t : Typ) (h : Hist) (s : Soft) : Prop := PInv t h s ∧ SoftTyped s.typ s.data

theorem PInvT.extend_set {h : Hist} {s : Soft} {t t2 : Typ} (inv : PInv t h s)
    (typed : SoftTyped s.typ s.data) (wf2 : TypWF t2) (sub12 : Sub s.typ t2) (k : GoString) (v : GoVal)
    (hflds : ∀ f, f ∈ t2.fieldKeys ↔ f ∈ s.typ.fieldKeys ∨ f = k) :
    SoftTyped (({ s with typ := t2 } : Soft).set k v).typ (({ s with typ := t2 } : Soft).set k v).data := by
  rw [Soft.set_typ]
  have hk : ∀ x ∈ keys s.data, x ∈ t2.fieldKeys := fun x hx => (hflds x).2 (.inl (inv.inv.keys x hx))
  exact SoftTyped.step wf2 (s := { s with typ := t2 }) rfl hk
    (SoftTyped.extend wf2 sub12 inv.inv.keys typed) k v

theorem pT_attr_fold {t : Typ} (ht : TypWF t) (hn : Spec.namesOk t = true) (l : GoMap RawVal)
    (h : Hist) (s : Soft) (inv : PInvT t h s) :
    (attrsOk t l = true → ∃ s', l.foldl (pAttrStep t) (.ok s) = .ok s' ∧
      PInvT t (h ++ l.filterMap (attrEntry t)) s') ∧
    (attrsOk t l = false → l.foldl (pAttrStep t) (.ok s) = .err) := by
  refine fold_inv (pAttrStep t) (fun _ => rfl) (PInvT t) (attrEntry t) (fun p => (attrEntry t p).isSome)
    ?_ ?_ ?_ l h s inv
  · intro h s b e inv _ he
    obtain ⟨inv, typed⟩ := inv
    obtain ⟨a, ha, hv, e1, e2⟩ := attrEntry_some ht he
    obtain ⟨_, _, k, hk⟩ := attr_of_get? ht ha
    obtain ⟨x1, x2, x3, x4, x5, x6⟩ := addAttr_ext inv.wf ht inv.sub ha
    have hid : a.name ≠ idName := by
      rw [e2]; exact (namesOk_mem hn (List.mem_append_left _ (mem_keys_of_get? ha))).1
    have hok := setOk_attr hid x5 hk (toType_hasAttrType a b.2 e.2 k hv hk)
    have := PInv.extend_set ht hn inv _ x1 (x2.trans inv.name) x3 x4 a.name e.2 x6 hok
    have ee : e = (a.name, e.2) := by rw [← e1.trans e2.symm]
    refine ⟨_, ?_, by rw [ee]; exact ⟨this, PInvT.extend_set inv typed x1 x4 a.name e.2 x6⟩⟩
    simp only [pAttrStep, ha, hv]
  · intro h a b _ hg he
    rw [he] at hg; cases hg
  · intro h a b _ hg
    simp only [pAttrStep]
    unfold attrEntry at hg
    cases ha : t.attrs.get? b.1 with
    | none => rfl
    | some at' =>
      simp only [ha] at hg
      simp only []
      cases hv : unmarshalToType at' b.2 with
      | ok v => simp only [hv] at hg; cases hg
      | err => rfl
      | panic => exact absurd hv (toType_no_panic _ _)

theorem pT_rel_fold {t : Typ} (ht : TypWF t) (hn : Spec.namesOk t = true) (l : GoMap RelRaw)
    (h : Hist) (s : Soft) (inv : PInvT t h s) :
    (relsOk t l = true → ∃ s', l.foldl (pRelStep t) (.ok s) = .ok s' ∧
      PInvT t (h ++ l.filterMap (relEntry t)) s') ∧
    (relsOk t l = false → l.foldl (pRelStep t) (.ok s) = .err) := by
  refine fold_inv (pRelStep t) (fun _ => rfl) (PInvT t) (relEntry t) (relOk t) ?_ ?_ ?_ l h s inv
  · intro h s b e inv hg he
    obtain ⟨inv, typed⟩ := inv
    obtain ⟨rel, hr, hv, e1, e2⟩ := relEntry_some ht he
    obtain ⟨x1, x2, x3, x4, x5, x6⟩ := addRel_ext inv.wf ht inv.sub hr
    have hid : rel.fromName ≠ idName := by
      rw [e2]; exact (namesOk_mem hn (List.mem_append_right _ (mem_keys_of_get? hr))).1
    have hok := setOk_rel x1 hid x5 (relValue_typed rel b.2 e.2 hv)
    have := PInv.extend_set ht hn inv _ x1 (x2.trans inv.name) x3 x4 rel.fromName e.2 x6 hok
    have ee : e = (rel.fromName, e.2) := by rw [← e1.trans e2.symm]
    have hbad : (relValue rel b.2).2 = false := by
      unfold relOk at hg; rw [hr] at hg; simpa using hg
    refine ⟨_, ?_, by rw [ee]; exact ⟨this, PInvT.extend_set inv typed x1 x4 rel.fromName e.2 x6⟩⟩
    simp only [pRelStep, hr]
    rw [show relValue rel b.2 = ((relValue rel b.2).1, (relValue rel b.2).2) from rfl, hv, hbad]
    simp only [Bool.false_eq_true, if_false]
  · intro h a b _ hg he
    unfold relOk at hg
    unfold relEntry at he
    cases hr : t.rels.get? b.1 with
    | none => rw [hr] at hg; cases hg
    | some rel =>
      rw [hr] at hg he
      have hbad : (relValue rel b.2).2 = false := by simpa using hg
      have hv : (relValue rel b.2).1 = none := by simpa using he
      simp only [pRelStep, hr]
      rw [show relValue rel b.2 = ((relValue rel b.2).1, (relValue rel b.2).2) from rfl, hv, hbad]
      simp
  · intro h a b inv hg
    unfold relOk at hg
    cases hr : t.rels.get? b.1 with
    | none => simp only [pRelStep, hr]
    | some rel =>
      rw [hr] at hg
      have hbad : (relValue rel b.2).2 = true := by simpa using hg
      simp only [pRelStep, hr]
      rw [show relValue rel b.2 = ((relValue rel b.2).1, (relValue rel b.2).2) from rfl, hbad]
      cases (relValue rel b.2).1 <;> simp

/-- the partial resource of an accepted payload: `PInv` (Proofs/UnmarshalLemmas4) and typed
stored values -/
theorem partial_typed {σ : SSchema} (hσ : σ.WF) {sk : ResSke} {s : Soft}
    (h : unmarshalPartialResource σ sk = .ok s) :
    ∃ st, σ.getType sk.typ = some st ∧ PInv st.typ (fullHist st.typ sk) s ∧
      SoftTyped s.typ s.data := by
  obtain ⟨st, hg, okA, okR, hbody, pinv⟩ := ((partial_spec hσ sk).2 s).1 h
  obtain ⟨hm, _⟩ := getType_some hg
  obtain ⟨_, ht, hn, _⟩ := hσ.2 st hm
  refine ⟨st, hg, pinv, ?_⟩
  have i0 : PInvT st.typ [idEntry sk] (partInit st.typ sk) :=
    ⟨PInv.init st.typ sk, by intro f a x _ hx; simp [partInit, get?] at hx⟩
  obtain ⟨s2, e2, inv2⟩ := (pT_attr_fold ht hn sk.attrs _ _ i0).1 okA
  obtain ⟨s3, e3, inv3⟩ := (pT_rel_fold ht hn sk.rels _ s2 inv2).1 okR
  unfold partBody at hbody
  rw [e2, e3] at hbody
  cases hbody
  exact inv3.2

end C13P

/-! ### 2. (i) The partial resource conforms -/

open C13P in
/-- The resource returned by partial unmarshaling satisfies C05's conformance clauses
(`C05_conforms`) with respect to its own type, whose name is the schema type's and whose
definitions are the schema type's: every attribute of it holds a value of exactly the declared
Go type, or nil for a nullable one; a to-one relationship holds a string, a to-many one a
string list. `s.get` is `SoftResource.Get`; the view (`s.view`: what MarshalResource, Equal,
Range … read through the Resource interface) lists exactly that type's fields and reads the
same values. -/
theorem C13_partial_conforms (σ : SSchema) (hσ : σ.WF) (sk : ResSke) (s : Soft)
    (h : unmarshalPartialResource σ sk = .ok s) :
    ∃ st ∈ σ, st.typ.name = sk.typ ∧ s.typ.name = st.typ.name ∧
      (∀ key a, s.typ.attrs.get? key = some a → st.typ.attrs.get? key = some a ∧
        ∃ k, Kind.ofCode? a.ty = some k ∧
          ((s.get key).hasAttrType k a.nullable = true ∨ (a.nullable = true ∧ s.get key = .nil))) ∧
      (∀ key rel, s.typ.rels.get? key = some rel → st.typ.rels.get? key = some rel ∧
        if rel.toOne then ∃ id, s.get key = .val .string (.s id) else ∃ l, s.get key = .strs l) ∧
      s.view.typeName = st.typ.name ∧ s.view.attrs = s.typ.attrs ∧ s.view.rels = s.typ.rels ∧
      (∀ key ∈ s.typ.attrs.keys ++ s.typ.rels.keys, s.view.get key = s.get key) := by
  obtain ⟨st, hg, pinv, typed⟩ := partial_typed hσ h
  obtain ⟨hm, hname⟩ := getType_some hg
  obtain ⟨_, ht, hn, _⟩ := hσ.2 st hm
  have hn' := pinv.sub.namesOk_mono hn
  have ainv : AInv s.typ (fullHist st.typ sk) (.soft s) := ⟨pinv.inv, typed⟩
  obtain ⟨v, hv, e1, _, _, e4, e5⟩ := ainv.conforms pinv.wf hn' pinv.hok
  simp only [AnyRes.view?, Option.some.injEq] at hv
  subst hv
  have hview : ∀ key ∈ s.typ.attrs.keys ++ s.typ.rels.keys, s.view.get key = s.get key :=
    fun key hk => Soft.view_get pinv.wf s rfl pinv.inv.keys hk (namesOk_mem hn' hk).1
  refine ⟨st, hm, hname, pinv.name, ?_, ?_, e1.trans pinv.name, rfl, rfl, hview⟩
  · intro key a ha
    obtain ⟨k, hk, hty⟩ := e4 key a ha
    rw [hview key (List.mem_append_left _ (mem_keys_of_get? ha))] at hty
    exact ⟨pinv.sub.1 key a ha, k, hk, hty⟩
  · intro key rel hr
    have := e5 key rel hr
    rw [hview key (List.mem_append_right _ (mem_keys_of_get? hr))] at this
    exact ⟨pinv.sub.2 key rel hr, this⟩

/-! ### 3. (ii) No other fields -/

/-- A name outside the partial type - neither a member of the payload's `attributes` nor a
relationship of the payload whose object carries `data` - is not an attribute and not a
relationship of the partial resource (it is in neither `Attrs()` nor `Rels()`, also as the
view lists them) and `Get` returns nil for it, unless it is `id`, which reads the payload's
id. -/
theorem C13_no_others (σ : SSchema) (hσ : σ.WF) (sk : ResSke) (s : Soft)
    (hk : sk.attrs.keys.Nodup ∧ sk.rels.keys.Nodup)
    (h : unmarshalPartialResource σ sk = .ok s) (key : GoString)
    (hna : sk.attrs.has key = false)
    (hnr : ¬ ∃ v, sk.rels.get? key = some v ∧ v.present = true) :
    s.typ.attrs.has key = false ∧ s.typ.rels.has key = false ∧
    key ∉ s.view.attrs.keys ∧ key ∉ s.view.rels.keys ∧
    (key ≠ idName → s.get key = .nil) ∧
    s.get idName = .val .string (.s sk.id) := by
  obtain ⟨st, _, _, _, hid, fA, _, fR, _, _⟩ := C13_fields σ hσ sk s hk h
  have h1 : s.typ.attrs.has key = false := by
    cases hh : s.typ.attrs.has key with
    | false => rfl
    | true => rw [(fA key).1 hh] at hna; cases hna
  have h2 : s.typ.rels.has key = false := by
    cases hh : s.typ.rels.has key with
    | false => rfl
    | true => exact absurd ((fR key).1 hh) hnr
  refine ⟨h1, h2, ?_, ?_, ?_, ?_⟩
  · intro hm
    have : s.typ.attrs.has key = true := has_iff_mem_keys.2 hm
    rw [h1] at this; cases this
  · intro hm
    have : s.typ.rels.has key = true := has_iff_mem_keys.2 hm
    rw [h2] at this; cases this
  · intro hne
    unfold Soft.get Soft.check
    simp only [hne, if_false, h1, h2, Bool.false_eq_true]
  · unfold Soft.get Soft.check
    simp only [if_true, hid]

/-! ### 4. (iii) `present` is "the relationship object has a `data` member" -/

/-- The relationship object `v` (a value of the payload, as written) has a `data` member: an
object with a member whose decoded key names the field `Data` of `relationshipSkeleton` as
`encoding/json` matches it - `data` exactly, else case-folded (`Data`, `DATA`, …). The value of
the member is irrelevant: `null` counts. -/
def C13P.hasDataMember : CJson → Bool
  | .obj _ ms => ms.any (fun m => fieldIdx relFields (unquote m.2.1) = some 0)
  | _ => false

/-- `v` is a relationship object the payload `j` gives for the name `key`: the value of a
member named `key` of an object that is the value of a member of the top-level object matching
the field `relationships`. (Without repeated members there is at most one.) -/
def C13P.IsRelObject (j : CJson) (key : GoString) (v : CJson) : Prop :=
  ∃ ws ms, j = .obj ws ms ∧ ∃ m ∈ ms, fieldIdx resFields (unquote m.2.1) = some 3 ∧
    ∃ ws' rms, m.2.2.2.1 = .obj ws' rms ∧ ∃ rm ∈ rms, unquote rm.2.1 = key ∧ rm.2.2.2.1 = v

namespace C13P

theorem relMembers_isSome : ∀ (ms : List CMember) (acc o : Option CJson),
    relMembers acc ms = some o →
      o.isSome = (acc.isSome || ms.any (fun m => fieldIdx relFields (unquote m.2.1) = some 0))
  | [], acc, o, h => by
    simp only [relMembers, Option.some.injEq] at h
    subst h; simp
  | (_, k, _, v, _) :: ms, acc, o, h => by
    unfold relMembers at h
    simp only [List.any_cons]
    cases hfi : fieldIdx relFields (unquote k) with
    | none =>
      rw [hfi] at h
      simp only at h
      rw [relMembers_isSome ms acc o h]; simp
    | some n =>
      rw [hfi] at h
      match n, hfi, h with
      | 0, _, h =>
        simp only at h
        rw [relMembers_isSome ms (some v) o h]; simp
      | 1, _, h =>
        simp only at h
        split at h
        · rw [relMembers_isSome ms acc o h]; simp
        · cases h
      | 2, _, h =>
        simp only at h
        split at h
        · rw [relMembers_isSome ms acc o h]; simp
        · cases h
      | n + 3, _, h =>
        simp only at h
        rw [relMembers_isSome ms acc o h]; simp

/-- what the decoder reports as `present` for a relationship object is whether the object has a
`data` member -/
theorem decodeRel_present {v : CJson} {rv : RelRaw} (h : decodeRel v = some rv) :
    rv.present = hasDataMember v := by
  cases v with
  | null => simp only [decodeRel, Option.some.injEq] at h; subst h; rfl
  | obj ws ms =>
    simp only [decodeRel] at h
    cases ho : relMembers none ms with
    | none => rw [ho] at h; cases h
    | some o =>
      rw [ho] at h
      simp only [Option.map_some, Option.some.injEq] at h
      subst h
      have := relMembers_isSome ms none o ho
      simp only [Option.isSome_none, Bool.false_or] at this
      show (relRawOf o).present = ms.any _
      rw [← this]
      cases o <;> rfl
  | bool b => cases h
  | num l => cases h
  | str r => cases h
  | arr ws items => cases h

/-- every entry of a relationships map is the decode of a relationship object found among the
members `ms0` of the payload's top-level object -/
def RInv (ms0 : List CMember) (m : GoMap RelRaw) : Prop :=
  ∀ key rv, m.get? key = some rv → ∃ v, (∃ mm ∈ ms0, fieldIdx resFields (unquote mm.2.1) = some 3 ∧
    ∃ ws' rms, mm.2.2.2.1 = .obj ws' rms ∧ ∃ rm ∈ rms, unquote rm.2.1 = key ∧ rm.2.2.2.1 = v) ∧
    decodeRel v = some rv

theorem relsInto_RInv (ms0 : List CMember) (mm : CMember) (hmm : mm ∈ ms0)
    (hfi : fieldIdx resFields (unquote mm.2.1) = some 3) (ws' : GoString) (rms : List CMember)
    (hobj : mm.2.2.2.1 = .obj ws' rms) :
    ∀ (l : List CMember) (cur out : GoMap RelRaw), (∀ rm ∈ l, rm ∈ rms) → RInv ms0 cur →
      relsInto cur l = some out → RInv ms0 out
  | [], cur, out, _, hc, h => by
    simp only [relsInto, Option.some.injEq] at h; subst h; exact hc
  | (a, k, b, v, c) :: l, cur, out, hsub, hc, h => by
    unfold relsInto at h
    cases hd : decodeRel v with
    | none => rw [hd] at h; cases h
    | some r =>
      rw [hd] at h
      simp only at h
      refine relsInto_RInv ms0 mm hmm hfi ws' rms hobj l _ out
        (fun rm hrm => hsub rm (List.mem_cons_of_mem _ hrm)) ?_ h
      intro key rv hg
      by_cases e : key = unquote k
      · subst e
        rw [get?_set_self] at hg
        cases hg
        exact ⟨v, ⟨mm, hmm, hfi, ws', rms, hobj, (a, k, b, v, c), hsub _ (List.mem_cons_self ..), rfl, rfl⟩, hd⟩
      · rw [get?_set_ne _ _ _ _ e] at hg
        exact hc key rv hg

theorem resMembers_RInv (D : Delegated) (ms0 : List CMember) :
    ∀ (ms : List CMember) (acc sk : ResSke), (∀ m ∈ ms, m ∈ ms0) → RInv ms0 acc.rels →
      resMembers D acc ms = some sk → RInv ms0 sk.rels
  | [], acc, sk, _, hc, h => by
    simp only [resMembers, Option.some.injEq] at h; subst h; exact hc
  | (a, k, b, v, c) :: ms, acc, sk, hsub, hc, h => by
    have hsub' : ∀ m ∈ ms, m ∈ ms0 := fun m hm => hsub m (List.mem_cons_of_mem _ hm)
    have hmm : (a, k, b, v, c) ∈ ms0 := hsub _ (List.mem_cons_self ..)
    unfold resMembers at h
    cases hfi : fieldIdx resFields (unquote k) with
    | none =>
      rw [hfi] at h
      exact resMembers_RInv D ms0 ms acc sk hsub' hc h
    | some n =>
      rw [hfi] at h
      match n, hfi, h with
      | 0, _, h =>
        simp only at h
        split at h
        · refine resMembers_RInv D ms0 ms _ sk hsub' ?_ h; exact hc
        · cases h
      | 1, _, h =>
        simp only at h
        split at h
        · refine resMembers_RInv D ms0 ms _ sk hsub' ?_ h; exact hc
        · cases h
      | 2, _, h =>
        simp only at h
        split at h
        · refine resMembers_RInv D ms0 ms _ sk hsub' ?_ h; exact hc
        · refine resMembers_RInv D ms0 ms _ sk hsub' ?_ h; exact hc
        · cases h
      | 3, hfi, h =>
        simp only at h
        cases v with
        | null =>
          simp only at h
          refine resMembers_RInv D ms0 ms _ sk hsub' ?_ h
          intro key rv hg; simp [get?] at hg
        | obj ws' rs =>
          simp only at h
          cases hm' : relsInto acc.rels rs with
          | none => rw [hm'] at h; cases h
          | some m' =>
            rw [hm'] at h
            simp only at h
            refine resMembers_RInv D ms0 ms _ sk hsub' ?_ h
            exact relsInto_RInv ms0 (a, k, b, .obj ws' rs, c) hmm hfi ws' rs rfl rs _ m'
              (fun rm hrm => hrm) hc hm'
        | bool _ => cases h
        | num _ => cases h
        | str _ => cases h
        | arr _ _ => cases h
      | 4, _, h =>
        simp only at h
        split at h
        · refine resMembers_RInv D ms0 ms _ sk hsub' ?_ h; exact hc
        · cases h
      | n + 5, _, h =>
        simp only at h
        exact resMembers_RInv D ms0 ms acc sk hsub' hc h

/-- every relationship entry of the decoded skeleton is the decode of a relationship object of
the payload with that name, and its `present` is "that object has a `data` member" -/
theorem decodeRes_rels (D : Delegated) (j : CJson) (sk : ResSke) (h : decodeRes D j = some sk) :
    ∀ key rv, sk.rels.get? key = some rv →
      ∃ v, IsRelObject j key v ∧ decodeRel v = some rv ∧ rv.present = hasDataMember v := by
  intro key rv hg
  cases j with
  | null =>
    simp only [decodeRes, Option.some.injEq] at h
    subst h
    simp [ResSke.zero, get?] at hg
  | obj ws ms =>
    simp only [decodeRes] at h
    have := resMembers_RInv D ms ms ResSke.zero sk (fun m hm => hm)
      (by intro key rv hg; simp [ResSke.zero, get?] at hg) h key rv hg
    obtain ⟨v, ⟨mm, hmm, hfi, ws', rms, hobj, rm, hrm, hk, hv⟩, hd⟩ := this
    exact ⟨v, ⟨ws, ms, rfl, mm, hmm, hfi, ws', rms, hobj, rm, hrm, hk, hv⟩, hd, decodeRel_present hd⟩
  | bool b => cases h
  | num l => cases h
  | str r => cases h
  | arr ws items => cases h

end C13P

open C13P in
/-- **From the payload bytes:** for every byte string partial unmarshaling accepts, with `j` the
parsed payload and `sk` the decoded skeleton: each relationship entry of the skeleton is the
decode of a relationship object `v` of the payload under that name and its `present` flag - the
free Boolean of `C13_fields` / `C13_values` - is `hasDataMember v`; hence a relationship is in
the partial resource if and only if the relationship object the decoder kept for its name has
a `data` member (`null` included: `C13P_data_null_counts`). -/
theorem C13B_present_iff_data (D : Delegated) (σ : SSchema) (hσ : σ.WF) (bytes : GoString) (s : Soft)
    (h : unmarshalPartialResourceBytes D σ bytes = .ok s) :
    ∃ j sk, parseJsonC bytes = some j ∧ decodeRes D j = some sk ∧
      (∀ key rv, sk.rels.get? key = some rv →
        ∃ v, IsRelObject j key v ∧ decodeRel v = some rv ∧ rv.present = hasDataMember v) ∧
      (∀ key, s.typ.rels.has key = true ↔
        ∃ v rv, IsRelObject j key v ∧ decodeRel v = some rv ∧ sk.rels.get? key = some rv ∧
          hasDataMember v = true) := by
  obtain ⟨j, sk, hj, hsk, _, _, st, _, _, _, _, _, fR⟩ := C05B_partial_fields D σ hσ bytes s h
  have hr := decodeRes_rels D j sk hsk
  refine ⟨j, sk, hj, hsk, hr, ?_⟩
  intro key
  rw [fR key]
  constructor
  · rintro ⟨rv, hg, hp⟩
    obtain ⟨v, h1, h2, h3⟩ := hr key rv hg
    exact ⟨v, rv, h1, h2, hg, by rw [← h3]; exact hp⟩
  · rintro ⟨v, rv, _, h2, hg, hd⟩
    exact ⟨rv, hg, by rw [decodeRel_present h2]; exact hd⟩

namespace C13P

/-! ### 5. (iv) Non-vacuity, on a struct-backed type -/

/-- `{"id":"1","type":"w","attributes":{"a":-128},"relationships":{"o":{"data":{"id":"k","type":"u"}},"m":{}}}`
for the STRUCT-BACKED type "w" of `C05_exσ` (attribute a int8, to-one o, to-many m): m has no
data member. -/
def exSk : ResSke :=
  { id := [49], typ := [119],
    attrs := [([97], { bytes := [45, 49, 50, 56], decStr := none, decTime := none, decBytes := none })],
    rels := [([111], { present := true, isNull := false, decIdent := some ([107], [117]), decIdents := none }),
             ([109], { present := false, isNull := false, decIdent := none, decIdents := none })],
    smeta := default }

def exRelO : Rel :=
  { fromType := [116], fromName := [111], toOne := true, toType := [117], toName := [], fromOne := false }

theorem exSk_accepted : ∃ s, unmarshalPartialResource C05_exσ exSk = .ok s := by
  have h : (unmarshalPartialResource C05_exσ exSk).isOk = true := by decide
  cases hr : unmarshalPartialResource C05_exσ exSk with
  | ok r => exact ⟨r, rfl⟩
  | err => rw [hr] at h; cases h
  | panic => rw [hr] at h; cases h

end C13P

open C13P in
/-- `C13_fields`, `C13_values`, `C13_partial_conforms` and `C13_no_others` instantiated on the
struct-backed type: the partial resource is named "w", has the payload's id, exactly the
attribute a (with the schema's definition) and the relationship o - not m, which has no data
member -, reads a = int8(-128), o = "k", m = nil, and a holds a value of its declared type. -/
example : ∃ s, unmarshalPartialResource C05_exσ exSk = .ok s ∧
    s.typ.name = [119] ∧ s.id = [49] ∧
    s.typ.attrs.has [97] = true ∧ s.typ.rels.has [111] = true ∧ s.typ.rels.has [109] = false ∧
    (∀ a, s.typ.attrs.get? [97] = some a → a = { name := [97], ty := 3, nullable := false }) ∧
    Spec.canon (s.get [97]) = .val .int8 (.i (-128)) ∧
    s.get [111] = .val .string (.s [107]) ∧ s.get [109] = .nil ∧
    (∀ a, s.typ.attrs.get? [97] = some a → ∃ k, Kind.ofCode? a.ty = some k ∧
      ((s.get [97]).hasAttrType k a.nullable = true ∨ (a.nullable = true ∧ s.get [97] = .nil))) := by
  obtain ⟨s, hs⟩ := exSk_accepted
  have hk : exSk.attrs.keys.Nodup ∧ exSk.rels.keys.Nodup := by decide
  -- the schema type is "w"
  have hW : ∀ st ∈ C05_exσ, st.typ.name = exSk.typ → st = { typ := C05_exW, backed := true } := by
    intro st hst hn
    simp only [C05_exσ, List.mem_cons, List.not_mem_nil, or_false] at hst
    rcases hst with rfl | rfl
    · exact absurd hn (by decide)
    · rfl
  obtain ⟨st, hst, hn, f1, f2, f3, f4, f5, _, _⟩ := C13_fields C05_exσ C05_exσ_wf exSk s hk hs
  have e := hW st hst hn; subst e
  obtain ⟨st', hst', hn', v1, v2⟩ := C13_values C05_exσ C05_exσ_wf exSk s hk hs
  have e := hW st' hst' hn'; subst e
  obtain ⟨st'', hst'', hn'', _, c1, _⟩ := C13_partial_conforms C05_exσ C05_exσ_wf exSk s hs
  have hno := C13_no_others C05_exσ C05_exσ_wf exSk s hk hs [109] (by decide)
    (by
      rintro ⟨v, hv, hp⟩
      have e : exSk.rels.get? [109] = some { present := false, isNull := false, decIdent := none, decIdents := none } := rfl
      rw [e] at hv; cases hv; cases hp)
  refine ⟨s, hs, f1, f2, (f3 [97]).2 (by decide), (f5 [111]).2 ⟨_, rfl, rfl⟩, hno.2.1, ?_, ?_, ?_,
    hno.2.2.2.2.1 (by decide), fun a ha => (c1 [97] a ha).2⟩
  · intro a ha
    have := f4 [97] a ha
    rw [show C05_exW.attrs.get? [97] = some { name := [97], ty := 3, nullable := false } from by decide] at this
    cases this; rfl
  · obtain ⟨a, x, ha, hx, hc⟩ := v1 [97] _ rfl
    rw [show C05_exW.attrs.get? [97] = some { name := [97], ty := 3, nullable := false } from by decide] at ha
    cases ha
    rw [show unmarshalToType { name := [97], ty := 3, nullable := false }
        { bytes := [45, 49, 50, 56], decStr := none, decTime := none, decBytes := none } =
        .ok (.val .int8 (.i (-128))) from by decide] at hx
    cases hx
    exact hc
  · obtain ⟨rel, hr, hv⟩ := v2 [111] _ rfl rfl
    rw [show C05_exW.rels.get? [111] = some exRelO from by decide] at hr
    cases hr
    have : some (GoVal.val .string (.s [107])) = some (s.get [111]) := hv
    exact (Option.some.inj this).symm

namespace C13P

set_option maxRecDepth 20000 in
/-- `null` counts as a data member, a case variant of the name too; `links` alone does not:
`{"data":null}`, `{"DATA":[]}`, `{"links":{}}`, `{}` read from bytes. -/
theorem data_null_counts :
    (parseJsonC [123, 34, 100, 97, 116, 97, 34, 58, 110, 117, 108, 108, 125]).map hasDataMember = some true ∧
    (parseJsonC [123, 34, 68, 65, 84, 65, 34, 58, 91, 93, 125]).map hasDataMember = some true ∧
    (parseJsonC [123, 34, 108, 105, 110, 107, 115, 34, 58, 123, 125, 125]).map hasDataMember = some false ∧
    (parseJsonC [123, 125]).map hasDataMember = some false := by decide

/-- `{"type":"t","relationships":{"o":{"data":null},"m":{"links":{}}}}`: partial unmarshaling of
the BYTES keeps o (data null: the empty to-one) and not m. -/
def exBytes : GoString :=
  [123, 34, 116, 121, 112, 101, 34, 58, 34, 116, 34, 44, 34, 114, 101, 108, 97, 116, 105, 111, 110,
   115, 104, 105, 112, 115, 34, 58, 123, 34, 111, 34, 58, 123, 34, 100, 97, 116, 97, 34, 58, 110,
   117, 108, 108, 125, 44, 34, 109, 34, 58, 123, 34, 108, 105, 110, 107, 115, 34, 58, 123, 125,
   125, 125, 125]

set_option maxRecDepth 20000 in
example :
    (match unmarshalPartialResourceBytes C05B_exD C05_exσ exBytes with
      | .ok s => s.typ.rels.keys == [[111]] && s.get [111] == .val .string (.s []) && s.get [109] == .nil
      | _ => false) = true := by decide

end C13P

end Jsonapi

section Axioms
open Jsonapi
#print axioms C13_partial_conforms
#print axioms C13_no_others
#print axioms C13B_present_iff_data
#print axioms C13P.partial_typed
#print axioms C13P.decodeRel_present
#print axioms C13P.decodeRes_rels
#print axioms C13P.exSk_accepted
#print axioms C13P.data_null_counts
end Axioms
