/-
C15, counting form. `C15_each` gives, for an offending relationship, one entry of `check σ`
whose (type name, FromName) is the offender's: two offenders can share that entry's label
(two entries of one `Rels` map whose values carry the same FromName under different keys, or
two types of the same name). Here the property's "at least one error for each offending
relationship" is stated by COUNTING occurrences:

* an occurrence is a pair (type of the schema, entry of its `Rels` map), listed in iteration
  order with multiplicity (`occurrences`);
* `offends σ owner r` is the property's text read as a Boolean, written without `checkRel`;
* `checkCount σ` is the sum over the occurrences of `checkRel` (`C15C_checkCount_eq_sum`),
  every offending occurrence contributes at least one (`C15C_checkRel_pos_of_offends`, for all
  schemas), hence `checkCount σ ≥ offenderCount σ` (`C15C_count_ge`, for all schemas).

"No error iff no occurrence offends": the direction `checkCount σ = 0 → nobody offends` holds
for all schemas; the converse is FALSE for all schemas (`C15C_count_zero_iff_counterexample`):
`Check` tests "the target type does not exist" by `s.GetType(rel.ToType).Name == ""`, so in a
schema that holds a type whose name is "" (the exported field `Types` allows it; `AddType`
refuses it) a relationship whose ToType is "" is reported although `HasType("")` is true. The
exact statement for all schemas is `C15C_checkRel_pos_iff_exact` / `C15C_count_zero_iff_partial`
(offends, or that quirk); with the decidable hypothesis `namesNonEmpty σ` (no type named "",
C14's invariant) the quirk cannot occur and the iff is `C15C_count_zero_iff`.
-/
import Jsonapi.Props.C15
import Jsonapi.Props.GenC15b
namespace Jsonapi
open Schema GoMap

namespace C15C

/-- The property's "offending", as a Boolean and written from the text: the target type does
not exist in the schema, or an inverse is named and (the relationship is not declared from its
own type, or no relationship of the target type names it back and points back). -/
def offends (σ : Schema) (owner : Typ) (r : Rel) : Bool :=
  !(σ.types.any (fun t => decide (t.name = r.toType))) ||
  (decide (r.toName ≠ []) &&
    (decide (r.fromType ≠ owner.name) ||
     !((σ.getType r.toType).rels.vals.any (fun ι =>
        decide (ι.fromName = r.toName) && decide (ι.toName = r.fromName) &&
          decide (ι.toType = owner.name)))))

/-- Every (type, relationship entry) pair of the schema, in iteration order, with multiplicity:
occurrences, not names. -/
def occurrences (σ : Schema) : List (Typ × Rel) :=
  σ.types.flatMap (fun t => t.rels.map (fun p => (t, p.2)))

/-- Number of offending occurrences. -/
def offenderCount (σ : Schema) : Nat :=
  (occurrences σ).countP (fun o => offends σ o.1 o.2)

/-- The one way `Check` reports a relationship that does not offend: the schema holds a type
named "" and the relationship's ToType is "" (`GetType("").Name == ""` although the type exists). -/
def emptyNameQuirk (σ : Schema) (r : Rel) : Bool :=
  decide (r.toType = []) && σ.hasType []

/-- No type of the schema is named "" (decidable form of `NamesNonEmpty`). -/
def namesNonEmpty (σ : Schema) : Bool := σ.types.all (fun t => decide (t.name ≠ []))

/-! ### list arithmetic -/

theorem countP_le_sum {α : Type} (l : List α) (p : α → Bool) (f : α → Nat)
    (h : ∀ x ∈ l, p x = true → 1 ≤ f x) : l.countP p ≤ (l.map f).sum := by
  induction l with
  | nil => simp
  | cons a l ih =>
    have ih' := ih (fun x hx => h x (List.mem_cons_of_mem _ hx))
    have ha := h a (List.mem_cons_self ..)
    rw [List.countP_cons, List.map_cons, List.sum_cons]
    by_cases hp : p a = true
    · have := ha hp; simp only [hp, if_true]; omega
    · simp only [hp]; simp only [Bool.false_eq_true, if_false]; omega

theorem sum_le_two_countP {α : Type} (l : List α) (p : α → Bool) (f : α → Nat)
    (h2 : ∀ x ∈ l, f x ≤ 2) (h : ∀ x ∈ l, 1 ≤ f x → p x = true) :
    (l.map f).sum ≤ 2 * l.countP p := by
  induction l with
  | nil => simp
  | cons a l ih =>
    have ih' := ih (fun x hx => h2 x (List.mem_cons_of_mem _ hx))
      (fun x hx => h x (List.mem_cons_of_mem _ hx))
    have ha := h a (List.mem_cons_self ..)
    have ha2 := h2 a (List.mem_cons_self ..)
    rw [List.countP_cons, List.map_cons, List.sum_cons]
    by_cases hp : p a = true
    · simp only [hp, if_true]; omega
    · have : f a = 0 := by
        by_cases h0 : 1 ≤ f a
        · exact absurd (ha h0) hp
        · omega
      simp only [hp]; simp only [Bool.false_eq_true, if_false]; omega

theorem sum_eq_zero_iff {α : Type} (l : List α) (f : α → Nat) :
    (l.map f).sum = 0 ↔ ∀ x ∈ l, f x = 0 := by
  induction l with
  | nil => simp
  | cons a l ih =>
    rw [List.map_cons, List.sum_cons, List.forall_mem_cons, ← ih]; omega

theorem check_sum_aux (σ : Schema) (ts : List Typ) :
    ((ts.flatMap (fun t => t.rels.filterMap (fun p =>
        let n := checkRel σ t p.2
        if n = 0 then none else some (t.name, p.2.fromName, n)))).map (·.2.2)).sum
      = ((ts.flatMap (fun t => t.rels.map (fun p => (t, p.2)))).map
          (fun o => checkRel σ o.1 o.2)).sum := by
  induction ts with
  | nil => rfl
  | cons t ts ih =>
    rw [List.flatMap_cons, List.flatMap_cons, List.map_append, List.map_append, List.sum_append,
      List.sum_append, ih, List.map_map]
    congr 1
    exact GenC15b.sum_filterMap_pos t.rels (fun p => checkRel σ t p.2)
      (fun p => (t.name, p.2.fromName))

/-- `GetType(n).Name == ""`, for every schema: no type is named `n`, or `n` is "" and a type
named "" exists. -/
theorem getType_name_empty_iff_exact (σ : Schema) (n : GoString) :
    (σ.getType n).name = [] ↔ (σ.hasType n = false ∨ (n = [] ∧ σ.hasType [] = true)) := by
  unfold Schema.getType Schema.hasType
  cases hf : σ.types.find? (fun t => decide (t.name = n)) with
  | none =>
    rw [List.find?_eq_none] at hf
    have : σ.types.any (fun t => decide (t.name = n)) = false := by
      rw [List.any_eq_false]; exact hf
    simp [Typ.empty, this]
  | some t =>
    have hm := List.mem_of_find?_eq_some hf
    have hp := List.find?_some hf
    simp only [decide_eq_true_eq] at hp
    have hany : σ.types.any (fun t => decide (t.name = n)) = true :=
      List.any_eq_true.2 ⟨t, hm, by simpa using hp⟩
    constructor
    · intro e
      have hn : n = [] := hp ▸ e
      refine .inr ⟨hn, ?_⟩
      rw [← hn]; exact hany
    · rintro (h | ⟨hn, _⟩)
      · rw [hany] at h; cases h
      · show t.name = []; rw [hp]; exact hn

end C15C
open C15C

/-- The Boolean reading is the `Prop` one of Props/C15.lean. -/
theorem C15C_offends_iff_offending (σ : Schema) (t : Typ) (r : Rel) :
    offends σ t r = true ↔ offending σ t r := by
  have hC : (!((σ.getType r.toType).rels.vals.any (fun ι =>
        decide (ι.fromName = r.toName) && decide (ι.toName = r.fromName) &&
          decide (ι.toType = t.name)))) = true ↔
      ¬ ∃ ι ∈ (σ.getType r.toType).rels.vals,
        ι.fromName = r.toName ∧ ι.toName = r.fromName ∧ ι.toType = t.name := by
    rw [Bool.not_eq_true', ← Bool.not_eq_true, List.any_eq_true]
    simp only [Bool.and_eq_true, decide_eq_true_eq, and_assoc]
  unfold offends offending Schema.hasType
  rw [Bool.or_eq_true, Bool.and_eq_true, Bool.or_eq_true, hC, decide_eq_true_eq, decide_eq_true_eq,
    Bool.not_eq_true', ← Bool.not_eq_true]

/-- `namesNonEmpty` is the hypothesis of the C15 theorems. -/
theorem C15C_namesNonEmpty_iff (σ : Schema) : namesNonEmpty σ = true ↔ NamesNonEmpty σ := by
  unfold namesNonEmpty NamesNonEmpty
  simp only [List.all_eq_true, decide_eq_true_eq]

theorem C15C_namesNonEmpty_no_quirk (σ : Schema) (h : namesNonEmpty σ = true) (r : Rel) :
    emptyNameQuirk σ r = false := by
  unfold emptyNameQuirk Schema.hasType
  have : σ.types.any (fun t => decide (t.name = [])) = false := by
    rw [List.any_eq_false]
    intro t ht
    have := (C15C_namesNonEmpty_iff σ).1 h t ht
    simpa using this
  rw [this, Bool.and_false]

/-- `checkRel` reports at most two errors for one occurrence. -/
theorem C15C_checkRel_le_two (σ : Schema) (t : Typ) (r : Rel) : checkRel σ t r ≤ 2 := by
  unfold checkRel checkTarget checkInverse
  split <;> split <;> (try split) <;> (try split) <;> omega

/-- For every schema and every occurrence: `Check` appends at least one error for it exactly
when it offends or the empty-name quirk applies. -/
theorem C15C_checkRel_pos_iff_exact (σ : Schema) (t : Typ) (r : Rel) :
    1 ≤ checkRel σ t r ↔ (offends σ t r = true ∨ emptyNameQuirk σ r = true) := by
  have hg := getType_name_empty_iff_exact σ r.toType
  have h1 : 1 ≤ checkTarget σ r ↔
      (σ.hasType r.toType = false ∨ (r.toType = [] ∧ σ.hasType [] = true)) := by
    unfold checkTarget; rw [← hg]; split <;> simp_all
  have h2 : 1 ≤ checkInverse σ t r ↔
      (decide (r.toName ≠ []) &&
        (decide (r.fromType ≠ t.name) ||
         !((σ.getType r.toType).rels.vals.any (fun ι =>
            decide (ι.fromName = r.toName) && decide (ι.toName = r.fromName) &&
              decide (ι.toType = t.name))))) = true := by
    have hany : (σ.getType r.toType).rels.vals.any (fun ι =>
            decide (ι.fromName = r.toName) && decide (ι.toName = r.fromName) &&
              decide (ι.toType = t.name))
        = (σ.getType r.toType).rels.any (fun p =>
            decide (r.fromName = p.2.toName ∧ r.toName = p.2.fromName ∧ p.2.toType = t.name)) := by
      unfold GoMap.vals
      rw [List.any_map]
      congr 1; funext p
      have e1 : decide (p.2.fromName = r.toName) = decide (r.toName = p.2.fromName) :=
        decide_eq_decide.2 ⟨Eq.symm, Eq.symm⟩
      have e2 : decide (p.2.toName = r.fromName) = decide (r.fromName = p.2.toName) :=
        decide_eq_decide.2 ⟨Eq.symm, Eq.symm⟩
      simp only [Function.comp, e1, e2, Bool.decide_and]
      cases decide (r.toName = p.2.fromName) <;> cases decide (r.fromName = p.2.toName) <;> rfl
    rw [hany]
    unfold checkInverse
    by_cases a : r.toName = []
    · simp [a]
    · by_cases b : r.fromType = t.name
      · cases hc : (σ.getType r.toType).rels.any (fun p =>
            decide (r.fromName = p.2.toName ∧ r.toName = p.2.fromName ∧ p.2.toType = t.name)) <;>
          simp [a, b]
      · simp [a, b]
  unfold checkRel offends emptyNameQuirk
  rw [Bool.or_eq_true, ← h2, Bool.and_eq_true, decide_eq_true_eq, Bool.not_eq_true']
  have : (σ.types.any fun t => decide (t.name = r.toType)) = σ.hasType r.toType := rfl
  rw [this, or_right_comm, ← h1]
  omega

/-- Every offending occurrence gets at least one error - for ALL schemas. -/
theorem C15C_checkRel_pos_of_offends (σ : Schema) (t : Typ) (r : Rel)
    (h : offends σ t r = true) : 1 ≤ checkRel σ t r :=
  (C15C_checkRel_pos_iff_exact σ t r).2 (.inl h)

/-- On a schema with no type named "": at least one error for an occurrence iff it offends. -/
theorem C15C_checkRel_pos_iff (σ : Schema) (hn : namesNonEmpty σ = true) (t : Typ) (r : Rel) :
    1 ≤ checkRel σ t r ↔ offends σ t r = true := by
  rw [C15C_checkRel_pos_iff_exact, C15C_namesNonEmpty_no_quirk σ hn r]
  simp

/-- ... and no error iff it does not. -/
theorem C15C_checkRel_zero_iff (σ : Schema) (hn : namesNonEmpty σ = true) (t : Typ) (r : Rel) :
    checkRel σ t r = 0 ↔ offends σ t r = false := by
  have := C15C_checkRel_pos_iff σ hn t r
  cases h : offends σ t r
  · rw [h] at this; simp at this; simp [this]
  · rw [h] at this; have := this.2 rfl; simp; omega

/-- No error for an occurrence implies it does not offend - for ALL schemas. -/
theorem C15C_checkRel_zero_imp (σ : Schema) (t : Typ) (r : Rel) (h : checkRel σ t r = 0) :
    offends σ t r = false := by
  cases h' : offends σ t r
  · rfl
  · have := C15C_checkRel_pos_of_offends σ t r h'; omega

/-- The number of errors is the sum, over the occurrences, of what `checkRel` reports. -/
theorem C15C_checkCount_eq_sum (σ : Schema) :
    checkCount σ = ((occurrences σ).map (fun o => checkRel σ o.1 o.2)).sum := by
  unfold checkCount check occurrences
  rw [GenC15b.foldl_add_eq_sum, Nat.zero_add]
  exact check_sum_aux σ σ.types

/-- For every schema: at least one error per offending occurrence, counted with multiplicity. -/
theorem C15C_count_ge (σ : Schema) : offenderCount σ ≤ checkCount σ := by
  rw [C15C_checkCount_eq_sum]
  unfold offenderCount
  exact countP_le_sum _ _ _ (fun o _ h => C15C_checkRel_pos_of_offends σ o.1 o.2 h)

/-- For every schema: at most two errors per occurrence that offends or meets the quirk. -/
theorem C15C_count_le_exact (σ : Schema) :
    checkCount σ ≤ 2 * (occurrences σ).countP (fun o => offends σ o.1 o.2 || emptyNameQuirk σ o.2) := by
  rw [C15C_checkCount_eq_sum]
  refine sum_le_two_countP _ _ _ (fun o _ => C15C_checkRel_le_two σ o.1 o.2) ?_
  intro o _ h
  rw [Bool.or_eq_true]
  exact (C15C_checkRel_pos_iff_exact σ o.1 o.2).1 h

/-- On a schema with no type named "": at most two errors per offending occurrence. -/
theorem C15C_count_le (σ : Schema) (hn : namesNonEmpty σ = true) :
    checkCount σ ≤ 2 * offenderCount σ := by
  rw [C15C_checkCount_eq_sum]
  unfold offenderCount
  refine sum_le_two_countP _ _ _ (fun o _ => C15C_checkRel_le_two σ o.1 o.2) ?_
  intro o _ h
  exact (C15C_checkRel_pos_iff σ hn o.1 o.2).1 h

/-- For every schema: no error implies no occurrence offends. -/
theorem C15C_count_zero_imp (σ : Schema) (h : checkCount σ = 0) :
    ∀ o ∈ occurrences σ, offends σ o.1 o.2 = false := by
  rw [C15C_checkCount_eq_sum, sum_eq_zero_iff] at h
  intro o ho
  exact C15C_checkRel_zero_imp σ o.1 o.2 (h o ho)

/-- For every schema, the exact iff: no error iff no occurrence offends and none meets the quirk. -/
theorem C15C_count_zero_iff_partial (σ : Schema) :
    checkCount σ = 0 ↔
      ∀ o ∈ occurrences σ, offends σ o.1 o.2 = false ∧ emptyNameQuirk σ o.2 = false := by
  rw [C15C_checkCount_eq_sum, sum_eq_zero_iff]
  constructor
  · intro h o ho
    have h0 := h o ho
    have := C15C_checkRel_pos_iff_exact σ o.1 o.2
    cases h1 : offends σ o.1 o.2 <;> cases h2 : emptyNameQuirk σ o.2 <;> simp_all
  · intro h o ho
    have ⟨h1, h2⟩ := h o ho
    have := C15C_checkRel_pos_iff_exact σ o.1 o.2
    rw [h1, h2] at this
    simp at this
    exact this

/-- On a schema with no type named "": no error iff no occurrence offends. -/
theorem C15C_count_zero_iff (σ : Schema) (hn : namesNonEmpty σ = true) :
    checkCount σ = 0 ↔ ∀ o ∈ occurrences σ, offends σ o.1 o.2 = false := by
  rw [C15C_count_zero_iff_partial]
  constructor
  · intro h o ho; exact (h o ho).1
  · intro h o ho; exact ⟨h o ho, C15C_namesNonEmpty_no_quirk σ hn o.2⟩

/-- ... equivalently `offenderCount σ = 0`. -/
theorem C15C_count_zero_iff_offenderCount (σ : Schema) (hn : namesNonEmpty σ = true) :
    checkCount σ = 0 ↔ offenderCount σ = 0 := by
  rw [C15C_count_zero_iff σ hn]
  unfold offenderCount
  rw [List.countP_eq_zero]
  constructor
  · intro h o ho; rw [h o ho]; simp
  · intro h o ho; have := h o ho; simpa using this

/-- The iff WITHOUT the hypothesis is false: a type named "" with a one-way relationship to the
type named "": the target type exists (`hasType`), no inverse is named, so nothing offends -
and `Check` reports one error ("ToType … does not exist"). -/
theorem C15C_count_zero_iff_counterexample :
    ¬ ∀ σ : Schema, (checkCount σ = 0 ↔ ∀ o ∈ occurrences σ, offends σ o.1 o.2 = false) := by
  intro h
  let r : Rel := { fromType := [], fromName := gs "x", toOne := true, toType := [], toName := [], fromOne := false }
  let σ : Schema := { types := [{ name := [], attrs := [], rels := [(gs "x", r)] }] }
  have h1 : ∀ o ∈ occurrences σ, offends σ o.1 o.2 = false := by decide
  have h2 : checkCount σ = 1 := by decide
  have := (h σ).2 h1
  omega

/-- The per-occurrence iff WITHOUT the hypothesis is false, on the same witness. -/
theorem C15C_checkRel_pos_iff_counterexample :
    ¬ ∀ (σ : Schema) (t : Typ) (r : Rel), (1 ≤ checkRel σ t r ↔ offends σ t r = true) := by
  intro h
  let r : Rel := { fromType := [], fromName := gs "x", toOne := true, toType := [], toName := [], fromOne := false }
  let t : Typ := { name := [], attrs := [], rels := [(gs "x", r)] }
  have h1 : offends { types := [t] } t r = false := by decide
  have h2 : checkRel { types := [t] } t r = 1 := by decide
  have := (h { types := [t] } t r).1 (by omega)
  rw [h1] at this; cases this

/-! ### the translated `Check` -/

/-- For every schema: `len(s.Check())` is at least the number of offending occurrences. -/
theorem C15C_gen_length_ge (σ : Schema) : offenderCount σ ≤ (Gen.Schema_Check σ).length := by
  rw [Gen_Schema_Check_length]; exact C15C_count_ge σ

/-- On a schema with no type named "": at most two errors per offending occurrence. -/
theorem C15C_gen_length_le (σ : Schema) (hn : namesNonEmpty σ = true) :
    (Gen.Schema_Check σ).length ≤ 2 * offenderCount σ := by
  rw [Gen_Schema_Check_length]; exact C15C_count_le σ hn

/-- For every schema: an empty result implies no occurrence offends. -/
theorem C15C_gen_nil_imp (σ : Schema) (h : Gen.Schema_Check σ = []) :
    ∀ o ∈ occurrences σ, offends σ o.1 o.2 = false := by
  apply C15C_count_zero_imp
  rw [← Gen_Schema_Check_length, h]; rfl

/-- For every schema, exactly. -/
theorem C15C_gen_nil_iff_partial (σ : Schema) :
    Gen.Schema_Check σ = [] ↔
      ∀ o ∈ occurrences σ, offends σ o.1 o.2 = false ∧ emptyNameQuirk σ o.2 = false := by
  rw [← C15C_count_zero_iff_partial, ← Gen_Schema_Check_length, List.length_eq_zero_iff]

/-- On a schema with no type named "": the translated `Check` returns the empty slice iff no
occurrence offends. -/
theorem C15C_gen_nil_iff (σ : Schema) (hn : namesNonEmpty σ = true) :
    Gen.Schema_Check σ = [] ↔ ∀ o ∈ occurrences σ, offends σ o.1 o.2 = false := by
  rw [← C15C_count_zero_iff σ hn, ← Gen_Schema_Check_length, List.length_eq_zero_iff]

/-- The same counterexample on the translated function. -/
theorem C15C_gen_nil_iff_counterexample :
    ¬ ∀ σ : Schema, (Gen.Schema_Check σ = [] ↔ ∀ o ∈ occurrences σ, offends σ o.1 o.2 = false) := by
  intro h
  apply C15C_count_zero_iff_counterexample
  intro σ
  rw [← h σ, ← Gen_Schema_Check_length, List.length_eq_zero_iff]

/-! ### Non-vacuity

Two offenders of ONE type carrying the same FromName (under two keys of the `Rels` map - the
exported map allows it; `AddRel` keys by FromName): `C15_each` gives both the same label
(`a`, `x`), the counting form sees two. The hypothesis `namesNonEmpty` holds. -/
example :
    let r1 : Rel := { fromType := gs "a", fromName := gs "x", toOne := true, toType := gs "zz", toName := [], fromOne := false }
    let r2 : Rel := { fromType := gs "a", fromName := gs "x", toOne := false, toType := gs "b", toName := gs "y", fromOne := true }
    let r3 : Rel := { fromType := gs "b", fromName := gs "w", toOne := true, toType := gs "a", toName := [], fromOne := false }
    let a : Typ := { name := gs "a", attrs := [], rels := [(gs "x", r1), (gs "k", r2)] }
    let b : Typ := { name := gs "b", attrs := [], rels := [(gs "w", r3)] }
    let σ : Schema := { types := [a, b] }
    namesNonEmpty σ = true ∧ (occurrences σ).length = 3 ∧ offenderCount σ = 2 ∧
      checkCount σ = 2 ∧ 2 ≤ checkCount σ ∧
      (check σ).map (fun e => (e.1, e.2.1)) = [(gs "a", gs "x"), (gs "a", gs "x")] := by decide

/-! Two offenders in two types of the same name, same FromName; one of them earns two errors
(dangling target and a foreign FromType), so `checkCount` (3) exceeds `offenderCount` (2) and
stays within twice it. -/
example :
    let r1 : Rel := { fromType := gs "q", fromName := gs "x", toOne := true, toType := gs "zz", toName := gs "y", fromOne := false }
    let r2 : Rel := { fromType := gs "a", fromName := gs "x", toOne := false, toType := gs "a", toName := gs "y", fromOne := true }
    let a1 : Typ := { name := gs "a", attrs := [], rels := [(gs "x", r1)] }
    let a2 : Typ := { name := gs "a", attrs := [], rels := [(gs "x", r2)] }
    let σ : Schema := { types := [a1, a2] }
    namesNonEmpty σ = true ∧ offenderCount σ = 2 ∧ checkCount σ = 3 ∧
      (Gen.Schema_Check σ).length = 3 := by decide

/-! A coherent two-way pair: the hypothesis holds, nobody offends, no error. -/
example :
    let r1 : Rel := { fromType := gs "a", fromName := gs "x", toOne := true, toType := gs "b", toName := gs "y", fromOne := true }
    let r2 : Rel := { fromType := gs "b", fromName := gs "y", toOne := true, toType := gs "a", toName := gs "x", fromOne := true }
    let a : Typ := { name := gs "a", attrs := [], rels := [(gs "x", r1)] }
    let b : Typ := { name := gs "b", attrs := [], rels := [(gs "y", r2)] }
    let σ : Schema := { types := [a, b] }
    namesNonEmpty σ = true ∧ (occurrences σ).length = 2 ∧ offenderCount σ = 0 ∧
      checkCount σ = 0 ∧ Gen.Schema_Check σ = [] := by decide

end Jsonapi

section Axioms
open Jsonapi
#print axioms C15C_offends_iff_offending
#print axioms C15C_namesNonEmpty_iff
#print axioms C15C_namesNonEmpty_no_quirk
#print axioms C15C_checkRel_le_two
#print axioms C15C_checkRel_pos_iff_exact
#print axioms C15C_checkRel_pos_of_offends
#print axioms C15C_checkRel_pos_iff
#print axioms C15C_checkRel_zero_iff
#print axioms C15C_checkRel_zero_imp
#print axioms C15C_checkCount_eq_sum
#print axioms C15C_count_ge
#print axioms C15C_count_le_exact
#print axioms C15C_count_le
#print axioms C15C_count_zero_imp
#print axioms C15C_count_zero_iff_partial
#print axioms C15C_count_zero_iff
#print axioms C15C_count_zero_iff_offenderCount
#print axioms C15C_count_zero_iff_counterexample
#print axioms C15C_checkRel_pos_iff_counterexample
#print axioms C15C_gen_length_ge
#print axioms C15C_gen_length_le
#print axioms C15C_gen_nil_imp
#print axioms C15C_gen_nil_iff_partial
#print axioms C15C_gen_nil_iff
#print axioms C15C_gen_nil_iff_counterexample
end Axioms
