/-
C03 — shape of a marshaled document.

"A successful marshal returns a top level object with a jsonapi member and a self link,
never both data and errors, and included only alongside data. Every resource object has a
string type, a string id and a self link made of the document's path prefix, its type and
its id; every relationship object carries self and related links and, when present, data
that is null, one type/id identifier or an array of them. When included resources are added
through the document's Include operation, no type/ID pair appears twice across primary data
and included."

The clause "a successful marshal returns syntactically valid JSON" is `C03_valid_json` /
`C03_valid_json_model` / `C03_valid_json_resource`: the tree a successful marshal returns
renders (`Json.render`: the bytes `encoding/json` writes) to a text that the strict JSON
parser `Spec.parseJson` reads back as exactly that tree. The only hypothesis is on the JSON
values the caller hands over verbatim (meta objects, error sources): their number literals
must match the JSON number grammar (`Document.numsOk`).
-/
import Jsonapi.Proofs.MarshalJsonLemmas
namespace Jsonapi
open MarshalL

/-- 5. The top level of the specification's document tree. -/
theorem C03_toplevel (doc : Document) (fields : GoMap (List GoString)) (selfHref : GoString)
    (t : Json) (h : Spec.documentTree doc fields selfHref = some t) :
    t.isObj = true ∧ t.has K.jsonapi = true ∧
    (∃ l, t.get? K.links = some l ∧ l.get? K.self = some (.str selfHref)) ∧
    ¬ (t.has K.data = true ∧ t.has K.errors = true) ∧
    (t.has K.included = true → t.has K.data = true) := by
  have ht := documentTree_some h
  subst ht
  have hk := docMembers_keys doc fields selfHref
  refine ⟨rfl, ?_, ?_, ?_, ?_⟩
  · rw [has_sortMembers, hk]; simp
  · refine ⟨_, get?_sortMembers_of_mem (docMembers_nodup doc fields selfHref)
      (by simp [docMembers]), docLinks_self doc selfHref⟩
  · rw [has_sortMembers, has_sortMembers, hk]
    rcases docBody_keys doc fields with hb | hb | hb | hb <;> rw [hb] <;>
      cases doc.dmeta.isEmpty <;> decide
  · rw [has_sortMembers, has_sortMembers, hk]
    rcases docBody_keys doc fields with hb | hb | hb | hb <;> rw [hb] <;>
      cases doc.dmeta.isEmpty <;> decide

/-- 5'. The same for the tree the model's `MarshalDocument` returns (through C04_document,
hence on its domain). -/
theorem C03_toplevel_model (doc : Document) (hdom : ∀ r ∈ docResources doc, r.keyedWf)
    (fields : GoMap (List GoString)) (selfHref : GoString) (t : Json) (doc' : Document)
    (h : marshalDocument doc fields selfHref = .ok (t, doc')) :
    t.isObj = true ∧ t.has K.jsonapi = true ∧
    (∃ l, t.get? K.links = some l ∧ l.get? K.self = some (.str selfHref)) ∧
    ¬ (t.has K.data = true ∧ t.has K.errors = true) ∧
    (t.has K.included = true → t.has K.data = true) := by
  obtain ⟨h1, h2⟩ := marshalDocument_eq doc hdom fields selfHref
  cases hs : Spec.documentTree doc fields selfHref with
  | none => rw [h1 hs] at h; cases h
  | some t' =>
    obtain ⟨d'', h3⟩ := h2 t' hs
    rw [h3] at h
    cases h
    exact C03_toplevel doc fields selfHref t hs

/-- 5''. Unconditionally: whatever document the model's `MarshalDocument` is given (resources
outside the domain of C04 included), a successful result has this top-level shape. -/
theorem C03_toplevel_model_any (doc : Document) (fields : GoMap (List GoString))
    (selfHref : GoString) (t : Json) (doc' : Document)
    (h : marshalDocument doc fields selfHref = .ok (t, doc')) :
    t.isObj = true ∧ t.has K.jsonapi = true ∧
    (∃ l, t.get? K.links = some l ∧ l.get? K.self = some (.str selfHref)) ∧
    ¬ (t.has K.data = true ∧ t.has K.errors = true) ∧
    (t.has K.included = true → t.has K.data = true) := by
  obtain ⟨body, hb, ht⟩ := marshalDocument_shape h
  exact toplevel_of_shape doc selfHref body hb t ht

/-- 6. Every resource object: string type, string id, a self link made of the path prefix,
the type and the id; every member of "relationships" is an object with string self and
related links whose data, when present, is resource linkage. No hypothesis on the resource. -/
theorem C03_resource_object (r : ResView) (prepath : GoString) (fields : List GoString)
    (relData : GoMap (List GoString)) (rmeta : Meta) :
    (Spec.resourceObject r prepath fields relData rmeta).get? K.type = some (.str r.typeName) ∧
    (Spec.resourceObject r prepath fields relData rmeta).get? K.id = some (.str r.id) ∧
    (∃ l, (Spec.resourceObject r prepath fields relData rmeta).get? K.links = some l ∧
      l.get? K.self = some (.str (buildSelfLink r prepath))) ∧
    (r.id ≠ [] → r.typeName ≠ [] →
      buildSelfLink r prepath =
        (if prepath.getLast? = some 47 then prepath else prepath ++ [47]) ++
          r.typeName ++ [47] ++ r.id) ∧
    (∀ rs n ro, (Spec.resourceObject r prepath fields relData rmeta).get? K.relationships = some rs →
      rs.get? n = some ro →
      ro.isObj = true ∧
      (∃ l s1 s2, ro.get? K.links = some l ∧ l.get? K.self = some (.str s1) ∧
        l.get? K.related = some (.str s2)) ∧
      (∀ d, ro.get? K.data = some d → IsLinkage d)) := by
  refine ⟨resObj_get_type .., resObj_get_id .., ⟨_, resObj_get_links .., ?_⟩, ?_, ?_⟩
  · simp [Json.get?]
  · intro h1 h2
    simp [buildSelfLink, h1, h2, K.slash]
  · intro rs n ro h1 h2
    obtain ⟨rel, -, -, -, rfl⟩ := resObj_rel_member r prepath fields relData rmeta h1 h2
    refine ⟨relObject_isObj .., ⟨_, _, _, relObject_get_links .., relLinks_get_self ..,
      relLinks_get_related ..⟩, ?_⟩
    intro d hd
    rw [(relObject_get_data_some hd).2]
    exact relDataJson_isLinkage r rel

/-! ### syntactic validity of the rendered document

`Document.numsOk` (Jsonapi/Proofs/MarshalJsonLemmas.lean): the document's meta, the meta of
each of its links and the source and meta of each of its errors — the JSON values the caller
supplies verbatim — contain only number literals of the JSON grammar. Resource objects carry
no meta inside a `Document` (`marshalDocument` and `Spec.documentTree` marshal every resource
with the default `rmeta := []`), so there is no condition on resources at all. -/

/-- 8. Valid JSON, specification tree: the bytes `encoding/json` writes for the document tree
parse, as strict compact JSON, to exactly that tree. -/
theorem C03_valid_json (doc : Document) (fields : GoMap (List GoString)) (selfHref : GoString)
    (t : Json) (hn : doc.numsOk) (h : Spec.documentTree doc fields selfHref = some t) :
    Spec.parseJson t.render = some t :=
  JsonL.parseJson_render t (MJsonL.documentTree_numsOk hn h)

/-- 8'. Valid JSON, model: whatever document the model's `MarshalDocument` is given (no
hypothesis on its resources: those outside the domain of C04 included), the tree of a
successful result renders to a text that parses to exactly that tree. -/
theorem C03_valid_json_model (doc : Document) (fields : GoMap (List GoString))
    (selfHref : GoString) (t : Json) (doc' : Document) (hn : doc.numsOk)
    (h : marshalDocument doc fields selfHref = .ok (t, doc')) :
    Spec.parseJson t.render = some t :=
  JsonL.parseJson_render t (MJsonL.marshalDocument_numsOk hn h)

/-- 8''. Valid JSON, one resource object with a meta object of well-formed numbers. No
hypothesis on the resource. -/
theorem C03_valid_json_resource (r : ResView) (prepath : GoString) (fields : List GoString)
    (relData : GoMap (List GoString)) (rmeta : Meta) (hm : Json.numsOkMembers rmeta) :
    Spec.parseJson (Spec.resourceObject r prepath fields relData rmeta).render =
      some (Spec.resourceObject r prepath fields relData rmeta) :=
  JsonL.parseJson_render _ (MJsonL.resourceObject_numsOk r prepath fields relData rmeta hm)

/-- The same for whatever the model's `MarshalResource` returns (any resource, meta of
well-formed numbers). -/
theorem C03_valid_json_resource_model (r : ResView) (prepath : GoString)
    (fields : List GoString) (relData : GoMap (List GoString)) (rmeta : Meta) (j : Json)
    (r' : ResView) (hm : Json.numsOkMembers rmeta)
    (h : marshalResource r prepath fields relData rmeta = .ok (j, r')) :
    Spec.parseJson j.render = some j :=
  JsonL.parseJson_render j (MJsonL.marshalResource_numsOk hm h)

/-- Two documents that marshal to the same bytes marshal to the same tree: the text
determines the tree. -/
theorem C03_render_determines_tree (doc1 doc2 : Document) (f1 f2 : GoMap (List GoString))
    (s1 s2 : GoString) (t1 t2 : Json) (d1 d2 : Document) (hn1 : doc1.numsOk) (hn2 : doc2.numsOk)
    (h1 : marshalDocument doc1 f1 s1 = .ok (t1, d1)) (h2 : marshalDocument doc2 f2 s2 = .ok (t2, d2))
    (hr : t1.render = t2.render) : t1 = t2 :=
  JsonL.render_injective t1 t2 (MJsonL.marshalDocument_numsOk hn1 h1)
    (MJsonL.marshalDocument_numsOk hn2 h2) hr

/-- The Include invariant in terms of (type, id) pairs: starting from any document whose
primary data and included resources have pairwise distinct (type, id) pairs (and whose
typed collection holds resources of its type), every history of Include calls — repeated
resources, resources of the primary data, every kind of primary data — leaves the pairs
distinct and the primary data untouched. -/
theorem C03_include_unique_pairs (ops : List ResView) (d0 : Document) (ht : TypedCol d0)
    (hnd : ((docPrimary d0 ++ d0.included).map resPair).Nodup) :
    ((docPrimary (ops.foldl Document.include d0) ++
        (ops.foldl Document.include d0).included).map resPair).Nodup ∧
    (ops.foldl Document.include d0).data = d0.data := by
  obtain ⟨h1, h2⟩ := include_fold resPair (fun _ _ => resKey_of_resPair) ops d0 ht
    (by intro r _ m _ h
        simp only [resPair, Prod.mk.injEq] at h
        exact h.1) hnd
  exact ⟨h2, h1⟩

/-- Domain of the key-level statement: the keys of the primary data are distinct and a
typed collection holds resources of its type. -/
def DocOk (d : Document) : Prop := (Spec.primaryKeys d).Nodup ∧ TypedCol d

instance c04_decDocOk (d : Document) : Decidable (DocOk d) := by
  unfold DocOk; exact inferInstance

/-- `KeyFaithful ops d0` (Jsonapi/Proofs/MarshalLemmas3.lean): the key `id ++ " " ++ type`
that Include compares determines the type, for the resources handed to Include against those
of the primary data. It holds whenever type names contain no space. -/
theorem C03_keyFaithful_of_noSpace (ops : List ResView) (d0 : Document)
    (h : ∀ r ∈ docPrimary d0 ++ ops, (32 : UInt8) ∉ r.typeName) : KeyFaithful ops d0 := by
  intro r hr m hm hk
  exact (resKey_inj_of_noSpace (h m (List.mem_append_left _ hm))
    (h r (List.mem_append_right _ hr)) hk).1

/-- 7 (general form). Starting from any document whose primary and included keys are
already distinct. -/
theorem C03_include_unique_gen (ops : List ResView) (d0 : Document) (ht : TypedCol d0)
    (hkey : KeyFaithful ops d0)
    (hnd : (Spec.primaryKeys d0 ++ d0.included.map resKey).Nodup) :
    (Spec.primaryKeys (ops.foldl Document.include d0) ++
        (ops.foldl Document.include d0).included.map resKey).Nodup ∧
    Spec.primaryKeys (ops.foldl Document.include d0) = Spec.primaryKeys d0 := by
  rw [primaryKeys_eq, ← List.map_append] at hnd
  obtain ⟨h1, h2⟩ := include_fold resKey (fun _ _ h => h) ops d0 ht hkey hnd
  rw [primaryKeys_eq, primaryKeys_eq, ← List.map_append, docPrimary_congr h1]
  rw [docPrimary_congr h1] at h2
  exact ⟨h2, rfl⟩

/-- 7. Over every history of Include calls from a document without included resources. -/
theorem C03_include_unique (ops : List ResView) (d0 : Document) (hinc : d0.included = [])
    (hok : DocOk d0) (hkey : KeyFaithful ops d0) :
    (Spec.primaryKeys (ops.foldl Document.include d0) ++
        (ops.foldl Document.include d0).included.map resKey).Nodup ∧
    Spec.primaryKeys (ops.foldl Document.include d0) = Spec.primaryKeys d0 :=
  C03_include_unique_gen ops d0 hok.2 hkey (by rw [hinc]; simpa using hok.1)

#print axioms C03_toplevel
#print axioms C03_toplevel_model
#print axioms C03_toplevel_model_any
#print axioms C03_resource_object
#print axioms C03_valid_json
#print axioms C03_valid_json_model
#print axioms C03_valid_json_resource
#print axioms C03_valid_json_resource_model
#print axioms C03_render_determines_tree
#print axioms C03_include_unique_pairs
#print axioms C03_keyFaithful_of_noSpace
#print axioms C03_include_unique_gen
#print axioms C03_include_unique

/-! ### non-vacuity, and why `KeyFaithful` is needed -/

def c04_res (id typ : GoString) : ResView :=
  { typeName := typ, id := id, attrs := [], rels := [], vals := [] }

/-- a typed collection "c" with two members; Include of a member, of a new resource twice,
and of a resource of another type -/
def c04_doc : Document := { data := .col [99] [c04_res [49] [99], c04_res [50] [99]] }

example : DocOk c04_doc ∧ c04_doc.included = [] := by decide

example : (([c04_res [49] [99], c04_res [51] [100], c04_res [51] [100], c04_res [49] [100]].foldl
    Document.include c04_doc).included).map resKey = [[51, 32, 100], [49, 32, 100]] := by decide

/-- Without `KeyFaithful` the key-level statement is false in the model: the collection is
typed "c" and holds (id "a b", type "c"); including (id "a", type "b c") — a different
(type, id) pair with the same key "a b c" — is not recognised as primary data (the type
differs from the collection's) and lands in included with a key equal to a primary key.
The pair-level statement `C03_include_unique_pairs` is unaffected. -/
example :
    let d0 : Document := { data := .col [99] [c04_res [97, 32, 98] [99]] }
    let d := [c04_res [97] [98, 32, 99]].foldl Document.include d0
    DocOk d0 ∧ d0.included = [] ∧
    ¬ (Spec.primaryKeys d ++ d.included.map resKey).Nodup := by decide

/-! ### non-vacuity of the valid-JSON theorems, and why `Document.numsOk` is needed -/

/-- a resource of type "a", id "1", with an int attribute n = -5 and a string attribute s
holding a quote and `<` -/
def c03_res : ResView :=
  { typeName := [97], id := [49],
    attrs := [([110], { name := [110], ty := 2, nullable := false }),
              ([115], { name := [115], ty := 1, nullable := false })],
    rels := [],
    vals := [([110], .val .int (.i (-5))), ([115], .val .string (.s [34, 60]))] }

/-- that resource as primary data, no errors, meta {"n":1.5e3}, path prefix "/" -/
def c03_doc : Document :=
  { data := .res c03_res, dmeta := [([110], .num [49, 46, 53, 101, 51])], prePath := [47] }

/-- fields[a]=n,s -/
def c03_fields : GoMap (List GoString) := [([97], [[110], [115]])]

example : c03_doc.numsOk := by decide

example : ∀ r ∈ docResources c03_doc, r.keyedWf := by decide

/-- the document tree, members sorted by key -/
def c03_tree : Json :=
  .obj [(K.data, .obj [
          (K.attributes, .obj [([110], .num [45, 53]), ([115], .str [34, 60])]),
          (K.id, .str [49]),
          (K.links, .obj [(K.self, .str [47, 97, 47, 49])]),
          (K.type, .str [97])]),
        (K.jsonapi, .obj [(K.version, .str K.v10)]),
        (K.links, .obj [(K.self, .str [47, 97, 47, 49])]),
        (K.kmeta, .obj [([110], .num [49, 46, 53, 101, 51])])]

theorem c03_printNat5 : printNat 5 = [53] := by rw [printNat]; decide

theorem c03_doc_tree :
    Spec.documentTree c03_doc c03_fields [47, 97, 47, 49] = some c03_tree := by
  simp (decide := true) [Spec.documentTree, c03_doc, c03_res, c03_fields, c03_tree,
    Spec.dataMember, Spec.resourceObject, Spec.selection, sortMembers, List.mergeSort,
    GoMap.get?, GoMap.vals, ResView.get, encodeAttr, encodeVal, encodePay, printInt,
    c03_printNat5, buildSelfLink, List.MergeSort.Internal.splitInTwo, K.data, K.jsonapi,
    K.links, K.kmeta, K.self, K.id, K.type, K.attributes, K.slash]

/-- the theorem applies to the sample, for the specification's tree and for the model's -/
example : Spec.parseJson c03_tree.render = some c03_tree :=
  C03_valid_json c03_doc c03_fields [47, 97, 47, 49] c03_tree (by decide) c03_doc_tree

example : ∃ doc', marshalDocument c03_doc c03_fields [47, 97, 47, 49] = .ok (c03_tree, doc') ∧
    Spec.parseJson c03_tree.render = some c03_tree := by
  obtain ⟨doc', h⟩ := (marshalDocument_eq c03_doc (by decide) c03_fields [47, 97, 47, 49]).2 _
    c03_doc_tree
  exact ⟨doc', h, C03_valid_json_model _ _ _ _ _ (by decide) h⟩

/-- the bytes of the sample, spelled out:
`{"data":{"attributes":{"n":-5,"s":"\"\u003c"},"id":"1","links":{"self":"/a/1"},"type":"a"},`
`"jsonapi":{"version":"1.0"},"links":{"self":"/a/1"},"meta":{"n":1.5e3}}` -/
example : c03_tree.render =
    [123, 34, 100, 97, 116, 97, 34, 58, 123, 34, 97, 116, 116, 114, 105, 98, 117, 116, 101, 115,
     34, 58, 123, 34, 110, 34, 58, 45, 53, 44, 34, 115, 34, 58, 34, 92, 34, 92, 117, 48, 48, 51,
     99, 34, 125, 44, 34, 105, 100, 34, 58, 34, 49, 34, 44, 34, 108, 105, 110, 107, 115, 34, 58,
     123, 34, 115, 101, 108, 102, 34, 58, 34, 47, 97, 47, 49, 34, 125, 44, 34, 116, 121, 112,
     101, 34, 58, 34, 97, 34, 125, 44, 34, 106, 115, 111, 110, 97, 112, 105, 34, 58, 123, 34,
     118, 101, 114, 115, 105, 111, 110, 34, 58, 34, 49, 46, 48, 34, 125, 44, 34, 108, 105, 110,
     107, 115, 34, 58, 123, 34, 115, 101, 108, 102, 34, 58, 34, 47, 97, 47, 49, 34, 125, 44, 34,
     109, 101, 116, 97, 34, 58, 123, 34, 110, 34, 58, 49, 46, 53, 101, 51, 125, 125] := by
  decide

/-- The hypothesis matters: a document whose meta holds the number literal `01` is not in
the domain, it marshals (to the tree below), and the text of that tree,
`{"data":null,"jsonapi":{"version":"1.0"},"links":{"self":""},"meta":{"x":01}}`,
is rejected by the parser. -/
def c03_bad : Document := { dmeta := [([120], .num [48, 49])] }

example : ¬ c03_bad.numsOk := by decide

def c03_bad_tree : Json :=
  .obj [(K.data, .null), (K.jsonapi, .obj [(K.version, .str K.v10)]),
        (K.links, .obj [(K.self, .str [])]), (K.kmeta, .obj [([120], .num [48, 49])])]

theorem c03_bad_doc_tree : Spec.documentTree c03_bad [] [] = some c03_bad_tree := by
  simp (decide := true) [Spec.documentTree, c03_bad, c03_bad_tree, Spec.dataMember,
    sortMembers, List.mergeSort, List.MergeSort.Internal.splitInTwo, K.data, K.jsonapi,
    K.links, K.kmeta, K.self]

example : ∃ t doc', Spec.documentTree c03_bad [] [] = some t ∧
    marshalDocument c03_bad [] [] = .ok (t, doc') ∧ Spec.parseJson t.render = none := by
  obtain ⟨doc', h⟩ := (marshalDocument_eq c03_bad (by decide) [] []).2 _ c03_bad_doc_tree
  exact ⟨c03_bad_tree, doc', c03_bad_doc_tree, h, by decide⟩

end Jsonapi
