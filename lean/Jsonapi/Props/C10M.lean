/-
C10 (continued) — the algebraic laws of the property, transferred from the specification
(`Props/C10.lean`) to the MODEL of filter.go: `checkVal` (one comparison) and `isAllowed`
(one leaf / one `and`/`or` node of a filter tree); and what equality of two to-many ID
lists is: the two lists are permutations of each other.
-/
import Jsonapi.Props.C10
import Jsonapi.Proofs.DetLemmas
namespace Jsonapi
open Spec

/-! ### Equality of two to-many ID lists is "permutation of each other" -/

/-- The specification's equality of two ID lists (same length and equal once sorted) holds
iff the lists are permutations of each other (same IDs with the same multiplicities). -/
theorem C10_valEq_ids_iff_perm (a b : List GoString) :
    Spec.valEq (.ids a) (.ids b) = true ↔ a.Perm b := by
  simp only [valEq, Bool.decide_and, Bool.and_eq_true, decide_eq_true_eq]
  constructor
  · rintro ⟨_, h⟩
    exact (DetL.sortStrings_perm a).symm.trans (h ▸ DetL.sortStrings_perm b)
  · intro h
    exact ⟨h.length_eq, DetL.sortStrings_eq_of_perm h⟩

/-- The same, as "equal after sorting" (the length test is implied). -/
theorem C10_valEq_ids_iff_sort (a b : List GoString) :
    Spec.valEq (.ids a) (.ids b) = true ↔ Typ.sortStrings a = Typ.sortStrings b := by
  rw [C10_valEq_ids_iff_perm]
  constructor
  · exact DetL.sortStrings_eq_of_perm
  · intro h
    exact (DetL.sortStrings_perm a).symm.trans (h ▸ DetL.sortStrings_perm b)

/-- Equality of ID lists is not equality as sets: multiplicities count. -/
theorem C10_valEq_ids_not_set_counterexample :
    (∀ x, x ∈ [[97], [97], [98]] ↔ x ∈ [[97], [98], [98]]) ∧
    Spec.valEq (.ids [[97], [97], [98]]) (.ids [[97], [98], [98]]) = false ∧
    checkVal Op.eq (.strs [[97], [97], [98]]) (.strs [[97], [98], [98]]) = .ok false := by
  refine ⟨?_, by decide, by decide⟩
  intro x
  simp only [List.mem_cons, List.not_mem_nil, or_false]
  constructor
  · rintro (h | h | h) <;> simp [h]
  · rintro (h | h | h) <;> simp [h]

/-- The model (filter.go `checkSlice`, reached through `checkVal`'s `[]string` case): `=`
between two ID lists holds iff they are permutations of each other, `!=` iff they are not,
and every other operator is false. -/
theorem C10_model_ids_iff_perm (op : GoString) (a b : List GoString) :
    checkVal op (.strs a) (.strs b) =
      .ok (if op = Op.eq then decide (a.Perm b)
           else if op = Op.ne then !decide (a.Perm b) else false) := by
  rw [checkVal_strs]
  have h : (decide (a.length = b.length ∧ Typ.sortStrings a = Typ.sortStrings b)) =
      decide (a.Perm b) := by
    have := C10_valEq_ids_iff_perm a b
    simp only [valEq, decide_eq_true_eq] at this
    exact decide_eq_decide.2 this
  unfold checkSlice
  simp only [h]

/-- …so the verdict on two ID lists does not depend on the order in which either lists
its IDs. -/
theorem C10_model_ids_perm_invariant (op : GoString) (a a' b b' : List GoString)
    (ha : a.Perm a') (hb : b.Perm b') :
    checkVal op (.strs a) (.strs b) = checkVal op (.strs a') (.strs b') := by
  rw [C10_model_ids_iff_perm, C10_model_ids_iff_perm]
  have : decide (a.Perm b) = decide (a'.Perm b') :=
    decide_eq_decide.2 ⟨fun h => ha.symm.trans (h.trans hb), fun h => ha.trans (h.trans hb.symm)⟩
  rw [this]

example : [[121], [122], [121]].Perm [[121], [121], [122]] ∧
    checkVal Op.eq (.strs [[121], [122], [121]]) (.strs [[121], [121], [122]]) = .ok true := by
  decide

/-! ### One comparison: the model's `checkVal` -/

/-- The pairs (resource value, filter value) `checkVal` is specified on: two ID lists, two
values of one kind, or two pointers of one kind (either may be the nil pointer); payloads
have the shape and range of the kind. This is exactly "both have the Go type of one
attribute declaration", or both are to-many values. -/
def C10_comparable (v c : GoVal) : Bool :=
  match v, c with
  | .strs _, .strs _ => true
  | .val k p, .val k' p' => k = k' && k.payOk p && k.payOk p'
  | .ptr k p, .ptr k' p' => k = k' && p.all k.payOk && p'.all k.payOk
  | _, _ => false

/-- A nil as the library reads it: the typed nil pointer or the untyped nil. -/
def C10_isNil : GoVal → Bool
  | .ptr _ none => true
  | .nil => true
  | _ => false

/-- The payloads of the kinds with an order: all but booleans. -/
def C10_payOrdered : Pay → Bool
  | .b _ => false
  | _ => true

/-- Both values are non-nil and of a kind with an order (not booleans, not ID lists). -/
def C10_ordered (v c : GoVal) : Bool :=
  match sval v, sval c with
  | .pay a, .pay b => C10_payOrdered a && C10_payOrdered b
  | _, _ => false

theorem C10_comparable_of_hasAttrType {v c : GoVal} {k : Kind} {n : Bool}
    (hv : v.hasAttrType k n = true) (hc : c.hasAttrType k n = true) :
    C10_comparable v c = true := by
  cases v with
  | val kv p =>
    cases c with
    | val kc p' =>
      simp only [GoVal.hasAttrType, Bool.and_eq_true, decide_eq_true_eq] at hv hc
      obtain ⟨⟨_, e1⟩, o1⟩ := hv
      obtain ⟨⟨_, e2⟩, o2⟩ := hc
      subst e2; subst e1
      simp only [C10_comparable, o1, o2, decide_true, Bool.and_self]
    | ptr kc q => cases q <;> cases n <;> simp [GoVal.hasAttrType] at hv hc
    | _ => simp [GoVal.hasAttrType] at hc
  | ptr kv q =>
    cases c with
    | ptr kc q' =>
      cases q <;> cases q' <;>
        simp only [GoVal.hasAttrType, Bool.and_eq_true, decide_eq_true_eq] at hv hc <;>
        simp [C10_comparable, hv, hc]
    | val kc p' => cases q <;> cases n <;> simp [GoVal.hasAttrType] at hv hc
    | _ => simp [GoVal.hasAttrType] at hc
  | _ => simp [GoVal.hasAttrType] at hv

/-- Conversely a comparable pair is two ID lists or has the Go type of one declaration. -/
theorem C10_comparable_iff (v c : GoVal) :
    C10_comparable v c = true ↔
      ((∃ a b, v = .strs a ∧ c = .strs b) ∨
       ∃ k n, v.hasAttrType k n = true ∧ c.hasAttrType k n = true) := by
  constructor
  · intro h
    cases v <;> cases c <;> simp only [C10_comparable, Bool.false_eq_true] at h
    · rename_i k p k' p'
      simp only [Bool.and_eq_true, decide_eq_true_eq] at h
      obtain ⟨⟨e, h1⟩, h2⟩ := h
      subst e
      exact .inr ⟨k, false, by simp [GoVal.hasAttrType, h1], by simp [GoVal.hasAttrType, h2]⟩
    · rename_i k p k' p'
      simp only [Bool.and_eq_true, decide_eq_true_eq] at h
      obtain ⟨⟨e, h1⟩, h2⟩ := h
      subst e
      refine .inr ⟨k, true, ?_, ?_⟩
      · cases p <;> simp_all [GoVal.hasAttrType]
      · cases p' <;> simp_all [GoVal.hasAttrType]
    · exact .inl ⟨_, _, rfl, rfl⟩
  · rintro (⟨a, b, rfl, rfl⟩ | ⟨k, n, hv, hc⟩)
    · rfl
    · exact C10_comparable_of_hasAttrType hv hc

/-- `checkVal` on a comparable pair returns the comparison read as logic (`C10_eval` for
one comparison, on `checkVal` itself). -/
theorem C10_model_checkVal (op : GoString) (v c : GoVal) (h : C10_comparable v c = true) :
    checkVal op v c = .ok (Spec.evalCmp op (sval v) (sval c)) := by
  rcases (C10_comparable_iff v c).1 h with ⟨a, b, rfl, rfl⟩ | ⟨k, n, hv, hc⟩
  · rw [checkVal_strs, checkSlice_spec]; rfl
  · exact checkVal_spec op k n v c hv hc

/-! #### Specification-side facts used in the transfer -/

theorem C10_ord_isSome {k : Kind} {p p' : Pay} (h : k.payOk p = true) (h' : k.payOk p' = true) :
    (Spec.ord p p').isSome = (C10_payOrdered p && C10_payOrdered p') := by
  cases p <;> cases p' <;>
    first
    | rfl
    | (exfalso; cases k <;> simp [Kind.payOk, Kind.range?] at h h')

/-- On a comparable pair "there is an order between the two values" is: both are non-nil
and of an ordered kind. -/
theorem C10_valOrdered_eq (v c : GoVal) (h : C10_comparable v c = true) :
    Spec.valOrdered (sval v) (sval c) = C10_ordered v c := by
  cases v <;> cases c <;> simp only [C10_comparable, Bool.false_eq_true] at h
  · simp only [Bool.and_eq_true, decide_eq_true_eq] at h
    simp only [C10_ordered, sval, valOrdered]
    exact C10_ord_isSome h.1.2 h.2
  · rename_i k p k' p'
    cases p <;> cases p' <;> try rfl
    simp only [Bool.and_eq_true, decide_eq_true_eq, Option.all_some] at h
    simp only [C10_ordered, sval, valOrdered]
    exact C10_ord_isSome h.1.2 h.2
  · rfl

theorem C10_valLt_ordered (v c : SVal) (h : Spec.valLt v c = true) :
    Spec.valOrdered v c = true ∧ Spec.valOrdered c v = true := by
  cases v <;> cases c <;> simp only [valLt, Bool.false_eq_true] at h
  rename_i a b
  cases a <;> cases b <;> simp [ord] at h <;> exact ⟨rfl, rfl⟩

/-- Without an order between the two values only `=` and `!=` can hold. -/
theorem C10_evalCmp_not_ordered (op : GoString) (v c : SVal) (ho : Spec.valOrdered v c = false) :
    Spec.evalCmp op v c =
      (if op = Op.eq then Spec.valEq v c else if op = Op.ne then !Spec.valEq v c else false) := by
  refine evalCmp_unordered op v c ?_ ?_ ho
  · cases hl : Spec.valLt v c
    · rfl
    · rw [(C10_valLt_ordered v c hl).1] at ho; exact absurd ho (by decide)
  · cases hl : Spec.valLt c v
    · rfl
    · rw [(C10_valLt_ordered c v hl).2] at ho; exact absurd ho (by decide)

/-- Trichotomy of the specification for any two values with an order between them. -/
theorem C10_trichotomy_sval (v c : SVal) (h : Spec.valOrdered v c = true) :
    (Spec.evalCmp Op.lt v c = true ∧ Spec.evalCmp Op.eq v c = false ∧ Spec.evalCmp Op.gt v c = false) ∨
    (Spec.evalCmp Op.lt v c = false ∧ Spec.evalCmp Op.eq v c = true ∧ Spec.evalCmp Op.gt v c = false) ∨
    (Spec.evalCmp Op.lt v c = false ∧ Spec.evalCmp Op.eq v c = false ∧ Spec.evalCmp Op.gt v c = true) := by
  cases v <;> cases c <;> simp only [valOrdered, Bool.false_eq_true] at h
  exact C10_trichotomy _ _ h

/-! #### The laws, on `checkVal` -/

/-- `=` and `!=` are complementary on the model: both return, with opposite verdicts. -/
theorem C10_model_complement (v c : GoVal) (h : C10_comparable v c = true) :
    ∃ b, checkVal Op.eq v c = .ok b ∧ checkVal Op.ne v c = .ok (!b) :=
  ⟨_, C10_model_checkVal Op.eq v c h, by rw [C10_model_checkVal Op.ne v c h, C10_complement]⟩

/-- `<=` is `<` or (ordered and `=`), `>=` is `>` or (ordered and `=`), on the model; and
`>` is `<` with the two values exchanged. -/
theorem C10_model_le_ge (v c : GoVal) (h : C10_comparable v c = true) :
    ∃ lt eq gt, checkVal Op.lt v c = .ok lt ∧ checkVal Op.eq v c = .ok eq ∧
      checkVal Op.gt v c = .ok gt ∧
      checkVal Op.le v c = .ok (lt || (C10_ordered v c && eq)) ∧
      checkVal Op.ge v c = .ok (gt || (C10_ordered v c && eq)) := by
  refine ⟨_, _, _, C10_model_checkVal Op.lt v c h, C10_model_checkVal Op.eq v c h,
    C10_model_checkVal Op.gt v c h, ?_, ?_⟩
  · rw [C10_model_checkVal Op.le v c h, (C10_le_ge _ _).1, C10_valOrdered_eq v c h]
  · rw [C10_model_checkVal Op.ge v c h, (C10_le_ge _ _).2, C10_valOrdered_eq v c h]

theorem C10_comparable_symm (v c : GoVal) (h : C10_comparable v c = true) :
    C10_comparable c v = true := by
  cases v <;> cases c <;> simp only [C10_comparable, Bool.false_eq_true] at h ⊢
  all_goals
    simp only [Bool.and_eq_true, decide_eq_true_eq] at h ⊢
    obtain ⟨⟨e, h1⟩, h2⟩ := h
    subst e
    exact ⟨⟨rfl, h2⟩, h1⟩

/-- `>` is `<` with the two values exchanged, on the model. -/
theorem C10_model_gt_swap (v c : GoVal) (h : C10_comparable v c = true) :
    checkVal Op.gt v c = checkVal Op.lt c v := by
  rw [C10_model_checkVal Op.gt v c h, C10_model_checkVal Op.lt c v (C10_comparable_symm v c h)]
  rfl

/-- Exactly one of the model's `<`, `=`, `>` holds between two non-nil values of an
ordered kind. -/
theorem C10_model_trichotomy (v c : GoVal) (h : C10_comparable v c = true)
    (ho : C10_ordered v c = true) :
    (checkVal Op.lt v c = .ok true ∧ checkVal Op.eq v c = .ok false ∧ checkVal Op.gt v c = .ok false) ∨
    (checkVal Op.lt v c = .ok false ∧ checkVal Op.eq v c = .ok true ∧ checkVal Op.gt v c = .ok false) ∨
    (checkVal Op.lt v c = .ok false ∧ checkVal Op.eq v c = .ok false ∧ checkVal Op.gt v c = .ok true) := by
  rw [C10_model_checkVal Op.lt v c h, C10_model_checkVal Op.eq v c h, C10_model_checkVal Op.gt v c h]
  rw [← C10_valOrdered_eq v c h] at ho
  rcases C10_trichotomy_sval _ _ ho with ⟨a, b, c⟩ | ⟨a, b, c⟩ | ⟨a, b, c⟩
  · exact .inl ⟨by rw [a], by rw [b], by rw [c]⟩
  · exact .inr (.inl ⟨by rw [a], by rw [b], by rw [c]⟩)
  · exact .inr (.inr ⟨by rw [a], by rw [b], by rw [c]⟩)

/-- Without an order between the two values (one is nil, or they are booleans or ID
lists) the model allows only through `=` and `!=`. -/
theorem C10_model_unordered (op : GoString) (v c : GoVal) (h : C10_comparable v c = true)
    (ho : C10_ordered v c = false) (hop : op ≠ Op.eq) (hne : op ≠ Op.ne) :
    checkVal op v c = .ok false := by
  rw [← C10_valOrdered_eq v c h] at ho
  rw [C10_model_checkVal op v c h, C10_evalCmp_not_ordered op _ _ ho, if_neg hop, if_neg hne]

/-- A nil resource value equals only nil and is never ordered, on the model. -/
theorem C10_model_nil (op : GoString) (v c : GoVal) (h : C10_comparable v c = true)
    (hn : C10_isNil v = true) :
    checkVal op v c =
      .ok (if op = Op.eq then C10_isNil c else if op = Op.ne then !C10_isNil c else false) := by
  rw [C10_model_checkVal op v c h]
  cases v <;> simp only [C10_isNil, Bool.false_eq_true] at hn
  · rename_i k p
    cases p <;> simp only [Bool.false_eq_true] at hn
    cases c <;> simp only [C10_comparable, Bool.false_eq_true] at h
    rename_i k' q
    simp only [sval]
    rw [C10_nil]
    cases q <;> rfl
  · simp only [C10_comparable, Bool.false_eq_true] at h

/-- A nil filter value equals only nil and is never ordered, on the model. -/
theorem C10_model_nil_right (op : GoString) (v c : GoVal) (h : C10_comparable v c = true)
    (hn : C10_isNil c = true) :
    checkVal op v c =
      .ok (if op = Op.eq then C10_isNil v else if op = Op.ne then !C10_isNil v else false) := by
  rw [C10_model_checkVal op v c h]
  cases c <;> simp only [C10_isNil, Bool.false_eq_true] at hn
  · rename_i k p
    cases p <;> simp only [Bool.false_eq_true] at hn
    cases v <;> simp only [C10_comparable, Bool.false_eq_true] at h
    rename_i k' q
    simp only [sval]
    rw [C10_nil_right]
    cases q <;> rfl
  · cases v <;> simp only [C10_comparable, Bool.false_eq_true] at h

/-- Booleans have no order on the model. -/
theorem C10_model_unordered_bool (op : GoString) (a b : Bool) (hop : op ≠ Op.eq) (hne : op ≠ Op.ne) :
    checkVal op (.val .bool (.b a)) (.val .bool (.b b)) = .ok false ∧
    checkVal op (.ptr .bool (some (.b a))) (.ptr .bool (some (.b b))) = .ok false :=
  ⟨C10_model_unordered op _ _ rfl rfl hop hne, C10_model_unordered op _ _ rfl rfl hop hne⟩

/-- To-many ID lists have no order on the model. -/
theorem C10_model_unordered_ids (op : GoString) (a b : List GoString)
    (hop : op ≠ Op.eq) (hne : op ≠ Op.ne) : checkVal op (.strs a) (.strs b) = .ok false :=
  C10_model_unordered op _ _ rfl rfl hop hne

/-- An unknown operator allows nothing, on the model. -/
theorem C10_model_unknown_op (op : GoString) (v c : GoVal) (h : C10_comparable v c = true)
    (hop : op ∉ [Op.eq, Op.ne, Op.lt, Op.le, Op.gt, Op.ge]) : checkVal op v c = .ok false := by
  rw [C10_model_checkVal op v c h, C10_unknown_op op _ _ hop]

/-! ### One leaf of a filter tree: the model's `isAllowed` -/

/-- What `getAttrVal` does to the value read from the resource: nothing, or it turns the
untyped nil into a typed nil pointer. -/
theorem C10_getAttrVal_cases (r : ResView) (field : GoString) :
    getAttrVal r field = r.get field ∨
      (r.get field = .nil ∧ ∃ k, getAttrVal r field = .ptr k none) := by
  unfold getAttrVal
  split
  · rename_i e
    rw [e]
    split
    · split
      · split
        · exact .inr ⟨rfl, _, rfl⟩
        · exact .inl rfl
      · exact .inl rfl
    · exact .inl rfl
  · exact .inl rfl

/-- Well-typedness of a comparison leaf does not depend on which comparison it is. -/
theorem C10_leafWellTyped_cmp (r : ResView) (field op op' : GoString) (val : GoVal)
    (h : op ∉ [Op.and_, Op.or_, Op.in_, Op.has]) (h' : op' ∉ [Op.and_, Op.or_, Op.in_, Op.has]) :
    leafWellTyped r field op val = leafWellTyped r field op' val := by
  simp only [List.mem_cons, List.not_mem_nil, or_false, not_or] at h h'
  unfold leafWellTyped
  simp only [h.1, h.2.1, h.2.2.1, h.2.2.2, h'.1, h'.2.1, h'.2.2.1, h'.2.2.2, ne_eq,
    not_false_eq_true, decide_true, if_false]

/-- A well-typed comparison leaf on a well-formed resource is one call of `checkVal` on a
comparable pair: the field's value (an untyped nil read from a nullable attribute made a
typed nil pointer) and the filter's value. -/
theorem C10_leaf_checkVal (r : ResView) (hr : r.wf = true) (field : GoString) (val : GoVal)
    (hf : leafWellTyped r field Op.eq val = true) :
    ∃ v, fieldVal r field = .ok v ∧ C10_comparable v val = true ∧
      (v = r.get field ∨ (r.get field = .nil ∧ ∃ k, v = .ptr k none)) ∧
      ∀ op, op ∉ [Op.and_, Op.or_, Op.in_, Op.has] →
        isAllowed r (.leaf field op val) = checkVal op v val := by
  have hleaf : ∀ v, fieldVal r field = .ok v → ∀ op, op ∉ [Op.and_, Op.or_, Op.in_, Op.has] →
      isAllowed r (.leaf field op val) = checkVal op v val := by
    intro v hv op hop
    simp only [List.mem_cons, List.not_mem_nil, or_false, not_or] at hop
    rw [isAllowed_leaf, hv]
    simp only [hop.1, hop.2.1, hop.2.2.1, hop.2.2.2, or_self, if_false]
  have e1 : Op.eq ≠ Op.in_ := by decide
  have e2 : Op.eq ≠ Op.has := by decide
  unfold leafWellTyped at hf
  simp only [Bool.and_eq_true] at hf
  obtain ⟨_, hf⟩ := hf
  cases hrel : r.rels.get? field with
  | some rel =>
    rw [hrel] at hf
    simp only [e1, e2, if_false] at hf
    rcases wf_rel hr hrel with ⟨id, hg, hone⟩ | ⟨l, hg, hone⟩
    · have hfv : fieldVal r field = .ok (.val .string (.s id)) := by
        unfold fieldVal; simp only [hrel, hone, if_true, hg]
      simp only [hone, if_true] at hf
      refine ⟨_, hfv, ?_, .inl hg.symm, hleaf _ hfv⟩
      split at hf
      · simp [C10_comparable, Kind.payOk]
      · exact absurd hf (by simp)
    · have hfv : fieldVal r field = .ok (.strs l) := by
        unfold fieldVal; simp only [hrel, hone, hg]; rfl
      simp only [hone, if_false, Bool.false_eq_true] at hf
      refine ⟨_, hfv, ?_, .inl hg.symm, hleaf _ hfv⟩
      split at hf
      · rfl
      · exact absurd hf (by simp)
  | none =>
    rw [hrel] at hf
    cases hat : r.attrs.get? field with
    | none => rw [hat] at hf; exact absurd hf (by simp)
    | some a =>
      rw [hat] at hf
      obtain ⟨_, k, hk, hv⟩ := wf_attr hr hat
      simp only [hk, e1, e2, if_false] at hf
      obtain ⟨hty, _⟩ := getAttrVal_spec hat hk hv
      have hfv : fieldVal r field = .ok (getAttrVal r field) := by
        unfold fieldVal
        simp only [hrel, GoMap.has, hat, Option.isSome_some, if_true]
      exact ⟨_, hfv, C10_comparable_of_hasAttrType hty hf, C10_getAttrVal_cases r field,
        hleaf _ hfv⟩

theorem C10_cmp_ops :
    Op.eq ∉ [Op.and_, Op.or_, Op.in_, Op.has] ∧ Op.ne ∉ [Op.and_, Op.or_, Op.in_, Op.has] ∧
    Op.lt ∉ [Op.and_, Op.or_, Op.in_, Op.has] ∧ Op.le ∉ [Op.and_, Op.or_, Op.in_, Op.has] ∧
    Op.gt ∉ [Op.and_, Op.or_, Op.in_, Op.has] ∧ Op.ge ∉ [Op.and_, Op.or_, Op.in_, Op.has] := by
  decide

theorem C10_isNil_fieldVal {v w : GoVal} (h : v = w ∨ (w = .nil ∧ ∃ k, v = .ptr k none)) :
    C10_isNil v = C10_isNil w ∧ ∀ c, C10_ordered v c = C10_ordered w c := by
  rcases h with rfl | ⟨rfl, k, rfl⟩
  · exact ⟨rfl, fun _ => rfl⟩
  · exact ⟨rfl, fun _ => rfl⟩

/-- `=` and `!=` leaves are complementary on the model's `isAllowed`. -/
theorem C10_isAllowed_complement (r : ResView) (hr : r.wf = true) (field : GoString) (val : GoVal)
    (hf : leafWellTyped r field Op.eq val = true) :
    ∃ b, isAllowed r (.leaf field Op.eq val) = .ok b ∧
         isAllowed r (.leaf field Op.ne val) = .ok (!b) := by
  obtain ⟨v, _, hc, _, hop⟩ := C10_leaf_checkVal r hr field val hf
  rw [hop _ C10_cmp_ops.1, hop _ C10_cmp_ops.2.1]
  exact C10_model_complement v val hc

/-- `<=` / `>=` leaves decompose into `<` / `>` or (ordered and `=`) on `isAllowed`. -/
theorem C10_isAllowed_le_ge (r : ResView) (hr : r.wf = true) (field : GoString) (val : GoVal)
    (hf : leafWellTyped r field Op.eq val = true) :
    ∃ lt eq gt, isAllowed r (.leaf field Op.lt val) = .ok lt ∧
      isAllowed r (.leaf field Op.eq val) = .ok eq ∧
      isAllowed r (.leaf field Op.gt val) = .ok gt ∧
      isAllowed r (.leaf field Op.le val) = .ok (lt || (C10_ordered (r.get field) val && eq)) ∧
      isAllowed r (.leaf field Op.ge val) = .ok (gt || (C10_ordered (r.get field) val && eq)) := by
  obtain ⟨v, _, hc, hd, hop⟩ := C10_leaf_checkVal r hr field val hf
  rw [hop _ C10_cmp_ops.1, hop _ C10_cmp_ops.2.2.1, hop _ C10_cmp_ops.2.2.2.1,
    hop _ C10_cmp_ops.2.2.2.2.1, hop _ C10_cmp_ops.2.2.2.2.2, ← (C10_isNil_fieldVal hd).2]
  exact C10_model_le_ge v val hc

/-- Exactly one of the `<`, `=`, `>` leaves is allowed when the field's value and the
filter's value are non-nil and of an ordered kind. -/
theorem C10_isAllowed_trichotomy (r : ResView) (hr : r.wf = true) (field : GoString) (val : GoVal)
    (hf : leafWellTyped r field Op.eq val = true) (ho : C10_ordered (r.get field) val = true) :
    (isAllowed r (.leaf field Op.lt val) = .ok true ∧ isAllowed r (.leaf field Op.eq val) = .ok false ∧
      isAllowed r (.leaf field Op.gt val) = .ok false) ∨
    (isAllowed r (.leaf field Op.lt val) = .ok false ∧ isAllowed r (.leaf field Op.eq val) = .ok true ∧
      isAllowed r (.leaf field Op.gt val) = .ok false) ∨
    (isAllowed r (.leaf field Op.lt val) = .ok false ∧ isAllowed r (.leaf field Op.eq val) = .ok false ∧
      isAllowed r (.leaf field Op.gt val) = .ok true) := by
  obtain ⟨v, _, hc, hd, hop⟩ := C10_leaf_checkVal r hr field val hf
  rw [hop _ C10_cmp_ops.1, hop _ C10_cmp_ops.2.2.1, hop _ C10_cmp_ops.2.2.2.2.1]
  rw [← (C10_isNil_fieldVal hd).2] at ho
  exact C10_model_trichotomy v val hc ho

/-- A field read as nil (typed or untyped) equals only nil and is never ordered. -/
theorem C10_isAllowed_nil (r : ResView) (hr : r.wf = true) (field op : GoString) (val : GoVal)
    (hf : leafWellTyped r field Op.eq val = true) (hop : op ∉ [Op.and_, Op.or_, Op.in_, Op.has])
    (hn : C10_isNil (r.get field) = true) :
    isAllowed r (.leaf field op val) =
      .ok (if op = Op.eq then C10_isNil val else if op = Op.ne then !C10_isNil val else false) := by
  obtain ⟨v, _, hc, hd, h⟩ := C10_leaf_checkVal r hr field val hf
  rw [h _ hop]
  rw [← (C10_isNil_fieldVal hd).1] at hn
  exact C10_model_nil op v val hc hn

/-- A nil filter value is equal only to a field read as nil and is never ordered. -/
theorem C10_isAllowed_nil_right (r : ResView) (hr : r.wf = true) (field op : GoString) (val : GoVal)
    (hf : leafWellTyped r field Op.eq val = true) (hop : op ∉ [Op.and_, Op.or_, Op.in_, Op.has])
    (hn : C10_isNil val = true) :
    isAllowed r (.leaf field op val) =
      .ok (if op = Op.eq then C10_isNil (r.get field)
           else if op = Op.ne then !C10_isNil (r.get field) else false) := by
  obtain ⟨v, _, hc, hd, h⟩ := C10_leaf_checkVal r hr field val hf
  rw [h _ hop, ← (C10_isNil_fieldVal hd).1]
  exact C10_model_nil_right op v val hc hn

/-- Nil, booleans and to-many sets are never ordered: `<`, `<=`, `>`, `>=` (and any
unknown operator) allow nothing. -/
theorem C10_isAllowed_unordered (r : ResView) (hr : r.wf = true) (field op : GoString) (val : GoVal)
    (hf : leafWellTyped r field Op.eq val = true) (hop : op ∉ [Op.and_, Op.or_, Op.in_, Op.has])
    (ho : C10_ordered (r.get field) val = false) (heq : op ≠ Op.eq) (hne : op ≠ Op.ne) :
    isAllowed r (.leaf field op val) = .ok false := by
  obtain ⟨v, _, hc, hd, h⟩ := C10_leaf_checkVal r hr field val hf
  rw [h _ hop]
  rw [← (C10_isNil_fieldVal hd).2] at ho
  exact C10_model_unordered op v val hc ho heq hne

/-- An unknown operator allows nothing. -/
theorem C10_isAllowed_unknown_op (r : ResView) (hr : r.wf = true) (field op : GoString) (val : GoVal)
    (hf : leafWellTyped r field Op.eq val = true)
    (hop : op ∉ [Op.and_, Op.or_, Op.in_, Op.has, Op.eq, Op.ne, Op.lt, Op.le, Op.gt, Op.ge]) :
    isAllowed r (.leaf field op val) = .ok false := by
  obtain ⟨v, _, hc, _, h⟩ := C10_leaf_checkVal r hr field val hf
  simp only [List.mem_cons, List.not_mem_nil, or_false, not_or] at hop
  obtain ⟨h1, h2, h3, h4, h5, h6, h7, h8, h9, h10⟩ := hop
  rw [h op (by simp only [List.mem_cons, List.not_mem_nil, or_false, not_or]; exact ⟨h1, h2, h3, h4⟩)]
  exact C10_model_unknown_op op v val hc
    (by simp only [List.mem_cons, List.not_mem_nil, or_false, not_or]; exact ⟨h5, h6, h7, h8, h9, h10⟩)

/-- `=` between a to-many relationship and an ID list holds iff the two are permutations
of each other. -/
theorem C10_isAllowed_ids_iff_perm (r : ResView) (hr : r.wf = true) (field : GoString)
    (a b : List GoString) (hg : r.get field = .strs a)
    (hf : leafWellTyped r field Op.eq (.strs b) = true) :
    isAllowed r (.leaf field Op.eq (.strs b)) = .ok (decide (a.Perm b)) ∧
    isAllowed r (.leaf field Op.ne (.strs b)) = .ok (!decide (a.Perm b)) := by
  obtain ⟨v, _, _, hd, h⟩ := C10_leaf_checkVal r hr field _ hf
  have hv : v = .strs a := by
    rcases hd with e | ⟨e, _⟩
    · rw [e, hg]
    · rw [hg] at e; exact absurd e (by simp)
  subst hv
  rw [h _ C10_cmp_ops.1, h _ C10_cmp_ops.2.1, C10_model_ids_iff_perm, C10_model_ids_iff_perm]
  exact ⟨rfl, rfl⟩

/-! ### `and` / `or` nodes and the membership tests, on `isAllowed` -/

theorem C10_wellTypedAll_mem (r : ResView) :
    ∀ fs : List Filter, wellTypedAll r fs = true → ∀ f ∈ fs, wellTyped r f = true
  | [], _, _, hm => absurd hm (by simp)
  | g :: gs, h, f, hm => by
    rw [wellTypedAll_cons, Bool.and_eq_true] at h
    rcases List.mem_cons.1 hm with rfl | hm'
    · exact h.1
    · exact C10_wellTypedAll_mem r gs h.2 f hm'

theorem C10_evalAll_iff (r : ResView) :
    ∀ fs : List Filter, Spec.evalAll r fs = true ↔ ∀ f ∈ fs, Spec.eval r f = true
  | [] => by simp [evalAll_nil]
  | g :: gs => by
    rw [evalAll_cons, Bool.and_eq_true, C10_evalAll_iff r gs]
    simp only [List.mem_cons, forall_eq_or_imp]

theorem C10_evalAny_iff (r : ResView) :
    ∀ fs : List Filter, Spec.evalAny r fs = true ↔ ∃ f ∈ fs, Spec.eval r f = true
  | [] => by simp [evalAny_nil]
  | g :: gs => by
    rw [evalAny_cons, Bool.or_eq_true, C10_evalAny_iff r gs]
    simp only [List.mem_cons, exists_eq_or_imp]

/-- An `and` node returns, and allows iff every child allows (so it allows when empty). -/
theorem C10_isAllowed_and (r : ResView) (hr : r.wf = true) (fs : List Filter)
    (hf : wellTypedAll r fs = true) :
    ∃ b, isAllowed r (.node true fs) = .ok b ∧
      (b = true ↔ ∀ f ∈ fs, isAllowed r f = .ok true) := by
  refine ⟨Spec.evalAll r fs, by rw [isAllowed_and]; exact C10_evalAll r hr fs hf, ?_⟩
  rw [C10_evalAll_iff]
  constructor
  · intro h f hm
    rw [C10_eval r hr f (C10_wellTypedAll_mem r fs hf f hm), h f hm]
  · intro h f hm
    have := h f hm
    rw [C10_eval r hr f (C10_wellTypedAll_mem r fs hf f hm)] at this
    exact Res.ok.inj this

/-- An `or` node returns, and allows iff some child allows (so it does not when empty). -/
theorem C10_isAllowed_or (r : ResView) (hr : r.wf = true) (fs : List Filter)
    (hf : wellTypedAll r fs = true) :
    ∃ b, isAllowed r (.node false fs) = .ok b ∧
      (b = true ↔ ∃ f ∈ fs, isAllowed r f = .ok true) := by
  refine ⟨Spec.evalAny r fs, by rw [isAllowed_or]; exact C10_evalAny r hr fs hf, ?_⟩
  rw [C10_evalAny_iff]
  constructor
  · rintro ⟨f, hm, h⟩
    exact ⟨f, hm, by rw [C10_eval r hr f (C10_wellTypedAll_mem r fs hf f hm), h]⟩
  · rintro ⟨f, hm, h⟩
    rw [C10_eval r hr f (C10_wellTypedAll_mem r fs hf f hm)] at h
    exact ⟨f, hm, Res.ok.inj h⟩

/-- The empty `and` allows, the empty `or` does not (no hypothesis). -/
theorem C10_isAllowed_empty (r : ResView) :
    isAllowed r (.node true []) = .ok true ∧ isAllowed r (.node false []) = .ok false :=
  ⟨rfl, rfl⟩

/-- `in` is a membership test: the field holds one ID (a to-one relationship or a
non-nullable string attribute), the filter a list, and the leaf allows iff the ID is in
the list. -/
theorem C10_isAllowed_in (r : ResView) (hr : r.wf = true) (field : GoString) (val : GoVal)
    (hf : leafWellTyped r field Op.in_ val = true) :
    ∃ id ids, r.get field = .val .string (.s id) ∧ val = .strs ids ∧
      isAllowed r (.leaf field Op.in_ val) = .ok (decide (id ∈ ids)) := by
  have hs := leaf_spec r hr field Op.in_ val hf
  rw [eval_leaf, if_pos rfl] at hs
  unfold leafWellTyped at hf
  simp only [Bool.and_eq_true] at hf
  obtain ⟨_, hf⟩ := hf
  cases hrel : r.rels.get? field with
  | some rel =>
    rw [hrel] at hf
    simp only [if_true, Bool.and_eq_true] at hf
    obtain ⟨hone, hval⟩ := hf
    rcases wf_rel hr hrel with ⟨id, hg, _⟩ | ⟨l, hg, hone'⟩
    · cases val <;> simp only [Bool.false_eq_true] at hval
      rename_i ids
      have hfs : fieldSVal r field = .pay (.s id) := by
        unfold fieldSVal
        rw [if_pos (.inl (by simp [GoMap.has, hrel])), hg]; rfl
      rw [hfs] at hs
      exact ⟨id, ids, hg, rfl, by rw [hs]; simp⟩
    · rw [hone'] at hone; exact absurd hone (by decide)
  | none =>
    rw [hrel] at hf
    cases hat : r.attrs.get? field with
    | none => rw [hat] at hf; exact absurd hf (by simp)
    | some a =>
      rw [hat] at hf
      obtain ⟨_, k, hk, hv⟩ := wf_attr hr hat
      simp only [hk, if_true, Bool.and_eq_true, decide_eq_true_eq, Bool.not_eq_true'] at hf
      obtain ⟨⟨e1, e2⟩, hval⟩ := hf
      subst e1
      rw [e2] at hv
      cases val <;> simp only [Bool.false_eq_true] at hval
      rename_i ids
      rcases hv with hv | ⟨h, _⟩
      · cases hgv : r.get field with
        | val kv p =>
          rw [hgv] at hv
          simp only [GoVal.hasAttrType, Bool.not_false, Bool.true_and, Bool.and_eq_true,
            decide_eq_true_eq] at hv
          obtain ⟨e, hp⟩ := hv
          subst e
          cases p <;> simp [Kind.payOk, Kind.range?] at hp
          rename_i id
          have hfs : fieldSVal r field = .pay (.s id) := by
            unfold fieldSVal
            rw [if_pos (.inr (by simp [GoMap.has, hat])), hgv]; rfl
          rw [hfs] at hs
          exact ⟨id, ids, rfl, rfl, by rw [hs]; simp⟩
        | ptr kv q => rw [hgv] at hv; cases q <;> simp [GoVal.hasAttrType] at hv
        | strs _ => rw [hgv] at hv; simp [GoVal.hasAttrType] at hv
        | nil => rw [hgv] at hv; simp [GoVal.hasAttrType] at hv
        | other _ => rw [hgv] at hv; simp [GoVal.hasAttrType] at hv
      · exact absurd h (by decide)

/-- `has` is a membership test: the field is a to-many relationship, the filter holds one
ID, and the leaf allows iff the ID is among the relationship's IDs. -/
theorem C10_isAllowed_has (r : ResView) (hr : r.wf = true) (field : GoString) (val : GoVal)
    (hf : leafWellTyped r field Op.has val = true) :
    ∃ id ids, r.get field = .strs ids ∧ val = .val .string (.s id) ∧
      isAllowed r (.leaf field Op.has val) = .ok (decide (id ∈ ids)) := by
  have hs := leaf_spec r hr field Op.has val hf
  rw [eval_leaf, if_neg Op.has_ne_in, if_pos rfl] at hs
  unfold leafWellTyped at hf
  simp only [Bool.and_eq_true] at hf
  obtain ⟨_, hf⟩ := hf
  cases hrel : r.rels.get? field with
  | some rel =>
    rw [hrel] at hf
    simp only [Op.has_ne_in, if_false, if_true, Bool.and_eq_true, Bool.not_eq_true'] at hf
    obtain ⟨hone, hval⟩ := hf
    rcases wf_rel hr hrel with ⟨id, hg, hone'⟩ | ⟨l, hg, _⟩
    · rw [hone'] at hone; exact absurd hone (by decide)
    · split at hval
      · rename_i id
        have hfs : fieldSVal r field = .ids l := by
          unfold fieldSVal
          rw [if_pos (.inl (by simp [GoMap.has, hrel])), hg]; rfl
        rw [hfs] at hs
        exact ⟨id, l, hg, rfl, by rw [hs]; simp⟩
      · exact absurd hval (by simp)
  | none =>
    rw [hrel] at hf
    cases hat : r.attrs.get? field with
    | none => rw [hat] at hf; exact absurd hf (by simp)
    | some a =>
      rw [hat] at hf
      obtain ⟨_, k, hk, _⟩ := wf_attr hr hat
      simp [hk, Op.has_ne_in] at hf

/-! ### Non-vacuity: concrete instances meeting the hypotheses -/

/-- Comparable, ordered pairs of every ordered class; [2,1] vs [1,2] as byte strings is
exactly `>` on the model. -/
example :
    C10_comparable (.val .bytes (.bs (some [2, 1]))) (.val .bytes (.bs (some [1, 2]))) = true ∧
    C10_ordered (.val .bytes (.bs (some [2, 1]))) (.val .bytes (.bs (some [1, 2]))) = true ∧
    checkVal Op.lt (.val .bytes (.bs (some [2, 1]))) (.val .bytes (.bs (some [1, 2]))) = .ok false ∧
    checkVal Op.eq (.val .bytes (.bs (some [2, 1]))) (.val .bytes (.bs (some [1, 2]))) = .ok false ∧
    checkVal Op.gt (.val .bytes (.bs (some [2, 1]))) (.val .bytes (.bs (some [1, 2]))) = .ok true ∧
    C10_comparable (.ptr .int16 (some (.i (-3)))) (.ptr .int16 (some (.i 7))) = true ∧
    C10_ordered (.ptr .int16 (some (.i (-3)))) (.ptr .int16 (some (.i 7))) = true ∧
    C10_comparable (.val .string (.s [97])) (.val .string (.s [97, 98])) = true ∧
    C10_ordered (.val .string (.s [97])) (.val .string (.s [97, 98])) = true ∧
    C10_comparable (.val .time (.t ⟨5, 0, 3600⟩)) (.val .time (.t ⟨5, 0, 0⟩)) = true ∧
    C10_ordered (.val .time (.t ⟨5, 0, 3600⟩)) (.val .time (.t ⟨5, 0, 0⟩)) = true ∧
    checkVal Op.eq (.val .time (.t ⟨5, 0, 3600⟩)) (.val .time (.t ⟨5, 0, 0⟩)) = .ok true := by
  decide

/-- Comparable pairs without an order: a nil pointer on either side, booleans, ID lists;
a pair out of range or of two kinds is not comparable. -/
example :
    C10_comparable (.ptr .int16 none) (.ptr .int16 (some (.i 5))) = true ∧
    C10_isNil (.ptr .int16 none) = true ∧ C10_isNil (.ptr .int16 (some (.i 5))) = false ∧
    C10_ordered (.ptr .int16 none) (.ptr .int16 (some (.i 5))) = false ∧
    checkVal Op.ne (.ptr .int16 none) (.ptr .int16 (some (.i 5))) = .ok true ∧
    checkVal Op.le (.ptr .int16 none) (.ptr .int16 (some (.i 5))) = .ok false ∧
    checkVal Op.eq (.ptr .int16 none) (.ptr .int16 none) = .ok true ∧
    checkVal Op.ge (.ptr .int16 none) (.ptr .int16 none) = .ok false ∧
    C10_comparable (.val .bool (.b true)) (.val .bool (.b false)) = true ∧
    C10_ordered (.val .bool (.b true)) (.val .bool (.b false)) = false ∧
    C10_comparable (.strs [[121], [122]]) (.strs [[122], [121]]) = true ∧
    C10_ordered (.strs [[121], [122]]) (.strs [[122], [121]]) = false ∧
    C10_comparable (.val .int8 (.i 300)) (.val .int8 (.i 1)) = false ∧
    C10_comparable (.val .int8 (.i 3)) (.val .int16 (.i 3)) = false ∧
    [126] ∉ [Op.eq, Op.ne, Op.lt, Op.le, Op.gt, Op.ge] := by
  decide

/-- The resource of `Props/C10.lean`: its bytes attribute `a` against [1,2] is a well-typed
ordered comparison; its nullable attribute `n` reads as (untyped) nil; its to-many
relationship `m` = [y,z] against [z,y] is a well-typed unordered comparison of two
permutations; `o in […]` and `m has z` are well-typed membership tests. -/
example :
    C10_exampleRes.wf = true ∧
    leafWellTyped C10_exampleRes [97] Op.eq (.val .bytes (.bs (some [1, 2]))) = true ∧
    C10_ordered (C10_exampleRes.get [97]) (.val .bytes (.bs (some [1, 2]))) = true ∧
    isAllowed C10_exampleRes (.leaf [97] Op.gt (.val .bytes (.bs (some [1, 2])))) = .ok true ∧
    leafWellTyped C10_exampleRes [110] Op.eq (.ptr .int16 (some (.i 3))) = true ∧
    leafWellTyped C10_exampleRes [110] Op.eq (.ptr .int16 none) = true ∧
    C10_isNil (C10_exampleRes.get [110]) = true ∧ C10_isNil (.ptr .int16 none) = true ∧
    isAllowed C10_exampleRes (.leaf [110] Op.eq (.ptr .int16 none)) = .ok true ∧
    isAllowed C10_exampleRes (.leaf [110] Op.eq (.ptr .int16 (some (.i 3)))) = .ok false ∧
    isAllowed C10_exampleRes (.leaf [110] Op.le (.ptr .int16 (some (.i 3)))) = .ok false ∧
    leafWellTyped C10_exampleRes [109] Op.eq (.strs [[122], [121]]) = true ∧
    C10_exampleRes.get [109] = .strs [[121], [122]] ∧
    C10_ordered (C10_exampleRes.get [109]) (.strs [[122], [121]]) = false ∧
    isAllowed C10_exampleRes (.leaf [109] Op.eq (.strs [[122], [121]])) = .ok true ∧
    isAllowed C10_exampleRes (.leaf [109] Op.lt (.strs [[122], [121]])) = .ok false ∧
    [126] ∉ [Op.and_, Op.or_, Op.in_, Op.has, Op.eq, Op.ne, Op.lt, Op.le, Op.gt, Op.ge] ∧
    isAllowed C10_exampleRes (.leaf [97] [126] (.val .bytes (.bs (some [1, 2])))) = .ok false ∧
    Op.le ∉ [Op.and_, Op.or_, Op.in_, Op.has] ∧
    leafWellTyped C10_exampleRes [111] Op.in_ (.strs [[119], [120]]) = true ∧
    leafWellTyped C10_exampleRes [109] Op.has (.val .string (.s [122])) = true ∧
    wellTypedAll C10_exampleRes [.leaf [111] Op.in_ (.strs [[119], [120]]),
      .leaf [109] Op.has (.val .string (.s [122]))] = true := by
  decide

section Axioms
open Jsonapi
#print axioms C10_valEq_ids_iff_perm
#print axioms C10_valEq_ids_iff_sort
#print axioms C10_valEq_ids_not_set_counterexample
#print axioms C10_model_ids_iff_perm
#print axioms C10_model_ids_perm_invariant
#print axioms C10_comparable_of_hasAttrType
#print axioms C10_comparable_iff
#print axioms C10_model_checkVal
#print axioms C10_ord_isSome
#print axioms C10_valOrdered_eq
#print axioms C10_valLt_ordered
#print axioms C10_evalCmp_not_ordered
#print axioms C10_trichotomy_sval
#print axioms C10_model_complement
#print axioms C10_model_le_ge
#print axioms C10_comparable_symm
#print axioms C10_model_gt_swap
#print axioms C10_model_trichotomy
#print axioms C10_model_unordered
#print axioms C10_model_nil
#print axioms C10_model_nil_right
#print axioms C10_model_unordered_bool
#print axioms C10_model_unordered_ids
#print axioms C10_model_unknown_op
#print axioms C10_getAttrVal_cases
#print axioms C10_leafWellTyped_cmp
#print axioms C10_leaf_checkVal
#print axioms C10_cmp_ops
#print axioms C10_isNil_fieldVal
#print axioms C10_isAllowed_complement
#print axioms C10_isAllowed_le_ge
#print axioms C10_isAllowed_trichotomy
#print axioms C10_isAllowed_nil
#print axioms C10_isAllowed_nil_right
#print axioms C10_isAllowed_unordered
#print axioms C10_isAllowed_unknown_op
#print axioms C10_isAllowed_ids_iff_perm
#print axioms C10_wellTypedAll_mem
#print axioms C10_evalAll_iff
#print axioms C10_evalAny_iff
#print axioms C10_isAllowed_and
#print axioms C10_isAllowed_or
#print axioms C10_isAllowed_empty
#print axioms C10_isAllowed_in
#print axioms C10_isAllowed_has
end Axioms
end Jsonapi
