/-
C07 — NewURLFromRaw is total and its result is valid for the schema.

"For any raw URL string and any schema, parsing returns without panicking, with either an
error or a URL. In a returned URL the resource type exists in the schema, every
field-selection entry names a schema type and lists only that type's fields (or id)
without duplicates, defaulting to all of the type's fields, and every inclusion path is a
chain of relationships that exists in the schema from the resource type, each valid
requested path being kept unless a longer requested path extends it. For collection URLs
the sorting rules keep the caller's valid rules in order, mention only id or attributes
of the type, and always contain id."

`url.Parse` + `Query()` are delegated: `parsed` is anything they can return (`none`: the
raw string does not parse; otherwise the decoded path, the values map — any association
list, whose order stands for Go's map iteration order — and the standard library's decode
results for the filter parameter). "Every schema" is `Inv σ` (what the schema API
maintains); relationships may point to missing types.
-/
import Jsonapi.Proofs.UrlLemmas
import Jsonapi.Proofs.UrlReparseLemmas
import Jsonapi.Proofs.UrlPermLemmas3
namespace Jsonapi
open UrlL

/-- 1. Parsing never panics: the result is an error or a URL. -/
theorem C07_total (σ : Schema) (parsed : Option (GoString × GoMap (List GoString) × FilterDec)) :
    newURLFrom σ parsed ≠ .panic :=
  newURLFrom_no_panic σ parsed

/-- 2. The resource type of a returned URL exists in the schema (no hypothesis on the
schema is needed). -/
theorem C07_restype (σ : Schema) (_hσ : Inv σ)
    (parsed : Option (GoString × GoMap (List GoString) × FilterDec)) (u : URL)
    (h : newURLFrom σ parsed = .ok u) : σ.hasType u.resType = true := by
  obtain ⟨path, values, fd, su, _, _, hu⟩ := newURLFrom_ok σ parsed u h
  exact restype_ok σ su u hu

/-- 3. Every field-selection entry names a schema type and lists distinct names that are
`id` or fields of that type; and every type has at most one entry. -/
theorem C07_fields (σ : Schema) (hσ : Inv σ)
    (parsed : Option (GoString × GoMap (List GoString) × FilterDec)) (u : URL)
    (h : newURLFrom σ parsed = .ok u) :
    (∀ t fs, u.params.fields.get? t = some fs →
      σ.hasType t = true ∧ (∀ f ∈ fs, f = idName ∨ f ∈ (σ.getType t).fields) ∧ fs.Nodup) ∧
    u.params.fields.keys.Nodup := by
  obtain ⟨path, values, fd, su, _, _, hu⟩ := newURLFrom_ok σ parsed u h
  obtain ⟨f0, rest, p, _, _, _, hp, hpe, _⟩ := newURL_ok σ su u hu
  rw [hpe]
  exact params_fields hσ (restype_ok σ su u hu) hp

/-- 3 (default). When the request for `t` — the first value of a `fields[t]` parameter,
split at commas — contains no valid name (in particular when there is no such parameter),
the selection is all of the type's fields. -/
theorem C07_fields_default (σ : Schema) (path : GoString) (values : GoMap (List GoString))
    (fd : FilterDec) (u : URL) (h : newURLFrom σ (some (path, values, fd)) = .ok u)
    (t : GoString) (fs : List GoString) (hget : u.params.fields.get? t = some fs)
    (hreq : ∀ vs, (Spec.fieldsName t, vs) ∈ values →
      ∀ f ∈ parseCommaList (firstVal vs), f ≠ idName ∧ f ∉ (σ.getType t).fields) :
    fs = (σ.getType t).fields := by
  obtain ⟨path', values', fd', su, hpar, hsu, hu⟩ := newURLFrom_ok σ _ u h
  cases hpar
  obtain ⟨f0, rest, p, _, _, _, hp, hpe, _⟩ := newURL_ok σ su u hu
  rw [hpe] at hget
  refine params_fields_default hp t fs hget ?_
  intro q hq
  obtain ⟨_, vs, hvs, hq2⟩ := newSimpleURL_fields hsu (t, q) hq
  have hq2' : q = parseCommaList (firstVal vs) := hq2
  rw [hq2']
  exact hreq vs hvs

/-- 4. Every inclusion path is a non-empty chain of relationships that exists in the schema
from the resource type. -/
theorem C07_include_valid (σ : Schema) (hσ : Inv σ)
    (parsed : Option (GoString × GoMap (List GoString) × FilterDec)) (u : URL)
    (h : newURLFrom σ parsed = .ok u) :
    ∀ path ∈ u.params.incl, path ≠ [] ∧ Spec.validChain σ u.resType path = true := by
  obtain ⟨path, values, fd, su, _, _, hu⟩ := newURLFrom_ok σ parsed u h
  obtain ⟨f0, rest, p, _, _, _, hp, hpe, _⟩ := newURL_ok σ su u hu
  rw [hpe]
  exact params_incl_valid hσ hp

/-- 5. Each requested path that resolves against the schema is kept unless a longer
requested path extends it (`q'` starts with `q ++ "."`). -/
theorem C07_include_kept (σ : Schema) (path : GoString) (values : GoMap (List GoString))
    (fd : FilterDec) (u : URL) (h : newURLFrom σ (some (path, values, fd)) = .ok u)
    (q : GoString) (hq : q ∈ Spec.requestedIncludes values) (rels : List Rel)
    (hr : resolvePath σ u.resType (splitOn 46 q) = some rels) :
    rels ∈ u.params.incl ∨
      ∃ q' ∈ Spec.requestedIncludes values, hasPrefix q' (q ++ [46]) = true := by
  obtain ⟨path', values', fd', su, hpar, hsu, hu⟩ := newURLFrom_ok σ _ u h
  cases hpar
  obtain ⟨f0, rest, p, _, _, _, hp, hpe, _⟩ := newURL_ok σ su u hu
  rw [hpe, ← newSimpleURL_incl hsu]
  exact params_incl_kept hp q (newSimpleURL_incl hsu ▸ hq) rels hr

/-- 6. For a collection URL the sorting rules start with the caller's valid rules in
order, every rule is an attribute name or names (after an optional '-') `id` or an
attribute of the type, and some rule names `id`. -/
theorem C07_sort (σ : Schema) (path : GoString) (values : GoMap (List GoString))
    (fd : FilterDec) (u : URL) (h : newURLFrom σ (some (path, values, fd)) = .ok u)
    (hcol : u.isCol = true) :
    Spec.validRules σ u.resType (Spec.requestedRules values) <+: u.params.sortingRules ∧
    (∀ rule ∈ u.params.sortingRules,
      rule ∈ (σ.getType u.resType).attrs.vals.map (·.name) ∨ Spec.stripDash rule = idName ∨
      Spec.stripDash rule ∈ (σ.getType u.resType).attrs.vals.map (·.name)) ∧
    (∃ rule ∈ u.params.sortingRules, Spec.stripDash rule = idName) := by
  obtain ⟨path', values', fd', su, hpar, hsu, hu⟩ := newURLFrom_ok σ _ u h
  cases hpar
  obtain ⟨f0, rest, p, _, _, _, hp, hpe, _⟩ := newURL_ok σ su u hu
  obtain ⟨fm, _, _, _, _, hs, _, _⟩ := newParams_ok hp
  rw [hpe, hs, ← newSimpleURL_sort hsu]
  exact pRules_facts σ su u.resType ((isCol_agree hu).trans hcol)

/-- 6 (as worded). When no attribute name of the type starts with '-', every rule names
(after an optional '-') `id` or an attribute of the type. -/
theorem C07_sort_names (σ : Schema) (path : GoString) (values : GoMap (List GoString))
    (fd : FilterDec) (u : URL) (h : newURLFrom σ (some (path, values, fd)) = .ok u)
    (hcol : u.isCol = true)
    (hdash : ∀ a ∈ (σ.getType u.resType).attrs.vals.map (·.name), a.head? ≠ some 45) :
    ∀ rule ∈ u.params.sortingRules, Spec.stripDash rule = idName ∨
      Spec.stripDash rule ∈ (σ.getType u.resType).attrs.vals.map (·.name) := by
  intro rule hr
  rcases (C07_sort σ path values fd u h hcol).2.1 rule hr with e | e
  · right; rw [stripDash_of_no_dash (hdash rule e)]; exact e
  · exact e

/-- The condition `newParams` itself uses to decide "collection" agrees with `u.isCol`. -/
theorem C07_isCol_agree (σ : Schema) (su : SimpleURL) (u : URL) (h : newURL σ su = .ok u) :
    pIsCol σ su = u.isCol := isCol_agree h


/-! ### 7. Go's map iteration order -/

/-- Whether parsing succeeds does not depend on the order in which the (uniquely named)
query parameters are visited. -/
theorem C07_order_independent_isOk (σ : Schema) (p : GoString)
    (values₁ values₂ : GoMap (List GoString)) (fd : FilterDec)
    (hp : values₁.Perm values₂) (hnd : values₁.keys.Nodup) :
    (newURLFrom σ (some (p, values₁, fd))).isOk = (newURLFrom σ (some (p, values₂, fd))).isOk :=
  Perm.order_independent_isOk σ p values₁ values₂ fd hp hnd

/-- … nor does the URL: only the association-list order of the fields / page maps (and which
error is reported) can differ; in particular `String()` is the same. -/
theorem C07_order_independent (σ : Schema) (p : GoString)
    (values₁ values₂ : GoMap (List GoString)) (fd : FilterDec)
    (hp : values₁.Perm values₂) (hnd : values₁.keys.Nodup) (u₁ u₂ : URL)
    (h₁ : newURLFrom σ (some (p, values₁, fd)) = .ok u₁)
    (h₂ : newURLFrom σ (some (p, values₂, fd)) = .ok u₂) :
    u₁.fragments = u₂.fragments ∧ u₁.isCol = u₂.isCol ∧ u₁.resType = u₂.resType ∧
    u₁.resID = u₂.resID ∧ u₁.rel = u₂.rel ∧
    u₁.params.sortingRules = u₂.params.sortingRules ∧ u₁.params.filterLabel = u₂.params.filterLabel ∧
    u₁.params.filter = u₂.params.filter ∧ u₁.params.incl = u₂.params.incl ∧
    (∀ t, u₁.params.fields.get? t = u₂.params.fields.get? t) ∧
    (∀ k, u₁.params.page.get? k = u₂.params.page.get? k) ∧
    u₁.params.fields.keys.Nodup ∧ u₂.params.fields.keys.Nodup ∧
    u₁.params.page.keys.Nodup ∧ u₂.params.page.keys.Nodup ∧
    ∀ env, u₁.string env = u₂.string env :=
  Perm.order_independent σ p values₁ values₂ fd hp hnd u₁ u₂ h₁ h₂

/-! ### why `C07_sort_names` needs its hypothesis: an attribute named "-x" -/

def c07_tT : Typ :=
  { name := [116], attrs := [([45, 120], { name := [45, 120], ty := 1, nullable := false })],
    rels := [] }
def c07_σ : Schema := { types := [c07_tT] }

theorem c07_σ_inv : Inv c07_σ := by
  refine ⟨by decide, ?_⟩
  intro t ht
  have : t = c07_tT := by simpa [c07_σ] using ht
  subst this
  refine ⟨by decide, ⟨?_, (by intro p hp; cases hp), (by decide), (by decide), ?_⟩⟩
  · intro p hp
    have : p = ([45, 120], { name := [45, 120], ty := 1, nullable := false }) := by
      simpa [c07_tT] using hp
    subst this; decide
  · intro k _ hk; cases hk

/-- For the (well-formed) schema with a type "t" whose only attribute is named "-x",
`NewURLFromRaw("/t")` returns the sorting rules `["-x", "id"]`: the rule "-x" reads as
"descending by x", and "x" is not an attribute. -/
theorem C07_sort_dash_counterexample :
    ∃ u, newURLFrom c07_σ (some ([47, 116], [], { label := none, filter := none })) = .ok u ∧
      u.isCol = true ∧ u.params.sortingRules = [[45, 120], idName] ∧
      ¬ (Spec.stripDash [45, 120] = idName ∨
         Spec.stripDash [45, 120] ∈ (c07_σ.getType u.resType).attrs.vals.map (·.name)) := by
  have h := eval_no_incl c07_σ [47, 116] [] { label := none, filter := none }
    { fragments := [[116]], fields := [], filterLabel := [], filter := none,
      sortingRules := [], page := [], incl := [] }
    { fragments := [[116]], isCol := true, resType := [116], resID := [], rel := default,
      params := default }
    [([116], [])] rfl rfl (by simp [urlHead, c07_σ, c07_tT, Schema.getType]) (by decide) rfl
  exact ⟨_, h, rfl, by decide, by decide⟩

/-! ### non-vacuity -/

example : (newURLFrom c07_σ (some ([47, 116], [(sSort, [[105, 100]])],
    { label := none, filter := none }))).isOk = true := by decide

example : Spec.validRules c07_σ [116] [[120], [45, 45, 120], idName] = [[45, 45, 120], idName] := by
  decide

#print axioms C07_total
#print axioms C07_restype
#print axioms C07_fields
#print axioms C07_fields_default
#print axioms C07_include_valid
#print axioms C07_include_kept
#print axioms C07_sort
#print axioms C07_sort_names
#print axioms C07_isCol_agree
#print axioms C07_order_independent_isOk
#print axioms C07_order_independent
#print axioms C07_sort_dash_counterexample

end Jsonapi
