/-
T1b for the attribute-kind tables (C14's validity test of an attribute kind, C17/C19's
`Set` type check, C20's Go-type table): `GetAttrType` and `GetAttrTypeString` translated
from type.go on this run agree with the model's reading of them for every input.
-/
import Jsonapi.Generated.Funcs
import Jsonapi.Model.Soft
namespace Jsonapi

/-- `GetAttrType(fmt.Sprintf("%T", v))` is the (kind code, nullable) pair the model's
`SoftResource.Set` compares with the attribute's, for every dynamic type the model has;
every other type name the model can print gives (AttrTypeInvalid, false). -/
theorem Gen_GetAttrType_eq (v : GoVal) :
    Gen.GetAttrType (gs v.goType) = ((v.attrType.1 : Int), v.attrType.2) := by
  cases v with
  | val k p => cases k <;> simp only [GoVal.goType, GoVal.attrType, Kind.goName, Kind.code] <;> decide
  | ptr k p => cases k <;> simp only [GoVal.goType, GoVal.attrType, Kind.goName, Kind.code] <;> decide
  | strs l => simp only [GoVal.goType, GoVal.attrType]; decide
  | nil => simp only [GoVal.goType, GoVal.attrType]; decide
  | other n => simp only [GoVal.goType, GoVal.attrType]; decide

/-- the documented short names resolve to the same kinds -/
theorem Gen_GetAttrType_names :
    Gen.GetAttrType (gs "time") = (13, false) ∧ Gen.GetAttrType (gs "*time") = (13, true) ∧
    Gen.GetAttrType (gs "bytes") = (14, false) ∧ Gen.GetAttrType (gs "[]byte") = (14, false) ∧
    Gen.GetAttrType (gs "*[]byte") = (14, true) ∧ Gen.GetAttrType (gs "*") = (0, false) ∧
    Gen.GetAttrType (gs "") = (0, false) ∧ Gen.GetAttrType (gs "**int") = (0, false) := by decide

/-- the name `GetAttrTypeString` gives each kind -/
def Kind.attrName : Kind → String
  | .string => "string" | .int => "int" | .int8 => "int8" | .int16 => "int16" | .int32 => "int32"
  | .int64 => "int64" | .uint => "uint" | .uint8 => "uint8" | .uint16 => "uint16" | .uint32 => "uint32"
  | .uint64 => "uint64" | .bool => "bool" | .time => "time" | .bytes => "bytes"

theorem Gen_GetAttrTypeString_kind (k : Kind) (n : Bool) :
    Gen.GetAttrTypeString (k.code : Int) n = gs ((if n then "*" else "") ++ k.attrName) := by
  cases k <;> cases n <;> decide

/-- `GetAttrTypeString(t, nullable) != ""` is the model's validity test of an attribute kind
(`Type.AddAttr`), for EVERY integer code, nullable or not. -/
theorem Gen_GetAttrTypeString_nonEmpty (ty : Nat) (n : Bool) :
    attrTypeStringNonEmpty ty n = decide (Gen.GetAttrTypeString (ty : Int) n ≠ []) := by
  have h : ty = 0 ∨ ty = 1 ∨ ty = 2 ∨ ty = 3 ∨ ty = 4 ∨ ty = 5 ∨ ty = 6 ∨ ty = 7 ∨ ty = 8 ∨ ty = 9 ∨
      ty = 10 ∨ ty = 11 ∨ ty = 12 ∨ ty = 13 ∨ ty = 14 ∨ 15 ≤ ty := by omega
  rcases h with h | h | h | h | h | h | h | h | h | h | h | h | h | h | h | h
  all_goals first
    | (subst h; cases n <;> decide)
    | skip
  -- 15 ≤ ty: no case of the switch applies
  have e : ∀ k : Int, 1 ≤ k → k ≤ 14 → ((ty : Int) = k) = False := by
    intro k h1 h2; simp; omega
  unfold attrTypeStringNonEmpty Gen.GetAttrTypeString
  simp only [e 1 (by omega) (by omega), e 2 (by omega) (by omega), e 3 (by omega) (by omega),
    e 4 (by omega) (by omega), e 5 (by omega) (by omega), e 6 (by omega) (by omega),
    e 7 (by omega) (by omega), e 8 (by omega) (by omega), e 9 (by omega) (by omega),
    e 10 (by omega) (by omega), e 11 (by omega) (by omega), e 12 (by omega) (by omega),
    e 13 (by omega) (by omega), e 14 (by omega) (by omega)]
  have : ¬ ty ≤ 14 := by omega
  simp [this]

/-- the two tables are inverse on the fourteen kinds: the name of a kind resolves to it -/
theorem Gen_GetAttrType_String (k : Kind) (n : Bool) :
    Gen.GetAttrType (Gen.GetAttrTypeString (k.code : Int) n) = ((k.code : Int), n) := by
  cases k <;> cases n <;> decide

end Jsonapi

section Axioms
open Jsonapi
#print axioms Gen_GetAttrType_eq
#print axioms Gen_GetAttrType_names
#print axioms Gen_GetAttrTypeString_kind
#print axioms Gen_GetAttrTypeString_nonEmpty
#print axioms Gen_GetAttrType_String
end Axioms
