/-
T1b for C16: the definitions translated from type.go / schema.go on this run
(Generated/Funcs.lean) are the hand-written model's, for every input. The C16 theorems are
about `Rel.invert`, `Rel.normalize`, `Rel.string` and the order `Rel.less`; through these
equalities they are theorems about what the source says now.
-/
import Jsonapi.Generated.Funcs
import Jsonapi.Model.Schema
namespace Jsonapi

theorem Gen_Rel_Invert_eq (r : Rel) : Gen.Rel_Invert r = r.invert := rfl

theorem Gen_Rel_Normalize_eq (r : Rel) : Gen.Rel_Normalize r = r.normalize := by
  unfold Gen.Rel_Normalize Rel.normalize
  rw [Gen_Rel_Invert_eq]
  by_cases h1 : r.toName = []
  · simp [h1]
  · by_cases h2 : r.fromType < r.toType
    · simp [h1, h2]
    · by_cases h3 : r.fromType = r.toType
      · by_cases h4 : r.toName < r.fromName
        · have h5 : ¬ r.fromName < r.toName := fun h => List.lt_asymm h h4
          have h6 : r.fromName ≠ r.toName := fun h => by rw [h] at h4; exact List.lt_irrefl _ h4
          simp [h1, h2, h3, h4, h5, h6]
        · have h5 : r.fromName < r.toName ∨ r.fromName = r.toName := by
            rcases Std.lt_trichotomy r.fromName r.toName with h | h | h
            · exact .inl h
            · exact .inr h
            · exact absurd h h4
          simp [h1, h2, h3, h4, h5]
      · simp [h1, h2, h3]

theorem Gen_Rel_String_eq (r : Rel) : Gen.Rel_String r = r.string := by
  unfold Gen.Rel_String Rel.string Rel.us
  rw [Gen_Rel_Normalize_eq]
  by_cases h : r.normalize.toName = []
  · simp [h]
  · simp [h, List.append_assoc]

end Jsonapi

namespace Jsonapi

private theorem flag_lt (a b : Bool) :
    (([if a then (1 : UInt8) else 0] : GoString) < [if b then 1 else 0]) ↔ (a = false ∧ b = true) := by
  cases a <;> cases b <;> decide

private theorem flag_eq (a b : Bool) :
    (([if a then (1 : UInt8) else 0] : GoString) = [if b then 1 else 0]) ↔ a = b := by
  cases a <;> cases b <;> decide

/-- schema.go `relLess` is the lexicographic order on (FromType, FromName, ToType, ToName,
ToOne, FromOne) that the model sorts `Schema.Rels()` by. -/
theorem Gen_relLess_eq (a b : Rel) : Gen.relLess a b = Rel.less a b := by
  unfold Gen.relLess Rel.less Rel.key
  simp only [List.cons_lt_cons_iff, flag_lt, flag_eq]
  by_cases h1 : a.fromType = b.fromType
  · by_cases h2 : a.fromName = b.fromName
    · by_cases h3 : a.toType = b.toType
      · by_cases h4 : a.toName = b.toName
        · by_cases h5 : a.toOne = b.toOne
          · cases h6 : a.fromOne <;> cases h7 : b.fromOne <;>
              simp [h1, h2, h3, h4, h5, h6, h7, List.lt_irrefl]
          · cases h6 : a.toOne <;> cases h7 : b.toOne <;>
              simp_all [List.lt_irrefl]
        · simp [h1, h2, h3, h4, List.lt_irrefl]
      · simp [h1, h2, h3, List.lt_irrefl]
    · simp [h1, h2, List.lt_irrefl]
  · simp [h1]

end Jsonapi

section Axioms
open Jsonapi
#print axioms Gen_Rel_Invert_eq
#print axioms Gen_Rel_Normalize_eq
#print axioms Gen_Rel_String_eq
#print axioms Gen_relLess_eq
end Axioms
