/-
T1b for C03/C04: `buildSelfLink` and `buildRelationshipLinks` translated from link.go on this
run are the model's link builders for every resource, prefix and relationship name.
-/
import Jsonapi.Generated.Funcs
import Jsonapi.Model.Marshal
namespace Jsonapi

private theorem isSuffixOf_slash (p : GoString) :
    List.isSuffixOf ([47] : GoString) p = decide (p.getLast? = some 47) := by
  unfold List.isSuffixOf
  rw [← List.head?_reverse]
  cases p.reverse with
  | nil => decide
  | cons x xs =>
    simp only [List.reverse_cons, List.reverse_nil, List.nil_append, List.isPrefixOf, List.head?_cons,
      Bool.and_true, Option.some.injEq]
    by_cases h : x = 47
    · subst h; decide
    · have h' : ¬ (47 : UInt8) = x := fun e => h e.symm
      simp [h, h']

/-- link.go `buildSelfLink` -/
theorem Gen_buildSelfLink_eq (r : ResView) (prepath : GoString) :
    Gen.buildSelfLink r prepath = buildSelfLink r prepath := by
  unfold Gen.buildSelfLink buildSelfLink K.slash
  rw [isSuffixOf_slash]
  by_cases h : prepath.getLast? = some 47
  · by_cases h2 : r.id ≠ [] ∧ r.typeName ≠ []
    · simp [h, h2.1, h2.2, List.append_assoc]
    · simp [h, h2]
  · by_cases h2 : r.id ≠ [] ∧ r.typeName ≠ []
    · simp [h, h2.1, h2.2, List.append_assoc]
    · simp [h, h2]

/-- link.go `buildRelationshipLinks`: the model's links object has exactly the members of the
Go map literal (a permutation of them: encoding/json writes a map in key order, `related`
before `self`). -/
theorem Gen_buildRelationshipLinks_eq (r : ResView) (prepath rel : GoString) :
    ∃ ms, buildRelationshipLinks r prepath rel = .obj ms ∧
      ms.Perm ((Gen.buildRelationshipLinks r prepath rel).map (fun p => (p.1, Json.str p.2))) ∧
      ms.map (·.1) = [K.related, K.self] := by
  refine ⟨_, rfl, ?_, rfl⟩
  unfold Gen.buildRelationshipLinks
  rw [Gen_buildSelfLink_eq]
  simp only [List.map_cons, List.map_nil, K.related, K.self, K.slash, K.slashRelationships, K.relationships,
    List.append_assoc]
  exact List.Perm.swap _ _ _

end Jsonapi

section Axioms
open Jsonapi
#print axioms Gen_buildSelfLink_eq
#print axioms Gen_buildRelationshipLinks_eq
end Axioms
