/-
C10 — filter evaluation: `Filter.IsAllowed` on a well-typed resource and a well-typed
filter tree returns exactly the filter's logical value (no panic, no error), at any
depth; and that logical value is the natural order of each kind.
-/
import Jsonapi.Proofs.FilterLemmas
namespace Jsonapi
open Spec

/-! ### The implementation computes the specification -/

mutual
/-- `IsAllowed` returns the logical value of the filter tree. -/
theorem C10_eval (r : ResView) (hr : r.wf = true) :
    (f : Filter) → (hf : wellTyped r f = true) → isAllowed r f = .ok (Spec.eval r f)
  | .node true fs, hf => by
    rw [isAllowed_and, eval_and]; exact C10_evalAll r hr fs hf
  | .node false fs, hf => by
    rw [isAllowed_or, eval_or]; exact C10_evalAny r hr fs hf
  | .leaf field op val, hf => leaf_spec r hr field op val hf
/-- the `and` loop returns the conjunction -/
theorem C10_evalAll (r : ResView) (hr : r.wf = true) :
    (fs : List Filter) → (hf : wellTypedAll r fs = true) →
      allAllowed r fs = .ok (Spec.evalAll r fs)
  | [], _ => rfl
  | f :: fs, hf => by
    rw [wellTypedAll_cons, Bool.and_eq_true] at hf
    rw [allAllowed_cons, evalAll_cons, C10_eval r hr f hf.1]
    cases Spec.eval r f
    · rfl
    · exact C10_evalAll r hr fs hf.2
/-- the `or` loop returns the disjunction -/
theorem C10_evalAny (r : ResView) (hr : r.wf = true) :
    (fs : List Filter) → (hf : wellTypedAll r fs = true) →
      anyAllowed r fs = .ok (Spec.evalAny r fs)
  | [], _ => rfl
  | f :: fs, hf => by
    rw [wellTypedAll_cons, Bool.and_eq_true] at hf
    rw [anyAllowed_cons, evalAny_cons, C10_eval r hr f hf.1]
    cases Spec.eval r f
    · exact C10_evalAny r hr fs hf.2
    · rfl
end

/-! ### The comparisons are the natural order -/

/-- `!=` is the complement of `=`. -/
theorem C10_complement (v c : Spec.SVal) :
    Spec.evalCmp Op.ne v c = !Spec.evalCmp Op.eq v c := rfl

/-- Exactly one of `<`, `=`, `>` holds between two non-nil values of an ordered kind. -/
theorem C10_trichotomy (a b : Pay) (h : (Spec.ord a b).isSome = true) :
    let lt := Spec.evalCmp Op.lt (.pay a) (.pay b)
    let eq := Spec.evalCmp Op.eq (.pay a) (.pay b)
    let gt := Spec.evalCmp Op.gt (.pay a) (.pay b)
    (lt = true ∧ eq = false ∧ gt = false) ∨ (lt = false ∧ eq = true ∧ gt = false) ∨
      (lt = false ∧ eq = false ∧ gt = true) := by
  intro lt eq gt
  subst lt eq gt
  rw [evalCmp_lt, evalCmp_eq, evalCmp_gt]
  cases a <;> cases b <;> simp only [Spec.ord, Option.isSome_none, Bool.false_eq_true] at h
  · rw [valLt_s, valLt_s]; exact gostring_tri _ _
  · rw [valLt_i, valLt_i]; exact int_tri _ _
  · rw [valLt_t, valLt_t]; exact time_tri _ _
  · rw [valLt_bs, valLt_bs]; exact gostring_tri _ _

/-- `<=` is `<` or (ordered and `=`); `>=` is `>` or (ordered and `=`). -/
theorem C10_le_ge (v c : Spec.SVal) :
    Spec.evalCmp Op.le v c =
      (Spec.evalCmp Op.lt v c || (Spec.valOrdered v c && Spec.evalCmp Op.eq v c)) ∧
    Spec.evalCmp Op.ge v c =
      (Spec.evalCmp Op.gt v c || (Spec.valOrdered v c && Spec.evalCmp Op.eq v c)) :=
  ⟨rfl, rfl⟩

/-- nil equals only nil and is never ordered (nil on the left). -/
theorem C10_nil (op : GoString) (c : Spec.SVal) :
    Spec.evalCmp op .nil c =
      (if op = Op.eq then (match c with | .nil => true | _ => false)
       else if op = Op.ne then (match c with | .nil => false | _ => true)
       else false) := by
  have hg : valLt c .nil = false := by cases c <;> rfl
  rw [evalCmp_unordered op _ _ rfl hg rfl]
  cases c <;> rfl

/-- nil equals only nil and is never ordered (nil on the right). -/
theorem C10_nil_right (op : GoString) (v : Spec.SVal) :
    Spec.evalCmp op v .nil =
      (if op = Op.eq then (match v with | .nil => true | _ => false)
       else if op = Op.ne then (match v with | .nil => false | _ => true)
       else false) := by
  have hl : valLt v .nil = false := by cases v <;> rfl
  have ho : valOrdered v .nil = false := by cases v <;> rfl
  rw [evalCmp_unordered op _ _ hl rfl ho]
  cases v <;> rfl

/-- Booleans have no order: only `=` and `!=` can hold. -/
theorem C10_unordered_bool (op : GoString) (a b : Bool) (hop : op ≠ Op.eq) (hne : op ≠ Op.ne) :
    Spec.evalCmp op (.pay (.b a)) (.pay (.b b)) = false := by
  rw [evalCmp_unordered op _ _ rfl rfl rfl, if_neg hop, if_neg hne]

/-- ID sets have no order: only `=` and `!=` can hold. -/
theorem C10_unordered_ids (op : GoString) (a b : List GoString)
    (hop : op ≠ Op.eq) (hne : op ≠ Op.ne) :
    Spec.evalCmp op (.ids a) (.ids b) = false := by
  rw [evalCmp_unordered op _ _ rfl rfl rfl, if_neg hop, if_neg hne]

/-- An unknown operator allows nothing. -/
theorem C10_unknown_op (op : GoString) (v c : Spec.SVal)
    (h : op ∉ [Op.eq, Op.ne, Op.lt, Op.le, Op.gt, Op.ge]) : Spec.evalCmp op v c = false := by
  simp only [List.mem_cons, List.not_mem_nil, or_false, not_or] at h
  obtain ⟨h1, h2, h3, h4, h5, h6⟩ := h
  unfold Spec.evalCmp
  rw [if_neg h1, if_neg h2, if_neg h3, if_neg h4, if_neg h5, if_neg h6]

/-! ### The verdict does not depend on the resource implementation -/

/-- Two well-formed resources with the same definitions whose values agree up to the
typed/untyped reading of nil get the same verdict. -/
theorem C10_impl_independent (r₁ r₂ : ResView) (h1 : r₁.wf = true) (h2 : r₂.wf = true)
    (ha : r₁.attrs = r₂.attrs) (hrel : r₁.rels = r₂.rels)
    (hv : ∀ k, Spec.sval (r₁.get k) = Spec.sval (r₂.get k))
    (f : Filter) (hf : wellTyped r₁ f = true) : isAllowed r₁ f = isAllowed r₂ f := by
  have hf2 : wellTyped r₂ f = true := by rw [← wellTyped_congr r₁ r₂ ha hrel f]; exact hf
  rw [C10_eval r₁ h1 f hf, C10_eval r₂ h2 f hf2, eval_congr r₁ r₂ ha hrel hv f]

/-! ### Non-vacuity -/

/-- A resource with a bytes attribute `a` = [2,1], a nullable int16 attribute `n` read as
untyped nil, a to-one relationship `o` and a to-many relationship `m`. -/
def C10_exampleRes : ResView :=
  { typeName := [116], id := [49],
    attrs := [([97], { name := [97], ty := 14, nullable := false }),
              ([110], { name := [110], ty := 4, nullable := true })],
    rels := [([111], { fromType := [116], fromName := [111], toOne := true,
                       toType := [117], toName := [], fromOne := false }),
             ([109], { fromType := [116], fromName := [109], toOne := false,
                       toType := [117], toName := [], fromOne := false })],
    vals := [([97], .val .bytes (.bs (some [2, 1]))),
             ([111], .val .string (.s [120])),
             ([109], .strs [[121], [122]])] }

/-- `and [ or [a < [1,2], a > [1,2]], n = nil, o in [x], m has z ]` -/
def C10_exampleFilter : Filter :=
  .node true [
    .node false [.leaf [97] Op.lt (.val .bytes (.bs (some [1, 2]))),
                 .leaf [97] Op.gt (.val .bytes (.bs (some [1, 2])))],
    .leaf [110] Op.eq (.ptr .int16 none),
    .leaf [111] Op.in_ (.strs [[119], [120]]),
    .leaf [109] Op.has (.val .string (.s [122]))]

example :
    C10_exampleRes.wf = true ∧ wellTyped C10_exampleRes C10_exampleFilter = true ∧
    isAllowed C10_exampleRes C10_exampleFilter = .ok true ∧
    Spec.eval C10_exampleRes C10_exampleFilter = true ∧
    isAllowed C10_exampleRes (.leaf [97] Op.lt (.val .bytes (.bs (some [1, 2])))) = .ok false ∧
    isAllowed C10_exampleRes (.leaf [97] Op.eq (.val .bytes (.bs (some [1, 2])))) = .ok false ∧
    isAllowed C10_exampleRes (.leaf [97] Op.gt (.val .bytes (.bs (some [1, 2])))) = .ok true := by
  decide

/-- [2,1] vs [1,2] as byte strings: exactly `>` holds. -/
example :
    Spec.evalCmp Op.lt (.pay (.bs (some [2, 1]))) (.pay (.bs (some [1, 2]))) = false ∧
    Spec.evalCmp Op.eq (.pay (.bs (some [2, 1]))) (.pay (.bs (some [1, 2]))) = false ∧
    Spec.evalCmp Op.gt (.pay (.bs (some [2, 1]))) (.pay (.bs (some [1, 2]))) = true ∧
    (Spec.ord (.bs (some [2, 1])) (.bs (some [1, 2]))).isSome = true := by
  decide

#print axioms C10_eval
#print axioms C10_evalAll
#print axioms C10_evalAny
#print axioms C10_complement
#print axioms C10_trichotomy
#print axioms C10_le_ge
#print axioms C10_nil
#print axioms C10_nil_right
#print axioms C10_unordered_bool
#print axioms C10_unordered_ids
#print axioms C10_unknown_op
#print axioms C10_impl_independent

end Jsonapi
