/-
C06R — Re-marshaling what was unmarshaled, attribute half of C06's last clause:
"re-marshaling an accepted resource reproduces the payload's attributes as the same JSON
values".

For one attribute `a` and one raw value `raw` of the payload: whenever
`unmarshalToType a raw` accepts and stores `v`, the JSON value `encodeAttr v` that
MarshalResource writes for it is the canonical JSON of what the literal denotes:

* `null` (accepted only for a nullable attribute) is written as `null`;
* an integer literal denoting `n` (`Spec.intLit`, defined without strconv) is written as the
  number `printInt n`, which denotes `n` again (`C06R_printInt_intLit`);
* `true` / `false` are written as the booleans;
* a string / time / byte string is written as the JSON string of exactly what the
  delegated decoder returned: the decoded string, `formatTime t` (RFC 3339), the base64 of the
  decoded bytes (a nil and an empty byte slice both give `""`).

`Spec.denotedJson` (below) collects the per-kind readings in one function written without
looking at `unmarshalToType` or `encodeAttr`; `C06R_remarshal_attr` is the combined statement.

Hypothesis `raw.bytes.head? ≠ some 43` (as in `C06_int`): no JSON value starts with '+';
`strconv.ParseInt` alone would take "+5".
-/
import Jsonapi.Props.C06
import Jsonapi.Proofs.RoundTripLemmas
namespace Jsonapi
open UnmL

namespace Spec

/-- The canonical JSON value of what a raw attribute value denotes, for the attribute's
declared kind: `none` when it denotes nothing of that kind. The integer reading is
`Spec.intLit`; strings, times and byte strings are read by the delegated decoders. -/
def denotedJson (a : Attr) (raw : RawVal) : Option Json :=
  if raw.bytes = sNull then (if a.nullable then some .null else none)
  else match Kind.ofCode? a.ty with
  | none => none
  | some k =>
    if k.isInt then (intLit raw.bytes).map (fun n => .num (printInt n))
    else match k with
    | .bool => if raw.bytes = sTrue then some (.bool true)
               else if raw.bytes = sFalse then some (.bool false) else none
    | .string => raw.decStr.map .str
    | .time => raw.decTime.map (fun t => .str (formatTime t))
    | .bytes => if raw.bytes.head? = some 34 then raw.decBytes.map (fun b => .str (b64enc (b.getD []))) else none
    | _ => none

end Spec

/-! ### What `encodeAttr` writes for a stored value -/

theorem encodeAttr_mkVal_i (k : Kind) (nl : Bool) (n : Int) :
    encodeAttr (mkVal k nl (.i n)) = .num (printInt n) := by
  cases nl <;> rfl

theorem encodeAttr_mkVal_b (k : Kind) (nl : Bool) (b : Bool) :
    encodeAttr (mkVal k nl (.b b)) = .bool b := by
  cases nl <;> rfl

theorem encodeAttr_mkVal_s (k : Kind) (nl : Bool) (s : GoString) :
    encodeAttr (mkVal k nl (.s s)) = .str s := by
  cases nl <;> rfl

theorem encodeAttr_mkVal_t (k : Kind) (nl : Bool) (t : Time) :
    encodeAttr (mkVal k nl (.t t)) = .str (formatTime t) := by
  cases nl <;> rfl

/-- A nil byte slice and an empty one are both written as the empty string. -/
theorem encodeAttr_mkVal_bs (k : Kind) (nl : Bool) (b : Option (List UInt8)) :
    encodeAttr (mkVal k nl (.bs b)) = .str (b64enc (b.getD [])) := by
  cases nl <;> cases b <;> rfl

theorem encodeAttr_zero_nullable (a : Attr) (h : a.nullable = true) : encodeAttr a.zero = .null := by
  unfold Attr.zero
  cases Kind.ofCode? a.ty with
  | none => rfl
  | some k => simp only [GoVal.zero, h, if_true]; rfl

/-! ### The printed integer denotes the integer -/

/-- The literal written for an integer denotes that integer (for every integer, whatever
the kind): re-reading the re-marshaled number gives the same number. -/
theorem C06R_printInt_intLit (n : Int) : Spec.intLit (printInt n) = some n := by
  by_cases h : n < 0
  · rw [RtL.printInt_neg n h]
    have hne := RtL.printNat_ne_nil n.natAbs
    simp only [Spec.intLit, if_true, all_isDigitByte_eq, natLit_eq, RtL.printNat_all_digit,
      RtL.digitsVal_printNat, ne_eq, hne, not_false_eq_true, and_self, Option.some.injEq]
    omega
  · rw [RtL.printInt_nonneg n (by omega)]
    obtain ⟨c, r, e, hc⟩ := RtL.printNat_head n.toNat
    have hall := RtL.printNat_all_digit n.toNat
    have hval := RtL.digitsVal_printNat n.toNat
    rw [e] at hall hval ⊢
    have h45 : c ≠ 45 := (RtL.isDigit_ne hc).2.1
    simp only [Spec.intLit, h45, if_false, all_isDigitByte_eq, natLit_eq, hall, hval, if_true,
      Option.some.injEq]
    omega

/-! ### Per kind -/

/-- `null`: accepted only for a nullable attribute, written back as `null`. -/
theorem C06R_null (a : Attr) (raw : RawVal) (v : GoVal) (h : raw.bytes = sNull)
    (hv : unmarshalToType a raw = .ok v) : a.nullable = true ∧ encodeAttr v = .null := by
  obtain ⟨hn, e⟩ := ((C06_null a raw v h).1).1 hv
  subst e
  exact ⟨hn, encodeAttr_zero_nullable a hn⟩

/-- The ten integer kinds: the accepted literal denotes an integer `n` (in the range of
the kind), the number written back is `printInt n`, and that literal denotes `n` again. -/
theorem C06R_int (a : Attr) (raw : RawVal) (v : GoVal) (k : Kind) (hk : Kind.ofCode? a.ty = some k)
    (hint : k.isInt = true) (hplus : raw.bytes.head? ≠ some 43) (hnn : raw.bytes ≠ sNull)
    (hv : unmarshalToType a raw = .ok v) :
    ∃ n, Spec.intLit raw.bytes = some n ∧ (∃ lo hi, k.range? = some (lo, hi) ∧ lo ≤ n ∧ n ≤ hi) ∧
      encodeAttr v = .num (printInt n) ∧ Spec.intLit (printInt n) = some n := by
  obtain ⟨n, h1, h2, e⟩ := C06_int_sound a raw v k hk hint hplus hnn hv
  subst e
  exact ⟨n, h1, h2, encodeAttr_mkVal_i k a.nullable n, C06R_printInt_intLit n⟩

theorem C06R_bool (a : Attr) (raw : RawVal) (v : GoVal) (hk : Kind.ofCode? a.ty = some .bool)
    (hnn : raw.bytes ≠ sNull) (hv : unmarshalToType a raw = .ok v) :
    (raw.bytes = sTrue ∧ encodeAttr v = .bool true) ∨ (raw.bytes = sFalse ∧ encodeAttr v = .bool false) := by
  rcases (C06_bool a raw v hk hnn).1 hv with ⟨h, e⟩ | ⟨h, e⟩
  · subst e; exact .inl ⟨h, encodeAttr_mkVal_b _ _ _⟩
  · subst e; exact .inr ⟨h, encodeAttr_mkVal_b _ _ _⟩

theorem C06R_string (a : Attr) (raw : RawVal) (v : GoVal) (hk : Kind.ofCode? a.ty = some .string)
    (hnn : raw.bytes ≠ sNull) (hv : unmarshalToType a raw = .ok v) :
    ∃ s, raw.decStr = some s ∧ encodeAttr v = .str s := by
  obtain ⟨s, h, e⟩ := (C06_string a raw v hk hnn).1 hv
  subst e; exact ⟨s, h, encodeAttr_mkVal_s _ _ _⟩

theorem C06R_time (a : Attr) (raw : RawVal) (v : GoVal) (hk : Kind.ofCode? a.ty = some .time)
    (hnn : raw.bytes ≠ sNull) (hv : unmarshalToType a raw = .ok v) :
    ∃ t, raw.decTime = some t ∧ encodeAttr v = .str (formatTime t) := by
  obtain ⟨t, h, e⟩ := (C06_time a raw v hk hnn).1 hv
  subst e; exact ⟨t, h, encodeAttr_mkVal_t _ _ _⟩

/-- Byte strings: the raw value is a JSON string, and what is written back is the base64
of the decoded bytes; a nil and an empty decoded slice both give `""` (never `null`). -/
theorem C06R_bytes (a : Attr) (raw : RawVal) (v : GoVal) (hk : Kind.ofCode? a.ty = some .bytes)
    (hnn : raw.bytes ≠ sNull) (hv : unmarshalToType a raw = .ok v) :
    raw.bytes.head? = some 34 ∧ ∃ b, raw.decBytes = some b ∧ encodeAttr v = .str (b64enc (b.getD [])) ∧
      (b = none ∨ b = some [] → encodeAttr v = .str []) := by
  obtain ⟨hq, b, h, e⟩ := (C06_bytes a raw v hk hnn).1 hv
  subst e
  refine ⟨hq, b, h, encodeAttr_mkVal_bs _ _ _, ?_⟩
  rintro (rfl | rfl) <;> (rw [encodeAttr_mkVal_bs]; rfl)

/-! ### Combined -/

/-- Re-marshaling an accepted attribute value writes the canonical JSON of what the
payload's literal denotes (`Spec.denotedJson`), for every attribute definition and every
raw value; `null` is only ever accepted for a nullable attribute. -/
theorem C06R_remarshal_attr (a : Attr) (raw : RawVal) (v : GoVal)
    (hplus : raw.bytes.head? ≠ some 43) (hv : unmarshalToType a raw = .ok v) :
    Spec.denotedJson a raw = some (encodeAttr v) ∧ (raw.bytes = sNull → a.nullable = true) := by
  by_cases hnn : raw.bytes = sNull
  · obtain ⟨hn, e⟩ := C06R_null a raw v hnn hv
    refine ⟨?_, fun _ => hn⟩
    unfold Spec.denotedJson
    rw [if_pos hnn, if_pos hn, e]
  · refine ⟨?_, fun h => absurd h hnn⟩
    unfold Spec.denotedJson
    rw [if_neg hnn]
    cases hk : Kind.ofCode? a.ty with
    | none => rw [toType_badKind a raw hnn hk] at hv; cases hv
    | some k =>
      simp only []
      by_cases hint : k.isInt = true
      · obtain ⟨n, h1, _, e, _⟩ := C06R_int a raw v k hk hint hplus hnn hv
        rw [if_pos hint, h1, e]; rfl
      · rw [if_neg hint]
        cases k with
        | bool =>
          simp only []
          rcases C06R_bool a raw v hk hnn hv with ⟨h, e⟩ | ⟨h, e⟩
          · rw [if_pos h, e]
          · have : raw.bytes ≠ sTrue := by rw [h]; decide
            rw [if_neg this, if_pos h, e]
        | string =>
          obtain ⟨s, h, e⟩ := C06R_string a raw v hk hnn hv
          simp only [h, e, Option.map_some]
        | time =>
          obtain ⟨t, h, e⟩ := C06R_time a raw v hk hnn hv
          simp only [h, e, Option.map_some]
        | bytes =>
          obtain ⟨hq, b, h, e, _⟩ := C06R_bytes a raw v hk hnn hv
          simp only [hq, if_true, h, e, Option.map_some]
        | _ => exact absurd rfl hint

/-! ### Non-vacuity -/

/-- Readers of a JSON tree for the computed example (`Json` has no decidable equality). -/
def Json.asNum? : Json → Option GoString | .num l => some l | _ => none
def Json.asStr? : Json → Option GoString | .str s => some s | _ => none
def Json.asBool? : Json → Option Bool | .bool b => some b | _ => none
def Json.isNull : Json → Bool | .null => true | _ => false

/-- int8 "-128" is stored as -128 and written back as the number -128; the nullable
variant accepts null and writes null, the non-nullable one denotes nothing for null; a
nullable bytes attribute given `""` (decoded to a nil slice or to an empty one) writes `""`;
"true" writes true. -/
example :
    let a : Attr := { name := [97], ty := 3, nullable := false }
    let an : Attr := { name := [97], ty := 3, nullable := true }
    let ab : Attr := { name := [98], ty := 14, nullable := true }
    let ao : Attr := { name := [99], ty := 12, nullable := false }
    let raw (b : GoString) : RawVal := { bytes := b, decStr := none, decTime := none, decBytes := none }
    let rawB (d : Option (List UInt8)) : RawVal := { bytes := [34, 34], decStr := some [], decTime := none, decBytes := some d }
    unmarshalToType a (raw [45, 49, 50, 56]) = .ok (.val .int8 (.i (-128))) ∧
    Spec.intLit [45, 49, 50, 56] = some (-128) ∧
    unmarshalToType an (raw sNull) = .ok (.ptr .int8 none) ∧
    (Spec.denotedJson an (raw sNull)).map Json.isNull = some true ∧
    (encodeAttr (.ptr .int8 none)).isNull = true ∧
    (Spec.denotedJson a (raw sNull)).isNone = true ∧
    unmarshalToType ab (rawB none) = .ok (.ptr .bytes (some (.bs none))) ∧
    (encodeAttr (.ptr .bytes (some (.bs none)))).asStr? = some [] ∧
    (Spec.denotedJson ab (rawB none)).bind Json.asStr? = some [] ∧
    (Spec.denotedJson ab (rawB (some []))).bind Json.asStr? = some [] ∧
    unmarshalToType ao (raw sTrue) = .ok (.val .bool (.b true)) ∧
    (Spec.denotedJson ao (raw sTrue)).bind Json.asBool? = some true := by decide

/-- `printNat` is defined by well-founded recursion, which `decide` does not unfold: the
printed literal of the example is computed by `simp`. -/
theorem C06R_ex_print : printInt (-128) = [45, 49, 50, 56] := by
  simp [printInt, printNat, digitChar]

/-- The hypotheses of `C06R_remarshal_attr` are satisfiable (int8, "-128"), and its
conclusion on that instance: the literal "-128" denotes the JSON number -128, which is what
is written back. -/
example :
    let a : Attr := { name := [97], ty := 3, nullable := false }
    let raw : RawVal := { bytes := [45, 49, 50, 56], decStr := none, decTime := none, decBytes := none }
    (Spec.denotedJson a raw).bind Json.asNum? = some [45, 49, 50, 56] ∧
    (encodeAttr (.val .int8 (.i (-128)))).asNum? = some [45, 49, 50, 56] := by
  intro a raw
  have h : Spec.denotedJson a raw = some (.num (printInt (-128))) :=
    (C06R_remarshal_attr a raw (.val .int8 (.i (-128))) (by decide) (by decide)).1
  have h2 : encodeAttr (.val .int8 (.i (-128))) = .num (printInt (-128)) := rfl
  rw [h, h2, C06R_ex_print]
  exact ⟨rfl, rfl⟩

end Jsonapi

section Axioms
open Jsonapi
#print axioms C06R_printInt_intLit
#print axioms C06R_null
#print axioms C06R_int
#print axioms C06R_bool
#print axioms C06R_string
#print axioms C06R_time
#print axioms C06R_bytes
#print axioms C06R_remarshal_attr
#print axioms C06R_ex_print
end Axioms
