/-
C20 — a struct type accepted by Check can be wrapped, built, read and written without
panicking, and the built type is exactly what the tags declare; a rejected one is refused.
-/
import Jsonapi.Proofs.StructLemmas2
namespace Jsonapi

/-- If Check rejects the struct, BuildType returns an error and Wrap panics. -/
theorem C20_reject (d : StructDecl) (h : checkStruct d = false) :
    buildType d = .err ∧ ∀ vals, wrap d vals = .panic := by
  simp [buildType, wrap, h]

/-- If Check accepts the struct, BuildType and Wrap succeed (the relationship loop never
indexes out of range) and agree on name, attributes and relationships. -/
theorem C20_accept_build (d : StructDecl) (h : checkStruct d = true) :
    ∃ τ, buildType d = .ok τ ∧ ∀ vals, ∃ w, wrap d vals = .ok w ∧ w.decl = d ∧ w.vals = vals ∧
      w.typ = τ.name ∧ w.attrs = τ.attrs ∧ w.rels = τ.rels :=
  ⟨_, buildType_ok h, fun vals => ⟨_, wrap_ok h vals, rfl, rfl, rfl, rfl, rfl⟩⟩

/-- The built type carries the ID tag's name and exactly the tagged attributes and
relationships, with the kind, nullability, cardinality, target and inverse declared. -/
theorem C20_type_exact (d : StructDecl) (h : checkStruct d = true) (τ : Typ)
    (hb : buildType d = .ok τ) :
    (∃ idf ∈ d, idf.name = sID ∧ τ.name = idf.api) ∧
    (∀ f ∈ d, f.name ≠ sID → f.isAttr = true → ∃ k n, f.ty = .attr k n ∧
      τ.attrs.get? f.json = some { name := f.json, ty := k.code, nullable := n }) ∧
    (∀ key a, τ.attrs.get? key = some a → ∃ f ∈ d, f.isAttr = true ∧ f.json = key) ∧
    (∀ f ∈ d, f.name ≠ sID → f.isRelTagged = true → ∃ target inv,
      (splitComma f.api)[1]? = some target ∧
      inv = (if (splitComma f.api).length = 3 then ((splitComma f.api)[2]?).getD [] else []) ∧
      τ.rels.get? f.json = some
        { fromType := τ.name, fromName := f.json, toOne := decide (f.ty ≠ .strs),
          toType := target, toName := inv, fromOne := false }) ∧
    (∀ key r, τ.rels.get? key = some r → ∃ f ∈ d, f.isRelTagged = true ∧ f.json = key) := by
  have c := checkFacts h
  rw [buildType_ok h, Res.ok.injEq] at hb
  subst hb
  refine ⟨c.typeName, ?_, ?_, ?_, ?_⟩
  · intro f hf hne ha
    obtain ⟨k, n, hk⟩ := c.attrs f hf ha
    refine ⟨k, n, hk, ?_⟩
    show (structAttrs d).get? f.json = _
    rw [c.attrs_get? hf hne ha]
    simp [attrOf, hk]
  · intro key a hg
    obtain ⟨f, hf, ha, hx⟩ := structAttrs_mem (GoMap.get?_some_mem hg)
    exact ⟨f, hf, ha, (Prod.mk.inj hx).1.symm⟩
  · intro f hf hne hr
    have hlen := (c.rels f hf hr).1
    refine ⟨(splitComma f.api)[1], _, List.getElem?_eq_getElem (by omega), rfl, ?_⟩
    show (relsOf d).get? f.json = _
    rw [c.rels_get? hf hne hr]
    simp [relOf, List.getElem?_eq_getElem (show 1 < (splitComma f.api).length by omega)]
  · intro key r hg
    obtain ⟨f, hf, hr, hx⟩ := relsOf_mem (GoMap.get?_some_mem hg)
    exact ⟨f, hf, hr, (Prod.mk.inj hx).1.symm⟩

/-- With Go's single `ID` field, an attribute or relationship field is never the ID field
(so the `f.name ≠ sID` side conditions of `C20_type_exact` and `C20_accept_safe` are
automatically met by every tagged field). -/
theorem C20_fields_not_ID (d : StructDecl) (h : checkStruct d = true) (hs : SingleID d) :
    ∀ f ∈ d, (f.isAttr = true ∨ f.isRelTagged = true) → f.name ≠ sID :=
  fun _ hf hfld => (checkFacts h).field_not_ID hs hf hfld

/-- A freshly created instance (all fields zero) is well typed. -/
theorem C20_zero_WT (d : StructDecl) (h : checkStruct d = true) :
    ∃ w, wrap d (Wrapped.zeroVals d) = .ok w ∧ w.WT :=
  ⟨_, wrap_mkW h _, WT_zero d⟩

/-- On a well-typed wrapped value of an accepted struct nothing panics: (a) Get on every
attribute / relationship name, with the dynamic type the library asserts for relationships;
(b) Get "id"; (c) Set of every declared field with a value of the field's type, or with nil,
which is then read back and disturbs no other name; (d) Set "id"; (e) New; (f) Copy. -/
theorem C20_accept_safe (d : StructDecl) (h : checkStruct d = true) (hs : SingleID d)
    (vals : List GoVal) (w : Wrapped) (hw : wrap d vals = .ok w) (hwt : w.WT) :
    -- (a)
    (∀ key ∈ w.attrs.keys ++ w.rels.keys, ∃ v, w.get key = .ok v) ∧
    (∀ key r, w.rels.get? key = some r → ∃ v, w.get key = .ok v ∧
      (if r.toOne = true then ∃ id, v = .val .string (.s id) else ∃ l, v = .strs l)) ∧
    -- (b)
    w.get idName = .ok (.val .string (.s w.getID)) ∧
    -- (c)
    (∀ f ∈ d, f.name ≠ sID → (f.isAttr = true ∨ f.isRelTagged = true) →
      (∀ v, f.ty.accepts v = true → v.wellFormed = true →
        ∃ w', w.set f.json v = .ok w' ∧ wrap d w'.vals = .ok w' ∧ w'.WT ∧
          w'.get f.json = .ok (match v with | .ptr _ none => .nil | v => v) ∧
          ∀ key, key ≠ f.json → w'.get key = w.get key) ∧
      (∃ w', w.set f.json .nil = .ok w' ∧ wrap d w'.vals = .ok w' ∧ w'.WT ∧
          w'.get f.json = .ok (match f.ty.zero with | .ptr _ none => .nil | z => z) ∧
          (∀ k, f.ty = .attr k true → w'.get f.json = .ok .nil) ∧
          ∀ key, key ≠ f.json → w'.get key = w.get key)) ∧
    -- (d)
    (∀ v, ∃ w', w.set idName v = .ok w' ∧ wrap d w'.vals = .ok w' ∧ w'.WT ∧
      w'.getID = (match v with | .val .string (.s id) => id | _ => [])) ∧
    -- (e)
    (∃ n, w.new = .ok n ∧ n.WT) ∧
    -- (f)
    (∃ c, w.copy = .ok c ∧ c.WT) := by
  have c := checkFacts h
  have e := eq_mkW_of_wrap h hw
  subst e
  have hread : ∀ u : GoVal, (match u with | .ptr _ none => GoVal.nil | v => v) = u.read := by
    intro u
    cases u with
    | ptr k p => cases p <;> rfl
    | val k p => rfl
    | strs l => rfl
    | nil => rfl
    | other n => rfl
  refine ⟨fun key hk => safe_get c hs hwt hk, fun key r hr => safe_get_rel c hs hwt hr,
    by simp [Wrapped.get], ?_, ?_, ?_, ?_⟩
  · intro f hf hne hfld
    obtain ⟨h1, vs, h2, h3, h4, h5⟩ := safe_set c hwt hf hne hfld
    refine ⟨?_, _, h2, wrap_mkW h _, h3, by rw [hread]; exact h4, ?_, h5⟩
    · intro v hv hwf
      obtain ⟨vs, g1, g2, g3, g4⟩ := h1 v hv hwf
      exact ⟨_, g1, wrap_mkW h _, g2, by rw [hread]; exact g3, g4⟩
    · intro k hk
      rw [h4, hk, zero_read_nullable]
  · intro v
    obtain ⟨vs, h1, h2, h3⟩ := safe_setID c hwt v
    exact ⟨_, h1, wrap_mkW h _, h2, h3⟩
  · exact ⟨_, wrap_mkW h _, WT_zero d⟩
  · obtain ⟨vs, h1, h2⟩ := copy_mkW h hs hwt
    exact ⟨_, h1, h2⟩

/-! ### Non-vacuity: a concrete accepted struct

```go
type Article struct {
    ID       string   `json:"id" api:"articles"`
    Title    string   `json:"title" api:"attr"`
    Subtitle *string  `json:"subtitle" api:"attr"`
    Author   string   `json:"author" api:"rel,people"`
    Comments []string `json:"comments" api:"rel,comments,article"`
}
```
-/
def exampleDecl : StructDecl :=
  [ { name := sID, ty := .attr .string false, json := idName, api := gs "articles" },
    { name := gs "Title", ty := .attr .string false, json := gs "title", api := sAttr },
    { name := gs "Subtitle", ty := .attr .string true, json := gs "subtitle", api := sAttr },
    { name := gs "Author", ty := .attr .string false, json := gs "author", api := gs "rel,people" },
    { name := gs "Comments", ty := .strs, json := gs "comments", api := gs "rel,comments,article" } ]

example : checkStruct exampleDecl = true := by decide
example : SingleID exampleDecl := by unfold SingleID; decide
example : buildType exampleDecl = .ok
    { name := gs "articles",
      attrs := [ (gs "title", { name := gs "title", ty := 1, nullable := false }),
                 (gs "subtitle", { name := gs "subtitle", ty := 1, nullable := true }) ],
      rels := [ (gs "author", { fromType := gs "articles", fromName := gs "author", toOne := true,
                                toType := gs "people", toName := [], fromOne := false }),
                (gs "comments", { fromType := gs "articles", fromName := gs "comments",
                                  toOne := false, toType := gs "comments",
                                  toName := gs "article", fromOne := false }) ] } := by decide

#print axioms C20_reject
#print axioms C20_accept_build
#print axioms C20_type_exact
#print axioms C20_fields_not_ID
#print axioms C20_zero_WT
#print axioms C20_accept_safe
end Jsonapi
