/-
C07T — two sentences of C07 made declarative.

(a) "every inclusion path is a chain of relationships that exists in the schema from the
resource type, each valid requested path being kept unless a longer requested path extends
it": `C07_include_kept` uses the model's own `resolvePath` as the notion of "valid
requested path". Here `resolvePath` is characterised without mentioning it:
`resolvePath σ resType words = some rels` iff `rels` is a valid chain of the schema from
`resType` (`Spec.validChain`) whose relationship names are the `words`
(`C07T_resolvePath_iff`, for every schema with C14's invariant; `C07T_resolvePath_iff_chain`
is the hypothesis-free form, `C07T_resolvePath_needs_inv` shows why the invariant is needed
for the left-to-right direction), and `C07_include_kept` is restated with it
(`C07T_include_kept`).

(b), (c) "and always contain id, so the order they define is total": the sorting rules of a
collection URL contain a rule naming `id` (`C07T_sort_has_id`), and a rule list with such a
rule never ties two resources with different IDs, neither under the specification's
comparison (`C07T_spec_order_total`) nor under the model of `sortedResources.Less`
(`C07T_less_total`, for ALL attribute values: either a type assertion of `Less` fails or
exactly one of `Less(a, b)`, `Less(b, a)` holds; `C07T_less_total_wf` removes the failure
alternative under C09's typing hypotheses). `C07T_order_total` composes with `newURLFrom`.
The URL's rules and `Range`'s rules have the same format (`-name` byte strings; `Range`
reads them with `splitRule`, whose second component is `Spec.stripDash`).
-/
import Jsonapi.Props.C07
import Jsonapi.Props.C09
namespace Jsonapi
open UrlL

/-! ### (a) `resolvePath`, declaratively -/

/-- `words` name, one after the other, the relationships `rels` starting at type `cur`:
the current type exists, its relationship map holds the relationship under the word, and
the relationship's target type exists. -/
def chainNamedBy (σ : Schema) : GoString → List GoString → List Rel → Bool
  | _, [], [] => true
  | cur, w :: ws, rel :: rest =>
    let typ := σ.getType cur
    typ.name ≠ [] && typ.rels.get? w = some rel && σ.hasType rel.toType &&
      chainNamedBy σ rel.toType ws rest
  | _, _, _ => false

theorem resolve_go_iff (σ : Schema) : ∀ (ws : List GoString) (cur : GoString) (rels : List Rel),
    resolvePath.go σ cur ws = some rels ↔ chainNamedBy σ cur ws rels = true := by
  intro ws
  induction ws with
  | nil =>
    intro cur rels
    cases rels with
    | nil => simp [resolvePath.go, chainNamedBy]
    | cons r rest => simp [resolvePath.go, chainNamedBy]
  | cons w ws ih =>
    intro cur rels
    unfold resolvePath.go
    simp only []
    cases hget : (σ.getType cur).rels.get? w with
    | none =>
      cases rels with
      | nil => simp [chainNamedBy]
      | cons r rest => simp [chainNamedBy, hget]
    | some rel =>
      simp only []
      by_cases hc : ((σ.getType cur).name = [] || !σ.hasType rel.toType) = true
      · rw [if_pos hc]
        simp only [Bool.or_eq_true, decide_eq_true_eq, Bool.not_eq_true'] at hc
        cases rels with
        | nil => simp [chainNamedBy]
        | cons r rest =>
          simp only [chainNamedBy, hget, Bool.and_eq_true, decide_eq_true_eq, Option.some.injEq,
            false_iff, not_and, reduceCtorEq]
          intro h1 h2
          obtain ⟨⟨h1, h3⟩, h4⟩ := h1
          rcases hc with hc | hc
          · exact absurd hc h1
          · subst h3; rw [hc] at h4; cases h4
      · rw [if_neg hc]
        simp only [Bool.or_eq_true, decide_eq_true_eq, Bool.not_eq_true', not_or,
          Bool.not_eq_false] at hc
        cases rels with
        | nil =>
          cases resolvePath.go σ rel.toType ws <;> simp [chainNamedBy]
        | cons r rest =>
          simp only [chainNamedBy, hget, Bool.and_eq_true, decide_eq_true_eq, Option.some.injEq]
          constructor
          · intro h
            cases hgo : resolvePath.go σ rel.toType ws with
            | none => rw [hgo] at h; cases h
            | some l =>
              rw [hgo] at h
              simp only [Option.map_some, Option.some.injEq, List.cons.injEq] at h
              obtain ⟨h1, h2⟩ := h
              subst h1; subst h2
              exact ⟨⟨⟨hc.1, rfl⟩, hc.2⟩, (ih _ _).1 hgo⟩
          · rintro ⟨⟨⟨_, h2⟩, _⟩, h4⟩
            subst h2
            rw [(ih _ _).2 h4]
            rfl

/-- `resolvePath` succeeds with `rels` exactly when `words` name the chain `rels` from
`resType` (no hypothesis on the schema). -/
theorem C07T_resolvePath_iff_chain (σ : Schema) (resType : GoString) (words : List GoString)
    (rels : List Rel) :
    resolvePath σ resType words = some rels ↔ chainNamedBy σ resType words rels = true :=
  resolve_go_iff σ words resType rels

/-- A valid chain is named by the names of its relationships (no hypothesis on the schema). -/
theorem chainNamedBy_of_valid (σ : Schema) : ∀ (rels : List Rel) (cur : GoString),
    Spec.validChain σ cur rels = true →
      chainNamedBy σ cur (rels.map (·.fromName)) rels = true := by
  intro rels
  induction rels with
  | nil => intro cur _; rfl
  | cons r rest ih =>
    intro cur h
    unfold Spec.validChain at h
    simp only [Bool.and_eq_true, decide_eq_true_eq] at h
    obtain ⟨⟨⟨h1, h2⟩, h3⟩, h4⟩ := h
    simp only [List.map_cons, chainNamedBy, Bool.and_eq_true, decide_eq_true_eq]
    exact ⟨⟨⟨h1, h2⟩, h3⟩, ih _ h4⟩

/-- In a schema with C14's invariant (map key = relationship name) a chain named by `words`
is a valid chain whose names are `words`. -/
theorem valid_of_chainNamedBy {σ : Schema} (hσ : Inv σ) : ∀ (ws : List GoString)
    (cur : GoString) (rels : List Rel), chainNamedBy σ cur ws rels = true →
      Spec.validChain σ cur rels = true ∧ rels.map (·.fromName) = ws := by
  intro ws
  induction ws with
  | nil =>
    intro cur rels h
    cases rels with
    | nil => exact ⟨rfl, rfl⟩
    | cons r rest => simp [chainNamedBy] at h
  | cons w ws ih =>
    intro cur rels h
    cases rels with
    | nil => simp [chainNamedBy] at h
    | cons r rest =>
      simp only [chainNamedBy, Bool.and_eq_true, decide_eq_true_eq] at h
      obtain ⟨⟨⟨h1, h2⟩, h3⟩, h4⟩ := h
      obtain ⟨hv, hn⟩ := ih _ _ h4
      have hwf := (hσ.2 _ (getType_name_ne σ cur h1).2.2).2
      have hw : w = r.fromName := (hwf.rels (w, r) (get?_mem h2)).1
      refine ⟨?_, by rw [List.map_cons, hn, hw]⟩
      unfold Spec.validChain
      simp only [Bool.and_eq_true, decide_eq_true_eq]
      exact ⟨⟨⟨h1, by rw [← hw]; exact h2⟩, h3⟩, hv⟩

/-- (a) For every schema with C14's invariant: `resolvePath` returns `rels` for `words`
exactly when `rels` is a chain of relationships that exists in the schema from `resType`
and the names of its relationships are the `words`. -/
theorem C07T_resolvePath_iff (σ : Schema) (hσ : Inv σ) (resType : GoString)
    (words : List GoString) (rels : List Rel) :
    resolvePath σ resType words = some rels ↔
      (Spec.validChain σ resType rels = true ∧ rels.map (·.fromName) = words) := by
  rw [C07T_resolvePath_iff_chain]
  constructor
  · exact valid_of_chainNamedBy hσ words resType rels
  · rintro ⟨hv, hn⟩
    rw [← hn]
    exact chainNamedBy_of_valid σ rels resType hv

/-- The right-to-left direction needs no hypothesis on the schema. -/
theorem C07T_resolvePath_of_valid (σ : Schema) (resType : GoString) (rels : List Rel)
    (hv : Spec.validChain σ resType rels = true) :
    resolvePath σ resType (rels.map (·.fromName)) = some rels :=
  (C07T_resolvePath_iff_chain σ resType _ rels).2 (chainNamedBy_of_valid σ rels resType hv)

/-- A schema outside C14's invariant: type "t" files the relationship named "b" under the
key "a". -/
def c07t_rel : Rel :=
  { fromType := [116], fromName := [98], toOne := true, toType := [116], toName := [],
    fromOne := false }
def c07t_σbad : Schema := { types := [{ name := [116], attrs := [], rels := [([97], c07t_rel)] }] }

/-- Why `C07T_resolvePath_iff` assumes the invariant: without "map key = relationship name"
`resolvePath` follows the key "a" and returns a relationship whose name is "b" (not a
valid chain, and not named by the words). The schema API never builds such a schema. -/
theorem C07T_resolvePath_needs_inv :
    resolvePath c07t_σbad [116] [[97]] = some [c07t_rel] ∧
    Spec.validChain c07t_σbad [116] [c07t_rel] = false ∧
    [c07t_rel].map (·.fromName) ≠ [[97]] := by decide

/-- (a, corollary) `C07_include_kept` with the declarative notion of a valid requested
path: a requested path whose words (split at '.') name a valid chain `rels` from the
URL's resource type is kept — `rels` is one of the URL's inclusion paths — unless a
longer requested path extends it. No hypothesis on the schema. -/
theorem C07T_include_kept (σ : Schema) (path : GoString) (values : GoMap (List GoString))
    (fd : FilterDec) (u : URL) (h : newURLFrom σ (some (path, values, fd)) = .ok u)
    (q : GoString) (hq : q ∈ Spec.requestedIncludes values) (rels : List Rel)
    (hv : Spec.validChain σ u.resType rels = true)
    (hn : rels.map (·.fromName) = splitOn 46 q) :
    rels ∈ u.params.incl ∨
      ∃ q' ∈ Spec.requestedIncludes values, hasPrefix q' (q ++ [46]) = true := by
  refine C07_include_kept σ path values fd u h q hq rels ?_
  rw [← hn]
  exact C07T_resolvePath_of_valid σ u.resType rels hv

/-- Conversely (with the invariant), every inclusion path of the URL is the valid chain
named by the words of one of the requested paths. -/
theorem C07T_include_requested (σ : Schema) (hσ : Inv σ) (path : GoString)
    (values : GoMap (List GoString)) (fd : FilterDec) (u : URL)
    (h : newURLFrom σ (some (path, values, fd)) = .ok u) :
    ∀ rels ∈ u.params.incl, ∃ q ∈ Spec.requestedIncludes values,
      Spec.validChain σ u.resType rels = true ∧ rels.map (·.fromName) = splitOn 46 q := by
  obtain ⟨path', values', fd', su, hpar, hsu, hu⟩ := newURLFrom_ok σ _ u h
  cases hpar
  obtain ⟨f0, rest, p, _, _, _, hp, hpe, _⟩ := newURL_ok σ su u hu
  obtain ⟨fm, _, _, _, _, _, _, hi⟩ := newParams_ok hp
  intro rels hr
  rw [hpe, hi] at hr
  unfold pIncl pIncs at hr
  obtain ⟨inc, hinc, hres⟩ := List.mem_filterMap.1 hr
  have h1 : inc ∈ su.incl :=
    (DetL.sortStrings_perm _).mem_iff.1 (prune_subset _ inc hinc)
  rw [newSimpleURL_incl hsu] at h1
  exact ⟨inc, h1, (C07T_resolvePath_iff σ hσ _ _ _).1 hres⟩


/-! ### (b) the sorting rules of a collection URL mention `id` -/

/-- (b) For every collection URL returned by `newURLFrom`, some sorting rule names `id`
(after its optional '-'). -/
theorem C07T_sort_has_id (σ : Schema)
    (parsed : Option (GoString × GoMap (List GoString) × FilterDec)) (u : URL)
    (h : newURLFrom σ parsed = .ok u) (hcol : u.isCol = true) :
    ∃ rule ∈ u.params.sortingRules, Spec.stripDash rule = idName := by
  obtain ⟨path, values, fd, su, hpar, _, _⟩ := newURLFrom_ok σ parsed u h
  subst hpar
  exact (C07_sort σ path values fd u h hcol).2.2

/-! ### (c) a rule list that mentions `id` never ties two resources with different IDs -/

/-- `Range` reads a rule with `splitRule`; the name it sorts by is `Spec.stripDash rule`. -/
theorem splitRule_snd (r : GoString) : (splitRule r).2 = Spec.stripDash r := by
  unfold splitRule Spec.stripDash
  split
  · rfl
  · rename_i hno
    split
    · exact absurd rfl (hno _)
    · rfl

theorem idName_mem_of_has_id {rules : List GoString}
    (hid : ∃ r ∈ rules, Spec.stripDash r = idName) :
    idName ∈ rules.map (fun r => (splitRule r).2) := by
  obtain ⟨r, hr, e⟩ := hid
  exact List.mem_map.2 ⟨r, hr, by rw [splitRule_snd, e]⟩

/-- (c, specification) Under the specification's comparison (`Spec.cmpRules`: ascending,
'-' descending, nil first, later rules break ties) a rule list that mentions `id` never
ties two resources with different IDs — whatever their attribute values. -/
theorem C07T_spec_order_total (rules : List GoString)
    (hid : ∃ r ∈ rules, Spec.stripDash r = idName) (a b : ResView) (hne : a.id ≠ b.id) :
    Spec.cmpRules rules a b ≠ .eq :=
  fun h => hne (id_eq_of_cmpRules_eq (idName_mem_of_has_id hid) h)

/-- Two outcomes of one rule of `Less`, for `(a, b)` and for `(b, a)`, are opposite:
both decided with opposite answers, or both a tie — or one of them is a failed type
assertion. -/
def RuleRes.opp : RuleRes → RuleRes → Bool
  | .decided x, .decided y => x != y
  | .tie, .tie => true
  | .panic, _ => true
  | _, .panic => true
  | _, _ => false

theorem ruleRes_opp (o : Ordering) : RuleRes.opp (ruleRes o) (ruleRes o.swap) = true := by
  cases o <;> rfl

theorem lessPay_panic (inv : Bool) {p q : Pay} (h : p.cls ≠ q.cls) :
    lessPay inv p q = .panic := by
  cases p <;> cases q <;> simp [Pay.cls] at h <;> rfl

theorem lessPay_opp (inv : Bool) (p q : Pay) :
    RuleRes.opp (lessPay inv p q) (lessPay inv q p) = true := by
  by_cases h : p.cls = q.cls
  · rw [lessPay_spec inv h, lessPay_spec inv h.symm, cmpPay_swap p q, orient_swap]
    exact ruleRes_opp _
  · rw [lessPay_panic inv h]; rfl

/-- the case name `Less` switches on -/
def lessTn (v : GoVal) : String :=
  if v.goType = "[]uint8" then "[]byte" else if v.goType = "*[]uint8" then "*[]byte" else v.goType

theorem lessVal_eq (inv : Bool) (v w : GoVal) :
    lessVal inv v w =
      if lessTn v ∉ Facts.lessCases then .tie
      else match v, w with
      | .val k p, .val k' p' => if k = k' then lessPay inv p p' else .panic
      | .ptr k p, .ptr k' p' =>
        if k ≠ k' then .panic
        else match p, p' with
          | none, none => .tie
          | none, some _ => .decided (!inv)
          | some _, none => .decided inv
          | some a, some b => lessPay inv a b
      | _, _ => .panic := rfl

theorem opp_tie_panic {r s : RuleRes} (hr : r = .tie ∨ r = .panic) (hs : s = .tie ∨ s = .panic) :
    RuleRes.opp r s = true := by
  rcases hr with rfl | rfl <;> rcases hs with rfl | rfl <;> rfl

/-- `lessVal` on two values that are not both plain values or both pointers: the rule is
skipped or the type assertion fails. -/
theorem lessVal_mixed (inv : Bool) (v w : GoVal)
    (h1 : ∀ k p k' q, ¬ (v = .val k p ∧ w = .val k' q))
    (h2 : ∀ k p k' q, ¬ (v = .ptr k p ∧ w = .ptr k' q)) :
    lessVal inv v w = .tie ∨ lessVal inv v w = .panic := by
  rw [lessVal_eq]
  by_cases hc : lessTn v ∉ Facts.lessCases
  · rw [if_pos hc]; exact .inl rfl
  · rw [if_neg hc]
    split
    · exact absurd ⟨rfl, rfl⟩ (h1 _ _ _ _)
    · exact absurd ⟨rfl, rfl⟩ (h2 _ _ _ _)
    · exact .inr rfl

theorem lessVal_val_val (inv : Bool) (k k' : Kind) (p q : Pay) :
    lessVal inv (.val k p) (.val k' q) =
      if lessTn (.val k p) ∉ Facts.lessCases then .tie
      else if k = k' then lessPay inv p q else .panic := rfl

theorem lessVal_ptr_ptr (inv : Bool) (k k' : Kind) (p q : Option Pay) :
    lessVal inv (.ptr k p) (.ptr k' q) =
      if lessTn (.ptr k p) ∉ Facts.lessCases then .tie
      else if k ≠ k' then .panic
      else match p, q with
        | none, none => .tie
        | none, some _ => .decided (!inv)
        | some _, none => .decided inv
        | some a, some b => lessPay inv a b := rfl

/-- One rule, both ways round, for ALL pairs of values. -/
theorem lessVal_opp (inv : Bool) (v w : GoVal) :
    RuleRes.opp (lessVal inv v w) (lessVal inv w v) = true := by
  cases v with
  | val k p =>
    cases w with
    | val k' q =>
      rw [lessVal_val_val, lessVal_val_val]
      by_cases hk : k = k'
      · subst hk
        have : lessTn (.val k q) = lessTn (.val k p) := rfl
        rw [this]
        by_cases hc : lessTn (.val k p) ∉ Facts.lessCases
        · rw [if_pos hc, if_pos hc]; rfl
        · rw [if_neg hc, if_neg hc, if_pos rfl, if_pos rfl]; exact lessPay_opp inv p q
      · rw [if_neg hk, if_neg (Ne.symm hk)]
        apply opp_tie_panic <;> (split <;> simp)
    | ptr k' q =>
      exact opp_tie_panic (lessVal_mixed inv _ _ (by simp) (by simp))
        (lessVal_mixed inv _ _ (by simp) (by simp))
    | strs l =>
      exact opp_tie_panic (lessVal_mixed inv _ _ (by simp) (by simp))
        (lessVal_mixed inv _ _ (by simp) (by simp))
    | nil =>
      exact opp_tie_panic (lessVal_mixed inv _ _ (by simp) (by simp))
        (lessVal_mixed inv _ _ (by simp) (by simp))
    | other t =>
      exact opp_tie_panic (lessVal_mixed inv _ _ (by simp) (by simp))
        (lessVal_mixed inv _ _ (by simp) (by simp))
  | ptr k p =>
    cases w with
    | ptr k' q =>
      rw [lessVal_ptr_ptr, lessVal_ptr_ptr]
      by_cases hk : k = k'
      · subst hk
        have : lessTn (.ptr k q) = lessTn (.ptr k p) := rfl
        rw [this]
        by_cases hc : lessTn (.ptr k p) ∉ Facts.lessCases
        · rw [if_pos hc, if_pos hc]; rfl
        · rw [if_neg hc, if_neg hc, if_neg (by simp), if_neg (by simp)]
          cases p with
          | none => cases q <;> cases inv <;> rfl
          | some x =>
            cases q with
            | none => cases inv <;> rfl
            | some y => exact lessPay_opp inv x y
      · rw [if_pos hk, if_pos (Ne.symm hk)]
        apply opp_tie_panic <;> (split <;> simp)
    | val k' q =>
      exact opp_tie_panic (lessVal_mixed inv _ _ (by simp) (by simp))
        (lessVal_mixed inv _ _ (by simp) (by simp))
    | strs l =>
      exact opp_tie_panic (lessVal_mixed inv _ _ (by simp) (by simp))
        (lessVal_mixed inv _ _ (by simp) (by simp))
    | nil =>
      exact opp_tie_panic (lessVal_mixed inv _ _ (by simp) (by simp))
        (lessVal_mixed inv _ _ (by simp) (by simp))
    | other t =>
      exact opp_tie_panic (lessVal_mixed inv _ _ (by simp) (by simp))
        (lessVal_mixed inv _ _ (by simp) (by simp))
  | strs l =>
    exact opp_tie_panic (lessVal_mixed inv _ _ (by simp) (by simp))
      (lessVal_mixed inv _ _ (by simp) (by simp))
  | nil =>
    exact opp_tie_panic (lessVal_mixed inv _ _ (by simp) (by simp))
      (lessVal_mixed inv _ _ (by simp) (by simp))
  | other t =>
    exact opp_tie_panic (lessVal_mixed inv _ _ (by simp) (by simp))
      (lessVal_mixed inv _ _ (by simp) (by simp))

theorem xorInv_id_opp (x y : GoString) (inv : Bool) (h : x ≠ y) :
    xorInv (decide (x < y)) inv = !(xorInv (decide (y < x)) inv) := by
  by_cases h1 : x < y
  · have h2 : ¬ y < x := List.lt_asymm h1
    cases inv <;> simp [xorInv, h1, h2]
  · have h2 : y < x := lt_of_not_lt_of_ne h1 h
    cases inv <;> simp [xorInv, h1, h2]

/-- `Less` returns a Boolean or panics. -/
theorem less_ne_err (rules : List GoString) (a b : ResView) : less rules a b ≠ .err := by
  induction rules with
  | nil => simp [less]
  | cons r rest ih =>
    rw [less_cons]
    split
    · simp
    · split
      · simp
      · exact ih
      · simp

/-- If both `Less(a, b)` and `Less(b, a)` return, they return opposite answers. -/
theorem less_opp (rules : List GoString) (hid : ∃ r ∈ rules, Spec.stripDash r = idName)
    (a b : ResView) (hne : a.id ≠ b.id) (x y : Bool)
    (hx : less rules a b = .ok x) (hy : less rules b a = .ok y) : x = !y := by
  induction rules with
  | nil => obtain ⟨r, hr, _⟩ := hid; cases hr
  | cons r rest ih =>
    rw [less_cons] at hx hy
    by_cases hr : (splitRule r).2 = idName
    · rw [if_pos hr] at hx hy
      cases hx; cases hy
      exact xorInv_id_opp _ _ _ hne
    · rw [if_neg hr] at hx hy
      have hid' : ∃ r' ∈ rest, Spec.stripDash r' = idName := by
        obtain ⟨r', hr', e⟩ := hid
        rcases List.mem_cons.1 hr' with rfl | hm
        · rw [splitRule_snd] at hr; exact absurd e hr
        · exact ⟨r', hm, e⟩
      have hopp := lessVal_opp (splitRule r).1 (getAttrVal a (splitRule r).2)
        (getAttrVal b (splitRule r).2)
      revert hx hy hopp
      generalize lessVal (splitRule r).1 (getAttrVal a (splitRule r).2)
        (getAttrVal b (splitRule r).2) = r1
      generalize lessVal (splitRule r).1 (getAttrVal b (splitRule r).2)
        (getAttrVal a (splitRule r).2) = r2
      intro hx hy hopp
      cases r1 with
      | decided x' =>
        cases r2 with
        | decided y' =>
          simp only [Res.ok.injEq] at hx hy
          subst hx; subst hy
          revert hopp; cases x' <;> cases y' <;> simp [RuleRes.opp]
        | tie => simp [RuleRes.opp] at hopp
        | panic => cases hy
      | tie =>
        cases r2 with
        | decided y' => simp [RuleRes.opp] at hopp
        | tie => exact ih hid' hx hy
        | panic => cases hy
      | panic => cases hx

/-- (c, model) `sortedResources.Less` under a rule list that mentions `id`, on two
resources with different IDs and ANY attribute values: either a type assertion inside
`Less` fails (one of the two calls panics), or exactly one of `Less(a, b)`, `Less(b, a)`
is true — the two are never tied. -/
theorem C07T_less_total (rules : List GoString)
    (hid : ∃ r ∈ rules, Spec.stripDash r = idName) (a b : ResView) (hne : a.id ≠ b.id) :
    less rules a b = .panic ∨ less rules b a = .panic ∨
    (less rules a b = .ok true ∧ less rules b a = .ok false) ∨
    (less rules a b = .ok false ∧ less rules b a = .ok true) := by
  cases hx : less rules a b with
  | panic => exact .inl rfl
  | err => exact absurd hx (less_ne_err _ _ _)
  | ok x =>
    cases hy : less rules b a with
    | panic => exact .inr (.inl rfl)
    | err => exact absurd hy (less_ne_err _ _ _)
    | ok y =>
      have := less_opp rules hid a b hne x y hx hy
      subst this
      cases y
      · exact .inr (.inr (.inl ⟨rfl, rfl⟩))
      · exact .inr (.inr (.inr ⟨rfl, rfl⟩))

/-- The failure alternative of `C07T_less_total` is real: under the rules `n,id`, a
resource holding an `int` and one holding a `string` in the attribute `n` make `Less`
fail its type assertion (C09 excludes this by well-formedness of the resources). -/
theorem C07T_less_panic_possible :
    less [[110], idName]
      { typeName := [116], id := [97], attrs := [], rels := [], vals := [([110], .val .int (.i 1))] }
      { typeName := [116], id := [98], attrs := [], rels := [], vals := [([110], .val .string (.s []))] }
      = .panic := by decide

/-- (c, model, well-typed) On two well-formed resources with different IDs that declare
the rules' attributes alike (C09's `RulesOver`) and whose rules have a case in `Less`
(C09's `RulesHaveCases`), exactly one of `Less(a, b)`, `Less(b, a)` is true. -/
theorem C07T_less_total_wf (rules : List GoString)
    (hid : ∃ r ∈ rules, Spec.stripDash r = idName) (a b : ResView)
    (hwa : a.wf = true) (hwb : b.wf = true)
    (hover : RulesOver [a, b] rules) (hcases : RulesHaveCases [a, b] rules)
    (hne : a.id ≠ b.id) :
    (lessB rules a b = true ∧ lessB rules b a = false) ∨
    (lessB rules a b = false ∧ lessB rules b a = true) := by
  obtain ⟨x, hx⟩ := C09_less_no_panic rules a b hwa hwb hover hcases
  have hover' : RulesOver [b, a] rules := by
    intro rule hr
    rcases hover rule hr with e | ⟨at', e⟩
    · exact .inl e
    · refine .inr ⟨at', fun r hr => e r ?_⟩
      simp only [List.mem_cons, List.not_mem_nil, or_false] at hr ⊢
      exact hr.symm
  have hcases' : RulesHaveCases [b, a] rules := by
    intro rule hr
    rcases hcases rule hr with e | e
    · exact .inl e
    · refine .inr (fun r hr => e r ?_)
      simp only [List.mem_cons, List.not_mem_nil, or_false] at hr ⊢
      exact hr.symm
  obtain ⟨y, hy⟩ := C09_less_no_panic rules b a hwb hwa hover' hcases'
  have := less_opp rules hid a b hne x y hx hy
  subst this
  unfold lessB
  rw [hx, hy]
  cases y
  · exact .inl ⟨rfl, rfl⟩
  · exact .inr ⟨rfl, rfl⟩

/-- (c, composition) "… and always contain id, so the order they define is total": for
every collection URL returned by `newURLFrom`, its sorting rules never tie two resources
with different IDs — not under the specification's comparison, and not under the model of
`sortedResources.Less` (where, for arbitrary values, a type assertion may fail instead). -/
theorem C07T_order_total (σ : Schema)
    (parsed : Option (GoString × GoMap (List GoString) × FilterDec)) (u : URL)
    (h : newURLFrom σ parsed = .ok u) (hcol : u.isCol = true)
    (a b : ResView) (hne : a.id ≠ b.id) :
    Spec.cmpRules u.params.sortingRules a b ≠ .eq ∧
    (less u.params.sortingRules a b = .panic ∨ less u.params.sortingRules b a = .panic ∨
     (less u.params.sortingRules a b = .ok true ∧ less u.params.sortingRules b a = .ok false) ∨
     (less u.params.sortingRules a b = .ok false ∧ less u.params.sortingRules b a = .ok true)) :=
  have hid := C07T_sort_has_id σ parsed u h hcol
  ⟨C07T_spec_order_total _ hid a b hne, C07T_less_total _ hid a b hne⟩

/-- (c, composition, well-typed) … and on well-formed resources typed for the rules,
exactly one of `Less(a, b)`, `Less(b, a)` holds under the URL's sorting rules. -/
theorem C07T_order_total_wf (σ : Schema)
    (parsed : Option (GoString × GoMap (List GoString) × FilterDec)) (u : URL)
    (h : newURLFrom σ parsed = .ok u) (hcol : u.isCol = true)
    (a b : ResView) (hwa : a.wf = true) (hwb : b.wf = true)
    (hover : RulesOver [a, b] u.params.sortingRules)
    (hcases : RulesHaveCases [a, b] u.params.sortingRules) (hne : a.id ≠ b.id) :
    (lessB u.params.sortingRules a b = true ∧ lessB u.params.sortingRules b a = false) ∨
    (lessB u.params.sortingRules a b = false ∧ lessB u.params.sortingRules b a = true) :=
  C07T_less_total_wf _ (C07T_sort_has_id σ parsed u h hcol) a b hwa hwb hover hcases hne


/-! ### non-vacuity: concrete instances of the hypotheses -/

/-- relationship "r" of type "t", to many "t" -/
def c07t_r : Rel :=
  { fromType := [116], fromName := [114], toOne := false, toType := [116], toName := [],
    fromOne := false }
/-- type "t": attribute `n : *int` (C09's `exAttr`), relationship "r" -/
def c07t_tT : Typ := { name := [116], attrs := [([110], exAttr)], rels := [([114], c07t_r)] }
def c07t_σ : Schema := { types := [c07t_tT] }

theorem c07t_σ_inv : Inv c07t_σ := by
  refine ⟨by decide, ?_⟩
  intro t ht
  have : t = c07t_tT := by simpa [c07t_σ] using ht
  subst this
  refine ⟨by decide, ⟨?_, ?_, (by decide), (by decide), (by decide)⟩⟩
  · intro p hp
    have : p = ([110], exAttr) := by simpa [c07t_tT] using hp
    subst this; decide
  · intro p hp
    have : p = ([114], c07t_r) := by simpa [c07t_tT] using hp
    subst this; decide

/-- `GET /t?include=r.r&sort=-n` -/
def c07t_parsed : Option (GoString × GoMap (List GoString) × FilterDec) :=
  some ([47, 116], [(sInclude, [[114, 46, 114]]), (sSort, [[45, 110]])],
    { label := none, filter := none })

/-- `C07T_resolvePath_iff` on the (invariant-satisfying) schema: the words "r", "r". -/
example : Spec.validChain c07t_σ [116] [c07t_r, c07t_r] = true ∧
    [c07t_r, c07t_r].map (·.fromName) = [[114], [114]] :=
  (C07T_resolvePath_iff c07t_σ c07t_σ_inv [116] [[114], [114]] [c07t_r, c07t_r]).1 (by decide)

/-- the request parses to a collection URL that keeps the path "r.r" and whose rules are
C09's `-n,id` -/
theorem c07t_url (u : URL) (h : newURLFrom c07t_σ c07t_parsed = .ok u) :
    u.isCol = true ∧ u.resType = [116] ∧ [c07t_r, c07t_r] ∈ u.params.incl ∧
      u.params.sortingRules = exRules := by
  have : (match newURLFrom c07t_σ c07t_parsed with
      | .ok u => decide (u.isCol = true ∧ u.resType = [116] ∧ [c07t_r, c07t_r] ∈ u.params.incl ∧
          u.params.sortingRules = exRules)
      | _ => false) = true := by decide
  rw [h] at this
  simpa using this

example : (newURLFrom c07t_σ c07t_parsed).isOk = true := by decide

/-- hypotheses of `C07T_include_kept` -/
example : [114, 46, 114] ∈ Spec.requestedIncludes [(sInclude, [[114, 46, 114]]), (sSort, [[45, 110]])] ∧
    Spec.validChain c07t_σ [116] [c07t_r, c07t_r] = true ∧
    [c07t_r, c07t_r].map (·.fromName) = splitOn 46 [114, 46, 114] := by decide

/-- hypotheses of `C07T_less_total` / `C07T_spec_order_total` -/
example : (∃ r ∈ exRules, Spec.stripDash r = idName) ∧ exA.id ≠ exB.id :=
  ⟨⟨idName, by decide, by decide⟩, by decide⟩

/-- hypotheses of `C07T_less_total_wf` / `C07T_order_total_wf`: C09's resources, one value
nil, under `-n,id` — and the conclusion. -/
theorem c07t_typed : RulesOver [exA, exB] exRules ∧ RulesHaveCases [exA, exB] exRules := by
  obtain ⟨_, _, _, h4, h5, _⟩ := C09_nonvacuous
  have he : effRules exRules = exRules := rfl
  rw [he] at h4 h5
  have hsub : ∀ r ∈ [exA, exB], r ∈ [exA, exB, exC] := by
    intro r hr
    simp only [List.mem_cons, List.not_mem_nil, or_false] at hr ⊢
    rcases hr with e | e
    · exact .inl e
    · exact .inr (.inl e)
  exact ⟨fun rule hr => RuleTyped.mono hsub (h4 rule hr),
    fun rule hr => RuleCased.mono hsub (h5 rule hr)⟩

example : (lessB exRules exA exB = true ∧ lessB exRules exB exA = false) ∨
    (lessB exRules exA exB = false ∧ lessB exRules exB exA = true) :=
  C07T_less_total_wf exRules ⟨idName, by decide, by decide⟩ exA exB (by decide) (by decide)
    c07t_typed.1 c07t_typed.2 (by decide)

/-- `C07T_order_total_wf` applies to the URL of the request above. -/
example (u : URL) (h : newURLFrom c07t_σ c07t_parsed = .ok u) :
    (lessB u.params.sortingRules exA exB = true ∧ lessB u.params.sortingRules exB exA = false) ∨
    (lessB u.params.sortingRules exA exB = false ∧ lessB u.params.sortingRules exB exA = true) := by
  obtain ⟨hcol, _, _, hr⟩ := c07t_url u h
  refine C07T_order_total_wf c07t_σ c07t_parsed u h hcol exA exB (by decide) (by decide) ?_ ?_
    (by decide)
  · rw [hr]; exact c07t_typed.1
  · rw [hr]; exact c07t_typed.2

end Jsonapi

section Axioms
open Jsonapi
#print axioms C07T_resolvePath_iff_chain
#print axioms C07T_resolvePath_iff
#print axioms C07T_resolvePath_of_valid
#print axioms C07T_resolvePath_needs_inv
#print axioms C07T_include_kept
#print axioms C07T_include_requested
#print axioms C07T_sort_has_id
#print axioms C07T_spec_order_total
#print axioms C07T_less_total
#print axioms C07T_less_panic_possible
#print axioms C07T_less_total_wf
#print axioms C07T_order_total
#print axioms C07T_order_total_wf
end Axioms
