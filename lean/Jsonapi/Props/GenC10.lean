/-
T1b for C10 (and C09, which filters through the same helpers): the comparison helpers
translated from filter.go on this run are the model's `cmpPay` on every operator string and
every pair of values. The operator switch, the six relations per class and the two of
booleans are thereby tied to the source for all inputs, not only the sampled ones.
-/
import Jsonapi.Generated.Funcs
import Jsonapi.Model.Filter
namespace Jsonapi

/-- an operator string is one of the six comparison operators, or none of them -/
private theorem opCases (op : GoString) :
    op = [61] ∨ op = [33, 61] ∨ op = [60] ∨ op = [60, 61] ∨ op = [62] ∨ op = [62, 61] ∨
    (op ≠ [61] ∧ op ≠ [33, 61] ∧ op ≠ [60] ∧ op ≠ [60, 61] ∧ op ≠ [62] ∧ op ≠ [62, 61]) := by
  by_cases h1 : op = [61]; · exact .inl h1
  by_cases h2 : op = [33, 61]; · exact .inr (.inl h2)
  by_cases h3 : op = [60]; · exact .inr (.inr (.inl h3))
  by_cases h4 : op = [60, 61]; · exact .inr (.inr (.inr (.inl h4)))
  by_cases h5 : op = [62]; · exact .inr (.inr (.inr (.inr (.inl h5))))
  by_cases h6 : op = [62, 61]; · exact .inr (.inr (.inr (.inr (.inr (.inl h6)))))
  exact .inr (.inr (.inr (.inr (.inr (.inr ⟨h1, h2, h3, h4, h5, h6⟩)))))

/-! The proofs below split on the operator first and evaluate both sides for that operator,
so they do not depend on the order in which the source lists its `case`s. -/

/-- filter.go `checkStr` -/
theorem Gen_checkStr_eq (op a b : GoString) : cmpPay op (.s a) (.s b) = some (Gen.checkStr op a b) := by
  simp only [cmpPay, cmpOps, Op.eq, Op.ne, Op.lt, Op.le, Op.gt, Op.ge]
  unfold Gen.checkStr
  congr 1
  rcases Std.lt_trichotomy a b with h | h | h
  · have h1 : ¬ b < a := fun h' => List.lt_asymm h h'
    have h2 : a ≠ b := fun e => by rw [e] at h; exact List.lt_irrefl _ h
    rcases opCases op with rfl | rfl | rfl | rfl | rfl | rfl | ⟨n1, n2, n3, n4, n5, n6⟩ <;> simp [*]
  · subst h
    have h1 : ¬ a < a := List.lt_irrefl _
    rcases opCases op with rfl | rfl | rfl | rfl | rfl | rfl | ⟨n1, n2, n3, n4, n5, n6⟩ <;> simp [*]
  · have h1 : ¬ a < b := fun h' => List.lt_asymm h h'
    have h2 : a ≠ b := fun e => by rw [e] at h; exact List.lt_irrefl _ h
    rcases opCases op with rfl | rfl | rfl | rfl | rfl | rfl | ⟨n1, n2, n3, n4, n5, n6⟩ <;> simp [*]

/-- filter.go `checkInt` (every signed kind is widened to int64 before the call) -/
theorem Gen_checkInt_eq (op : GoString) (a b : Int) : cmpPay op (.i a) (.i b) = some (Gen.checkInt op a b) := by
  simp only [cmpPay, cmpOps, Op.eq, Op.ne, Op.lt, Op.le, Op.gt, Op.ge]
  unfold Gen.checkInt
  congr 1
  rcases Int.lt_trichotomy a b with h | h | h
  · have h1 : ¬ b < a := by omega
    have h2 : a ≠ b := by omega
    have h3 : a ≤ b := by omega
    have h4 : ¬ b ≤ a := by omega
    rcases opCases op with rfl | rfl | rfl | rfl | rfl | rfl | ⟨n1, n2, n3, n4, n5, n6⟩ <;> simp [*]
  · subst h
    rcases opCases op with rfl | rfl | rfl | rfl | rfl | rfl | ⟨n1, n2, n3, n4, n5, n6⟩ <;> simp [*]
  · have h1 : ¬ a < b := by omega
    have h2 : a ≠ b := by omega
    have h3 : ¬ a ≤ b := by omega
    have h4 : b ≤ a := by omega
    rcases opCases op with rfl | rfl | rfl | rfl | rfl | rfl | ⟨n1, n2, n3, n4, n5, n6⟩ <;> simp [*]

/-- filter.go `checkUint` (every unsigned kind is widened to uint64 before the call; the
model keeps unsigned payloads as non-negative integers) -/
theorem Gen_checkUint_eq (op : GoString) (a b : Nat) :
    cmpPay op (.i (a : Int)) (.i (b : Int)) = some (Gen.checkUint op a b) := by
  simp only [cmpPay, cmpOps, Op.eq, Op.ne, Op.lt, Op.le, Op.gt, Op.ge]
  unfold Gen.checkUint
  congr 1
  rcases Nat.lt_trichotomy a b with h | h | h
  · have h1 : ¬ b < a := by omega
    have h2 : a ≠ b := by omega
    have h3 : a ≤ b := by omega
    have h4 : ¬ b ≤ a := by omega
    have e1 : ((a : Int) < (b : Int)) := by omega
    have e2 : ¬ ((b : Int) < (a : Int)) := by omega
    have e3 : (a : Int) ≠ (b : Int) := by omega
    rcases opCases op with rfl | rfl | rfl | rfl | rfl | rfl | ⟨n1, n2, n3, n4, n5, n6⟩ <;> simp [*]
  · subst h
    rcases opCases op with rfl | rfl | rfl | rfl | rfl | rfl | ⟨n1, n2, n3, n4, n5, n6⟩ <;> simp [*]
  · have h1 : ¬ a < b := by omega
    have h2 : a ≠ b := by omega
    have h3 : ¬ a ≤ b := by omega
    have h4 : b ≤ a := by omega
    have e1 : ¬ ((a : Int) < (b : Int)) := by omega
    have e2 : ((b : Int) < (a : Int)) := by omega
    have e3 : (a : Int) ≠ (b : Int) := by omega
    rcases opCases op with rfl | rfl | rfl | rfl | rfl | rfl | ⟨n1, n2, n3, n4, n5, n6⟩ <;> simp [*]

/-- filter.go `checkBool` -/
theorem Gen_checkBool_eq (op : GoString) (a b : Bool) : cmpPay op (.b a) (.b b) = some (Gen.checkBool op a b) := by
  simp only [cmpPay, Op.eq, Op.ne]; unfold Gen.checkBool
  congr 1
  rcases opCases op with rfl | rfl | rfl | rfl | rfl | rfl | ⟨n1, n2, n3, n4, n5, n6⟩ <;>
    cases a <;> cases b <;> simp [*]

/-- filter.go `checkTime` -/
theorem Gen_checkTime_eq (op : GoString) (a b : Time) : cmpPay op (.t a) (.t b) = some (Gen.checkTime op a b) := by
  simp only [cmpPay, cmpOps, Op.eq, Op.ne, Op.lt, Op.le, Op.gt, Op.ge]; unfold Gen.checkTime
  congr 1
  rcases opCases op with rfl | rfl | rfl | rfl | rfl | rfl | ⟨n1, n2, n3, n4, n5, n6⟩ <;> simp [*]

/-- filter.go `checkIn` (the `in` and `has` operators): membership -/
theorem Gen_checkIn_eq (id : GoString) (ids : List GoString) : Gen.checkIn id ids = ids.contains id := by
  unfold Gen.checkIn
  induction ids with
  | nil => simp
  | cons a t ih =>
    by_cases h : id = a
    · subst h; simp
    · have h' : ¬ a = id := fun e => h e.symm
      simp [List.any_cons, List.contains_cons, h, h'] at ih ⊢

end Jsonapi

section Axioms
open Jsonapi
#print axioms Gen_checkStr_eq
#print axioms Gen_checkInt_eq
#print axioms Gen_checkUint_eq
#print axioms Gen_checkBool_eq
#print axioms Gen_checkTime_eq
#print axioms Gen_checkIn_eq
end Axioms
