/-
T1b for the URL front end (C07/C08): `NewSimpleURL` (simple_url.go), `NewParams` (params.go) and
`NewURL` (url.go) - and `Type.Fields` (type.go), which NewParams calls -, translated from the Go
source on this run (harness/cmd/translate: structures generated from the struct declarations,
local structures, pointers as `Option`, `(T, error)` results as pairs, delegated calls as
parameters, loops with early exit / break / continue, counting loops with in-place removal,
reads that may panic), are the hand-written model's `newSimpleURL`, `newParams`, `newURL` of
Model/Url.lean - for every input that satisfies the stated hypotheses.

Correspondence. The translated functions work on the structures `Gen.SimpleURL`, `Gen.Params`,
`Gen.URL` (every field of the Go structs); the model keeps fewer fields, the views
`SimpleURL.ofGen`, `Params.ofGen`, `URL.ofGen` (Proofs/GenC07bLemmas.lean) forget `Route`,
`RelKind`, `BelongsToFilter`, `Attrs`, `Rels`, `RelData`. A Go result `(*T, error)` is a pair
`Option T × Res Unit` and represents the model's `Res` as `PtrPairIs` says (non-nil pointer
and nil error, or nil pointer and non-nil error, or nil pointer and `Res.panic` - nothing else),
a result `(T, error)` as `ValPairIs` says (the value returned next to a non-nil error is not
compared, the model drops it).

`Gen_NewParams_eq`, `Gen_NewURL_eq`: under the one hypothesis that no sorting rule of the
SimpleURL is the empty string. The code reads `urule[0]` of every rule, so it PANICS on an empty
rule where the model goes on: `Gen_NewParams_differs_on_empty_rule` is a checked instance (the
code - its faithful translation - is the ground truth there). `NewSimpleURL` never produces an
empty rule (`Gen_NewSimpleURL_rules_nonempty`), so the composition `NewURLFromRaw` is covered.

`Gen_NewSimpleURL_eq`: the translated function takes the `*url.URL` (a generated structure,
`some u`: non-nil) and three delegated calls as parameters: `q` is `(*url.URL).Query`, `unm0` /
`unm1` the two `json.Unmarshal` calls (into `&sURL.FilterLabel` and into the fresh `&Filter{}`).
The model starts from the decoded path `u.path`, the values `q u` (an association list whose
order is the iteration order) and the decoded filter `fd`. Hypotheses: the keys of the values
are distinct (it is a Go map), and `fd` is what the two decoders give on the filter value
(`FilterDecIs`). `Gen_NewSimpleURL_nil`: a nil `*url.URL` is an error (the model has no such input).
-/
import Jsonapi.Generated.Funcs
import Jsonapi.Props.GenC08
import Jsonapi.Props.GenC15
import Jsonapi.Proofs.GenC07bLemmas
namespace Jsonapi
open Schema GoMap

theorem Gen_Type_Fields_eq (t : Typ) : Gen.Type_Fields t = t.fields := by
  unfold Gen.Type_Fields Typ.fields
  simp only [GenC07b.foldl_append_map (fun (e : GoString × Attr) => e.2.name),
    GenC07b.foldl_append_map (fun (e : GoString × Rel) => e.2.fromName), List.nil_append]
  simp [GoMap.vals, List.map_map]
  rfl

theorem Gen_NewParams_eq (σ : Schema) (su : Gen.SimpleURL) (rt : GoString)
    (hsr : ∀ r ∈ su.sortingRules, r ≠ []) :
    PtrPairIs Params.ofGen (Gen.NewParams σ su rt) (newParams σ (SimpleURL.ofGen su) rt) := by
  generalize hM : newParams σ (SimpleURL.ofGen su) rt = M
  rw [UrlL.newParams_eq] at hM
  unfold Gen.NewParams
  extract_lets -underBinder +onlyGivenNames params0 incs1 incs2 incs3 incs4
  -- the includes: copied, sorted, pruned
  have hincs4 : incs4 = UrlL.pIncs (SimpleURL.ofGen su) := by
    have e : incs4 = (List.range incs3.length).reverse.foldl GenC07b.pruneStep incs3 :=
      GenC07b.foldl_ext _ _ (fun _ _ => rfl) _ _
    rw [e, GenC07b.prune_fold]
    show pruneIncludes (Typ.sortStrings incs2) = _
    rw [show incs2 = su.include_ from GenC07b.make_copy su.include_]
    rfl
  clear_value incs4
  clear incs3 incs2 incs1
  subst hincs4
  -- the check loop
  generalize hE : List.foldl _ (UrlL.pIncs (SimpleURL.ofGen su), params0) _ = st5
  obtain ⟨incs5, params5⟩ := st5
  split
  rename_i incs5' params5' heq
  cases heq
  rw [GenC07b.foldl_ext _ (GenC07b.checkStep σ rt) ?step5] at hE
  case step5 =>
    rintro ⟨incs, p⟩ i
    simp only []
    unfold GenC07b.checkStep
    rw [GenC07b.foldl_ext _ (GenC07b.walkStep σ i) ?inner5]
    case inner5 =>
      rintro ⟨rel, incs', p', brk⟩ w
      simp only [Gen_Schema_GetType_eq, Gen_Schema_HasType_eq]
      unfold GenC07b.walkStep
      cases brk with
      | true => rfl
      | false =>
        simp only [Bool.false_eq_true, if_false]
        by_cases hn : (σ.getType rel.toType).name = []
        · simp [hn]
        · cases hr : (σ.getType rel.toType).rels.get? w with
          | none => simp [hn, GenC07b.zeroRel]
          | some r =>
            by_cases ht : σ.hasType r.toType = true
            · simp [hn, ht]
            · simp [hn, ht]
    rfl
  -- what the check loop leaves: the includes whose path resolves are unchanged, the types met are registered
  obtain ⟨suf', h5, hres5⟩ := GenC07b.check_fold σ rt (UrlL.pIncs (SimpleURL.ofGen su)).length [] (UrlL.pIncs (SimpleURL.ofGen su)) params0 (Nat.le_refl _)
  simp only [List.length_nil, List.nil_append, ← List.range_eq_range'] at h5
  rw [h5] at hE
  have hincs5 : incs5 = suf' := (Prod.mk.inj hE).1.symm
  have hp5 : params5 = (⟨UrlL.pFields0 σ (SimpleURL.ofGen su) rt, [], [], [], [], none, [], [], []⟩ : Gen.Params) :=
    (Prod.mk.inj hE).2.symm
  clear hE h5
  subst hincs5 hp5
  clear params0
  extract_lets -underBinder +onlyGivenNames params6 params7 p8a params8
  have h7 : params7 = (⟨UrlL.pFields0 σ (SimpleURL.ofGen su) rt, [], [], [], [], none, [], [],
      UrlL.pIncl σ (SimpleURL.ofGen su) rt⟩ : Gen.Params) := by
    have e : params7 = incs5.foldl (GenC07b.inclStep σ rt) params6 := by
      refine GenC07b.foldl_ext _ _ ?step7 _ _
      intro p inc
      simp only []
      unfold GenC07b.inclStep
      rw [GenC07b.foldl_ext _ (GenC07b.pathStep σ) ?inner7]
      · rfl
      · rintro ⟨rel, path, brk⟩ w
        simp only [Gen_Schema_GetType_eq, Gen_Schema_HasType_eq]
        unfold GenC07b.pathStep
        cases brk with
        | true => rfl
        | false =>
          cases hr : (σ.getType rel.toType).rels.get? w with
          | none => simp []
          | some r =>
            by_cases hc : (decide ((σ.getType rel.toType).name = []) || !σ.hasType r.toType) = true
            · simp only [Bool.or_eq_true, decide_eq_true_eq, Bool.not_eq_true'] at hc
              rcases hc with hc | hc <;> simp [hc]
            · simp only [Bool.or_eq_true, decide_eq_true_eq, Bool.not_eq_true', not_or] at hc
              simp [hc.1, hc.2]
    rw [e, GenC07b.incl_fold, hres5]
    rfl
  have h8 : params8 = (⟨UrlL.pFields1 σ (SimpleURL.ofGen su) rt, [], [], [], [], none, [], [],
      UrlL.pIncl σ (SimpleURL.ofGen su) rt⟩ : Gen.Params) := by
    have e8 : params8 = if decide (rt ≠ []) = true then p8a else params7 := rfl
    have e8a : p8a = { params7 with fields := GoMap.set params7.fields rt [] } := rfl
    rw [e8, e8a, h7]
    unfold UrlL.pFields1
    by_cases h : rt = [] <;> simp [h]
  clear_value params8
  subst h8
  clear h7 p8a params7 params6 hres5 incs5
  -- the fields loop
  generalize hF : List.foldl _ (_, none) su.fields = st9
  obtain ⟨params9, ret9⟩ := st9
  split
  rename_i params9' ret9' heq
  cases heq
  obtain ⟨G, hG⟩ : ∃ G : Res (GoMap (List GoString)) → GoString × List GoString → Res (GoMap (List GoString)),
      G = fun acc p => match acc with | Res.ok m => UrlL.fieldStep σ rt m p | e => e := ⟨_, rfl⟩
  have key : (∀ fm, List.foldl G (Res.ok (UrlL.pFields1 σ (SimpleURL.ofGen su) rt)) su.fields = Res.ok fm →
        ∃ s', (params9, ret9) = (s', none) ∧
          s' = (⟨fm, [], [], [], [], none, [], [], UrlL.pIncl σ (SimpleURL.ofGen su) rt⟩ : Gen.Params)) ∧
      (List.foldl G (Res.ok (UrlL.pFields1 σ (SimpleURL.ofGen su) rt)) su.fields = Res.err →
        ∃ s' r, (params9, ret9) = (s', some r) ∧ r = ((none : Option Gen.Params), (Res.err : Res Unit))) ∧
      List.foldl G (Res.ok (UrlL.pFields1 σ (SimpleURL.ofGen su) rt)) su.fields ≠ Res.panic := by
    rw [← hF]
    refine GenC07b.fold_early' _ (UrlL.fieldStep σ rt) G (fun _ _ => by subst hG; rfl) (fun _ => by subst hG; rfl)
      (fun s fm => s = (⟨fm, [], [], [], [], none, [], [], UrlL.pIncl σ (SimpleURL.ofGen su) rt⟩ : Gen.Params))
      (fun r => r = ((none : Option Gen.Params), (Res.err : Res Unit))) (fun _ _ => True) ?hstep su.fields _ _ trivial rfl
    rintro ⟨t, fs⟩ rest s fm _ hR
    subst hR
    simp only [Gen_Schema_GetType_eq, Gen_Type_Fields_eq]
    -- the selection: two nested loops
    rw [GenC07b.foldl_ext _ (GenC07b.selStep (σ.getType t) t) ?sel fs]
    case sel =>
      intro p f
      unfold GenC07b.selStep
      rw [GenC07b.foldl_ext _ (GenC07b.selInner t f) (fun _ _ => rfl)]
      rfl
    have hsel := GenC07b.sel_fold (σ.getType t) t
      (⟨fm, [], [], [], [], none, [], [], UrlL.pIncl σ (SimpleURL.ofGen su) rt⟩ : Gen.Params) fm fs []
    simp only [List.nil_append] at hsel
    rw [hsel]
    simp only [GoMap.get?_set_self, Option.getD_some]
    -- the search for a duplicate: two nested index loops
    rw [GenC07b.foldl_ext _ (GenC07b.dupOuter (UrlL.sel (σ.getType t) fs) ((none : Option Gen.Params), (Res.err : Res Unit))) ?dup]
    case dup =>
      intro r i
      set_option smartUnfolding false in rfl
    rw [GenC07b.dup_fold]
    unfold UrlL.fieldStep
    simp only []
    by_cases hn : (σ.getType t).name = []
    · by_cases ht : t = rt
      · subst ht; simp [hn]
      · simp [hn, ht]
    · have hE := GenC07b.eraseDups_length_ne_iff (UrlL.sel (σ.getType t) fs)
      by_cases hnd : (UrlL.sel (σ.getType t) fs).Nodup
      · have h1 : ¬ (UrlL.sel (σ.getType t) fs).eraseDups.length ≠ (UrlL.sel (σ.getType t) fs).length := fun h => (hE.1 h) hnd
        by_cases ht : t = rt
        · subst ht; simp [hn, hnd, h1]
        · simp [hn, ht, hnd, h1]
      · have h1 : (UrlL.sel (σ.getType t) fs).eraseDups.length ≠ (UrlL.sel (σ.getType t) fs).length := hE.2 hnd
        by_cases ht : t = rt
        · subst ht; simp [hn, hnd, h1]
        · simp [hn, ht, hnd, h1]
  have hres : UrlL.pFieldsRes σ (SimpleURL.ofGen su) rt =
      List.foldl G (Res.ok (UrlL.pFields1 σ (SimpleURL.ofGen su) rt)) su.fields := by
    unfold UrlL.pFieldsRes
    symm
    apply UrlL.foldl_eq_rfold G (UrlL.fieldStep σ rt) <;> (intros; subst hG; rfl)
  rw [hres] at hM
  clear hF
  cases hfold : List.foldl G (Res.ok (UrlL.pFields1 σ (SimpleURL.ofGen su) rt)) su.fields with
  | panic => exact absurd hfold key.2.2
  | err =>
    obtain ⟨s', r, e, hr⟩ := key.2.1 hfold
    have e2 : ret9 = some r := (Prod.mk.inj e).2
    subst e2 hr
    rw [hfold] at hM
    subst hM
    rfl
  | ok fm =>
    obtain ⟨s', e, hs'⟩ := key.1 fm hfold
    have e1 : params9 = s' := (Prod.mk.inj e).1
    have e2 : ret9 = none := (Prod.mk.inj e).2
    subst e2 e1 hs'
    rw [hfold] at hM
    subst hM
    have hnd : (GoMap.keys fm).Nodup :=
      UrlL.rfold_inv (UrlL.fieldStep σ rt) (fun m => (GoMap.keys m).Nodup) (fun a b a' hq h => UrlL.fieldStep_nodup hq h)
        _ _ _ (UrlL.pFields1_nodup σ _ rt) (by have := hres; unfold UrlL.pFieldsRes at this; rw [this, hfold])
    clear key hfold e hG G hres
    split
    · rename_i r heq; cases heq
    extract_lets -underBinder +onlyGivenNames params10 params11
    have h10 : params10 = (⟨UrlL.fillDefault σ fm, [], [], [], [], none, [], [], UrlL.pIncl σ (SimpleURL.ofGen su) rt⟩ : Gen.Params) := by
      have e : params10 = fm.foldl (GenC07b.fillStep σ)
          (⟨fm, [], [], [], [], none, [], [], UrlL.pIncl σ (SimpleURL.ofGen su) rt⟩ : Gen.Params) := by
        refine GenC07b.foldl_ext _ _ ?_ _ _
        intro p e
        simp only [Gen_Schema_GetType_eq, Gen_Type_Fields_eq, GenC07b.fillStep]
        by_cases hc : decide ((((GoMap.get? p.fields e.1).getD []).length : Int) = 0) = true
        · simp only [hc, if_true, GoMap.get?_set_self, Option.getD_some, GenC07b.set_set, GenC07b.make_copy]
        · simp only [hc, Bool.false_eq_true, if_false]
      rw [e]
      have := GenC07b.fill_fold σ (⟨fm, [], [], [], [], none, [], [], UrlL.pIncl σ (SimpleURL.ofGen su) rt⟩ : Gen.Params) fm [] (by simpa using hnd)
      simpa [UrlL.fillDefault] using this
    have h11 : (params11.fields, params11.include_, params11.sortingRules) =
        (params10.fields, params10.include_, params10.sortingRules) := by
      refine GenC07b.foldl_keep _ (fun p : Gen.Params => (p.fields, p.include_, p.sortingRules)) ?_ _ _
      intro s a
      simp only []
      refine Eq.trans (GenC07b.foldl_keep _ (fun st : Gen.Params × Typ => (st.1.fields, st.1.include_, st.1.sortingRules)) ?h2 _ _) rfl
      rintro ⟨p, ty⟩ f1
      simp only []
      refine Eq.trans (GenC07b.foldl_keep _ (fun st : Gen.Params × Typ => (st.1.fields, st.1.include_, st.1.sortingRules)) ?h3 _ _) rfl
      rintro ⟨p, ty⟩ f2
      simp only []
      repeat' split
      all_goals rfl
    obtain ⟨h11f, h11i, h11s⟩ : params11.fields = UrlL.fillDefault σ fm ∧
        params11.include_ = UrlL.pIncl σ (SimpleURL.ofGen su) rt ∧ params11.sortingRules = [] := by
      have := h11
      rw [h10] at this
      simp only [Prod.mk.injEq] at this
      exact this
    clear_value params11
    clear h10 h11 params10
    extract_lets -underBinder +onlyGivenNames params12 params13 isCol0 isColT relName typC relC isColR isColE isCol
    have hcol : isCol = UrlL.pIsCol σ (SimpleURL.ofGen su) := by
      show (if decide ((su.fragments.length : Int) = 1) = true then true else
        if decide ((3 : Int) ≤ (su.fragments.length : Int)) = true then
          !((GoMap.get? (Gen.Schema_GetType σ (su.fragments.getD 0 [])).rels (su.fragments.getD (su.fragments.length - 1) [])).getD
            { fromType := [], fromName := [], toOne := false, toType := [], toName := [], fromOne := false }).toOne
        else false) = _
      unfold UrlL.pIsCol
      rw [Gen_Schema_GetType_eq, GenC07b.getD_length_sub_one]
      have hfr : (SimpleURL.ofGen su).fragments = su.fragments := rfl
      rw [hfr]
      have h0 : su.fragments.getD 0 [] = su.fragments.head?.getD [] := by cases su.fragments <;> rfl
      rw [h0]
      by_cases h1 : su.fragments.length = 1
      · have : decide ((su.fragments.length : Int) = 1) = true := by simp [h1]
        simp [h1]
      · have h1' : decide ((su.fragments.length : Int) = 1) = false := by
          simp only [decide_eq_false_iff_not]; omega
        by_cases h3 : su.fragments.length ≥ 3
        · have h3' : decide ((3 : Int) ≤ (su.fragments.length : Int)) = true := by
            simp only [decide_eq_true_eq]; omega
          simp only [h1, h1', h3, h3', if_true, if_false, Bool.false_eq_true]
          cases (σ.getType (su.fragments.head?.getD [])).rels.get? (su.fragments.getLast?.getD []) <;> rfl
        · have h3' : decide ((3 : Int) ≤ (su.fragments.length : Int)) = false := by
            simp only [decide_eq_false_iff_not]; omega
          simp only [h1, h1', h3, h3', if_false, Bool.false_eq_true]
    clear_value isCol
    subst hcol
    clear isColE isColR relC typC relName isColT isCol0
    by_cases hc : UrlL.pIsCol σ (SimpleURL.ofGen su) = true
    · rw [if_pos hc]
      extract_lets -underBinder +onlyGivenNames typS sr0 idf0
      generalize hS1 : List.foldl _ (idf0, sr0, none) su.sortingRules = st1
      obtain ⟨idf, sr, ret1⟩ := st1
      split
      rename_i idf' sr' ret1' heq
      cases heq
      rw [GenC07b.foldl_ext _ (GenC07b.rule1Step (σ.getType rt) ((none : Option Gen.Params), (Res.panic : Res Unit))) ?s1] at hS1
      case s1 =>
        rintro ⟨a, b, c⟩ rule
        show _ = GenC07b.rule1Step (Gen.Schema_GetType σ rt) _ _ _
        set_option smartUnfolding false in rfl
      rw [GenC07b.rule1_fold _ _ _ _ _ hsr] at hS1
      have hidf : idf = su.sortingRules.any (fun rule => decide (Spec.stripDash rule = idName)) := by
        have := (Prod.mk.inj hS1).1; simpa [idf0] using this.symm
      have hsr1 : sr = Spec.validRules σ rt su.sortingRules := by
        have := (Prod.mk.inj (Prod.mk.inj hS1).2).1; simpa [sr0, Spec.validRules] using this.symm
      have hret1 : ret1 = none := (Prod.mk.inj (Prod.mk.inj hS1).2).2.symm
      clear hS1
      subst hret1
      split
      · rename_i r heq; cases heq
      extract_lets -underBinder
      generalize hS2 : List.foldl _ (sr0, none) typS.attrs = st2
      obtain ⟨rest, ret2⟩ := st2
      split
      rename_i rest' ret2' heq
      cases heq
      rw [GenC07b.foldl_ext _ (GenC07b.rule2Step sr ((none : Option Gen.Params), (Res.panic : Res Unit))) ?s2] at hS2
      case s2 =>
        rintro ⟨a, b⟩ e
        set_option smartUnfolding false in rfl
      have hsr2 : ∀ r ∈ sr, r ≠ [] := by
        intro r hr
        rw [hsr1, Spec.validRules] at hr
        exact hsr r (List.mem_filter.1 hr).1
      rw [GenC07b.rule2_fold sr _ hsr2] at hS2
      have hrest : rest = (UrlL.attrNames σ rt).filter (fun a => !sr.any (fun rule => decide (Spec.stripDash rule = a))) := by
        have := (Prod.mk.inj hS2).1; simpa [sr0, typS, UrlL.attrNames, Gen_Schema_GetType_eq] using this.symm
      have hret2 : ret2 = none := (Prod.mk.inj hS2).2.symm
      clear hS2
      subst hret2
      split
      · rename_i r heq; cases heq
      have hr : UrlL.pRules σ (SimpleURL.ofGen su) rt =
          sr ++ Typ.sortStrings rest ++ (if (!idf) = true then [[105, 100]] else []) := by
        unfold UrlL.pRules
        rw [if_pos hc, hsr1, hrest, hidf, hsr1]
        have hs : (SimpleURL.ofGen su).sortingRules = su.sortingRules := rfl
        rw [hs]
        cases su.sortingRules.any (fun rule => decide (Spec.stripDash rule = idName)) <;> rfl
      refine ⟨_, rfl, ?_⟩
      rw [hr]
      unfold Params.ofGen
      simp only [params13, params12, h11f, h11i]
      cases idf <;> simp [SimpleURL.ofGen]
    · have hc' : UrlL.pIsCol σ (SimpleURL.ofGen su) = false := by simpa using hc
      rw [if_neg hc]
      have hr : UrlL.pRules σ (SimpleURL.ofGen su) rt = [] := by unfold UrlL.pRules; rw [hc']; rfl
      refine ⟨_, rfl, ?_⟩
      rw [hr]
      unfold Params.ofGen
      simp only [params13, params12, h11f, h11i, h11s]
      rfl

/-- a schema with the one type `a` (no attribute, no relationship) -/
def GenC07b.exSchema : Schema := { types := [{ name := [97], attrs := [], rels := [] }] }

/-- the collection URL `/a` with `SortingRules = [""]` -/
def GenC07b.exEmptyRule : Gen.SimpleURL :=
  { fragments := [[97]], route := [], fields := [], filterLabel := [], filter := none,
    sortingRules := [[]], page := [], include_ := [] }

/-- Where the code and the model differ: an empty sorting rule. `NewParams` reads `urule[0]` and
panics; the model drops the rule and succeeds. The translation is faithful to the code. -/
theorem Gen_NewParams_differs_on_empty_rule :
    (Gen.NewParams GenC07b.exSchema GenC07b.exEmptyRule [97]).2 = Res.panic ∧
    newParams GenC07b.exSchema (SimpleURL.ofGen GenC07b.exEmptyRule) [97] ≠ Res.panic := by
  refine ⟨by decide, UrlL.newParams_no_panic _ _ _⟩

theorem newURL_tail (x : Option Gen.Params × Res Unit) (m : Res Params)
    (fr : List GoString) (route : GoString) (isCol : Bool) (resType resID relKind : GoString) (rel : Rel)
    (btf : Gen.BelongsToFilter) :
    PtrPairIs Params.ofGen x m → PtrPairIs URL.ofGen
      (if x.2 = Res.ok () then
        (some ({ fragments := fr, route := route, isCol := isCol, resType := resType, resID := resID,
                 relKind := relKind, rel := rel, belongsToFilter := btf, params := x.1 } : Gen.URL), Res.ok ())
       else (none, x.2))
      (match m with
        | .ok p => .ok { fragments := fr, isCol := isCol, resType := resType, resID := resID, rel := rel, params := p }
        | .err => .err
        | .panic => .panic) := by
  intro h
  cases m with
  | ok p =>
    obtain ⟨a, ha, hp⟩ := h
    rw [ha]
    refine ⟨_, rfl, ?_⟩
    rw [← hp]; rfl
  | err => rw [show x = (none, Res.err) from h]; rfl
  | panic => rw [show x = (none, Res.panic) from h]; rfl

/-- url.go `NewURL` -/
theorem Gen_NewURL_eq (σ : Schema) (su : Gen.SimpleURL) (hsr : ∀ r ∈ su.sortingRules, r ≠ []) :
    PtrPairIs URL.ofGen (Gen.NewURL σ su) (newURL σ (SimpleURL.ofGen su)) := by
  have hnp : ∀ rt, PtrPairIs Params.ofGen (Gen.NewParams σ su rt) (newParams σ (SimpleURL.ofGen su) rt) :=
    fun rt => Gen_NewParams_eq σ su rt hsr
  clear hsr
  obtain ⟨fr, route, fields, fl, filt, sr, page, inc⟩ := su
  rcases fr with _ | ⟨f0, _ | ⟨f1, _ | ⟨f2, rest⟩⟩⟩
  · simp [Gen.NewURL, newURL, SimpleURL.ofGen, PtrPairIs]
  · by_cases hn : (σ.getType f0).name = []
    · simp [Gen.NewURL, newURL, SimpleURL.ofGen, Gen_Schema_GetType_eq, hn, PtrPairIs]
    · simp [Gen.NewURL, newURL, SimpleURL.ofGen, Gen_Schema_GetType_eq, hn]
      exact newURL_tail _ _ _ _ _ _ _ _ _ _ (hnp _)
  · by_cases hn : (σ.getType f0).name = []
    · simp [Gen.NewURL, newURL, SimpleURL.ofGen, Gen_Schema_GetType_eq, hn, PtrPairIs]
    · simp [Gen.NewURL, newURL, SimpleURL.ofGen, Gen_Schema_GetType_eq, hn]
      exact newURL_tail _ _ _ _ _ _ _ _ _ _ (hnp _)
  · rcases rest with _ | ⟨f3, _ | ⟨f4, rest⟩⟩
    · by_cases hn : (σ.getType f0).name = []
      · simp [Gen.NewURL, newURL, SimpleURL.ofGen, Gen_Schema_GetType_eq, hn, PtrPairIs]
      · cases hr : (σ.getType f0).rels.get? f2 with
        | none => simp [Gen.NewURL, newURL, SimpleURL.ofGen, Gen_Schema_GetType_eq, hn, hr, PtrPairIs]
        | some rel =>
          by_cases ht : σ.hasType rel.toType = true
          · simp [Gen.NewURL, newURL, SimpleURL.ofGen, Gen_Schema_GetType_eq, Gen_Schema_HasType_eq, hn, hr, ht]
            exact newURL_tail _ _ _ _ _ _ _ _ _ _ (hnp _)
          · simp [Gen.NewURL, newURL, SimpleURL.ofGen, Gen_Schema_GetType_eq, Gen_Schema_HasType_eq, hn, hr, ht, PtrPairIs]
    · by_cases hn : (σ.getType f0).name = []
      · simp [Gen.NewURL, newURL, SimpleURL.ofGen, Gen_Schema_GetType_eq, hn, PtrPairIs]
      · cases hr : (σ.getType f0).rels.get? f3 with
        | none => simp [Gen.NewURL, newURL, SimpleURL.ofGen, Gen_Schema_GetType_eq, hn, hr, PtrPairIs]
        | some rel =>
          by_cases ht : σ.hasType rel.toType = true
          · simp [Gen.NewURL, newURL, SimpleURL.ofGen, Gen_Schema_GetType_eq, Gen_Schema_HasType_eq, hn, hr, ht]
            exact newURL_tail _ _ _ _ _ _ _ _ _ _ (hnp _)
          · simp [Gen.NewURL, newURL, SimpleURL.ofGen, Gen_Schema_GetType_eq, Gen_Schema_HasType_eq, hn, hr, ht, PtrPairIs]
    · obtain ⟨last, hl⟩ : ∃ last, (f0 :: f1 :: f2 :: f3 :: f4 :: rest).getLast?.getD [] = last := ⟨_, rfl⟩
      have e := (GenC07b.getD_length_sub_one (f0 :: f1 :: f2 :: f3 :: f4 :: rest)).trans hl
      simp at e hl
      have h1 : ¬ ((rest.length : Int) + 1 + 1 + 1 + 1 + 1 < 1) := by omega
      have h3 : (3 : Int) ≤ (rest.length : Int) + 1 + 1 + 1 + 1 + 1 := by omega
      have h4 : ¬ ((rest.length : Int) + 1 + 1 + 1 + 1 + 1 = 3) := by omega
      have h5 : ¬ ((rest.length : Int) + 1 + 1 + 1 + 1 + 1 = 4) := by omega
      have h6 : ¬ ((rest.length : Int) + 1 + 1 + 1 + 1 + 1 = 1) := by omega
      have h7 : ¬ ((rest.length : Int) + 1 + 1 + 1 + 1 + 1 = 2) := by omega
      have h8 : (1 : Int) ≤ (rest.length : Int) + 1 + 1 + 1 + 1 + 1 := by omega
      by_cases hn : (σ.getType f0).name = []
      · simp [Gen.NewURL, newURL, SimpleURL.ofGen, Gen_Schema_GetType_eq, hn, PtrPairIs, h1]
      · cases hr : (σ.getType f0).rels.get? last with
        | none => simp [Gen.NewURL, newURL, SimpleURL.ofGen, Gen_Schema_GetType_eq, hn, e, hl, hr, PtrPairIs, h3, h6, h7, h8]
        | some rel =>
          by_cases ht : σ.hasType rel.toType = true
          · simp [Gen.NewURL, newURL, SimpleURL.ofGen, Gen_Schema_GetType_eq, Gen_Schema_HasType_eq, hn, e, hl, hr, ht, h3, h4, h5, h6, h7, h8]
            exact newURL_tail _ _ _ _ _ _ _ _ _ _ (hnp _)
          · simp [Gen.NewURL, newURL, SimpleURL.ofGen, Gen_Schema_GetType_eq, Gen_Schema_HasType_eq, hn, e, hl, hr, ht, PtrPairIs, h3, h6, h7, h8]
/-- `fd` (what the model takes as the decoded filter parameter) is what the two delegated
`json.Unmarshal` calls of `NewSimpleURL` produce on the filter value `v`: `unm0` decodes
`"\"" + v + "\""` into the (still empty) `FilterLabel`, `unm1` decodes `v` into a fresh `&Filter{}`. -/
def FilterDecIs (unm0 : GoString → GoString → GoString × Res Unit)
    (unm1 : GoString → Option GoString → Option GoString × Res Unit) (v : GoString) (fd : FilterDec) : Prop :=
  (match fd.label with
    | some l => unm0 ([34] ++ v ++ [34]) [] = (l, .ok ())
    | none => (unm0 ([34] ++ v ++ [34]) []).2 ≠ .ok ()) ∧
  (match fd.filter with
    | some f => unm1 v (some []) = (some f, .ok ())
    | none => (unm1 v (some [])).2 ≠ .ok ())

theorem Gen_NewSimpleURL_eq (q : Gen.url_URL → GoMap (List GoString))
    (unm0 : GoString → GoString → GoString × Res Unit)
    (unm1 : GoString → Option GoString → Option GoString × Res Unit)
    (u : Gen.url_URL) (fd : FilterDec)
    (hkeys : (GoMap.keys (q u)).Nodup)
    (hfd : FilterDecIs unm0 unm1 (firstVal ((GoMap.get? (q u) sFilter).getD [])) fd) :
    ValPairIs SimpleURL.ofGen (Gen.NewSimpleURL (some u) q unm0 unm1) (newSimpleURL u.path (q u) fd) := by
  unfold Gen.NewSimpleURL newSimpleURL
  simp only []
  generalize hX : List.foldl _ (_, none) (q u) = X
  refine GenC07b.fold_final SimpleURL.ofGen _ (fun su p => simpleStep fd su p.1 p.2) _ (fun _ _ => rfl) (fun _ => rfl)
    (fun l s => (∀ p ∈ l, GoMap.get? (q u) p.1 = some p.2) ∧ (GoMap.keys l).Nodup ∧ (sFilter ∈ GoMap.keys l → s.filterLabel = []))
    ?step (q u) _ _ ?hI ?h0 X hX _ ?hnone ?hsome
  case hnone => intro h; rw [h]
  case hsome => intro r h; rw [h]
  case h0 => simp [SimpleURL.ofGen, Gen_parseFragments_eq]
  case hI => exact ⟨fun p hp => GenC07b.get?_of_mem_nodup _ _ _ hkeys hp, hkeys, fun _ => rfl⟩
  case step =>
    clear hX X
    rintro ⟨name, vs⟩ rest s t ⟨hget, hnd, hlab⟩ hR
    subst hR
    have hv : (q u).get? name = some vs := hget (name, vs) (List.mem_cons_self ..)
    have hrest : (∀ p ∈ rest, GoMap.get? (q u) p.1 = some p.2) ∧ (GoMap.keys rest).Nodup :=
      ⟨fun p hp => hget p (List.mem_cons_of_mem _ hp), (List.nodup_cons.1 hnd).2⟩
    have hname : sFilter ∈ GoMap.keys rest → name ≠ sFilter := by
      intro hm e; subst e; exact (List.nodup_cons.1 hnd).1 hm
    have k1 : ([102, 105, 101, 108, 100, 115, 91] : GoString) = sFieldsOpen := rfl
    have k2 : ([112, 97, 103, 101, 91] : GoString) = sPageOpen := rfl
    have k3 : ([102, 105, 108, 116, 101, 114] : GoString) = sFilter := rfl
    have k4 : ([115, 111, 114, 116] : GoString) = sSort := rfl
    have k5 : ([105, 110, 99, 108, 117, 100, 101] : GoString) = sInclude := rfl
    have i8 : decide ((8 : Int) < (name.length : Int)) = decide (name.length > 8) := GenC07b.int_lt_length 8 name
    have i6 : decide ((6 : Int) < (name.length : Int)) = decide (name.length > 6) := GenC07b.int_lt_length 6 name
    simp only [hv, Option.getD_some, k1, k2, k3, k4, k5, GenC07b.isSuffixOf_singleton, i8, i6, GenC07b.take_drop_dropLast,
      Gen_parseCommaList_eq]
    unfold simpleStep
    by_cases c1 : (hasPrefix name sFieldsOpen && name.getLast? = some 93 && name.length > 8) = true
    · simp only [c1, if_true]
      refine ⟨_, rfl, rfl, hrest.1, hrest.2, fun hm => hlab (List.mem_cons_of_mem _ hm)⟩
    · simp only [c1]
      by_cases c2 : (hasPrefix name sPageOpen && name.getLast? = some 93 && name.length > 6) = true
      · simp only [c2, if_true, Bool.false_eq_true, if_false]
        have hl' : sFilter ∈ keys rest → s.filterLabel = [] := fun hm => hlab (List.mem_cons_of_mem _ hm)
        by_cases hv0 : firstVal vs = []
        · simp only [hv0, if_true, List.length_nil]
          exact ⟨s, by simp, rfl, hrest.1, hrest.2, hl'⟩
        · have hpos : decide ((0 : Int) < ((firstVal vs).length : Int)) = true := by
            cases h : firstVal vs with
            | nil => exact absurd h hv0
            | cons a t => simp only [List.length_cons, decide_eq_true_eq]; omega
          simp only [hv0, if_false, hpos, if_true]
          cases hp : parseInt 64 (firstVal vs) with
          | none =>
            have e : decide ((Res.err : Res Unit) ≠ Res.ok ()) = true := by decide
            simp only [Option.isSome_none, Bool.false_eq_true, if_false, e, if_true]
            exact ⟨_, rfl, rfl, hrest.1, hrest.2, hl'⟩
          | some n =>
            have e : decide ((Res.ok () : Res Unit) ≠ Res.ok ()) = false := by decide
            simp only [Option.isSome_some, if_true, e, Bool.false_eq_true, if_false, Option.getD_some]
            exact ⟨_, rfl, rfl, hrest.1, hrest.2, hl'⟩
      · simp only [c2, Bool.false_eq_true, if_false]
        have hl' : sFilter ∈ keys rest → s.filterLabel = [] := fun hm => hlab (List.mem_cons_of_mem _ hm)
        by_cases c3 : name = sFilter
        · subst c3
          have hl0 : s.filterLabel = [] := hlab (List.mem_cons_self ..)
          have hfv : firstVal (((q u).get? sFilter).getD []) = firstVal vs := by rw [hv]; rfl
          rw [hfv] at hfd
          obtain ⟨hfl, hff⟩ := hfd
          simp only [if_true, decide_true, hl0]
          by_cases hv0 : firstVal vs = []
          · simp only [hv0, if_true, decide_true]
            exact ⟨_, _, rfl, rfl, fun _ => trivial⟩
          · have hne : decide (firstVal vs = []) = false := by simp [hv0]
            have hhd : decide ((firstVal vs).getD 0 0 ≠ 123) = decide ((firstVal vs).head? ≠ some 123) := by
              cases h : firstVal vs with
              | nil => exact absurd h hv0
              | cons a t => simp
            simp only [hv0, if_false, hhd]
            by_cases hb : (firstVal vs).head? ≠ some 123
            · simp only [hb, if_true, decide_true, ne_eq, not_false_eq_true, decide_false, Bool.false_eq_true, if_false]
              cases hlb : fd.label with
              | some l =>
                simp only [hlb] at hfl
                have e : decide ((Res.ok () : Res Unit) ≠ Res.ok ()) = false := by decide
                simp only [hfl]
                refine ⟨_, rfl, rfl, hrest.1, hrest.2, fun hm => absurd rfl (hname hm)⟩
              | none =>
                simp only [hlb] at hfl
                have e : decide ((unm0 ([34] ++ firstVal vs ++ [34]) []).snd ≠ Res.ok ()) = true := decide_eq_true hfl
                simp only [e, if_true]
                exact ⟨_, _, rfl, rfl, fun _ => trivial⟩
            · have hb' : decide (¬ (firstVal vs).head? = some 123) = false := by simpa using hb
              simp only [hb, if_false, ne_eq, decide_false, Bool.false_eq_true]
              cases hlb : fd.filter with
              | some f =>
                simp only [hlb] at hff
                have e : decide ((Res.ok () : Res Unit) ≠ Res.ok ()) = false := by decide
                simp only [hff]
                refine ⟨_, rfl, by simp [SimpleURL.ofGen, hl0], hrest.1, hrest.2, fun hm => absurd rfl (hname hm)⟩
              | none =>
                simp only [hlb] at hff
                have e : decide ((unm1 (firstVal vs) (some [])).snd ≠ Res.ok ()) = true := decide_eq_true hff
                simp only [e, if_true]
                exact ⟨_, _, rfl, rfl, fun _ => trivial⟩
        · have c3' : decide (name = sFilter) = false := by simp [c3]
          simp only [c3, if_false]
          by_cases c4 : name = sSort
          · simp only [c4, if_true, decide_true, GenC07b.foldl_sorting]
            exact ⟨_, rfl, rfl, hrest.1, hrest.2, hl'⟩
          · have c4' : decide (name = sSort) = false := by simp [c4]
            simp only [c4, if_false]
            by_cases c5 : name = sInclude
            · simp only [c5, if_true, decide_true, GenC07b.foldl_include]
              exact ⟨_, rfl, rfl, hrest.1, hrest.2, hl'⟩
            · have c5' : decide (name = sInclude) = false := by simp [c5]
              simp only [c5, if_false]
              exact ⟨_, _, rfl, rfl, fun _ => trivial⟩

/-- a nil `*url.URL` is refused (the model starts from a parsed URL) -/
theorem Gen_NewSimpleURL_nil (q : Gen.url_URL → GoMap (List GoString))
    (unm0 : GoString → GoString → GoString × Res Unit)
    (unm1 : GoString → Option GoString → Option GoString × Res Unit) :
    (Gen.NewSimpleURL none q unm0 unm1).2 = Res.err := rfl

/-- what `NewSimpleURL` returns without error has no empty sorting rule (`parseCommaList` drops the
empty items): the hypothesis of `Gen_NewParams_eq` / `Gen_NewURL_eq` holds on its results -/
theorem Gen_NewSimpleURL_rules_nonempty (q : Gen.url_URL → GoMap (List GoString))
    (unm0 : GoString → GoString → GoString × Res Unit)
    (unm1 : GoString → Option GoString → Option GoString × Res Unit)
    (u : Gen.url_URL) (fd : FilterDec)
    (hkeys : (GoMap.keys (q u)).Nodup)
    (hfd : FilterDecIs unm0 unm1 (firstVal ((GoMap.get? (q u) sFilter).getD [])) fd)
    (hok : (Gen.NewSimpleURL (some u) q unm0 unm1).2 = Res.ok ()) :
    ∀ r ∈ (Gen.NewSimpleURL (some u) q unm0 unm1).1.sortingRules, r ≠ [] := by
  have h := Gen_NewSimpleURL_eq q unm0 unm1 u fd hkeys hfd
  cases hm : newSimpleURL u.path (q u) fd with
  | ok su =>
    rw [hm] at h
    obtain ⟨_, hv⟩ := h
    have hs := UrlL.newSimpleURL_sort hm
    have e : (Gen.NewSimpleURL (some u) q unm0 unm1).1.sortingRules = su.sortingRules := by rw [← hv]; rfl
    rw [e, hs]
    intro r hr
    unfold Spec.requestedRules at hr
    simp only [List.mem_flatMap] at hr
    obtain ⟨p, _, hp⟩ := hr
    split at hp
    · simp only [List.mem_flatMap] at hp
      obtain ⟨v, _, hv'⟩ := hp
      unfold parseCommaList at hv'
      have := (List.mem_filter.1 hv').2
      simpa using this
    · cases hp
  | err => rw [hm] at h; rw [show (Gen.NewSimpleURL (some u) q unm0 unm1).2 = Res.err from h] at hok; cases hok
  | panic => rw [hm] at h; rw [show (Gen.NewSimpleURL (some u) q unm0 unm1).2 = Res.panic from h] at hok; cases hok

end Jsonapi

section Axioms
open Jsonapi
#print axioms Gen_Type_Fields_eq
#print axioms Gen_NewParams_eq
#print axioms Gen_NewParams_differs_on_empty_rule
#print axioms Gen_NewURL_eq
#print axioms Gen_NewSimpleURL_eq
#print axioms Gen_NewSimpleURL_nil
#print axioms Gen_NewSimpleURL_rules_nonempty
end Axioms
