/-
C11R — C11 on the MODEL's own post-state.

`C11_repeat_*` (Props/C11.lean) compare the specification trees of hand-built post-states
(`sortedToMany`, `sortById`). Here the statements are about `marshalDocument` itself and the
document IT returns:

* `C11_model_post`, `C11_model_post_fixed` — for EVERY document: the returned document is
  `RepL.postDoc` (included list sorted by ID, every marshaled resource as `MarshalResource`
  leaves it: `RepL.postRes`), and a second marshal leaves that document exactly as it is
  (the in-place sorts have already happened);
* `C11_model_repeat` — on the domain of C02-C04 (`keyedWf` resources): if
  `marshalDocument d f s = .ok (t, d')` then `marshalDocument d' f s = .ok (t, d')`: the same
  tree again, the same document again; `C11_model_repeat_n` — hence the n-th repetition on
  the successive post-states returns `(t, d')` for every n;
* `C11_model_repeat_bytes` — the byte form through `Json.render` (the model of what
  `encoding/json` writes): every repetition returns byte-identical output;
  (off the domain - say a to-many relationship that shares its name with an attribute, which
  `Type.AddRel` refuses - the second marshal reads the sorted list as the attribute's value:
  the tree part needs the domain, the document part does not);
* `C11_model_perm` — `marshalDocument` returns the same tree for two documents whose to-many
  ID lists are permutations of each other and whose included lists are permutations (distinct
  IDs) of each other.

`f` is `url.Params.Fields` and `s` is `doc.PrePath + url.String()`, as in `marshalDocument`.
-/
import Jsonapi.Proofs.MarshalRepeatLemmas
import Jsonapi.Model.JsonText
namespace Jsonapi
open MarshalL DetL RepL

/-! ### the document a marshal leaves behind -/

/-- For EVERY document: the document `marshalDocument` returns is `postDoc d f`: nothing
changes but the order of the included list (sorted by ID) and, inside the resources that were
marshaled, the `vals` of `postRes` (to-many ID lists sorted). -/
theorem C11_model_post (d : Document) (f : GoMap (List GoString)) (s : GoString) (t : Json)
    (d' : Document) (h : marshalDocument d f s = .ok (t, d')) :
    d' = postDoc d f ∧ d'.links = d.links ∧ d'.relData = d.relData ∧ d'.dmeta = d.dmeta ∧
    d'.errors = d.errors ∧ d'.prePath = d.prePath ∧ d'.included.Perm
      (if noData d then d.included else d.included.map (postR d f)) := by
  have e := marshalDocument_post h
  subst e
  refine ⟨rfl, rfl, rfl, rfl, rfl, rfl, ?_⟩
  unfold postDoc
  simp only
  split
  · exact DetL.sortById_perm _
  · exact (DetL.sortById_perm _).map _

/-- For EVERY document (no domain): whatever a second marshal of the returned document
returns, it returns that document unchanged. -/
theorem C11_model_post_fixed (d : Document) (f : GoMap (List GoString)) (s : GoString) (t : Json)
    (d' : Document) (h : marshalDocument d f s = .ok (t, d'))
    (t'' : Json) (d'' : Document) (h' : marshalDocument d' f s = .ok (t'', d'')) : d'' = d' := by
  rw [marshalDocument_post h', marshalDocument_post h, postDoc_idem]

/-! ### marshaling again -/

/-- Marshaling is idempotent on its own post-state: on the domain of C02-C04, if
`marshalDocument d f s` returns the tree `t` and the document `d'`, then marshaling `d'` returns
`t` again and leaves `d'` as it is. -/
theorem C11_model_repeat (d : Document) (hdom : ∀ r ∈ docResources d, r.keyedWf)
    (f : GoMap (List GoString)) (s : GoString) (t : Json) (d' : Document)
    (h : marshalDocument d f s = .ok (t, d')) :
    marshalDocument d' f s = .ok (t, d') := by
  have e := marshalDocument_post h
  -- the first tree is the tree of the specification
  have ht : Spec.documentTree d f s = some t := by
    cases hs : Spec.documentTree d f s with
    | none => rw [(C04_document d hdom f s).1 hs] at h; cases h
    | some t0 =>
      obtain ⟨d0, h0⟩ := (C04_document d hdom f s).2 t0 hs
      rw [h0] at h
      simp only [Res.ok.injEq, Prod.mk.injEq] at h
      rw [h.1]
  -- and so is the second, of the document left behind
  have ht' : Spec.documentTree d' f s = some t := by
    rw [e, postDoc_tree hdom f f s]; exact ht
  have hdom' : ∀ r ∈ docResources d', r.keyedWf := by rw [e]; exact postDoc_dom hdom f
  obtain ⟨d'', h''⟩ := (C04_document d' hdom' f s).2 t ht'
  rw [h'', C11_model_post_fixed d f s t d' h t d'' h'']

/-- the domain is kept by marshaling -/
theorem C11_model_repeat_dom (d : Document) (hdom : ∀ r ∈ docResources d, r.keyedWf)
    (f : GoMap (List GoString)) (s : GoString) (t : Json) (d' : Document)
    (h : marshalDocument d f s = .ok (t, d')) : ∀ r ∈ docResources d', r.keyedWf := by
  rw [marshalDocument_post h]; exact postDoc_dom hdom f

/-- The result of the last of `n + 1` successive `MarshalDocument` calls on one document
value, each call seeing what the previous one left behind. -/
def marshalNth (f : GoMap (List GoString)) (s : GoString) : Nat → Document → Res (Json × Document)
  | 0, d => marshalDocument d f s
  | n + 1, d =>
    match marshalDocument d f s with
    | .ok (_, d') => marshalNth f s n d'
    | .err => .err
    | .panic => .panic

/-- By induction: every repetition returns the tree and the document of the first call. -/
theorem C11_model_repeat_n (d : Document) (hdom : ∀ r ∈ docResources d, r.keyedWf)
    (f : GoMap (List GoString)) (s : GoString) (t : Json) (d' : Document)
    (h : marshalDocument d f s = .ok (t, d')) (n : Nat) :
    marshalNth f s n d = .ok (t, d') := by
  induction n generalizing d with
  | zero => exact h
  | succ n ih =>
    unfold marshalNth
    rw [h]
    exact ih d' (C11_model_repeat_dom d hdom f s t d' h) (C11_model_repeat d hdom f s t d' h)

/-- the bytes a call returns: the rendering of the tree (`Json.render`, the model of what
`encoding/json` writes), `none` when the call fails -/
def marshalBytes (r : Res (Json × Document)) : Option GoString :=
  match r with
  | .ok (t, _) => some t.render
  | _ => none

/-- Byte-identical output: every repetition returns the bytes of the first call. (Equal
trees render to equal bytes; stated so that "byte-identical" is a theorem about the model.) -/
theorem C11_model_repeat_bytes (d : Document) (hdom : ∀ r ∈ docResources d, r.keyedWf)
    (f : GoMap (List GoString)) (s : GoString) (t : Json) (d' : Document)
    (h : marshalDocument d f s = .ok (t, d')) (n : Nat) :
    marshalBytes (marshalNth f s n d) = marshalBytes (marshalDocument d f s) ∧
    marshalBytes (marshalDocument d' f s) = marshalBytes (marshalDocument d f s) ∧
    marshalBytes (marshalDocument d f s) = some t.render := by
  rw [C11_model_repeat_n d hdom f s t d' h n, C11_model_repeat d hdom f s t d' h, h]
  exact ⟨rfl, rfl, rfl⟩

/-- the failing case repeats too: a document that does not marshal is left alone by the
model (it returns no document), so there is nothing to repeat on; on the domain the only
failure is data of an unknown Go type -/
theorem C11_model_repeat_err (d : Document) (hdom : ∀ r ∈ docResources d, r.keyedWf)
    (f : GoMap (List GoString)) (s : GoString) :
    (∃ t d', marshalDocument d f s = .ok (t, d')) ∨
    (marshalDocument d f s = .err ∧ isOther d.data = true ∧ d.errors.isEmpty = true) := by
  cases hs : Spec.documentTree d f s with
  | none =>
    refine .inr ⟨(C04_document d hdom f s).1 hs, ?_⟩
    rw [documentTree_eq] at hs
    split at hs
    · rename_i hc; simpa using hc
    · cases hs
  | some t0 =>
    obtain ⟨d0, h0⟩ := (C04_document d hdom f s).2 t0 hs
    exact .inl ⟨t0, d0, h0⟩

/-! ### permuted inputs -/

/-- the tree a call returns (`none` when it fails) -/
def marshalTreeOf (r : Res (Json × Document)) : Option Json :=
  match r with
  | .ok (t, _) => some t
  | _ => none

/-- The primary data of the second document is that of the first with the IDs of to-many
relationships listed in another order (`sameUpToToMany`: same type, ID, attribute and
relationship definitions, every value read alike except ID lists, which are permutations). -/
def dataPerm : DocData → DocData → Prop
  | .res r₁, .res r₂ => sameUpToToMany r₁ r₂
  | .col tn₁ ms₁, .col tn₂ ms₂ => tn₁ = tn₂ ∧ Forall2 sameUpToToMany ms₁ ms₂
  | .none, .none => True
  | .ident i₁ t₁, .ident i₂ t₂ => i₁ = i₂ ∧ t₁ = t₂
  | .idents b₁ l₁, .idents b₂ l₂ => b₁ = b₂ ∧ l₁ = l₂
  | .other, .other => True
  | _, _ => False

theorem forall2_map_eq {α β γ : Type} {R : α → β → Prop} {g : α → γ} {g' : β → γ}
    {l : List α} {l' : List β} (h : Forall2 R l l') (hg : ∀ a b, R a b → g a = g' b) :
    l.map g = l'.map g' := by
  induction h with
  | nil => rfl
  | cons hab _ ih => simp only [List.map_cons, hg _ _ hab, ih]

theorem forall2_isEmpty {α β : Type} {R : α → β → Prop} {l : List α} {l' : List β}
    (h : Forall2 R l l') : l.isEmpty = l'.isEmpty := by
  cases h <;> rfl

theorem forall2_ins {R : ResView → ResView → Prop} (hid : ∀ a b, R a b → a.id = b.id)
    {x x' : ResView} (hx : R x x') {l l' : List ResView} (h : Forall2 R l l') :
    Forall2 R (sortById.ins x l) (sortById.ins x' l') := by
  induction h with
  | nil => exact .cons hx .nil
  | cons hab hrest ih =>
    unfold sortById.ins
    rw [hid _ _ hab, hid _ _ hx]
    split
    · exact .cons hab ih
    · exact .cons hx (.cons hab hrest)

theorem forall2_sortById {R : ResView → ResView → Prop} (hid : ∀ a b, R a b → a.id = b.id)
    {l l' : List ResView} (h : Forall2 R l l') : Forall2 R (sortById l) (sortById l') := by
  induction h with
  | nil => exact .nil
  | cons hab _ ih =>
    rw [sortById_cons, sortById_cons]
    exact forall2_ins hid hab ih

theorem forall2_mem_right {α β : Type} {R : α → β → Prop} {l : List α} {l' : List β}
    (h : Forall2 R l l') : ∀ b ∈ l', ∃ a ∈ l, R a b := by
  induction h with
  | nil => intro b hb; cases hb
  | cons hab _ ih =>
    intro b hb
    rcases List.mem_cons.1 hb with e | hb'
    · subst e; exact ⟨_, List.mem_cons_self, hab⟩
    · obtain ⟨a, ha, hr⟩ := ih b hb'
      exact ⟨a, List.mem_cons_of_mem _ ha, hr⟩

theorem isOther_perm {a b : DocData} (h : dataPerm a b) : isOther a = isOther b := by
  cases a <;> cases b <;> simp only [dataPerm] at h <;> rfl

theorem dataMember_perm (d : Document) (data₂ : DocData) (inc inc₂ : List ResView)
    (f : GoMap (List GoString)) (hdata : dataPerm d.data data₂) :
    Spec.dataMember { d with included := inc } f =
      Spec.dataMember { d with data := data₂, included := inc₂ } f := by
  have hobj : ∀ a b : ResView, sameUpToToMany a b →
      Spec.resourceObject a d.prePath (Spec.selection f a.typeName) d.relData =
      Spec.resourceObject b d.prePath (Spec.selection f b.typeName) d.relData := by
    intro a b hab
    rw [hab.1]
    exact resourceObject_sameUpToToMany hab _ _ _ []
  unfold Spec.dataMember
  simp only []
  generalize d.data = x at hdata
  cases x <;> cases data₂ <;> simp only [dataPerm] at hdata
  · rfl
  · simp only [hobj _ _ hdata]
  · simp only [forall2_map_eq hdata.2 hobj]
  · rw [hdata.1, hdata.2]
  · rw [hdata.2]
  · rfl

/-- The marshaled tree depends only on content: `marshalDocument` returns the same tree (or
fails alike) for a document and for the document in which the IDs of to-many relationships are
listed in another order - in the primary resource or the members of the primary collection
(`dataPerm`) and in the included resources - and the included resources, of distinct IDs, are
listed in another order. Both documents in the domain of C02-C04. (Composition of
`C04_document` with `C11_perm_included` and the to-many invariance of the specification.) -/
theorem C11_model_perm (d : Document) (data₂ : DocData) (inc inc₂ : List ResView)
    (hdom : ∀ r ∈ docResources d, r.keyedWf)
    (hdom₂ : ∀ r ∈ docResources { d with data := data₂, included := inc₂ }, r.keyedWf)
    (hdata : dataPerm d.data data₂)
    (hp : d.included.Perm inc) (hnd : (d.included.map (·.id)).Nodup)
    (hinc : Forall2 sameUpToToMany inc inc₂)
    (f : GoMap (List GoString)) (s : GoString) :
    marshalTreeOf (marshalDocument d f s) =
      marshalTreeOf (marshalDocument { d with data := data₂, included := inc₂ } f s) := by
  -- both calls return the tree of the specification
  have htree : ∀ (x : Document), (∀ r ∈ docResources x, r.keyedWf) →
      marshalTreeOf (marshalDocument x f s) = Spec.documentTree x f s := by
    intro x hx
    cases hs : Spec.documentTree x f s with
    | none => rw [(C04_document x hx f s).1 hs]; rfl
    | some t0 =>
      obtain ⟨d0, h0⟩ := (C04_document x hx f s).2 t0 hs
      rw [h0]; rfl
  rw [htree d hdom, htree _ hdom₂, C11_perm_included d inc f s hp hnd]
  have hobj : ∀ a b : ResView, sameUpToToMany a b →
      Spec.resourceObject a d.prePath (Spec.selection f a.typeName) d.relData =
      Spec.resourceObject b d.prePath (Spec.selection f b.typeName) d.relData := by
    intro a b hab
    rw [hab.1]
    exact resourceObject_sameUpToToMany hab _ _ _ []
  apply documentTree_congr s
  · exact isOther_perm hdata
  · rfl
  · rfl
  · exact dataMember_perm d data₂ inc inc₂ f hdata
  · exact forall2_isEmpty hinc
  · unfold incMembers
    exact forall2_map_eq (forall2_sortById (fun a b hab => hab.2.1) hinc) hobj
  · rfl

/-! ### non-vacuity -/

/-- a document of the domain: the primary resource is C04's sample (an attribute, an empty
to-one and an UNSORTED to-many relationship `m = ["2", "1"]`), included twice under other IDs,
listed in descending ID order -/
def c11r_inc (id : GoString) : ResView := { c04_sample with id := id }
def c11r_doc : Document :=
  { data := .res c04_sample, included := [c11r_inc [57], c11r_inc [53]],
    relData := [([97], [[109]])] }

example : ∀ r ∈ docResources c11r_doc, r.keyedWf := by decide

/-- the second document: to-many IDs reversed in the primary resource, included list reversed -/
def c11r_sample₂ : ResView :=
  { c04_sample with vals := [([116], .val .string (.s [120])), ([111], .val .string (.s [])),
                             ([109], .strs [[49], [50]])] }

def c11r_doc₂ : Document :=
  { c11r_doc with data := .res c11r_sample₂, included := [c11r_inc [53], c11r_inc [57]] }

example : ∀ r ∈ docResources c11r_doc₂, r.keyedWf := by decide

example : (c11r_doc.included.map (·.id)).Nodup := by decide

example : c11r_doc.included.Perm [c11r_inc [53], c11r_inc [57]] := List.Perm.swap _ _ _

/-- `dataPerm` and the relation between the included lists hold: the only value that differs
is the ID list of the to-many relationship "m", which is no attribute -/
theorem c11r_same : sameUpToToMany c04_sample c11r_sample₂ := by
  refine ⟨rfl, rfl, rfl, rfl, fun k => ?_⟩
  by_cases hk : k = [109]
  · subst hk
    exact .inr ⟨by decide, [[50], [49]], [[49], [50]], rfl, rfl, by decide⟩
  · refine .inl ?_
    simp only [ResView.get, c04_sample, c11r_sample₂, GoMap.get?]
    have : ¬ ([109] : GoString) = k := fun e => hk e.symm
    simp [this]

example : dataPerm c11r_doc.data c11r_doc₂.data := c11r_same

/-- `C11_model_perm` applied: all its hypotheses hold for the two sample documents -/
example : marshalTreeOf (marshalDocument c11r_doc [] [47]) =
    marshalTreeOf (marshalDocument c11r_doc₂ [] [47]) :=
  C11_model_perm c11r_doc (.res c11r_sample₂) [c11r_inc [53], c11r_inc [57]]
    [c11r_inc [53], c11r_inc [57]] (by decide) (by decide) c11r_same (List.Perm.swap _ _ _)
    (by decide)
    (.cons ⟨rfl, rfl, rfl, rfl, fun _ => .inl rfl⟩ (.cons ⟨rfl, rfl, rfl, rfl, fun _ => .inl rfl⟩ .nil))
    [] [47]

/-- the repeat theorem applied: the sample document marshals, and marshals again to the same
bytes -/
example : ∃ t d', marshalDocument c11r_doc [] [47] = .ok (t, d') ∧
    marshalDocument d' [] [47] = .ok (t, d') := by
  rcases C11_model_repeat_err c11r_doc (by decide) [] [47] with ⟨t, d', h⟩ | ⟨_, ho, _⟩
  · exact ⟨t, d', h, C11_model_repeat c11r_doc (by decide) [] [47] t d' h⟩
  · exact absurd ho (by decide)

end Jsonapi

section Axioms
open Jsonapi
#print axioms C11_model_post
#print axioms C11_model_post_fixed
#print axioms C11_model_repeat
#print axioms C11_model_repeat_dom
#print axioms C11_model_repeat_n
#print axioms C11_model_repeat_bytes
#print axioms C11_model_repeat_err
#print axioms C11_model_perm
end Axioms
