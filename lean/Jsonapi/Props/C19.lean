/-
C19 — a SoftCollection behaves as a plain ordered list of snapshots.

Definitions (operations, the model's step `colStep`, the list's step `Spec.Store.step`,
the domain `HistOk`, the abstraction relation `Abs`) are in Spec/Collection.lean;
helper lemmas in Proofs/CollectionLemmas.lean. Property theorems only here.

Domain: the collection's type is keyed (`TypKeyed`, implied by `TypWF`); resources
handed to `Add` have no field called "id" and hold, for each of their relationships, a
value of that relationship's own cardinality (`ViewWF`); `SetType`'s new type is keyed
and keeps the definition of the names it shares with the current type (`Compat`).
Reads (`Len`, `At`, `Resource`) do not change the model's state, so they are not part of
the histories: the corollaries hold in every reachable state.
-/
import Jsonapi.Proofs.CollectionLemmas
namespace Jsonapi
open Spec GoMap

/-! ### 1. Simulation -/

/-- One operation in the domain, from related states: the model returns normally (no
panic, no error) and the states are related again. -/
theorem C19_step (c : SColl) (σ : Spec.Store) (h : Abs c σ) (op : ColOp) (hop : op.ok σ.typ) :
    ∃ c', colStep c op = .ok c' ∧ Abs c' (σ.step op) :=
  h.step hop

/-- Any history in the domain, from related states. -/
theorem C19_refines_from (c : SColl) (σ : Spec.Store) (h : Abs c σ) (ops : List ColOp)
    (hok : HistOk σ ops) :
    ∃ c', colRun c ops = .ok c' ∧ Abs c' (σ.run ops) :=
  h.run hok

/-- The empty collection of a well-formed type is the empty list. -/
theorem C19_init (t0 : Typ) (h0 : TypWF t0) :
    Abs { typ := t0, col := [] } { typ := t0, rows := [] } :=
  ⟨rfl, h0.keyed, .nil⟩

/-- Every history in the domain, from the empty collection of a well-formed type: no
step panics (the run returns normally) and the collection is the plain list at the end. -/
theorem C19_refines (t0 : Typ) (h0 : TypWF t0) (ops : List ColOp)
    (hok : HistOk { typ := t0, rows := [] } ops) :
    ∃ c, colRun { typ := t0, col := [] } ops = .ok c ∧
      Abs c (Spec.Store.run { typ := t0, rows := [] } ops) :=
  C19_refines_from _ _ (C19_init t0 h0) ops hok

/-- The only way a step of the model does not return normally is `Add` panicking. -/
theorem C19_only_add_panics (c : SColl) (op : ColOp) (h : ∀ c', colStep c op ≠ .ok c') :
    ∃ r, op = .add r := by
  cases op with
  | add r => exact ⟨r, rfl⟩
  | remove id => exact absurd rfl (h _)
  | addAttr a => exact absurd rfl (h _)
  | addRel r => exact absurd rfl (h _)
  | setType t => exact absurd rfl (h _)

/-! ### 2. Reads -/

theorem C19_len (c : SColl) (σ : Spec.Store) (h : Abs c σ) : c.len = σ.rows.length :=
  h.rows.length_eq

/-- `At` is nil exactly outside the range; inside, it is the resource standing for the
row of that index: same ID, same value through `Get` for every name. -/
theorem C19_at (c : SColl) (σ : Spec.Store) (h : Abs c σ) (i : Int) :
    (c.at? i = none ↔ (i < 0 ∨ (σ.rows.length : Int) ≤ i)) ∧
    (0 ≤ i → i < (σ.rows.length : Int) →
      ∃ s row, c.at? i = some s ∧ σ.rows[i.toNat]? = some row ∧ s.id = row.id ∧
        ∀ f, s.get f = Spec.Row.get σ.typ row f) := by
  have hlen : c.col.length = σ.rows.length := h.rows.length_eq
  have hget := h.rows.getElem? i.toNat
  unfold SColl.at?
  rw [hlen]
  constructor
  · constructor
    · intro hn
      by_cases hr : 0 ≤ i ∧ i < (σ.rows.length : Int)
      · rw [if_pos hr] at hn
        have hlt : i.toNat < c.col.length := by omega
        rw [List.getElem?_eq_getElem hlt] at hn
        cases hn
      · omega
    · intro ho
      rw [if_neg (by omega)]
  · intro h0 h1
    rw [if_pos ⟨h0, h1⟩]
    have hlt1 : i.toNat < c.col.length := by omega
    have hlt2 : i.toNat < σ.rows.length := by omega
    rw [List.getElem?_eq_getElem hlt1, List.getElem?_eq_getElem hlt2] at hget
    rw [List.getElem?_eq_getElem hlt1, List.getElem?_eq_getElem hlt2]
    simp only [] at hget
    refine ⟨_, _, rfl, rfl, hget.id, ?_⟩
    intro f
    rw [← h.typ]
    exact hget.get f

/-- `Resource(id)` is the resource standing for the first row with that ID, nil when
there is none. -/
theorem C19_resource (c : SColl) (σ : Spec.Store) (h : Abs c σ) (id : GoString) :
    (match c.resource? id, σ.rows.find? (fun row => row.id = id) with
      | some s, some row => s.id = row.id ∧ ∀ f, s.get f = Spec.Row.get σ.typ row f
      | none, none => True
      | _, _ => False) ∧
    (c.resource? id = none ↔ ∀ row ∈ σ.rows, row.id ≠ id) := by
  have hf := h.rows.find? (p := fun m => decide (m.1 = id)) (q := fun row => decide (row.id = id))
    (fun _ _ hr => by simp only [hr.id])
  have key : match c.resource? id, σ.rows.find? (fun row => row.id = id) with
      | some s, some row => s.id = row.id ∧ ∀ f, s.get f = Spec.Row.get σ.typ row f
      | none, none => True
      | _, _ => False := by
    unfold SColl.resource?
    cases h1 : c.col.find? (fun m => decide (m.1 = id)) <;>
      cases h2 : σ.rows.find? (fun row => decide (row.id = id)) <;>
      rw [h1, h2] at hf <;> simp only [Option.map] <;> try exact hf
    exact ⟨hf.id, fun f => by rw [← h.typ]; exact hf.get f⟩
  refine ⟨key, ?_⟩
  have hnone : σ.rows.find? (fun row => decide (row.id = id)) = none ↔ ∀ row ∈ σ.rows, row.id ≠ id := by
    rw [List.find?_eq_none]; simp
  rw [← hnone]
  cases h1 : c.resource? id <;> cases h2 : σ.rows.find? (fun row => decide (row.id = id)) <;>
    rw [h1, h2] at key <;> simp at key ⊢

/-- Every stored resource exposes exactly the collection's current fields: its
attribute and relationship definitions are the collection's, it lists a value for each
of them and for nothing else, and `Get` on any other name (but "id") is nil. -/
theorem C19_fields (c : SColl) (σ : Spec.Store) (h : Abs c σ) (m : GoString × GoMap GoVal)
    (_hm : m ∈ c.col) :
    (c.soft m).view.attrs = c.typ.attrs ∧ (c.soft m).view.rels = c.typ.rels ∧
    (c.soft m).view.vals.keys = c.typ.attrs.keys ++ c.typ.rels.keys ∧
    (∀ f, isField c.typ f = true → (c.soft m).view.vals.get? f = some ((c.soft m).get f)) ∧
    (∀ f, f ≠ idName → isField c.typ f = false → (c.soft m).get f = .nil) := by
  refine ⟨rfl, rfl, ?_, ?_, ?_⟩
  · simp [Soft.view, SColl.soft, GoMap.keys, List.map_map, Function.comp_def]
  · intro f hf
    have hmem : f ∈ c.typ.attrs.keys ++ c.typ.rels.keys := List.mem_append.2 ((isField_iff _ _).1 hf)
    have : ∀ (l : List GoString) (g : GoString → GoVal), f ∈ l →
        GoMap.get? (l.map (fun k => (k, g k))) f = some (g f) := by
      intro l g hl
      induction l with
      | nil => cases hl
      | cons k l ih =>
        by_cases e : k = f
        · simp [GoMap.get?, e]
        · simp only [List.map_cons, GoMap.get?, e, if_false]
          exact ih (by rcases List.mem_cons.1 hl with e' | hl; exact absurd e'.symm e; exact hl)
    have e1 : (c.soft m).view.vals.get? f = some ((c.soft m).check.get f) :=
      this _ (fun k => (c.soft m).check.get k) hmem
    rw [e1]; congr 1
    show ({ typ := c.typ, id := m.1, data := Soft.checkData c.typ m.2 } : Soft).get f =
      ({ typ := c.typ, id := m.1, data := m.2 } : Soft).get f
    rw [Soft.get_eq h.keyed, Soft.get_eq h.keyed, Soft.checkData_get?_field h.keyed _ hf]
    simp [hf]
  · intro f hid hf
    unfold SColl.soft
    rw [Soft.get_eq h.keyed]
    simp [hid, hf]

/-! ### 3. Remove -/

/-- `Remove` deletes the first element with that ID and nothing else: the related
states stay related, and on the list (and likewise on the model's rows) the element
after the longest prefix without the ID is spliced out; nothing changes when no
element has the ID. -/
theorem C19_remove_first (c : SColl) (σ : Spec.Store) (h : Abs c σ) (id : GoString) :
    Abs (c.remove id) (σ.remove id) ∧ (σ.remove id).typ = σ.typ ∧
    (∀ pre x post, σ.rows = pre ++ x :: post → x.id = id → (∀ y ∈ pre, y.id ≠ id) →
      (σ.remove id).rows = pre ++ post) ∧
    ((∀ y ∈ σ.rows, y.id ≠ id) → (σ.remove id).rows = σ.rows) ∧
    (∀ pre x post, c.col = pre ++ x :: post → x.1 = id → (∀ y ∈ pre, y.1 ≠ id) →
      (c.remove id).col = pre ++ post) ∧
    ((∀ y ∈ c.col, y.1 ≠ id) → (c.remove id).col = c.col) := by
  refine ⟨h.remove id, rfl, ?_, ?_, ?_, ?_⟩
  · intro pre x post e hx hpre
    unfold Spec.Store.remove; simp only [e]
    exact Schema.eraseFirst_hit _ pre x post (by simp [hx]) (fun y hy => by simp [hpre y hy])
  · intro hno
    unfold Spec.Store.remove; simp only []
    exact Schema.eraseFirst_miss _ _ (fun y hy => by simp [hno y hy])
  · intro pre x post e hx hpre
    unfold SColl.remove; simp only [e]
    exact Schema.eraseFirst_hit _ pre x post (by simp [hx]) (fun y hy => by simp [hpre y hy])
  · intro hno
    unfold SColl.remove; simp only []
    exact Schema.eraseFirst_miss _ _ (fun y hy => by simp [hno y hy])

/-! ### 4. Fields added after a resource was stored -/

/-- After a successful `AddAttr` (of a name other than "id"), every stored resource
reads the attribute's zero value for it. -/
theorem C19_zero_for_later_attr (c : SColl) (σ : Spec.Store) (h : Abs c σ) (a : Attr)
    (hok : (c.addAttr a).2 = .ok ()) (hid : a.name ≠ idName) :
    ∀ m ∈ (c.addAttr a).1.col, ((c.addAttr a).1.soft m).get a.name = a.zero := by
  intro m hm
  have hc : (c.addAttr a).1 = { c with typ := (c.typ.addAttr a).1 } := rfl
  have hr : (c.addAttr a).2 = (c.typ.addAttr a).2 := rfl
  rw [hr] at hok
  rw [hc] at hm ⊢
  obtain ⟨row, _, hrow⟩ := h.rows.of_mem_left hm
  rcases Typ.addAttr_cases h.keyed a with ⟨_, e⟩ | ⟨hn, e⟩
  · exact absurd hok e
  · unfold SColl.soft
    simp only [e]
    rw [hrow.get_new_field (h.keyed.setAttr hn) hn (isField_setAttr a) hid, fieldZero_setAttr]

/-- After a successful `AddRel` (of a name other than "id"), every stored resource reads
the relationship's zero value (empty string / empty list) for it. -/
theorem C19_zero_for_later_rel (c : SColl) (σ : Spec.Store) (h : Abs c σ) (r : Rel)
    (hok : (c.addRel r).2 = .ok ()) (hid : r.fromName ≠ idName) :
    ∀ m ∈ (c.addRel r).1.col, ((c.addRel r).1.soft m).get r.fromName = r.zero := by
  intro m hm
  have hc : (c.addRel r).1 = { c with typ := (c.typ.addRel r).1 } := rfl
  have hr : (c.addRel r).2 = (c.typ.addRel r).2 := rfl
  rw [hr] at hok
  rw [hc] at hm ⊢
  obtain ⟨row, _, hrow⟩ := h.rows.of_mem_left hm
  rcases Typ.addRel_cases h.keyed r with ⟨_, e⟩ | ⟨hn, e⟩
  · exact absurd hok e
  · unfold SColl.soft
    simp only [e]
    rw [hrow.get_new_field (h.keyed.setRel hn) hn (isField_setRel r) hid, fieldZero_setRel r hn]

/-- The same on the list: a row stored before the field existed has no value for it. -/
theorem C19_zero_for_later_fields (c : SColl) (σ : Spec.Store) (h : Abs c σ) :
    (∀ a : Attr, (c.addAttr a).2 = .ok () → a.name ≠ idName →
      (∀ m ∈ (c.addAttr a).1.col, ((c.addAttr a).1.soft m).get a.name = a.zero) ∧
      (∀ row ∈ (σ.addAttr a).rows, Spec.Row.get (σ.addAttr a).typ row a.name = a.zero)) ∧
    (∀ r : Rel, (c.addRel r).2 = .ok () → r.fromName ≠ idName →
      (∀ m ∈ (c.addRel r).1.col, ((c.addRel r).1.soft m).get r.fromName = r.zero) ∧
      (∀ row ∈ (σ.addRel r).rows, Spec.Row.get (σ.addRel r).typ row r.fromName = r.zero)) := by
  constructor
  · intro a hok hid
    have hm := C19_zero_for_later_attr c σ h a hok hid
    refine ⟨hm, ?_⟩
    intro row hrow
    have habs := h.addAttr a
    obtain ⟨m, hmem, hr⟩ := habs.rows.of_mem_right hrow
    rw [← habs.typ, ← hr.get]
    exact hm m hmem
  · intro r hok hid
    have hm := C19_zero_for_later_rel c σ h r hok hid
    refine ⟨hm, ?_⟩
    intro row hrow
    have habs := h.addRel r
    obtain ⟨m, hmem, hr⟩ := habs.rows.of_mem_right hrow
    rw [← habs.typ, ← hr.get]
    exact hm m hmem

/-! ### 5. Snapshot -/

/-- `Add` is a function of what it reads from the resource at the time of the call —
its ID, its attribute and relationship definitions and its values; nothing of the
resource is kept, so later `Set` calls on it cannot reach the stored snapshot. -/
theorem C19_snapshot (c : SColl) (r r' : ResView) (hid : r.id = r'.id) (ha : r.attrs = r'.attrs)
    (hr : r.rels = r'.rels) (hv : r.vals = r'.vals) :
    colStep c (.add r) = colStep c (.add r') := by
  obtain ⟨n, i, a, l, v⟩ := r
  obtain ⟨n', i', a', l', v'⟩ := r'
  simp only [] at hid ha hr hv
  subst hid ha hr hv
  rfl

/-- Operations after an `Add` change a stored row only as the list says: `Add` of
another resource, `Remove` of another ID, `AddAttr` and `AddRel` leave the recorded
values of every other row alone. -/
theorem C19_rows_stable (σ : Spec.Store) (op : ColOp) (hop : ∀ t, op ≠ .setType t) :
    ∀ row ∈ (σ.step op).rows, row ∈ σ.rows ∨ ∃ r, op = .add r ∧ row.id = r.id := by
  intro row hrow
  cases op with
  | add r =>
    simp only [Spec.Store.step, Spec.Store.add, List.mem_append, List.mem_singleton] at hrow
    rcases hrow with h | h
    · exact .inl h
    · exact .inr ⟨r, rfl, by rw [h]⟩
  | remove id =>
    exact .inl ((Schema.eraseFirst_sub _ _).subset hrow)
  | addAttr a => exact .inl hrow
  | addRel r => exact .inl hrow
  | setType t => exact absurd rfl (hop t)


/-! ### Non-vacuity: a concrete history inside the domain -/

namespace C19Example

def attrA : Attr := { name := [97], ty := 1, nullable := false }     -- a: string
def attrB : Attr := { name := [98], ty := 2, nullable := false }     -- b: int
def attrC : Attr := { name := [99], ty := 12, nullable := false }    -- c: bool
def attrD : Attr := { name := [100], ty := 3, nullable := true }     -- d: *int8
def relR : Rel :=
  { fromType := [116], fromName := [114], toOne := true, toType := [117], toName := [], fromOne := false }

def t0 : Typ := { name := [116], attrs := [([97], attrA)], rels := [] }
/-- keeps a and c, drops b and r, brings d -/
def t1 : Typ := { name := [116], attrs := [([99], attrC), ([97], attrA), ([100], attrD)], rels := [] }

/-- ID "1", wider than `t0` (b and r are new), all values well typed. -/
def r1 : ResView :=
  { typeName := [116], id := [49], attrs := [([97], attrA), ([98], attrB)], rels := [([114], relR)],
    vals := [([97], .val .string (.s [120])), ([98], .val .int (.i 5)), ([114], .val .string (.s [50]))] }
/-- ID "1" again, narrower, with an ill-typed value for a. -/
def r2 : ResView :=
  { typeName := [116], id := [49], attrs := [([97], attrA)], rels := [],
    vals := [([97], .val .int (.i 3))] }
/-- ID "2". -/
def r3 : ResView :=
  { typeName := [116], id := [50], attrs := [([97], attrA)], rels := [],
    vals := [([97], .val .string (.s [121]))] }

def ops : List ColOp :=
  [.add r1, .add r2, .addAttr attrC, .add r3, .remove [49], .addRel relR, .setType t1]

def names : List GoString := [idName, [97], [98], [99], [100], [114], [122]]

/-- What a client can read: Len, At(-1) and At(Len) being nil, every name of every
At(i), every name of Resource("1"). -/
structure Reads where
  len : Nat
  atNeg : Bool
  atLen : Bool
  rows : List (List GoVal)
  res1 : Option (List GoVal)
deriving DecidableEq

def readModel (l : List ColOp) : Option Reads :=
  match colRun { typ := t0, col := [] } l with
  | .ok c =>
    some ⟨c.len, (c.at? (-1)).isNone, (c.at? (Int.ofNat c.len)).isNone,
      (List.range c.len).map (fun (i : Nat) =>
        match c.at? (Int.ofNat i) with
        | some s => names.map s.get
        | none => []),
      (c.resource? [49]).map (fun s => names.map s.get)⟩
  | _ => none

def readSpec (l : List ColOp) : Option Reads :=
  let σ := Spec.Store.run { typ := t0, rows := [] } l
  some ⟨σ.rows.length, true, true, σ.rows.map (fun row => names.map (Spec.Row.get σ.typ row)),
    (σ.rows.find? (fun row => row.id = [49])).map (fun row => names.map (Spec.Row.get σ.typ row))⟩

/-- The history is in the domain. -/
example : TypKeyed t0 ∧ HistOk { typ := t0, rows := [] } ops := by decide

/-- After the first four operations: three rows, the first holding r1's values, the
second (ill-typed a) and third the zero of the later fields b, c, r. -/
example : readModel (ops.take 4) =
    some ⟨3, true, true,
      [[.val .string (.s [49]), .val .string (.s [120]), .val .int (.i 5), .val .bool (.b false),
          .nil, .val .string (.s [50]), .nil],
       [.val .string (.s [49]), .val .string (.s []), .val .int (.i 0), .val .bool (.b false),
          .nil, .val .string (.s []), .nil],
       [.val .string (.s [50]), .val .string (.s [121]), .val .int (.i 0), .val .bool (.b false),
          .nil, .val .string (.s []), .nil]],
      some [.val .string (.s [49]), .val .string (.s [120]), .val .int (.i 5), .val .bool (.b false),
          .nil, .val .string (.s [50]), .nil]⟩ := by decide

/-- At the end: `Remove "1"` took the first of the two rows with ID "1" only, the failing
`AddRel` changed nothing, `SetType` dropped b and r and brought d. -/
example : readModel ops =
    some ⟨2, true, true,
      [[.val .string (.s [49]), .val .string (.s []), .nil, .val .bool (.b false),
          .ptr .int8 none, .nil, .nil],
       [.val .string (.s [50]), .val .string (.s [121]), .nil, .val .bool (.b false),
          .ptr .int8 none, .nil, .nil]],
      some [.val .string (.s [49]), .val .string (.s []), .nil, .val .bool (.b false),
          .ptr .int8 none, .nil, .nil]⟩ := by decide

/-- The plain list reads the same after every prefix of the history. -/
example : ∀ n ∈ List.range 8, readModel (ops.take n) = readSpec (ops.take n) := by decide

end C19Example

#print axioms C19_step
#print axioms C19_refines_from
#print axioms C19_init
#print axioms C19_refines
#print axioms C19_only_add_panics
#print axioms C19_len
#print axioms C19_at
#print axioms C19_resource
#print axioms C19_fields
#print axioms C19_remove_first
#print axioms C19_zero_for_later_attr
#print axioms C19_zero_for_later_rel
#print axioms C19_zero_for_later_fields
#print axioms C19_snapshot
#print axioms C19_rows_stable

end Jsonapi
