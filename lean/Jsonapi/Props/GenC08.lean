/-
T1b for C07/C08: the two list parsers of simple_url.go, translated from the source on this
run (`strings.Split` on a one-byte separator is the model's `splitOn`), are the model's:
split and drop the empty items, order kept.
-/
import Jsonapi.Generated.Funcs
import Jsonapi.Model.Url
namespace Jsonapi

private theorem foldl_keep_nonempty (l acc : List GoString) :
    l.foldl (fun acc x => if x = ([] : GoString) then acc else acc ++ [x]) acc =
      acc ++ l.filter (fun x => !decide (x = [])) := by
  induction l generalizing acc with
  | nil => simp
  | cons a t ih =>
    by_cases h : a = []
    · subst h; simpa using ih acc
    · simp only [List.foldl_cons, h, if_false, List.filter_cons, decide_false, Bool.not_false, if_true]
      rw [ih]; simp

/-- simple_url.go `parseCommaList` -/
theorem Gen_parseCommaList_eq (s : GoString) : Gen.parseCommaList s = parseCommaList s := by
  unfold Gen.parseCommaList parseCommaList
  simp [foldl_keep_nonempty]

/-- simple_url.go `parseFragments` -/
theorem Gen_parseFragments_eq (s : GoString) : Gen.parseFragments s = parseFragments s := by
  unfold Gen.parseFragments parseFragments
  simp [foldl_keep_nonempty]

end Jsonapi

section Axioms
open Jsonapi
#print axioms Gen_parseCommaList_eq
#print axioms Gen_parseFragments_eq
end Axioms
