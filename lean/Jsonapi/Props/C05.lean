/-
C05 — Unmarshaling never panics and what it returns conforms to the schema.

"For any byte string and any schema, unmarshaling a document, resource, partial resource,
collection, identifier or identifier list returns without panicking, with either an error
and no result or a result and no error. In a returned result every resource's type exists in
the schema, every attribute holds a value of exactly the Go type the schema declares (or nil
for a nullable one), to-one relationships hold a string and to-many relationships a string
slice."

The model (`Jsonapi/Model/Unmarshal.lean`) starts from the skeletons `encoding/json` decoded;
the theorems quantify over every skeleton, i.e. over every byte string and everything the
standard library may have decoded from it. "Error and no result or result and no error" is
the shape of `Res` (`ok r | err | panic`); the content of the theorems is `≠ .panic` and the
conformance of `r` in `.ok r`.

Definitions used in the statements (in `Jsonapi/Proofs/UnmarshalLemmas*.lean`):
* `SSchema.WF σ`: unique type names; every type has a non-empty name, is `TypWF`
  (key = name, names non-empty, kinds 1..14, targets non-empty, attribute and relationship
  names distinct), has field names other than "id" and "" (`Spec.namesOk`), and a struct-backed
  type is declarable (`Spec.structable`, as in C17);
* `UnmL.Conforms σ r` (unfolded in `C05_conforms`).
-/
import Jsonapi.Proofs.UnmarshalLemmas6
namespace Jsonapi
open GoMap UnmL

/-! ### 1. `Attr.UnmarshalToType` -/

/-- `strconv.ParseInt` / `ParseUint` results lie in the range of the width. -/
theorem C05_parse_range (bits : Nat) (s : GoString) :
    (∀ n, parseInt bits s = some n →
      -((2 ^ (bits - 1) : Nat) : Int) ≤ n ∧ n < ((2 ^ (bits - 1) : Nat) : Int)) ∧
    (∀ n, parseUint bits s = some n → n < 2 ^ bits) :=
  ⟨fun _ h => parseInt_range h, fun _ h => parseUint_lt h⟩

/-- Never a panic; a returned value has exactly the declared Go type, payload in the range
of the kind (for `null` on a nullable attribute: the typed nil pointer). For an attribute
whose kind code is invalid the only accepted input is `null` on a nullable attribute, with
untyped nil as the value. -/
theorem C05_toType_hasType (a : Attr) (raw : RawVal) :
    unmarshalToType a raw ≠ .panic ∧
    (∀ v, unmarshalToType a raw = .ok v →
      (∀ k, Kind.ofCode? a.ty = some k → v.hasAttrType k a.nullable = true) ∧
      (Kind.ofCode? a.ty = none → raw.bytes = sNull ∧ a.nullable = true ∧ v = .nil)) := by
  refine ⟨toType_no_panic a raw, fun v h => ⟨fun k hk => toType_hasAttrType a raw v k h hk, ?_⟩⟩
  intro hk
  by_cases hn : raw.bytes = sNull
  · rw [toType_null a raw hn] at h
    split at h
    · rename_i hnul; cases h; exact ⟨hn, hnul, by simp [Attr.zero, hk]⟩
    · cases h
  · rw [toType_badKind a raw hn hk] at h; cases h

/-! ### 2. No entry point panics -/

theorem C05_total (σ : SSchema) (hσ : σ.WF) :
    (∀ sk, unmarshalResource σ sk ≠ .panic) ∧
    (∀ sk, unmarshalPartialResource σ sk ≠ .panic) ∧
    (∀ l, unmarshalList σ l ≠ .panic) ∧
    (∀ sk, unmarshalDocument σ sk ≠ .panic) ∧
    (∀ d, unmarshalIdentifier (some σ) d ≠ .panic) ∧
    (∀ d, unmarshalIdentifiers (some σ) d ≠ .panic) :=
  ⟨fun sk => (resource_spec hσ sk).1, fun sk => (partial_spec hσ sk).1,
   fun l => unmarshalList_no_panic hσ l, fun sk => unmarshalDocument_no_panic hσ sk,
   fun d => unmarshalIdentifier_no_panic _ d, fun d => unmarshalIdentifiers_no_panic _ d⟩

/-- Identifiers need no schema at all to be total. -/
theorem C05_total_identifiers (σ : Option SSchema) :
    (∀ d, unmarshalIdentifier σ d ≠ .panic) ∧ (∀ d, unmarshalIdentifiers σ d ≠ .panic) :=
  ⟨fun d => unmarshalIdentifier_no_panic _ d, fun d => unmarshalIdentifiers_no_panic _ d⟩

/-- Which payloads are accepted (full and partial unmarshaling alike, see C13): the type
exists, every member of `attributes` names an attribute of the type and carries a value
`unmarshalToType` accepts, every member of `relationships` names a relationship of the type
and its data (if any) decodes into identifiers of the target type. -/
theorem C05_accept_iff (σ : SSchema) (hσ : σ.WF) (sk : ResSke) :
    (∃ r, unmarshalResource σ sk = .ok r) ↔
      ∃ st, σ.getType sk.typ = some st ∧
        (∀ p ∈ sk.attrs, ∃ a v, st.typ.attrs.get? p.1 = some a ∧ unmarshalToType a p.2 = .ok v) ∧
        (∀ p ∈ sk.rels, ∃ rel, st.typ.rels.get? p.1 = some rel ∧ (relValue rel p.2).2 = false) := by
  rw [resource_accept hσ sk]
  simp only [attrsOk_iff, relsOk_iff]

/-! ### 3. Returned results conform to the schema -/

theorem C05_conforms (σ : SSchema) (hσ : σ.WF) (sk : ResSke) (r : AnyRes)
    (h : unmarshalResource σ sk = .ok r) :
    ∃ st ∈ σ, ∃ v, r.view? = some v ∧ v.typeName = st.typ.name ∧
      (∀ key a, st.typ.attrs.get? key = some a → ∃ k, Kind.ofCode? a.ty = some k ∧
        ((v.get key).hasAttrType k a.nullable = true ∨ (a.nullable = true ∧ v.get key = .nil))) ∧
      (∀ key rel, st.typ.rels.get? key = some rel →
        if rel.toOne then ∃ id, v.get key = .val .string (.s id) else ∃ l, v.get key = .strs l) :=
  resource_conforms hσ h

/-- `UnmL.Conforms` is the conclusion of `C05_conforms`. -/
theorem C05_Conforms_def (σ : SSchema) (r : AnyRes) :
    Conforms σ r ↔
    ∃ st ∈ σ, ∃ v, r.view? = some v ∧ v.typeName = st.typ.name ∧
      (∀ key a, st.typ.attrs.get? key = some a → ∃ k, Kind.ofCode? a.ty = some k ∧
        ((v.get key).hasAttrType k a.nullable = true ∨ (a.nullable = true ∧ v.get key = .nil))) ∧
      (∀ key rel, st.typ.rels.get? key = some rel →
        if rel.toOne then ∃ id, v.get key = .val .string (.s id) else ∃ l, v.get key = .strs l) :=
  Iff.rfl

/-- The resource's type is the one the payload names. -/
theorem C05_type (σ : SSchema) (hσ : σ.WF) (sk : ResSke) (r : AnyRes)
    (h : unmarshalResource σ sk = .ok r) :
    σ.toSchema.hasType sk.typ = true ∧ ∃ v, r.view? = some v ∧ v.typeName = sk.typ := by
  obtain ⟨st, hg, _, _, _, inv⟩ := ((resource_spec hσ sk).2 r).1 h
  obtain ⟨hm, hname⟩ := getType_some hg
  obtain ⟨_, h2, h3, _⟩ := hσ.2 st hm
  obtain ⟨v, hv, e1, _⟩ := inv.view h2 h3
  refine ⟨?_, v, hv, e1.trans hname⟩
  rw [← getType_isSome_iff, hg]; rfl

/-- Collections: the results are those of the individual payloads, in order, and conform. -/
theorem C05_collection (σ : SSchema) (hσ : σ.WF) (l : List ResSke?) (rs : List AnyRes)
    (h : unmarshalList σ l = .ok rs) :
    Forall2 (fun x r => ∃ sk, x = some sk ∧ unmarshalResource σ sk = .ok r) l rs ∧
    ∀ r ∈ rs, Conforms σ r := by
  refine ⟨?_, unmarshalList_conforms hσ h⟩
  have := unmarshalList_ok h
  clear h
  induction this with
  | nil => exact .nil
  | @cons a b _ _ hab _ ih =>
    refine .cons ?_ ih
    cases a with
    | none => simp [unmarshalRes?] at hab
    | some sk => exact ⟨sk, rfl, hab⟩

/-- Documents: the primary data (one resource or a collection) and every included resource
conform. -/
theorem C05_document (σ : SSchema) (hσ : σ.WF) (sk : Option DocSke) (d : UDoc)
    (h : unmarshalDocument σ sk = .ok d) :
    (∀ r, d.data = .res r → Conforms σ r) ∧
    (∀ rs, d.data = .col rs → ∀ r ∈ rs, Conforms σ r) ∧
    (∀ r ∈ d.included, Conforms σ r) := by
  cases sk with
  | none => simp [unmarshalDocument] at h
  | some sk =>
    obtain ⟨hinc, _, hdata⟩ := unmarshalDocument_ok h
    refine ⟨?_, ?_, unmarshalList_conforms hσ hinc⟩
    · intro r hr
      cases hd : sk.data with
      | res x =>
        rw [hd] at hdata
        obtain ⟨r', hx, e, _⟩ := hdata
        rw [hr] at e; cases e
        cases x with
        | none => simp [unmarshalRes?] at hx
        | some rsk => exact resource_conforms hσ hx
      | col o =>
        rw [hd] at hdata
        cases o with
        | none => exact absurd hdata id
        | some l => obtain ⟨_, _, e, _⟩ := hdata; rw [hr] at e; cases e
      | null => rw [hd] at hdata; rw [hr] at hdata; cases hdata.1
      | other => rw [hd] at hdata; exact absurd hdata id
      | absent => rw [hd] at hdata; rw [hr] at hdata; cases hdata.1
    · intro rs hr
      cases hd : sk.data with
      | res x =>
        rw [hd] at hdata
        obtain ⟨r', _, e, _⟩ := hdata
        rw [hr] at e; cases e
      | col o =>
        rw [hd] at hdata
        cases o with
        | none => exact absurd hdata id
        | some l =>
          obtain ⟨rs', hx, e, _⟩ := hdata
          rw [hr] at e; cases e
          exact unmarshalList_conforms hσ hx
      | null => rw [hd] at hdata; rw [hr] at hdata; cases hdata.1
      | other => rw [hd] at hdata; exact absurd hdata id
      | absent => rw [hd] at hdata; rw [hr] at hdata; cases hdata.1

/-- Identifiers: what is returned is what was decoded, with non-empty ID and a type of the
schema. -/
theorem C05_identifiers (σ : SSchema) :
    (∀ d i, unmarshalIdentifier (some σ) d = .ok i →
      d = some i ∧ i.1 ≠ [] ∧ i.2 ≠ [] ∧ σ.toSchema.hasType i.2 = true) ∧
    (∀ l is, unmarshalIdentifiers (some σ) (some l) = .ok is →
      l = is.map some ∧ ∀ i ∈ is, i.1 ≠ [] ∧ i.2 ≠ [] ∧ σ.toSchema.hasType i.2 = true) :=
  ⟨fun _ _ h => unmarshalIdentifier_ok h, fun _ _ h => unmarshalIdentifiers_ok h⟩

/-! ### Non-vacuity -/

/-- Type "t": attribute "a" (int8, not nullable), to-one relationship "o" and to-many
relationship "m" to type "u". -/
def C05_exT : Typ :=
  { name := [116],
    attrs := [([97], { name := [97], ty := 3, nullable := false })],
    rels := [([111], { fromType := [116], fromName := [111], toOne := true, toType := [117], toName := [], fromOne := false }),
             ([109], { fromType := [116], fromName := [109], toOne := false, toType := [117], toName := [], fromOne := false })] }

/-- The same type under the name "w", struct-backed. -/
def C05_exW : Typ := { C05_exT with name := [119] }

def C05_exσ : SSchema := [{ typ := C05_exT, backed := false }, { typ := C05_exW, backed := true }]

/-- `{"id":"1","type":"t","attributes":{"a":-128},"relationships":{"o":{"data":{"id":"k","type":"u"}}}}` -/
def C05_exSk : ResSke :=
  { id := [49], typ := [116],
    attrs := [([97], { bytes := [45, 49, 50, 56], decStr := none, decTime := none, decBytes := none })],
    rels := [([111], { present := true, isNull := false, decIdent := some ([107], [117]), decIdents := none })],
    smeta := default }

theorem C05_exσ_wf : C05_exσ.WF := by
  refine ⟨by decide, ?_⟩
  intro st hst
  simp only [C05_exσ, List.mem_cons, List.not_mem_nil, or_false] at hst
  rcases hst with rfl | rfl
  · exact ⟨by decide, ⟨by decide, by decide, by decide, by decide, by decide⟩, by decide, by decide⟩
  · exact ⟨by decide, ⟨by decide, by decide, by decide, by decide, by decide⟩, by decide, by decide⟩

/-- The payload is accepted: a = int8(-128), o = "k", m = [] and id = "1"; with 128 instead
of -128 it is rejected. -/
example :
    (match unmarshalResource C05_exσ C05_exSk with
      | .ok (.soft s) => [s.get [97], s.get [111], s.get [109], s.get idName] ==
          [.val .int8 (.i (-128)), .val .string (.s [107]), .strs [], .val .string (.s [49])]
      | _ => false) = true ∧
    (unmarshalResource C05_exσ { C05_exSk with
      attrs := [([97], { bytes := [49, 50, 56], decStr := none, decTime := none, decBytes := none })] }).isOk
      = false := by decide

example := C05_total C05_exσ C05_exσ_wf

/-- The same payload for the struct-backed type "w" is accepted as well (through
the lemma behind `C05_accept_iff`; `Wrap`'s sorted struct declaration does not reduce under `decide`), and
the result conforms. -/
example : ∃ r, unmarshalResource C05_exσ { C05_exSk with typ := [119] } = .ok r ∧ Conforms C05_exσ r := by
  obtain ⟨r, hr⟩ := (resource_accept C05_exσ_wf { C05_exSk with typ := [119] }).2
    ⟨{ typ := C05_exW, backed := true }, rfl, by decide, by decide⟩
  exact ⟨r, hr, C05_conforms _ C05_exσ_wf _ r hr⟩

end Jsonapi

section Axioms
open Jsonapi
#print axioms C05_parse_range
#print axioms C05_toType_hasType
#print axioms C05_total
#print axioms C05_total_identifiers
#print axioms C05_accept_iff
#print axioms C05_conforms
#print axioms C05_Conforms_def
#print axioms C05_type
#print axioms C05_collection
#print axioms C05_document
#print axioms C05_identifiers
#print axioms C05_exσ_wf
end Axioms
