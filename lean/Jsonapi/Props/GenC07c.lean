/-
"Never panics" on the TRANSLATED code (C07, C08; work package W1).

`C07_total` is about the hand-written model, whose functions cannot panic by construction. The
translated functions can: `Gen.NewParams` reads `urule[0]` (`Gen_NewParams_differs_on_empty_rule`).
This file composes the three equivalence theorems of Props/GenC07b.lean along the chain
`url.Parse -> NewSimpleURL -> NewURL` exactly as `NewURLFromRaw` (url.go:91-103) chains them:

    url, err := url.Parse(rawurl);   if err != nil { return nil, err }
    su, err := NewSimpleURL(url);    if err != nil { return nil, err }
    return NewURL(schema, su)

`GenC07c.NewURLFromRaw` is that text over the translated `Gen.NewSimpleURL` / `Gen.NewURL`; the
result of `url.Parse` is its parameter `pu : Option Gen.url_URL × Res Unit` (any pair: pointer and
error), `(*url.URL).Query` and the two `json.Unmarshal` calls are the parameters `q`, `unm0`,
`unm1` of `Gen.NewSimpleURL`.

Hypotheses (those of `Gen_NewSimpleURL_eq`): the keys of the values map are distinct (it is a Go
map) and `fd` is what the two decoders give on the filter value (`FilterDecIs`).
`GenC07c.filterDecOf_is` shows that such an `fd` exists for EVERY pair of decoders that leaves a
non-nil `*Filter` non-nil when it succeeds (what `json.Unmarshal` does with a non-nil pointer), so
`Gen_NewURLFromRaw_no_panic_any_decoder` needs no `fd` at all.
-/
import Jsonapi.Props.GenC07b
import Jsonapi.Props.C07
namespace Jsonapi
open Schema GoMap UrlL

namespace GenC07c

/-- url.go:91 `NewURLFromRaw`, from the result `pu` of `url.Parse(rawurl)` on, over the translated
`NewSimpleURL` and `NewURL`. -/
def NewURLFromRaw (σ : Schema) (pu : Option Gen.url_URL × Res Unit)
    (q : Gen.url_URL → GoMap (List GoString))
    (unm0 : GoString → GoString → GoString × Res Unit)
    (unm1 : GoString → Option GoString → Option GoString × Res Unit) : Option Gen.URL × Res Unit :=
  if pu.2 ≠ Res.ok () then (none, pu.2)
  else
    let r := Gen.NewSimpleURL pu.1 q unm0 unm1
    if r.2 ≠ Res.ok () then (none, r.2)
    else Gen.NewURL σ r.1

/-- what the model takes for the same `url.Parse` result: the decoded path, the values and the
decoded filter of a non-nil URL returned without error -/
def parsedOf (pu : Option Gen.url_URL × Res Unit) (q : Gen.url_URL → GoMap (List GoString))
    (fd : FilterDec) : Option (GoString × GoMap (List GoString) × FilterDec) :=
  if pu.2 = Res.ok () then pu.1.map (fun u => (u.path, q u, fd)) else none

theorem ptrPair_no_panic {α β : Type} {f : α → β} {r : Option α × Res Unit} {m : Res β}
    (h : PtrPairIs f r m) (hm : m ≠ .panic) : r.2 ≠ .panic := by
  cases m with
  | ok b => obtain ⟨a, ha, _⟩ := h; rw [ha]; intro h'; cases h'
  | err => rw [show r = (none, Res.err) from h]; intro h'; cases h'
  | panic => exact absurd rfl hm

/-- the decoded filter the two delegated decoders define on the value `v` -/
def filterDecOf (unm0 : GoString → GoString → GoString × Res Unit)
    (unm1 : GoString → Option GoString → Option GoString × Res Unit) (v : GoString) : FilterDec :=
  { label := if (unm0 ([34] ++ v ++ [34]) []).2 = Res.ok () then some (unm0 ([34] ++ v ++ [34]) []).1 else none,
    filter := if (unm1 v (some [])).2 = Res.ok () then (unm1 v (some [])).1 else none }

/-- `FilterDecIs` is satisfiable for every pair of decoders under the one condition that a
successful `json.Unmarshal(v, &Filter{})` leaves the pointer non-nil. -/
theorem filterDecOf_is (unm0 : GoString → GoString → GoString × Res Unit)
    (unm1 : GoString → Option GoString → Option GoString × Res Unit) (v : GoString)
    (hptr : (unm1 v (some [])).2 = Res.ok () → (unm1 v (some [])).1.isSome = true) :
    FilterDecIs unm0 unm1 v (filterDecOf unm0 unm1 v) := by
  unfold FilterDecIs filterDecOf
  constructor
  · by_cases h : (unm0 ([34] ++ v ++ [34]) []).2 = Res.ok ()
    · simp only [h, if_true]
      exact Prod.ext rfl h
    · simp only [h, if_false]
      exact h
  · by_cases h : (unm1 v (some [])).2 = Res.ok ()
    · simp only [h, if_true]
      have hs := hptr h
      cases hx : (unm1 v (some [])).1 with
      | none => rw [hx] at hs; cases hs
      | some f => exact Prod.ext hx h
    · simp only [h, if_false]
      exact h

end GenC07c

/-- The step the audit asked for: what `NewSimpleURL` returns without error goes through the
TRANSLATED `NewURL` without panic (the `urule[0]` read included), and the result is the model's. -/
theorem Gen_NewURL_of_NewSimpleURL (σ : Schema) (q : Gen.url_URL → GoMap (List GoString))
    (unm0 : GoString → GoString → GoString × Res Unit)
    (unm1 : GoString → Option GoString → Option GoString × Res Unit)
    (u : Gen.url_URL) (fd : FilterDec)
    (hkeys : (GoMap.keys (q u)).Nodup)
    (hfd : FilterDecIs unm0 unm1 (firstVal ((GoMap.get? (q u) sFilter).getD [])) fd)
    (su : Gen.SimpleURL) (h : Gen.NewSimpleURL (some u) q unm0 unm1 = (su, Res.ok ())) :
    (Gen.NewURL σ su).2 ≠ Res.panic ∧
    PtrPairIs URL.ofGen (Gen.NewURL σ su) (newURLFrom σ (some (u.path, q u, fd))) := by
  have hsr := Gen_NewSimpleURL_rules_nonempty q unm0 unm1 u fd hkeys hfd (by rw [h])
  rw [h] at hsr
  have heq := Gen_NewSimpleURL_eq q unm0 unm1 u fd hkeys hfd
  rw [h] at heq
  have hU := Gen_NewURL_eq σ su hsr
  have hmodel : newURLFrom σ (some (u.path, q u, fd)) = newURL σ (SimpleURL.ofGen su) := by
    cases hm : newSimpleURL u.path (q u) fd with
    | ok su' =>
      rw [hm] at heq
      simp only [newURLFrom, hm]
      rw [← heq.2]
    | err => rw [hm] at heq; cases (heq : (Res.ok () : Res Unit) = Res.err)
    | panic => rw [hm] at heq; cases (heq : (Res.ok () : Res Unit) = Res.panic)
  rw [hmodel]
  exact ⟨GenC07c.ptrPair_no_panic hU (newURL_no_panic σ _), hU⟩

/-- The whole chain is the model: for every result `pu` of `url.Parse` (nil or not, with or
without error), `NewURLFromRaw` over the translated functions returns what the model's
`newURLFrom` returns on the decoded path, values and filter. -/
theorem Gen_NewURLFromRaw_eq_model (σ : Schema) (q : Gen.url_URL → GoMap (List GoString))
    (unm0 : GoString → GoString → GoString × Res Unit)
    (unm1 : GoString → Option GoString → Option GoString × Res Unit)
    (pu : Option Gen.url_URL × Res Unit) (fd : FilterDec)
    (hparse : pu.2 ≠ Res.panic)
    (hkeys : ∀ u, pu.1 = some u → (GoMap.keys (q u)).Nodup)
    (hfd : ∀ u, pu.1 = some u →
      FilterDecIs unm0 unm1 (firstVal ((GoMap.get? (q u) sFilter).getD [])) fd) :
    PtrPairIs URL.ofGen (GenC07c.NewURLFromRaw σ pu q unm0 unm1)
      (newURLFrom σ (GenC07c.parsedOf pu q fd)) := by
  obtain ⟨p, e⟩ := pu
  unfold GenC07c.NewURLFromRaw GenC07c.parsedOf
  simp only []
  by_cases he : e = Res.ok ()
  · subst he
    simp only [ne_eq, not_true_eq_false, if_false, if_true]
    cases p with
    | none =>
      have hn : (Gen.NewSimpleURL none q unm0 unm1).2 = Res.err := Gen_NewSimpleURL_nil q unm0 unm1
      have hne : (Gen.NewSimpleURL none q unm0 unm1).2 ≠ Res.ok () := by rw [hn]; intro h; cases h
      simp only [Option.map_none, hn]
      rfl
    | some u =>
      simp only [Option.map_some]
      have heq := Gen_NewSimpleURL_eq q unm0 unm1 u fd (hkeys u rfl) (hfd u rfl)
      by_cases hok : (Gen.NewSimpleURL (some u) q unm0 unm1).2 = Res.ok ()
      · simp only [hok, not_true_eq_false, if_false]
        exact (Gen_NewURL_of_NewSimpleURL σ q unm0 unm1 u fd (hkeys u rfl) (hfd u rfl) _
          (Prod.ext rfl hok)).2
      · simp only [hok, not_false_eq_true, if_true]
        cases hm : newSimpleURL u.path (q u) fd with
        | ok su' => rw [hm] at heq; exact absurd heq.1 hok
        | err =>
          rw [hm] at heq; rw [show (Gen.NewSimpleURL (some u) q unm0 unm1).2 = Res.err from heq]
          simp only [newURLFrom, hm]; rfl
        | panic =>
          rw [hm] at heq; rw [show (Gen.NewSimpleURL (some u) q unm0 unm1).2 = Res.panic from heq]
          simp only [newURLFrom, hm]; rfl
  · simp only [ne_eq, he, not_false_eq_true, if_true, if_false]
    cases e with
    | ok x => exact absurd rfl he
    | err => rfl
    | panic => exact absurd rfl hparse

/-- `NewURLFromRaw` over the TRANSLATED `NewSimpleURL`, `NewParams` and `NewURL` never panics,
whatever `url.Parse` returned (short of panicking itself). -/
theorem Gen_NewURLFromRaw_no_panic (σ : Schema) (q : Gen.url_URL → GoMap (List GoString))
    (unm0 : GoString → GoString → GoString × Res Unit)
    (unm1 : GoString → Option GoString → Option GoString × Res Unit)
    (pu : Option Gen.url_URL × Res Unit) (fd : FilterDec)
    (hparse : pu.2 ≠ Res.panic)
    (hkeys : ∀ u, pu.1 = some u → (GoMap.keys (q u)).Nodup)
    (hfd : ∀ u, pu.1 = some u →
      FilterDecIs unm0 unm1 (firstVal ((GoMap.get? (q u) sFilter).getD [])) fd) :
    (GenC07c.NewURLFromRaw σ pu q unm0 unm1).2 ≠ Res.panic :=
  GenC07c.ptrPair_no_panic (Gen_NewURLFromRaw_eq_model σ q unm0 unm1 pu fd hparse hkeys hfd)
    (C07_total σ _)

/-- The same without `fd`: the only condition on the two `json.Unmarshal` parameters is that a
successful decode into the non-nil `&Filter{}` leaves it non-nil. -/
theorem Gen_NewURLFromRaw_no_panic_any_decoder (σ : Schema) (q : Gen.url_URL → GoMap (List GoString))
    (unm0 : GoString → GoString → GoString × Res Unit)
    (unm1 : GoString → Option GoString → Option GoString × Res Unit)
    (pu : Option Gen.url_URL × Res Unit)
    (hparse : pu.2 ≠ Res.panic)
    (hkeys : ∀ u, pu.1 = some u → (GoMap.keys (q u)).Nodup)
    (hptr : ∀ v, (unm1 v (some [])).2 = Res.ok () → (unm1 v (some [])).1.isSome = true) :
    (GenC07c.NewURLFromRaw σ pu q unm0 unm1).2 ≠ Res.panic := by
  cases hp : pu.1 with
  | none =>
    exact Gen_NewURLFromRaw_no_panic σ q unm0 unm1 pu default hparse
      (fun u hu => by rw [hp] at hu; cases hu) (fun u hu => by rw [hp] at hu; cases hu)
  | some u =>
    refine Gen_NewURLFromRaw_no_panic σ q unm0 unm1 pu
      (GenC07c.filterDecOf unm0 unm1 (firstVal ((GoMap.get? (q u) sFilter).getD []))) hparse hkeys ?_
    intro u' hu'
    rw [hp] at hu'
    cases hu'
    exact GenC07c.filterDecOf_is unm0 unm1 _ (hptr _)

/-- Either a URL and no error, or no URL and an error - on the translated chain. -/
theorem Gen_NewURLFromRaw_result (σ : Schema) (q : Gen.url_URL → GoMap (List GoString))
    (unm0 : GoString → GoString → GoString × Res Unit)
    (unm1 : GoString → Option GoString → Option GoString × Res Unit)
    (pu : Option Gen.url_URL × Res Unit) (fd : FilterDec)
    (hparse : pu.2 ≠ Res.panic)
    (hkeys : ∀ u, pu.1 = some u → (GoMap.keys (q u)).Nodup)
    (hfd : ∀ u, pu.1 = some u →
      FilterDecIs unm0 unm1 (firstVal ((GoMap.get? (q u) sFilter).getD [])) fd) :
    (∃ g, GenC07c.NewURLFromRaw σ pu q unm0 unm1 = (some g, Res.ok ()) ∧
        newURLFrom σ (GenC07c.parsedOf pu q fd) = Res.ok (URL.ofGen g)) ∨
    (GenC07c.NewURLFromRaw σ pu q unm0 unm1 = (none, Res.err) ∧
        newURLFrom σ (GenC07c.parsedOf pu q fd) = Res.err) := by
  have h := Gen_NewURLFromRaw_eq_model σ q unm0 unm1 pu fd hparse hkeys hfd
  cases hm : newURLFrom σ (GenC07c.parsedOf pu q fd) with
  | ok b =>
    rw [hm] at h
    obtain ⟨a, ha, hb⟩ := h
    exact Or.inl ⟨a, ha, by rw [hb]⟩
  | err => rw [hm] at h; exact Or.inr ⟨h, rfl⟩
  | panic => exact absurd hm (C07_total σ _)

/-! Non-vacuity: the hypotheses are met by concrete, non-trivial instances. -/

/-- the parsed URL `/a?sort=x,,-id` : path `/a`, values `{sort: ["x,,-id"]}` -/
def GenC07c.exU : Gen.url_URL :=
  { scheme := [], opaque_ := [], user := none, host := [], path := [47, 97], rawPath := [],
    omitHost := false, forceQuery := false, rawQuery := [], fragment := [], rawFragment := [] }
def GenC07c.exQ : Gen.url_URL → GoMap (List GoString) := fun _ => [(sSort, [[120, 44, 44, 45, 105, 100]])]
def GenC07c.exUnm0 : GoString → GoString → GoString × Res Unit := fun _ s => (s, Res.err)
def GenC07c.exUnm1 : GoString → Option GoString → Option GoString × Res Unit := fun _ p => (p, Res.err)

example : (GoMap.keys (GenC07c.exQ GenC07c.exU)).Nodup := by decide
example : FilterDecIs GenC07c.exUnm0 GenC07c.exUnm1
    (firstVal ((GoMap.get? (GenC07c.exQ GenC07c.exU) sFilter).getD [])) ⟨none, none⟩ := by
  refine ⟨?_, ?_⟩ <;> (intro h; cases h)
example : ∀ v, (GenC07c.exUnm1 v (some [])).2 = Res.ok () → (GenC07c.exUnm1 v (some [])).1.isSome = true :=
  fun _ h => by cases h
/-- the instance runs through all three translated functions and returns a URL -/
example : (GenC07c.NewURLFromRaw GenC07b.exSchema (some GenC07c.exU, Res.ok ()) GenC07c.exQ
    GenC07c.exUnm0 GenC07c.exUnm1).2 = Res.ok () := by decide
example : ∃ su, Gen.NewSimpleURL (some GenC07c.exU) GenC07c.exQ GenC07c.exUnm0 GenC07c.exUnm1 = (su, Res.ok ()) :=
  ⟨(Gen.NewSimpleURL (some GenC07c.exU) GenC07c.exQ GenC07c.exUnm0 GenC07c.exUnm1).1, Prod.ext rfl (by decide)⟩

end Jsonapi

section Axioms
open Jsonapi
#print axioms Gen_NewURL_of_NewSimpleURL
#print axioms Gen_NewURLFromRaw_eq_model
#print axioms Gen_NewURLFromRaw_no_panic
#print axioms Gen_NewURLFromRaw_no_panic_any_decoder
#print axioms Gen_NewURLFromRaw_result
end Axioms
