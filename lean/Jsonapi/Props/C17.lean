/-
C17 — Resources (soft and struct-wrapped) behave as the abstract resource: Get returns the
value most recently Set, else the field's zero value; both implementations are
indistinguishable through the Resource interface; Equal/EqualStrict are reflexive and
symmetric and sound (up to the known finding on attribute names).

Property theorems only; the proofs' machinery is in `Jsonapi/Proofs/ResourceLemmas.lean`
(maps, `check`, SoftResource), `StructLemmas.lean` (declared struct, `Check`/`Wrap`,
wrapper) and `EqualLemmas.lean` (Equal).

Definitions used in the statements (all in the Proofs files, repeated here for the reader):
* `Hist := List (GoString × GoVal)`, `SetHistOk t h := ∀ p ∈ h, Spec.setOk t p.1 p.2 = true`;
* `Typ.fieldKeys t := t.attrs.keys ++ t.rels.keys`;
* `Spec.structable t` (Bool): the type name is not "", "attr", "rel" or "rel,…", and no
  relationship's target type / inverse name contains a comma — what `Check`/`Wrap` need to
  accept the struct `declOfTyp t`;
* `runSets w h`: the Sets of `h` on a wrapper one after the other, `Res.bind`-chained, so
  that `.ok` means no Set panicked;
* `ResView.keyed r`: map keys are the stored names and are unique; `ResView.ok r := r.wf ∧ r.keyed`.
-/
import Jsonapi.Proofs.ResourceLemmas
import Jsonapi.Proofs.DeclLemmas
import Jsonapi.Proofs.EqualLemmas
namespace Jsonapi
open GoMap

/-! ### 1. SoftResource refines the abstract resource -/

theorem C17_soft_refines (t : Typ) (ht : TypWF t) (hn : Spec.namesOk t = true) (h : Hist)
    (hok : SetHistOk t h) :
    let s := h.foldl (fun s p => s.set p.1 p.2) ({ typ := t, id := [], data := [] } : Soft)
    (∀ f ∈ t.attrs.keys ++ t.rels.keys, Spec.canon (s.get f) = Spec.specGet t h f) ∧
    s.get idName = .val .string (.s (Spec.specId h)) ∧ s.typ = t := by
  intro s
  have inv : SoftInv t h s := by
    have := SoftInv.run ht hn h hok [] _ (SoftInv.init t)
    simpa using this
  refine ⟨?_, ?_, inv.typ⟩
  · intro f hf
    rw [Soft.get_field ht s inv.typ inv.keys hf (namesOk_mem hn hf).1]
    exact inv.vals f hf
  · rw [Soft.get_id, inv.id]

/-! ### 2. The wrapped struct refines the abstract resource

Full version: no sortedness assumption on `t.attrs` / `t.rels` (only membership in the
sorted declaration is used). Added hypothesis: `Spec.structable t`. -/

theorem C17_wrapped_refines (t : Typ) (ht : TypWF t) (hn : Spec.namesOk t = true)
    (hs : Spec.structable t = true) (h : Hist) (hok : SetHistOk t h) :
    ∃ w0 w, wrap (declOfTyp t) (Wrapped.zeroVals (declOfTyp t)) = .ok w0 ∧
      runSets w0 h = .ok w ∧
      (∀ f ∈ t.attrs.keys ++ t.rels.keys, ∃ v, w.get f = .ok v ∧ Spec.canon v = Spec.specGet t h f) ∧
      w.get idName = .ok (.val .string (.s (Spec.specId h))) := by
  obtain ⟨w0, hw, hd, hv, hty, _⟩ := wrap_declOfTyp ht hn hs (Wrapped.zeroVals (declOfTyp t))
  obtain ⟨w, hr, inv⟩ := WInv.run ht hn h hok [] w0 (WInv.init ht hn w0 hd hv hty)
  rw [List.nil_append] at inv
  exact ⟨w0, w, hw, hr, fun f hf => inv.get_field ht hn hf, inv.get_id⟩

/-! ### 3. Indistinguishable through the Resource interface -/

theorem C17_indistinguishable (t : Typ) (ht : TypWF t) (hn : Spec.namesOk t = true)
    (hs : Spec.structable t = true) (h : Hist) (hok : SetHistOk t h) :
    let s := h.foldl (fun s p => s.set p.1 p.2) ({ typ := t, id := [], data := [] } : Soft)
    ∃ w0 w, wrap (declOfTyp t) (Wrapped.zeroVals (declOfTyp t)) = .ok w0 ∧
      runSets w0 h = .ok w ∧
      (∀ f ∈ t.attrs.keys ++ t.rels.keys, ∃ v, w.get f = .ok v ∧ Spec.canon (s.get f) = Spec.canon v) ∧
      w.get idName = .ok (s.get idName) ∧ w.typ = s.typ.name := by
  intro s
  obtain ⟨h1, h2, h3⟩ := C17_soft_refines t ht hn h hok
  obtain ⟨w0, hw, hd, hv, hty, _⟩ := wrap_declOfTyp ht hn hs (Wrapped.zeroVals (declOfTyp t))
  obtain ⟨w, hr, inv⟩ := WInv.run ht hn h hok [] w0 (WInv.init ht hn w0 hd hv hty)
  rw [List.nil_append] at inv
  refine ⟨w0, w, hw, hr, ?_, ?_, ?_⟩
  · intro f hf
    obtain ⟨v, e1, e2⟩ := inv.get_field ht hn hf
    exact ⟨v, e1, (h1 f hf).trans e2.symm⟩
  · show w.get idName = .ok (s.get idName)
    rw [h2]; exact inv.get_id
  · show w.typ = s.typ.name
    rw [h3]; exact inv.typ

/-! ### 4. Fresh resources -/

theorem C17_fresh (t : Typ) (ht : TypWF t) (hn : Spec.namesOk t = true) :
    -- the soft resource
    (let s : Soft := { typ := t, id := [], data := [] }
     s.view.typeName = t.name ∧ s.view.attrs = t.attrs ∧ s.view.rels = t.rels ∧ s.view.id = [] ∧
     (∀ f ∈ t.attrs.keys ++ t.rels.keys,
        Spec.canon (s.get f) = Spec.zeroOf t f ∧ Spec.canon (s.view.get f) = Spec.zeroOf t f)) ∧
    -- the wrapped struct
    (Spec.structable t = true →
      ∃ w0 v, wrap (declOfTyp t) (Wrapped.zeroVals (declOfTyp t)) = .ok w0 ∧ w0.view = some v ∧
        v.typeName = t.name ∧ v.id = [] ∧
        v.attrs.Perm t.attrs ∧
        v.rels.Perm (t.rels.map (fun p => (p.1, { p.2 with fromType := t.name, fromOne := false }))) ∧
        (∀ f ∈ t.attrs.keys ++ t.rels.keys, ∃ x, w0.get f = .ok x ∧ Spec.canon x = Spec.zeroOf t f ∧
          Spec.canon (v.get f) = Spec.zeroOf t f)) := by
  constructor
  · intro s
    have inv : SoftInv t [] s := SoftInv.init t
    refine ⟨rfl, rfl, rfl, rfl, ?_⟩
    intro f hf
    have hg : Spec.canon (s.get f) = Spec.zeroOf t f := by
      rw [Soft.get_field ht s inv.typ inv.keys hf (namesOk_mem hn hf).1]
      exact inv.vals f hf
    exact ⟨hg, by rw [Soft.view_get ht s rfl (by intro x hx; cases hx) hf (namesOk_mem hn hf).1]; exact hg⟩
  · intro hs
    obtain ⟨w0, hw, hd, hv, hty, hat, hre⟩ := wrap_declOfTyp ht hn hs (Wrapped.zeroVals (declOfTyp t))
    have inv : WInv t [] w0 := WInv.init ht hn w0 hd hv hty
    have hA := structAttrs_declOfTyp ht hs
    have hR := structRels_declOfTyp_eq ht hs
    rw [hR] at hre
    simp only [Res.ok.injEq] at hre
    have kA : w0.attrs.keys.Perm t.attrs.keys := by rw [hat, hA]; exact sortByKey_keys_perm _
    have kR : w0.rels.keys.Perm t.rels.keys := by
      rw [← hre]
      have : GoMap.keys (List.map (fun p : GoString × Rel => (p.1, normRel t.name p.2)) (Typ.sortByKey t.rels)) =
          GoMap.keys (Typ.sortByKey t.rels) := by simp [keys]
      rw [this]; exact sortByKey_keys_perm _
    obtain ⟨v, hview, e1, e2, e3, e4, e5⟩ := inv.view ht hn kA kR
    refine ⟨w0, v, hw, hview, by rw [e1, hty], by rw [e2]; rfl, ?_, ?_, ?_⟩
    · rw [e3, hat, hA]; exact sortByKey_perm _
    · rw [e4, ← hre]; exact (sortByKey_perm _).map _
    · intro f hf
      obtain ⟨x, hx, hc⟩ := inv.get_field ht hn hf
      exact ⟨x, hx, hc, by rw [e5 f hf x hx]; exact hc⟩

/-! ### 5. The equality helpers -/

theorem C17_equal_refl (a : ResView) (ha : a.ok) : equal a a = .ok true := equal_refl ha

/-- Symmetry needs no hypothesis at all (also for ill-typed views and for panics). -/
theorem C17_equal_symm (a b : ResView) : equal a b = equal b a := equal_symm a b

/-- Partial soundness (known finding: attribute names are not compared, see below).
Only `keyed` is needed, not `wf`. -/
theorem C17_equal_sound (a b : ResView) (ha : a.keyed) (hb : b.keyed) (h : equal a b = .ok true) :
    a.typeName = b.typeName ∧ a.attrs.length = b.attrs.length ∧
    (sortOn (fun r : Rel => r.fromName) a.rels.vals).map (·.fromName) =
      (sortOn (fun r : Rel => r.fromName) b.rels.vals).map (·.fromName) ∧
    (∀ (i : Nat) (x y : Attr),
      (sortOn (fun a : Attr => a.name) a.attrs.vals)[i]? = some x →
      (sortOn (fun a : Attr => a.name) b.attrs.vals)[i]? = some y →
      deepEqual (a.get x.name) (b.get y.name) = true ∨
        ((a.get x.name).isNilValue = true ∧ (b.get y.name).isNilValue = true) ∨
        ((a.get x.name).isEmptyBytes = true ∧ (b.get y.name).isEmptyBytes = true)) ∧
    (∀ n ∈ a.rels.keys, ∃ ra rb, a.rels.get? n = some ra ∧ b.rels.get? n = some rb ∧
      ra.toOne = rb.toOne ∧ a.get n = b.get n ∧
      (if ra.toOne then ∃ id, a.get n = .val .string (.s id) else ∃ l, a.get n = .strs l)) := by
  rw [equal_unfold] at h
  split at h
  · cases h
  rename_i h1
  split at h
  · cases h
  rename_i h2
  split at h
  · cases h
  rename_i h3
  split at h
  · cases h
  rename_i h4
  simp only [ne_eq, Decidable.not_not] at h1 h2 h4
  rw [relFold_ok_iff] at h
  refine ⟨h1, ?_, ?_, ?_, ?_⟩
  · have := h2
    rw [sortOn_length, sortOn_length] at this
    simpa [GoMap.vals] using this
  · exact map_eq_of_zip _ _ h4 (fun p hp => (relStep_ok (h p hp)).1)
  · intro i x y hx hy
    have hm := mem_zip_of_getElem? hx hy
    rw [Bool.not_eq_true, List.any_eq_false] at h3
    have := h3 (x, y) hm
    unfold attrTest at this
    simp only [] at this
    cases hd : deepEqual (a.get x.name) (b.get y.name) with
    | true => exact .inl rfl
    | false =>
      right
      rw [hd] at this
      cases hn1 : (a.get x.name).isNilValue && (b.get y.name).isNilValue with
      | true => left; simpa using hn1
      | false =>
        right
        rw [hn1] at this
        simpa using this
  · intro n hn
    obtain ⟨p, hp, e⟩ := List.mem_map.1 hn
    have hp2 : p.2 ∈ sortOn (fun r : Rel => r.fromName) a.rels.vals :=
      (mem_sortOn _ _ _).2 (List.mem_map.2 ⟨p, hp, rfl⟩)
    obtain ⟨rb, hz⟩ := exists_zip_of_mem h4 hp2
    obtain ⟨s1, s2, s3, s4⟩ := relStep_ok (h _ hz)
    simp only [] at s1 s2 s3 s4
    have hrb : rb ∈ b.rels.vals := (mem_sortOn _ _ _).1 (List.of_mem_zip hz).2
    obtain ⟨q, hq, eq⟩ := List.mem_map.1 hrb
    have hpn : p.2.fromName = n := ((ha.2.1 p hp).symm).trans e
    have hqn : q.1 = n := by rw [hb.2.1 q hq, eq, ← s1]; exact hpn
    refine ⟨p.2, rb, ?_, ?_, s2, ?_, ?_⟩
    · rw [← e]; exact get?_of_mem_nodup ha.2.2.2 hp
    · rw [← hqn, ← eq]; exact get?_of_mem_nodup hb.2.2.2 hq
    · rw [← hpn]; rw [s1] at s3 ⊢; rw [← s1] at s3; rw [← s1]; exact s3
    · rw [← hpn]; exact s4

/-- Full-strength soundness as the property text reads it: Equal never holds between
resources that differ in attribute names. -/
def C17_equal_statement : Prop :=
  ∀ a b : ResView, a.ok → b.ok → equal a b = .ok true →
    a.typeName = b.typeName ∧
    (sortOn (fun a : Attr => a.name) a.attrs.vals).map (·.name) =
      (sortOn (fun a : Attr => a.name) b.attrs.vals).map (·.name)

/-- Known, unrepaired defect of Go's `Equal` (pinned by the library's own test suite):
attributes are paired by sorted position and their names are never compared. Witness: two
resources of type "t" whose only attribute is "x" resp. "xq", both holding int 1. -/
def C17_cexA : ResView :=
  { typeName := [116], id := [], attrs := [([120], { name := [120], ty := 2, nullable := false })],
    rels := [], vals := [([120], .val .int (.i 1))] }
def C17_cexB : ResView :=
  { typeName := [116], id := [], attrs := [([120, 113], { name := [120, 113], ty := 2, nullable := false })],
    rels := [], vals := [([120, 113], .val .int (.i 1))] }

theorem C17_equal_names_counterexample : ¬ C17_equal_statement := by
  intro hst
  have h := hst C17_cexA C17_cexB (by decide) (by decide) (by decide)
  exact absurd h.2 (by decide)

theorem C17_equalStrict_id (a b : ResView) (h : equalStrict a b = .ok true) :
    a.id = b.id ∧ equal a b = .ok true := by
  unfold equalStrict at h
  split at h
  · cases h
  · rename_i hid
    exact ⟨by simpa using hid, h⟩

/-! ### Non-vacuity: a concrete type and history inside the theorems' domain -/

/-- Type "t" with a nullable int attribute "a", a bytes attribute "b", a to-one
relationship "o" and a to-many relationship "m" (both to type "u"). -/
def C17_exT : Typ :=
  { name := [116],
    attrs := [([98], { name := [98], ty := 14, nullable := false }),
              ([97], { name := [97], ty := 2, nullable := true })],
    rels := [([111], { fromType := [116], fromName := [111], toOne := true, toType := [117], toName := [], fromOne := false }),
             ([109], { fromType := [116], fromName := [109], toOne := false, toType := [117], toName := [], fromOne := false })] }

/-- Four Sets: a := &7, a := nil (untyped), o := "k", m := ["k"]. -/
def C17_exH : Hist :=
  [([97], .ptr .int (some (.i 7))), ([97], .nil), ([111], .val .string (.s [107])), ([109], .strs [[107]])]

example :
    ((∀ p ∈ C17_exT.attrs, p.1 = p.2.name ∧ p.2.name ≠ [] ∧ 1 ≤ p.2.ty ∧ p.2.ty ≤ 14) ∧
     (∀ p ∈ C17_exT.rels, p.1 = p.2.fromName ∧ p.2.fromName ≠ [] ∧ p.2.toType ≠ []) ∧
     C17_exT.attrs.keys.Nodup ∧ C17_exT.rels.keys.Nodup ∧
     (∀ k ∈ C17_exT.attrs.keys, k ∉ C17_exT.rels.keys)) ∧
    Spec.namesOk C17_exT = true ∧ Spec.structable C17_exT = true ∧
    (∀ p ∈ C17_exH, Spec.setOk C17_exT p.1 p.2 = true) ∧
    -- and the conclusions, computed: the nullable int reads nil after the untyped nil
    Spec.specGet C17_exT C17_exH [97] = .nil ∧
    Spec.canon ((C17_exH.foldl (fun s p => s.set p.1 p.2)
      ({ typ := C17_exT, id := [], data := [] } : Soft)).get [97]) = .nil ∧
    (C17_exH.foldl (fun s p => s.set p.1 p.2)
      ({ typ := C17_exT, id := [], data := [] } : Soft)).get [98] = .val .bytes (.bs (some [])) := by decide

/-- The declared struct of the example type (the sort is computed by `simp`, core's
`mergeSort` being irreducible for `decide`): ID, a, b, m, o. -/
theorem C17_exT_decl : declOfTyp C17_exT =
    [{ name := sID, ty := .attr .string false, json := idName, api := [116] },
     { name := [70], ty := .attr .int true, json := [97], api := sAttr },
     { name := [70], ty := .attr .bytes false, json := [98], api := sAttr },
     { name := [70], ty := .strs, json := [109], api := [114, 101, 108, 44, 117] },
     { name := [70], ty := .attr .string false, json := [111], api := [114, 101, 108, 44, 117] }] := by
  have hA : Typ.sortByKey C17_exT.attrs =
      [([97], { name := [97], ty := 2, nullable := true }), ([98], { name := [98], ty := 14, nullable := false })] := by
    simp [Typ.sortByKey, C17_exT, List.mergeSort, List.merge]; decide
  have hR : Typ.sortByKey C17_exT.rels =
      [([109], { fromType := [116], fromName := [109], toOne := false, toType := [117], toName := [], fromOne := false }),
       ([111], { fromType := [116], fromName := [111], toOne := true, toType := [117], toName := [], fromOne := false })] := by
    simp [Typ.sortByKey, C17_exT, List.mergeSort, List.merge]; decide
  rw [declOfTyp_eq, hA, hR]
  decide

/-- The wrapped struct on the example: Wrap succeeds, the four Sets succeed, and the
fields read a = nil (after the untyped nil), b = nil byte slice, o = "k", m = ["k"], id = "". -/
example :
    ((wrap (declOfTyp C17_exT) (Wrapped.zeroVals (declOfTyp C17_exT))).bind (fun w0 =>
      (runSets w0 C17_exH).bind (fun w => .ok [w.get [97], w.get [98], w.get [111], w.get [109], w.get idName]))) =
      .ok [.ok .nil, .ok (.val .bytes (.bs none)), .ok (.val .string (.s [107])), .ok (.strs [[107]]),
           .ok (.val .string (.s []))] := by
  rw [C17_exT_decl]; decide

theorem C17_exT_wf : TypWF C17_exT :=
  ⟨by decide, by decide, by decide, by decide, by decide⟩

theorem C17_exH_ok : SetHistOk C17_exT C17_exH := by unfold SetHistOk; decide

/-- The theorems apply to the example. -/
example := C17_indistinguishable C17_exT C17_exT_wf (by decide) (by decide) C17_exH C17_exH_ok
example := C17_fresh C17_exT C17_exT_wf (by decide)

end Jsonapi

section Axioms
open Jsonapi
#print axioms C17_soft_refines
#print axioms C17_wrapped_refines
#print axioms C17_indistinguishable
#print axioms C17_fresh
#print axioms C17_equal_refl
#print axioms C17_equal_symm
#print axioms C17_equal_sound
#print axioms C17_equal_names_counterexample
#print axioms C17_equalStrict_id
#print axioms C17_exT_decl
#print axioms C17_exT_wf
#print axioms C17_exH_ok
end Axioms
