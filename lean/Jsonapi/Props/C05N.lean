/-
C05N — two small additions to C05 (audit remarks).

1. Non-vacuity of `C05_request_ok`: a POST request whose URL `/t` and body are accepted.
2. "Either an error and no result or a result and no error", on Go-shaped outputs of
   `UnmarshalIdentifier(s)`. The model's `Res` has no "value returned alongside the error", so
   the clause is true of the model by the shape of the type. The Go code (identifiers.go) does
   return a value with the error:
     * `UnmarshalIdentifier`: `Identifier{}` (the zero value) with every error;
     * `UnmarshalIdentifiers`: `Identifiers{}` - an EMPTY, NON-NIL slice - with the error of the
       outer `json.Unmarshal`, and `nil` with the error of an element.
   `unmarshalIdentifiersGo` below writes these returns down (read from the source; it is
   defined from the validated model `unmarshalIdentifiers` and is not itself compared with the
   code by a suite), and `C05N_identifiers_xor` says: whenever an error is returned the value
   returned with it has no element - never a non-empty result together with an error.
-/
import Jsonapi.Props.C05R
namespace Jsonapi
open UnmL

/-! ### 1. `C05_request_ok` is not vacuous -/

/-- `{"data": <C05_exSk>}` -/
def C05N_exDoc : DocSke := { data := .res (some C05_exSk), errors := [], included := [], dmeta := [] }

theorem C05N_request_accepted :
    ∃ req, newRequest C05_exσ mPOST true [47, 116] [] { label := none, filter := none }
      (some C05N_exDoc) = .ok req := by
  have h : (newRequest C05_exσ mPOST true [47, 116] [] { label := none, filter := none }
      (some C05N_exDoc)).isOk = true := by decide
  cases hr : newRequest C05_exσ mPOST true [47, 116] [] { label := none, filter := none }
      (some C05N_exDoc) with
  | ok r => exact ⟨r, rfl⟩
  | err => rw [hr] at h; cases h
  | panic => rw [hr] at h; cases h

/-- The hypotheses of `C05_request_ok` are satisfiable, and its conclusion on the instance: the
request carries POST, the parsed URL and a document whose primary resource conforms. -/
example : ∃ req d r, newRequest C05_exσ mPOST true [47, 116] [] { label := none, filter := none }
      (some C05N_exDoc) = .ok req ∧ req.method = mPOST ∧ req.doc = some d ∧ d.data = .res r ∧
      Conforms C05_exσ r := by
  obtain ⟨req, hreq⟩ := C05N_request_accepted
  obtain ⟨h1, _, h3, _⟩ := C05_request_ok C05_exσ C05_exσ_wf _ _ _ _ _ _ req hreq
  obtain ⟨d, hd, hu, c1, _, _⟩ := h3 (.inl rfl)
  have hdata : ∃ r, d.data = .res r := by
    obtain ⟨_, _, hx⟩ := unmarshalDocument_ok hu
    obtain ⟨r, _, e, _⟩ := hx
    exact ⟨r, e⟩
  obtain ⟨r, hr⟩ := hdata
  exact ⟨req, d, r, hreq, h1, hd, hr, c1 r hr⟩

/-! ### 2. Go-shaped outputs of `UnmarshalIdentifier(s)` -/

/-- A Go `Identifiers` value: the nil slice or a slice with the given elements. -/
inductive GoIdents where
  | nilSlice
  | slice (l : List (GoString × GoString))
deriving Repr

def GoIdents.len : GoIdents → Nat
  | .nilSlice => 0
  | .slice l => l.length

/-- identifiers.go `UnmarshalIdentifier` as the pair Go returns: (value, error?) -/
def unmarshalIdentifierGo (σ : Option SSchema) (dec : Option (GoString × GoString)) :
    (GoString × GoString) × Bool :=
  match unmarshalIdentifier σ dec with
  | .ok i => (i, false)
  | _ => (([], []), true)          -- `return Identifier{}, err`

/-- identifiers.go `UnmarshalIdentifiers` as the pair Go returns -/
def unmarshalIdentifiersGo (σ : Option SSchema) (dec : Option (List (Option (GoString × GoString)))) :
    GoIdents × Bool :=
  match dec with
  | none => (.slice [], true)      -- `return Identifiers{}, err`: empty, non-nil
  | some l =>
    match unmarshalIdentifiers σ (some l) with
    | .ok is => (.slice is, false) -- `return idens, nil`
    | _ => (.nilSlice, true)       -- `return nil, err`

/-- Error XOR result on the Go-shaped outputs: with an error the identifier returned is the zero
value and the list returned has no element (it is `Identifiers{}` - empty and non-nil - exactly
when the outer decode failed, `nil` when an element was rejected); without an error the value
is the model's result. -/
theorem C05N_identifiers_xor (σ : Option SSchema) :
    (∀ d, (unmarshalIdentifierGo σ d).2 = true → (unmarshalIdentifierGo σ d).1 = ([], [])) ∧
    (∀ d, (unmarshalIdentifierGo σ d).2 = false → unmarshalIdentifier σ d = .ok (unmarshalIdentifierGo σ d).1) ∧
    (∀ d, (unmarshalIdentifiersGo σ d).2 = true → (unmarshalIdentifiersGo σ d).1.len = 0) ∧
    (∀ d, (unmarshalIdentifiersGo σ d).2 = true →
      ((unmarshalIdentifiersGo σ d).1 = .slice [] ↔ d = none) ∧
      ((unmarshalIdentifiersGo σ d).1 = .nilSlice ↔ d ≠ none)) ∧
    (∀ d is, unmarshalIdentifiersGo σ d = (.slice is, false) → unmarshalIdentifiers σ d = .ok is) := by
  refine ⟨?_, ?_, ?_, ?_, ?_⟩
  · intro d h
    unfold unmarshalIdentifierGo at h ⊢
    cases hr : unmarshalIdentifier σ d <;> simp [hr] at h ⊢
  · intro d h
    unfold unmarshalIdentifierGo at h ⊢
    cases hr : unmarshalIdentifier σ d <;> simp [hr] at h ⊢
  · intro d h
    unfold unmarshalIdentifiersGo at h ⊢
    cases d with
    | none => rfl
    | some l => cases hr : unmarshalIdentifiers σ (some l) <;> simp [hr, GoIdents.len] at h ⊢
  · intro d h
    unfold unmarshalIdentifiersGo at h ⊢
    cases d with
    | none => simp
    | some l => cases hr : unmarshalIdentifiers σ (some l) <;> simp [hr] at h ⊢
  · intro d is h
    unfold unmarshalIdentifiersGo at h
    cases d with
    | none => simp at h
    | some l =>
      cases hr : unmarshalIdentifiers σ (some l) with
      | ok is' => simp [hr] at h; rw [h]
      | err => simp [hr] at h
      | panic => simp [hr] at h

end Jsonapi

section Axioms
open Jsonapi
#print axioms C05N_request_accepted
#print axioms C05N_identifiers_xor
end Axioms
