/-
C16N — "… in an order that does not depend on how the schema was built", in ONE statement.

Props/C16.lean has the clause in two pieces: `C16_rels_perm` (the same types in the same order,
each relationship map iterated in any order) and `C16_rels_types_perm` (the types added in any
order, names distinct). Here they are composed: two schemas whose type NAMES are the same up to
order and whose relationship maps are, type by type (same name), the same up to order give the
same `Rels()` - nothing is asked of the order in which the types were added, of the order of the
maps, nor of the attributes.

* `C16N_rels_order`: the statement with the one hypothesis it needs beyond the two
  permutations: the type names of one schema are distinct (C14's invariant; without it the
  statement is false, `C16_rels_types_perm_needs_distinct_names`);
* `C16N_rels_coherent_order`: for two COHERENT schemas (`Inv`, `check = []`, FromType = owner) -
  the listings are equal, and the number of entries - one-way relationships plus two-way pairs,
  `C16_rels_coherent` (iv) - is the same whichever schema it is counted in;
* the users/posts schema built in both orders (and its maps), as an `example`.
-/
import Jsonapi.Props.C16
namespace Jsonapi
open Schema

namespace C16N

theorem nodup_of_names {l : List Typ} (nd : (l.map (·.name)).Nodup) : l.Nodup :=
  List.Pairwise.of_map (fun t : Typ => t.name) (fun _ _ h e => h (by rw [e])) nd

theorem forall2_map {α : Type} (R : α → α → Prop) (f : α → α) :
    ∀ (l : List α), (∀ b ∈ l, R (f b) b) → Forall2 R (l.map f) l
  | [], _ => .nil
  | b :: l, h => .cons (h b (List.mem_cons_self ..))
      (forall2_map R f l (fun c hc => h c (List.mem_cons_of_mem _ hc)))

/-- the type of `l₁` with a given name that occurs in `l₁` -/
theorem getType_named {l₁ : List Typ} (nd : (l₁.map (·.name)).Nodup) {n : GoString}
    (hn : n ∈ l₁.map (·.name)) :
    getType ⟨l₁⟩ n ∈ l₁ ∧ (getType ⟨l₁⟩ n).name = n := by
  obtain ⟨t, ht, rfl⟩ := List.mem_map.1 hn
  rw [getType_of_mem (σ := ⟨l₁⟩) nd ht]
  exact ⟨ht, rfl⟩

/-- `l₁` re-ordered along `l₂`: the types of `l₁` looked up by the names of `l₂`, in the order
of `l₂`, are a permutation of `l₁`. -/
theorem reorder_perm (l₁ l₂ : List Typ) (nd : (l₁.map (·.name)).Nodup)
    (hT : (l₁.map (·.name)).Perm (l₂.map (·.name))) :
    l₁.Perm (l₂.map (fun t₂ => getType ⟨l₁⟩ t₂.name)) := by
  have nd₂ : (l₂.map (·.name)).Nodup := hT.nodup_iff.1 nd
  have hin : ∀ t₂ ∈ l₂, t₂.name ∈ l₁.map (·.name) := fun t₂ ht₂ =>
    hT.mem_iff.2 (List.mem_map.2 ⟨t₂, ht₂, rfl⟩)
  have hnames : (l₂.map (fun t₂ => getType ⟨l₁⟩ t₂.name)).map (·.name) = l₂.map (·.name) := by
    rw [List.map_map]
    apply List.map_congr_left
    intro t ht
    exact (getType_named nd (hin t ht)).2
  rw [List.perm_ext_iff_of_nodup (nodup_of_names nd)
    (nodup_of_names (by rw [hnames]; exact nd₂))]
  intro a
  constructor
  · intro ha
    have : a.name ∈ l₂.map (·.name) := hT.mem_iff.1 (List.mem_map.2 ⟨a, ha, rfl⟩)
    obtain ⟨t₂, ht₂, e⟩ := List.mem_map.1 this
    refine List.mem_map.2 ⟨t₂, ht₂, ?_⟩
    rw [e]
    exact getType_of_mem (σ := ⟨l₁⟩) nd ha
  · intro ha
    obtain ⟨t₂, ht₂, rfl⟩ := List.mem_map.1 ha
    exact (getType_named nd (hin t₂ ht₂)).1

end C16N

/-- **C16, "an order that does not depend on how the schema was built".** Two schemas with the
same type names up to order (`hT`), the names distinct (`nd`: C14's invariant), whose types of
one name hold the same relationship entries up to order (`hR`), list the same relationships in
the same order. -/
theorem C16N_rels_order (σ₁ σ₂ : Schema) (nd : (σ₁.types.map (·.name)).Nodup)
    (hT : (σ₁.types.map (·.name)).Perm (σ₂.types.map (·.name)))
    (hR : ∀ t₁ ∈ σ₁.types, ∀ t₂ ∈ σ₂.types, t₁.name = t₂.name → t₁.rels.Perm t₂.rels) :
    σ₁.relsSorted = σ₂.relsSorted := by
  have hp := C16N.reorder_perm σ₁.types σ₂.types nd hT
  have hin : ∀ t₂ ∈ σ₂.types, t₂.name ∈ σ₁.types.map (·.name) := fun t₂ ht₂ =>
    hT.mem_iff.2 (List.mem_map.2 ⟨t₂, ht₂, rfl⟩)
  -- the types added in another order …
  have e1 := C16_rels_types_perm σ₁ ⟨σ₂.types.map (fun t₂ => getType ⟨σ₁.types⟩ t₂.name)⟩ hp nd
  -- … and each map iterated in another order
  have e2 := C16_rels_perm ⟨σ₂.types.map (fun t₂ => getType ⟨σ₁.types⟩ t₂.name)⟩ σ₂
    (C16N.forall2_map _ _ σ₂.types (fun t₂ ht₂ => by
      obtain ⟨hm, hn⟩ := C16N.getType_named nd (hin t₂ ht₂)
      exact ⟨hn, hR _ hm t₂ ht₂ hn⟩))
  exact e1.trans e2

/-- **The clause for coherent schemas.** `σ₁`, `σ₂` coherent (C14's invariant `Inv`, `Check`
reports nothing, every relationship's `FromType` is its owning type), the same type names up to
order, the same relationship entries type by type up to order: `Rels()` is the same list, and
its length - the number of one-way relationships plus the number of two-way pairs, a pair
counted at the end `Normalize` keeps - is the same number counted in either schema. -/
theorem C16N_rels_coherent_order (σ₁ σ₂ : Schema) (hI₁ : Inv σ₁) (hI₂ : Inv σ₂)
    (hc₁ : σ₁.check = []) (hc₂ : σ₂.check = [])
    (ho₁ : ∀ t ∈ σ₁.types, ∀ r ∈ t.rels.vals, r.fromType = t.name)
    (ho₂ : ∀ t ∈ σ₂.types, ∀ r ∈ t.rels.vals, r.fromType = t.name)
    (hT : (σ₁.types.map (·.name)).Perm (σ₂.types.map (·.name)))
    (hR : ∀ t₁ ∈ σ₁.types, ∀ t₂ ∈ σ₂.types, t₁.name = t₂.name → t₁.rels.Perm t₂.rels) :
    σ₁.relsSorted = σ₂.relsSorted ∧
    σ₁.relsSorted.length =
      σ₁.ends.countP (fun e => decide (e.2.toName = [])) +
      σ₁.ends.countP (fun e => decide (e.2.toName ≠ []) && decide (e.2.normalize = e.2)) ∧
    σ₁.relsSorted.length =
      σ₂.ends.countP (fun e => decide (e.2.toName = [])) +
      σ₂.ends.countP (fun e => decide (e.2.toName ≠ []) && decide (e.2.normalize = e.2)) := by
  have e := C16N_rels_order σ₁ σ₂ hI₁.1 hT hR
  refine ⟨e, (C16_rels_coherent σ₁ hI₁ hc₁ ho₁).2.2.2.2.2, ?_⟩
  rw [e]
  exact (C16_rels_coherent σ₂ hI₂ hc₂ ho₂).2.2.2.2.2

/-- `C16_usersPosts` built the other way round: posts added before users. -/
def C16N_postsUsers : Schema :=
  { types := [
      { name := gs "posts", attrs := [],
        rels := [(gs "author", { fromType := gs "posts", fromName := gs "author", toOne := true,
                                 toType := gs "users", toName := gs "posts", fromOne := false })] },
      { name := gs "users", attrs := [],
        rels := [(gs "posts", { fromType := gs "users", fromName := gs "posts", toOne := false,
                                toType := gs "posts", toName := gs "author", fromOne := false })] }] }

theorem C16N_postsUsers_inv : Inv C16N_postsUsers := by
  refine ⟨by decide, ?_⟩
  intro t ht
  simp only [C16N_postsUsers, List.mem_cons, List.not_mem_nil, or_false] at ht
  rcases ht with rfl | rfl
  · exact ⟨by decide, ⟨by decide, by decide, by decide, by decide, by decide⟩⟩
  · exact ⟨by decide, ⟨by decide, by decide, by decide, by decide, by decide⟩⟩

/-- Non-vacuity: the users/posts schema built in both orders satisfies every hypothesis of
`C16N_rels_coherent_order`, so both list the pair once, as the same entry. -/
example : C16_usersPosts.relsSorted = C16N_postsUsers.relsSorted ∧
    C16_usersPosts.relsSorted.length = 1 ∧ C16N_postsUsers.relsSorted.length = 1 := by
  have h := C16N_rels_coherent_order C16_usersPosts C16N_postsUsers C16_usersPosts_inv
    C16N_postsUsers_inv (by decide) (by decide) (by decide) (by decide)
    (List.Perm.swap _ _ _)
    (by
      intro t₁ h₁ t₂ h₂ hn
      simp only [C16_usersPosts, C16N_postsUsers, List.mem_cons, List.not_mem_nil, or_false]
        at h₁ h₂
      rcases h₁ with rfl | rfl <;> rcases h₂ with rfl | rfl
      · exact absurd hn (by decide)
      · exact .refl _
      · exact .refl _
      · exact absurd hn (by decide))
  have hl : C16_usersPosts.relsSorted.length = 1 := by
    rw [relsSorted, (List.mergeSort_perm _ _).length_eq]; decide
  exact ⟨h.1, hl, by rw [← h.1]; exact hl⟩

end Jsonapi

section Axioms
open Jsonapi
#print axioms C16N_rels_order
#print axioms C16N_rels_coherent_order
#print axioms C16N_postsUsers_inv
#print axioms C16N.reorder_perm
#print axioms C16N.getType_named
end Axioms
