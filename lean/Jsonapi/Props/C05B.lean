/-
C05B — C05 from the payload BYTES.

`Props/C05.lean` quantifies over every skeleton `encoding/json` can hand to the library. Here
the decoding of the bytes is inside the model: `Spec.parseJsonC` reads the full JSON grammar
(white space, every escape, surrogate pairs, U+FFFD for unpaired surrogates and bytes that are
not UTF-8, Go's number grammar, the nesting limit of 10000), `Model/Decode.lean` decodes the
tree into the library's skeleton structs by `encoding/json`'s struct rules, and the byte-level
entry points `unmarshalResourceBytes`, … are the composition with the existing model. The
theorems quantify over EVERY byte string.

Still parameters (`Delegated`, universally quantified in every theorem): what
`json.Unmarshal(raw, &time.Time{})` returns for the raw text of a value, and the text Go prints
for the float64 of a number literal inside `meta`. Everything else about the decoding is
modelled (string decoding, base64, field matching, merging of repeated members).
-/
import Jsonapi.Props.C05
import Jsonapi.Props.C13
import Jsonapi.Model.Decode
import Jsonapi.Proofs.DecodeLemmas
import Jsonapi.Proofs.JsonFullLemmas
namespace Jsonapi
open GoMap UnmL Spec

/-! ### 1. No entry point panics, whatever the bytes -/

theorem C05B_total (D : Delegated) (σ : SSchema) (hσ : σ.WF) (bytes : GoString) :
    unmarshalResourceBytes D σ bytes ≠ .panic ∧
    unmarshalPartialResourceBytes D σ bytes ≠ .panic ∧
    unmarshalCollectionBytes D σ bytes ≠ .panic ∧
    unmarshalDocumentBytes D σ bytes ≠ .panic ∧
    unmarshalIdentifierBytes (some σ) bytes ≠ .panic ∧
    unmarshalIdentifiersBytes (some σ) bytes ≠ .panic := by
  obtain ⟨h1, h2, h3, h4, h5, h6⟩ := C05_total σ hσ
  refine ⟨?_, ?_, ?_, ?_, ?_, ?_⟩
  · unfold unmarshalResourceBytes
    split
    · exact fun h => nomatch h
    · split
      · exact fun h => nomatch h
      · exact h1 _
  · unfold unmarshalPartialResourceBytes
    split
    · exact fun h => nomatch h
    · split
      · exact fun h => nomatch h
      · exact h2 _
  · unfold unmarshalCollectionBytes
    split
    · exact fun h => nomatch h
    · split
      · exact fun h => nomatch h
      · exact h3 _
  · unfold unmarshalDocumentBytes
    split
    · exact fun h => nomatch h
    · exact h4 _
  · unfold unmarshalIdentifierBytes
    split
    · exact fun h => nomatch h
    · exact h5 _
  · unfold unmarshalIdentifiersBytes
    split
    · exact fun h => nomatch h
    · exact h6 _

/-- Bytes that are not one JSON value (`json.Valid` false: bad grammar, a control byte in a
string, a bad escape, nesting deeper than 10000, anything after the value) are rejected by
every entry point with an error. -/
theorem C05B_invalid_json (D : Delegated) (σ : SSchema) (bytes : GoString)
    (h : parseJsonFull bytes = none) :
    unmarshalResourceBytes D σ bytes = .err ∧
    unmarshalPartialResourceBytes D σ bytes = .err ∧
    unmarshalCollectionBytes D σ bytes = .err ∧
    unmarshalDocumentBytes D σ bytes = .err ∧
    unmarshalIdentifierBytes (some σ) bytes = .err ∧
    unmarshalIdentifiersBytes (some σ) bytes = .err := by
  have hc : parseJsonC bytes = none := by
    unfold parseJsonFull at h
    cases hp : parseJsonC bytes with
    | none => rfl
    | some j => rw [hp] at h; cases h
  simp only [unmarshalResourceBytes, unmarshalPartialResourceBytes, unmarshalCollectionBytes,
    unmarshalDocumentBytes, unmarshalIdentifierBytes, unmarshalIdentifiersBytes, hc, and_self]

/-! ### 2. Accepted results conform to the schema -/

/-- Resource, collection, document (primary data and included), identifier, identifiers. -/
theorem C05B_conforms (D : Delegated) (σ : SSchema) (hσ : σ.WF) (bytes : GoString) :
    (∀ r, unmarshalResourceBytes D σ bytes = .ok r → Conforms σ r) ∧
    (∀ rs, unmarshalCollectionBytes D σ bytes = .ok rs → ∀ r ∈ rs, Conforms σ r) ∧
    (∀ d, unmarshalDocumentBytes D σ bytes = .ok d →
      (∀ r, d.data = .res r → Conforms σ r) ∧
      (∀ rs, d.data = .col rs → ∀ r ∈ rs, Conforms σ r) ∧
      (∀ r ∈ d.included, Conforms σ r)) ∧
    (∀ i, unmarshalIdentifierBytes (some σ) bytes = .ok i →
      i.1 ≠ [] ∧ i.2 ≠ [] ∧ σ.toSchema.hasType i.2 = true) ∧
    (∀ is, unmarshalIdentifiersBytes (some σ) bytes = .ok is →
      ∀ i ∈ is, i.1 ≠ [] ∧ i.2 ≠ [] ∧ σ.toSchema.hasType i.2 = true) := by
  refine ⟨?_, ?_, ?_, ?_, ?_⟩
  · intro r h
    unfold unmarshalResourceBytes at h
    split at h
    · cases h
    · split at h
      · cases h
      · exact C05_conforms σ hσ _ r h
  · intro rs h
    unfold unmarshalCollectionBytes at h
    split at h
    · cases h
    · split at h
      · cases h
      · exact (C05_collection σ hσ _ rs h).2
  · intro d h
    unfold unmarshalDocumentBytes at h
    split at h
    · cases h
    · exact C05_document σ hσ _ d h
  · intro i h
    unfold unmarshalIdentifierBytes at h
    split at h
    · cases h
    · exact ((C05_identifiers σ).1 _ i h).2
  · intro is h
    unfold unmarshalIdentifiersBytes at h
    split at h
    · cases h
    · rename_i j _
      cases hd : decodeRaws j with
      | none => rw [hd] at h; simp [unmarshalIdentifiers] at h
      | some l =>
        rw [hd] at h
        exact ((C05_identifiers σ).2 _ is h).2

/-- The type of an accepted resource is the one the payload names, and it is in the schema. -/
theorem C05B_type (D : Delegated) (σ : SSchema) (hσ : σ.WF) (bytes : GoString) (r : AnyRes)
    (h : unmarshalResourceBytes D σ bytes = .ok r) :
    ∃ j sk, parseJsonC bytes = some j ∧ decodeRes D j = some sk ∧
      σ.toSchema.hasType sk.typ = true ∧ ∃ v, r.view? = some v ∧ v.typeName = sk.typ := by
  unfold unmarshalResourceBytes at h
  split at h
  · cases h
  · rename_i j hj
    split at h
    · cases h
    · rename_i sk hsk
      exact ⟨j, sk, hj, hsk, C05_type σ hσ sk r h⟩

/-! ### 3. Partial unmarshaling accepts exactly the byte strings full unmarshaling accepts -/

theorem C05B_partial_iff (D : Delegated) (σ : SSchema) (hσ : σ.WF) (bytes : GoString) :
    ((∃ s, unmarshalPartialResourceBytes D σ bytes = .ok s) ↔
      (∃ r, unmarshalResourceBytes D σ bytes = .ok r)) ∧
    (unmarshalPartialResourceBytes D σ bytes = .err ↔ unmarshalResourceBytes D σ bytes = .err) := by
  cases h1 : parseJsonC bytes with
  | none =>
    simp [unmarshalPartialResourceBytes, unmarshalResourceBytes, h1]
  | some j =>
    cases h2 : decodeRes D j with
    | none =>
      simp [unmarshalPartialResourceBytes, unmarshalResourceBytes, h1, h2]
    | some sk =>
      simp only [unmarshalPartialResourceBytes, unmarshalResourceBytes, h1, h2]
      exact ⟨C13_accept_iff σ hσ sk, C13_reject_iff σ hσ sk⟩

/-- The skeleton the decoder hands over has distinct keys in `attributes` and in
`relationships` (they are Go maps): the hypothesis of `C13_fields` / `C13_values` holds for
every payload, so the partial resource has exactly the payload's fields. -/
theorem C05B_partial_fields (D : Delegated) (σ : SSchema) (hσ : σ.WF) (bytes : GoString) (s : Soft)
    (h : unmarshalPartialResourceBytes D σ bytes = .ok s) :
    ∃ j sk, parseJsonC bytes = some j ∧ decodeRes D j = some sk ∧
      sk.attrs.keys.Nodup ∧ sk.rels.keys.Nodup ∧
      ∃ st ∈ σ, st.typ.name = sk.typ ∧ s.typ.name = st.typ.name ∧ s.id = sk.id ∧
        (∀ key, s.typ.attrs.has key = true ↔ sk.attrs.has key = true) ∧
        (∀ key, s.typ.rels.has key = true ↔ (∃ v, sk.rels.get? key = some v ∧ v.present = true)) := by
  unfold unmarshalPartialResourceBytes at h
  split at h
  · cases h
  · rename_i j hj
    split at h
    · cases h
    · rename_i sk hsk
      have hk := DecL.decodeRes_nodup D j sk hsk
      obtain ⟨st, hst, h1, h2, h3, h4, _, h6, _⟩ := C13_fields σ hσ sk s hk h
      exact ⟨j, sk, hj, hsk, hk.1, hk.2, st, hst, h1, h2, h3, h4, h6⟩

/-! ### 4. The reader -/

/-- White space before the value is not part of it: all six entry points read `ws ++ bytes`
as they read `bytes`. (The weaker, proved part of "inserting white space between tokens does not
change the outcome"; white space between tokens and after the value is compared with the real
decoder by suite `bytes2` on half of its payloads.) -/
theorem C05B_ws_invariant_partial (D : Delegated) (σ : SSchema) (ws bytes : GoString)
    (h1 : ws.all isWs = true) :
    parseJsonFull (ws ++ bytes) = parseJsonFull bytes ∧
    unmarshalResourceBytes D σ (ws ++ bytes) = unmarshalResourceBytes D σ bytes ∧
    unmarshalPartialResourceBytes D σ (ws ++ bytes) = unmarshalPartialResourceBytes D σ bytes ∧
    unmarshalCollectionBytes D σ (ws ++ bytes) = unmarshalCollectionBytes D σ bytes ∧
    unmarshalDocumentBytes D σ (ws ++ bytes) = unmarshalDocumentBytes D σ bytes ∧
    unmarshalIdentifierBytes (some σ) (ws ++ bytes) = unmarshalIdentifierBytes (some σ) bytes ∧
    unmarshalIdentifiersBytes (some σ) (ws ++ bytes) = unmarshalIdentifiersBytes (some σ) bytes := by
  have h := DecL.parseJsonC_ws_leading ws bytes h1
  simp only [parseJsonFull, unmarshalResourceBytes, unmarshalPartialResourceBytes,
    unmarshalCollectionBytes, unmarshalDocumentBytes, unmarshalIdentifierBytes,
    unmarshalIdentifiersBytes, h, and_self]

/-- The full-grammar reader extends the strict compact reader on the text the model's renderer
writes: for a tree whose numbers match the JSON grammar and that is nested at most 10000 deep
(`FullL.depth`), `Spec.parseJson` gives the tree back (`JsonL.parseJson_render`) and
`parseJsonFull` gives the same tree with every string `s` (keys included) read as Go reads the
rendered literal, `unquote (renderStrBody s)` - the only place where the two readers can
differ (`Spec.parseJson` copies bytes that are not UTF-8, Go replaces them by U+FFFD). -/
theorem C05B_render_roundtrip (t : Json) (h : t.numsOk = true) (hd : FullL.depth t ≤ maxDepth) :
    Spec.parseJson t.render = some t ∧
    parseJsonFull t.render = some (FullL.mapStr (fun s => unquote (renderStrBody s)) t) := by
  refine ⟨JsonL.parseJson_render t h, ?_⟩
  unfold parseJsonFull
  rw [FullL.parseJsonC_render t h hd]
  exact congrArg some (FullL.toJson_toC t)

/-- When every string and key of the tree is made of printable ASCII bytes that the renderer
does not escape (`FullL.plainByte`: 0x20..0x7F without `"` `\` `<` `>` `&`), the two readers
agree: both give the tree back. (The weaker, proved part of "parseJsonFull (render j) = some j";
escapes and multi-byte characters are compared with the real decoder by suite `bytes2`.) -/
theorem C05B_render_roundtrip_partial (t : Json) (h : t.numsOk = true)
    (hd : FullL.depth t ≤ maxDepth) (hs : FullL.strsAll (fun s => s.all FullL.plainByte) t = true) :
    parseJsonFull t.render = Spec.parseJson t.render ∧ parseJsonFull t.render = some t := by
  obtain ⟨h1, h2⟩ := C05B_render_roundtrip t h hd
  have e := FullL.mapStr_id (fun s => unquote (renderStrBody s)) (fun s => s.all FullL.plainByte)
    (fun s hp => FullL.unquote_render_plain s hp) t hs
  rw [e] at h2
  exact ⟨h2.trans h1.symm, h2⟩

/-! ### Non-vacuity -/

/-- `{ "Id" : "1", "type":"t" , "attributes":{"a":7,"a":-128}, "relationships" : {"o":{"data":{"id":"k","type":"u"}}} }`
followed by a line feed: white space between tokens, the case variant `Id`, the key `a` twice
(the last value counts) and the escape `k` for `k`. -/
def C05B_exBytes : GoString :=
  [123, 32, 34, 73, 100, 34, 32, 58, 32, 34, 49, 34, 44, 32, 34, 116, 121, 112, 101, 34, 58, 34,
   116, 34, 32, 44, 32, 34, 97, 116, 116, 114, 105, 98, 117, 116, 101, 115, 34, 58, 123, 34, 97,
   34, 58, 55, 44, 34, 97, 34, 58, 45, 49, 50, 56, 125, 44, 32, 34, 114, 101, 108, 97, 116, 105,
   111, 110, 115, 104, 105, 112, 115, 34, 32, 58, 32, 123, 34, 111, 34, 58, 123, 34, 100, 97, 116,
   97, 34, 58, 123, 34, 105, 100, 34, 58, 34, 92, 117, 48, 48, 54, 98, 34, 44, 34, 116, 121, 112,
   101, 34, 58, 34, 117, 34, 125, 125, 125, 32, 125, 10]

/-- any decoder will do here: no time attribute, no meta -/
def C05B_exD : Delegated := { decTime := fun _ => none, numCanon := fun l => some l }

set_option maxRecDepth 20000 in
/-- The bytes decode to the skeleton of `C05_exSk` (id "1", type "t", a = -128, o = ("k","u")),
the payload is accepted with a = int8(-128), o = "k", m = [], id = "1"; with `128` as the last
value of `a` it is rejected, and so is the text cut short. -/
example :
    (match (parseJsonC C05B_exBytes).bind (decodeRes C05B_exD) with
      | some sk => sk.id == [49] && sk.typ == [116] &&
          sk.attrs.map (fun p => (p.1, p.2.bytes)) == [([97], [45, 49, 50, 56])] &&
          sk.rels.map (fun p => (p.1, p.2.present, p.2.decIdent)) == [([111], true, some ([107], [117]))]
      | none => false) = true ∧
    (match unmarshalResourceBytes C05B_exD C05_exσ C05B_exBytes with
      | .ok (.soft s) => [s.get [97], s.get [111], s.get [109], s.get idName] ==
          [.val .int8 (.i (-128)), .val .string (.s [107]), .strs [], .val .string (.s [49])]
      | _ => false) = true ∧
    (unmarshalPartialResourceBytes C05B_exD C05_exσ C05B_exBytes).isOk = true ∧
    (unmarshalResourceBytes C05B_exD C05_exσ (C05B_exBytes.take 51 ++ C05B_exBytes.drop 52)).isOk = false ∧
    (match unmarshalResourceBytes C05B_exD C05_exσ (C05B_exBytes.take 100) with
      | .err => true
      | _ => false) = true := by decide

example := C05B_total C05B_exD C05_exσ C05_exσ_wf C05B_exBytes

set_option maxRecDepth 20000 in
/-- Strings as Go decodes them: the surrogate pair D83D DE00 is U+1F600, a lone D800 and the byte
FF are U+FFFD each; `"😀\ud800` FF `"` reads as F0 9F 98 80, EF BF BD, EF BF BD. -/
example :
    (parseJsonFull [34, 92, 117, 100, 56, 51, 100, 92, 117, 100, 101, 48, 48, 92, 117, 100, 56, 48, 48, 0xFF, 34]).map
        (fun j => match j with
          | .str s => s
          | _ => [])
      = some [0xF0, 0x9F, 0x98, 0x80, 0xEF, 0xBF, 0xBD, 0xEF, 0xBF, 0xBD] ∧
    -- ` [ TAB 1 , LF true CR ] ` is `[1,true]`
    (parseJsonFull [32, 91, 9, 49, 32, 44, 10, 116, 114, 117, 101, 13, 93, 32]).map Json.render
      = some [91, 49, 44, 116, 114, 117, 101, 93] ∧
    -- `[1,]`, `01`, a TAB inside a string, a form feed before the value
    (parseJsonFull [91, 49, 44, 93]).isNone = true ∧ (parseJsonFull [48, 49]).isNone = true ∧
    (parseJsonFull [34, 9, 34]).isNone = true ∧ (parseJsonFull [12, 49]).isNone = true := by decide

end Jsonapi

section Axioms
open Jsonapi
#print axioms C05B_total
#print axioms C05B_invalid_json
#print axioms C05B_conforms
#print axioms C05B_type
#print axioms C05B_partial_iff
#print axioms C05B_partial_fields
#print axioms C05B_ws_invariant_partial
#print axioms C05B_render_roundtrip
#print axioms C05B_render_roundtrip_partial
end Axioms
