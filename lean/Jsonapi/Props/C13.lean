/-
C13 — Partial unmarshaling.

"For every payload accepted by partial unmarshaling, the resulting resource's type has the
schema type's name and exactly the attributes that appear in the payload's attributes object
plus the relationships whose object carries a data member - no others - each with the
schema's definition and the value full unmarshaling gives it. A payload is accepted by
partial unmarshaling if and only if full unmarshaling accepts it."

`unmarshalPartialResource` returns the SoftResource itself (`Soft`): `s.typ` is its private
type, `s.get` is `SoftResource.Get`. The keys of the payload's `attributes` / `relationships`
objects are the keys of Go maps, hence distinct: hypotheses `sk.attrs.keys.Nodup`,
`sk.rels.keys.Nodup` of `C13_fields` (`C13_accept_iff` does not need them).
-/
import Jsonapi.Proofs.UnmarshalLemmas7
namespace Jsonapi
open GoMap UnmL

/-! ### 9. Same acceptance -/

theorem C13_accept_iff (σ : SSchema) (hσ : σ.WF) (sk : ResSke) :
    (∃ s, unmarshalPartialResource σ sk = .ok s) ↔ (∃ r, unmarshalResource σ sk = .ok r) := by
  rw [partial_accept hσ sk, resource_accept hσ sk]

/-- Neither panics, so they also reject the same payloads, with an error. -/
theorem C13_reject_iff (σ : SSchema) (hσ : σ.WF) (sk : ResSke) :
    unmarshalPartialResource σ sk = .err ↔ unmarshalResource σ sk = .err := by
  have h := C13_accept_iff σ hσ sk
  have p1 := (partial_spec hσ sk).1
  have p2 := (resource_spec hσ sk).1
  constructor
  · intro e
    cases hr : unmarshalResource σ sk with
    | err => rfl
    | panic => exact absurd hr p2
    | ok r =>
      obtain ⟨s, hs⟩ := h.2 ⟨r, hr⟩
      rw [e] at hs; cases hs
  · intro e
    cases hr : unmarshalPartialResource σ sk with
    | err => rfl
    | panic => exact absurd hr p1
    | ok s =>
      obtain ⟨r, hs⟩ := h.1 ⟨s, hr⟩
      rw [e] at hs; cases hs

/-! ### 10. The fields of the partial resource -/

theorem C13_fields (σ : SSchema) (hσ : σ.WF) (sk : ResSke) (s : Soft)
    (hk : sk.attrs.keys.Nodup ∧ sk.rels.keys.Nodup)
    (h : unmarshalPartialResource σ sk = .ok s) :
    ∃ st ∈ σ, st.typ.name = sk.typ ∧ s.typ.name = st.typ.name ∧ s.id = sk.id ∧
      (∀ key, s.typ.attrs.has key = true ↔ sk.attrs.has key = true) ∧
      (∀ key a, s.typ.attrs.get? key = some a → st.typ.attrs.get? key = some a) ∧
      (∀ key, s.typ.rels.has key = true ↔ (∃ v, sk.rels.get? key = some v ∧ v.present = true)) ∧
      (∀ key rel, s.typ.rels.get? key = some rel → st.typ.rels.get? key = some rel) ∧
      (∀ r, unmarshalResource σ sk = .ok r → ∀ v, r.view? = some v →
        ∀ key, (s.typ.attrs.has key = true ∨ s.typ.rels.has key = true) →
          Spec.canon (s.get key) = Spec.canon (v.get key)) := by
  obtain ⟨st, hg, okA, okR, _, pinv⟩ := ((partial_spec hσ sk).2 s).1 h
  obtain ⟨hm, hname⟩ := getType_some hg
  obtain ⟨_, h2, h3, _⟩ := hσ.2 st hm
  obtain ⟨f1, f2⟩ := partial_field_sets h2 h3 sk hk.2 okA okR pinv
  refine ⟨st, hm, hname, pinv.name, by rw [pinv.inv.id, specId_fullHist h2 h3], f1, pinv.sub.1, f2,
    pinv.sub.2, ?_⟩
  intro r hr v hv key hkey
  obtain ⟨st', hg', _, _, _, inv⟩ := ((resource_spec hσ sk).2 r).1 hr
  rw [hg] at hg'; cases hg'
  obtain ⟨v', hv', _, _, e3, _⟩ := inv.view h2 h3
  rw [hv] at hv'; cases hv'
  have hf : key ∈ s.typ.fieldKeys := by
    rcases hkey with hh | hh
    · exact List.mem_append_left _ (has_iff_mem_keys.1 hh)
    · exact List.mem_append_right _ (has_iff_mem_keys.1 hh)
  rw [partial_get h2 h3 pinv hf, e3 key (pinv.sub.fieldKeys hf)]

/-- The values, read without reference to full unmarshaling: an attribute of the payload
reads the value `unmarshalToType` gives it, a relationship with data exactly its IDs. -/
theorem C13_values (σ : SSchema) (hσ : σ.WF) (sk : ResSke) (s : Soft)
    (hk : sk.attrs.keys.Nodup ∧ sk.rels.keys.Nodup)
    (h : unmarshalPartialResource σ sk = .ok s) :
    ∃ st ∈ σ, st.typ.name = sk.typ ∧
      (∀ key raw, sk.attrs.get? key = some raw → ∃ a x, st.typ.attrs.get? key = some a ∧
        unmarshalToType a raw = .ok x ∧ Spec.canon (s.get key) = Spec.canon x) ∧
      (∀ key rv, sk.rels.get? key = some rv → rv.present = true →
        ∃ rel, st.typ.rels.get? key = some rel ∧ (relValue rel rv).1 = some (s.get key)) := by
  obtain ⟨st, hg, okA, okR, _, pinv⟩ := ((partial_spec hσ sk).2 s).1 h
  obtain ⟨hm, hname⟩ := getType_some hg
  obtain ⟨_, h2, h3, _⟩ := hσ.2 st hm
  obtain ⟨f1, f2⟩ := partial_field_sets h2 h3 sk hk.2 okA okR pinv
  obtain ⟨r1, r2, _⟩ := fullHist_reads h2 h3 sk hk.1 hk.2 okA okR
  refine ⟨st, hm, hname, ?_, ?_⟩
  · intro key raw hkr
    obtain ⟨a, x, ha, hx, hs⟩ := r1 key raw hkr
    have hf : key ∈ s.typ.fieldKeys :=
      List.mem_append_left _ (has_iff_mem_keys.1 ((f1 key).2
        (has_iff_mem_keys.2 (mem_keys_of_get? hkr))))
    exact ⟨a, x, ha, hx, (partial_get h2 h3 pinv hf).trans hs⟩
  · intro key rv hkr hp
    obtain ⟨rel, hr, _, hpres⟩ := r2 key rv hkr
    obtain ⟨x, hx, hs⟩ := hpres hp
    have hf : key ∈ s.typ.fieldKeys :=
      List.mem_append_right _ (has_iff_mem_keys.1 ((f2 key).2 ⟨rv, hkr, hp⟩))
    have hc := (partial_get h2 h3 pinv hf).trans hs
    refine ⟨rel, hr, ?_⟩
    rw [hx]; congr 1
    have ht := relValue_typed rel rv x hx
    split at ht
    · obtain ⟨id, rfl⟩ := ht; exact (canon_eq_string hc).symm
    · obtain ⟨l, rfl⟩ := ht; exact (canon_eq_strs hc).symm

/-! ### Non-vacuity -/

/-- Type "t": attributes "a" (int8) and "b" (nullable string), to-one "o", to-many "m". -/
def C13_exT : Typ :=
  { name := [116],
    attrs := [([97], { name := [97], ty := 3, nullable := false }),
              ([98], { name := [98], ty := 1, nullable := true })],
    rels := [([111], { fromType := [116], fromName := [111], toOne := true, toType := [117], toName := [], fromOne := false }),
             ([109], { fromType := [116], fromName := [109], toOne := false, toType := [117], toName := [], fromOne := false })] }

def C13_exσ : SSchema := [{ typ := C13_exT, backed := false }]

/-- attributes {"a": 7}; relationships {"o": {"data": {"id":"k","type":"u"}}, "m": {}} -/
def C13_exSk : ResSke :=
  { id := [49], typ := [116],
    attrs := [([97], { bytes := [55], decStr := none, decTime := none, decBytes := none })],
    rels := [([111], { present := true, isNull := false, decIdent := some ([107], [117]), decIdents := none }),
             ([109], { present := false, isNull := false, decIdent := none, decIdents := none })],
    smeta := default }

theorem C13_exσ_wf : C13_exσ.WF := by
  refine ⟨by decide, ?_⟩
  intro st hst
  simp only [C13_exσ, List.mem_singleton] at hst
  subst hst
  exact ⟨by decide, ⟨by decide, by decide, by decide, by decide, by decide⟩, by decide, by decide⟩

/-- The partial resource has exactly the fields "a" and "o" (not "b", not "m"), with the
payload's values; the full resource is accepted too. -/
example :
    C13_exSk.attrs.keys.Nodup ∧ C13_exSk.rels.keys.Nodup ∧
    (match unmarshalPartialResource C13_exσ C13_exSk with
      | .ok s => s.typ.attrs.keys == [[97]] && s.typ.rels.keys == [[111]] && s.id == [49] &&
          s.get [97] == .val .int8 (.i 7) && s.get [111] == .val .string (.s [107]) &&
          s.get [98] == .nil
      | _ => false) = true ∧
    (unmarshalResource C13_exσ C13_exSk).isOk = true := by decide

example := C13_accept_iff C13_exσ C13_exσ_wf C13_exSk

end Jsonapi

section Axioms
open Jsonapi
#print axioms C13_accept_iff
#print axioms C13_reject_iff
#print axioms C13_fields
#print axioms C13_values
#print axioms C13_exσ_wf
end Axioms
