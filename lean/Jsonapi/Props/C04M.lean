/-
C04 on the MODEL's output (work package W1).

The "exactly / iff" corollaries of Props/C04.lean (`C04_attr_present_iff`, `C04_rel_present_iff`,
`C04_data_present_iff`, `C04_data_exact`, `C04_no_entry`, `C04_not_selected`) speak about the
specification's tree `Spec.resourceObject …`. Here each is restated about the tree `j` that the
MODEL's `marshalResource` returns - `marshalResource … = .ok (j, r') → …` - and, document-wide,
about every resource object found under `data` and `included` of the tree the model's
`marshalDocument` returns. The transfer is `C04_resource` / `C04_document`.

Domain: as in C04, `ResView.keyedWf` (decidable; `c04_sample` is an instance).
-/
import Jsonapi.Props.C04
import Jsonapi.Proofs.RoundTripLemmas5
namespace Jsonapi
open MarshalL

/-- the tree the model returns is the specification's (from `C04_resource`) -/
theorem C04M_tree (r : ResView) (hr : r.keyedWf) (prepath : GoString) (fields : List GoString)
    (relData : GoMap (List GoString)) (rmeta : Meta) {j : Json} {r' : ResView}
    (h : marshalResource r prepath fields relData rmeta = .ok (j, r')) :
    j = Spec.resourceObject r prepath fields relData rmeta := by
  obtain ⟨r'', h', _⟩ := C04_resource r hr prepath fields relData rmeta
  rw [h] at h'
  cases h'
  rfl

/-- 2a on the model's output: a name is a member of "attributes" iff it is the name of an
attribute of the resource and the selection lists it. -/
theorem C04M_attr_present_iff (r : ResView) (hr : r.keyedWf) (prepath : GoString)
    (fields : List GoString) (relData : GoMap (List GoString)) (rmeta : Meta) {j : Json} {r' : ResView}
    (h : marshalResource r prepath fields relData rmeta = .ok (j, r')) (n : GoString) :
    (∃ a, j.get? K.attributes = some a ∧ a.has n = true) ↔
    ((∃ a ∈ r.attrs.vals, a.name = n) ∧ n ∈ fields) := by
  rw [C04M_tree r hr prepath fields relData rmeta h]
  exact C04_attr_present_iff r prepath fields relData rmeta n

/-- 2b on the model's output: a name is a member of "relationships" iff it is the name of a
relationship of the resource and the selection lists it. -/
theorem C04M_rel_present_iff (r : ResView) (hr : r.keyedWf) (prepath : GoString)
    (fields : List GoString) (relData : GoMap (List GoString)) (rmeta : Meta) {j : Json} {r' : ResView}
    (h : marshalResource r prepath fields relData rmeta = .ok (j, r')) (n : GoString) :
    (∃ a, j.get? K.relationships = some a ∧ a.has n = true) ↔
    ((∃ rel ∈ r.rels.vals, rel.fromName = n) ∧ n ∈ fields) := by
  rw [C04M_tree r hr prepath fields relData rmeta h]
  exact C04_rel_present_iff r prepath fields relData rmeta n

/-- 2c on the model's output: the relationship object of a selected relationship has a "data"
member iff the document's relData lists the relationship for the resource's type. -/
theorem C04M_data_present_iff (r : ResView) (hr : r.keyedWf) (prepath : GoString)
    (fields : List GoString) (relData : GoMap (List GoString)) (rmeta : Meta) {j : Json} {r' : ResView}
    (h : marshalResource r prepath fields relData rmeta = .ok (j, r'))
    (rel : Rel) (hrel : rel ∈ r.rels.vals) (hf : rel.fromName ∈ fields) :
    ∃ rs ro, j.get? K.relationships = some rs ∧ rs.get? rel.fromName = some ro ∧
      (ro.has K.data = true ↔ rel.fromName ∈ (relData.get? r.typeName).getD []) := by
  rw [C04M_tree r hr prepath fields relData rmeta h]
  exact C04_data_present_iff r hr prepath fields relData rmeta rel hrel hf

/-- 3 on the model's output: the data member of a selected and requested relationship lists
exactly the related IDs with the target type (null for an empty to-one). -/
theorem C04M_data_exact (r : ResView) (hr : r.keyedWf) (prepath : GoString)
    (fields : List GoString) (relData : GoMap (List GoString)) (rmeta : Meta) {j : Json} {r' : ResView}
    (h : marshalResource r prepath fields relData rmeta = .ok (j, r'))
    (rel : Rel) (hrel : rel ∈ r.rels.vals) (hf : rel.fromName ∈ fields)
    (hw : rel.fromName ∈ (relData.get? r.typeName).getD []) :
    (∃ rs ro, j.get? K.relationships = some rs ∧
      rs.get? rel.fromName = some ro ∧ ro.get? K.data = some (Spec.relDataJson r rel)) ∧
    (rel.toOne = true → ∃ id, r.get rel.fromName = .val .string (.s id) ∧
      Spec.relDataJson r rel = if id = [] then .null else identifierJson id rel.toType) ∧
    (rel.toOne = false → ∃ (ids sorted : List GoString), r.get rel.fromName = .strs ids ∧ sorted.Perm ids ∧
      Spec.relDataJson r rel = .arr (sorted.map (fun id => identifierJson id rel.toType))) := by
  rw [C04M_tree r hr prepath fields relData rmeta h]
  exact C04_data_exact r hr prepath fields relData rmeta rel hrel hf hw

/-- On the model's output: a type without a selection entry exposes no attributes and no
relationships. -/
theorem C04M_no_entry (r : ResView) (hr : r.keyedWf) (prepath : GoString) (fields : GoMap (List GoString))
    (relData : GoMap (List GoString)) (rmeta : Meta) {j : Json} {r' : ResView}
    (h : marshalResource r prepath (Spec.selection fields r.typeName) relData rmeta = .ok (j, r'))
    (hn : fields.get? r.typeName = none) :
    j.has K.attributes = false ∧ j.has K.relationships = false := by
  rw [C04M_tree r hr prepath _ relData rmeta h]
  exact C04_no_entry r prepath fields relData rmeta hn

/-- On the model's output: nothing outside the selection is ever exposed. -/
theorem C04M_not_selected (r : ResView) (hr : r.keyedWf) (prepath : GoString) (fields : List GoString)
    (relData : GoMap (List GoString)) (rmeta : Meta) {j : Json} {r' : ResView}
    (h : marshalResource r prepath fields relData rmeta = .ok (j, r')) (n : GoString) (hn : n ∉ fields) :
    (¬ ∃ a, j.get? K.attributes = some a ∧ a.has n = true) ∧
    (¬ ∃ a, j.get? K.relationships = some a ∧ a.has n = true) := by
  rw [C04M_tree r hr prepath fields relData rmeta h]
  exact C04_not_selected r prepath fields relData rmeta n hn

/-! ### Document level -/

/-- What the property says of ONE resource object `j` of a marshaled document, for the resource
`r` it stands for: attribute names present = attributes of `r` that the selection of `r`'s type
lists; relationship names present = the selected relationships; a data member iff requested, and
then exactly `Spec.relDataJson` (the related IDs with the target type, null for an empty to-one:
`C04M_data_exact`); nothing outside the selection; nothing at all without a selection entry. -/
def C04M.MemberOK (fields relData : GoMap (List GoString)) (r : ResView) (j : Json) : Prop :=
  (∀ n, (∃ a, j.get? K.attributes = some a ∧ a.has n = true) ↔
      ((∃ a ∈ r.attrs.vals, a.name = n) ∧ n ∈ Spec.selection fields r.typeName)) ∧
  (∀ n, (∃ a, j.get? K.relationships = some a ∧ a.has n = true) ↔
      ((∃ rel ∈ r.rels.vals, rel.fromName = n) ∧ n ∈ Spec.selection fields r.typeName)) ∧
  (∀ rel ∈ r.rels.vals, rel.fromName ∈ Spec.selection fields r.typeName →
      ∃ rs ro, j.get? K.relationships = some rs ∧ rs.get? rel.fromName = some ro ∧
        (ro.has K.data = true ↔ rel.fromName ∈ (relData.get? r.typeName).getD []) ∧
        (rel.fromName ∈ (relData.get? r.typeName).getD [] →
          ro.get? K.data = some (Spec.relDataJson r rel))) ∧
  (∀ n, n ∉ Spec.selection fields r.typeName →
      (¬ ∃ a, j.get? K.attributes = some a ∧ a.has n = true) ∧
      (¬ ∃ a, j.get? K.relationships = some a ∧ a.has n = true)) ∧
  (fields.get? r.typeName = none → j.has K.attributes = false ∧ j.has K.relationships = false)

/-- the specification's object of a resource of the domain meets every clause -/
theorem C04M.memberOK_spec (fields relData : GoMap (List GoString)) (prepath : GoString)
    (r : ResView) (hr : r.keyedWf) :
    C04M.MemberOK fields relData r
      (Spec.resourceObject r prepath (Spec.selection fields r.typeName) relData) := by
  refine ⟨fun n => C04_attr_present_iff r prepath _ relData [] n,
    fun n => C04_rel_present_iff r prepath _ relData [] n, ?_,
    fun n hn => C04_not_selected r prepath _ relData [] n hn,
    fun hn => C04_no_entry r prepath fields relData [] hn⟩
  intro rel hrel hf
  obtain ⟨rs, ro, h1, h2, h3⟩ := C04_data_present_iff r hr prepath _ relData [] rel hrel hf
  refine ⟨rs, ro, h1, h2, h3, ?_⟩
  intro hw
  obtain ⟨⟨rs', ro', h1', h2', h3'⟩, _⟩ := C04_data_exact r hr prepath _ relData [] rel hrel hf hw
  rw [h1] at h1'
  cases h1'
  rw [h2] at h2'
  cases h2'
  exact h3'

theorem C04M.forall2_map (fields relData : GoMap (List GoString)) (prepath : GoString) :
    ∀ (l : List ResView), (∀ r ∈ l, r.keyedWf) →
      Forall2 (C04M.MemberOK fields relData) l
        (l.map (fun r => Spec.resourceObject r prepath (Spec.selection fields r.typeName) relData))
  | [], _ => .nil
  | r :: l, h =>
    .cons (C04M.memberOK_spec fields relData prepath r (h r (List.mem_cons_self ..)))
      (C04M.forall2_map fields relData prepath l (fun x hx => h x (List.mem_cons_of_mem _ hx)))

/-- The resource the model's `marshalResource` writes for a document member: every clause. -/
theorem C04M_resource_member (r : ResView) (hr : r.keyedWf) (prepath : GoString)
    (fields relData : GoMap (List GoString)) {j : Json} {r' : ResView}
    (h : marshalResource r prepath (Spec.selection fields r.typeName) relData [] = .ok (j, r')) :
    C04M.MemberOK fields relData r j := by
  rw [C04M_tree r hr prepath _ relData [] h]
  exact C04M.memberOK_spec fields relData prepath r hr

/-- Every member of the array the model's `marshalCollection` returns, paired in order with the
collection's resources, meets every clause. -/
theorem C04M_collection_members (c : List ResView) (hc : ∀ r ∈ c, r.keyedWf) (prepath : GoString)
    (fields relData : GoMap (List GoString)) {j : Json} {c' : List ResView}
    (h : marshalCollection c prepath fields relData = .ok (j, c')) :
    ∃ js, j = .arr js ∧ Forall2 (C04M.MemberOK fields relData) c js := by
  obtain ⟨c'', h'⟩ := C04_collection c hc prepath fields relData
  rw [h] at h'
  cases h'
  exact ⟨_, rfl, C04M.forall2_map fields relData prepath c hc⟩

/-- Every resource object of the tree the model's `marshalDocument` returns - the primary
resource, each member of a primary collection (in the collection's order), each member of
`included` (in ID order) - meets every clause of the property, each with the selection of ITS OWN
type. (A document carrying errors has neither member: `RtL.tree_errors`.) -/
theorem C04M_document_members (doc : Document) (hdom : ∀ r ∈ docResources doc, r.keyedWf)
    (fields : GoMap (List GoString)) (selfHref : GoString) {t : Json} {doc' : Document}
    (h : marshalDocument doc fields selfHref = .ok (t, doc')) (he : doc.errors = []) :
    (∀ r, doc.data = .res r → ∃ j, t.get? K.data = some j ∧ C04M.MemberOK fields doc.relData r j) ∧
    (∀ x ms, doc.data = .col x ms →
      ∃ js, t.get? K.data = some (.arr js) ∧ Forall2 (C04M.MemberOK fields doc.relData) ms js) ∧
    (doc.included ≠ [] →
      ∃ js, t.get? K.included = some (.arr js) ∧
        Forall2 (C04M.MemberOK fields doc.relData) (sortById doc.included) js) ∧
    (doc.included = [] → t.get? K.included = none) := by
  have hspec : Spec.documentTree doc fields selfHref = some t := by
    obtain ⟨h1, h2⟩ := C04_document doc hdom fields selfHref
    cases hs : Spec.documentTree doc fields selfHref with
    | none => rw [h1 hs] at h; cases h
    | some t' =>
      obtain ⟨d'', h3⟩ := h2 t' hs
      rw [h] at h3
      cases h3
      rfl
  obtain ⟨dj, hdj⟩ := RtL.dataMember_of_tree hspec he
  obtain ⟨_, hdata, hinc⟩ := RtL.tree_data hspec he hdj
  refine ⟨?_, ?_, ?_, ?_⟩
  · intro r hr
    refine ⟨dj, hdata, ?_⟩
    have hwf : r.keyedWf := hdom r (by simp [docResources, docPrimary, hr])
    have : dj = Spec.resourceObject r doc.prePath (Spec.selection fields r.typeName) doc.relData := by
      unfold Spec.dataMember at hdj
      rw [hr] at hdj
      cases hdj
      rfl
    rw [this]
    exact C04M.memberOK_spec fields doc.relData doc.prePath r hwf
  · intro x ms hr
    have hwf : ∀ r ∈ ms, r.keyedWf := fun r hm => hdom r (by simp [docResources, docPrimary, hr, hm])
    have : dj = .arr (ms.map (fun r =>
        Spec.resourceObject r doc.prePath (Spec.selection fields r.typeName) doc.relData)) := by
      unfold Spec.dataMember at hdj
      rw [hr] at hdj
      cases hdj
      rfl
    rw [this] at hdata
    exact ⟨_, hdata, C04M.forall2_map fields doc.relData doc.prePath ms hwf⟩
  · intro hne
    have hi : doc.included.isEmpty = false := by
      cases hl : doc.included with
      | nil => exact absurd hl hne
      | cons a l => rfl
    rw [hi] at hinc
    simp only [Bool.false_eq_true, if_false] at hinc
    refine ⟨_, hinc, C04M.forall2_map fields doc.relData doc.prePath _ ?_⟩
    intro r hm
    have hm' : r ∈ doc.included := (MarshalL.sortById_perm doc.included).mem_iff.1 hm
    exact hdom r (by simp [docResources, hm'])
  · intro hnil
    rw [hnil] at hinc
    exact hinc

/-! ### non-vacuity -/

/-- `c04_sample` is in the domain; the model marshals it and the theorems apply to what it returns -/
example : ∃ j r', marshalResource c04_sample [47] [[116], [105, 100], [122], [116]] [] [] = .ok (j, r') := by
  obtain ⟨r', h, _⟩ := C04_resource c04_sample (by decide) [47] [[116], [105, 100], [122], [116]] [] []
  exact ⟨_, r', h⟩

/-- a document with the sample as primary data and as included resource -/
def c04m_doc : Document :=
  { (default : Document) with data := .res c04_sample, included := [c04_sample], errors := [] }

example : (∀ r ∈ docResources c04m_doc, r.keyedWf) ∧ c04m_doc.errors = [] ∧ c04m_doc.included ≠ [] := by
  decide

end Jsonapi

section Axioms
open Jsonapi
#print axioms C04M_tree
#print axioms C04M_attr_present_iff
#print axioms C04M_rel_present_iff
#print axioms C04M_data_present_iff
#print axioms C04M_data_exact
#print axioms C04M_no_entry
#print axioms C04M_not_selected
#print axioms C04M_resource_member
#print axioms C04M_collection_members
#print axioms C04M_document_members
end Axioms
