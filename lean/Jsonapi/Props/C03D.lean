/-
C03D (work package W2) — the resource-object clauses of C03 at the DOCUMENT level, for the
tree the model's `MarshalDocument` returns, and the Include uniqueness on the OUTPUT TREE.

`C03_resource_object` (Props/C03.lean) covers one object of the specification
(`Spec.resourceObject`); the model's `marshalResource` is that object only on the domain
`keyedWf` (C04_resource). Here the clauses are proved for whatever the MODEL returns:

* `C03_marshalResource_shape`: a successful `marshalResource r …` - ANY resource `r`, no
  well-formedness hypothesis: duplicate names, ill-typed values, attribute and relationship of
  one name - returns an object with string `type` = the resource's type name, string `id` = its
  ID, `links.self` = prefix + type + "/" + id (`buildSelfLink`), and every member of
  `relationships` is an object whose `links` are the `self` / `related` strings of
  `buildRelationshipLinks` and whose `data`, when present, is null, one identifier or an array
  of identifiers (`IsLinkage`);
* `C03_document_resource_objects`: for `marshalDocument doc fields url = .ok (t, _)` - any
  document - the `data` member of `t`, when present, is such an object for the primary
  resource / an array of such objects, one per member of the primary collection in order / the
  identifier(s) / null, and the `included` member, when present, is an array of such objects,
  one per included resource in the order of `sortById`;
* `C03_include_unique_tree`: after any history of `Include` calls from a document whose
  (type, id) pairs are distinct, no (type, id) pair occurs twice among the RESOURCE OBJECTS of
  the `data` and `included` members of the marshaled tree (resource identifiers given as
  primary data are not resource objects: `Include` does not look at them, and JSON:API allows a
  resource to be identified in `data` and included in full).
-/
import Jsonapi.Props.C03
namespace Jsonapi
open MarshalL MJsonL

/-! ### the clauses -/

/-- One member `(n, ro)` of a `relationships` object. -/
def RelObjShape (r : ResView) (prepath n : GoString) (ro : Json) : Prop :=
  ro.isObj = true ∧ ro.get? K.links = some (buildRelationshipLinks r prepath n) ∧
  (∀ d, ro.get? K.data = some d → IsLinkage d)

/-- The resource-object clauses of C03 for the object `j` written for the resource `r`. -/
def ResObjShape (prepath : GoString) (r : ResView) (j : Json) : Prop :=
  j.isObj = true ∧ j.get? K.type = some (.str r.typeName) ∧ j.get? K.id = some (.str r.id) ∧
  j.get? K.links = some (.obj [(K.self, .str (buildSelfLink r prepath))]) ∧
  (∀ rs n ro, j.get? K.relationships = some rs → rs.get? n = some ro → RelObjShape r prepath n ro)

/-- What `RelObjShape` says in the words of the property: an object that carries string `self`
and `related` links - prefix + type + "/" + id + "/relationships/" + name and … + "/" + name -
and, when present, data that is linkage. -/
theorem RelObjShape.spelled {r : ResView} {prepath n : GoString} {ro : Json}
    (h : RelObjShape r prepath n ro) :
    ro.isObj = true ∧
    (∃ l, ro.get? K.links = some l ∧
      l.get? K.self = some (.str (buildSelfLink r prepath ++ K.slashRelationships ++ n)) ∧
      l.get? K.related = some (.str (buildSelfLink r prepath ++ K.slash ++ n))) ∧
    (∀ d, ro.get? K.data = some d → IsLinkage d) :=
  ⟨h.1, ⟨_, h.2.1, relLinks_get_self .., relLinks_get_related ..⟩, h.2.2⟩

/-- … and `ResObjShape`: the self link is made of the path prefix, the type and the id. -/
theorem ResObjShape.spelled {prepath : GoString} {r : ResView} {j : Json}
    (h : ResObjShape prepath r j) :
    j.get? K.type = some (.str r.typeName) ∧ j.get? K.id = some (.str r.id) ∧
    (∃ l, j.get? K.links = some l ∧ l.get? K.self = some (.str (buildSelfLink r prepath))) ∧
    (r.id ≠ [] → r.typeName ≠ [] →
      buildSelfLink r prepath =
        (if prepath.getLast? = some 47 then prepath else prepath ++ [47]) ++
          r.typeName ++ [47] ++ r.id) ∧
    (∀ rs n ro, j.get? K.relationships = some rs → rs.get? n = some ro →
      ro.isObj = true ∧
      (∃ l s1 s2, ro.get? K.links = some l ∧ l.get? K.self = some (.str s1) ∧
        l.get? K.related = some (.str s2)) ∧
      (∀ d, ro.get? K.data = some d → IsLinkage d)) := by
  obtain ⟨_, h1, h2, h3, h4⟩ := h
  refine ⟨h1, h2, ⟨_, h3, by simp [Json.get?]⟩, ?_, ?_⟩
  · intro e1 e2
    simp [buildSelfLink, e1, e2, K.slash]
  · intro rs n ro hr hn
    obtain ⟨a, ⟨l, b1, b2, b3⟩, c⟩ := (h4 rs n ro hr hn).spelled
    exact ⟨a, ⟨l, _, _, b1, b2, b3⟩, c⟩

/-! ### one relationship object of the model -/

theorem relObj_links (x l : Json) :
    (Json.obj [(K.data, x), (K.links, l)]).get? K.links = some l ∧
    (Json.obj [(K.data, x), (K.links, l)]).get? K.data = some x ∧
    (Json.obj [(K.links, l)]).get? K.links = some l ∧
    (Json.obj [(K.links, l)]).get? K.data = none := by
  have e1 : decide (K.data = K.links) = false := by decide
  have e2 : decide (K.links = K.data) = false := by decide
  refine ⟨?_, ?_, ?_, ?_⟩ <;> simp [Json.get?, List.find?, e1, e2]

/-- whatever relationship object the model's `marshalRel` returns, for a resource `r'` that has
the type name and ID of `r` -/
theorem marshalRel_shape {r r' : ResView} (hid : r'.id = r.id) (htn : r'.typeName = r.typeName)
    {prepath : GoString} {rel : Rel} {w : Bool} {j : Json} {o : Option (List GoString)}
    (h : marshalRel r' prepath rel w = .ok (j, o)) : RelObjShape r prepath rel.fromName j := by
  have hl : buildRelationshipLinks r' prepath rel.fromName = buildRelationshipLinks r prepath rel.fromName :=
    buildRelationshipLinks_congr hid htn prepath rel.fromName
  unfold marshalRel at h
  simp only [] at h
  rw [hl] at h
  split at h
  · split at h
    · split at h
      · simp only [Res.ok.injEq, Prod.mk.injEq] at h
        rw [← h.1]
        refine ⟨rfl, (relObj_links _ _).1, ?_⟩
        intro d hd
        rw [(relObj_links _ _).2.1, Option.some.injEq] at hd
        subst hd
        split
        · exact Or.inr (Or.inl ⟨_, _, rfl⟩)
        · exact Or.inl rfl
      · cases h
    · simp only [Res.ok.injEq, Prod.mk.injEq] at h
      rw [← h.1]
      refine ⟨rfl, (relObj_links .null _).2.2.1, ?_⟩
      intro d hd
      rw [(relObj_links .null _).2.2.2] at hd; cases hd
  · split at h
    · split at h
      · simp only [Res.ok.injEq, Prod.mk.injEq] at h
        rw [← h.1]
        refine ⟨rfl, (relObj_links _ _).1, ?_⟩
        intro d hd
        rw [(relObj_links _ _).2.1, Option.some.injEq] at hd
        subst hd
        exact Or.inr (Or.inr ⟨_, _, rfl⟩)
      · cases h
    · simp only [Res.ok.injEq, Prod.mk.injEq] at h
      rw [← h.1]
      refine ⟨rfl, (relObj_links .null _).2.2.1, ?_⟩
      intro d hd
      rw [(relObj_links .null _).2.2.2] at hd; cases hd

/-! ### one resource object of the model -/

/-- the members of a resource object, given the relationship members -/
theorem resMembers_shape (r : ResView) (prepath : GoString)
    (attrs rels : List (GoString × Json)) (rmeta : Meta)
    (hr : ∀ p ∈ rels, RelObjShape r prepath p.1 p.2) :
    ResObjShape prepath r (Json.obj (sortMembers (
      [(K.id, Json.str r.id), (K.type, Json.str r.typeName),
       (K.links, Json.obj [(K.self, .str (buildSelfLink r prepath))])] ++
      (if attrs.isEmpty then [] else [(K.attributes, Json.obj (sortMembers attrs))]) ++
      (if rels.isEmpty then [] else [(K.relationships, Json.obj (sortMembers rels))]) ++
      (if rmeta.isEmpty then [] else [(K.kmeta, Json.obj rmeta)])))) := by
  have hnd : (([(K.id, Json.str r.id), (K.type, Json.str r.typeName),
       (K.links, Json.obj [(K.self, .str (buildSelfLink r prepath))])] ++
      (if attrs.isEmpty then [] else [(K.attributes, Json.obj (sortMembers attrs))]) ++
      (if rels.isEmpty then [] else [(K.relationships, Json.obj (sortMembers rels))]) ++
      (if rmeta.isEmpty then [] else [(K.kmeta, Json.obj rmeta)])).map (·.1)).Nodup := by
    cases attrs.isEmpty <;> cases rels.isEmpty <;> cases rmeta.isEmpty <;>
    (simp only [Bool.false_eq_true, if_false, if_true, List.append_nil, List.cons_append,
        List.nil_append, List.map_cons, List.map_nil]; decide)
  refine ⟨rfl, get?_sortMembers_of_mem hnd (by simp), get?_sortMembers_of_mem hnd (by simp),
    get?_sortMembers_of_mem hnd (by simp), ?_⟩
  intro rs n ro h1 h2
  have hm := mem_of_get?_sortMembers h1
  simp only [List.mem_append, List.mem_cons, List.not_mem_nil, or_false, Prod.mk.injEq] at hm
  rcases hm with ((((⟨e, _⟩ | ⟨e, _⟩ | ⟨e, _⟩) | hm) | hm) | hm)
  · exact absurd e (by decide)
  · exact absurd e (by decide)
  · exact absurd e (by decide)
  · split at hm
    · cases hm
    · simp only [List.mem_cons, List.not_mem_nil, or_false, Prod.mk.injEq] at hm
      exact absurd hm.1 (by decide)
  · split at hm
    · cases hm
    · simp only [List.mem_cons, List.not_mem_nil, or_false, Prod.mk.injEq] at hm
      obtain ⟨_, rfl⟩ := hm
      exact hr (n, ro) (mem_of_get?_sortMembers h2)
  · split at hm
    · cases hm
    · simp only [List.mem_cons, List.not_mem_nil, or_false, Prod.mk.injEq] at hm
      exact absurd hm.1 (by decide)

/-- **The model's `MarshalResource`, whatever the resource**: a successful result satisfies the
resource-object clauses of C03, and the resource afterwards has the same type name and ID. -/
theorem C03_marshalResource_shape {r : ResView} {prepath : GoString} {fields : List GoString}
    {relData : GoMap (List GoString)} {rmeta : Meta} {j : Json} {r' : ResView}
    (h : marshalResource r prepath fields relData rmeta = .ok (j, r')) :
    ResObjShape prepath r j ∧ r'.id = r.id ∧ r'.typeName = r.typeName := by
  unfold marshalResource at h
  simp only [] at h
  split at h
  · rename_i rels r'' hrels
    simp only [Res.ok.injEq, Prod.mk.injEq] at h
    rw [← h.1, ← h.2]
    have := foldl_pres
        (fun (acc : Res (List (GoString × Json) × ResView)) (p : GoString × Rel) =>
          match acc with
          | .ok (m, r') =>
            if fields.contains p.2.fromName then
              match marshalRel r' prepath p.2
                  (((relData.get? r.typeName).getD []).contains p.2.fromName) with
              | .ok (j, none) => .ok (GoMap.set m p.2.fromName j, r')
              | .ok (j, some sorted) =>
                .ok (GoMap.set m p.2.fromName j,
                  { r' with vals := GoMap.set r'.vals p.2.fromName (.strs sorted) })
              | .err => .err
              | .panic => .panic
            else .ok (m, r')
          | e => e)
        (fun acc => ∀ m r', acc = .ok (m, r') →
          (r'.id = r.id ∧ r'.typeName = r.typeName) ∧ ∀ p ∈ m, RelObjShape r prepath p.1 p.2) ?_
        r.rels (.ok ([], r)) (by intro m r' e; cases e; exact ⟨⟨rfl, rfl⟩, by simp⟩)
    · obtain ⟨⟨e1, e2⟩, hm⟩ := this rels r'' hrels
      exact ⟨resMembers_shape r prepath _ rels rmeta hm, e1, e2⟩
    · intro s a hs m r1 e
      split at e
      · rename_i m0 r0
        obtain ⟨⟨i1, i2⟩, im⟩ := hs m0 r0 rfl
        split at e
        · split at e
          · rename_i j0 hj
            simp only [Res.ok.injEq, Prod.mk.injEq] at e
            rw [← e.1, ← e.2]
            refine ⟨⟨i1, i2⟩, ?_⟩
            intro p hp
            rcases mem_set _ _ _ hp with hp | hp
            · exact im p hp
            · subst hp; exact marshalRel_shape i1 i2 hj
          · rename_i j0 sorted hj
            simp only [Res.ok.injEq, Prod.mk.injEq] at e
            rw [← e.1, ← e.2]
            refine ⟨⟨i1, i2⟩, ?_⟩
            intro p hp
            rcases mem_set _ _ _ hp with hp | hp
            · exact im p hp
            · subst hp; exact marshalRel_shape i1 i2 hj
          · cases e
          · cases e
        · cases e
          exact ⟨⟨i1, i2⟩, im⟩
      · exact hs m r1 e
  · cases h
  · cases h

/-! ### collections and included resources -/

theorem Forall2_snoc {α β : Type} {R : α → β → Prop} {l₁ : List α} {l₂ : List β} {a : α} {b : β}
    (h : Forall2 R l₁ l₂) (hab : R a b) : Forall2 R (l₁ ++ [a]) (l₂ ++ [b]) := by
  induction h with
  | nil => exact .cons hab .nil
  | cons h0 _ ih => exact .cons h0 ih

theorem Forall2_map_eq {α β γ : Type} {R : α → β → Prop} {f : α → γ} {g : β → γ}
    (hR : ∀ a b, R a b → g b = f a) {l₁ : List α} {l₂ : List β} (h : Forall2 R l₁ l₂) :
    l₂.map g = l₁.map f := by
  induction h with
  | nil => rfl
  | cons h0 _ ih => simp only [List.map_cons, hR _ _ h0, ih]

/-- the step of the fold `marshalCollection` and the included resources of `marshalDocument` run -/
def resStep (prepath : GoString) (fields : GoMap (List GoString)) (relData : GoMap (List GoString))
    (acc : Res (List Json × List ResView)) (r : ResView) : Res (List Json × List ResView) :=
  match acc with
  | .ok (js, rs) =>
    (match marshalResource r prepath ((fields.get? r.typeName).getD []) relData with
      | .ok (j, r') => .ok (js ++ [j], rs ++ [r'])
      | .err => .err
      | .panic => .panic)
  | e => e

theorem resStep_fail (prepath : GoString) (fields relData : GoMap (List GoString)) (l : List ResView)
    (x : Res (List Json × List ResView)) (hx : ∀ p, x ≠ .ok p) :
    ∀ p, l.foldl (resStep prepath fields relData) x ≠ .ok p := by
  induction l generalizing x with
  | nil => exact hx
  | cons a l ih =>
    simp only [List.foldl_cons]
    apply ih
    intro p
    cases x with
    | ok q => exact absurd rfl (hx q)
    | err => intro e; cases e
    | panic => intro e; cases e

theorem resFold_shape_aux (prepath : GoString) (fields relData : GoMap (List GoString))
    (l : List ResView) : ∀ (pre : List ResView) (js0 : List Json) (rs0 : List ResView)
    {js : List Json} {rs : List ResView}, Forall2 (ResObjShape prepath) pre js0 →
    l.foldl (resStep prepath fields relData) (.ok (js0, rs0)) = .ok (js, rs) →
    Forall2 (ResObjShape prepath) (pre ++ l) js := by
  induction l with
  | nil =>
    intro pre js0 rs0 js rs h0 h
    simp only [List.foldl_nil, Res.ok.injEq, Prod.mk.injEq] at h
    rw [List.append_nil, ← h.1]; exact h0
  | cons a l ih =>
    intro pre js0 rs0 js rs h0 h
    simp only [List.foldl_cons] at h
    cases hm : marshalResource a prepath ((fields.get? a.typeName).getD []) relData with
    | ok q =>
      obtain ⟨j, r'⟩ := q
      have hs : resStep prepath fields relData (.ok (js0, rs0)) a = .ok (js0 ++ [j], rs0 ++ [r']) := by
        simp only [resStep, hm]
      rw [hs] at h
      have := ih (pre ++ [a]) _ _ (Forall2_snoc h0 (C03_marshalResource_shape hm).1) h
      simpa [List.append_assoc] using this
    | err =>
      have hs : resStep prepath fields relData (.ok (js0, rs0)) a = .err := by simp only [resStep, hm]
      rw [hs] at h
      exact absurd h (resStep_fail _ _ _ l .err (by intro p e; cases e) _)
    | panic =>
      have hs : resStep prepath fields relData (.ok (js0, rs0)) a = .panic := by simp only [resStep, hm]
      rw [hs] at h
      exact absurd h (resStep_fail _ _ _ l .panic (by intro p e; cases e) _)

theorem resFold_shape (prepath : GoString) (fields relData : GoMap (List GoString))
    (l : List ResView) {js : List Json} {rs : List ResView}
    (h : l.foldl (resStep prepath fields relData) (.ok ([], [])) = .ok (js, rs)) :
    Forall2 (ResObjShape prepath) l js := by
  simpa using resFold_shape_aux prepath fields relData l [] [] [] .nil h

/-- **The model's `MarshalCollection`, whatever the members**: an array with one resource object
per member, in order. -/
theorem C03_marshalCollection_shape {c : List ResView} {prepath : GoString}
    {fields relData : GoMap (List GoString)} {j : Json} {c' : List ResView}
    (h : marshalCollection c prepath fields relData = .ok (j, c')) :
    ∃ js, j = .arr js ∧ Forall2 (ResObjShape prepath) c js := by
  unfold marshalCollection at h
  simp only [] at h
  split at h
  · rename_i js rs hfold
    simp only [Res.ok.injEq, Prod.mk.injEq] at h
    exact ⟨js, h.1.symm, resFold_shape prepath fields relData c hfold⟩
  · cases h
  · cases h

/-! ### documents -/

/-- What the `data` member of the tree must be, by the kind of primary data of the document. -/
def DataShape (doc : Document) (dj : Json) : Prop :=
  match doc.data with
  | .res r => ResObjShape doc.prePath r dj
  | .col _ ms => ∃ js, dj = .arr js ∧ Forall2 (ResObjShape doc.prePath) ms js
  | .ident id typ => dj = identifierJson id typ
  | .idents _ l => dj = .arr (l.map (fun p => identifierJson p.1 p.2))
  | .none => dj = .null
  | .other => False

theorem mem_body_of_mem {body metaPart : List (GoString × Json)} {L J v : Json} {k : GoString}
    (hk1 : k ≠ K.kmeta) (hk2 : k ≠ K.links) (hk3 : k ≠ K.jsonapi)
    (hmeta : ∀ p ∈ metaPart, p.1 = K.kmeta)
    (h : (k, v) ∈ body ++ metaPart ++ [(K.links, L), (K.jsonapi, J)]) : (k, v) ∈ body := by
  simp only [List.mem_append, List.mem_cons, List.not_mem_nil, or_false, Prod.mk.injEq] at h
  rcases h with (h | h) | ⟨e, _⟩ | ⟨e, _⟩
  · exact h
  · exact absurd (hmeta _ h) hk1
  · exact absurd e hk2
  · exact absurd e hk3

/-- the body of the top-level object, by errors and data -/
def bodyOf (errors data : Option Json) (incs : List Json) : List (GoString × Json) :=
  match errors, data with
  | some e, _ => [(K.errors, e)]
  | none, some dj => [(K.data, dj)] ++ (if incs.isEmpty then [] else [(K.included, .arr incs)])
  | none, none => []

theorem bodyOf_data {errors data : Option Json} {incs : List Json} {dj : Json}
    (h : (K.data, dj) ∈ bodyOf errors data incs) : errors = none ∧ data = some dj := by
  unfold bodyOf at h
  split at h
  · simp only [List.mem_cons, List.not_mem_nil, or_false, Prod.mk.injEq] at h
    exact absurd h.1 (by decide)
  · refine ⟨rfl, ?_⟩
    simp only [List.mem_append, List.mem_cons, List.not_mem_nil, or_false, Prod.mk.injEq] at h
    rcases h with h | h
    · rw [h.2]
    · split at h
      · cases h
      · simp only [List.mem_cons, List.not_mem_nil, or_false, Prod.mk.injEq] at h
        exact absurd h.1 (by decide)
  · cases h

theorem bodyOf_included {errors data : Option Json} {incs : List Json} {ij : Json}
    (h : (K.included, ij) ∈ bodyOf errors data incs) :
    errors = none ∧ (∃ dj, data = some dj) ∧ incs ≠ [] ∧ ij = .arr incs := by
  unfold bodyOf at h
  split at h
  · simp only [List.mem_cons, List.not_mem_nil, or_false, Prod.mk.injEq] at h
    exact absurd h.1 (by decide)
  · refine ⟨rfl, ⟨_, rfl⟩, ?_⟩
    simp only [List.mem_append, List.mem_cons, List.not_mem_nil, or_false, Prod.mk.injEq] at h
    rcases h with h | h
    · exact absurd h.1 (by decide)
    · split at h
      · cases h
      · rename_i hne
        simp only [List.mem_cons, List.not_mem_nil, or_false, Prod.mk.injEq] at h
        exact ⟨by intro e; rw [e] at hne; exact hne rfl, h.2⟩
  · cases h

/-- The parts of a successful `marshalDocument`: the `data` member is present only if the
document has no errors, and then has the shape of the primary data; `included` is present
only alongside `data`, and then is the non-empty array of the resource objects of the included
resources in `sortById` order. No hypothesis on the document. -/
theorem marshalDocument_members {doc : Document} {fields : GoMap (List GoString)}
    {selfHref : GoString} {t : Json} {doc' : Document}
    (h : marshalDocument doc fields selfHref = .ok (t, doc')) :
    (∀ dj, t.get? K.data = some dj → doc.errors.isEmpty = true ∧ DataShape doc dj) ∧
    (∀ ij, t.get? K.included = some ij → doc.errors.isEmpty = true ∧ t.has K.data = true ∧
      ∃ js, ij = .arr js ∧ js ≠ [] ∧ Forall2 (ResObjShape doc.prePath) (sortById doc.included) js) := by
  unfold marshalDocument at h
  simp only [] at h
  split at h
  · rename_i data data' hdata
    split at h
    · rename_i incs incs' hinc
      simp only [Res.ok.injEq, Prod.mk.injEq] at h
      obtain ⟨ht, -⟩ := h
      -- the data member of the body
      have hdataShape : ∀ dj, data = some dj → DataShape doc dj := by
        intro dj hdj
        subst hdj
        unfold DataShape
        cases hdd : doc.data with
        | res r =>
          simp only [hdd] at hdata ⊢
          split at hdata
          · rename_i j r' hm
            simp only [Res.ok.injEq, Prod.mk.injEq, Option.some.injEq] at hdata
            rw [← hdata.1]
            exact (C03_marshalResource_shape hm).1
          · cases hdata
          · cases hdata
        | col tn ms =>
          simp only [hdd] at hdata ⊢
          split at hdata
          · rename_i j ms' hm
            simp only [Res.ok.injEq, Prod.mk.injEq, Option.some.injEq] at hdata
            rw [← hdata.1]
            exact C03_marshalCollection_shape hm
          · cases hdata
          · cases hdata
        | ident id typ =>
          simp only [hdd, Res.ok.injEq, Prod.mk.injEq, Option.some.injEq] at hdata ⊢
          exact hdata.1.symm
        | idents isNil l =>
          simp only [hdd, Res.ok.injEq, Prod.mk.injEq, Option.some.injEq] at hdata ⊢
          exact hdata.1.symm
        | other =>
          simp only [hdd] at hdata ⊢
          split at hdata
          · cases hdata
          · simp only [Res.ok.injEq, Prod.mk.injEq] at hdata
            cases hdata.1
        | none =>
          simp only [hdd] at hdata ⊢
          split at hdata
          · simp only [Res.ok.injEq, Prod.mk.injEq, Option.some.injEq] at hdata
            exact hdata.1.symm
          · simp only [Res.ok.injEq, Prod.mk.injEq] at hdata
            cases hdata.1
      -- the included member of the body
      have hincShape : ∀ dj, data = some dj → incs ≠ [] →
          Forall2 (ResObjShape doc.prePath) (sortById doc.included) incs := by
        intro dj hdj hne
        subst hdj
        by_cases hemp : doc.included.isEmpty = true
        · simp only [hemp, if_true, List.isEmpty_nil, true_or, Res.ok.injEq, Prod.mk.injEq] at hinc
          exact absurd hinc.1.symm hne
        · simp only [hemp, Bool.false_eq_true, if_false, Option.isNone_some, or_false] at hinc
          split at hinc
          · simp only [Res.ok.injEq, Prod.mk.injEq] at hinc
            exact absurd hinc.1.symm hne
          · exact resFold_shape doc.prePath fields doc.relData _ hinc
      subst ht
      have hmeta : ∀ p ∈ (if doc.dmeta.isEmpty then [] else [(K.kmeta, Json.obj doc.dmeta)]),
          p.1 = K.kmeta := by
        intro p hp
        split at hp
        · cases hp
        · simp only [List.mem_cons, List.not_mem_nil, or_false] at hp
          rw [hp]
      have herrs : ∀ {e : Option Json},
          (if doc.errors.isEmpty = true then (none : Option Json)
            else some (Json.arr (doc.errors.map ErrorObj.toJson))) = none →
          doc.errors.isEmpty = true := by
        intro _ he
        by_cases hh : doc.errors.isEmpty = true
        · exact hh
        · rw [if_neg hh] at he; cases he
      constructor
      · intro dj hdj
        have hb := mem_body_of_mem (by decide) (by decide) (by decide) hmeta
          (mem_of_get?_sortMembers hdj)
        obtain ⟨he, hd⟩ := bodyOf_data (incs := incs) hb
        exact ⟨herrs (e := none) he, hdataShape dj hd⟩
      · intro ij hij
        have hb := mem_body_of_mem (by decide) (by decide) (by decide) hmeta
          (mem_of_get?_sortMembers hij)
        obtain ⟨he, ⟨dj, hd⟩, hne, hij'⟩ := bodyOf_included (incs := incs) hb
        refine ⟨herrs (e := none) he, ?_, incs, hij', hne, hincShape dj hd hne⟩
        rw [has_sortMembers]
        subst hd
        have he' := herrs (e := none) he
        simp [he']
    · cases h
    · cases h
  · cases h
  · cases h

/-- **C03_document_resource_objects** — for any document and any URL, the `data` member of the
tree of a successful `MarshalDocument` is the resource object of the primary resource / the
array of the resource objects of the primary collection's members, in order / the
identifier(s) / null, and the `included` member is the array of the resource objects of the
included resources (in `sortById` order); "resource object of `r`" = the clauses of C03
(`ResObjShape`, spelled out by `ResObjShape.spelled`). No well-formedness hypothesis on the
resources: a resource on which the model panics or fails has no successful marshal. -/
theorem C03_document_resource_objects (doc : Document) (fields : GoMap (List GoString))
    (selfHref : GoString) (t : Json) (doc' : Document)
    (h : marshalDocument doc fields selfHref = .ok (t, doc')) :
    (∀ dj, t.get? K.data = some dj → DataShape doc dj) ∧
    (∀ ij, t.get? K.included = some ij →
      ∃ js, ij = .arr js ∧ Forall2 (ResObjShape doc.prePath) (sortById doc.included) js) := by
  obtain ⟨h1, h2⟩ := marshalDocument_members h
  refine ⟨fun dj hdj => (h1 dj hdj).2, fun ij hij => ?_⟩
  obtain ⟨_, _, js, e, _, hf⟩ := h2 ij hij
  exact ⟨js, e, hf⟩

/-! ### the resource objects of a tree, member by member -/

/-- the members of a `data` / `included` member: the elements of an array, or the one object -/
def treeMembers : Option Json → List Json
  | some (.arr l) => l
  | some (.obj ms) => [.obj ms]
  | _ => []

/-- The resource objects of a document tree: the members of `data` that carry a `links` member
(resource identifiers - the primary data of a relationship document - carry none) and the
members of `included`. -/
def treeResObjs (t : Json) : List Json :=
  (treeMembers (t.get? K.data)).filter (fun j => j.has K.links) ++ treeMembers (t.get? K.included)

/-- the (type, id) members of an object of the tree -/
def pairOf (j : Json) : Option Json × Option Json := (j.get? K.type, j.get? K.id)

/-- the (type, id) pair of a resource as the tree shows it -/
def pairR (r : ResView) : Option Json × Option Json :=
  (some (.str r.typeName), some (.str r.id))

theorem Forall2_right {α β : Type} {R : α → β → Prop} {l₁ : List α} {l₂ : List β}
    (h : Forall2 R l₁ l₂) : ∀ b ∈ l₂, ∃ a ∈ l₁, R a b := by
  induction h with
  | nil => intro b hb; cases hb
  | cons h0 _ ih =>
    intro b hb
    rcases List.mem_cons.1 hb with rfl | hb
    · exact ⟨_, List.mem_cons_self, h0⟩
    · obtain ⟨a, ha, hr⟩ := ih b hb
      exact ⟨a, List.mem_cons_of_mem _ ha, hr⟩

theorem ResObjShape.has_links {prepath : GoString} {r : ResView} {j : Json}
    (h : ResObjShape prepath r j) : j.has K.links = true := by
  unfold Json.has; rw [h.2.2.2.1]; rfl

theorem identifier_no_links (id typ : GoString) : (identifierJson id typ).has K.links = false := by
  have e1 : decide (K.id = K.links) = false := by decide
  have e2 : decide (K.type = K.links) = false := by decide
  simp [identifierJson, Json.has, Json.get?, List.find?, e1, e2]

/-- The resource objects of the tree of a successful `MarshalDocument` are: the resource objects
of the primary resources (or none: errors, identifiers, null) followed by the resource objects
of the included resources in `sortById` order (or none). -/
theorem treeResObjs_marshalDocument {doc : Document} {fields : GoMap (List GoString)}
    {selfHref : GoString} {t : Json} {doc' : Document}
    (h : marshalDocument doc fields selfHref = .ok (t, doc')) :
    ∃ ps is, treeResObjs t = ps ++ is ∧
      (ps = [] ∨ Forall2 (ResObjShape doc.prePath) (docPrimary doc) ps) ∧
      (is = [] ∨ Forall2 (ResObjShape doc.prePath) (sortById doc.included) is) := by
  obtain ⟨hD, hI⟩ := marshalDocument_members h
  unfold treeResObjs
  -- the included part
  have hinc : treeMembers (t.get? K.included) = [] ∨
      Forall2 (ResObjShape doc.prePath) (sortById doc.included) (treeMembers (t.get? K.included)) := by
    cases hi : t.get? K.included with
    | none => exact .inl rfl
    | some ij =>
      obtain ⟨_, _, js, e, _, hf⟩ := hI ij hi
      subst e
      exact .inr hf
  refine ⟨_, _, rfl, ?_, hinc⟩
  cases hd : t.get? K.data with
  | none => exact .inl rfl
  | some dj =>
    have hs := (hD dj hd).2
    unfold DataShape at hs
    cases hdd : doc.data with
    | res r =>
      simp only [hdd] at hs
      have hp : docPrimary doc = [r] := by unfold docPrimary; rw [hdd]
      cases dj with
      | obj ms =>
        right
        rw [hp]
        have : (treeMembers (some (Json.obj ms))).filter (fun j => j.has K.links) = [Json.obj ms] := by
          simp [treeMembers, hs.has_links]
        rw [this]
        exact .cons hs .nil
      | _ => exact absurd hs.1 (by simp [Json.isObj])
    | col tn ms =>
      simp only [hdd] at hs
      obtain ⟨js, e, hf⟩ := hs
      subst e
      have hp : docPrimary doc = ms := by unfold docPrimary; rw [hdd]
      right
      rw [hp]
      have : (treeMembers (some (Json.arr js))).filter (fun j => j.has K.links) = js := by
        simp only [treeMembers]
        rw [List.filter_eq_self]
        intro j hj
        obtain ⟨a, _, ha⟩ := Forall2_right hf j hj
        exact ha.has_links
      rw [this]
      exact hf
    | ident id typ =>
      simp only [hdd] at hs
      subst hs
      left
      simp [treeMembers, identifierJson]
      exact identifier_no_links id typ
    | idents isNil l =>
      simp only [hdd] at hs
      subst hs
      left
      simp only [treeMembers]
      rw [List.filter_eq_nil_iff]
      intro j hj
      obtain ⟨p, _, rfl⟩ := List.mem_map.1 hj
      simp [identifier_no_links]
    | none =>
      simp only [hdd] at hs
      subst hs
      exact .inl rfl
    | other =>
      simp only [hdd] at hs

/-- **Every member of `data` (object or array elements) that is a resource object, and every
member of `included`**, is the resource object of a resource of the document and satisfies the
clauses of C03. -/
theorem C03_document_members_clauses (doc : Document) (fields : GoMap (List GoString))
    (selfHref : GoString) (t : Json) (doc' : Document)
    (h : marshalDocument doc fields selfHref = .ok (t, doc')) :
    ∀ j ∈ treeResObjs t, ∃ r ∈ docPrimary doc ++ doc.included, ResObjShape doc.prePath r j := by
  obtain ⟨ps, is, e, hp, hi⟩ := treeResObjs_marshalDocument h
  rw [e]
  intro j hj
  rcases List.mem_append.1 hj with hj | hj
  · rcases hp with hp | hp
    · rw [hp] at hj; cases hj
    · obtain ⟨r, hr, hs⟩ := Forall2_right hp j hj
      exact ⟨r, List.mem_append_left _ hr, hs⟩
  · rcases hi with hi | hi
    · rw [hi] at hj; cases hj
    · obtain ⟨r, hr, hs⟩ := Forall2_right hi j hj
      exact ⟨r, List.mem_append_right _ ((sortById_perm _).mem_iff.1 hr), hs⟩

/-! ### Include: no (type, id) pair twice in the OUTPUT TREE -/

theorem pairOf_shape {prepath : GoString} (r : ResView) (j : Json) (h : ResObjShape prepath r j) :
    pairOf j = pairR r := by
  unfold pairOf pairR; rw [h.2.1, h.2.2.1]

theorem nodup_pairR_of_resPair {l : List ResView} (h : (l.map resPair).Nodup) :
    (l.map pairR).Nodup := by
  unfold List.Nodup at *
  rw [List.pairwise_map] at *
  refine h.imp ?_
  intro a b hne e
  apply hne
  simp only [pairR, Prod.mk.injEq, Option.some.injEq, Json.str.injEq] at e
  simp only [resPair, Prod.mk.injEq]
  exact e

/-- **C03_include_unique_tree** — `C03_include_unique_pairs` on the output tree: start from any
document whose primary and included resources have pairwise distinct (type, id) pairs (and whose
typed collection holds resources of its type), run any history of `Include` calls, marshal with
any field selection and URL: if that succeeds, no (type, id) pair occurs twice among the
resource objects of the `data` and `included` members of the tree. -/
theorem C03_include_unique_tree (ops : List ResView) (d0 : Document) (ht : TypedCol d0)
    (hnd : ((docPrimary d0 ++ d0.included).map resPair).Nodup)
    (fields : GoMap (List GoString)) (selfHref : GoString) (t : Json) (d' : Document)
    (h : marshalDocument (ops.foldl Document.include d0) fields selfHref = .ok (t, d')) :
    ((treeResObjs t).map pairOf).Nodup := by
  obtain ⟨hn, _⟩ := C03_include_unique_pairs ops d0 ht hnd
  generalize ops.foldl Document.include d0 = d at h hn
  have hperm : (docPrimary d ++ sortById d.included).Perm (docPrimary d ++ d.included) :=
    List.Perm.append_left _ (sortById_perm _)
  have hn' : ((docPrimary d ++ sortById d.included).map pairR).Nodup :=
    nodup_pairR_of_resPair ((hperm.map _).nodup_iff.2 hn)
  obtain ⟨ps, is, e, hp, hi⟩ := treeResObjs_marshalDocument h
  rw [e, List.map_append]
  rw [List.map_append] at hn'
  refine List.Nodup.sublist (List.Sublist.append ?_ ?_) hn'
  · rcases hp with hp | hp
    · rw [hp]; exact List.nil_sublist _
    · rw [Forall2_map_eq (f := pairR) (g := pairOf) (fun a b hab => pairOf_shape a b hab) hp]
      exact List.Sublist.refl _
  · rcases hi with hi | hi
    · rw [hi]; exact List.nil_sublist _
    · rw [Forall2_map_eq (f := pairR) (g := pairOf) (fun a b hab => pairOf_shape a b hab) hi]
      exact List.Sublist.refl _

/-! ### Non-vacuity -/

/-- A resource OUTSIDE the domain of C04 (`keyedWf`): the attribute "n" is declared twice, its
value is a string although declared int, and the to-many relationship "m" is unsorted. The model
marshals it, and the clauses hold of what it writes. -/
def c03d_res : ResView :=
  { typeName := [97], id := [49],
    attrs := [([110], { name := [110], ty := 2, nullable := false }),
              ([110], { name := [110], ty := 1, nullable := false })],
    rels := [([109], { fromType := [97], fromName := [109], toOne := false, toType := [98],
                       toName := [], fromOne := false })],
    vals := [([110], .val .string (.s [120])), ([109], .strs [[50], [49]])] }

example : ¬ c03d_res.keyedWf := by decide

example : ∃ j r', marshalResource c03d_res [47] [[110], [109]] [([97], [[109]])] = .ok (j, r') ∧
    ResObjShape [47] c03d_res j := by
  have hok : (match marshalResource c03d_res [47] [[110], [109]] [([97], [[109]])] with
      | .ok _ => true | _ => false) = true := by decide
  cases hm : marshalResource c03d_res [47] [[110], [109]] [([97], [[109]])] with
  | ok q => exact ⟨q.1, q.2, rfl, (C03_marshalResource_shape hm).1⟩
  | err => rw [hm] at hok; cases hok
  | panic => rw [hm] at hok; cases hok

/-- The Include example of Props/C03.lean (typed collection "c" with two members; Include of a
member, of a new resource twice, of a resource of another type): the hypotheses of
`C03_include_unique_tree` hold, the document marshals, and no (type, id) pair occurs twice among
the resource objects of the tree. -/
example :
    let ops := [c04_res [49] [99], c04_res [51] [100], c04_res [51] [100], c04_res [49] [100]]
    TypedCol c04_doc ∧ ((docPrimary c04_doc ++ c04_doc.included).map resPair).Nodup ∧
    ∃ t d', marshalDocument (ops.foldl Document.include c04_doc) [] [] = .ok (t, d') ∧
      ((treeResObjs t).map pairOf).Nodup := by
  intro ops
  have h1 : TypedCol c04_doc := by decide
  have h2 : ((docPrimary c04_doc ++ c04_doc.included).map resPair).Nodup := by decide
  refine ⟨h1, h2, ?_⟩
  have hs : ∃ t', Spec.documentTree (ops.foldl Document.include c04_doc) [] [] = some t' := by
    unfold Spec.documentTree
    rw [if_neg (by decide)]
    exact ⟨_, rfl⟩
  obtain ⟨t', ht'⟩ := hs
  obtain ⟨d'', hd''⟩ :=
    (marshalDocument_eq (ops.foldl Document.include c04_doc) (by decide) [] []).2 t' ht'
  exact ⟨t', d'', hd'', C03_include_unique_tree ops c04_doc h1 h2 [] [] t' d'' hd''⟩

end Jsonapi

section Axioms
open Jsonapi
#print axioms C03_marshalResource_shape
#print axioms C03_marshalCollection_shape
#print axioms marshalDocument_members
#print axioms C03_document_resource_objects
#print axioms treeResObjs_marshalDocument
#print axioms C03_document_members_clauses
#print axioms C03_include_unique_tree
#print axioms ResObjShape.spelled
#print axioms RelObjShape.spelled
end Axioms
