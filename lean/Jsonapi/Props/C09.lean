/-
C09 — Range: select by ID, filter, sort by the rules, cut a page.

The model of `sortedResources.Less` consults the regenerated case list of its type
switch (`Facts.lessCases`). On the current tree that list lacks `uint64`, `*uint64` and
`*[]byte`: a rule naming an attribute of one of those Go types is silently skipped (a
known, unrepaired defect). The theorems therefore carry the explicit exclusion
`RulesHaveCases`; `C09_known_uint64_counterexample` and `C09_statement_false` show that
the exclusion is necessary.
-/
import Jsonapi.Proofs.RangeLemmas
import Jsonapi.Props.C10
namespace Jsonapi
open Spec

/-! ### The property's domain -/

/-- Every rule's field is `id` or an attribute that every resource of the collection
has, with the same definition (same type, same nullability). -/
def RulesOver (c : List ResView) (rules : List GoString) : Prop :=
  ∀ rule ∈ rules, (splitRule rule).2 = idName ∨
    ∃ a : Attr, ∀ r ∈ c, r.attrs.get? (splitRule rule).2 = some a

/-- EXCLUSION (known finding): no rule sorts by an attribute whose Go type has no case in
`Less` (today: `uint64`, `*uint64`, `*[]byte`). -/
def RulesHaveCases (c : List ResView) (rules : List GoString) : Prop :=
  ∀ rule ∈ rules, (splitRule rule).2 = idName ∨
    ∀ r ∈ c, ∀ a, r.attrs.get? (splitRule rule).2 = some a →
      ∀ k, Kind.ofCode? a.ty = some k →
        (if a.nullable then (if k = .bytes then "*[]byte" else "*" ++ k.goName)
         else (if k = .bytes then "[]byte" else k.goName)) ∈ Facts.lessCases

def UniqueIds (c : List ResView) : Prop := (c.map (·.id)).Nodup

def AllWf (c : List ResView) : Prop := ∀ r ∈ c, r.wf = true

instance (c : List ResView) : Decidable (UniqueIds c) := by unfold UniqueIds; infer_instance
instance (c : List ResView) : Decidable (AllWf c) := by unfold AllWf; infer_instance

/-- What is assumed of `sort.Sort` beyond the `Sorter` structure: the result depends only
on the outcomes of `Less` on two *different* elements of the slice being sorted (Go's
`sort.Sort` calls `Less(i, j)` with `i ≠ j` inside the slice, and nothing else).
Needed because `Less` is a strict weak order only on the well-typed resources of the
collection, and (rule `-id`) is not irreflexive on the diagonal. -/
def Sorter.Local (S : Sorter) : Prop :=
  ∀ (lt lt' : ResView → ResView → Bool) (l : List ResView), l.Nodup →
    (∀ a ∈ l, ∀ b ∈ l, a ≠ b → lt a b = lt' a b) → S.sort lt l = S.sort lt' l

/-- The rules `Range` sorts by: `id` when none is given. -/
def effRules (rules : List GoString) : List GoString :=
  if rules.isEmpty then [idName] else rules

/-- The driver's sorter (merge sort) is local. -/
theorem C09_mergeSorter_local : mergeSorter.Local := by
  intro lt lt' l hnd h
  show l.mergeSort (fun a b => !lt b a) = l.mergeSort (fun a b => !lt' b a)
  apply mergeSort_congr_nodup l hnd
  intro a ha b hb hne
  rw [h b hb a ha (Ne.symm hne)]

/-! ### 1. `Less` computes "strictly before" -/

/-- `Less` agrees with the specification's comparison on two well-formed resources with
different IDs.

Remark (`-id` on the diagonal): Go's `id` case returns `a.id < b.id != inverse`, so under
a rule `-id` the model has `less rules a a = .ok true` whereas `cmpRules rules a a = .eq`;
hence the hypothesis `a.id ≠ b.id`. `sort.Sort` never calls `Less(i, i)` and two
positions of a collection with unique IDs hold different IDs, so nothing is lost;
`C09_less_no_panic` covers the diagonal. -/
theorem C09_less_spec (rules : List GoString) (a b : ResView)
    (hwa : a.wf = true) (hwb : b.wf = true)
    (hover : RulesOver [a, b] rules) (hcases : RulesHaveCases [a, b] rules)
    (hid : a.id ≠ b.id) :
    less rules a b = .ok (Spec.cmpRules rules a b == .lt) := by
  have hwf : ∀ r ∈ [a, b], r.wf = true := by
    intro r hr; simp only [List.mem_cons, List.not_mem_nil, or_false] at hr
    rcases hr with rfl | rfl <;> assumption
  exact (less_spec_aux hwf (List.mem_cons_self) (List.mem_cons_of_mem _ List.mem_cons_self)
    hover hcases).2 hid

/-- `Less` never fails a type assertion on well-formed resources (equal IDs included). -/
theorem C09_less_no_panic (rules : List GoString) (a b : ResView)
    (hwa : a.wf = true) (hwb : b.wf = true)
    (hover : RulesOver [a, b] rules) (hcases : RulesHaveCases [a, b] rules) :
    ∃ x, less rules a b = .ok x := by
  have hwf : ∀ r ∈ [a, b], r.wf = true := by
    intro r hr; simp only [List.mem_cons, List.not_mem_nil, or_false] at hr
    rcases hr with rfl | rfl <;> assumption
  exact (less_spec_aux hwf (List.mem_cons_self) (List.mem_cons_of_mem _ List.mem_cons_self)
    hover hcases).1

/-! ### 2. `Less` is a strict weak order on the collection -/

/-- On a collection of well-formed resources, `Less` (read as a Boolean, `lessB`) is
asymmetric, transitive and negatively transitive ("incomparability is transitive") on
resources with different IDs; it is irreflexive too unless a rule is `-id` (see the
remark at `C09_less_spec`; `C09_less_neg_id_diagonal` is the exception). -/
theorem C09_less_strict_weak (c : List ResView) (rules : List GoString)
    (hwf : AllWf c) (hover : RulesOver c rules) (hcases : RulesHaveCases c rules) :
    (∀ a ∈ c, ∀ b ∈ c, a.id ≠ b.id → lessB rules a b = true → lessB rules b a = false) ∧
    (∀ a ∈ c, ∀ b ∈ c, ∀ d ∈ c, a.id ≠ b.id → b.id ≠ d.id → a.id ≠ d.id →
      lessB rules a b = true → lessB rules b d = true → lessB rules a d = true) ∧
    (∀ a ∈ c, ∀ b ∈ c, ∀ d ∈ c, a.id ≠ b.id → b.id ≠ d.id → a.id ≠ d.id →
      lessB rules a b = false → lessB rules b d = false → lessB rules a d = false) ∧
    ((∀ rule ∈ rules, rule ≠ 45 :: idName) → ∀ a ∈ c, lessB rules a a = false) := by
  refine ⟨?_, ?_, ?_, ?_⟩
  · intro a ha b hb hab h
    rw [lessB_spec hwf hover hcases ha hb hab, beq_lt_true] at h
    rw [lessB_spec hwf hover hcases hb ha (Ne.symm hab), cmpRules_swap rules a b, h]
    rfl
  · intro a ha b hb d hd hab hbd had h1 h2
    rw [lessB_spec hwf hover hcases ha hb hab, beq_lt_true] at h1
    rw [lessB_spec hwf hover hcases hb hd hbd, beq_lt_true] at h2
    rw [lessB_spec hwf hover hcases ha hd had, beq_lt_true]
    exact cmpRules_lt_trans hwf hover ha hb hd h1 h2
  · intro a ha b hb d hd hab hbd had h1 h2
    rw [lessB_spec hwf hover hcases ha hb hab, beq_lt_false] at h1
    rw [lessB_spec hwf hover hcases hb hd hbd, beq_lt_false] at h2
    rw [lessB_spec hwf hover hcases ha hd had, beq_lt_false]
    exact cmpRules_nlt_trans hwf hover ha hb hd h1 h2
  · intro hn a ha
    unfold lessB
    rw [less_self hwf ha hover hcases hn]

/-- The exception: under `-id`, `Less(a, a)` is true. -/
theorem C09_less_neg_id_diagonal (a : ResView) : less [45 :: idName] a a = .ok true :=
  less_neg_id_self a

/-! ### 3. `Range` -/

/-- `Range` returns pages cut from ONE ordering `π` of the matching resources that
respects the rules; `π` does not depend on the page size and number. -/
theorem C09_range (S : Sorter) (hS : S.Local) (c : List ResView) (ids : List GoString)
    (f : Option Filter) (rules : List GoString)
    (hwf : AllWf c) (hu : UniqueIds c) (hids : ids.Nodup)
    (hover : RulesOver c (effRules rules)) (hcases : RulesHaveCases c (effRules rules))
    (hf : ∀ flt, f = some flt → ∀ r ∈ c, isAllowed r flt = .ok (Spec.eval r flt)) :
    ∃ π : List ResView, π.Perm (Spec.matching c ids f) ∧
      π.Pairwise (fun a b => Spec.le (effRules rules) a b = true) ∧
      ∀ size num, size < 2 ^ 64 → num * size < 2 ^ 63 →
        range S c ids f rules size num = .ok (Spec.page π size num) :=
  ⟨_, range_spec S hS c ids f rules (effRules rules) rfl hwf hu hids hover hcases hf⟩

/-! ### 4. With `id` among the rules the ordering is unique -/

/-- Two orderings of the same resources (unique IDs) that respect rules mentioning `id`
are equal. -/
theorem C09_unique_with_id (rules' : List GoString)
    (hid : idName ∈ rules'.map (fun r => (splitRule r).2))
    (l π₁ π₂ : List ResView) (hu : UniqueIds l) (p₁ : π₁.Perm l) (p₂ : π₂.Perm l)
    (s₁ : π₁.Pairwise (fun a b => Spec.le rules' a b = true))
    (s₂ : π₂.Pairwise (fun a b => Spec.le rules' a b = true)) : π₁ = π₂ :=
  sorted_unique hid hu p₁ p₂ s₁ s₂

/-- Hence the result of `Range` depends neither on the sorting algorithm nor on the order
in which the collection holds its resources. -/
theorem C09_unique_with_id_range (S₁ S₂ : Sorter) (hS₁ : S₁.Local) (hS₂ : S₂.Local)
    (c₁ c₂ : List ResView) (hperm : c₁.Perm c₂) (ids : List GoString)
    (f : Option Filter) (rules : List GoString)
    (hwf : AllWf c₁) (hu : UniqueIds c₁) (hids : ids.Nodup)
    (hover : RulesOver c₁ (effRules rules)) (hcases : RulesHaveCases c₁ (effRules rules))
    (hf : ∀ flt, f = some flt → ∀ r ∈ c₁, isAllowed r flt = .ok (Spec.eval r flt))
    (hid : idName ∈ (effRules rules).map (fun r => (splitRule r).2))
    (size num : Nat) (hs : size < 2 ^ 64) (hp : num * size < 2 ^ 63) :
    range S₁ c₁ ids f rules size num = range S₂ c₂ ids f rules size num := by
  have hm : ∀ r, r ∈ c₂ ↔ r ∈ c₁ := fun r => hperm.symm.mem_iff
  obtain ⟨π₁, p₁, s₁, h₁⟩ := C09_range S₁ hS₁ c₁ ids f rules hwf hu hids hover hcases hf
  obtain ⟨π₂, p₂, s₂, h₂⟩ := C09_range S₂ hS₂ c₂ ids f rules
    (fun r hr => hwf r ((hm r).1 hr))
    ((hperm.map _).nodup hu) hids
    (fun rule h => RuleTyped.mono (fun r hr => (hm r).1 hr) (hover rule h))
    (fun rule h => RuleCased.mono (fun r hr => (hm r).1 hr) (hcases rule h))
    (fun flt e r hr => hf flt e r ((hm r).1 hr))
  have hu' : UniqueIds (Spec.matching c₁ ids f) :=
    List.Nodup.sublist (List.Sublist.map _ List.filter_sublist) hu
  have p₂' : π₂.Perm (Spec.matching c₁ ids f) := p₂.trans (hperm.symm.filter _)
  have : π₁ = π₂ := C09_unique_with_id _ hid _ _ _ hu' p₁ p₂' s₁ s₂
  rw [h₁ size num hs hp, h₂ size num hs hp, this]

/-- With `id` among the rules, `Range` returns exactly the page that the specification
`Spec.range` describes, whatever the (local) sorting algorithm. -/
theorem C09_range_eq_spec (S : Sorter) (hS : S.Local) (c : List ResView) (ids : List GoString)
    (f : Option Filter) (rules : List GoString)
    (hwf : AllWf c) (hu : UniqueIds c) (hids : ids.Nodup)
    (hover : RulesOver c (effRules rules)) (hcases : RulesHaveCases c (effRules rules))
    (hf : ∀ flt, f = some flt → ∀ r ∈ c, isAllowed r flt = .ok (Spec.eval r flt))
    (hid : idName ∈ (effRules rules).map (fun r => (splitRule r).2))
    (size num : Nat) (hs : size < 2 ^ 64) (hp : num * size < 2 ^ 63) :
    range S c ids f rules size num = .ok (Spec.range c ids f rules size num) := by
  obtain ⟨π, p, s, h⟩ := C09_range S hS c ids f rules hwf hu hids hover hcases hf
  have hsub : ∀ r ∈ Spec.matching c ids f, r ∈ c := fun r hr => (List.mem_filter.1 hr).1
  have hu' : UniqueIds (Spec.matching c ids f) :=
    List.Nodup.sublist (List.Sublist.map _ List.filter_sublist) hu
  have hsorted := pairwise_sortBy_le (col := Spec.matching c ids f)
    (fun r hr => hwf r (hsub r hr)) (rules := effRules rules)
    (fun rule hr => RuleTyped.mono hsub (hover rule hr))
  have : π = Spec.sortBy (Spec.le (effRules rules)) (Spec.matching c ids f) :=
    C09_unique_with_id _ hid _ _ _ hu' p (perm_sortBy _ _) s hsorted
  rw [h size num hs hp, this]
  rfl

/-! ### 5. Consecutive pages partition the ordering -/

theorem C09_partition (π : List ResView) (size k : Nat) :
    (List.range k).flatMap (fun n => Spec.page π size n) = π.take (k * size) :=
  pages_flatMap π size k

theorem C09_partition_all (π : List ResView) (size k : Nat) (h : π.length ≤ k * size) :
    (List.range k).flatMap (fun n => Spec.page π size n) = π := by
  rw [C09_partition, List.take_of_length_le h]

/-! ### 6. The exclusion is necessary (known finding) -/

/-- attribute `n : uint64` (not nullable) -/
def cexAttr : Attr := { name := [110], ty := 11, nullable := false }
def cexA : ResView :=
  { typeName := [116], id := [97], attrs := [([110], cexAttr)], rels := [],
    vals := [([110], .val .uint64 (.i 2))] }
def cexB : ResView :=
  { typeName := [116], id := [98], attrs := [([110], cexAttr)], rels := [],
    vals := [([110], .val .uint64 (.i 1))] }
def cexRules : List GoString := [[110], idName]

theorem cex_model : range mergeSorter [cexA, cexB] [] none cexRules 10 0 = .ok [cexA, cexB] := by
  unfold range
  have h1 : applyFilter none (selectIds [cexA, cexB] []) = .ok [cexA, cexB] := by decide
  rw [h1]
  have h2 : ([cexA, cexB].any (fun a => [cexA, cexB].any (fun b =>
      (less (if cexRules.isEmpty then [idName] else cexRules) a b).isPanic))) = false := by decide
  simp only [h2]
  have h3 : mergeSorter.sort (lessB (if cexRules.isEmpty then [idName] else cexRules))
      [cexA, cexB] = [cexA, cexB] := by
    show [cexA, cexB].mergeSort _ = _
    apply List.mergeSort_of_pairwise
    simp only [List.pairwise_cons, List.mem_cons, List.not_mem_nil, or_false, forall_eq,
      List.Pairwise.nil, and_true, false_implies, implies_true]
    decide
  rw [h3]
  decide

theorem cex_spec : Spec.range [cexA, cexB] [] none cexRules 10 0 = [cexB, cexA] := by decide

/-- The exclusion is necessary: sorting two well-formed resources by a `uint64`
attribute leaves them in `id` order, against the specification. (Proved by evaluation
against the regenerated `Facts.lessCases`: once the defect is repaired this theorem and
`C09_statement_false` stop compiling, and the exclusion can be dropped.) -/
theorem C09_known_uint64_counterexample :
    cexA.wf = true ∧ cexB.wf = true ∧
    range mergeSorter [cexA, cexB] [] none cexRules 10 0 ≠
      .ok (Spec.range [cexA, cexB] [] none cexRules 10 0) := by
  refine ⟨by decide, by decide, ?_⟩
  rw [cex_model, cex_spec]
  decide

/-- (3) at full strength, i.e. WITHOUT the exclusion `RulesHaveCases`. -/
def C09_statement : Prop :=
  ∀ (S : Sorter), S.Local → ∀ (c : List ResView) (ids : List GoString) (f : Option Filter)
    (rules : List GoString), AllWf c → UniqueIds c → ids.Nodup →
    RulesOver c (effRules rules) →
    (∀ flt, f = some flt → ∀ r ∈ c, isAllowed r flt = .ok (Spec.eval r flt)) →
    ∃ π : List ResView, π.Perm (Spec.matching c ids f) ∧
      π.Pairwise (fun a b => Spec.le (effRules rules) a b = true) ∧
      ∀ size num, size < 2 ^ 64 → num * size < 2 ^ 63 →
        range S c ids f rules size num = .ok (Spec.page π size num)

theorem cex_rulesOver : RulesOver [cexA, cexB] (effRules cexRules) := by
  intro rule hr
  have hr' : rule = [110] ∨ rule = idName := by simpa [effRules, cexRules] using hr
  rcases hr' with rfl | rfl
  · right
    refine ⟨cexAttr, ?_⟩
    intro r hr
    have : r = cexA ∨ r = cexB := by simpa using hr
    rcases this with rfl | rfl <;> decide
  · left; decide

/-- The full-strength statement is false of the current tree (known finding). -/
theorem C09_statement_false : ¬ C09_statement := by
  intro h
  obtain ⟨π, hp, hs, hr⟩ := h mergeSorter C09_mergeSorter_local [cexA, cexB] [] none cexRules
    (by decide) (by decide) (by decide) cex_rulesOver (fun flt e => by cases e)
  have hm : Spec.matching [cexA, cexB] [] none = [cexA, cexB] := by decide
  rw [hm] at hp
  have hlen : π.length = 2 := hp.length_eq
  have h10 := hr 10 0 (by decide) (by decide)
  rw [cex_model] at h10
  have hpage : Spec.page π 10 0 = π := by
    unfold Spec.page
    rw [Nat.zero_mul, List.drop_zero, List.take_of_length_le (by omega)]
  rw [hpage] at h10
  have hπ : π = [cexA, cexB] := by injection h10 with h10; exact h10.symm
  rw [hπ] at hs
  have hle : Spec.le (effRules cexRules) cexA cexB = true := by
    simpa using hs
  revert hle
  decide

/-! ### 7. Non-vacuity -/

/-- attribute `n : *int` (nullable) -/
def exAttr : Attr := { name := [110], ty := 2, nullable := true }
def exA : ResView :=
  { typeName := [116], id := [97], attrs := [([110], exAttr)], rels := [],
    vals := [([110], .ptr .int (some (.i 2)))] }
def exB : ResView :=
  { typeName := [116], id := [98], attrs := [([110], exAttr)], rels := [],
    vals := [([110], .nil)] }
def exC : ResView :=
  { typeName := [116], id := [99], attrs := [([110], exAttr)], rels := [],
    vals := [([110], .ptr .int (some (.i 7)))] }
/-- `-n,id` -/
def exRules : List GoString := [[45, 110], idName]

/-- The hypotheses of `C09_range` / `C09_range_eq_spec` are satisfiable on a non-trivial
collection: three resources, a descending rule on a nullable attribute (one value nil),
then `id`. -/
theorem C09_nonvacuous :
    AllWf [exA, exB, exC] ∧ UniqueIds [exA, exB, exC] ∧ ([] : List GoString).Nodup ∧
    RulesOver [exA, exB, exC] (effRules exRules) ∧
    RulesHaveCases [exA, exB, exC] (effRules exRules) ∧
    idName ∈ (effRules exRules).map (fun r => (splitRule r).2) := by
  refine ⟨by decide, by decide, by decide, ?_, ?_, by decide⟩
  · intro rule hr
    have hr' : rule = [45, 110] ∨ rule = idName := by simpa [effRules, exRules] using hr
    rcases hr' with rfl | rfl
    · right
      refine ⟨exAttr, ?_⟩
      intro r hr
      have : r = exA ∨ r = exB ∨ r = exC := by simpa using hr
      rcases this with rfl | rfl | rfl <;> decide
    · left; decide
  · intro rule hr
    have hr' : rule = [45, 110] ∨ rule = idName := by simpa [effRules, exRules] using hr
    rcases hr' with rfl | rfl
    · right
      intro r hr a ha k hk
      have : r = exA ∨ r = exB ∨ r = exC := by simpa using hr
      have ha' : a = exAttr := by
        rcases this with rfl | rfl | rfl <;>
          (simp [splitRule, exA, exB, exC, GoMap.get?] at ha; exact ha.symm)
      subst ha'
      have hk' : k = .int := by
        have : Kind.ofCode? exAttr.ty = some .int := by decide
        rw [this] at hk; cases hk; rfl
      subst hk'
      decide
    · left; decide

/-- ... and the theorem then gives the model's pages: `-n,id` puts 7, 2, nil. -/
example :
    range mergeSorter [exA, exB, exC] [] none exRules 2 0 = .ok [exC, exA] ∧
    range mergeSorter [exA, exB, exC] [] none exRules 2 1 = .ok [exB] := by
  obtain ⟨h1, h2, h3, h4, h5, h6⟩ := C09_nonvacuous
  constructor
  · rw [C09_range_eq_spec mergeSorter C09_mergeSorter_local _ _ none _ h1 h2 h3 h4 h5
      (fun flt e => by cases e) h6 2 0 (by decide) (by decide)]
    decide
  · rw [C09_range_eq_spec mergeSorter C09_mergeSorter_local _ _ none _ h1 h2 h3 h4 h5
      (fun flt e => by cases e) h6 2 1 (by decide) (by decide)]
    decide

/-! ### Axioms -/
/-- `C09_range` with the filter hypothesis discharged by C10: for a well-typed filter
tree `IsAllowed` is the tree read as logic. -/
theorem C09_range_filtered (S : Sorter) (hS : S.Local) (c : List ResView) (ids : List GoString)
    (f : Option Filter) (rules : List GoString)
    (hwf : AllWf c) (hu : UniqueIds c) (hids : ids.Nodup)
    (hover : RulesOver c (effRules rules)) (hcases : RulesHaveCases c (effRules rules))
    (hft : ∀ flt, f = some flt → ∀ r ∈ c, wellTyped r flt = true) :
    ∃ π : List ResView, π.Perm (Spec.matching c ids f) ∧
      π.Pairwise (fun a b => Spec.le (effRules rules) a b = true) ∧
      ∀ size num, size < 2 ^ 64 → num * size < 2 ^ 63 →
        range S c ids f rules size num = .ok (Spec.page π size num) :=
  C09_range S hS c ids f rules hwf hu hids hover hcases
    (fun flt hflt r hr => C10_eval r (hwf r hr) flt (hft flt hflt r hr))

#print axioms C09_range_filtered
#print axioms C09_mergeSorter_local
#print axioms C09_less_spec
#print axioms C09_less_no_panic
#print axioms C09_less_strict_weak
#print axioms C09_less_neg_id_diagonal
#print axioms C09_range
#print axioms C09_unique_with_id
#print axioms C09_unique_with_id_range
#print axioms C09_range_eq_spec
#print axioms C09_partition
#print axioms C09_partition_all
#print axioms C09_known_uint64_counterexample
#print axioms C09_statement_false
#print axioms C09_nonvacuous

end Jsonapi
