/-
Helper lemmas for C04 / C03 (marshaling of resources): maps with unique keys, the
two folds of `marshalResource`, and `marshalResource = Spec.resourceObject` on the
domain `ResView.keyedWf`.
-/
import Jsonapi.Spec.Marshal
import Jsonapi.Spec.Filter
import Jsonapi.Proofs.MapLemmas
namespace Jsonapi

/-- Domain of C04: a well-typed resource whose attribute / relationship maps are keyed by
the attribute name / relationship name, all names distinct (what `Type.AddAttr` /
`Type.AddRel` guarantee). -/
def ResView.keyedWf (r : ResView) : Prop :=
  r.wf = true ∧ (∀ p ∈ r.attrs, p.1 = p.2.name) ∧ (∀ p ∈ r.rels, p.1 = p.2.fromName) ∧
  (r.attrs.keys ++ r.rels.keys).Nodup

instance c04_decKeyedWf (r : ResView) : Decidable r.keyedWf := by
  unfold ResView.keyedWf; exact inferInstance

namespace MarshalL

/-! ### maps with unique keys -/

theorem get?_of_mem {β} {m : GoMap β} (hnd : (GoMap.keys m).Nodup) {k : GoString} {v : β}
    (h : (k, v) ∈ m) : GoMap.get? m k = some v := by
  induction m with
  | nil => cases h
  | cons p m ih =>
    obtain ⟨k', v'⟩ := p
    simp only [GoMap.keys, List.map_cons, List.nodup_cons] at hnd
    rcases List.mem_cons.1 h with e | h'
    · cases e; simp [GoMap.get?]
    · have hk : k ∈ GoMap.keys m := List.mem_map.2 ⟨(k, v), h', rfl⟩
      have hne : ¬ k' = k := fun e => hnd.1 (e ▸ hk)
      simp only [GoMap.get?, hne, if_false]
      exact ih hnd.2 h'

theorem keys_append {β} (a b : GoMap β) : GoMap.keys (a ++ b) = GoMap.keys a ++ GoMap.keys b := by
  simp [GoMap.keys]

theorem get_set (r : ResView) (n k : GoString) (v : GoVal) :
    ({ r with vals := GoMap.set r.vals n v } : ResView).get k = if k = n then v else r.get k := by
  unfold ResView.get
  by_cases h : k = n
  · subst h; simp [GoMap.get?_set_self]
  · simp [GoMap.get?_set_ne _ _ _ _ h, h]

theorem nodup_mid {α} {a b : List α} {x : α} :
    (a ++ x :: b).Nodup ↔ x ∉ a ∧ x ∉ b ∧ (a ++ b).Nodup := by
  rw [List.perm_middle.nodup_iff, List.nodup_cons, List.mem_append, not_or, and_assoc]

/-! ### generic fold lemmas -/

/-- A fold over `Res` that never fails while an invariant is maintained. -/
theorem fold_inv {σ α : Type} (F : Res σ → α → Res σ) (Inv : σ → List α → Prop)
    (hF : ∀ s a rest, Inv s (a :: rest) → ∃ s', F (.ok s) a = .ok s' ∧ Inv s' rest) :
    ∀ (l : List α) (s : σ), Inv s l → ∃ s', l.foldl F (.ok s) = .ok s' ∧ Inv s' [] := by
  intro l
  induction l with
  | nil => intro s h; exact ⟨s, rfl, h⟩
  | cons a l ih =>
    intro s h
    obtain ⟨s', hs', hi⟩ := hF s a l h
    simp only [List.foldl_cons, hs']
    exact ih s' hi

/-- plain fold with an invariant -/
theorem fold_inv' {σ α : Type} (F : σ → α → σ) (Inv : σ → List α → Prop)
    (hF : ∀ s a rest, Inv s (a :: rest) → Inv (F s a) rest) :
    ∀ (l : List α) (s : σ), Inv s l → Inv (l.foldl F s) [] := by
  intro l
  induction l with
  | nil => intro s h; exact h
  | cons a l ih =>
    intro s h
    simp only [List.foldl_cons]
    exact ih _ (hF s a l h)

/-! ### the attributes fold -/

theorem attrs_fold (r : ResView) (fields : List GoString) (l : GoMap Attr) :
    ∀ (acc : List (GoString × Json)), (GoMap.keys acc ++ l.map (·.2.name)).Nodup →
    l.foldl (fun m p => if fields.contains p.2.name then
        GoMap.set m p.2.name (encodeAttr (r.get p.2.name)) else m) acc
    = acc ++ ((GoMap.vals l).filter (fun a => fields.contains a.name)).map
        (fun a => (a.name, encodeAttr (r.get a.name))) := by
  induction l with
  | nil => intro acc _; simp [GoMap.vals]
  | cons p l ih =>
    intro acc hnd
    simp only [List.foldl_cons]
    simp only [List.map_cons] at hnd
    obtain ⟨hnot, -, hnd'⟩ := nodup_mid.1 hnd
    by_cases hc : fields.contains p.2.name = true
    · have hc' : p.2.name ∈ fields := by simpa using hc
      simp only [hc, if_true]
      rw [GoMap.set_of_not_mem _ _ _ hnot, ih]
      · simp [GoMap.vals, hc']
      · rw [keys_append]
        simpa [GoMap.keys, List.append_assoc] using hnd
    · have hc' : p.2.name ∉ fields := by simpa using hc
      have hc2 : fields.contains p.2.name = false := by simpa using hc
      simp only [hc2, Bool.false_eq_true, if_false]
      rw [ih _ hnd']
      simp [GoMap.vals, hc']

/-! ### one relationship -/

theorem buildSelfLink_congr {r r' : ResView} (hid : r'.id = r.id) (htn : r'.typeName = r.typeName)
    (prepath : GoString) : buildSelfLink r' prepath = buildSelfLink r prepath := by
  simp only [buildSelfLink, hid, htn]

theorem buildRelationshipLinks_congr {r r' : ResView} (hid : r'.id = r.id)
    (htn : r'.typeName = r.typeName) (prepath n : GoString) :
    buildRelationshipLinks r' prepath n = buildRelationshipLinks r prepath n := by
  simp only [buildRelationshipLinks, buildSelfLink_congr hid htn]

theorem marshalRel_toOne {r r' : ResView} (hid : r'.id = r.id) (htn : r'.typeName = r.typeName)
    (prepath : GoString) {rel : Rel} {id : GoString} (hone : rel.toOne = true)
    (hg : r.get rel.fromName = .val .string (.s id))
    (hg' : r'.get rel.fromName = r.get rel.fromName) (w : Bool) :
    marshalRel r' prepath rel w = .ok (Spec.relObject r prepath rel w, none) := by
  unfold marshalRel Spec.relObject Spec.relDataJson
  rw [buildRelationshipLinks_congr hid htn]
  simp only [hone, if_true, hg', hg]
  cases w
  · simp
  · by_cases h : id = [] <;> simp [h]

theorem marshalRel_toMany {r r' : ResView} (hid : r'.id = r.id) (htn : r'.typeName = r.typeName)
    (prepath : GoString) {rel : Rel} {ids : List GoString} (hmany : rel.toOne = false)
    (hg : r.get rel.fromName = .strs ids)
    (hg' : r'.get rel.fromName = r.get rel.fromName) (w : Bool) :
    marshalRel r' prepath rel w =
      .ok (Spec.relObject r prepath rel w, if w then some (Typ.sortStrings ids) else none) := by
  unfold marshalRel Spec.relObject Spec.relDataJson
  rw [buildRelationshipLinks_congr hid htn]
  simp only [hmany, Bool.false_eq_true, if_false, hg', hg]
  cases w <;> simp

/-- What `wf` says about one relationship of a keyed resource. -/
theorem wf_rel {r : ResView} (hwf : r.wf = true) (hnd : (GoMap.keys r.rels).Nodup)
    {p : GoString × Rel} (hp : p ∈ r.rels) :
    (p.2.toOne = true ∧ ∃ id, r.get p.1 = .val .string (.s id)) ∨
    (p.2.toOne = false ∧ ∃ ids, r.get p.1 = .strs ids) := by
  unfold ResView.wf at hwf
  rw [Bool.and_eq_true] at hwf
  have h := (List.all_eq_true.1 hwf.2) p hp
  have hget : GoMap.get? r.rels p.1 = some p.2 := get?_of_mem hnd (by cases p; exact hp)
  rw [hget] at h
  simp only at h
  split at h
  · exact Or.inl ⟨h, _, by assumption⟩
  · exact Or.inr ⟨by simpa using h, _, by assumption⟩
  · cases h

/-! ### the relationships fold -/

/-- marshaling changes nothing in a resource but the order of its to-many ID lists -/
def SameUpTo (r r' : ResView) : Prop :=
  r'.typeName = r.typeName ∧ r'.id = r.id ∧ r'.attrs = r.attrs ∧ r'.rels = r.rels ∧
  ∀ k, r'.get k = r.get k ∨ ∃ l, r.get k = .strs l ∧ r'.get k = .strs (Typ.sortStrings l)

theorem SameUpTo.refl (r : ResView) : SameUpTo r r := ⟨rfl, rfl, rfl, rfl, fun _ => Or.inl rfl⟩

/-- the relationship members the specification lists for a prefix of the relationships -/
def relMembers (r : ResView) (prepath : GoString) (fields want : List GoString)
    (l : GoMap Rel) : List (GoString × Json) :=
  ((GoMap.vals l).filter (fun rel => fields.contains rel.fromName)).map
    (fun rel => (rel.fromName, Spec.relObject r prepath rel (want.contains rel.fromName)))

def RelInv (r : ResView) (prepath : GoString) (fields want : List GoString)
    (s : List (GoString × Json) × ResView) (rest : List (GoString × Rel)) : Prop :=
  ∃ done, r.rels = done ++ rest ∧ s.1 = relMembers r prepath fields want done ∧
    SameUpTo r s.2 ∧ ∀ k, k ∉ done.map (·.2.fromName) → s.2.get k = r.get k

theorem relMembers_snoc_sel (r : ResView) (prepath : GoString) (fields want : List GoString)
    (done : GoMap Rel) (p : GoString × Rel) (h : fields.contains p.2.fromName = true) :
    relMembers r prepath fields want (done ++ [p]) =
      relMembers r prepath fields want done ++
        [(p.2.fromName, Spec.relObject r prepath p.2 (want.contains p.2.fromName))] := by
  have h' : p.2.fromName ∈ fields := by simpa using h
  simp [relMembers, GoMap.vals, List.filter_append, h']

theorem relMembers_snoc_skip (r : ResView) (prepath : GoString) (fields want : List GoString)
    (done : GoMap Rel) (p : GoString × Rel) (h : fields.contains p.2.fromName = false) :
    relMembers r prepath fields want (done ++ [p]) = relMembers r prepath fields want done := by
  have h' : p.2.fromName ∉ fields := by simpa using h
  simp [relMembers, GoMap.vals, List.filter_append, h']

theorem keys_relMembers_subset (r : ResView) (prepath : GoString) (fields want : List GoString)
    (done : GoMap Rel) {k : GoString} (h : k ∈ GoMap.keys (relMembers r prepath fields want done)) :
    k ∈ done.map (·.2.fromName) := by
  simp only [GoMap.keys, relMembers, GoMap.vals, List.map_map, List.mem_map, List.mem_filter,
    Function.comp] at h
  obtain ⟨rel, ⟨⟨p, hp, rfl⟩, -⟩, rfl⟩ := h
  exact List.mem_map.2 ⟨p, hp, rfl⟩

theorem rel_names_nodup {r : ResView} (hr : r.keyedWf) : (r.rels.map (·.2.fromName)).Nodup := by
  obtain ⟨-, -, hk, hnd⟩ := hr
  have : r.rels.map (·.2.fromName) = GoMap.keys r.rels := by
    unfold GoMap.keys
    exact List.map_congr_left (fun p hp => (hk p hp).symm)
  rw [this]
  exact (List.nodup_append.1 hnd).2.1

theorem attr_names_nodup {r : ResView} (hr : r.keyedWf) : (r.attrs.map (·.2.name)).Nodup := by
  obtain ⟨-, hk, -, hnd⟩ := hr
  have : r.attrs.map (·.2.name) = GoMap.keys r.attrs := by
    unfold GoMap.keys
    exact List.map_congr_left (fun p hp => (hk p hp).symm)
  rw [this]
  exact (List.nodup_append.1 hnd).1

theorem rel_step_skip {r : ResView} {prepath : GoString} {fields want : List GoString}
    {s : List (GoString × Json) × ResView} {p : GoString × Rel} {rest : List (GoString × Rel)}
    (h : RelInv r prepath fields want s (p :: rest)) (hc : fields.contains p.2.fromName = false) :
    RelInv r prepath fields want s rest := by
  obtain ⟨done, hd, hm, hs, hg⟩ := h
  refine ⟨done ++ [p], by simp [hd], ?_, hs, ?_⟩
  · rw [relMembers_snoc_skip _ _ _ _ _ _ hc]; exact hm
  · intro k hk
    apply hg
    intro hk'
    exact hk (by simp only [List.map_append, List.mem_append]; exact Or.inl hk')

theorem rel_step_sel {r : ResView} (hr : r.keyedWf) {prepath : GoString} {fields want : List GoString}
    {m : List (GoString × Json)} {r' : ResView} {p : GoString × Rel}
    {rest : List (GoString × Rel)}
    (h : RelInv r prepath fields want (m, r') (p :: rest))
    (hc : fields.contains p.2.fromName = true) :
    ∃ j o, marshalRel r' prepath p.2 (want.contains p.2.fromName) = .ok (j, o) ∧
      RelInv r prepath fields want
        (GoMap.set m p.2.fromName j,
          match o with
          | none => r'
          | some sorted => { r' with vals := GoMap.set r'.vals p.2.fromName (.strs sorted) }) rest := by
  obtain ⟨done, hd, hm, hs, hg⟩ := h
  simp only at hm hs hg
  have hnd := rel_names_nodup hr
  rw [hd] at hnd
  simp only [List.map_append, List.map_cons] at hnd
  obtain ⟨hnotdone, -, -⟩ := nodup_mid.1 hnd
  have hpmem : p ∈ r.rels := by rw [hd]; simp
  have hkey : p.1 = p.2.fromName := hr.2.2.1 p hpmem
  have hget' : r'.get p.2.fromName = r.get p.2.fromName := hg _ hnotdone
  have hnotm : p.2.fromName ∉ GoMap.keys m := by
    rw [hm]; exact fun hk => hnotdone (keys_relMembers_subset _ _ _ _ _ hk)
  obtain ⟨htn, hid, hat, hrl, hsame⟩ := hs
  have hwf := wf_rel hr.1 (List.nodup_append.1 hr.2.2.2).2.1 hpmem
  rw [hkey] at hwf
  have hm' : ∀ j, GoMap.set m p.2.fromName j =
      relMembers r prepath fields want (done ++ [p]) ↔
      j = Spec.relObject r prepath p.2 (want.contains p.2.fromName) := by
    intro j
    rw [GoMap.set_of_not_mem _ _ _ hnotm, relMembers_snoc_sel _ _ _ _ _ _ hc, hm]
    simp
  have hdone' : r.rels = (done ++ [p]) ++ rest := by simp [hd]
  have hg2 : ∀ k, k ∉ (done ++ [p]).map (·.2.fromName) → r'.get k = r.get k := by
    intro k hk
    apply hg
    intro hk'
    exact hk (by simp only [List.map_append, List.mem_append]; exact Or.inl hk')
  rcases hwf with ⟨hone, id, hv⟩ | ⟨hmany, ids, hv⟩
  · refine ⟨_, _, marshalRel_toOne hid htn prepath hone hv hget' _, ?_⟩
    exact ⟨done ++ [p], hdone', (hm' _).2 rfl, ⟨htn, hid, hat, hrl, hsame⟩, hg2⟩
  · refine ⟨_, _, marshalRel_toMany hid htn prepath hmany hv hget' _, ?_⟩
    cases hw : want.contains p.2.fromName
    · exact ⟨done ++ [p], hdone', (hm' _).2 (by rw [hw]),
        ⟨htn, hid, hat, hrl, hsame⟩, hg2⟩
    · refine ⟨done ++ [p], hdone', (hm' _).2 (by rw [hw]),
        ⟨htn, hid, hat, hrl, ?_⟩, ?_⟩
      · intro k
        simp only [if_true, get_set]
        by_cases hk : k = p.2.fromName
        · subst hk; simp only [if_true]; exact Or.inr ⟨ids, hv, rfl⟩
        · simp only [hk, if_false]; exact hsame k
      · intro k hk
        simp only [if_true, get_set]
        have hk1 : k ≠ p.2.fromName := by
          intro e; apply hk; simp [e]
        simp only [hk1, if_false]
        exact hg2 k hk

/-! ### the whole resource -/

theorem marshalResource_eq (r : ResView) (hr : r.keyedWf) (prepath : GoString)
    (fields : List GoString) (relData : GoMap (List GoString)) (rmeta : Meta) :
    ∃ r', marshalResource r prepath fields relData rmeta =
        .ok (Spec.resourceObject r prepath fields relData rmeta, r') ∧ SameUpTo r r' := by
  unfold marshalResource Spec.resourceObject
  rw [attrs_fold r fields r.attrs [] (by simpa [GoMap.keys] using attr_names_nodup hr)]
  simp only [List.nil_append]
  have init : RelInv r prepath fields ((relData.get? r.typeName).getD []) ([], r) r.rels :=
    ⟨[], by simp, by simp [relMembers, GoMap.vals], SameUpTo.refl r, fun _ _ => rfl⟩
  apply Exists.elim (fold_inv _ (RelInv r prepath fields ((relData.get? r.typeName).getD []))
    ?_ r.rels ([], r) init)
  · rintro ⟨m, r'⟩ ⟨hfold, hinv⟩
    rw [hfold]
    obtain ⟨done, hd, hm, hs, -⟩ := hinv
    simp only [List.append_nil] at hd
    simp only at hm hs
    subst hd
    refine ⟨r', ?_, hs⟩
    simp only [hm, relMembers]
  · intro s a rest hinv
    obtain ⟨m, r'⟩ := s
    by_cases hc : fields.contains a.2.fromName = true
    · obtain ⟨j, o, hm, hinv'⟩ := rel_step_sel hr hinv hc
      simp only [hc, if_true, hm]
      cases o <;> exact ⟨_, rfl, hinv'⟩
    · have hc' : fields.contains a.2.fromName = false := by simpa using hc
      simp only [hc', Bool.false_eq_true, if_false]
      exact ⟨_, rfl, rel_step_skip hinv hc'⟩

end MarshalL
end Jsonapi
